# /verif/Makefile - builds the Coq development (full .vo build), the extraction and the model driver.
COQFILES := $(wildcard coq/*.v)

.PHONY: setup proofs model clean prebuild
setup: model proofs prebuild

# the executable model and its extraction do not depend on any proof file
model:
	cd coq && coq_makefile -f _CoqProject -o Makefile > /dev/null && $(MAKE) -j16 --no-print-directory Extract.vo
	mkdir -p build
	cp coq/msm_model.ml coq/msm_model.mli harness/model_main.ml build/
	cd build && ocamlfind ocamlopt -w -a -O2 msm_model.mli msm_model.ml model_main.ml -o model_main 2>&1 | grep -v "options -O2 is only relevant" || true
	test -x build/model_main

# every .vo (full build, no -vos); -k so that one broken proof file does not hide the others
proofs: model
	cd coq && $(MAKE) -k -j16 --no-print-directory

prebuild: model
	./check --prebuild

clean:
	rm -rf build coq/*.vo coq/*.vok coq/*.vos coq/*.glob coq/.*.aux coq/Makefile coq/Makefile.conf coq/.Makefile.d coq/msm_model.ml coq/msm_model.mli
