# /verif/Makefile - builds the Coq development (full .vo build), the extraction and the model driver.
COQFILES := $(wildcard coq/*.v)

.PHONY: setup coq model clean
setup: coq model

coq:
	cd coq && coq_makefile -f _CoqProject -o Makefile > /dev/null && $(MAKE) -j16 --no-print-directory

model: coq
	mkdir -p build
	cp coq/msm_model.ml coq/msm_model.mli harness/model_main.ml build/
	cd build && ocamlfind ocamlopt -w -a -O2 msm_model.mli msm_model.ml model_main.ml -o model_main 2>&1 | grep -v "options -O2 is only relevant" || true
	test -x build/model_main

clean:
	rm -rf build coq/*.vo coq/*.vok coq/*.vos coq/*.glob coq/.*.aux coq/Makefile coq/Makefile.conf coq/.Makefile.d coq/msm_model.ml coq/msm_model.mli
