(* BackLevel.v - one machine level of back / back11 (favor_runtime_speed and favor_compile_time),
   parametric in the processors of its submachines.  Written against back/state_machine.hpp,
   back/dispatch_table.hpp, back/favor_compile_time.hpp, back/history_policies.hpp. *)
From Msm Require Export Monad.

Inductive ekind := EkPlain | EkDirect (subs:list nat) | EkEntryPt (p:nat).

Record child_ops := ChildOps {
  co_pei : nat -> evt -> nat -> M nat;            (* fuel, event, source (back) / info (backmp11) -> result code *)
  (* do_entry / on_entry of the submachine, split around the front-end's on_entry behaviour, which receives the
     enclosing machine as its fsm argument and is therefore run by the enclosing level *)
  co_entry_pre : evt -> ekind -> M unit;
  co_entry_post : nat -> evt -> ekind -> M unit;
  (* do_exit / on_exit, split the same way around the front-end's on_exit *)
  co_exit_pre : nat -> evt -> M unit;
  co_exit_post : evt -> M unit;
  co_start : nat -> M unit;                       (* start() on this machine as root *)
  co_stop : nat -> M unit;                        (* stop() *)
  co_enqueue : evt -> M unit;                     (* enqueue_event from outside *)
  co_drain : nat -> nat -> M unit;                (* fuel, max (0 = all): execute_queued_events / process_event_pool *)
  co_trigs : list trigger;                        (* triggers of the recursive tables (what decides forwarding) *)
  co_term : rnode -> bool;                        (* backmp11: TerminateFlag active (recursive) *)
  co_intr : rnode -> bool;                        (* backmp11: InterruptedFlag active (recursive) *)
  co_endintr : rnode -> nat -> bool;              (* backmp11: EndInterruptFlag<E> active (recursive) *)
  co_defers : rnode -> nat -> bool;               (* backmp11: some active state defers the event type (recursive) *)
  co_flag_or : rnode -> nat -> bool;              (* is_flag_active<F>() / <F, Flag_OR> *)
  co_flag_and : rnode -> nat -> bool              (* is_flag_active<F, Flag_AND> *)
}.

Definition is_trnone (t:trigger) : bool := match t with TrNone => true | _ => false end.

Section BackLevel.
Variable cf : cfg.
Variable parents : list (option nat).
Variable contained : bool.
Variable mc : machine.
Variable children : list (option child_ops).

Definition child (s:nat) : option child_ops := nth s children None.
Definition is11 : bool := match c_be cf with Back11 => true | _ => false end.
Definition start_queues : bool := if is11 then back11_start_queues else back_start_queues.
Definition entry_throw_resets : bool := if is11 then back11_entry_throw_resets else back_entry_throw_resets.
Definition chain_continue (res:nat) : bool := tab1 (if is11 then back11_chain_continue else back_chain_continue) res.
Definition chain_merge (res sub:nat) : nat := tab2 (if is11 then back11_chain_merge else back_chain_merge) res sub.
Definition internal_tried (res:nat) : bool := tab1 (if is11 then back11_internal_tried else back_internal_tried) res.

(* user flags: flag_true if the active state carries the flag, otherwise a submachine state forwards to the
   submachine's is_flag_active<Flag>() (OR); folded over the regions with OR resp. AND *)
Definition has_flag (st:state) (f:nat) : bool := memb f (s_flags st).
Definition flag_entry (rn:rnode) (f s:nat) : bool :=
  has_flag (get_state mc s) f ||
  match child s, nth s (kids rn) None with
  | Some co, Some kn => co_flag_or co kn f
  | _, _ => false
  end.
Definition back_flag_or (rn:rnode) (f:nat) : bool := existsb (flag_entry rn f) (act rn).
Definition back_flag_and (rn:rnode) (f:nat) : bool := forallb (flag_entry rn f) (act rn).

Definition SRC_DM := bit_or SRC_DIRECT SRC_MSG_QUEUE.
Definition SRC_DD := bit_or SRC_DIRECT SRC_DEFERRED.

(* terminate / interrupt: non-forwarding flags, so only this level's active states count *)
Definition flag_or (rn:rnode) (p:state -> bool) : bool := existsb (fun s => p (get_state mc s)) (act rn).
Definition blocked (rn:rnode) (ety:nat) : bool :=
  has_blocking mc &&
  (flag_or rn is_term_state || (flag_or rn is_intr_state && negb (flag_or rn (fun st => ends_intr st ety)))).

(* fsm.process_event(e) / fsm.enqueue_event(e) called from inside a behaviour of this machine *)
Definition cb_submit (e:evt) : M unit :=
  rn <- get ;;
  if blocked rn (e_ty e) then ret tt
  else if processing rn then push_msg (QEv e SRC_DM 0%Z false)
  else set_bad 1.
Definition cb_enqueue (e:evt) : M unit := push_msg (QEv e SRC_MSG_QUEUE 0%Z false).
Definition cb := callback cb_submit cb_enqueue.
Definition cb_at := callback_at cb_submit cb_enqueue.

(* events forwarded by exit points arrive as process_event on the OUTERMOST machine: fill_states / set_containing_sm
   hand the same containing_sm pointer down through every nesting level (state_machine.hpp add_state), so an exit
   point at depth 2 is wired to the root, not to the machine whose table has the row leaving it *)
Definition absorb_up : M unit := if contained then ret tt else (ups <- take_up ;; iterM cb_submit ups).
Definition in_child {A} (s:nat) (dflt:A) (m:M A) : M A := r <- lift_child s dflt m ;; absorb_up ;; ret r.

Definition defer_event (e:evt) : M unit :=
  rn <- get ;; push_def (QEv e SRC_DD (wrap_back (curseq rn + 1)) false).

(* ---- entry / exit of one state of this machine ---- *)
Definition exec_exit (fuel s:nat) (ev:evt) : M unit :=
  match child s with
  | Some co =>
      in_child s tt (co_exit_pre co fuel ev) ;;
      cb_at [s] KMExit 0 ev false ;;
      in_child s tt (co_exit_post co ev)
  | None => cb KExit s ev false
  end.

(* k <> EkPlain means the event reaches the state wrapped in direct_entry_event *)
(* fwd: does the event the state is entered with convert to an exit point's event (a Kleene row hands over a boost::any,
   which does not; front::none does not either) *)
Definition exec_entry_gen (fwd:bool) (fuel s:nat) (ev:evt) (k:ekind) : M unit :=
  match child s with
  | Some co =>
      let body :=
        in_child s tt (co_entry_pre co ev k) ;;
        cb_at [s] KMEntry 0 ev (match k with EkPlain => false | _ => true end) ;;
        in_child s tt (co_entry_post co fuel ev k) in
      (* does a throwing entry behaviour leave the submachine's processing marker set?  (probed: Generated.v) *)
      if entry_throw_resets then on_throw body (lift_child s tt (modify (fun rn => set_processing rn false))) else body
  | None =>
      match s_kind (get_state mc s) with
      | KExitPt ety =>
          cb KEntry s ev (match k with EkPlain => false | _ => true end) ;;
          (* exit_pt::forward_event forwards only if the incoming event converts to the exit point's event: the events of a
             definition convert into each other (the generated event types do, the machine's initial_event included),
             front::none does not - an exit pseudo state re-entered through history by a completion transition forwards
             nothing *)
          if fwd && negb (Nat.eqb (e_ty ev) EV_NONE) then push_up (Evt ety (e_pay ev)) else ret tt
      | _ => cb KEntry s ev false      (* remove_direct_entry_event_wrapper *)
      end
  end.
Definition exec_entry := exec_entry_gen true.
Definition row_converts (x:row) : bool := match r_trig x with TrAny => false | _ => true end.

(* ---- rows ---- *)
Definition tgt_state (t:target) : option nat :=
  match t with TgNone => None | TgState s => Some s | TgDirect s _ => Some s | TgEntryPt s _ => Some s end.
Definition tgt_ekind (t:target) : ekind :=
  match t with TgDirect _ subs => EkDirect subs | TgEntryPt _ p => EkEntryPt p | _ => EkPlain end.

Definition exit_pt_active (rn:rnode) (s p:nat) : bool :=
  match nth s (kids rn) None with Some kn => memb p (act kn) | None => false end.

Definition run_action (x:row) (ev:evt) : M nat :=
  match r_act x with
  | ActNone => ret HANDLED_TRUE
  | ActCall => cb KAction (r_id x) ev false ;; ret HANDLED_TRUE
  | ActDefer => defer_event ev ;; ret HANDLED_DEFERRED
  end.

Definition run_guard (x:row) (ev:evt) : M bool :=
  if r_guard x then (b <- guard_value (r_id x) ;; cb (KGuard b) (r_id x) ev false ;; ret b) else ret true.

Definition exec_row (fuel r:nat) (x:row) (ev:evt) : M nat :=
  match tgt_state (r_tgt x) with
  | None =>                                  (* irow_ family, internal_ family *)
      b <- run_guard x ev ;;
      if b then run_action x ev else ret HANDLED_GUARD_REJECT
  | Some nxt =>
      let cur := r_src x in
      rn <- get ;;
      if match r_exitpt x with Some p => negb (exit_pt_active rn cur p) | None => false end
      then ret HANDLED_FALSE
      else
        b <- run_guard x ev ;;
        if negb b then ret HANDLED_GUARD_REJECT
        else
          set_act_at r (switch_id (c_pol cf) 0 cur nxt) ;;
          exec_exit fuel cur ev ;;
          set_act_at r (switch_id (c_pol cf) 1 cur nxt) ;;
          res <- run_action x ev ;;
          set_act_at r (switch_id (c_pol cf) 2 cur nxt) ;;
          exec_entry_gen (row_converts x) fuel nxt ev (tgt_ekind (r_tgt x)) ;;
          set_act_at r (switch_id (c_pol cf) 3 cur nxt) ;;
          ret res
  end.

(* ---- cells ---- *)
Inductive cellitem := CRow (x:row) | CFrow | CDefer.

Definition kleene_ok : bool := negb (c_fct cf).
Definition row_matches (ety:nat) (x:row) : bool := trig_matches parents kleene_ok (r_trig x) ety.

(* does the submachine under s get the event: existence of a frow (runtime speed) /
   a successful any_cast in process_any_event (compile time) *)
Definition forwards (s ety:nat) : bool :=
  match child s with
  | None => false
  | Some co =>
      if c_fct cf
      then (* call_submachine is only installed by the default_init_cell for ordinary events: the variant for
              completion events has no composite case, so `none` is never forwarded under favor_compile_time *)
           negb (Nat.eqb ety EV_NONE) &&
           existsb (fun t => match t with
                             | TrEv e => Nat.eqb e ety
                             | _ => false end) (co_trigs co)
      else existsb (fun t => trig_matches parents true t ety) (co_trigs co)
  end.

Definition state_defers (s ety:nat) : bool := memb ety (s_defers (get_state mc s)).

Definition table_rows (s ety:nat) : list row :=
  (if is_sub mc s then [] else rev (filter (row_matches ety) (s_irows (get_state mc s))))
  ++ rev (filter (fun x => Nat.eqb (r_src x) s && row_matches ety x) (m_rows mc)).

Definition cell_items (s ety:nat) : list cellitem :=
  if c_fct cf then
    (if forwards s ety && negb (state_defers s ety) then [CFrow] else [])
    ++ map CRow (table_rows s ety)
    ++ (if state_defers s ety then [CDefer] else [])
  else
    let l := (if forwards s ety then [CFrow] else []) ++ map CRow (table_rows s ety) in
    match l with
    | [] => if state_defers s ety then [CDefer] else []
    | _ => l
    end.

Definition exec_item (fuel r s:nat) (ev:evt) (it:cellitem) : M nat :=
  match it with
  | CRow x => exec_row fuel r x ev
  | CFrow =>
      match child s with
      | Some co =>
          res <- in_child s 0 (co_pei co fuel ev SRC_DEFAULT) ;;
          (if c_fct cf then ret tt else set_act_at r s) ;;
          ret res
      | None => ret 0
      end
  | CDefer => defer_event ev ;; ret HANDLED_DEFERRED
  end.

(* dispatch_table::chain_row (favor_runtime_speed) *)
Definition chain_row (fuel r s:nat) (ev:evt) (l:list cellitem) : M nat :=
  chain_gen (exec_item fuel r s ev) chain_continue chain_merge l.
(* favor_compile_time chain_row::operator() *)
Definition fct_chain (fuel r s:nat) (ev:evt) (res:nat) (l:list cellitem) : M nat :=
  loop_gen (exec_item fuel r s ev) (tab1 fct_chain_continue) (tab2 fct_chain_step) res l.

Definition run_cell (fuel r s:nat) (ev:evt) (l:list cellitem) : M nat :=
  if c_fct cf then fct_chain fuel r s ev HANDLED_FALSE l
  else match l with
       | [] => ret HANDLED_FALSE
       | [x] => exec_item fuel r s ev x
       | _ => chain_row fuel r s ev l
       end.

Fixpoint regions_loop (fuel:nat) (ev:evt) (n r:nat) (acc:nat) : M nat :=
  match n with
  | O => ret acc
  | S n' =>
      rn <- get ;;
      let s := nth r (act rn) 0 in
      res <- run_cell fuel r s ev (cell_items s (e_ty ev)) ;;
      regions_loop fuel ev n' (S r) (bit_or acc res)
  end.

(* the machine's own internal_transition_table: cell 0 *)
Definition internal_processable (ety:nat) : bool :=
  existsb (fun x => match r_trig x with
                    | TrEv e => Nat.eqb e ety && negb (Nat.eqb ety EV_NONE)
                    | TrNone => Nat.eqb ety EV_NONE
                    | TrAny => Nat.eqb ety EV_ANY end) (m_irows mc).
Definition internal_items (ety:nat) : list cellitem :=
  map CRow (rev (filter (row_matches ety) (m_irows mc))).

(* no_transition: once per region with that region's active id, only when nothing was handled, never for
   completion events, and on a submachine only for events sent to it directly *)
Definition nt_phase (ev:evt) (direct:bool) (handled:nat) : M unit :=
  if (negb contained || direct) && Nat.eqb handled 0 && negb (Nat.eqb (e_ty ev) EV_NONE)
  then (rn <- get ;; iterM (fun s => cb KNoTrans s ev false) (act rn))
  else ret tt.

Definition do_process_event (fuel:nat) (ev:evt) (direct:bool) : M nat :=
  handled <- regions_loop fuel ev (m_nreg mc) 0 HANDLED_FALSE ;;
  handled <- (if internal_processable (e_ty ev) && internal_tried handled
              then (rn <- get ;; ri <- run_cell fuel 0 (nth 0 (act rn) 0) ev (internal_items (e_ty ev)) ;;
                    ret (bit_or handled ri))
              else ret handled) ;;
  nt_phase ev direct handled ;;
  ret handled.

(* ---- run to completion ---- *)
Section Rtc.
Variable pei_rec : evt -> nat -> M nat.     (* process_event_internal of this level with less fuel *)

Definition oof {A} (a:A) : M A := set_bad 2 ;; ret a.

Fixpoint drain_msgq (fuel:nat) : M unit :=
  match fuel with
  | O => rn <- get ;; match msgq rn with [] => ret tt | _ => oof tt end
  | S f =>
      rn <- get ;;
      match msgq rn with
      | [] => ret tt
      | QEv e src _ _ :: rest => put (set_msgq rn rest) ;; pei_rec e src ;; drain_msgq f
      | QCompl _ _ _ :: rest => put (set_msgq rn rest) ;; drain_msgq f
      end
  end.

(* execute_single_queued_event: exactly the oldest stored call, nothing else *)
Definition drain_one : M unit :=
  rn <- get ;;
  match msgq rn with
  | [] => ret tt
  | QEv e src _ _ :: rest => put (set_msgq rn rest) ;; pei_rec e src ;; ret tt
  | QCompl _ _ _ :: rest => put (set_msgq rn rest)
  end.

Definition qseq (q:qitem) : Z := match q with QEv _ _ z _ => z | QCompl _ _ _ => 0%Z end.
Definition set_qseq (z:Z) (q:qitem) : qitem := match q with QEv e s _ m => QEv e s z m | other => other end.
(* std::stable_sort with sort_greater: descending by the distance of the sequence number to the current sequence
   (unsigned, modulo the counter width), equal elements keep their order *)
Definition seq_dist (cur z:Z) : Z := Z.modulo (z - cur) (Z.pow 2 (Z.of_nat back_seq_bits)).
Fixpoint insert_desc (cur:Z) (x:qitem) (l:list qitem) : list qitem :=
  match l with
  | [] => [x]
  | y :: t => if Z.ltb (seq_dist cur (qseq y)) (seq_dist cur (qseq x)) then x :: y :: t else y :: insert_desc cur x t
  end.
Definition sort_desc (cur:Z) (l:list qitem) : list qitem := fold_left (fun acc x => insert_desc cur x acc) l [].

(* the while loop of do_handle_deferred; returns not_only_deferred *)
Fixpoint deferred_loop (fuel:nat) : M bool :=
  match fuel with
  | O => oof false
  | S f =>
      rn <- get ;;
      match defq rn with
      | [] => ret false
      | QEv e src seq _ :: rest =>
          if negb (Z.eqb (curseq rn) seq) then ret false
          else
            put (set_defq rn rest) ;;
            res <- pei_rec e src ;;
            if tab1 back_deferred_stops res then ret true else deferred_loop f
      | QCompl _ _ _ :: rest => put (set_defq rn rest) ;; deferred_loop f
      end
  end.

Fixpoint handle_deferred (fuel:nat) (new_seq:bool) : M unit :=
  match fuel with
  | O => oof tt
  | S f =>
      if negb (has_deferring_states mc) then ret tt
      else
        when new_seq (modify (fun rn => set_curseq rn (wrap_back (curseq rn + 1)))) ;;
        stopped <- deferred_loop f ;;
        if stopped
        then
          modify (fun rn => set_defq rn (map (set_qseq (wrap_back (curseq rn + 1))) (sort_desc (curseq rn) (defq rn)))) ;;
          handle_deferred f true
        else ret tt
  end.

Definition completion_event : evt := Evt EV_NONE 0.

(* process_event_internal, given the recursive instance for nested calls *)
Definition pei_body (fuel:nat) (ev:evt) (src:nat) : M nat :=
  rn <- get ;;
  if blocked rn (e_ty ev) then ret HANDLED_TRUE
  else if processing rn then push_msg (QEv ev SRC_DM 0%Z false) ;; ret HANDLED_TRUE
  else
    modify (fun rn => set_processing rn true) ;;
    handled <- catch (do_process_event fuel ev (has_bits src SRC_DIRECT))
                     (cb KExc 0 ev false ;; ret HANDLED_FALSE) ;;
    modify (fun rn => set_processing rn false) ;;
    (if has_completion_rows mc && has_bits handled HANDLED_TRUE
     then pei_rec completion_event (bit_or src SRC_DIRECT) ;; ret tt else ret tt) ;;
    (if c_qbefore cf
     then (if negb (has_bits src SRC_MSG_QUEUE)
           then drain_msgq fuel ;;
                (if negb (has_bits src SRC_DEFERRED) then handle_deferred fuel (has_bits handled HANDLED_TRUE) else ret tt)
           else ret tt)
     else (if negb (has_bits src SRC_DEFERRED)
           then handle_deferred fuel (has_bits handled HANDLED_TRUE) ;;
                (if negb (has_bits src SRC_MSG_QUEUE) then drain_msgq fuel else ret tt)
           else ret tt)) ;;
    ret handled.

(* history *)
Definition history_entry (rn:rnode) (ety:nat) : list nat :=
  match m_hist mc with
  | HNone => m_inits mc
  | HAlways => hist rn
  | HShallow evs => if memb ety evs then hist rn else m_inits mc
  end.
Definition keeps_deferred (ety:nat) : bool :=
  match m_hist mc with HNone => false | HAlways => true | HShallow evs => memb ety evs end.

Definition zone_of (s:nat) : nat := s_zone (get_state mc s).

Fixpoint start_regions (fuel:nat) (ev:evt) (n r:nat) : M unit :=
  match n with
  | O => ret tt
  | S n' => rn <- get ;; exec_entry fuel (nth r (act rn) 0) ev EkPlain ;; start_regions fuel ev n' (S r)
  end.

Definition internal_start (fuel:nat) (ev:evt) : M unit :=
  start_regions fuel ev (m_nreg mc) 0 ;;
  (if has_completion_rows mc then pei_rec completion_event SRC_DIRECT ;; ret tt else ret tt).

(* do_entry of this machine when it is a submachine, around the front-end's on_entry *)
Definition do_entry_pre (ev:evt) (k:ekind) : M unit :=
  modify (fun rn => set_act rn (history_entry rn (e_ty ev))) ;;
  modify (fun rn => set_processing rn true).
Definition do_entry_post (fuel:nat) (ev:evt) (k:ekind) : M unit :=
  match k with
  | EkPlain => internal_start fuel ev
  | EkDirect subs =>
      iterM (fun s => set_act_at (zone_of s) s) subs ;; internal_start fuel ev
  | EkEntryPt p =>
      set_act_at (zone_of p) p ;; internal_start fuel ev ;; pei_rec ev SRC_DIRECT ;; ret tt
  end ;;
  modify (fun rn => set_processing rn false) ;;
  handle_deferred fuel true ;;
  drain_msgq fuel.

Fixpoint exit_regions (fuel:nat) (ev:evt) (n r:nat) : M unit :=
  match n with
  | O => ret tt
  | S n' => rn <- get ;; exec_exit fuel (nth r (act rn) 0) ev ;; exit_regions fuel ev n' (S r)
  end.

Definition do_exit_pre (fuel:nat) (ev:evt) : M unit := exit_regions fuel ev (m_nreg mc) 0.
Definition do_exit_post (ev:evt) : M unit :=
  modify (fun rn => match m_hist mc with HNone => rn | _ => set_hist rn (act rn) end) ;;
  (if keeps_deferred (e_ty ev) then ret tt else modify (fun rn => set_defq rn [])).
(* stop() of the root: the root is its own fsm argument *)
Definition do_stop (fuel:nat) : M unit :=
  let ev := Evt EV_EXIT 0 in
  do_exit_pre fuel ev ;; cb KMExit 0 ev false ;; do_exit_post ev.

(* start() of the root *)
Definition do_start (fuel:nat) : M unit :=
  let ev := Evt EV_INIT 0 in
  modify (fun rn => set_act rn (m_inits mc)) ;;
  let entries := cb KMEntry 0 ev false ;; start_regions fuel ev (m_nreg mc) 0 in
  let completion := if has_completion_rows mc then pei_rec completion_event SRC_DIRECT ;; ret tt else ret tt in
  (* does start() store the events its entry behaviours raise?  (probed: Generated.v) *)
  if start_queues then
    modify (fun rn => set_processing rn true) ;;
    on_throw entries (modify (fun rn => set_processing rn false)) ;;
    modify (fun rn => set_processing rn false) ;;
    completion ;;
    drain_msgq fuel
  else entries ;; completion.

End Rtc.

Fixpoint pei (fuel:nat) (ev:evt) (src:nat) {struct fuel} : M nat :=
  match fuel with
  | O => oof 0
  | S f => pei_body (pei f) f ev src
  end.

Definition level_trigs : list trigger :=
  map r_trig (m_rows mc)
  ++ (if is11 then [] else map r_trig (m_irows mc) ++ flat_map (fun st => map r_trig (s_irows st)) (m_states mc))
  ++ flat_map (fun oc => match oc with Some co => co_trigs co | None => [] end) children.

Definition back_ops : child_ops :=
  ChildOps pei
           do_entry_pre
           (fun fuel ev k => do_entry_post (pei fuel) fuel ev k)
           do_exit_pre
           do_exit_post
           (fun fuel => do_start (pei fuel) fuel)
           do_stop
           cb_enqueue
           (fun fuel maxev => if Nat.eqb maxev 0 then drain_msgq (pei fuel) fuel else drain_one (pei fuel))
           level_trigs
           (fun _ => false) (fun _ => false) (fun _ _ => false) (fun _ _ => false)
           back_flag_or back_flag_and.

End BackLevel.
