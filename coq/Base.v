(* Base.v - small list utilities shared by the model and the proofs. *)
From Coq Require Export List Arith Bool Lia ZArith.
Export ListNotations.

Fixpoint upd {A} (l:list A) (i:nat) (x:A) : list A :=
  match l, i with
  | [], _ => []
  | _ :: t, O => x :: t
  | h :: t, S j => h :: upd t j x
  end.

Lemma upd_length {A} (l:list A) i x : length (upd l i x) = length l.
Proof. revert i; induction l as [|h t IH]; intros [|i]; cbn; auto. Qed.
Lemma nth_upd_eq {A} (l:list A) i x d : i < length l -> nth i (upd l i x) d = x.
Proof. revert i; induction l as [|h t IH]; intros [|i]; cbn; intros H; try lia; auto. apply IH; lia. Qed.
Lemma nth_upd_neq {A} (l:list A) i j x d : i <> j -> nth j (upd l i x) d = nth j l d.
Proof. revert i j; induction l as [|h t IH]; intros [|i] [|j]; cbn; intros H; try congruence; auto. Qed.
Lemma upd_same {A} (l:list A) i d : i < length l -> upd l i (nth i l d) = l.
Proof. revert i; induction l as [|h t IH]; intros [|i]; cbn; intros H; try lia; auto. f_equal. apply IH; lia. Qed.

Definition memb (x:nat) (l:list nat) : bool := existsb (Nat.eqb x) l.

Lemma memb_In x l : memb x l = true <-> In x l.
Proof.
  unfold memb. rewrite existsb_exists. split.
  - intros (y & Hy & E). apply Nat.eqb_eq in E. subst; auto.
  - intros H. exists x. split; auto. apply Nat.eqb_refl.
Qed.

Fixpoint assoc {A} (k:nat) (l:list (nat * A)) : option A :=
  match l with
  | [] => None
  | (k', v) :: t => if Nat.eqb k k' then Some v else assoc k t
  end.

Fixpoint seqn (start len:nat) : list nat :=
  match len with O => [] | S n => start :: seqn (S start) n end.

Fixpoint mapi_from {A B} (f:nat -> A -> B) (i:nat) (l:list A) : list B :=
  match l with [] => [] | x :: t => f i x :: mapi_from f (S i) t end.

Fixpoint list_eqb (a b:list nat) : bool :=
  match a, b with
  | [], [] => true
  | x :: a', y :: b' => Nat.eqb x y && list_eqb a' b'
  | _, _ => false
  end.

Lemma list_eqb_eq a b : list_eqb a b = true <-> a = b.
Proof.
  revert b; induction a as [|x a IH]; intros [|y b]; cbn; split; intros H; try congruence; auto.
  - apply andb_true_iff in H as [H1 H2]. apply Nat.eqb_eq in H1. apply IH in H2. subst; auto.
  - injection H as -> ->. rewrite Nat.eqb_refl. cbn. apply IH; auto.
Qed.

(* find the first index satisfying p *)
Fixpoint find_index {A} (p:A -> bool) (l:list A) : option nat :=
  match l with
  | [] => None
  | x :: t => if p x then Some 0 else option_map S (find_index p t)
  end.
