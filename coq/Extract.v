(* Extract.v - extraction of the executable model for the correspondence check.
   Directives: only those of ExtrOcamlBasic (bool, option, list, prod, unit, sumbool -> OCaml natives).
   nat, Z, positive stay the extracted inductive types. *)
From Msm Require Import Run Ids Puml PumlGuard Store Frontends Spec.
Require Extraction.
Require Import ExtrOcamlBasic.
Extraction Language OCaml.
Extraction "msm_model.ml" run run_op build init_rnode snapshot default_fuel doc_order seqn flags_snapshot
  parse_row parse_stt count_inits count_terminates cleanup_token parse_action count_actions count_transitions parse_guard gshow
  sstep wf_op init_store destroy_all cells
  run_wop init_world
  elab_euml elab_basic basic_tag frow_tag frow_guard frow_action
  spec_trace coreb plain_opb spec_qtrace qplain_opb spec_qtrace_mp11 qbracketedb.
