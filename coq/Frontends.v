(* Frontends.v - what the front-ends elaborate a written transition to, and what the functor combinators mean.
   Transcribed from front/state_machine_def.hpp (row, a_row, g_row, _row, irow ...), front/row2.hpp, front/internal_row.hpp,
   front/functor_row.hpp (Row<>, Internal<>, ActionSequence_), front/operator.hpp (And_, Or_, Not_),
   front/euml/stt_grammar.hpp + guard_grammar.hpp + state_grammar.hpp (table expressions).
   Everything a back-end sees of a row is: source, trigger, target, a row_type_tag, guard_call and action_call; the
   common denominator written down here is the functor row `frow`. *)
From Msm Require Export Syntax.

(* guard expressions over atomic guards (functor types / member functions / eUML actions used as guards) *)
Inductive gx := GxAtom (n:nat) | GxNot (g:gx) | GxAnd (a b:gx) | GxOr (a b:gx).

(* a transition as every back-end receives it: None for the event is front::none (completion), None for the
   target is an internal transition, the action list is what ActionSequence_ holds (possibly one element, or empty =
   none), the guard is None for front::none *)
Record frow := FRow { f_src : nat; f_ev : option nat; f_tgt : option nat; f_acts : list nat; f_guard : option gx }.

(* ---- row_type_tag (row_tags.hpp): which execute() variant the back-end instantiates ---- *)
Inductive rtag := TagRow | TagARow | TagGRow | Tag_Row | TagIRow | TagAIRow | TagGIRow | Tag_IRow.
Definition tag_of (internal has_action has_guard:bool) : rtag :=
  match internal, has_action, has_guard with
  | false, true, true => TagRow | false, true, false => TagARow | false, false, true => TagGRow | false, false, false => Tag_Row
  | true, true, true => TagIRow | true, true, false => TagAIRow | true, false, true => TagGIRow | true, false, false => Tag_IRow
  end.
Definition frow_tag (r:frow) : rtag :=
  tag_of (match f_tgt r with None => true | Some _ => false end)
         (match f_acts r with [] => false | _ => true end)
         (match f_guard r with None => false | Some _ => true end).

(* ---- run-time meaning of the combinators ---- *)
(* And_<T1,T2>::operator() is `T1()(...) && T2()(...)`, Or_ is `||`, Not_ is `!` (front/operator.hpp; the eUML
   And_/Or_/Not_ of front/euml/common.hpp / operator.hpp are written the same way): C++ short-circuit evaluation.
   Result: the value and the atoms that were evaluated, in evaluation order *)
Fixpoint gx_run (v:nat -> bool) (g:gx) : bool * list nat :=
  match g with
  | GxAtom n => (v n, [n])
  | GxNot a => let '(x, l) := gx_run v a in (negb x, l)
  | GxAnd a b =>
      let '(x, l) := gx_run v a in
      if x then (let '(y, l2) := gx_run v b in (y, l ++ l2)) else (false, l)
  | GxOr a b =>
      let '(x, l) := gx_run v a in
      if x then (true, l) else (let '(y, l2) := gx_run v b in (y, l ++ l2))
  end.
(* the boolean function the written expression denotes in C++ *)
Fixpoint gx_val (v:nat -> bool) (g:gx) : bool :=
  match g with
  | GxAtom n => v n
  | GxNot a => negb (gx_val v a)
  | GxAnd a b => gx_val v a && gx_val v b
  | GxOr a b => gx_val v a || gx_val v b
  end.
Fixpoint gx_atoms (g:gx) : list nat :=
  match g with
  | GxAtom n => [n]
  | GxNot a => gx_atoms a
  | GxAnd a b | GxOr a b => gx_atoms a ++ gx_atoms b
  end.

(* ActionSequence_<Sequence>::operator(): fusion / mpl for_each over the sequence - the actions in sequence order *)
Definition acts_run (l:list nat) : list nat := l.

(* guard_call / action_call of a functor row: what is invoked, in order, and the guard's value *)
Definition frow_guard (v:nat -> bool) (r:frow) : bool * list nat :=
  match f_guard r with None => (true, []) | Some g => gx_run v g end.
Definition frow_action (r:frow) : list nat := acts_run (f_acts r).

(* ---- the basic front-end (member functions of the front-end class) and the row2 family ---- *)
(* who: the object the member function is called on (None = the state machine itself, Some s = state s); it does not
   influence which function runs, only on which object *)
Inductive brow :=
| B_row (s e t a g:nat) | B_a_row (s e t a:nat) | B_g_row (s e t g:nat) | B__row (s e t:nat)
| B_irow (s e a g:nat) | B_a_irow (s e a:nat) | B_g_irow (s e g:nat) | B__irow (s e:nat)
| B_row2 (s e t:nat) (wa:option nat) (a:nat) (wg:option nat) (g:nat)
| B_a_row2 (s e t:nat) (wa:option nat) (a:nat) | B_g_row2 (s e t:nat) (wg:option nat) (g:nat) | B__row2 (s e t:nat)
| B_irow2 (s e:nat) (wa:option nat) (a:nat) (wg:option nat) (g:nat)
| B_a_irow2 (s e:nat) (wa:option nat) (a:nat) | B_g_irow2 (s e:nat) (wg:option nat) (g:nat).

Definition elab_basic (r:brow) : frow :=
  match r with
  | B_row s e t a g | B_row2 s e t _ a _ g => FRow s (Some e) (Some t) [a] (Some (GxAtom g))
  | B_a_row s e t a | B_a_row2 s e t _ a => FRow s (Some e) (Some t) [a] None
  | B_g_row s e t g | B_g_row2 s e t _ g => FRow s (Some e) (Some t) [] (Some (GxAtom g))
  | B__row s e t | B__row2 s e t => FRow s (Some e) (Some t) [] None
  | B_irow s e a g | B_irow2 s e _ a _ g => FRow s (Some e) None [a] (Some (GxAtom g))
  | B_a_irow s e a | B_a_irow2 s e _ a => FRow s (Some e) None [a] None
  | B_g_irow s e g | B_g_irow2 s e _ g => FRow s (Some e) None [] (Some (GxAtom g))
  | B__irow s e => FRow s (Some e) None [] None
  end.
(* the tag each of these templates declares (typedef ..._tag row_type_tag) *)
Definition basic_tag (r:brow) : rtag :=
  match r with
  | B_row _ _ _ _ _ | B_row2 _ _ _ _ _ _ _ => TagRow
  | B_a_row _ _ _ _ | B_a_row2 _ _ _ _ _ => TagARow
  | B_g_row _ _ _ _ | B_g_row2 _ _ _ _ _ => TagGRow
  | B__row _ _ _ | B__row2 _ _ _ => Tag_Row
  | B_irow _ _ _ _ | B_irow2 _ _ _ _ _ _ => TagIRow
  | B_a_irow _ _ _ | B_a_irow2 _ _ _ _ => TagAIRow
  | B_g_irow _ _ _ | B_g_irow2 _ _ _ _ => TagGIRow
  | B__irow _ _ => Tag_IRow
  end.

(* ---- the functor front-end: Row<Source, Event, Target, Action, Guard>, none for the absent parts ---- *)
Inductive fact := FNone | FOne (a:nat) | FSeq (l:list nat).     (* none | a functor | ActionSequence_<vector<...>> *)
Record functor_row := FunRow { fr_src : nat; fr_ev : option nat; fr_tgt : option nat; fr_act : fact; fr_guard : option gx }.
Definition elab_functor (r:functor_row) : frow :=
  FRow (fr_src r) (fr_ev r) (fr_tgt r)
       (match fr_act r with FNone => [] | FOne a => [a] | FSeq l => l end) (fr_guard r).

(* ---- eUML: one row of a transition-table expression ---- *)
(*   target == source + event [guard] / (a1, a2, ...)          (ETgtFirst)
     source + event [guard] / (a1, a2, ...) == target          (ETgtLast)
     source + event [guard] / (a1, a2, ...)                    (EInternal)
   event, guard and action list are optional; BuildActionSequence collects the comma list by push_back *)
Inductive erow :=
| ETgtFirst (t s:nat) (e:option nat) (g:option gx) (acts:list nat)
| ETgtLast (s:nat) (e:option nat) (g:option gx) (acts:list nat) (t:nat)
| EInternal (s:nat) (e:option nat) (g:option gx) (acts:list nat).
Definition elab_euml (r:erow) : frow :=
  match r with
  | ETgtFirst t s e g acts | ETgtLast s e g acts t => FRow s e (Some t) acts g
  | EInternal s e g acts => FRow s e None acts g
  end.

(* ---- from the functor row to the row of the engine model (Syntax.row): the engines only distinguish whether a
   guard / an action is present; their behaviours are identified by the row id ---- *)
Definition to_core (id:nat) (r:frow) : row :=
  Row id (f_src r)
      (match f_ev r with Some e => TrEv e | None => TrNone end)
      (match f_tgt r with Some t => TgState t | None => TgNone end)
      (match f_guard r with Some _ => true | None => false end)
      (match f_acts r with [] => ActNone | _ => ActCall end)
      None.
