(* Generated.v - REGENERATED on every check run by tools/regen.py from /repo's headers.
   Do not edit by hand: the committed copy is only the result of the last run. *)
From Coq Require Import List. Import ListNotations.

(* back/common_types.hpp : HandledEnum, EventSourceEnum ; backmp11/common_types.hpp *)
Definition HANDLED_FALSE := 0.
Definition HANDLED_TRUE := 1.
Definition HANDLED_GUARD_REJECT := 2.
Definition HANDLED_DEFERRED := 4.
Definition SRC_DEFAULT := 0.
Definition SRC_DIRECT := 1.
Definition SRC_DEFERRED := 2.
Definition SRC_MSG_QUEUE := 4.
Definition handled_true_or_deferred := 5.

(* active_state_switching_policies.hpp, tabulated by calling the four functions of each policy with (0,1):
   rows: after_entry, after_transition_action, after_exit, before_transition
   columns: after_guard, after_exit, after_action, after_entry ; true = the function returned next_state *)
Definition policy_table : list (list bool) :=
  [ [false; false; false; true];
    [false; false; true; true];
    [false; true; true; true];
    [true; true; true; true] ].

(* chain_row::execute_helper of back and back11, instantiated with two stub rows and tabulated:
   continue res = is the rest of the chain executed after a first row returning res;
   merge res sub = the value returned when the rest returned sub *)
Definition back_chain_continue : list bool := [true; false; true; false; false; false; false; false].
Definition back_chain_merge : list (list nat) :=
  [ [0; 1; 2; 3; 4; 5; 6; 7];
    [0; 1; 2; 3; 4; 5; 6; 7];
    [2; 1; 2; 3; 4; 5; 6; 7];
    [0; 1; 2; 3; 4; 5; 6; 7];
    [0; 1; 2; 3; 4; 5; 6; 7];
    [0; 1; 2; 3; 4; 5; 6; 7];
    [0; 1; 2; 3; 4; 5; 6; 7];
    [0; 1; 2; 3; 4; 5; 6; 7] ].
Definition back11_chain_continue : list bool := [true; false; true; false; false; false; false; false].
Definition back11_chain_merge : list (list nat) :=
  [ [0; 1; 2; 3; 4; 5; 6; 7];
    [0; 1; 2; 3; 4; 5; 6; 7];
    [2; 1; 2; 3; 4; 5; 6; 7];
    [0; 1; 2; 3; 4; 5; 6; 7];
    [0; 1; 2; 3; 4; 5; 6; 7];
    [0; 1; 2; 3; 4; 5; 6; 7];
    [0; 1; 2; 3; 4; 5; 6; 7];
    [0; 1; 2; 3; 4; 5; 6; 7] ].
(* favor_compile_time chain_row::operator(): the loop runs while continue res; step res handled *)
Definition fct_chain_continue : list bool := [true; false; true; false; false; false; false; false].
Definition fct_chain_step : list (list nat) :=
  [ [0; 1; 2; 3; 4; 5; 6; 7];
    [0; 1; 2; 3; 4; 5; 6; 7];
    [2; 1; 2; 3; 4; 5; 6; 7];
    [0; 1; 2; 3; 4; 5; 6; 7];
    [0; 1; 2; 3; 4; 5; 6; 7];
    [0; 1; 2; 3; 4; 5; 6; 7];
    [0; 1; 2; 3; 4; 5; 6; 7];
    [0; 1; 2; 3; 4; 5; 6; 7] ].
(* conditions cut out of the source and tabulated over the result codes 0..7 *)
(* back process_fsm_internal_table:   !(result & (HANDLED_TRUE | HANDLED_DEFERRED)) *)
Definition back_internal_tried : list bool := [true; false; true; false; false; false; false; false].
(* back11 process_fsm_internal_table: !(result & (::boost::msm::back::HANDLED_TRUE | ::boost::msm::back::HANDLED_DEFERRED)) *)
Definition back11_internal_tried : list bool := [true; false; true; false; false; false; false; false].
(* back do_handle_deferred:           res != ::boost::msm::back::HANDLED_FALSE && res != ::boost::msm::back::HANDLED_DEFERRED *)
Definition back_deferred_stops : list bool := [false; true; true; true; false; true; true; true].
(* backmp11 transition_chain::execute with stub rows: stop acc / value returned when it stops *)
Definition mp11_chain_stop : list bool := [false; true; false; true; true; true; true; true].
Definition mp11_chain_mask : list nat := [0; 1; 2; 1; 4; 5; 4; 5].
(* backmp11 do_process_event:         !(result & handled_true_or_deferred) *)
Definition mp11_internal_tried : list bool := [true; false; true; false; false; false; false; false].

(* sequence counters: width in bits and signedness of the member types m_cur_seq / cur_seq_cnt *)
Definition back_seq_bits := 8.
Definition back_seq_signed := true.
Definition mp11_seq_bits := 16.
Definition mp11_seq_signed := false.

(* whole-machine probe: a submachine is entered and its initial state's entry behaviour throws; true = the
   submachine's processing marker is cleared (the next event given to it is dispatched, not stored) *)
Definition back_entry_throw_resets := true.
Definition back11_entry_throw_resets := true.
Definition mp11_entry_throw_resets := true.
(* whole-machine probe: an initial state's entry behaviour calls fsm.process_event during start(); true = the event is
   stored and dispatched after the entry behaviours, false = it is dispatched re-entrantly inside the entry behaviour *)
Definition back_start_queues := true.
Definition back11_start_queues := true.
Definition mp11_start_queues := true.
