(* Ids.v - the documented numbering of the states of one machine: sources of the transition table top-down,
   then targets, then initial states and explicitly created states that occur in no row.
   A definition given in *declaration* numbering is mapped to its library id by position in doc_order. *)
From Msm Require Import Syntax Monad BackLevel.

Definition row_target (x:row) : list nat :=
  match tgt_state (r_tgt x) with Some t => [t] | None => [] end.

(* backmp11 (generate_state_set_impl): sources, targets, initial states, explicit_creation.
   back / back11 (internals documentation): transition-less initial states and explicitly created states (those that
   occur nowhere in the table) "are added as a source at the end of the transition table", i.e. they are numbered
   after the sources and before the states that occur only as targets. *)
Definition mentioned (mp11:bool) (mc:machine) (extra:list nat) : list nat :=
  if mp11
  then map r_src (m_rows mc) ++ flat_map row_target (m_rows mc) ++ m_inits mc ++ extra
  else let in_table := map r_src (m_rows mc) ++ flat_map row_target (m_rows mc) in
       map r_src (m_rows mc)
       ++ filter (fun s => negb (memb s in_table)) (m_inits mc ++ extra)
       ++ flat_map row_target (m_rows mc).

(* first occurrences, in order *)
Fixpoint dedup (seen:list nat) (l:list nat) : list nat :=
  match l with
  | [] => []
  | x :: t => if memb x seen then dedup seen t else x :: dedup (x :: seen) t
  end.

Definition doc_order (mp11:bool) (mc:machine) (extra:list nat) : list nat := dedup [] (mentioned mp11 mc extra).

Definition id_of (mp11:bool) (mc:machine) (extra:list nat) (s:nat) : option nat := find_index (Nat.eqb s) (doc_order mp11 mc extra).

Lemma dedup_not_seen seen l x : In x (dedup seen l) -> ~ In x seen.
Proof.
  revert seen. induction l as [|y t IH]; intros seen H; cbn in H; [contradiction|].
  destruct (memb y seen) eqn:E.
  - apply IH; auto.
  - destruct H as [->|H].
    + intros Hin. apply memb_In in Hin. congruence.
    + intros Hin. apply (IH (y :: seen) H). right; auto.
Qed.

Lemma dedup_nodup seen l : NoDup (dedup seen l).
Proof.
  revert seen. induction l as [|y t IH]; intros seen; cbn; [constructor|].
  destruct (memb y seen); auto. constructor; auto.
  intros H. apply dedup_not_seen in H. apply H. left; auto.
Qed.

Lemma dedup_in seen l x : In x (dedup seen l) <-> In x l /\ ~ In x seen.
Proof.
  revert seen. induction l as [|y t IH]; intros seen; cbn; [tauto|].
  destruct (memb y seen) eqn:E.
  - rewrite IH. apply memb_In in E. split.
    + intros [H1 H2]. split; auto.
    + intros [[Hy|H1] H2]; [subst; contradiction|split; auto].
  - assert (Hn : ~ In y seen) by (intros H; apply memb_In in H; congruence).
    cbn. rewrite IH. cbn. split.
    + intros [Hy|[H1 H2]]; [subst; split; auto|]. split; auto.
    + intros [[Hy|H1] H2]; [left; auto|]. destruct (Nat.eq_dec y x) as [Hyx|Hne]; [left; auto|].
      right. split; auto. intros [H|H]; auto.
Qed.

(* every id is used once; exactly the states that occur in the table / as initial / as explicitly created get one *)
Lemma doc_order_nodup mp11 mc extra : NoDup (doc_order mp11 mc extra).
Proof. apply dedup_nodup. Qed.
Lemma doc_order_complete mp11 mc extra s : In s (doc_order mp11 mc extra) <-> In s (mentioned mp11 mc extra).
Proof. unfold doc_order. rewrite dedup_in. cbn. tauto. Qed.

(* the first row's source gets id 0 *)
Lemma doc_order_first mp11 mc extra x rest : m_rows mc = x :: rest -> hd_error (doc_order mp11 mc extra) = Some (r_src x).
Proof. intros H. unfold doc_order, mentioned. rewrite H. destruct mp11; reflexivity. Qed.
