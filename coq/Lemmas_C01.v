(* Lemmas_C01.v - candidate set and priority order of one (state, event) cell, and the dispatch of a cell as a
   sequential prefix of that candidate list, for the interpreter's own cell_items / table_rows / run_cell
   (back, back11, favor_compile_time) and mtable_rows / mdispatch (backmp11). *)
From Msm Require Import Run Lemmas_Chain.

(* a occurs strictly before b *)
Definition before {A} (l:list A) (a b:A) : Prop := exists l1 l2 l3, l = l1 ++ a :: l2 ++ b :: l3.

Lemma before_rev {A} (l:list A) a b : before l a b -> before (rev l) b a.
Proof.
  intros (l1 & l2 & l3 & ->). exists (rev l3), (rev l2), (rev l1).
  rewrite rev_app_distr. cbn. rewrite rev_app_distr. cbn. repeat (rewrite <- app_assoc; cbn). reflexivity.
Qed.

Lemma before_filter {A} (p:A -> bool) l a b : before l a b -> p a = true -> p b = true -> before (filter p l) a b.
Proof.
  intros (l1 & l2 & l3 & ->) Ha Hb. exists (filter p l1), (filter p l2), (filter p l3).
  rewrite filter_app. cbn. rewrite Ha. rewrite filter_app. cbn. rewrite Hb. reflexivity.
Qed.

Lemma before_map {A B} (f:A -> B) l a b : before l a b -> before (map f l) (f a) (f b).
Proof.
  intros (l1 & l2 & l3 & ->). exists (map f l1), (map f l2), (map f l3).
  rewrite map_app. cbn. rewrite map_app. reflexivity.
Qed.

Lemma before_app_l {A} (l l':list A) a b : before l a b -> before (l ++ l') a b.
Proof. intros (l1 & l2 & l3 & ->). exists l1, l2, (l3 ++ l'). repeat (rewrite <- app_assoc; cbn). reflexivity. Qed.
Lemma before_app_r {A} (l l':list A) a b : before l' a b -> before (l ++ l') a b.
Proof. intros (l1 & l2 & l3 & ->). exists (l ++ l1), l2, l3. rewrite <- app_assoc. reflexivity. Qed.
Lemma before_app_lr {A} (l l':list A) a b : In a l -> In b l' -> before (l ++ l') a b.
Proof.
  intros Ha Hb. apply in_split in Ha as (a1 & a2 & ->). apply in_split in Hb as (b1 & b2 & ->).
  exists a1, (a2 ++ b1), b2. repeat (rewrite <- app_assoc; cbn). reflexivity.
Qed.

Section Cells.
Variable cf : cfg.
Variable parents : list (option nat).
Variable contained : bool.
Variable mc : machine.
Variable children : list (option child_ops).

Notation rows_of := (table_rows cf parents mc).
Notation matches := (row_matches cf parents).

(* (1) the candidates of a simple state are exactly its internal-table rows and the table rows with that source
   whose trigger matches the event *)
Lemma table_rows_in s ety x :
  is_sub mc s = false ->
  In x (rows_of s ety) <->
  (In x (s_irows (get_state mc s)) \/ (In x (m_rows mc) /\ r_src x = s)) /\ matches ety x = true.
Proof.
  intros Hs. unfold table_rows. rewrite Hs. rewrite in_app_iff, <- !in_rev, !filter_In. split.
  - intros [[H1 H2] | [H1 H2]]; [tauto|]. apply andb_true_iff in H2 as [H2 H3]. apply Nat.eqb_eq in H2. tauto.
  - intros [[H | [H1 H2]] H3]; [left; tauto|]. right. split; auto. apply andb_true_iff. split; auto. apply Nat.eqb_eq; auto.
Qed.

(* (2) table rows with the same source are tried last-declared first *)
Lemma table_rows_last_declared_first s ety x y :
  before (m_rows mc) x y -> r_src x = s -> r_src y = s -> matches ety x = true -> matches ety y = true ->
  before (rows_of s ety) y x.
Proof.
  intros Hb Hx Hy Mx My. unfold table_rows. apply before_app_r. apply before_rev. apply before_filter; auto.
  - apply andb_true_iff; split; auto. apply Nat.eqb_eq; auto.
  - apply andb_true_iff; split; auto. apply Nat.eqb_eq; auto.
Qed.

(* (3) the same inside a state's own internal transition table *)
Lemma state_irows_last_declared_first s ety x y :
  is_sub mc s = false ->
  before (s_irows (get_state mc s)) x y -> matches ety x = true -> matches ety y = true ->
  before (rows_of s ety) y x.
Proof.
  intros Hs Hb Mx My. unfold table_rows. rewrite Hs. apply before_app_l. apply before_rev. apply before_filter; auto.
Qed.

(* (4) a state's own internal table is tried before the table rows for that state *)
Lemma state_irows_before_table_rows s ety x y :
  is_sub mc s = false ->
  In x (s_irows (get_state mc s)) -> matches ety x = true ->
  In y (m_rows mc) -> r_src y = s -> matches ety y = true ->
  before (rows_of s ety) x y.
Proof.
  intros Hs Hx Mx Hy Sy My. unfold table_rows. rewrite Hs. apply before_app_lr.
  - rewrite <- in_rev. apply filter_In; auto.
  - rewrite <- in_rev. apply filter_In; split; auto. apply andb_true_iff; split; auto. apply Nat.eqb_eq; auto.
Qed.

(* (5) the forwarding row of an active submachine comes before every row of the enclosing machine *)
Lemma frow_first s ety x :
  In (CRow x) (cell_items cf parents mc children s ety) ->
  forwards cf parents children s ety = true -> state_defers mc s ety = false ->
  before (cell_items cf parents mc children s ety) CFrow (CRow x).
Proof.
  unfold cell_items. intros Hin Hf Hd. rewrite Hf, Hd in *. cbn [negb andb] in *.
  destruct (c_fct cf).
  - cbn in Hin. destruct Hin as [Hin|Hin]; [discriminate|].
    apply in_split in Hin as (l1 & l2 & E). exists [], l1, l2. cbn. f_equal. exact E.
  - cbn in Hin. destruct Hin as [Hin|Hin]; [discriminate|].
    cbn. apply in_split in Hin as (l1 & l2 & E). exists [], l1, l2. cbn. f_equal. exact E.
Qed.

(* ---- dispatch of a cell = a sequential prefix of the candidate list ---- *)
(* favor_runtime_speed (back, back11): whatever the items do, the items that run are the first k of the list, in
   order; k < length only if the k-th returned a consumed code (handled or deferred); every earlier one did not *)
Lemma run_cell_prefix fuel r s ev l rn g c rn' g' :
  c_fct cf = false ->
  run_cell cf contained mc children fuel r s ev l rn g = (Some c, rn', g') ->
  exists cs,
    exec_first (exec_item cf contained mc children fuel r s ev) (length cs) l rn g = (Some tt, rn', g') /\
    length cs <= length l /\
    (Forall (fun x => x < 8) cs ->
       (length cs < length l -> exists cs0 c0, cs = cs0 ++ [c0] /\ consumed c0 = true /\ Forall (fun x => consumed x = false) cs0) /\
       (length cs = length l -> Forall (fun x => consumed x = false) (removelast cs))).
Proof.
  intros Hfct H. unfold run_cell in H. rewrite Hfct in H.
  assert (Hgen : forall l0 rn0 g0 c0 rn1 g1,
            chain_row cf contained mc children fuel r s ev l0 rn0 g0 = (Some c0, rn1, g1) ->
            exists cs, run_until (exec_item cf contained mc children fuel r s ev)
                                 (fun c => negb (chain_continue cf c)) l0 rn0 g0 = (Some cs, rn1, g1)).
  { intros l0 rn0 g0 c0 rn1 g1 Hc. unfold chain_row in Hc. rewrite chain_gen_run_until in Hc. unfold bind in Hc.
    destruct (run_until _ _ l0 rn0 g0) as [[[cs|] rn2] g2] eqn:E; [|discriminate]. inversion Hc; subst. eauto. }
  assert (Hfin : forall l0 rn0 g0 cs rn1 g1,
            run_until (exec_item cf contained mc children fuel r s ev) (fun c => negb (chain_continue cf c)) l0 rn0 g0 = (Some cs, rn1, g1) ->
            exec_first (exec_item cf contained mc children fuel r s ev) (length cs) l0 rn0 g0 = (Some tt, rn1, g1) /\
            length cs <= length l0 /\
            (Forall (fun x => x < 8) cs ->
              (length cs < length l0 -> exists cs0 c0, cs = cs0 ++ [c0] /\ consumed c0 = true /\ Forall (fun x => consumed x = false) cs0) /\
              (length cs = length l0 -> Forall (fun x => consumed x = false) (removelast cs)))).
  { intros l0 rn0 g0 cs rn1 g1 Hr. split; [eapply run_until_effect; eauto|].
    pose proof (run_until_prefix _ _ _ _ _ _ _ _ Hr) as P.
    assert (Hcont : forall x, x < 8 -> negb (chain_continue cf x) = consumed x).
    { intros x Hx. unfold chain_continue. rewrite back_continue_spec by auto. apply negb_involutive. }
    inversion P as [n cs' Hlen Hall Hn Hcs | n cs' c' Hlen Hall Hstop Hn Hcs]; subst.
    - split; [lia|]. intros H8. split; [lia|]. intros _.
      assert (Hall' : Forall (fun x => consumed x = false) cs).
      { rewrite Forall_forall in *. intros x Hx. rewrite <- Hcont by auto. apply Hall; auto. }
      clear - Hall'. induction cs as [|a cs IH]; cbn; auto. destruct cs; auto. inversion Hall'; subst. constructor; auto.
    - rewrite app_length in *. cbn in *. split; [lia|]. intros H8.
      apply Forall_app in H8 as [H8a H8b]. inversion H8b; subst.
      assert (Hall' : Forall (fun x => consumed x = false) cs').
      { rewrite Forall_forall in *. intros x Hx. rewrite <- Hcont by auto. apply Hall; auto. }
      split.
      + intros _. exists cs', c'. split; auto. split; auto. rewrite <- Hcont by auto. exact Hstop.
      + intros _. rewrite removelast_last. exact Hall'. }
  destruct l as [|x [|y rest]].
  - inversion H; subst. exists []. cbn. split; [reflexivity|]. split; [lia|]. intros _.
    split; [intros Hlt; lia | intros _; constructor].
  - exists [c]. cbn. unfold bind. rewrite H. split; [reflexivity|]. split; [lia|]. intros _.
    split; [intros Hlt; lia | intros _; constructor].
  - destruct (Hgen _ _ _ _ _ _ H) as (cs & Hr). exists cs. apply Hfin; auto.
Qed.

(* favor_compile_time: the loop form; the items that run are the first k, and the loop is cut short only when the
   accumulated code is consumed *)
Lemma fct_chain_prefix fuel r s ev acc l rn g c rn' g' :
  fct_chain cf contained mc children fuel r s ev acc l rn g = (Some c, rn', g') ->
  exists cs,
    exec_first (exec_item cf contained mc children fuel r s ev) (length cs) l rn g = (Some tt, rn', g') /\
    length cs <= length l /\
    c = loop_codes (tab1 fct_chain_continue) (tab2 fct_chain_step) acc cs /\
    (length cs < length l -> c < 8 -> consumed c = true).
Proof.
  intros H. unfold fct_chain in H. rewrite loop_gen_run_loop in H. unfold bind in H.
  destruct (run_loop _ _ _ acc l rn g) as [[[cs|] rn2] g2] eqn:E; [|discriminate].
  inversion H; subst. exists cs. destruct (run_loop_effect _ _ _ _ _ _ _ _ _ _ E) as [H1 H2].
  split; auto. split; auto. split; auto.
  intros Hlt H8. pose proof (run_loop_cut _ _ _ _ _ _ _ _ _ _ E Hlt) as Hc.
  rewrite fct_continue_spec in Hc by auto. apply negb_false_iff in Hc. exact Hc.
Qed.

End Cells.

Section Mp11Cells.
Variable cf : cfg.
Variable parents : list (option nat).
Variable contained : bool.
Variable mc : machine.
Variable children : list (option child_ops).

Notation mrows_of := (mtable_rows cf parents mc).
Notation mmatches := (mrow_matches cf parents).

Lemma mtable_rows_in s ety x :
  is_sub mc s = false ->
  In x (mrows_of s ety) <->
  (In x (s_irows (get_state mc s)) \/ (In x (m_rows mc) /\ r_src x = s)) /\ mmatches ety x = true.
Proof.
  intros Hs. unfold mtable_rows. rewrite Hs. rewrite in_app_iff, <- !in_rev, !filter_In. split.
  - intros [[H1 H2] | [H1 H2]]; [tauto|]. apply andb_true_iff in H2 as [H2 H3]. apply Nat.eqb_eq in H2. tauto.
  - intros [[H | [H1 H2]] H3]; [left; tauto|]. right. split; auto. apply andb_true_iff. split; auto. apply Nat.eqb_eq; auto.
Qed.

Lemma mtable_rows_last_declared_first s ety x y :
  before (m_rows mc) x y -> r_src x = s -> r_src y = s -> mmatches ety x = true -> mmatches ety y = true ->
  before (mrows_of s ety) y x.
Proof.
  intros Hb Hx Hy Mx My. unfold mtable_rows. apply before_app_r. apply before_rev. apply before_filter; auto.
  - apply andb_true_iff; split; auto. apply Nat.eqb_eq; auto.
  - apply andb_true_iff; split; auto. apply Nat.eqb_eq; auto.
Qed.

Lemma mstate_irows_before_table_rows s ety x y :
  is_sub mc s = false ->
  In x (s_irows (get_state mc s)) -> mmatches ety x = true ->
  In y (m_rows mc) -> r_src y = s -> mmatches ety y = true ->
  before (mrows_of s ety) x y.
Proof.
  intros Hs Hx Mx Hy Sy My. unfold mtable_rows. rewrite Hs. apply before_app_lr.
  - rewrite <- in_rev. apply filter_In; auto.
  - rewrite <- in_rev. apply filter_In; split; auto. apply andb_true_iff; split; auto. apply Nat.eqb_eq; auto.
Qed.

(* transition_chain: the rows that run are the first k; the chain is cut short only when the accumulated code is consumed *)
Lemma mchain_prefix fuel r ev acc l rn g c rn' g' :
  mchain_raw cf contained mc children fuel r ev acc l rn g = (Some c, rn', g') ->
  exists cs,
    exec_first (fun x => mexec_row cf contained mc children fuel r x ev) (length cs) l rn g = (Some tt, rn', g') /\
    length cs <= length l /\
    c = loop_codes mp11_cont bit_or acc cs /\
    (length cs < length l -> c < 8 -> consumed c = true).
Proof.
  intros H. unfold mchain_raw in H. rewrite loop_gen_run_loop in H. unfold bind in H.
  destruct (run_loop _ _ _ acc l rn g) as [[[cs|] rn2] g2] eqn:E; [|discriminate].
  inversion H; subst. exists cs. destruct (run_loop_effect _ _ _ _ _ _ _ _ _ _ E) as [H1 H2].
  split; auto. split; auto. split; auto.
  intros Hlt H8. pose proof (run_loop_cut _ _ _ _ _ _ _ _ _ _ E Hlt) as Hc.
  unfold mp11_cont in Hc. rewrite mp11_stop_spec in Hc by auto. apply negb_false_iff in Hc. exact Hc.
Qed.

End Mp11Cells.
