(* Lemmas_C19.v - the active-state-switch policy: what a behaviour observes in each phase of an external
   transition, proved on the interpreter's own exec_row / mexec_row (back, back11, backmp11). *)
From Msm Require Import Run.

(* the table the documentation gives: policy (rows) x phase boundary (columns: after guard / exit / action / entry) *)
Definition documented_policy_table : list (list bool) :=
  [ [false; false; false; true];     (* active_state_switch_after_entry (default) *)
    [false; false; true;  true];     (* active_state_switch_after_transition_action *)
    [false; true;  true;  true];     (* active_state_switch_after_exit *)
    [true;  true;  true;  true] ].   (* active_state_switch_before_transition *)

Lemma policy_table_documented : policy_table = documented_policy_table.
Proof. reflexivity. Qed.

(* id reported for the transitioning region while the behaviour of a phase runs:
   phase 0 guard, 1 source exit, 2 action, 3 target entry, 4 after the transition *)
Definition observed_id (pol phase cur next:nat) : nat :=
  match phase with
  | 0 => cur
  | S p => if nth p (nth pol documented_policy_table []) false then next else cur
  end.

Lemma observed_id_doc pol cur next :
  pol < 4 ->
  observed_id pol 0 cur next = cur /\
  observed_id pol 1 cur next = (if Nat.eqb pol 3 then next else cur) /\
  observed_id pol 2 cur next = (if Nat.leb 2 pol then next else cur) /\
  observed_id pol 3 cur next = (if Nat.leb 1 pol then next else cur) /\
  observed_id pol 4 cur next = next.
Proof.
  intros H. destruct pol as [|[|[|[|p]]]]; try lia; cbn; auto.
Qed.

Section Simple.
(* a level whose source and target states are simple states (no child processors) *)
Variable cf : cfg.
Variable parents : list (option nat).
Variable contained : bool.
Variable mc : machine.

Definition no_children : list (option child_ops) := map (fun _ => None) (m_states mc).

Lemma child_none s : child no_children s = None.
Proof.
  unfold child, no_children. generalize (m_states mc). intros l. revert s.
  induction l as [|a l IH]; intros [|s]; cbn; auto.
Qed.
Lemma mchild_none s : mchild no_children s = None.
Proof. apply child_none. Qed.

Definition plain_state (s:nat) : Prop :=
  match s_kind (get_state mc s) with KExitPt _ => False | _ => True end.

(* the trace (most recent first) of one external row with guard and action, from a state with empty plan *)
Definition expected_items (pol r cur nxt rid:nat) (ev:evt) (a:list nat) : list titem :=
  [ Cb KEntry [] nxt ev false (upd a r (observed_id pol 3 cur nxt));
    Cb KAction [] rid ev false (upd a r (observed_id pol 2 cur nxt));
    Cb KExit [] cur ev false (upd a r (observed_id pol 1 cur nxt));
    Cb (KGuard true) [] rid ev false a ].

Lemma upd_upd {A} (l:list A) i x y : upd (upd l i x) i y = upd l i y.
Proof. revert i; induction l as [|h t IH]; intros [|i]; cbn; auto. f_equal. apply IH. Qed.

Lemma switch_id_observed pol p cur nxt : p < 4 -> switch_id pol p cur nxt = observed_id pol (S p) cur nxt.
Proof. intros H. unfold switch_id, policy_next. rewrite policy_table_documented. reflexivity. Qed.

Theorem back_exec_row_observed fuel r rid cur nxt ev rn g :
  plain_state nxt -> c_pol cf < 4 ->
  g_plan g = [] -> memb rid (g_val g) = true ->
  let x := Row rid cur (TrEv (e_ty ev)) (TgState nxt) true ActCall None in
  exec_row cf contained mc no_children fuel r x ev rn g =
    (Some HANDLED_TRUE,
     set_act rn (upd (act rn) r nxt),
     Glob (expected_items (c_pol cf) r cur nxt rid ev (act rn) ++ g_tr g)
          (4 + g_cb g) [] (g_val g) (g_up g) (g_bad g)).
Proof.
  intros Hplain Hpol Hplan Hval x.
  destruct rn as [a k h q d c p run]. destruct g as [tr cbn0 plan val up bad]. cbn in Hplan, Hval. subst plan.
  unfold exec_row, x. cbn [tgt_state r_tgt r_src r_exitpt r_guard r_act r_id tgt_ekind].
  unfold run_guard, guard_value, exec_exit, exec_entry_gen, run_action. cbn [r_guard r_id r_act].
  rewrite !child_none.
  unfold plain_state in Hplain.
  destruct (c_pol cf) as [|[|[|[|pp]]]]; try lia;
  destruct (s_kind (get_state mc nxt)) eqn:Ek; try contradiction;
  unfold cb, callback, callback_at, set_act_at, bind, get, getg, putg, modify, ret; cbn;
  rewrite Hval; cbn; unfold bind; cbn;
  rewrite !upd_upd; reflexivity.
Qed.

(* the same statement for backmp11's transition::execute *)
Theorem mp11_exec_row_observed fuel r rid cur nxt ev rn g :
  plain_state nxt -> c_pol cf < 4 -> is_sub mc nxt = false -> state_has_completion mc nxt = false ->
  g_plan g = [] -> memb rid (g_val g) = true ->
  let x := Row rid cur (TrEv (e_ty ev)) (TgState nxt) true ActCall None in
  mexec_row cf contained mc no_children fuel r x ev rn g =
    (Some HANDLED_TRUE,
     set_act rn (upd (act rn) r nxt),
     Glob (expected_items (c_pol cf) r cur nxt rid ev (act rn) ++ g_tr g)
          (4 + g_cb g) [] (g_val g) (g_up g) (g_bad g)).
Proof.
  intros Hplain Hpol Hsub Hcompl Hplan Hval x.
  destruct rn as [a k h q d c p run]. destruct g as [tr cbn0 plan val up bad]. cbn in Hplan, Hval. subst plan.
  unfold mexec_row, x. cbn [tgt_state r_tgt r_src r_exitpt r_guard r_act r_id tgt_ekind].
  unfold bind at 1. unfold get at 1. cbn beta iota.
  unfold mrun_guard, guard_value, mexec_exit, mexec_entry, mexec_entry_gen, mrun_action, on_state_entry_completed.
  cbn [r_guard r_id r_act].
  rewrite !mchild_none, Hsub, Hcompl.
  unfold plain_state in Hplain.
  destruct (c_pol cf) as [|[|[|[|pp]]]]; try lia;
  destruct (s_kind (get_state mc nxt)) eqn:Ek; try contradiction;
  unfold mcb, callback, callback_at, set_act_at, bind, get, getg, putg, modify, ret; cbn;
  rewrite Hval; cbn; unfold bind; cbn;
  rewrite !upd_upd; reflexivity.
Qed.

End Simple.
