(* Lemmas_Cascade.v - leaving a machine: the active states of every region in region order, substates (recursively,
   innermost first) before the submachine's own exit behaviour - for every nesting depth, both engines. *)
From Msm Require Import Run Lemmas_C19 Lemmas_Rows Lemmas_Quiesce Lemmas_Shape.
From Coq Require Import Lia.

(* ---- symbolic execution helpers (behaviours only observe: empty plan; no exit-point events in flight) ---- *)
Lemma bump_bump g a b : bump (bump g a) b = bump g (b ++ a).
Proof. unfold bump. cbn. rewrite app_length. f_equal; [rewrite app_assoc; reflexivity | lia]. Qed.
Lemma bump_nil g : bump g [] = g.
Proof. destruct g; reflexivity. Qed.

Lemma cb_at_plain mc path k id ev w rn g : g_plan g = [] ->
  cb_at mc path k id ev w rn g = (Some tt, rn, bump g [Cb k path id ev w (act rn)]).
Proof.
  intros H. destruct g as [tr n plan val up bad]. cbn in H. subst plan.
  unfold cb_at, callback_at, bind, get, getg, putg, ret. cbn. reflexivity.
Qed.
Lemma absorb_plain contained mc rn g : g_up g = [] -> absorb_up contained mc rn g = (Some tt, rn, g).
Proof.
  intros H. destruct g as [tr n plan val up bad]. cbn in H. subst up.
  unfold absorb_up, bind, take_up. destruct contained; cbn; reflexivity.
Qed.

Lemma lift_plain {A} s (d:A) (m:M A) rn g kn a kn' items :
  nth s (kids rn) None = Some kn ->
  (forall g0, g_plan g0 = g_plan g -> g_up g0 = g_up g -> g_val g0 = g_val g -> g_bad g0 = g_bad g ->
              m kn g0 = (Some a, kn', bump g0 items)) ->
  lift_child s d m rn g = (Some a, set_kids rn (upd (kids rn) s (Some kn')), bump g (map (push_path s) items)).
Proof.
  intros Hk Hm. unfold lift_child. rewrite Hk.
  rewrite (Hm (Glob [] (g_cb g) (g_plan g) (g_val g) (g_up g) (g_bad g))) by reflexivity.
  unfold bump. cbn. rewrite app_nil_r. rewrite map_length. reflexivity.
Qed.

(* ---- what leaving a machine means, for any nesting depth ---- *)
Definition exit_fn := evt -> rnode -> list titem * rnode.       (* items newest first; the node afterwards *)

Definition post_exit (mc:machine) (ev:evt) (rn:rnode) : rnode :=
  let rn1 := match m_hist mc with HNone => rn | _ => set_hist rn (act rn) end in
  if keeps_deferred mc (e_ty ev) then rn1 else set_defq rn1 [].

(* exit of the state s of a machine whose submachines leave according to subs *)
Definition exit_state (subs:list (option exit_fn)) (ev:evt) (s:nat) (acc:list titem * rnode) : list titem * rnode :=
  let '(items, rn) := acc in
  match nth s subs None, nth s (kids rn) None with
  | Some f, Some kn =>
      let '(inner, kn1) := f ev kn in
      (Cb KMExit [s] 0 ev false (act rn) :: map (push_path s) inner ++ items,
       set_kids rn (upd (kids rn) s (Some kn1)))
  | _, _ => (Cb KExit [] s ev false (act rn) :: items, rn)
  end.

(* the active state of every region in region order; a submachine state: its substates first (recursively), then
   its own exit behaviour, then its bookkeeping (history memory, deferred events) *)
Fixpoint exit_spec (mc:machine) {struct mc} : exit_fn :=
  let subs := map (fun st => match s_sub st with
                             | Some c => Some (fun ev kn => let '(it, kn1) := exit_spec c ev kn in (it, post_exit c ev kn1))
                             | None => None end) (m_states mc) in
  fun ev rn => fold_left (fun acc r => exit_state subs ev (nth r (act (snd acc)) 0) acc) (seqn 0 (m_nreg mc)) ([], rn).

Definition exit_subs (mc:machine) : list (option exit_fn) :=
  map (fun st => match s_sub st with
                 | Some c => Some (fun ev kn => let '(it, kn1) := exit_spec c ev kn in (it, post_exit c ev kn1))
                 | None => None end) (m_states mc).
Lemma exit_spec_unfold mc ev rn :
  exit_spec mc ev rn = fold_left (fun acc r => exit_state (exit_subs mc) ev (nth r (act (snd acc)) 0) acc) (seqn 0 (m_nreg mc)) ([], rn).
Proof. destruct mc; reflexivity. Qed.

Lemma do_exit_post_plain mc ev rn g : do_exit_post mc ev rn g = (Some tt, post_exit mc ev rn, g).
Proof.
  unfold do_exit_post, post_exit, bind, modify, ret. destruct (m_hist mc); destruct (keeps_deferred mc (e_ty ev)); reflexivity.
Qed.

Lemma upd_upd {A} (l:list A) i x y : upd (upd l i x) i y = upd l i y.
Proof. revert i. induction l as [|a l IH]; intros [|i]; cbn; auto. f_equal. apply IH. Qed.
Lemma nth_upd_some {A} (l:list (option A)) i x y : nth i l None = Some y -> nth i (upd l i (Some x)) None = Some x.
Proof. revert i. induction l as [|a l IH]; intros [|i] H; cbn in *; try discriminate; auto. Qed.

Lemma nth_map_sub {B} (f:machine -> B) states s :
  nth s (map (fun st => match s_sub st with Some c => Some (f c) | None => None end) states) None =
  match s_sub (nth s states dummy_state) with Some c => Some (f c) | None => None end.
Proof.
  revert s. induction states as [|st t IH]; intros [|s]; cbn; auto.
Qed.

Lemma exit_state_sub (subs:list (option exit_fn)) ev s items rn (f:exit_fn) kn inner kn1 :
  nth s subs None = Some f -> nth s (kids rn) None = Some kn -> f ev kn = (inner, kn1) ->
  exit_state subs ev s (items, rn) =
    (Cb KMExit [s] 0 ev false (act rn) :: map (push_path s) inner ++ items, set_kids rn (upd (kids rn) s (Some kn1))).
Proof. intros H1 H2 H3. unfold exit_state. rewrite H1, H2, H3. reflexivity. Qed.

Lemma exit_state_acc subs ev s items rn :
  exit_state subs ev s (items, rn) =
  let '(it, rn') := exit_state subs ev s ([], rn) in (it ++ items, rn').
Proof.
  unfold exit_state. destruct (nth s subs None) as [f|]; [|cbn; reflexivity].
  destruct (nth s (kids rn) None) as [kn|]; [|cbn; reflexivity].
  destruct (f ev kn) as [inner kn1]. cbn. rewrite app_nil_r. reflexivity.
Qed.

Lemma fold_exit_acc subs ev l : forall items rn,
  fold_left (fun acc r => exit_state subs ev (nth r (act (snd acc)) 0) acc) l (items, rn) =
  let '(it, rn') := fold_left (fun acc r => exit_state subs ev (nth r (act (snd acc)) 0) acc) l ([], rn) in (it ++ items, rn').
Proof.
  induction l as [|r l IH]; intros items rn; cbn [fold_left snd].
  - reflexivity.
  - rewrite exit_state_acc. destruct (exit_state subs ev (nth r (act rn) 0) ([], rn)) as [it1 rn1] eqn:E1.
    rewrite IH. rewrite (IH it1 rn1).
    destruct (fold_left _ l ([], rn1)) as [it2 rn2]. rewrite app_assoc. reflexivity.
Qed.

Lemma wk_kid mc rn s c : wk mc rn -> s_sub (get_state mc s) = Some c -> exists kn, nth s (kids rn) None = Some kn /\ wk c kn.
Proof.
  intros Hw Hs. apply wk_unfold in Hw. unfold wk_subs, get_state in *.
  revert s Hs. generalize dependent (kids rn). generalize (m_states mc) as states.
  induction states as [|st t IH]; intros ks Hw s Hs.
  - destruct s; cbn in Hs; discriminate.
  - inversion Hw as [|o k subs ks' Hok Hrest]; subst. destruct s as [|s]; cbn in *.
    + rewrite Hs in Hok. destruct k as [kn|]; cbn in Hok; [|contradiction]. eauto.
    + eapply IH; eauto.
Qed.

(* induction over the definition tree through the sub-machine accessor *)
Lemma machine_nested_ind (P:machine -> Prop) :
  (forall mc, (forall s c, s_sub (get_state mc s) = Some c -> P c) -> P mc) -> forall mc, P mc.
Proof.
  intros H. fix IH 1. intros mc. apply H. intros s c Hs.
  destruct mc as [states inits rows irows hist]. unfold get_state in Hs. cbn [m_states] in Hs.
  revert s Hs. induction states as [|st t IHt]; intros s Hs.
  - destruct s; cbn in Hs; discriminate.
  - destruct s as [|s]; cbn in Hs.
    + destruct st as [k sub si df fl z]. cbn in Hs. destruct sub as [c'|]; [|discriminate].
      assert (E : c' = c) by congruence. rewrite <- E. apply IH.
    + eapply IHt; eauto.
Qed.

Section BackCascade.
Variable cf : cfg.
Variable parents : list (option nat).
Hypothesis Hbe : c_be cf <> Mp11.

Lemma build_back mc contained :
  build cf parents contained mc =
  back_ops cf parents contained mc (map (fun st => match s_sub st with Some c => Some (build cf parents true c) | None => None end) (m_states mc)).
Proof. destruct mc. unfold build; fold build. destruct (c_be cf); try reflexivity. congruence. Qed.

Theorem back_exit_cascade : forall mc contained fuel ev rn g,
  wk mc rn -> g_plan g = [] -> g_up g = [] ->
  co_exit_pre (build cf parents contained mc) fuel ev rn g =
    (Some tt, snd (exit_spec mc ev rn), bump g (fst (exit_spec mc ev rn))).
Proof.
  intros mc. induction mc as [mc IHsub] using machine_nested_ind. intros contained fuel ev rn g Hw Hp Hu.
  assert (IH : forall s c, s_sub (get_state mc s) = Some c -> forall contained fuel ev rn g,
            wk c rn -> g_plan g = [] -> g_up g = [] ->
            co_exit_pre (build cf parents contained c) fuel ev rn g =
              (Some tt, snd (exit_spec c ev rn), bump g (fst (exit_spec c ev rn)))) by (intros; eapply IHsub; eauto).
  clear IHsub.
  rewrite build_back. cbn [back_ops co_exit_pre]. unfold do_exit_pre. rewrite exit_spec_unfold.
  set (children := map (fun st => match s_sub st with Some c => Some (build cf parents true c) | None => None end) (m_states mc)).
  (* one region *)
  assert (Step : forall s rn g, wk mc rn -> g_plan g = [] -> g_up g = [] ->
            exec_exit contained mc children fuel s ev rn g =
              (Some tt, snd (exit_state (exit_subs mc) ev s ([], rn)), bump g (fst (exit_state (exit_subs mc) ev s ([], rn))))
            /\ wk mc (snd (exit_state (exit_subs mc) ev s ([], rn)))).
  { clear rn g Hw Hp Hu. intros s rn g Hw Hp Hu. unfold exec_exit, exit_state, child, children, exit_subs.
    rewrite !nth_map_sub. fold (get_state mc s).
    destruct (s_sub (get_state mc s)) as [c|] eqn:Es.
    - destruct (wk_kid mc rn s c Hw Es) as (kn & Hk & Hwk). rewrite Hk.
      destruct (exit_spec c ev kn) as [inner kn_pre] eqn:Esp.
      (* the substates *)
      unfold bind at 1. unfold in_child at 1. unfold bind at 1.
      rewrite (lift_plain s tt _ rn g kn tt kn_pre inner Hk).
      2:{ intros g0 H1 H2 _ _. rewrite (IH s c Es) by (auto; congruence). rewrite Esp. reflexivity. }
      unfold bind at 1. rewrite absorb_plain by (cbn; auto). unfold ret at 1.
      (* the submachine's own exit behaviour *)
      unfold bind at 1. rewrite cb_at_plain by (cbn; auto).
      (* its bookkeeping *)
      unfold in_child. unfold bind at 1.
      erewrite (lift_plain s tt _ _ _ kn_pre tt (post_exit c ev kn_pre) []).
      2:{ rewrite kids_set_kids. eapply nth_upd_some; eauto. }
      2:{ intros g0 _ _ _ _. rewrite build_back. cbn [back_ops co_exit_post]. rewrite do_exit_post_plain. rewrite bump_nil. reflexivity. }
      unfold bind at 1. rewrite absorb_plain by (cbn; auto). unfold ret.
      cbn [fst snd]. rewrite kids_set_kids, upd_upd. split.
      + f_equal; [f_equal; destruct rn; reflexivity|].
        cbn [map]. rewrite bump_nil. rewrite !bump_bump. rewrite app_nil_r. f_equal.
        cbn [app]. f_equal. destruct rn; reflexivity.
      + (* the tree keeps its shape *)
        pose proof (build_wspec cf parents c true) as W.
        assert (Hpre : wk c kn_pre).
        { pose proof (ws_exit_pre c _ W fuel ev kn (Glob [] (g_cb g) (g_plan g) (g_val g) (g_up g) (g_bad g))) as Hpres.
          rewrite (IH s c Es) in Hpres by (auto). rewrite Esp in Hpres. eapply Hpres; eauto. }
        assert (Hpost : wk c (post_exit c ev kn_pre)).
        { pose proof (ws_exit_post c _ W ev kn_pre g) as Hpres. rewrite build_back in Hpres. cbn [back_ops co_exit_post] in Hpres.
          rewrite do_exit_post_plain in Hpres. eapply Hpres; eauto. }
        eapply (wk_lift mc s tt (fun _ g => (Some tt, post_exit c ev kn_pre, g))); [| exact Hw |].
        * intros c' Hc'. rewrite Es in Hc'. inversion Hc'; subst c'. intros r0 g0 r1 rn1 g1 _ E. inversion E; subst. exact Hpost.
        * unfold lift_child. rewrite Hk. reflexivity.
    - (* a simple state *)
      change (cb mc KExit s ev false) with (cb_at mc [] KExit s ev false).
      rewrite cb_at_plain by auto. cbn [fst snd]. split; [reflexivity | exact Hw]. }
  (* the regions in order *)
  assert (Regs : forall n r rn g, wk mc rn -> g_plan g = [] -> g_up g = [] ->
            exit_regions contained mc children fuel ev n r rn g =
              (Some tt, snd (fold_left (fun acc r => exit_state (exit_subs mc) ev (nth r (act (snd acc)) 0) acc) (seqn r n) ([], rn)),
               bump g (fst (fold_left (fun acc r => exit_state (exit_subs mc) ev (nth r (act (snd acc)) 0) acc) (seqn r n) ([], rn))))).
  { clear rn g Hw Hp Hu. induction n as [|n IHn]; intros r rn g Hw Hp Hu; cbn [exit_regions seqn fold_left].
    - cbn. rewrite bump_nil. reflexivity.
    - unfold bind at 1. unfold get at 1. unfold bind at 1.
      destruct (Step (nth r (act rn) 0) rn g Hw Hp Hu) as [E Hw1]. rewrite E. cbn [snd].
      destruct (exit_state (exit_subs mc) ev (nth r (act rn) 0) ([], rn)) as [it1 rn1] eqn:E1. cbn [fst snd] in *.
      rewrite IHn by (auto). rewrite (fold_exit_acc _ _ _ it1 rn1).
      destruct (fold_left _ (seqn (S r) n) ([], rn1)) as [it2 rn2]. cbn [fst snd]. rewrite bump_bump. reflexivity. }
  apply Regs; auto.
  Unshelve. exact g.
Qed.
End BackCascade.

(* ---- backmp11 ---- *)
Definition mpost_exit (mc:machine) (rn:rnode) : rnode :=
  match m_hist mc with HNone => rn | _ => set_hist rn (act rn) end.

(* a machine that was never entered (not running) is not traversed; otherwise the active states in region order *)
Fixpoint mexit_spec (mc:machine) {struct mc} : exit_fn :=
  let subs := map (fun st => match s_sub st with
                             | Some c => Some (fun ev kn => let '(it, kn1) := mexit_spec c ev kn in (it, mpost_exit c kn1))
                             | None => None end) (m_states mc) in
  fun ev rn => if running rn
               then fold_left (fun acc s => exit_state subs ev s acc) (act rn) ([], rn)
               else ([], rn).
Definition mexit_subs (mc:machine) : list (option exit_fn) :=
  map (fun st => match s_sub st with
                 | Some c => Some (fun ev kn => let '(it, kn1) := mexit_spec c ev kn in (it, mpost_exit c kn1))
                 | None => None end) (m_states mc).
Lemma mexit_spec_unfold mc ev rn :
  mexit_spec mc ev rn = if running rn then fold_left (fun acc s => exit_state (mexit_subs mc) ev s acc) (act rn) ([], rn) else ([], rn).
Proof. destruct mc; reflexivity. Qed.

Lemma fold_mexit_acc subs ev l : forall items rn,
  fold_left (fun acc s => exit_state subs ev s acc) l (items, rn) =
  let '(it, rn') := fold_left (fun acc s => exit_state subs ev s acc) l ([], rn) in (it ++ items, rn').
Proof.
  induction l as [|s l IH]; intros items rn; cbn [fold_left]; [reflexivity|].
  rewrite exit_state_acc. destruct (exit_state subs ev s ([], rn)) as [it1 rn1] eqn:E1.
  rewrite IH. rewrite (IH it1 rn1). destruct (fold_left _ l ([], rn1)) as [it2 rn2]. rewrite app_assoc. reflexivity.
Qed.

Lemma mcb_at_plain cf mc children path k id ev w rn g : g_plan g = [] ->
  mcb_at cf mc children path k id ev w rn g = (Some tt, rn, bump g [Cb k path id ev w (act rn)]).
Proof.
  intros H. destruct g as [tr n plan val up bad]. cbn in H. subst plan.
  unfold mcb_at, callback_at, bind, get, getg, putg, ret. cbn. reflexivity.
Qed.
Lemma mabsorb_plain contained rn g : g_up g = [] -> mabsorb_up contained rn g = (Some tt, rn, g).
Proof.
  intros H. destruct g as [tr n plan val up bad]. cbn in H. subst up.
  unfold mabsorb_up. destruct contained; [reflexivity|]. unfold bind, take_up. cbn. reflexivity.
Qed.
Lemma mon_exit_post_plain mc ev rn g : mon_exit_post mc ev rn g = (Some tt, mpost_exit mc rn, g).
Proof. unfold mon_exit_post, mpost_exit, modify. destruct (m_hist mc); reflexivity. Qed.

Section Mp11Cascade.
Variable cf : cfg.
Variable parents : list (option nat).
Hypothesis Hbe : c_be cf = Mp11.

Lemma build_mp11 mc contained :
  build cf parents contained mc =
  mp11_ops cf parents contained mc (map (fun st => match s_sub st with Some c => Some (build cf parents true c) | None => None end) (m_states mc)).
Proof. destruct mc. unfold build; fold build. rewrite Hbe. reflexivity. Qed.

Theorem mp11_exit_cascade : forall mc contained fuel ev rn g,
  wk mc rn -> g_plan g = [] -> g_up g = [] ->
  co_exit_pre (build cf parents contained mc) fuel ev rn g =
    (Some tt, snd (mexit_spec mc ev rn), bump g (fst (mexit_spec mc ev rn))).
Proof.
  intros mc. induction mc as [mc IHsub] using machine_nested_ind. intros contained fuel ev rn g Hw Hp Hu.
  assert (IH : forall s c, s_sub (get_state mc s) = Some c -> forall contained fuel ev rn g,
            wk c rn -> g_plan g = [] -> g_up g = [] ->
            co_exit_pre (build cf parents contained c) fuel ev rn g =
              (Some tt, snd (mexit_spec c ev rn), bump g (fst (mexit_spec c ev rn)))) by (intros; eapply IHsub; eauto).
  clear IHsub.
  rewrite build_mp11. cbn [mp11_ops co_exit_pre]. unfold mon_exit_pre. rewrite mexit_spec_unfold.
  set (children := map (fun st => match s_sub st with Some c => Some (build cf parents true c) | None => None end) (m_states mc)).
  assert (Step : forall s rn g, wk mc rn -> g_plan g = [] -> g_up g = [] ->
            mexec_exit cf contained mc children fuel s ev rn g =
              (Some tt, snd (exit_state (mexit_subs mc) ev s ([], rn)), bump g (fst (exit_state (mexit_subs mc) ev s ([], rn))))
            /\ wk mc (snd (exit_state (mexit_subs mc) ev s ([], rn)))
            /\ act (snd (exit_state (mexit_subs mc) ev s ([], rn))) = act rn).
  { clear rn g Hw Hp Hu. intros s rn g Hw Hp Hu. unfold mexec_exit, exit_state, mchild, children, mexit_subs.
    rewrite !nth_map_sub. fold (get_state mc s).
    destruct (s_sub (get_state mc s)) as [c|] eqn:Es.
    - destruct (wk_kid mc rn s c Hw Es) as (kn & Hk & Hwk). rewrite Hk.
      destruct (mexit_spec c ev kn) as [inner kn_pre] eqn:Esp.
      unfold bind at 1. unfold min_child at 1. unfold bind at 1.
      rewrite (lift_plain s tt _ rn g kn tt kn_pre inner Hk).
      2:{ intros g0 H1 H2 _ _. rewrite (IH s c Es) by (auto; congruence). rewrite Esp. reflexivity. }
      unfold bind at 1. rewrite mabsorb_plain by (cbn; auto). unfold ret at 1.
      unfold bind at 1. rewrite mcb_at_plain by (cbn; auto).
      unfold min_child. unfold bind at 1.
      erewrite (lift_plain s tt _ _ _ kn_pre tt (mpost_exit c kn_pre) []).
      2:{ rewrite kids_set_kids. eapply nth_upd_some; eauto. }
      2:{ intros g0 _ _ _ _. rewrite build_mp11. cbn [mp11_ops co_exit_post]. rewrite mon_exit_post_plain. rewrite bump_nil. reflexivity. }
      unfold bind at 1. rewrite mabsorb_plain by (cbn; auto). unfold ret.
      cbn [fst snd]. rewrite kids_set_kids, upd_upd. split; [|split].
      + f_equal; [f_equal; destruct rn; reflexivity|].
        cbn [map]. rewrite bump_nil. rewrite !bump_bump. rewrite app_nil_r. f_equal.
        cbn [app]. f_equal. destruct rn; reflexivity.
      + pose proof (build_wspec cf parents c true) as W.
        assert (Hpre : wk c kn_pre).
        { pose proof (ws_exit_pre c _ W fuel ev kn (Glob [] (g_cb g) (g_plan g) (g_val g) (g_up g) (g_bad g))) as Hpres.
          rewrite (IH s c Es) in Hpres by (auto). rewrite Esp in Hpres. eapply Hpres; eauto. }
        assert (Hpost : wk c (mpost_exit c kn_pre)).
        { pose proof (ws_exit_post c _ W ev kn_pre g) as Hpres. rewrite build_mp11 in Hpres. cbn [mp11_ops co_exit_post] in Hpres.
          rewrite mon_exit_post_plain in Hpres. eapply Hpres; eauto. }
        eapply (wk_lift mc s tt (fun _ g => (Some tt, mpost_exit c kn_pre, g))); [| exact Hw |].
        * intros c' Hc'. rewrite Es in Hc'. inversion Hc'; subst c'. intros r0 g0 r1 rn1 g1 _ E. inversion E; subst. exact Hpost.
        * unfold lift_child. rewrite Hk. reflexivity.
      + destruct rn; reflexivity.
    - match goal with |- context [mcb ?a ?b ?c KExit s ev false] =>
        change (mcb a b c KExit s ev false) with (mcb_at a b c [] KExit s ev false) end.
      rewrite mcb_at_plain by auto. cbn [fst snd]. split; [reflexivity | split; [exact Hw | reflexivity]]. }
  assert (Sts : forall l rn g, wk mc rn -> g_plan g = [] -> g_up g = [] ->
            mexit_states cf contained mc children fuel ev l rn g =
              (Some tt, snd (fold_left (fun acc s => exit_state (mexit_subs mc) ev s acc) l ([], rn)),
               bump g (fst (fold_left (fun acc s => exit_state (mexit_subs mc) ev s acc) l ([], rn))))).
  { clear rn g Hw Hp Hu. induction l as [|s l IHl]; intros rn g Hw Hp Hu; cbn [mexit_states fold_left].
    - cbn. rewrite bump_nil. reflexivity.
    - unfold bind at 1. destruct (Step s rn g Hw Hp Hu) as (E & Hw1 & _). rewrite E.
      destruct (exit_state (mexit_subs mc) ev s ([], rn)) as [it1 rn1] eqn:E1. cbn [fst snd] in *.
      rewrite IHl by auto. rewrite (fold_mexit_acc _ _ _ it1 rn1).
      destruct (fold_left _ l ([], rn1)) as [it2 rn2]. cbn [fst snd]. rewrite bump_bump. reflexivity. }
  unfold bind at 1. unfold get at 1. destruct (running rn).
  - apply Sts; auto.
  - cbn. rewrite bump_nil. reflexivity.
  Unshelve. exact g.
Qed.
End Mp11Cascade.
