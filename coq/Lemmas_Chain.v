(* Lemmas_Chain.v - the transition chains of the three engines: candidates are tried one at a time, in list
   order, and the chain stops exactly at the first candidate that consumes the event (handled or deferred).
   The statements are about the generic combinators chain_gen / loop_gen that BackLevel.chain_row,
   BackLevel.fct_chain and Mp11Level.mchain_raw are instances of, and about the continuation / merge tables
   that tools/regen.py regenerates from the headers. *)
From Msm Require Import Run.

Definition consumed (c:nat) : bool := has_bits c handled_true_or_deferred.
Definition handled (c:nat) : bool := has_bits c HANDLED_TRUE.
Definition codes : list nat := [0;1;2;3;4;5;6;7].

(* ---- which items run: a sequential prefix ---- *)
(* run the items in order, collecting their codes, until stop says so (the stopping code is included) *)
Fixpoint run_until {A} (ex:A -> M nat) (stop:nat -> bool) (l:list A) : M (list nat) :=
  match l with
  | [] => ret []
  | x :: rest =>
      bind (ex x) (fun c => if stop c then ret [c] else bind (run_until ex stop rest) (fun cs => ret (c :: cs)))
  end.

(* the codes of a run: every code but the last lets the chain go on; the run is cut short only by a stopping code *)
Inductive prefix_run (stop:nat -> bool) : nat -> list nat -> Prop :=
| pr_all : forall n cs, length cs = n -> Forall (fun c => stop c = false) cs -> prefix_run stop n cs
| pr_cut : forall n cs c, length cs < n -> Forall (fun c => stop c = false) cs -> stop c = true -> prefix_run stop n (cs ++ [c]).

Lemma run_until_prefix {A} (ex:A -> M nat) stop l rn g cs rn' g' :
  run_until ex stop l rn g = (Some cs, rn', g') -> prefix_run stop (length l) cs.
Proof.
  revert rn g cs rn' g'. induction l as [|x rest IH]; intros rn g cs rn' g' H; cbn in H.
  - inversion H; subst. apply pr_all; auto.
  - unfold bind in H. destruct (ex x rn g) as [[[c|] rn1] g1] eqn:E; [|discriminate].
    destruct (stop c) eqn:Es.
    + inversion H; subst. apply (pr_cut stop (S (length rest)) [] c); cbn; auto; lia.
    + fold (@bind (list nat) (list nat)) in H. unfold bind in H.
      destruct (run_until ex stop rest rn1 g1) as [[[cs1|] rn2] g2] eqn:E2; [|discriminate].
      inversion H; subst. specialize (IH _ _ _ _ _ E2).
      inversion IH as [n cs' Hlen Hall Hn Hcs | n cs' c' Hlen Hall Hstop Hn Hcs]; subst.
      * apply pr_all; cbn; auto.
      * apply (pr_cut stop (S (length rest)) (c :: cs') c'); cbn; auto; lia.
Qed.

(* the effect of the run is the effect of executing exactly the first |cs| items, nothing else *)
Fixpoint exec_first {A} (ex:A -> M nat) (n:nat) (l:list A) : M unit :=
  match n, l with
  | S n', x :: rest => bind (ex x) (fun _ => exec_first ex n' rest)
  | _, _ => ret tt
  end.

Lemma run_until_effect {A} (ex:A -> M nat) stop l rn g cs rn' g' :
  run_until ex stop l rn g = (Some cs, rn', g') ->
  exec_first ex (length cs) l rn g = (Some tt, rn', g').
Proof.
  revert rn g cs rn' g'. induction l as [|x rest IH]; intros rn g cs rn' g' H; cbn in H.
  - inversion H; subst. reflexivity.
  - unfold bind in H. destruct (ex x rn g) as [[[c|] rn1] g1] eqn:E; [|discriminate].
    destruct (stop c) eqn:Es.
    + inversion H; subst. cbn. unfold bind. rewrite E. reflexivity.
    + destruct (run_until ex stop rest rn1 g1) as [[[cs1|] rn2] g2] eqn:E2; [|discriminate].
      inversion H; subst. cbn. unfold bind. rewrite E. apply (IH _ _ _ _ _ E2).
Qed.

(* ---- chain_gen = run a prefix, then merge the codes ---- *)
Fixpoint merge_codes (cont:nat -> bool) (merge:nat -> nat -> nat) (cs:list nat) : nat :=
  match cs with
  | [] => 0
  | c :: rest => if cont c then merge c (merge_codes cont merge rest) else c
  end.

Lemma chain_gen_run_until {A} (ex:A -> M nat) cont merge l :
  forall rn g, chain_gen ex cont merge l rn g =
               bind (run_until ex (fun c => negb (cont c)) l) (fun cs => ret (merge_codes cont merge cs)) rn g.
Proof.
  induction l as [|x rest IH]; intros rn g; cbn; [reflexivity|].
  unfold bind. destruct (ex x rn g) as [[[c|] rn1] g1]; [|reflexivity].
  destruct (cont c) eqn:Ec; cbn.
  - rewrite IH. unfold bind. destruct (run_until ex (fun c0 => negb (cont c0)) rest rn1 g1) as [[[cs|] rn2] g2]; cbn; [|reflexivity].
    unfold ret. rewrite Ec. reflexivity.
  - unfold ret. cbn. rewrite Ec. reflexivity.
Qed.

(* ---- loop_gen likewise: the items that run are a prefix determined by the accumulated code ---- *)
Fixpoint loop_codes (cont:nat -> bool) (step:nat -> nat -> nat) (acc:nat) (cs:list nat) : nat :=
  match cs with [] => acc | c :: rest => loop_codes cont step (step acc c) rest end.

Fixpoint run_loop {A} (ex:A -> M nat) (cont:nat -> bool) (step:nat -> nat -> nat) (acc:nat) (l:list A) : M (list nat) :=
  match l with
  | [] => ret []
  | x :: rest => if cont acc then bind (ex x) (fun c => bind (run_loop ex cont step (step acc c) rest) (fun cs => ret (c :: cs)))
                 else ret []
  end.

Lemma loop_gen_run_loop {A} (ex:A -> M nat) cont step l :
  forall acc rn g, loop_gen ex cont step acc l rn g =
                   bind (run_loop ex cont step acc l) (fun cs => ret (loop_codes cont step acc cs)) rn g.
Proof.
  induction l as [|x rest IH]; intros acc rn g; cbn; [reflexivity|].
  destruct (cont acc) eqn:Ec; [|reflexivity].
  unfold bind. destruct (ex x rn g) as [[[c|] rn1] g1]; [|reflexivity].
  rewrite IH. unfold bind. destruct (run_loop ex cont step (step acc c) rest rn1 g1) as [[[cs|] rn2] g2]; reflexivity.
Qed.

Lemma run_loop_effect {A} (ex:A -> M nat) cont step l :
  forall acc rn g cs rn' g',
  run_loop ex cont step acc l rn g = (Some cs, rn', g') ->
  exec_first ex (length cs) l rn g = (Some tt, rn', g') /\ length cs <= length l.
Proof.
  induction l as [|x rest IH]; intros acc rn g cs rn' g' H; cbn in H.
  - inversion H; subst. split; [reflexivity | cbn; lia].
  - destruct (cont acc); [|inversion H; subst; split; [reflexivity | cbn; lia]].
    unfold bind in H. destruct (ex x rn g) as [[[c|] rn1] g1] eqn:E; [|discriminate].
    destruct (run_loop ex cont step (step acc c) rest rn1 g1) as [[[cs1|] rn2] g2] eqn:E2; [|discriminate].
    inversion H; subst. destruct (IH _ _ _ _ _ _ E2) as [H1 H2]. split; [|cbn; lia].
    cbn. unfold bind. rewrite E. exact H1.
Qed.

(* the accumulated code before each executed item lets the loop continue; the loop is cut short only when the
   accumulated code says stop *)
Lemma run_loop_cut {A} (ex:A -> M nat) cont step l :
  forall acc rn g cs rn' g',
  run_loop ex cont step acc l rn g = (Some cs, rn', g') ->
  length cs < length l -> cont (loop_codes cont step acc cs) = false.
Proof.
  induction l as [|x rest IH]; intros acc rn g cs rn' g' H Hl; cbn in H.
  - inversion H; subst. cbn in Hl. lia.
  - destruct (cont acc) eqn:Ec; [|inversion H; subst; cbn; exact Ec].
    unfold bind in H. destruct (ex x rn g) as [[[c|] rn1] g1] eqn:E; [|discriminate].
    destruct (run_loop ex cont step (step acc c) rest rn1 g1) as [[[cs1|] rn2] g2] eqn:E2; [|discriminate].
    inversion H; subst. cbn in Hl. cbn. apply (IH _ _ _ _ _ _ E2). lia.
Qed.

(* ---- the regenerated tables: "continue" means "not consumed", for every result code ---- *)
Lemma back_continue_iff : forallb (fun c => Bool.eqb (tab1 back_chain_continue c) (negb (consumed c))) codes = true.
Proof. vm_compute. reflexivity. Qed.
Lemma back11_continue_iff : forallb (fun c => Bool.eqb (tab1 back11_chain_continue c) (negb (consumed c))) codes = true.
Proof. vm_compute. reflexivity. Qed.
Lemma fct_continue_iff : forallb (fun c => Bool.eqb (tab1 fct_chain_continue c) (negb (consumed c))) codes = true.
Proof. vm_compute. reflexivity. Qed.
Lemma mp11_stop_iff : forallb (fun c => Bool.eqb (tab1 mp11_chain_stop c) (consumed c)) codes = true.
Proof. vm_compute. reflexivity. Qed.

Lemma codes_complete c : c < 8 -> In c codes.
Proof. intros H. unfold codes. do 8 (destruct c as [|c]; [cbn; tauto|]). lia. Qed.

Lemma table_lift (p:nat -> bool) : forallb p codes = true -> forall c, c < 8 -> p c = true.
Proof. intros H c Hc. rewrite forallb_forall in H. apply H. apply codes_complete; auto. Qed.

Lemma back_continue_spec c (is11:bool) : c < 8 ->
  tab1 (if is11 then back11_chain_continue else back_chain_continue) c = negb (consumed c).
Proof.
  intros H. destruct is11.
  - apply eqb_prop. apply (table_lift _ back11_continue_iff c H).
  - apply eqb_prop. apply (table_lift _ back_continue_iff c H).
Qed.
Lemma fct_continue_spec c : c < 8 -> tab1 fct_chain_continue c = negb (consumed c).
Proof. intros H. apply eqb_prop. apply (table_lift _ fct_continue_iff c H). Qed.
Lemma mp11_stop_spec c : c < 8 -> tab1 mp11_chain_stop c = consumed c.
Proof. intros H. apply eqb_prop. apply (table_lift _ mp11_stop_iff c H). Qed.

(* merging never loses or invents the consumed / handled information of the rest of the chain:
   for a first code that lets the chain continue (so it is 0 or GUARD_REJECT) the merged code has the same
   handled and deferred bits as the code of the rest; swept over all pairs of codes *)
Definition pairs : list (nat * nat) := flat_map (fun a => map (fun b => (a, b)) codes) codes.
Definition merge_ok (cont:nat -> bool) (merge:nat -> nat -> nat) : bool :=
  forallb (fun ab => let '(a, b) := ab in
                     if cont a then Bool.eqb (handled (merge a b)) (handled b) && Bool.eqb (consumed (merge a b)) (consumed b)
                                    && (negb (Nat.eqb (merge a b) 0) || (Nat.eqb a 0 && Nat.eqb b 0))
                     else true) pairs.
Lemma back_merge_ok : merge_ok (tab1 back_chain_continue) (tab2 back_chain_merge) = true.
Proof. vm_compute. reflexivity. Qed.
Lemma back11_merge_ok : merge_ok (tab1 back11_chain_continue) (tab2 back11_chain_merge) = true.
Proof. vm_compute. reflexivity. Qed.
Lemma fct_step_ok : merge_ok (tab1 fct_chain_continue) (fun a b => tab2 fct_chain_step a b) = true.
Proof. vm_compute. reflexivity. Qed.
(* backmp11: the value returned when the chain stops keeps the handled / deferred bits and drops GUARD_REJECT *)
Lemma mp11_mask_ok : forallb (fun c => if tab1 mp11_chain_stop c
                                       then Bool.eqb (handled (tab1n mp11_chain_mask c)) (handled c)
                                            && Bool.eqb (has_bits (tab1n mp11_chain_mask c) HANDLED_DEFERRED) (has_bits c HANDLED_DEFERRED)
                                            && negb (has_bits (tab1n mp11_chain_mask c) HANDLED_GUARD_REJECT)
                                       else true) codes = true.
Proof. vm_compute. reflexivity. Qed.
