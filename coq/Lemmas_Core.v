(* Lemmas_Core.v - facts about the core fragment and about the specification functions that do not depend on an engine
   (shared by Lemmas_SpecMp11.v; Lemmas_SpecBack.v carries its own copies inside its section). *)
From Msm Require Import Run Lemmas_C19 Lemmas_Rows Lemmas_Sim Spec.
From Coq Require Import Lia.

Arguments sp_exit_state : simpl never.
Arguments sp_enter_state : simpl never.
Arguments sp_take : simpl never.
Arguments sp_exit : simpl never.
Arguments sp_enter : simpl never.
Arguments sp_level : simpl never.
Arguments switch_id : simpl never.


Definition code_ok (code:nat) (h rj:bool) : Prop :=
  if h then code = 1 \/ code = 3 else code = (if rj then 2 else 0).

Lemma code_ok_or c1 c2 h1 r1 h2 r2 : code_ok c1 h1 r1 -> code_ok c2 h2 r2 -> code_ok (bit_or c1 c2) (h1 || h2) (r1 || r2).
Proof.
  unfold code_ok. destruct h1, h2, r1, r2; cbn; intros H1 H2; repeat (destruct H1 as [H1|H1]); repeat (destruct H2 as [H2|H2]);
    subst; cbn; auto.
Qed.

Lemma sp_exit_state_acc subs ev s items c :
  sp_exit_state subs ev s (items, c) = let '(it, c') := sp_exit_state subs ev s ([], c) in (it ++ items, c').
Proof.
  unfold sp_exit_state. destruct (nth s subs None) as [f|]; [|cbn; reflexivity].
  destruct (nth s (c_kids c) None) as [k|]; [|cbn; reflexivity].
  destruct (f ev k) as [inner k1]. cbn. rewrite app_nil_r. reflexivity.
Qed.

Lemma sp_enter_state_acc subs ev s items c :
  sp_enter_state subs ev s (items, c) = let '(it, c') := sp_enter_state subs ev s ([], c) in (it ++ items, c').
Proof.
  unfold sp_enter_state. destruct (nth s subs None) as [[m f]|]; [|cbn; reflexivity].
  destruct (nth s (c_kids c) None) as [k|]; [|cbn; reflexivity].
  destruct (f ev _) as [inner k1]. cbn. rewrite <- app_assoc. reflexivity.
Qed.

Lemma code_ok_lt4 c h rj : code_ok c h rj -> c < 4.
Proof. unfold code_ok. destruct h; [intros [->| ->]; lia | destruct rj; intros ->; lia]. Qed.

Lemma Forall_filter {A} (P:A -> Prop) f l : Forall P l -> Forall P (filter f l).
Proof. intros H. induction H as [|x l Hx Hl IH]; cbn; [constructor|]. destruct (f x); [constructor; auto | auto]. Qed.

Lemma Forall_rev' {A} (P:A -> Prop) l : Forall P l -> Forall P (rev l).
Proof. intros H. apply Forall_forall. intros x Hx. apply in_rev in Hx. eapply Forall_forall in H; eauto. Qed.

Lemma filter_ext_Forall {A} (f g:A -> bool) (P:A -> Prop) l :
  Forall P l -> (forall x, P x -> f x = g x) -> filter f l = filter g l.
Proof. intros H Hfg. induction H as [|x l Hx Hl IH]; cbn; [reflexivity|]. rewrite (Hfg x Hx), IH. reflexivity. Qed.

Lemma existsb_false_nth {A} (f:A -> bool) l d : (forall s, f (nth s l d) = false) -> existsb f l = false.
Proof.
  intros H. induction l as [|x l IH]; cbn [existsb]; [reflexivity|]. pose proof (H 0) as H0. cbn [nth] in H0. rewrite H0. cbn [orb]. apply IH. intros s. apply (H (S s)).
Qed.

Lemma existsb_false_Forall {A} (f:A -> bool) (P:A -> Prop) l : Forall P l -> (forall x, P x -> f x = false) -> existsb f l = false.
Proof. intros H Hf. induction H as [|x l Hx Hl IH]; cbn; [reflexivity|]. rewrite (Hf x Hx). exact IH. Qed.

Lemma existsb_forall {A} (f:A -> bool) l : existsb f l = false <-> (forall x, In x l -> f x = false).
Proof.
  induction l as [|a l IH]; cbn; [split; [intros _ x [] | reflexivity]|].
  rewrite orb_false_iff, IH. split.
  - intros (Ha & Hl) x [->|Hx]; auto.
  - intros H. split; [apply H; left; reflexivity | intros x Hx; apply H; right; exact Hx].
Qed.

Lemma filter_nil_Forall {A} (f:A -> bool) l : (forall x, In x l -> f x = false) -> filter f l = [].
Proof. intros H. induction l as [|x l IH]; cbn; [reflexivity|]. rewrite (H x) by (left; reflexivity). apply IH. intros y Hy. apply H. right. exact Hy. Qed.

Lemma match_id {A} (l:list A) : match l with [] => [] | _ :: _ => l end = l.
Proof. destruct l; reflexivity. Qed.

Lemma c_set_kid_same c s k : nth s (c_kids c) None = Some k -> c_set_kid c s k = c.
Proof.
  destruct c as [a ks h]. cbn. intros H. f_equal. revert s H. induction ks as [|x t IH]; intros [|s] H; cbn in *; try discriminate.
  - subst x. reflexivity.
  - f_equal. apply IH. exact H.
Qed.

Definition core_row' (x:row) : Prop :=
  r_act x <> ActDefer /\ r_exitpt x = None /\ (r_tgt x = TgNone \/ exists t, r_tgt x = TgState t).

Definition trig_core (x:row) : Prop := exists e, r_trig x = TrEv e /\ e <> EV_NONE.

Lemma core_row_parts n x : core_row n x -> core_row' x /\ trig_core x.
Proof. intros (Ht & Ha & Hx & Hg). split; [split; [exact Ha | split; [exact Hx | exact Hg]] | exact Ht]. Qed.

Lemma core_irow_parts x : core_irow x -> core_row' x /\ trig_core x.
Proof. intros (Ht & Ha & Hx & Hg). split; [split; [exact Ha | split; [exact Hx | left; exact Hg]] | exact Ht]. Qed.

Definition good (x:row) : Prop := core_row' x /\ trig_core x.

Lemma good_no_defer x : good x -> match r_act x with ActDefer => true | _ => false end = false.
Proof. intros ((Hd & _) & _). destruct (r_act x); congruence. Qed.

Lemma core_states_kind states : forall s,
  (fix all (l:list state) : Prop :=
     match l with
     | [] => True
     | State k sub sirows defers _ _ :: t =>
         defers = [] /\ Forall core_irow sirows /\
         match sub with Some m => k = KSub /\ core m | None => k = KSimple end /\ all t
     end) states ->
  s_sub (nth s states dummy_state) = None -> s_kind (nth s states dummy_state) = KSimple.
Proof.
  induction states as [|st t IH]; intros s Hall Hs.
  - destruct s; reflexivity.
  - destruct st as [k sub si df fl z]. destruct Hall as (_ & _ & Hk & Hrest). destruct s as [|s]; cbn in *.
    + subst sub. exact Hk.
    + apply IH; auto.
Qed.

Lemma core_states_facts states : forall s,
  (fix all (l:list state) : Prop :=
     match l with
     | [] => True
     | State k sub sirows defers _ _ :: t =>
         defers = [] /\ Forall core_irow sirows /\
         match sub with Some m => k = KSub /\ core m | None => k = KSimple end /\ all t
     end) states ->
  s_defers (nth s states dummy_state) = [] /\ Forall good (s_irows (nth s states dummy_state)) /\
  is_blocking_state (nth s states dummy_state) = false /\
  match s_sub (nth s states dummy_state) with Some m => core m | None => True end.
Proof.
  induction states as [|st t IH]; intros s Hall.
  - destruct s; cbn; auto.
  - destruct st as [k sub si df fl z]. destruct Hall as (Hd & Hsi & Hk & Hrest). destruct s as [|s]; cbn [nth].
    + cbn. split; [exact Hd|]. split.
      * eapply Forall_impl; [|exact Hsi]. intros x Hx. apply core_irow_parts; auto.
      * destruct sub as [m|]; [destruct Hk as (-> & Hm) | subst k]; cbn; auto.
    + apply IH; auto.
Qed.


Section Core.
Variable mc : machine.
Hypothesis Hcore : core mc.

Lemma core_state_kind s : s_sub (get_state mc s) = None -> s_kind (get_state mc s) = KSimple.
Proof.
  unfold get_state. destruct mc as [states inits rows irows hist]. cbn in Hcore. destruct Hcore as (_ & _ & Hall).
  cbn [m_states]. apply core_states_kind. exact Hall.
Qed.

Lemma core_rows_good : Forall good (m_rows mc).
Proof.
  destruct mc as [states inits rows irows hist]. cbn in Hcore. destruct Hcore as (Hr & _ & _). cbn [m_rows].
  eapply Forall_impl; [|exact Hr]. intros x Hx. eapply core_row_parts; eauto.
Qed.

Lemma core_irows_good : Forall good (m_irows mc).
Proof.
  destruct mc as [states inits rows irows hist]. cbn in Hcore. destruct Hcore as (_ & Hi & _). cbn [m_irows].
  eapply Forall_impl; [|exact Hi]. intros x Hx. apply core_irow_parts; auto.
Qed.

Lemma core_state s :
  s_defers (get_state mc s) = [] /\ Forall good (s_irows (get_state mc s)) /\ is_blocking_state (get_state mc s) = false /\
  match s_sub (get_state mc s) with Some m => core m | None => True end.
Proof.
  unfold get_state. destruct mc as [states inits rows irows hist]. cbn in Hcore. destruct Hcore as (_ & _ & Hall).
  cbn [m_states]. apply core_states_facts. exact Hall.
Qed.

Lemma core_no_blocking : has_blocking mc = false.
Proof. unfold has_blocking. apply existsb_false_nth with (d := dummy_state). intros s. apply (core_state s). Qed.

Lemma core_no_completion : has_completion_rows mc = false.
Proof.
  unfold has_completion_rows. eapply existsb_false_Forall; [apply core_rows_good|]. intros x (_ & (e & He & _)). rewrite He. reflexivity.
Qed.

Lemma core_no_deferring : has_deferring_states mc = false.
Proof.
  unfold has_deferring_states.
  rewrite (existsb_false_nth _ (m_states mc) dummy_state).
  2:{ intros s. destruct (core_state s) as (Hd & _). fold (get_state mc s). rewrite Hd. reflexivity. }
  rewrite (existsb_false_Forall _ good (m_rows mc) core_rows_good good_no_defer).
  rewrite (existsb_false_nth _ (m_states mc) dummy_state).
  2:{ intros s. destruct (core_state s) as (_ & Hsi & _). fold (get_state mc s).
      eapply existsb_false_Forall; [exact Hsi | exact good_no_defer]. }
  rewrite (existsb_false_Forall _ good (m_irows mc) core_irows_good good_no_defer). reflexivity.
Qed.


Variable pol : nat.
Variable val : list nat.

Lemma exit_subs_nth s : nth s (sp_exit_subs mc) None =
  match s_sub (get_state mc s) with
  | Some m => Some (fun ev k => let '(it, k1) := sp_exit m ev k in (it, sp_post_exit m k1))
  | None => None end.
Proof. unfold sp_exit_subs. apply nth_map_sub. Qed.

Lemma enter_subs_nth s : nth s (sp_enter_subs mc) None =
  match s_sub (get_state mc s) with Some m => Some (m, sp_enter m) | None => None end.
Proof. unfold sp_enter_subs. apply nth_map_sub. Qed.

Lemma sp_rows_cons x t r ev c :
  sp_rows pol mc r ev val (x :: t) c =
  let o1 := sp_rows pol mc r ev val [x] c in
  if o_taken o1 then o1
  else (let o2 := sp_rows pol mc r ev val t (o_conf o1) in
        Out (o_taken o2) true (o_items o2 ++ o_items o1) (o_conf o2)).
Proof.
  cbn [sp_rows]. destruct (r_guard x).
  - destruct (memb (r_id x) val).
    + destruct (sp_take pol mc r x ev c) as [i c']. reflexivity.
    + cbn. reflexivity.
  - destruct (sp_take pol mc r x ev c) as [i c']. reflexivity.
Qed.

Lemma level_subs_nth s : nth s (sp_level_subs pol mc) None =
  match s_sub (get_state mc s) with Some m => Some (sp_level pol m) | None => None end.
Proof. unfold sp_level_subs. apply nth_map_sub. Qed.

Definition reg_step (ev:evt) (o:outcome) (r:nat) : outcome :=
  let o' := sp_region pol mc (sp_level_subs pol mc) ev val r (o_conf o) in
  Out (o_taken o || o_taken o') (o_rejected o || o_rejected o') (o_items o' ++ o_items o) (o_conf o').

Lemma sp_regions_fold ev c :
  sp_regions pol mc (sp_level_subs pol mc) ev val c = fold_left (reg_step ev) (seqn 0 (m_nreg mc)) (Out false false [] c).
Proof. reflexivity. Qed.

Lemma sp_level_unfold ev c :
  sp_level pol mc ev val c =
  let o := sp_regions pol mc (sp_level_subs pol mc) ev val c in
  if o_taken o then o
  else (let o2 := sp_rows pol mc 0 ev val (rev (filter (sp_matches (e_ty ev)) (m_irows mc))) (o_conf o) in
        Out (o_taken o2) (o_rejected o || o_rejected o2) (o_items o2 ++ o_items o) (o_conf o2)).
Proof. destruct mc; reflexivity. Qed.

Lemma sp_exit_unfold ev c :
  sp_exit mc ev c = fold_left (fun acc r => sp_exit_state (sp_exit_subs mc) ev (nth r (c_act (snd acc)) 0) acc) (seqn 0 (m_nreg mc)) ([], c).
Proof. destruct mc; reflexivity. Qed.

Lemma sp_enter_unfold ev c :
  sp_enter mc ev c = fold_left (fun acc r => sp_enter_state (sp_enter_subs mc) ev (nth r (c_act (snd acc)) 0) acc) (seqn 0 (m_nreg mc)) ([], c).
Proof. destruct mc; reflexivity. Qed.


Variable parents : list (option nat).
Hypothesis Hflat : forall e, nth e parents None = None.

Lemma flat_base t e : is_base_of parents t e = Nat.eqb t e.
Proof.
  unfold is_base_of. destruct (length parents) as [|n]; cbn; [rewrite orb_false_r; reflexivity|].
  rewrite Hflat. rewrite orb_false_r. reflexivity.
Qed.

Lemma good_unmatched ety x : good x -> trig_matches parents true (r_trig x) ety = false -> sp_matches ety x = false.
Proof.
  intros (_ & (e & He & Hne)). unfold sp_matches. rewrite He. cbn [trig_matches]. rewrite flat_base.
  destruct (Nat.eqb e ety) eqn:E; [|reflexivity]. apply Nat.eqb_eq in E. subst ety.
  destruct (Nat.eqb e EV_NONE) eqn:E2; [apply Nat.eqb_eq in E2; contradiction|]. cbn. discriminate.
Qed.

End Core.

(* the boolean fragment test used by the direct comparison implies the fragment *)
Lemma core_rowb_ok n x : core_rowb x = true -> core_row n x.
Proof.
  unfold core_rowb, core_row, trig_plainb, act_plainb, noexitb. intros H.
  apply andb_true_iff in H. destruct H as (H & Ht). apply andb_true_iff in H. destruct H as (H & Hx).
  apply andb_true_iff in H. destruct H as (Htr & Ha).
  split; [|split; [|split]].
  - destruct (r_trig x) as [e| |]; try discriminate. exists e. split; [reflexivity|].
    apply negb_true_iff in Htr. apply Nat.eqb_neq in Htr. exact Htr.
  - destruct (r_act x); try discriminate; discriminate.
  - destruct (r_exitpt x); [discriminate | reflexivity].
  - destruct (r_tgt x) as [|t| |]; try discriminate; [left; reflexivity | right; exists t; reflexivity].
Qed.
Lemma core_irowb_ok x : core_irowb x = true -> core_irow x.
Proof.
  unfold core_irowb, core_irow, trig_plainb, act_plainb, noexitb. intros H.
  apply andb_true_iff in H. destruct H as (H & Ht). apply andb_true_iff in H. destruct H as (H & Hx).
  apply andb_true_iff in H. destruct H as (Htr & Ha).
  split; [|split; [|split]].
  - destruct (r_trig x) as [e| |]; try discriminate. exists e. split; [reflexivity|].
    apply negb_true_iff in Htr. apply Nat.eqb_neq in Htr. exact Htr.
  - destruct (r_act x); try discriminate; discriminate.
  - destruct (r_exitpt x); [discriminate | reflexivity].
  - destruct (r_tgt x); try discriminate. reflexivity.
Qed.
Lemma forallb_Forall {A} (f:A -> bool) (P:A -> Prop) l : (forall x, f x = true -> P x) -> forallb f l = true -> Forall P l.
Proof.
  intros H. induction l as [|x t IH]; cbn; intros E; [constructor|]. apply andb_true_iff in E. destruct E as (E1 & E2).
  constructor; auto.
Qed.
Theorem coreb_core : forall mc, coreb mc = true -> core mc.
Proof.
  fix IH 1. intros mc. destruct mc as [states inits rows irows hist]. cbn [coreb core]. intros H.
  apply andb_true_iff in H. destruct H as (H & Hst). apply andb_true_iff in H. destruct H as (Hr & Hi).
  split; [eapply forallb_Forall; [|exact Hr]; intros x; apply core_rowb_ok|].
  split; [eapply forallb_Forall; [|exact Hi]; intros x; apply core_irowb_ok|].
  clear Hr Hi. induction states as [|st t IHt]; [exact I|].
  destruct st as [k sub sirows defers fl z]. apply andb_true_iff in Hst. destruct Hst as (Hst & Ht).
  apply andb_true_iff in Hst. destruct Hst as (Hst & Hk). apply andb_true_iff in Hst. destruct Hst as (Hd & Hs).
  split; [destruct defers; [reflexivity | discriminate]|].
  split; [eapply forallb_Forall; [|exact Hs]; intros x; apply core_irowb_ok|].
  split; [|apply IHt; exact Ht].
  destruct sub as [m|]; destruct k; try discriminate; [split; [reflexivity | apply IH; exact Hk] | reflexivity].
Qed.
