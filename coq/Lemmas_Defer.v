(* Lemmas_Defer.v - back / back11 deferred queue: the "restore the order" sort of do_handle_deferred.
   After a deferred event has been handled the queue holds events of the current sequence (not yet looked at)
   and events that were re-queued during this pass (sequence cur+1, modulo the counter width).  The sort must put
   the re-queued ones in front, keeping the arrival order inside each group - for every value of the counter,
   including the wrap-around. *)
From Msm Require Import Run.
From Coq Require Import Permutation.

Section Sort.
Variable cur : Z.
Notation dist q := (seq_dist cur (qseq q)).

Definition is_new (q:qitem) : bool := Z.eqb (dist q) 1.
Definition is_old (q:qitem) : bool := Z.eqb (dist q) 0.

Lemma insert_desc_perm x l : Permutation (insert_desc cur x l) (x :: l).
Proof.
  induction l as [|y t IH]; cbn; [reflexivity|].
  destruct (Z.ltb (dist y) (dist x)); [reflexivity|].
  rewrite IH. apply perm_swap.
Qed.

Lemma sort_desc_perm_acc l : forall acc, Permutation (fold_left (fun a x => insert_desc cur x a) l acc) (rev l ++ acc).
Proof.
  induction l as [|x l IH]; intros acc; cbn; [reflexivity|].
  rewrite IH. rewrite insert_desc_perm. rewrite <- app_assoc. cbn. reflexivity.
Qed.

(* nothing is lost or duplicated by the sort *)
Lemma sort_desc_perm l : Permutation (sort_desc cur l) l.
Proof.
  unfold sort_desc. rewrite sort_desc_perm_acc. rewrite app_nil_r. symmetry. apply Permutation_rev.
Qed.

(* inserting into [new...] ++ [old...] *)
Lemma insert_new x A B :
  Forall (fun q => is_new q = true) A -> Forall (fun q => is_old q = true) B -> is_new x = true ->
  insert_desc cur x (A ++ B) = A ++ x :: B.
Proof.
  intros HA HB Hx. unfold is_new in Hx. apply Z.eqb_eq in Hx.
  induction A as [|a A IH]; cbn.
  - destruct B as [|b B]; cbn; [reflexivity|]. inversion HB as [|? ? Hb ?]; subst. unfold is_old in Hb. apply Z.eqb_eq in Hb.
    rewrite Hb, Hx. reflexivity.
  - inversion HA as [|? ? Ha HA']; subst. unfold is_new in Ha. apply Z.eqb_eq in Ha. rewrite Ha, Hx. cbn. rewrite IH; auto.
Qed.

Lemma insert_old x A B :
  Forall (fun q => is_new q = true) A -> Forall (fun q => is_old q = true) B -> is_old x = true ->
  insert_desc cur x (A ++ B) = A ++ B ++ [x].
Proof.
  intros HA HB Hx. unfold is_old in Hx. apply Z.eqb_eq in Hx.
  induction A as [|a A IH]; cbn.
  - induction B as [|b B IHB]; cbn; [reflexivity|]. inversion HB as [|? ? Hb HB']; subst. unfold is_old in Hb. apply Z.eqb_eq in Hb.
    rewrite Hb, Hx. cbn. rewrite IHB; auto.
  - inversion HA as [|? ? Ha HA']; subst. unfold is_new in Ha. apply Z.eqb_eq in Ha. rewrite Ha, Hx. cbn. rewrite IH; auto.
Qed.

Lemma filter_all {A} (p:A -> bool) l : Forall (fun q => p (q) = true) (filter p l).
Proof. apply Forall_forall. intros x Hx. apply filter_In in Hx. tauto. Qed.

(* the whole sort: re-queued events first, then the untouched ones, arrival order kept inside each group *)
Lemma sort_desc_two_groups l :
  Forall (fun q => is_new q = true \/ is_old q = true) l ->
  sort_desc cur l = filter is_new l ++ filter is_old l.
Proof.
  intros H. unfold sort_desc.
  assert (G : forall l0 done, Forall (fun q => is_new q = true \/ is_old q = true) l0 ->
            fold_left (fun a x => insert_desc cur x a) l0 (filter is_new done ++ filter is_old done) =
            filter is_new (done ++ l0) ++ filter is_old (done ++ l0)).
  { induction l0 as [|x l0 IH]; intros done Hl; cbn; [rewrite !app_nil_r; reflexivity|].
    inversion Hl as [|? ? Hx Hl']; subst.
    assert (E : done ++ x :: l0 = (done ++ [x]) ++ l0) by (rewrite <- app_assoc; reflexivity).
    rewrite E. rewrite <- IH by auto. f_equal.
    rewrite !filter_app. cbn.
    destruct Hx as [Hx|Hx].
    - assert (Ho : is_old x = false).
      { unfold is_new, is_old in *. apply Z.eqb_eq in Hx. rewrite Hx. reflexivity. }
      rewrite Hx, Ho. rewrite insert_new by auto using filter_all.
      rewrite ?app_nil_r, <- ?app_assoc. reflexivity.
    - assert (Hn : is_new x = false).
      { unfold is_new, is_old in *. apply Z.eqb_eq in Hx. rewrite Hx. reflexivity. }
      rewrite Hx, Hn. rewrite insert_old by auto using filter_all.
      rewrite ?app_nil_r, <- ?app_assoc. reflexivity. }
  apply (G l [] H).
Qed.
End Sort.

(* a newly deferred / re-queued event gets sequence cur+1 (wrapped); its distance to cur is 1 for every value the
   counter can take, and an event of the current sequence has distance 0 - swept over the whole counter range *)
Definition counter_values : list Z := map (fun n => (Z.of_nat n - 128)%Z) (seqn 0 256).

Lemma requeue_distance : back_seq_bits = 8 /\ back_seq_signed = true /\
  forallb (fun c => Z.eqb (seq_dist c (wrap_back (c + 1))) 1 && Z.eqb (seq_dist c c) 0
                    && Z.eqb (wrap_back c) c) counter_values = true.
Proof. split; [reflexivity|]. split; [reflexivity|]. vm_compute. reflexivity. Qed.

Lemma seqn_in_range start len r : start <= r < start + len -> In r (seqn start len).
Proof.
  revert start. induction len as [|n IH]; intros start H; cbn; [lia|].
  destruct (Nat.eq_dec start r); [left; auto|right; apply IH; lia].
Qed.

Lemma counter_values_complete c : (-128 <= c <= 127)%Z -> In c counter_values.
Proof.
  intros H. unfold counter_values. apply in_map_iff. exists (Z.to_nat (c + 128)). split; [lia|].
  apply seqn_in_range. lia.
Qed.

(* for every value of the counter: a re-queued event has distance 1, an untouched one distance 0 *)
Lemma requeue_distance_spec c : (-128 <= c <= 127)%Z ->
  seq_dist c (wrap_back (c + 1)) = 1%Z /\ seq_dist c c = 0%Z /\ wrap_back c = c.
Proof.
  intros H. destruct requeue_distance as (_ & _ & F). rewrite forallb_forall in F.
  specialize (F c (counter_values_complete c H)).
  apply andb_true_iff in F as [F F3]. apply andb_true_iff in F as [F1 F2].
  apply Z.eqb_eq in F1, F2, F3. auto.
Qed.
