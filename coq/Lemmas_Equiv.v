(* Lemmas_Equiv.v - back and back11 are the same function in the model (on definitions without own internal tables:
   outside them finding F7 separates the two): every field of the level processor is convertible once the tables of
   Generated.v coincide, only the forwarded trigger set differs and it is equal when there are no internal tables. *)
From Msm Require Import Run.

(* no machine of the definition has an own internal_transition_table, no state has one *)
Fixpoint no_internal (mc:machine) : Prop :=
  let 'Machine states _ _ irows _ := mc in
  irows = [] /\
  (fix all (l:list state) : Prop :=
     match l with
     | [] => True
     | State _ sub sirows _ _ _ :: t =>
         sirows = [] /\ match sub with Some c => no_internal c | None => True end /\ all t
     end) states.

Section Eq.
Variable fct : bool.
Variable pol : nat.
Variable qb : bool.
Variable parents : list (option nat).
Let cfB := Cfg Back fct pol qb.
Let cfB11 := Cfg Back11 fct pol qb.

Lemma ops_eq contained mc children :
  m_irows mc = [] -> Forall (fun st => s_irows st = []) (m_states mc) ->
  back_ops cfB parents contained mc children = back_ops cfB11 parents contained mc children.
Proof.
  intros Hi Hs. unfold back_ops. f_equal.
  unfold level_trigs. cbn [is11 cfB cfB11 c_be]. rewrite Hi. cbn [map app].
  replace (flat_map (fun st => map r_trig (s_irows st)) (m_states mc)) with (@nil trigger); [reflexivity|].
  induction Hs as [|st t Hst Ht IH]; cbn; [reflexivity|]. rewrite Hst. cbn. exact IH.
Qed.

Lemma no_internal_unfold mc :
  no_internal mc <-> m_irows mc = [] /\ Forall (fun st => s_irows st = [] /\ match s_sub st with Some c => no_internal c | None => True end) (m_states mc).
Proof.
  destruct mc as [states inits rows irows hist]. cbn [no_internal m_irows m_states].
  assert (E : forall l, (fix all (l:list state) : Prop :=
     match l with
     | [] => True
     | State _ sub sirows _ _ _ :: t =>
         sirows = [] /\ match sub with Some c => no_internal c | None => True end /\ all t
     end) l <-> Forall (fun st => s_irows st = [] /\ match s_sub st with Some c => no_internal c | None => True end) l).
  { induction l as [|[k sub si df fl z] t IH]; cbn.
    - split; auto.
    - rewrite IH. split.
      + intros (A & B & C). constructor; auto.
      + intros H. inversion H as [|? ? [A B] C]; subst. auto. }
  rewrite E. reflexivity.
Qed.

Theorem build_back_back11 : forall mc contained, no_internal mc ->
  build cfB parents contained mc = build cfB11 parents contained mc.
Proof.
  fix IH 1. intros mc contained Hn. apply no_internal_unfold in Hn. destruct Hn as (Hi & Hs).
  destruct mc as [states inits rows irows hist]. cbn [m_irows m_states] in *.
  assert (Hch : map (fun st => match s_sub st with Some c => Some (build cfB parents true c) | None => None end) states
              = map (fun st => match s_sub st with Some c => Some (build cfB11 parents true c) | None => None end) states).
  { clear -IH Hs. induction states as [|st t IHt]; [reflexivity|].
    inversion Hs as [|? ? [_ Hst] Ht]; subst. cbn [map]. f_equal; [|apply IHt; auto].
    destruct st as [k sub si df fl z]. cbn in *. destruct sub as [c|]; [|reflexivity]. f_equal. apply IH. exact Hst. }
  unfold build; fold build. cbn [m_states c_be cfB cfB11]. rewrite Hch.
  apply ops_eq; cbn [m_irows m_states]; auto.
  eapply Forall_impl; [|exact Hs]. intros st [H _]; exact H.
Qed.

End Eq.

(* hence every history of operations gives the same trace and the same reported configurations *)
Theorem run_back_back11 fct pol qb md l : no_internal (md_root md) ->
  run (Cfg Back fct pol qb) md l = run (Cfg Back11 fct pol qb) md l.
Proof.
  intros Hn. unfold run. rewrite (build_back_back11 fct pol qb (md_parents md) _ false Hn).
  generalize (build (Cfg Back11 fct pol qb) (md_parents md) false (md_root md)) as ops.
  generalize (init_rnode (md_root md)) as rn. generalize default_fuel as fuel.
  induction l as [|o t IH]; intros fuel rn ops; [reflexivity|].
  cbn [run_ops].
  assert (E : run_op (Cfg Back fct pol qb) (md_root md) ops fuel rn o = run_op (Cfg Back11 fct pol qb) (md_root md) ops fuel rn o).
  { destruct o; reflexivity. }
  rewrite E. destruct (run_op (Cfg Back11 fct pol qb) (md_root md) ops fuel rn o) as [rn' tr]. f_equal. apply IH.
Qed.
