(* Lemmas_Fifo.v - the stored-event machinery refines an abstract run-to-completion queue: back's message queue for
   every history, backmp11's pool as long as no occurrence stays stored for a whole turn of the 16-bit counter. *)
From Msm Require Import Run Lemmas_Rtc.
From Coq Require Import Lia Permutation.

(* a dispatcher that records the event it is given and raises further events (those a behaviour would submit with
   process_event while the machine is processing): they are stored at the back *)
Section Fifo.
Variable raises : evt -> list evt.

Definition stubd (e:evt) (src:nat) : M nat :=
  bind (emit (Res (e_pay e)))
       (fun _ => bind (iterM (fun x => push_msg (QEv x SRC_MSG_QUEUE 0%Z false)) (raises e)) (fun _ => ret 0)).

(* the abstract run-to-completion queue: take the oldest, append what it raises *)
Fixpoint fifo (fuel:nat) (q:list evt) : list evt * list evt :=      (* dispatched so far, still stored *)
  match fuel, q with
  | S f, e :: rest => let '(d, r) := fifo f (rest ++ raises e) in (e :: d, r)
  | _, _ => ([], q)
  end.

Lemma iter_push l : forall rn g,
  iterM (fun x => push_msg (QEv x SRC_MSG_QUEUE 0%Z false)) l rn g = (Some tt, set_msgq rn (msgq rn ++ ev_queue l), g).
Proof.
  induction l as [|x l IH]; intros rn g; cbn [iterM].
  - unfold ret. cbn. rewrite app_nil_r. destruct rn; reflexivity.
  - unfold bind at 1. unfold push_msg, modify at 1. rewrite IH. destruct rn; cbn. rewrite <- app_assoc. reflexivity.
Qed.

Lemma ev_queue_app a b : ev_queue (a ++ b) = ev_queue a ++ ev_queue b.
Proof. unfold ev_queue. apply map_app. Qed.

(* any number of stored events, any events raised while they are dispatched (to any depth): the dispatch order is the
   abstract queue's, every occurrence is dispatched exactly once, and what the fuel does not reach stays stored in order *)
Theorem back_drain_refines_fifo : forall fuel q rn g,
  msgq rn = ev_queue q -> snd (fifo fuel q) = [] ->
  drain_msgq stubd fuel rn g =
    (Some tt, set_msgq rn [],
     Glob (rev (map (fun e => Res (e_pay e)) (fst (fifo fuel q))) ++ g_tr g) (g_cb g) (g_plan g) (g_val g) (g_up g) (g_bad g)).
Proof.
  induction fuel as [|f IH]; intros q rn g Hq Hdone.
  - cbn in Hdone. subst q. rewrite back_drain_empty by auto. destruct rn, g; cbn in *; subst; reflexivity.
  - destruct q as [|e rest].
    + rewrite back_drain_empty by auto. destruct rn, g; cbn in *; subst; reflexivity.
    + cbn [fifo] in *. destruct (fifo f (rest ++ raises e)) as [d r] eqn:E. cbn [fst snd] in *.
      cbn in Hq. rewrite (back_drain_step stubd f e SRC_MSG_QUEUE 0%Z false (ev_queue rest)) by auto.
      unfold bind at 1. unfold stubd. unfold bind at 1. unfold emit at 1.
      unfold bind at 1. rewrite iter_push. unfold ret at 1.
      rewrite (IH (rest ++ raises e)).
      * rewrite E. cbn [fst]. destruct rn, g; cbn. rewrite <- app_assoc. reflexivity.
      * destruct rn; cbn. rewrite ev_queue_app. reflexivity.
      * rewrite E. exact Hdone.
Qed.

(* nothing is lost or duplicated: what was stored plus what was raised = what was dispatched plus what is still stored *)
Theorem fifo_conserves : forall fuel q,
  let '(d, r) := fifo fuel q in
  Permutation (q ++ flat_map raises d) (d ++ r).
Proof.
  induction fuel as [|f IH]; intros q; cbn [fifo].
  - cbn. rewrite app_nil_r. apply Permutation_refl.
  - destruct q as [|e rest]; [cbn; apply Permutation_refl|].
    specialize (IH (rest ++ raises e)). destruct (fifo f (rest ++ raises e)) as [d r].
    cbn [flat_map app]. apply perm_skip.
    rewrite <- app_assoc in IH. exact IH.
Qed.
End Fifo.

(* ============================ backmp11: the event pool ============================ *)
From Coq Require Import ZArith ZifyBool.
Ltac Zify.zify_post_hook ::= Z.div_mod_to_equations.
Local Open Scope Z_scope.

Definition MW : Z := 2 ^ (Z.of_nat mp11_seq_bits).

Lemma wrap_mp11_mod z : wrap_mp11 z = z mod MW.
Proof. unfold wrap_mp11, wrap, MW. change mp11_seq_signed with false. reflexivity. Qed.

Lemma bind_ext_at {A B} (m:M A) (k1 k2:A -> M B) rn g :
  (forall a rn' g', k1 a rn' g' = k2 a rn' g') -> bind m k1 rn g = bind m k2 rn g.
Proof. intros H. unfold bind. destruct (m rn g) as [[[a|] rn1] g1]; auto. Qed.

Section Pool.
Variable cf : cfg.
Variable parents : list (option nat).
Variable contained : bool.
Variable mc : machine.
Variable children : list (option child_ops).
Variable raises : evt -> list evt.
(* no active configuration of this machine defers anything (e.g. a definition without deferring states) *)
Hypothesis Hnodefer : forall rn ety, defers_active mc children rn ety = false.

Definition mstubd (e:evt) (info:nat) : M nat :=
  bind (emit (Res (e_pay e)))
       (fun _ => bind (iterM (fun x => push_deferred x false) (raises e)) (fun _ => ret HANDLED_TRUE)).

(* a stored occurrence with its age: the value of the sequence counter when it was stored lies `age` behind *)
Definition item (c:Z) (x:evt * nat) : qitem := QEv (fst x) 0%nat ((c - Z.of_nat (snd x)) mod MW) false.
Definition pool_items (c:Z) (q:list (evt * nat)) : list qitem := map (item c) q.
Definition older (q:list (evt * nat)) : list (evt * nat) := map (fun x => (fst x, S (snd x))) q.

Fixpoint mfifo (n:nat) (q:list (evt * nat)) : list evt * list (evt * nat) :=
  match n, q with
  | S k, (e, a) :: rest => let '(d, r) := mfifo k (older rest ++ map (fun x => (x, 2%nat)) (raises e)) in (e :: d, r)
  | _, _ => ([], q)
  end.

Lemma iter_push_deferred l : forall rn g,
  iterM (fun x => push_deferred x false) l rn g =
    (Some tt, set_msgq rn (msgq rn ++ map (fun x => QEv x 0%nat (wrap_mp11 (curseq rn - 1)) false) l), g).
Proof.
  induction l as [|x l IH]; intros rn g; cbn [iterM].
  - unfold ret. cbn. rewrite app_nil_r. destruct rn; reflexivity.
  - unfold bind at 1. unfold push_deferred. unfold bind at 1. unfold get at 1. unfold push_msg, modify at 1.
    rewrite IH. destruct rn; cbn. rewrite <- app_assoc. reflexivity.
Qed.

Lemma item_older c x : 0 <= c < MW -> item ((c + 1) mod MW) (fst x, S (snd x)) = item c x.
Proof.
  intros Hc. unfold item. cbn [fst snd]. f_equal.
  rewrite Zminus_mod_idemp_l. f_equal. lia.
Qed.
Lemma item_new c x : item ((c + 1) mod MW) (x, 2%nat) = QEv x 0%nat (wrap_mp11 (c - 1)) false.
Proof.
  unfold item. cbn [fst snd]. f_equal. rewrite wrap_mp11_mod. rewrite Zminus_mod_idemp_l. f_equal. lia.
Qed.

Lemma MW_val : MW = 65536. Proof. reflexivity. Qed.

Lemma seq_neq c a : 0 <= c < 65536 -> 1 <= a < 65536 -> (c - a) mod 65536 <> c.
Proof. intros Hc Ha. lia. Qed.

Variable pei_rec : evt -> nat -> M nat.

Lemma pool_marked f idx p m rn g it :
  nth_error (msgq rn) idx = Some it -> is_marked it = true ->
  pool_loop cf parents contained mc children pei_rec (S f) idx p m rn g =
  pool_loop cf parents contained mc children pei_rec f idx p m (set_msgq rn (remove_at idx (msgq rn))) g.
Proof.
  intros Hn Hm. cbn [pool_loop]. unfold bind at 1. unfold get at 1. rewrite Hn, Hm.
  unfold bind at 1. unfold put at 1. reflexivity.
Qed.

Lemma pool_unmarked f idx p rn g e s seq :
  nth_error (msgq rn) idx = Some (QEv e s seq false) -> Z.eqb seq (curseq rn) = false ->
  pool_loop cf parents contained mc children pei_rec (S f) idx p 0 rn g =
  bind (pei_rec e INFO_POOL)
       (fun res => bind (when (negb (has_bits res HANDLED_DEFERRED)) (modify (fun rn => set_curseq rn (wrap_mp11 (curseq rn + 1)))))
                        (fun _ => pool_loop cf parents contained mc children pei_rec f 0
                                            (if Nat.eqb res HANDLED_DEFERRED then p else S p) 0))
       (set_msgq rn (mark_at idx (msgq rn))) g.
Proof.
  intros Hn Hs. cbn [pool_loop]. unfold bind at 1. unfold get at 1. rewrite Hn. cbn [is_marked].
  rewrite Hs, Hnodefer. cbn [orb]. unfold bind at 1. unfold put at 1.
  apply bind_ext_at. intros res rn' g'.
  change (negb (Nat.eqb 0 0)) with false. rewrite andb_false_r. reflexivity.
Qed.
End Pool.

Section PoolFifo.
Variable cf : cfg.
Variable parents : list (option nat).
Variable contained : bool.
Variable mc : machine.
Variable children : list (option child_ops).
Variable raises : evt -> list evt.
Hypothesis Hnodefer : forall rn ety, defers_active mc children rn ety = false.

Notation PL := (pool_loop cf parents contained mc children (mstubd raises)).

Lemma pool_round f e a rest rn g processed :
  0 <= curseq rn < MW -> 1 <= Z.of_nat a < MW ->
  msgq rn = pool_items (curseq rn) ((e, a) :: rest) ->
  PL (S (S f)) 0%nat processed 0%nat rn g =
  PL f 0%nat (S processed) 0%nat
    (set_curseq (set_msgq rn (pool_items ((curseq rn + 1) mod MW) (older rest ++ map (fun x => (x, 2%nat)) (raises e))))
                ((curseq rn + 1) mod MW))
    (Glob (Res (e_pay e) :: g_tr g) (g_cb g) (g_plan g) (g_val g) (g_up g) (g_bad g)).
Proof.
  intros Hc Ha Hq. rewrite MW_val in Hc, Ha.
  assert (Eseq : Z.eqb ((curseq rn - Z.of_nat a) mod MW) (curseq rn) = false).
  { apply Z.eqb_neq. rewrite MW_val. apply seq_neq; lia. }
  rewrite (pool_unmarked cf parents contained mc children Hnodefer (mstubd raises) (S f) 0%nat processed rn g e 0%nat ((curseq rn - Z.of_nat a) mod MW)) ;
    [| rewrite Hq; reflexivity | exact Eseq].
  unfold bind at 1. unfold mstubd at 1. unfold bind at 1. unfold emit at 1. unfold bind at 1.
  rewrite iter_push_deferred. unfold ret at 1.
  change (negb (has_bits HANDLED_TRUE HANDLED_DEFERRED)) with true. cbn [when].
  unfold bind at 1. unfold modify at 1.
  change (Nat.eqb HANDLED_TRUE HANDLED_DEFERRED) with false. cbn match.
  (* the marked cell is removed *)
  destruct rn as [ac ks hi q dq c pr ru]. cbn [curseq msgq set_msgq set_curseq] in *. subst q.
  cbn [pool_items map mark_at nth_error item fst snd upd app].
  erewrite pool_marked; [| cbn [msgq nth_error]; reflexivity | reflexivity].
  cbn [msgq set_msgq remove_at].
  f_equal. f_equal.
  rewrite wrap_mp11_mod. f_equal.
  unfold pool_items. rewrite map_app. f_equal.
  - unfold older. rewrite map_map. apply map_ext_in. intros x _.
    rewrite <- (item_older c x) by (rewrite MW_val; lia). reflexivity.
  - rewrite map_map. apply map_ext. intros x. rewrite item_new. reflexivity.
  Unshelve. exact raises.
Qed.

Definition ages_ok (n:nat) (q:list (evt * nat)) : Prop := Forall (fun x => 1 <= Z.of_nat (snd x) /\ Z.of_nat (snd x) + Z.of_nat n < MW) q.

Lemma pool_empty f p rn g : msgq rn = [] -> PL (S f) 0%nat p 0%nat rn g = (Some p, rn, g).
Proof. intros H. cbn [pool_loop]. unfold bind, get. rewrite H. reflexivity. Qed.

(* the backmp11 pool is the abstract run-to-completion queue as long as no stored occurrence stays for a whole turn of
   the 16-bit sequence counter (ages_ok; beyond that bound finding F6 applies): the oldest occurrence is dispatched
   first, what a dispatch raises is stored behind everything already stored, every occurrence is dispatched once *)
Theorem mp11_pool_refines_fifo : forall n q rn g p,
  0 <= curseq rn < MW -> msgq rn = pool_items (curseq rn) q -> ages_ok n q -> Z.of_nat n + 2 <= MW ->
  snd (mfifo raises n q) = [] ->
  PL (2 * n + 1)%nat 0%nat p 0%nat rn g =
    (Some (p + length (fst (mfifo raises n q)))%nat,
     set_curseq (set_msgq rn []) ((curseq rn + Z.of_nat (length (fst (mfifo raises n q)))) mod MW),
     Glob (rev (map (fun e => Res (e_pay e)) (fst (mfifo raises n q))) ++ g_tr g) (g_cb g) (g_plan g) (g_val g) (g_up g) (g_bad g)).
Proof.
  induction n as [|n IH]; intros q rn g p Hc Hq Hages Hn Hdone.
  - cbn [mfifo snd fst] in *. subst q. cbn [Nat.mul Nat.add length]. rewrite pool_empty by (rewrite Hq; reflexivity).
    rewrite Z.add_0_r. rewrite Z.mod_small by lia. rewrite Nat.add_0_r.
    destruct rn, g; cbn in *. subst. reflexivity.
  - destruct q as [|[e a] rest].
    + cbn [mfifo fst snd length]. replace (2 * S n + 1)%nat with (S (2 * n + 2)) by lia.
      rewrite pool_empty by (rewrite Hq; reflexivity).
      rewrite Z.add_0_r. rewrite Z.mod_small by lia. rewrite Nat.add_0_r.
      destruct rn, g; cbn in *. subst. reflexivity.
    + cbn [mfifo] in *. destruct (mfifo raises n (older rest ++ map (fun x => (x, 2%nat)) (raises e))) as [d r] eqn:E.
      cbn [fst snd] in *.
      inversion Hages as [|? ? [Ha1 Ha2] Hrest]; subst. cbn [snd] in *.
      replace (2 * S n + 1)%nat with (S (S (2 * n + 1))) by lia.
      rewrite (pool_round (2 * n + 1)%nat e a rest rn g p) by (auto; lia).
      rewrite (IH (older rest ++ map (fun x => (x, 2%nat)) (raises e))).
      * rewrite E. cbn [fst length]. f_equal; [f_equal; [f_equal; lia|]|].
        -- destruct rn as [ac ks hi qq dq c pr ru]. cbn [curseq set_curseq set_msgq] in *. f_equal.
           rewrite Zplus_mod_idemp_l. f_equal. lia.
        -- destruct g. cbn. rewrite <- app_assoc. reflexivity.
      * destruct rn; cbn. apply Z.mod_pos_bound. reflexivity.
      * destruct rn; reflexivity.
      * unfold ages_ok. apply Forall_app. split.
        -- unfold older. rewrite Forall_map. eapply Forall_impl; [|exact Hrest]. intros x [H1 H2]. cbn [snd]. lia.
        -- rewrite Forall_map. apply Forall_forall. intros x _. cbn [snd]. lia.
      * lia.
      * rewrite E. reflexivity.
Qed.
End PoolFifo.


(* ---- the pool with a deferring configuration ---- *)
(* While a configuration that defers the event types selected by D stays active (the dispatcher is a stub that records
   the payload and changes nothing), one pass of the pool loop dispatches exactly the stored occurrences whose type is
   not deferred, oldest first, each once, and leaves the deferred ones in the pool, unmarked, in their order, with
   their stamps - as long as no occurrence stays stored for a whole turn of the counter. *)
Section PoolDefer.
Variable cf : cfg.
Variable parents : list (option nat).
Variable contained : bool.
Variable mc : machine.
Variable children : list (option child_ops).
Variable D : nat -> bool.
(* the active configuration (what defers_active reads) stays what it is: conf0 *)
Definition conf_of (rn:rnode) : list nat * list (option rnode) * bool := (act rn, kids rn, running rn).
Variable conf0 : list nat * list (option rnode) * bool.
Hypothesis Hdefer : forall rn ety, conf_of rn = conf0 -> defers_active mc children rn ety = D ety.

Notation PL := (pool_loop cf parents contained mc children (mstubd (fun _ => []))).
Definition dfd (x:evt * nat) : bool := D (e_ty (fst x)).
Definition ndfd (x:evt * nat) : bool := negb (dfd x).

Lemma step_skip f idx p rn g e s seq : conf_of rn = conf0 ->
  nth_error (msgq rn) idx = Some (QEv e s seq false) -> D (e_ty e) = true ->
  PL (S f) idx p 0%nat rn g = PL f (S idx) p 0%nat rn g.
Proof.
  intros Hcf Hn Hd. cbn [pool_loop]. unfold bind at 1. unfold get at 1. rewrite Hn. cbn [is_marked].
  rewrite (Hdefer rn _ Hcf), Hd, orb_true_r. reflexivity.
Qed.

Lemma step_dispatch f idx p rn g e s seq : conf_of rn = conf0 ->
  nth_error (msgq rn) idx = Some (QEv e s seq false) -> Z.eqb seq (curseq rn) = false -> D (e_ty e) = false ->
  PL (S f) idx p 0%nat rn g =
  PL f 0%nat (S p) 0%nat (set_curseq (set_msgq rn (mark_at idx (msgq rn))) (wrap_mp11 (curseq rn + 1)))
     (Glob (Res (e_pay e) :: g_tr g) (g_cb g) (g_plan g) (g_val g) (g_up g) (g_bad g)).
Proof.
  intros Hcf Hn Hs Hd. cbn [pool_loop]. unfold bind at 1. unfold get at 1. rewrite Hn. cbn [is_marked].
  rewrite Hs, (Hdefer rn _ Hcf), Hd. cbn [orb]. unfold bind at 1. unfold put at 1.
  unfold bind at 1. unfold mstubd at 1. unfold bind at 1. unfold emit at 1. cbn [iterM]. unfold bind at 1. unfold ret at 1. unfold ret at 1.
  change (Nat.eqb HANDLED_TRUE HANDLED_DEFERRED) with false. change (negb (Nat.eqb 0 0)) with false.
  rewrite andb_false_r. change (negb (has_bits HANDLED_TRUE HANDLED_DEFERRED)) with true. cbn [when].
  unfold bind at 1. unfold modify at 1. destruct rn; reflexivity.
Qed.

Lemma pool_items_app c a b : pool_items c (a ++ b) = pool_items c a ++ pool_items c b.
Proof. unfold pool_items. apply map_app. Qed.
Lemma pool_items_length c a : length (pool_items c a) = length a.
Proof. unfold pool_items. apply map_length. Qed.
Lemma pool_items_older c q : 0 <= c < MW -> pool_items ((c + 1) mod MW) (older q) = pool_items c q.
Proof.
  intros Hc. unfold pool_items, older. rewrite map_map. apply map_ext. intros x.
  rewrite <- (item_older c x) by exact Hc. reflexivity.
Qed.
Lemma filter_older p q : (forall x, p (fst x, S (snd x)) = p x) -> filter p (older q) = older (filter p q).
Proof.
  intros Hp. unfold older. induction q as [|x t IH]; [reflexivity|]. cbn [map filter]. rewrite Hp.
  destruct (p x); cbn [map]; rewrite IH; reflexivity.
Qed.
Lemma nth_error_mid {A} (a:list A) x b : nth_error (a ++ x :: b) (length a) = Some x.
Proof. induction a as [|h t IH]; [reflexivity | exact IH]. Qed.
Lemma nth_error_end {A} (a:list A) : nth_error a (length a) = None.
Proof. induction a as [|h t IH]; [reflexivity | exact IH]. Qed.
Lemma upd_mid {A} (a:list A) x y b : upd (a ++ x :: b) (length a) y = a ++ y :: b.
Proof. induction a as [|h t IH]; [reflexivity | cbn; rewrite IH; reflexivity]. Qed.
Lemma remove_mid {A} (a:list A) x b : remove_at (length a) (a ++ x :: b) = a ++ b.
Proof. induction a as [|h t IH]; [reflexivity | cbn; rewrite IH; reflexivity]. Qed.

(* walking over occurrences that stay deferred *)
Lemma skip_run : forall K2 K1 rest f rn g p, conf_of rn = conf0 ->
  msgq rn = pool_items (curseq rn) K1 ++ pool_items (curseq rn) K2 ++ rest -> Forall (fun x => dfd x = true) K2 ->
  PL (length K2 + f)%nat (length K1) p 0%nat rn g = PL f (length K1 + length K2)%nat p 0%nat rn g.
Proof.
  induction K2 as [|x K2 IH]; intros K1 rest f rn g p Hcf Hq Hall.
  - cbn [length]. rewrite Nat.add_0_r. reflexivity.
  - inversion Hall as [|x' t' Hx Ht]; subst x' t'. cbn [length Nat.add].
    rewrite (step_skip (length K2 + f) (length K1) p rn g (fst x) 0%nat ((curseq rn - Z.of_nat (snd x)) mod MW) Hcf).
    + replace (S (length K1)) with (length (K1 ++ [x])) by (rewrite app_length; cbn; lia).
      rewrite (IH (K1 ++ [x]) rest f rn g p Hcf).
      * rewrite app_length. cbn [length]. f_equal. lia.
      * rewrite Hq. rewrite pool_items_app. cbn [pool_items map app]. rewrite <- app_assoc. reflexivity.
      * exact Ht.
    + rewrite Hq. rewrite <- (pool_items_length (curseq rn) K1). cbn [pool_items map app]. apply nth_error_mid.
    + exact Hx.
Qed.

Theorem mp11_pool_keeps_deferred : forall R K f rn g p, conf_of rn = conf0 ->
  0 <= curseq rn < MW -> msgq rn = pool_items (curseq rn) (K ++ R) -> Forall (fun x => dfd x = true) K ->
  ages_ok (length R) (K ++ R) -> (length R * (length K + length R + 3) + 1 <= f)%nat ->
  PL f (length K) p 0%nat rn g =
    (Some (p + length (filter ndfd R))%nat,
     set_curseq (set_msgq rn (pool_items (curseq rn) (K ++ filter dfd R)))
                ((curseq rn + Z.of_nat (length (filter ndfd R))) mod MW),
     Glob (rev (map (fun x => Res (e_pay (fst x))) (filter ndfd R)) ++ g_tr g) (g_cb g) (g_plan g) (g_val g) (g_up g) (g_bad g)).
Proof.
  intros R. remember (length R) as n eqn:En. revert R En.
  induction n as [|n IH]; intros R En K f rn g p Hcf Hc Hq HK Hages Hf; destruct R as [|x R]; try discriminate En.
  - destruct f as [|f]; [cbn in Hf; lia|].
    assert (Hn : nth_error (msgq rn) (length K) = None).
    { rewrite Hq, app_nil_r. rewrite <- (pool_items_length (curseq rn) K). apply nth_error_end. }
    cbn [pool_loop]. unfold bind at 1. unfold get at 1. rewrite Hn.
    cbn [filter length map rev app]. rewrite Nat.add_0_r, Z.add_0_r, Z.mod_small by lia.
    unfold ret. rewrite app_nil_r in *. destruct rn, g; cbn in *; subst; reflexivity.
  - cbn [length] in Hf, Hages, En. injection En as En.
    assert (Hnth : nth_error (msgq rn) (length K) = Some (item (curseq rn) x)).
    { rewrite Hq, pool_items_app. cbn [pool_items map]. rewrite <- (pool_items_length (curseq rn) K). apply nth_error_mid. }
    assert (Hx : 1 <= Z.of_nat (snd x) /\ Z.of_nat (snd x) + Z.of_nat (S (length R)) < MW).
    { unfold ages_ok in Hages. apply Forall_app in Hages. destruct Hages as (_ & HR). inversion HR; subst; assumption. }
    destruct (dfd x) eqn:Edx.
    + (* stays deferred: passed over *)
      destruct f as [|f]; [lia|].
      rewrite (step_skip f (length K) p rn g (fst x) 0%nat ((curseq rn - Z.of_nat (snd x)) mod MW) Hcf Hnth Edx).
      replace (S (length K)) with (length (K ++ [x])) by (rewrite app_length; cbn; lia).
      rewrite (IH R En (K ++ [x]) f rn g p Hcf Hc).
      * assert (F1 : filter ndfd (x :: R) = filter ndfd R) by (cbn [filter]; unfold ndfd at 1; rewrite Edx; reflexivity).
        assert (F2 : filter dfd (x :: R) = x :: filter dfd R) by (cbn [filter]; rewrite Edx; reflexivity).
        rewrite F1, F2, <- app_assoc. reflexivity.
      * rewrite <- app_assoc. exact Hq.
      * apply Forall_app. split; [exact HK | constructor; [exact Edx | constructor]].
      * rewrite <- app_assoc. unfold ages_ok in *. eapply Forall_impl; [|exact Hages]. intros y (H1 & H2). cbn beta. lia.
      * rewrite app_length. cbn [length]. nia.
    + (* dispatched *)
      assert (Eseq : Z.eqb ((curseq rn - Z.of_nat (snd x)) mod MW) (curseq rn) = false).
      { apply Z.eqb_neq. rewrite MW_val in *. apply seq_neq; lia. }
      set (f2 := (f - (length K + 2))%nat).
      replace f with (S (length K + S f2)) by (unfold f2; nia).
      rewrite (step_dispatch (length K + S f2) (length K) p rn g (fst x) 0%nat ((curseq rn - Z.of_nat (snd x)) mod MW) Hcf Hnth Eseq Edx).
      set (c1 := wrap_mp11 (curseq rn + 1)).
      assert (Ec1 : c1 = (curseq rn + 1) mod MW) by (unfold c1; apply wrap_mp11_mod).
      set (marked := QEv (fst x) 0%nat ((curseq rn - Z.of_nat (snd x)) mod MW) true).
      assert (Hm : mark_at (length K) (msgq rn) = pool_items c1 (older K) ++ marked :: pool_items c1 (older R)).
      { unfold mark_at. rewrite Hnth. unfold item. rewrite Ec1, !pool_items_older by exact Hc.
        rewrite Hq, pool_items_app. cbn [pool_items map]. rewrite <- (pool_items_length (curseq rn) K). apply upd_mid. }
      rewrite Hm.
      set (rn1 := set_curseq (set_msgq rn (pool_items c1 (older K) ++ marked :: pool_items c1 (older R))) c1).
      assert (Hc1 : curseq rn1 = c1) by (unfold rn1; destruct rn; reflexivity).
      assert (Hcf1 : conf_of rn1 = conf0) by (rewrite <- Hcf; unfold rn1; destruct rn; reflexivity).
      assert (Hq1 : msgq rn1 = pool_items (curseq rn1) [] ++ pool_items (curseq rn1) (older K) ++ marked :: pool_items c1 (older R))
        by (rewrite Hc1; unfold rn1; destruct rn; reflexivity).
      replace (length K) with (length (older K)) at 1 by (unfold older; apply map_length).
      rewrite (skip_run (older K) [] _ (S f2) rn1 _ (S p) Hcf1 Hq1).
      2:{ unfold older. rewrite Forall_map. eapply Forall_impl; [|exact HK]. intros y Hy. exact Hy. }
      cbn [length Nat.add].
      (* the marked cell is removed *)
      erewrite pool_marked; [| rewrite Hq1, Hc1; cbn [pool_items map app]; rewrite <- (pool_items_length c1 (older K)); apply nth_error_mid | reflexivity].
      set (rn2 := set_msgq rn1 (remove_at (length (older K)) (msgq rn1))).
      assert (Hq2 : msgq rn2 = pool_items (curseq rn2) (older K ++ older R)).
      { unfold rn2. replace (curseq (set_msgq rn1 _)) with c1 by (rewrite <- Hc1; destruct rn1; reflexivity).
        replace (msgq (set_msgq rn1 (remove_at (length (older K)) (msgq rn1)))) with (remove_at (length (older K)) (msgq rn1)) by (destruct rn1; reflexivity).
        rewrite Hq1, Hc1. cbn [pool_items map app]. rewrite <- (pool_items_length c1 (older K)), remove_mid. rewrite pool_items_app. reflexivity. }
      assert (Hc2 : curseq rn2 = c1) by (unfold rn2; rewrite <- Hc1; destruct rn1; reflexivity).
      assert (Hcf2 : conf_of rn2 = conf0) by (rewrite <- Hcf1; unfold rn2; destruct rn1; reflexivity).
      rewrite (IH (older R) ltac:(unfold older; rewrite map_length; exact En) (older K) f2 rn2 _ (S p)).
      * (* the results coincide *)
        assert (F1 : filter ndfd (x :: R) = x :: filter ndfd R) by (cbn [filter]; unfold ndfd at 1; rewrite Edx; reflexivity).
        assert (F2 : filter dfd (x :: R) = filter dfd R) by (cbn [filter]; rewrite Edx; reflexivity).
        rewrite F1, F2.
        assert (Fd : filter dfd (older R) = older (filter dfd R)) by (apply filter_older; intros y; reflexivity).
        assert (Fn : filter ndfd (older R) = older (filter ndfd R)) by (apply filter_older; intros y; reflexivity).
        rewrite Fd, Fn. cbn [length map rev].
        assert (Lo : forall q, length (older q) = length q) by (intros q; unfold older; apply map_length).
        assert (Mo : forall q, map (fun y => Res (e_pay (fst y))) (older q) = map (fun y => Res (e_pay (fst y))) q)
          by (intros q; unfold older; rewrite map_map; reflexivity).
        rewrite Lo, Mo. f_equal; [f_equal; [f_equal; lia|]|].
        -- rewrite Hc2. replace (older K ++ older (filter dfd R)) with (older (K ++ filter dfd R)) by (unfold older; apply map_app).
           rewrite Ec1, pool_items_older by exact Hc.
           unfold rn2, rn1. destruct rn as [ac ks hi qq dq c pr ru]. cbn [curseq set_curseq set_msgq]. f_equal.
           rewrite Zplus_mod_idemp_l. f_equal. lia.
        -- cbn [g_tr g_cb g_plan g_val g_up g_bad]. rewrite <- app_assoc. reflexivity.
      * exact Hcf2.
      * rewrite Hc2, Ec1. apply Z.mod_pos_bound. reflexivity.
      * exact Hq2.
      * unfold older. rewrite Forall_map. eapply Forall_impl; [|exact HK]. intros y Hy. exact Hy.
      * replace (older K ++ older R) with (older (K ++ R)) by (unfold older; apply map_app).
        unfold ages_ok, older. rewrite Forall_map. subst n.
        apply Forall_app in Hages. destruct Hages as (HA & HB). inversion HB as [|? ? _ HB']; subst.
        apply Forall_app. split; (eapply Forall_impl; [|eassumption]); intros y (H1 & H2); cbn [snd]; lia.
      * unfold older. rewrite !map_length. subst n. unfold f2. nia.
Qed.
End PoolDefer.

(* the boundary (finding F6): an occurrence that has stayed stored for a whole turn of the counter carries the current
   sequence value again ... *)
Lemma age_full_turn c : (c - MW) mod MW = c mod MW.
Proof. rewrite <- (Z.mul_1_l MW) at 1. rewrite <- Z.add_opp_r, <- Z.mul_opp_l. apply Z_mod_plus_full. Qed.

(* ... and is then passed over: the younger occurrence (payload 3) is dispatched before the older one (payload 1) *)
Example mp11_pool_overtakes_at_wrap :
  let mc := Machine [] [] [] [] HNone in
  let rn := RN [] [] [] [QEv (Evt 5 1) 0%nat 7 false; QEv (Evt 7 3) 0%nat 6 false] [] 7 false true in
  let '(_, _, g) := pool_loop (Cfg Mp11 false 0 false) [] false mc [] (mstubd (fun _ => [])) 10 0 0 0 rn (Glob [] 0 [] [] [] 0) in
  rev (g_tr g) = [Res 3; Res 1].
Proof. vm_compute. reflexivity. Qed.
