(* Lemmas_Forever.v - "for as long as it lives": once some region of the machine process_event is called on sits in a
   terminate state, every later process_event - any events, any guard valuations, any plans - returns at once, runs no
   behaviour and leaves the whole runtime tree untouched.  For every definition (no restriction), both engines. *)
From Msm Require Import Run Lemmas_Rtc.
From Coq Require Import Lia.

Definition is_process (o:op) : Prop := match o with OProcess _ _ _ => True | _ => False end.

Lemma run_ops_const cf root ops fuel rn (tr:op -> list titem) : forall l,
  Forall (fun o => run_op cf root ops fuel rn o = (rn, tr o)) l ->
  run_ops cf root ops fuel rn l = map (fun o => (tr o, snapshot root rn [])) l.
Proof.
  induction l as [|o t IH]; intros H; cbn [run_ops map]; [reflexivity|]. inversion H as [|? ? Ho Ht]; subst.
  rewrite Ho. rewrite IH by exact Ht. reflexivity.
Qed.

Section Back.
Variable cf : cfg.
Hypothesis Hbe : c_be cf <> Mp11.
Variable parents : list (option nat).
Variable root : machine.

Lemma build_back_root : build cf parents false root =
  back_ops cf parents false root (map (fun st => match s_sub st with Some c => Some (build cf parents true c) | None => None end) (m_states root)).
Proof. destruct root. unfold build; fold build. destruct (c_be cf); try reflexivity. contradiction. Qed.

Lemma direct_code_back : direct_code cf = SRC_DIRECT.
Proof. unfold direct_code. destruct (c_be cf); try reflexivity. contradiction. Qed.

Theorem back_terminated_forever : forall fuel rn l s,
  has_blocking root = true -> In s (act rn) -> is_term_state (get_state root s) = true -> Forall is_process l ->
  run_ops cf root (build cf parents false root) (S fuel) rn l = map (fun _ => ([Res HANDLED_TRUE], snapshot root rn [])) l.
Proof.
  intros fuel rn l s Hb Hin Hterm Hall.
  rewrite (run_ops_const cf root _ (S fuel) rn (fun _ => [Res HANDLED_TRUE])); [reflexivity|].
  eapply Forall_impl; [|exact Hall]. intros o Ho. destruct o; try contradiction. cbn [run_op].
  rewrite build_back_root. cbn [back_ops co_pei]. rewrite direct_code_back.
  unfold run_m, bind. rewrite (back_pei_blocked cf parents false root _ fuel e SRC_DIRECT rn).
  - reflexivity.
  - eapply back_blocked_by_terminate; eauto.
Qed.
End Back.

Section Mp11.
Variable cf : cfg.
Hypothesis Hbe : c_be cf = Mp11.
Variable parents : list (option nat).
Variable root : machine.

Lemma build_mp11_root : build cf parents false root =
  mp11_ops cf parents false root (map (fun st => match s_sub st with Some c => Some (build cf parents true c) | None => None end) (m_states root)).
Proof. destruct root. unfold build; fold build. rewrite Hbe. reflexivity. Qed.

Theorem mp11_terminated_forever : forall fuel rn l,
  has_blocking root = true ->
  term_active root (map (fun st => match s_sub st with Some c => Some (build cf parents true c) | None => None end) (m_states root)) rn = true ->
  Forall is_process l ->
  run_ops cf root (build cf parents false root) (S fuel) rn l = map (fun _ => ([Res HANDLED_TRUE], snapshot root rn [])) l.
Proof.
  intros fuel rn l Hb Hterm Hall.
  rewrite (run_ops_const cf root _ (S fuel) rn (fun _ => [Res HANDLED_TRUE])); [reflexivity|].
  eapply Forall_impl; [|exact Hall]. intros o Ho. destruct o; try contradiction. cbn [run_op].
  rewrite build_mp11_root. cbn [mp11_ops co_pei]. unfold direct_code. rewrite Hbe.
  unfold run_m, bind. rewrite (mp11_pei_blocked cf parents false root _ fuel e INFO_DIRECT rn).
  - reflexivity.
  - apply mp11_blocked_by_terminate; assumption.
Qed.
End Mp11.

(* while interrupted: every event that is not an end-interrupt event of an active interrupt state *)
Definition process_not_ending (p:nat -> bool) (o:op) : Prop :=
  match o with OProcess e _ _ => p (e_ty e) = false | _ => False end.

Section BackIntr.
Variable cf : cfg.
Hypothesis Hbe : c_be cf <> Mp11.
Variable parents : list (option nat).
Variable root : machine.

Theorem back_interrupted_silent : forall fuel rn l,
  has_blocking root = true -> flag_or root rn is_intr_state = true ->
  Forall (process_not_ending (fun ety => flag_or root rn (fun st => ends_intr st ety))) l ->
  run_ops cf root (build cf parents false root) (S fuel) rn l = map (fun _ => ([Res HANDLED_TRUE], snapshot root rn [])) l.
Proof.
  intros fuel rn l Hb Hi Hall.
  rewrite (run_ops_const cf root _ (S fuel) rn (fun _ => [Res HANDLED_TRUE])); [reflexivity|].
  eapply Forall_impl; [|exact Hall]. intros o Ho. destruct o; try contradiction. cbn in Ho. cbn [run_op].
  rewrite (build_back_root cf Hbe). cbn [back_ops co_pei]. rewrite (direct_code_back cf Hbe).
  unfold run_m, bind. rewrite (back_pei_blocked cf parents false root _ fuel e SRC_DIRECT rn).
  - reflexivity.
  - unfold blocked. rewrite Hb, Hi, Ho. cbn. apply orb_true_r.
Qed.
End BackIntr.
