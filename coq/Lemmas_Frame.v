(* Lemmas_Frame.v - running anything inside the submachine stored under state s changes nothing of the enclosing
   level except that child node: the active ids, history, queues of the enclosing machine and every other
   submachine's runtime node are untouched; the child's trace items are the only ones added. *)
From Msm Require Import Run.

Lemma lift_child_frame {A} (s:nat) (d:A) (m:M A) rn g r rn' g' :
  lift_child s d m rn g = (r, rn', g') ->
  act rn' = act rn /\ hist rn' = hist rn /\ msgq rn' = msgq rn /\ defq rn' = defq rn /\
  curseq rn' = curseq rn /\ processing rn' = processing rn /\ running rn' = running rn /\
  (forall j, j <> s -> nth j (kids rn') None = nth j (kids rn) None) /\
  exists added, g_tr g' = added ++ g_tr g.
Proof.
  unfold lift_child. destruct rn as [a k h q dq c p ru]. cbn.
  destruct (nth s k None) as [kn|] eqn:E.
  - destruct (m kn _) as [[r0 kn'] g1] eqn:Em. intros H. inversion H; subst. cbn.
    repeat split; auto.
    + intros j Hj. apply nth_upd_neq. auto.
    + eexists. reflexivity.
  - intros H. inversion H; subst. cbn. repeat split; auto. exists [Bad 3]. reflexivity.
Qed.

(* the child's own items all carry the state id as first path component: they are attributed to that submachine *)
Lemma push_path_head s it : match push_path s it with Cb _ p _ _ _ _ => hd_error p = Some s | _ => True end
                            \/ (forall k p i e w o, it <> Cb k p i e w o).
Proof. destruct it; cbn; auto; right; intros; discriminate. Qed.
