(* Lemmas_Frontends.v - proofs about Frontends.v *)
From Msm Require Import Frontends.

Inductive sublist {A} : list A -> list A -> Prop :=
| sub_nil : forall l, sublist [] l
| sub_keep : forall x a b, sublist a b -> sublist (x :: a) (x :: b)
| sub_skip : forall x a b, sublist a b -> sublist a (x :: b).

Lemma sublist_refl {A} (l:list A) : sublist l l.
Proof. induction l; constructor; auto. Qed.
Lemma sublist_app {A} (a b c d:list A) : sublist a b -> sublist c d -> sublist (a ++ c) (b ++ d).
Proof.
  intros H. revert c d. induction H as [l|x a b H IH|x a b H IH]; intros c d Hc; cbn.
  - induction l as [|y l IHl]; cbn; [exact Hc | apply sub_skip; exact IHl].
  - apply sub_keep. apply IH. exact Hc.
  - apply sub_skip. apply IH. exact Hc.
Qed.
Lemma sublist_app_l {A} (a b c:list A) : sublist a b -> sublist a (b ++ c).
Proof. intros H. rewrite <- (app_nil_r a). apply sublist_app; [exact H | constructor]. Qed.

(* the value the combinators compute is the C++ value of the expression *)
Theorem gx_run_value v g : fst (gx_run v g) = gx_val v g.
Proof.
  induction g as [n|a IH|a IHa b IHb|a IHa b IHb]; cbn.
  - reflexivity.
  - destruct (gx_run v a) as [x l]. cbn in *. rewrite IH. reflexivity.
  - destruct (gx_run v a) as [x l]. cbn in IHa. rewrite <- IHa. destruct x; cbn.
    + destruct (gx_run v b) as [y l2]. cbn in *. exact IHb.
    + reflexivity.
  - destruct (gx_run v a) as [x l]. cbn in IHa. rewrite <- IHa. destruct x; cbn.
    + reflexivity.
    + destruct (gx_run v b) as [y l2]. cbn in *. exact IHb.
Qed.

(* evaluation goes from left to right through the written expression and touches every atom occurrence at most once *)
Theorem gx_run_order v g : sublist (snd (gx_run v g)) (gx_atoms g).
Proof.
  induction g as [n|a IH|a IHa b IHb|a IHa b IHb]; cbn.
  - apply sublist_refl.
  - destruct (gx_run v a) as [x l]. exact IH.
  - destruct (gx_run v a) as [x l]. cbn in IHa. destruct x; cbn.
    + destruct (gx_run v b) as [y l2]. cbn in *. apply sublist_app; assumption.
    + apply sublist_app_l. exact IHa.
  - destruct (gx_run v a) as [x l]. cbn in IHa. destruct x; cbn.
    + apply sublist_app_l. exact IHa.
    + destruct (gx_run v b) as [y l2]. cbn in *. apply sublist_app; assumption.
Qed.

(* short circuit: the right operand of && is evaluated exactly when the left one holds, of || when it does not *)
Theorem gx_and_short v a b :
  snd (gx_run v (GxAnd a b)) = snd (gx_run v a) ++ (if gx_val v a then snd (gx_run v b) else []).
Proof.
  cbn. rewrite <- (gx_run_value v a). destruct (gx_run v a) as [x l]. cbn. destruct x; cbn.
  - destruct (gx_run v b); reflexivity.
  - rewrite app_nil_r. reflexivity.
Qed.
Theorem gx_or_short v a b :
  snd (gx_run v (GxOr a b)) = snd (gx_run v a) ++ (if gx_val v a then [] else snd (gx_run v b)).
Proof.
  cbn. rewrite <- (gx_run_value v a). destruct (gx_run v a) as [x l]. cbn. destruct x; cbn.
  - rewrite app_nil_r. reflexivity.
  - destruct (gx_run v b); reflexivity.
Qed.
Theorem gx_not_same_atoms v a : snd (gx_run v (GxNot a)) = snd (gx_run v a).
Proof. cbn. destruct (gx_run v a); reflexivity. Qed.

(* every way of writing a row with the same content gives the same functor row, and each template declares the tag
   that the content determines *)
Theorem basic_tag_is_content_tag r : basic_tag r = frow_tag (elab_basic r).
Proof. destruct r; reflexivity. Qed.

Definition content_row (s:nat) (e:nat) (t:option nat) (a g:option nat) : frow :=
  FRow s (Some e) t (match a with Some x => [x] | None => [] end) (option_map GxAtom g).

Theorem basic_rows_same_content s e t a g wa wg :
  elab_basic (B_row s e t a g) = content_row s e (Some t) (Some a) (Some g) /\
  elab_basic (B_a_row s e t a) = content_row s e (Some t) (Some a) None /\
  elab_basic (B_g_row s e t g) = content_row s e (Some t) None (Some g) /\
  elab_basic (B__row s e t) = content_row s e (Some t) None None /\
  elab_basic (B_irow s e a g) = content_row s e None (Some a) (Some g) /\
  elab_basic (B_a_irow s e a) = content_row s e None (Some a) None /\
  elab_basic (B_g_irow s e g) = content_row s e None None (Some g) /\
  elab_basic (B__irow s e) = content_row s e None None None /\
  elab_basic (B_row2 s e t wa a wg g) = content_row s e (Some t) (Some a) (Some g) /\
  elab_basic (B_a_row2 s e t wa a) = content_row s e (Some t) (Some a) None /\
  elab_basic (B_g_row2 s e t wg g) = content_row s e (Some t) None (Some g) /\
  elab_basic (B__row2 s e t) = content_row s e (Some t) None None /\
  elab_basic (B_irow2 s e wa a wg g) = content_row s e None (Some a) (Some g) /\
  elab_basic (B_a_irow2 s e wa a) = content_row s e None (Some a) None /\
  elab_basic (B_g_irow2 s e wg g) = content_row s e None None (Some g).
Proof. repeat split. Qed.

Theorem functor_row_same_content s e t a g :
  elab_functor (FunRow s (Some e) t (match a with Some x => FOne x | None => FNone end) (option_map GxAtom g))
  = content_row s e t a g.
Proof. destruct a; reflexivity. Qed.

(* eUML: both ways of writing an external row and the internal form keep source, event, target, guard tree and the
   action list in written order *)
Theorem euml_rows_same_content s e t g acts :
  elab_euml (ETgtFirst t s e g acts) = FRow s e (Some t) acts g /\
  elab_euml (ETgtLast s e g acts t) = FRow s e (Some t) acts g /\
  elab_euml (EInternal s e g acts) = FRow s e None acts g /\
  elab_functor (FunRow s e (Some t) (FSeq acts) g) = FRow s e (Some t) acts g.
Proof. repeat split. Qed.

Theorem action_sequence_in_written_order r : frow_action r = f_acts r.
Proof. reflexivity. Qed.

(* the row the engine model receives depends on the functor row only: equal content, equal core row *)
Theorem same_frow_same_core id r1 r2 : r1 = r2 -> to_core id r1 = to_core id r2.
Proof. intros ->. reflexivity. Qed.

Theorem core_kind_from_tag id r :
  r_guard (to_core id r) = (match frow_tag r with TagRow | TagGRow | TagIRow | TagGIRow => true | _ => false end) /\
  (r_act (to_core id r) = ActCall <-> match frow_tag r with TagRow | TagARow | TagIRow | TagAIRow => True | _ => False end) /\
  (r_tgt (to_core id r) = TgNone <-> match frow_tag r with TagIRow | TagAIRow | TagGIRow | Tag_IRow => True | _ => False end).
Proof.
  destruct r as [s e t acts g]. unfold frow_tag, to_core. cbn.
  destruct t, acts, g; cbn; repeat split; intros; try discriminate; try tauto; try reflexivity.
Qed.
