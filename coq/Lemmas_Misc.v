(* Lemmas_Misc.v - flags (C17), event matching and payload (C18), pseudo states (C09). *)
From Msm Require Import Run Lemmas_Rows Lemmas_Rtc.

(* ---------------- C17: flags ---------------- *)
Section Flags.
Variable cf : cfg.
Variable mc : machine.
Variable children : list (option child_ops).

(* OR: true iff some active state carries the flag or an active submachine reports it *)
Lemma back_flag_or_iff rn f :
  back_flag_or mc children rn f = true <->
  exists s, In s (act rn) /\
            (has_flag (get_state mc s) f = true \/
             exists co kn, child children s = Some co /\ nth s (kids rn) None = Some kn /\ co_flag_or co kn f = true).
Proof.
  unfold back_flag_or. rewrite existsb_exists. split.
  - intros (s & Hin & H). exists s. split; auto. unfold flag_entry in H. apply orb_true_iff in H as [H|H]; auto.
    right. destruct (child children s) as [co|]; [|discriminate]. destruct (nth s (kids rn) None) as [kn|]; [|discriminate].
    exists co, kn. auto.
  - intros (s & Hin & [H | (co & kn & H1 & H2 & H3)]); exists s; split; auto; unfold flag_entry.
    + rewrite H. reflexivity.
    + rewrite H1, H2, H3. apply orb_true_r.
Qed.

(* AND: true iff the active state of every region carries the flag (or, for a submachine state, forwards true) *)
Lemma back_flag_and_iff rn f :
  back_flag_and mc children rn f = true <-> forall s, In s (act rn) -> flag_entry mc children rn f s = true.
Proof. unfold back_flag_and. apply forallb_forall. Qed.

(* on a level whose active states are all simple: AND iff every region's active state carries F *)
Lemma back_flag_and_simple rn f :
  (forall s, In s (act rn) -> child children s = None) ->
  back_flag_and mc children rn f = forallb (fun s => has_flag (get_state mc s) f) (act rn).
Proof.
  intros H. unfold back_flag_and. induction (act rn) as [|s l IH]; cbn; [reflexivity|].
  unfold flag_entry at 1. rewrite (H s) by (left; auto). rewrite orb_false_r.
  rewrite IH; auto. intros s0 Hs0. apply H. right; auto.
Qed.

(* the answer depends only on the active ids and the submachine nodes - not on history, queues, counters, flags of
   processing: two runtime states with the same active configuration give the same answer *)
Lemma back_flag_pure rn rn' f :
  act rn = act rn' -> kids rn = kids rn' ->
  back_flag_or mc children rn f = back_flag_or mc children rn' f /\
  back_flag_and mc children rn f = back_flag_and mc children rn' f.
Proof.
  intros Ha Hk. unfold back_flag_or, back_flag_and, flag_entry. rewrite Ha, Hk. auto.
Qed.

Lemma mp11_flag_pure rn rn' f :
  act rn = act rn' -> kids rn = kids rn' -> running rn = running rn' ->
  mflag_or mc children rn f = mflag_or mc children rn' f /\
  mflag_and mc children rn f = mflag_and mc children rn' f.
Proof.
  intros Ha Hk Hr. unfold mflag_or, mflag_and, active_any. rewrite Ha, Hk, Hr. auto.
Qed.

Lemma mp11_flag_or_iff rn f :
  mflag_or mc children rn f = true <->
  running rn = true /\
  exists s, In s (act rn) /\
            (memb f (s_flags (get_state mc s)) = true \/
             exists co kn, mchild children s = Some co /\ nth s (kids rn) None = Some kn /\ co_flag_or co kn f = true).
Proof.
  unfold mflag_or, active_any. rewrite andb_true_iff, existsb_exists. split.
  - intros [Hr (s & Hin & H)]. split; auto. exists s. split; auto. apply orb_true_iff in H as [H|H]; auto.
    right. destruct (mchild children s) as [co|]; [|discriminate]. destruct (nth s (kids rn) None) as [kn|]; [|discriminate].
    exists co, kn. auto.
  - intros [Hr (s & Hin & [H | (co & kn & H1 & H2 & H3)])]; split; auto; exists s; split; auto.
    + rewrite H. reflexivity.
    + rewrite H1, H2, H3. apply orb_true_r.
Qed.
End Flags.

(* ---------------- C18: event matching ---------------- *)
Lemma is_base_of_fuel_refl fuel parents t : is_base_of_fuel fuel parents t t = true.
Proof. destruct fuel; cbn; rewrite Nat.eqb_refl; reflexivity. Qed.

Lemma is_base_of_refl parents t : is_base_of parents t t = true.
Proof. apply is_base_of_fuel_refl. Qed.

Lemma is_base_of_fuel_step fuel parents t e p :
  nth e parents None = Some p -> is_base_of_fuel fuel parents t p = true -> is_base_of_fuel (S fuel) parents t e = true.
Proof. intros Hp H. cbn. rewrite Hp, H. apply orb_true_r. Qed.

(* an exact trigger with no declared base class matches exactly its own type *)
Lemma is_base_of_fuel_root fuel parents t e :
  nth e parents None = None -> is_base_of_fuel fuel parents t e = Nat.eqb t e.
Proof. intros H. destruct fuel; cbn; [rewrite orb_false_r; reflexivity|]. rewrite H. rewrite orb_false_r. reflexivity. Qed.

(* Kleene triggers match every ordinary event where the configuration honours them, and never the completion event *)
Lemma kleene_matches parents ety : trig_matches parents true TrAny ety = negb (Nat.eqb ety EV_NONE).
Proof. reflexivity. Qed.
Lemma kleene_ignored parents ety : trig_matches parents false TrAny ety = false.
Proof. reflexivity. Qed.
Lemma exact_matches parents t ety :
  trig_matches parents true (TrEv t) ety = negb (Nat.eqb ety EV_NONE) && is_base_of parents t ety.
Proof. reflexivity. Qed.

(* favor_compile_time of backmp11 matches by exact type only *)
Lemma mp11_fct_exact cf parents ety x :
  c_fct cf = true ->
  mrow_matches cf parents ety x = match r_trig x with
                                  | TrEv e => Nat.eqb e ety && negb (Nat.eqb ety EV_NONE)
                                  | TrNone => Nat.eqb ety EV_NONE
                                  | TrAny => false end.
Proof. intros H. unfold mrow_matches. rewrite H. reflexivity. Qed.

(* payload integrity through deferral (back): the stored occurrence is re-offered with exactly the stored event *)
Lemma back_deferred_loop_step pei_rec fuel e src z m rest rn g :
  defq rn = QEv e src z m :: rest -> curseq rn = z ->
  deferred_loop pei_rec (S fuel) rn g =
    bind (pei_rec e src) (fun res => if tab1 back_deferred_stops res then ret true else deferred_loop pei_rec fuel)
         (set_defq rn rest) g.
Proof.
  intros H Hz. cbn. unfold bind at 1, get. rewrite H. rewrite Hz. rewrite Z.eqb_refl. cbn. reflexivity.
Qed.

(* a callback logs the event it was given, unchanged *)
Lemma callback_logs_event submit enqueue path k id ev w rn g :
  g_plan g = [] ->
  callback_at submit enqueue path k id ev w rn g = (Some tt, rn, bump g [Cb k path id ev w (act rn)]).
Proof.
  intros H. destruct g as [tr cbn0 plan val up bad]. cbn in H. subst.
  unfold callback_at, bind, get, getg, putg, ret. cbn. reflexivity.
Qed.

(* ---------------- C09: pseudo states ---------------- *)
Section Pseudo.
Variable cf : cfg.
Variable contained : bool.
Variable mc : machine.
Variable children : list (option child_ops).

(* a row leaving an exit point does nothing at all - no guard, no behaviour, code 0 - unless that exit point is an
   active state of the submachine: back / back11 and (after the fix) backmp11 *)
Lemma back_exitpt_inactive fuel r x ev rn g nxt p :
  tgt_state (r_tgt x) = Some nxt -> r_exitpt x = Some p -> exit_pt_active rn (r_src x) p = false ->
  exec_row cf contained mc children fuel r x ev rn g = (Some HANDLED_FALSE, rn, g).
Proof.
  intros Ht Hp Ha. unfold exec_row. rewrite Ht, Hp. unfold bind, get. rewrite Ha. reflexivity.
Qed.
Lemma mp11_exitpt_inactive fuel r x ev rn g nxt p :
  tgt_state (r_tgt x) = Some nxt -> r_exitpt x = Some p -> exit_pt_active rn (r_src x) p = false ->
  mexec_row cf contained mc children fuel r x ev rn g = (Some HANDLED_FALSE, rn, g).
Proof.
  intros Ht Hp Ha. unfold mexec_row. rewrite Ht, Hp. unfold bind, get. rewrite Ha. reflexivity.
Qed.

(* the exit point is active exactly when it is the active id of one of the submachine's regions *)
Lemma exit_pt_active_iff rn s p :
  exit_pt_active rn s p = true <-> exists kn, nth s (kids rn) None = Some kn /\ In p (act kn).
Proof.
  unfold exit_pt_active. destruct (nth s (kids rn) None) as [kn|].
  - rewrite memb_In. split; [intros H; eauto | intros (k & E & H); inversion E; subst; auto].
  - split; [discriminate | intros (k & E & _); discriminate].
Qed.

(* entering an exit pseudo state: its entry behaviour runs, then the converted event (the exit point's event type,
   the original payload) is handed to the enclosing machine *)
Lemma back_enter_exit_point fuel s ev ety rn g :
  child children s = None -> s_kind (get_state mc s) = KExitPt ety -> g_plan g = [] -> e_ty ev <> EV_NONE ->
  exec_entry cf contained mc children fuel s ev EkPlain rn g =
    (Some tt, rn, Glob (Cb KEntry [] s ev false (act rn) :: g_tr g) (S (g_cb g)) [] (g_val g)
                       (g_up g ++ [Evt ety (e_pay ev)]) (g_bad g)).
Proof.
  intros Hc Hk Hp Hu. unfold exec_entry, exec_entry_gen. rewrite Hc, Hk. apply Nat.eqb_neq in Hu. rewrite Hu. cbn [negb].
  destruct g as [tr cbn0 plan val up bad]. cbn in Hp. subst.
  unfold cb, callback, callback_at, bind, get, getg, putg, ret, push_up. cbn. reflexivity.
Qed.

(* explicit entry / fork: the named substates become the active ids of their declared regions; all other regions keep
   what the history policy gave them *)
Lemma set_named_regions (zone:nat -> nat) subs : forall rn g,
  exists rn', iterM (fun s => set_act_at (zone s) s) subs rn g = (Some tt, rn', g) /\
              act rn' = fold_left (fun a s => upd a (zone s) s) subs (act rn) /\ kids rn' = kids rn /\ hist rn' = hist rn.
Proof.
  induction subs as [|s l IH]; intros rn g; cbn.
  - exists rn. auto.
  - destruct (IH (set_act rn (upd (act rn) (zone s) s)) g) as (rn' & E & Ha & Hk & Hh).
    exists rn'. unfold bind. unfold set_act_at at 1. unfold modify. cbn beta iota.
    split; [exact E|]. destruct rn; cbn in *. auto.
Qed.
End Pseudo.
