(* Lemmas_NoThrow.v - exceptions thrown by behaviours never leave process_event (process_event_internal) of any
   engine: for every machine, configuration, plan (which behaviour invocations throw / submit), fuel and state,
   the interpreter's pei / mpei returns normally.  The proof is syntax-directed over the monadic code. *)
From Msm Require Import Run.

Definition nothrow {A} (m:M A) : Prop := forall rn g, exists a rn' g', m rn g = (Some a, rn', g').

Lemma nt_ret {A} (a:A) : nothrow (ret a).
Proof. intros rn g. unfold ret. eauto. Qed.
Lemma nt_bind {A B} (m:M A) (k:A -> M B) : nothrow m -> (forall a, nothrow (k a)) -> nothrow (bind m k).
Proof.
  intros Hm Hk rn g. destruct (Hm rn g) as (a & rn1 & g1 & E). unfold bind. rewrite E. apply Hk.
Qed.
Lemma nt_catch {A} (m h:M A) : nothrow h -> nothrow (catch m h).
Proof.
  intros Hh rn g. unfold catch. destruct (m rn g) as [[[a|] rn1] g1]; eauto.
Qed.
Lemma nt_get : nothrow get. Proof. intros rn g. unfold get. eauto. Qed.
Lemma nt_getg : nothrow getg. Proof. intros rn g. unfold getg. eauto. Qed.
Lemma nt_put rn0 : nothrow (put rn0). Proof. intros rn g. unfold put. eauto. Qed.
Lemma nt_putg g0 : nothrow (putg g0). Proof. intros rn g. unfold putg. eauto. Qed.
Lemma nt_modify f : nothrow (modify f). Proof. intros rn g. unfold modify. eauto. Qed.
Lemma nt_set_bad w : nothrow (set_bad w). Proof. intros rn g. unfold set_bad. eauto. Qed.
Lemma nt_emit it : nothrow (emit it). Proof. intros rn g. unfold emit. eauto. Qed.
Lemma nt_push_up e : nothrow (push_up e). Proof. intros rn g. unfold push_up. eauto. Qed.
Lemma nt_take_up : nothrow take_up. Proof. intros rn g. unfold take_up. eauto. Qed.
Lemma nt_push_msg q : nothrow (push_msg q). Proof. apply nt_modify. Qed.
Lemma nt_push_msg_front q : nothrow (push_msg_front q). Proof. apply nt_modify. Qed.
Lemma nt_push_def q : nothrow (push_def q). Proof. apply nt_modify. Qed.
Lemma nt_set_act_at r s : nothrow (set_act_at r s). Proof. apply nt_modify. Qed.
Lemma nt_iterM {A} (f:A -> M unit) l : (forall x, nothrow (f x)) -> nothrow (iterM f l).
Proof. intros H. induction l as [|x l IH]; cbn; [apply nt_ret|]. apply nt_bind; auto. Qed.
Lemma nt_when b m : nothrow m -> nothrow (when b m).
Proof. intros H. destruct b; cbn; auto. apply nt_ret. Qed.

Ltac nt_step :=
  first
    [ apply nt_ret | apply nt_get | apply nt_getg | apply nt_put | apply nt_putg | apply nt_modify
    | apply nt_set_bad | apply nt_emit | apply nt_push_up | apply nt_take_up | apply nt_push_msg
    | apply nt_push_msg_front | apply nt_push_def | apply nt_set_act_at
    | apply nt_when
    | apply nt_bind; [|intros ?]
    | match goal with
      | |- nothrow (if ?b then _ else _) => destruct b
      | |- nothrow (match ?x with _ => _ end) => destruct x
      end ].
Ltac nt := repeat nt_step.

(* an exception_caught / no_transition behaviour cannot throw; anything else may *)
Lemma nt_callback_nothrowable submit enqueue path k id ev w :
  throwable k = false -> (forall e, nothrow (submit e)) -> (forall e, nothrow (enqueue e)) ->
  nothrow (callback_at submit enqueue path k id ev w).
Proof.
  intros Hk Hs He. unfold callback_at. destruct k; try discriminate; cbn [throwable]; nt; auto.
Qed.

Definition nothrow2 (f:evt -> nat -> M nat) : Prop := forall e s, nothrow (f e s).

Section Back.
Variable cf : cfg.
Variable parents : list (option nat).
Variable contained : bool.
Variable mc : machine.
Variable children : list (option child_ops).

Lemma nt_cb_submit e : nothrow (cb_submit mc e).
Proof. unfold cb_submit. nt. Qed.
Lemma nt_cb_enqueue e : nothrow (cb_enqueue e).
Proof. unfold cb_enqueue. nt. Qed.
Lemma nt_cb_exc id ev w : nothrow (cb mc KExc id ev w).
Proof. apply nt_callback_nothrowable; auto using nt_cb_submit, nt_cb_enqueue. Qed.

Section WithRec.
Variable pei_rec : evt -> nat -> M nat.
Hypothesis Hrec : nothrow2 pei_rec.

Lemma nt_drain fuel : nothrow (drain_msgq pei_rec fuel).
Proof.
  induction fuel as [|f IH]; cbn.
  - nt; try (unfold oof; nt).
  - nt; auto; try apply Hrec.
Qed.

Lemma nt_deferred_loop fuel : nothrow (deferred_loop pei_rec fuel).
Proof.
  induction fuel as [|f IH]; cbn.
  - try (unfold oof); nt.
  - nt; auto; try apply Hrec.
Qed.

Lemma nt_handle_deferred fuel : forall b, nothrow (handle_deferred mc pei_rec fuel b).
Proof.
  induction fuel as [|f IH]; intros b; cbn.
  - try (unfold oof); nt.
  - nt; auto; try apply nt_deferred_loop.
Qed.

Lemma nt_pei_body fuel ev src : nothrow (pei_body cf parents contained mc children pei_rec fuel ev src).
Proof.
  unfold pei_body. nt; auto using nt_drain, nt_handle_deferred; try apply Hrec.
  all: try (apply nt_catch; nt; apply nt_cb_exc).
Qed.
End WithRec.

Theorem back_pei_nothrow fuel : forall ev src, nothrow (pei cf parents contained mc children fuel ev src).
Proof.
  induction fuel as [|f IH]; intros ev src; cbn.
  - try (unfold oof); nt.
  - apply nt_pei_body. intros e s. apply IH.
Qed.
End Back.

Section Mp11.
Variable cf : cfg.
Variable parents : list (option nat).
Variable contained : bool.
Variable mc : machine.
Variable children : list (option child_ops).

Lemma nt_push_deferred e b : nothrow (push_deferred e b).
Proof. unfold push_deferred. nt. Qed.
Lemma nt_mcb_submit e : nothrow (mcb_submit cf mc children e).
Proof. unfold mcb_submit. nt; try apply nt_push_deferred. Qed.
Lemma nt_mcb_enqueue e : nothrow (mcb_enqueue e).
Proof. unfold mcb_enqueue. apply nt_push_deferred. Qed.
Lemma nt_mcb_exc id ev w : nothrow (mcb cf mc children KExc id ev w).
Proof. apply nt_callback_nothrowable; auto using nt_mcb_submit, nt_mcb_enqueue. Qed.

Lemma nt_process_completion fuel s r : nothrow (process_completion cf parents contained mc children fuel s r).
Proof.
  unfold process_completion. nt. all: try (apply nt_catch; nt; apply nt_mcb_exc).
Qed.

Section WithRec.
Variable pei_rec : evt -> nat -> M nat.
Hypothesis Hrec : nothrow2 pei_rec.

Lemma nt_pool_loop fuel : forall idx processed maxev, nothrow (pool_loop cf parents contained mc children pei_rec fuel idx processed maxev).
Proof.
  induction fuel as [|f IH]; intros idx processed maxev; cbn.
  - try (unfold moof); nt.
  - nt; auto using nt_process_completion; try apply Hrec.
    all: try (apply nt_catch; nt; apply nt_mcb_exc).
Qed.

Lemma nt_process_event_pool fuel maxev : nothrow (process_event_pool cf parents contained mc children pei_rec fuel maxev).
Proof. unfold process_event_pool. nt; try apply nt_pool_loop. Qed.

Lemma nt_mpei_body fuel ev info : nothrow (mpei_body cf parents contained mc children pei_rec fuel ev info).
Proof.
  unfold mpei_body. nt; auto using nt_push_deferred, nt_process_event_pool, nt_pool_loop.
  all: try (apply nt_catch; nt; apply nt_mcb_exc).
Qed.
End WithRec.

Theorem mp11_pei_nothrow fuel : forall ev info, nothrow (mpei cf parents contained mc children fuel ev info).
Proof.
  induction fuel as [|f IH]; intros ev info; cbn.
  - try (unfold moof); nt.
  - apply nt_mpei_body. intros e s. apply IH.
Qed.
End Mp11.

(* ---- a throwing entry cascade of a submachine does not leave its processing marker set ---- *)
Lemma nth_upd_same {A} (l:list A) i x d : i < length l -> nth i (upd l i x) d = x.
Proof.
  revert i. induction l as [|a l IH]; intros i Hi; cbn in *; [lia|].
  destruct i as [|i]; cbn; [reflexivity|]. apply IH. lia.
Qed.

Lemma nth_some_lt {A} (l:list (option A)) i x : nth i l None = Some x -> i < length l.
Proof.
  revert i. induction l as [|a l IH]; intros i H; destruct i; cbn in *; try discriminate; try lia.
  apply IH in H. lia.
Qed.

Lemma lift_child_clear_marker s rn g u rn' g' :
  lift_child s tt (modify (fun kn => set_processing kn false)) rn g = (u, rn', g') ->
  forall kn, nth s (kids rn') None = Some kn -> processing kn = false.
Proof.
  unfold lift_child. destruct (nth s (kids rn) None) as [kn0|] eqn:E.
  - unfold modify. intros H kn Hk. inversion H; subst. clear H.
    destruct rn; cbn in *. rewrite nth_upd_same in Hk by (eapply nth_some_lt; eauto).
    inversion Hk; subst. destruct kn0; reflexivity.
  - intros H kn Hk. inversion H; subst. rewrite E in Hk. discriminate.
Qed.

Lemma on_throw_cleanup {A} (m:M A) c rn g rn' g' :
  on_throw m c rn g = (None, rn', g') ->
  exists rn1 g1 u, m rn g = (None, rn1, g1) /\ c rn1 g1 = (u, rn', g').
Proof.
  unfold on_throw. destruct (m rn g) as [[[a|] rn1] g1]; [discriminate|].
  destruct (c rn1 g1) as [[u rn2] g2] eqn:E. intros H. inversion H; subst. eauto.
Qed.

Section EntryThrow.
Variable cf : cfg.
Variable contained : bool.
Variable mc : machine.
Variable children : list (option child_ops).

Theorem back_entry_throw_clears_marker fuel s ev k co rn g rn' g' :
  entry_throw_resets cf = true -> child children s = Some co ->
  exec_entry cf contained mc children fuel s ev k rn g = (None, rn', g') ->
  forall kn, nth s (kids rn') None = Some kn -> processing kn = false.
Proof.
  intros Hr Hc H. unfold exec_entry, exec_entry_gen in H. rewrite Hc, Hr in H.
  apply on_throw_cleanup in H. destruct H as (rn1 & g1 & u & _ & Hcl).
  eapply lift_child_clear_marker; eauto.
Qed.

Theorem mp11_entry_throw_clears_marker fwd fuel s ev k co rn g rn' g' :
  mp11_entry_throw_resets = true -> mchild children s = Some co ->
  mexec_entry_gen cf contained mc children fwd fuel s ev k rn g = (None, rn', g') ->
  forall kn, nth s (kids rn') None = Some kn -> processing kn = false.
Proof.
  intros Hr Hc H. unfold mexec_entry_gen in H. rewrite Hc, Hr in H.
  apply on_throw_cleanup in H. destruct H as (rn1 & g1 & u & _ & Hcl).
  eapply lift_child_clear_marker; eauto.
Qed.
End EntryThrow.
