(* Lemmas_Puml.v - theorems about the PlantUML tokenizer transcription (Puml.v): token trimming is exact for
   arbitrary padding and arbitrary token length; action counting / splitting. *)
From Msm Require Import Base Puml.
From Coq Require Import NArith Lia ZifyBool ZifyN.
Ltac Zify.zify_post_hook ::= Z.div_mod_to_equations.
Local Open Scope N_scope.

Definition all_pad (s:str) : Prop := Forall (fun c => memb c pad_chars = true) s.
Definition not_pad (c:nat) : Prop := memb c pad_chars = false.

Lemma ffno_at_skip set p c t i :
  Forall (fun x => memb x set = true) p -> memb c set = false ->
  ffno_at set (p ++ c :: t) i = i + N.of_nat (length p).
Proof.
  revert i. induction p as [|x p IH]; intros i Hp Hc; cbn.
  - rewrite Hc. lia.
  - inversion Hp as [|? ? Hx Hp']; subst. rewrite Hx. rewrite IH by auto. lia.
Qed.

Lemma ffno_at_all set p i : Forall (fun x => memb x set = true) p -> ffno_at set p i = npos.
Proof.
  revert i. induction p as [|x p IH]; intros i Hp; cbn; [reflexivity|].
  inversion Hp as [|? ? Hx Hp']; subst. rewrite Hx. apply IH; auto.
Qed.

Lemma flno_at_pad set p i best : Forall (fun x => memb x set = true) p -> flno_at set p i best = best.
Proof.
  revert i best. induction p as [|x p IH]; intros i best Hp; cbn; [reflexivity|].
  inversion Hp as [|? ? Hx Hp']; subst. rewrite Hx. apply IH; auto.
Qed.

Lemma flno_at_last set a c p i best :
  memb c set = false -> Forall (fun x => memb x set = true) p ->
  flno_at set (a ++ c :: p) i best = i + N.of_nat (length a).
Proof.
  revert i best. induction a as [|x a IH]; intros i best Hc Hp; cbn.
  - rewrite Hc. rewrite flno_at_pad by auto. lia.
  - rewrite IH by auto. lia.
Qed.

Lemma size_app a b : size (a ++ b) = size a + size b.
Proof. unfold size. rewrite app_length. lia. Qed.

Lemma skipn_app_exact {A} (a b:list A) : skipn (length a) (a ++ b) = b.
Proof. induction a; cbn; auto. Qed.
Lemma firstn_app_exact {A} (a b:list A) : firstn (length a) (a ++ b) = a.
Proof. induction a; cbn; auto. f_equal. auto. Qed.

(* cleanup_token returns exactly the token, whatever blanks, tabs and dashes surround it, however long they are;
   the token itself may contain pad characters inside (e.g. "a && b") as long as it starts and ends with others *)
Theorem cleanup_token_exact p1 first mid last p2 :
  all_pad p1 -> all_pad p2 -> not_pad first -> not_pad last ->
  size (p1 ++ first :: mid ++ last :: p2) < npos ->
  cleanup_token (p1 ++ first :: mid ++ last :: p2) = first :: mid ++ [last].
Proof.
  intros H1 H2 Hf Hl Hsz. unfold cleanup_token.
  set (s := p1 ++ first :: mid ++ last :: p2) in *.
  assert (Ef : find_first_not_of pad_chars s = size p1).
  { unfold find_first_not_of, s. rewrite ffno_at_skip by auto. unfold size. lia. }
  assert (El : find_last_not_of pad_chars s = size p1 + 1 + size mid).
  { unfold find_last_not_of, s.
    replace (p1 ++ first :: mid ++ last :: p2) with ((p1 ++ first :: mid) ++ last :: p2)
      by (rewrite <- app_assoc; reflexivity).
    rewrite flno_at_last by auto. rewrite app_length. cbn [length]. unfold size. lia. }
  rewrite Ef, El.
  assert (Hs : size s = size p1 + 1 + size mid + 1 + size p2).
  { unfold s, size. rewrite !app_length. cbn [length]. rewrite app_length. cbn [length]. lia. }
  assert (Hnp : npos = W - 1) by reflexivity.
  assert (HW : W = 18446744073709551616) by reflexivity.
  assert (B1 : size p1 < W) by lia. assert (B2 : size p1 + 1 + size mid < W) by lia.
  replace (size p1 =? npos) with false by (symmetry; apply N.eqb_neq; lia).
  replace (size p1 + 1 + size mid =? npos) with false by (symmetry; apply N.eqb_neq; lia).
  cbn [negb andb].
  assert (Elen : wadd (wsub (size p1 + 1 + size mid) (size p1)) 1 = size mid + 2).
  { unfold wadd, wsub. rewrite HW. lia. }
  rewrite Elen. unfold substr.
  replace (size s <? size p1) with false by (symmetry; apply N.ltb_ge; lia).
  replace (N.min (size mid + 2) (size s - size p1)) with (size mid + 2) by lia.
  replace (N.to_nat (size p1)) with (length p1) by (unfold size; lia).
  unfold s. rewrite skipn_app_exact.
  replace (N.to_nat (size mid + 2)) with (length (first :: mid ++ [last])).
  2:{ unfold size. cbn [length]. rewrite app_length. cbn [length]. lia. }
  replace (first :: mid ++ last :: p2) with ((first :: mid ++ [last]) ++ p2)
    by (cbn; rewrite <- app_assoc; reflexivity).
  apply firstn_app_exact.
Qed.

(* a one-character token *)
Theorem cleanup_token_single p1 c p2 :
  all_pad p1 -> all_pad p2 -> not_pad c -> size (p1 ++ c :: p2) < npos ->
  cleanup_token (p1 ++ c :: p2) = [c].
Proof.
  intros H1 H2 Hc Hsz. unfold cleanup_token.
  set (s := p1 ++ c :: p2) in *.
  assert (Ef : find_first_not_of pad_chars s = size p1).
  { unfold find_first_not_of, s. rewrite ffno_at_skip by auto. unfold size. lia. }
  assert (El : find_last_not_of pad_chars s = size p1).
  { unfold find_last_not_of, s. rewrite flno_at_last by auto. unfold size. lia. }
  rewrite Ef, El.
  assert (Hs : size s = size p1 + 1 + size p2).
  { unfold s, size. rewrite app_length. cbn [length]. lia. }
  assert (HW : W = 18446744073709551616) by reflexivity. assert (Hnp : npos = W - 1) by reflexivity.
  replace (size p1 =? npos) with false by (symmetry; apply N.eqb_neq; lia).
  cbn [negb andb].
  assert (Elen : wadd (wsub (size p1) (size p1)) 1 = 1).
  { unfold wadd, wsub. rewrite HW. lia. }
  rewrite Elen. unfold substr.
  replace (size s <? size p1) with false by (symmetry; apply N.ltb_ge; lia).
  replace (N.min 1 (size s - size p1)) with 1 by lia.
  replace (N.to_nat (size p1)) with (length p1) by (unfold size; lia).
  unfold s. rewrite skipn_app_exact. reflexivity.
Qed.

(* only padding: the empty token *)
Theorem cleanup_token_blank p : all_pad p -> cleanup_token p = [].
Proof.
  intros H. unfold cleanup_token, find_first_not_of. rewrite ffno_at_all by auto. reflexivity.
Qed.

(* count_actions counts the comma separated parts *)
Fixpoint join_commas (parts:list str) : str :=
  match parts with
  | [] => []
  | [p] => p
  | p :: rest => p ++ c_comma :: join_commas rest
  end.
Definition comma_free (p:str) : Prop := count_char c_comma p = 0%nat.

Lemma count_char_app c a b : count_char c (a ++ b) = (count_char c a + count_char c b)%nat.
Proof. induction a as [|x a IH]; cbn; auto. rewrite IH. lia. Qed.

Lemma join_commas_cons p q rest : join_commas (p :: q :: rest) = p ++ c_comma :: join_commas (q :: rest).
Proof. reflexivity. Qed.

Lemma count_char_join parts :
  Forall comma_free parts -> parts <> [] -> count_char c_comma (join_commas parts) = (length parts - 1)%nat.
Proof.
  induction parts as [|p rest IH]; intros H Hne; [congruence|].
  inversion H as [|? ? Hp Hrest]; subst. destruct rest as [|q rest].
  - cbn. unfold comma_free in Hp. rewrite Hp. reflexivity.
  - rewrite join_commas_cons. rewrite count_char_app.
    assert (E : count_char c_comma (c_comma :: join_commas (q :: rest)) = S (count_char c_comma (join_commas (q :: rest)))).
    { cbn [count_char]. rewrite Nat.eqb_refl. reflexivity. }
    rewrite E. rewrite IH by (auto; discriminate). unfold comma_free in Hp. rewrite Hp. cbn [length]. lia.
Qed.

Theorem count_actions_join parts :
  Forall comma_free parts -> Forall (fun p => p <> []) parts -> count_actions (join_commas parts) = length parts.
Proof.
  intros Hc Hn. destruct parts as [|p rest]; [reflexivity|].
  unfold count_actions. assert (Hne : join_commas (p :: rest) <> []).
  { inversion Hn as [|? ? Hp ?]; subst. destruct rest; cbn; [auto|]. destruct p; [congruence|discriminate]. }
  destruct (join_commas (p :: rest)) eqn:E; [congruence|]. rewrite <- E.
  rewrite count_char_join by (auto; discriminate). cbn [length]. lia.
Qed.
