(* Lemmas_PumlCount.v - C14: detail::count_inits (transcribed in Puml.v, compared with the library's own function on
   generated descriptions by harness/pumlcheck.py) counts exactly the initial-state lines of a description: the lines
   in which an arrow follows the "[*]".  Terminate lines ("State -> [*]": no arrow behind the "[*]"), lines without
   "[*]" and everything behind a counted line's "[*]" are passed over, however many lines of whatever length there are
   (finding F25, repaired in /repo, was exactly a miscount here: counting stopped at the first terminate line). *)
From Msm Require Import Base Puml Lemmas_Puml Lemmas_PumlRow Lemmas_PumlStt.
From Coq Require Import NArith Lia ZifyBool ZifyN List.
Import ListNotations.
Ltac Zify.zify_post_hook ::= Z.div_mod_to_equations.
Local Open Scope N_scope.
Notation size := Puml.size (only parsing).
Notation find := Puml.find (only parsing).

Lemma find_idxp pat s : find pat s = match idxp pat s with Some k => N.of_nat k | None => npos end.
Proof. rewrite find_unfold, find_at_idxp. destruct (idxp pat s); [lia | reflexivity]. Qed.

Lemma find_from_idxp pat s (i:nat) : (i <= length s)%nat ->
  find_from pat s (N.of_nat i) = match idxp pat (skipn i s) with Some j => N.of_nat i + N.of_nat j | None => npos end.
Proof.
  intros H. unfold find_from. replace (size s <? N.of_nat i) with false by (symmetry; apply N.ltb_ge; unfold size; lia).
  rewrite Nat2N.id. apply find_at_idxp.
Qed.

Lemma skipn_app_shift {A} (pre s:list A) k : skipn (length pre + k) (pre ++ s) = skipn k s.
Proof. induction pre; cbn; auto. Qed.

Lemma substr_from_skipn s (i:nat) : (i <= length s)%nat -> size s < npos -> substr_from s (N.of_nat i) = skipn i s.
Proof.
  intros H Hs. unfold substr_from, substr.
  replace (size s <? N.of_nat i) with false by (symmetry; apply N.ltb_ge; unfold size; lia).
  rewrite Nat2N.id. apply firstn_all2. rewrite skipn_length. pose proof npos_val. unfold size in *. lia.
Qed.
Lemma substr_from_npos s : size s < npos -> substr_from s npos = [].
Proof. intros H. unfold substr_from, substr. replace (size s <? npos) with true by (symmetry; apply N.ltb_lt; lia). reflexivity. Qed.

(* one step of the loop, stated with list indices *)
Definition ci_step (s:str) : option (bool * str) :=
  match idxp c_initstar s with
  | None => None
  | Some k =>
      let tail := skipn k s in
      match idxp c_arrow tail, idxp [c_nl] tail with
      | Some a, Some e => if (a <? e)%nat then Some (true, skipn (k + e) s) else Some (false, skipn (k + 3) s)
      | Some a, None => Some (true, [])
      | None, _ => Some (false, skipn (k + 3) s)
      end
  end.

Lemma idxp_star_len s k : idxp c_initstar s = Some k -> (k + 3 <= length s)%nat.
Proof.
  revert k. induction s as [|x s IH]; intros k H; cbn [idxp] in H.
  - cbn in H. discriminate.
  - destruct (is_prefix c_initstar (x :: s)) eqn:E.
    + inversion H; subst. apply is_prefix_length in E. cbn in *. lia.
    + destruct (idxp c_initstar s) as [k'|]; [|discriminate]. cbn in H. inversion H; subst. specialize (IH k' eq_refl). cbn. lia.
Qed.
(* an arrow cannot start where a "[*]" starts *)
Lemma arrow_not_at_star t : is_prefix c_initstar t = true -> idxp c_arrow t <> Some 0%nat.
Proof.
  intros H. destruct t as [|x t]; [discriminate|]. unfold c_initstar in H. cbn [is_prefix] in H.
  apply andb_prop in H. destruct H as [Hx _].
  apply Nat.eqb_eq in Hx. subst x. cbn [idxp]. replace (is_prefix c_arrow (c_lbr :: t)) with false by reflexivity.
  destruct (idxp c_arrow t); cbn; discriminate.
Qed.
Lemma idxp_skipn_prefix pat s k : idxp pat s = Some k -> is_prefix pat (skipn k s) = true.
Proof.
  revert k. induction s as [|x s IH]; intros k H; cbn [idxp] in H.
  - destruct (is_prefix pat []) eqn:E; [inversion H; subst; exact E | discriminate].
  - destruct (is_prefix pat (x :: s)) eqn:E; [inversion H; subst; exact E|].
    destruct (idxp pat s) as [k'|]; [|discriminate]. cbn in H. inversion H; subst. cbn [skipn]. apply IH. reflexivity.
Qed.

Lemma ci_unfold f s occ : size s < npos ->
  count_inits_loop (S f) s occ =
  match ci_step s with
  | None => occ
  | Some (true, s') => count_inits_loop f s' (S occ)
  | Some (false, s') => count_inits_loop f s' occ
  end.
Proof.
  intros Hs. pose proof npos_val as Hn. pose proof W_val as HW. cbn [count_inits_loop]. unfold ci_step. rewrite find_idxp.
  destruct (idxp c_initstar s) as [k|] eqn:Ek; [|reflexivity].
  pose proof (idxp_star_len s k Ek) as Hk.
  replace (N.of_nat k =? npos) with false by (symmetry; apply N.eqb_neq; unfold size in *; lia).
  rewrite !find_from_idxp by lia.
  pose proof (arrow_not_at_star _ (idxp_skipn_prefix _ _ _ Ek)) as Hne.
  assert (Hlen : length (skipn k s) = (length s - k)%nat) by apply skipn_length.
  destruct (idxp c_arrow (skipn k s)) as [a|] eqn:Ea.
  - assert (Ha : (a < length (skipn k s))%nat) by (apply (idxp_lt c_arrow ltac:(discriminate) _ _ Ea)).
    assert (Ha0 : a <> 0%nat) by (intros E0; apply Hne; rewrite E0; reflexivity).
    replace (N.of_nat k <? N.of_nat k + N.of_nat a) with true by (symmetry; apply N.ltb_lt; lia). cbn [andb].
    destruct (idxp [c_nl] (skipn k s)) as [e|] eqn:Ee.
    + assert (He : (e < length (skipn k s))%nat) by (apply (idxp_lt [c_nl] ltac:(discriminate) _ _ Ee)).
      destruct (a <? e)%nat eqn:Eae.
      * apply Nat.ltb_lt in Eae.
        replace (N.of_nat k + N.of_nat a <? N.of_nat k + N.of_nat e) with true by (symmetry; apply N.ltb_lt; lia).
        replace (N.of_nat k + N.of_nat e) with (N.of_nat (k + e)) by lia.
        rewrite substr_from_skipn by (try lia; assumption). reflexivity.
      * apply Nat.ltb_ge in Eae.
        replace (N.of_nat k + N.of_nat a <? N.of_nat k + N.of_nat e) with false by (symmetry; apply N.ltb_ge; lia).
        rewrite wadd_small by (unfold size in *; lia). replace (N.of_nat k + 3) with (N.of_nat (k + 3)) by lia.
        rewrite substr_from_skipn by (try lia; assumption). reflexivity.
    + replace (N.of_nat k + N.of_nat a <? npos) with true by (symmetry; apply N.ltb_lt; unfold size in *; lia).
      rewrite substr_from_npos by assumption. reflexivity.
  - replace (N.of_nat k <? npos) with true by (symmetry; apply N.ltb_lt; unfold size in *; lia). cbn [andb].
    assert (E : (npos <? match idxp [c_nl] (skipn k s) with Some j => N.of_nat k + N.of_nat j | None => npos end) = false).
    { destruct (idxp [c_nl] (skipn k s)) as [e|] eqn:Ee; apply N.ltb_ge; [|lia].
      assert (He : (e < length (skipn k s))%nat) by (apply (idxp_lt [c_nl] ltac:(discriminate) _ _ Ee)). unfold size in *. lia. }
    rewrite E. rewrite wadd_small by (unfold size in *; lia). replace (N.of_nat k + 3) with (N.of_nat (k + 3)) by lia.
    rewrite substr_from_skipn by (try lia; assumption).
    destruct (idxp [c_nl] (skipn k s)); reflexivity.
Qed.

(* ---- lines ---- *)
(* a line is an initial line iff it has a "[*]" and an arrow behind it *)
Definition is_initb (l:str) : bool :=
  match idxp c_initstar l with
  | Some k => contains c_arrow (skipn k l)
  | None => false
  end.
(* at most one "[*]" per line *)
Definition single_star (l:str) : Prop :=
  match idxp c_initstar l with Some k => idxp c_initstar (skipn (k + 3) l) = None | None => True end.

Lemma hasb_skipn c l k : hasb c l = false -> hasb c (skipn k l) = false.
Proof.
  revert k. induction l as [|x l IH]; intros [|k] H; cbn [skipn]; auto.
  cbn [hasb] in H. apply Bool.orb_false_elim in H. destruct H as [_ H]. apply IH. exact H.
Qed.
Lemma idxp_nl_none l : hasb c_nl l = false -> idxp [c_nl] l = None.
Proof.
  induction l as [|x l IH]; intros H; [reflexivity|]. cbn [hasb] in H. apply Bool.orb_false_elim in H. destruct H as [Hx Hl].
  cbn [idxp is_prefix]. rewrite Hx. cbn [andb]. rewrite IH by exact Hl. reflexivity.
Qed.
Lemma skipn_app_le {A} (l s:list A) k : (k <= length l)%nat -> skipn k (l ++ s) = skipn k l ++ s.
Proof. revert k. induction l as [|x l IH]; intros [|k] H; cbn in *; auto; try lia. apply IH. lia. Qed.

Lemma idxp_nl_here t rest : hasb c_nl t = false -> idxp [c_nl] (t ++ c_nl :: rest) = Some (length t).
Proof.
  induction t as [|x t IH]; intros H; cbn [app].
  - cbn. reflexivity.
  - cbn [hasb] in H. apply Bool.orb_false_elim in H. destruct H as [Hx Ht].
    cbn [idxp is_prefix]. rewrite Hx. cbn [andb]. rewrite IH by exact Ht. reflexivity.
Qed.
Lemma skipn_shift_line {A} (l:list A) x rest k : skipn (length l + 1 + k) (l ++ x :: rest) = skipn k rest.
Proof.
  replace (l ++ x :: rest) with ((l ++ [x]) ++ rest) by (rewrite <- app_assoc; reflexivity).
  replace (length l + 1 + k)%nat with (length (l ++ [x]) + k)%nat by (rewrite app_length; cbn; lia).
  apply skipn_app_shift.
Qed.

(* the step on "line, line end, rest" *)
Lemma ci_step_line l rest : line_ok l ->
  ci_step (l ++ c_nl :: rest) =
  match idxp c_initstar l with
  | Some k => if contains c_arrow (skipn k l) then Some (true, c_nl :: rest) else Some (false, skipn (k + 3) l ++ c_nl :: rest)
  | None => ci_step rest
  end.
Proof.
  intros Hl. unfold line_ok in Hl. unfold ci_step at 1.
  rewrite (idxp_line c_initstar init_nl ltac:(discriminate)).
  destruct (idxp c_initstar l) as [k|] eqn:Ek.
  - pose proof (idxp_star_len l k Ek) as Hk.
    rewrite skipn_app_le by lia.
    rewrite (idxp_line c_arrow arrow_nl ltac:(discriminate)).
    rewrite (idxp_nl_here (skipn k l)) by (apply hasb_skipn; exact Hl).
    assert (Hlen : length (skipn k l) = (length l - k)%nat) by apply skipn_length.
    unfold contains.
    destruct (idxp c_arrow (skipn k l)) as [a|] eqn:Ea.
    + assert (Ha : (a < length (skipn k l))%nat) by (apply (idxp_lt c_arrow ltac:(discriminate) _ _ Ea)).
      replace (a <? length (skipn k l))%nat with true by (symmetry; apply Nat.ltb_lt; lia).
      replace (k + length (skipn k l))%nat with (length l + 0)%nat by lia.
      replace (l ++ c_nl :: rest) with (l ++ (c_nl :: rest)) by reflexivity. rewrite skipn_app_shift. reflexivity.
    + assert (E3 : skipn (k + 3) (l ++ c_nl :: rest) = skipn (k + 3) l ++ c_nl :: rest) by (apply skipn_app_le; lia).
      rewrite E3.
      destruct (idxp c_arrow rest) as [j|]; cbn [option_map]; [|reflexivity].
      replace (length (skipn k l) + 1 + j <? length (skipn k l))%nat with false by (symmetry; apply Nat.ltb_ge; lia).
      reflexivity.
  - unfold ci_step. destruct (idxp c_initstar rest) as [k'|] eqn:Ek'; cbn [option_map]; [|reflexivity].
    rewrite !skipn_shift_line.
    replace (length l + 1 + k' + 3)%nat with (length l + 1 + (k' + 3))%nat by lia. rewrite skipn_shift_line.
    destruct (idxp c_arrow (skipn k' rest)) as [a|]; [|reflexivity].
    destruct (idxp [c_nl] (skipn k' rest)) as [e|]; [|reflexivity].
    replace (length l + 1 + k' + e)%nat with (length l + 1 + (k' + e))%nat by lia. rewrite skipn_shift_line. reflexivity.
Qed.

(* the step on a last line (no line end behind it) *)
Lemma ci_step_last l : line_ok l ->
  ci_step l =
  match idxp c_initstar l with
  | Some k => if contains c_arrow (skipn k l) then Some (true, []) else Some (false, skipn (k + 3) l)
  | None => None
  end.
Proof.
  intros Hl. unfold line_ok in Hl. unfold ci_step, contains.
  destruct (idxp c_initstar l) as [k|]; [|reflexivity].
  rewrite (idxp_nl_none (skipn k l)) by (apply hasb_skipn; exact Hl).
  destruct (idxp c_arrow (skipn k l)); reflexivity.
Qed.

(* ---- the count ---- *)
Lemma ci_nostar f s occ : size s < npos -> idxp c_initstar s = None -> count_inits_loop f s occ = occ.
Proof.
  intros Hs H. destruct f as [|f]; [reflexivity|]. rewrite ci_unfold by exact Hs. unfold ci_step. rewrite H. reflexivity.
Qed.

Lemma size_skipn_le (s:str) k : size (skipn k s) <= size s.
Proof. unfold Puml.size. rewrite skipn_length. lia. Qed.

Lemma join_nl_length_le l rest : (length (join_nl rest) <= length (join_nl (l :: rest)))%nat.
Proof. destruct rest as [|q r]; [cbn; lia|]. rewrite join_nl_cons, app_length. cbn [length]. lia. Qed.

Theorem count_inits_lines : forall lines fuel occ,
  Forall line_ok lines -> Forall single_star lines -> (length (join_nl lines) < fuel)%nat -> size (join_nl lines) < npos ->
  count_inits_loop fuel (join_nl lines) occ = (occ + length (filter is_initb lines))%nat.
Proof.
  induction lines as [|l rest IH]; intros fuel occ Hok Hss Hfuel Hsz.
  - cbn [join_nl filter length]. rewrite ci_nostar by (auto; reflexivity). lia.
  - inversion Hok as [|? ? Hl Hrest]; subst. inversion Hss as [|? ? Hs1 Hsrest]; subst.
    destruct fuel as [|f]; [lia|].
    cbn [filter]. unfold is_initb at 1. unfold single_star in Hs1.
    destruct rest as [|q rest'].
    + (* the last line *)
      cbn [join_nl] in *. rewrite ci_unfold by exact Hsz. rewrite ci_step_last by exact Hl.
      destruct (idxp c_initstar l) as [k|] eqn:Ek; [|cbn; lia].
      destruct (contains c_arrow (skipn k l)).
      * rewrite ci_nostar by (try reflexivity; pose proof npos_val; unfold Puml.size; cbn; lia). cbn [filter length]. lia.
      * rewrite ci_nostar; [cbn [filter length]; lia | | exact Hs1].
        pose proof (size_skipn_le l (k + 3)). lia.
    + rewrite join_nl_cons in *. rewrite ci_unfold by exact Hsz. rewrite ci_step_line by exact Hl.
      assert (HszJ : size (join_nl (q :: rest')) < npos) by (autorewrite with sz in Hsz; lia).
      assert (HfJ : (length (join_nl (q :: rest')) + 1 < S f)%nat) by (rewrite app_length in Hfuel; cbn [length] in Hfuel; lia).
      (* what the loop does on "line end, rest" and on "line without [*], line end, rest": it goes on with the rest *)
      assert (Drop : forall t o, line_ok t -> idxp c_initstar t = None -> size (t ++ c_nl :: join_nl (q :: rest')) < npos ->
                (length (t ++ c_nl :: join_nl (q :: rest')) < S f)%nat ->
                count_inits_loop f (t ++ c_nl :: join_nl (q :: rest')) o = (o + length (filter is_initb (q :: rest')))%nat).
      { intros t o Ht Hstar Hsz' Hf'. destruct f as [|f']; [rewrite app_length in Hf'; cbn [length] in Hf'; lia|].
        rewrite ci_unfold by exact Hsz'. rewrite ci_step_line by exact Ht. rewrite Hstar.
        rewrite <- ci_unfold by exact HszJ.
        apply IH; auto. rewrite app_length in Hf'. cbn [length] in Hf'. lia. }
      destruct (idxp c_initstar l) as [k|] eqn:Ek.
      * pose proof (idxp_star_len l k Ek) as Hk.
        destruct (contains c_arrow (skipn k l)).
        -- (* an initial line: counted, the loop goes on behind its line end *)
           change (c_nl :: join_nl (q :: rest')) with ([] ++ c_nl :: join_nl (q :: rest')).
           rewrite (Drop [] (S occ)); [cbn [length]; lia | reflexivity | reflexivity | |].
           ++ cbn [app]. autorewrite with sz in *. lia.
           ++ cbn [app length]. rewrite app_length in Hfuel. cbn [length] in Hfuel. lia.
        -- (* a "[*]" without arrow behind it: not counted, the loop goes on behind the "[*]" *)
           rewrite (Drop (skipn (k + 3) l) occ); [lia | | exact Hs1 | |].
           ++ unfold line_ok. apply hasb_skipn. exact Hl.
           ++ pose proof (size_skipn_le l (k + 3)). autorewrite with sz in *. lia.
           ++ rewrite app_length in *. cbn [length] in *. rewrite skipn_length. lia.
      * (* no "[*]" in this line *)
        rewrite <- ci_unfold by exact HszJ.
        rewrite IH; auto. lia.
Qed.

(* count_inits of a whole description = the number of its initial lines *)
Theorem count_inits_exact lines :
  Forall line_ok lines -> Forall single_star lines -> size (join_nl lines) < npos ->
  count_inits (join_nl lines) = length (filter is_initb lines).
Proof.
  intros Hok Hss Hsz. unfold count_inits. rewrite count_inits_lines; auto.
Qed.

(* ---- rfind (used by count_terminates, which is compared with the library but has no counting theorem yet) ---- *)
(* what rfind_at answers: the initial value or a position (counted from i) at which pat occurs, not behind limit *)
Lemma rfind_at_cases pat : forall s i limit best,
  rfind_at pat s i limit best = best \/
  exists d, (d <= length s)%nat /\ rfind_at pat s i limit best = i + N.of_nat d /\ i + N.of_nat d <= limit /\
            is_prefix pat (skipn d s) = true.
Proof.
  induction s as [|x s IH]; intros i limit best; cbn [rfind_at].
  - destruct (is_prefix pat [] && (i <=? limit)) eqn:E; [|left; reflexivity].
    apply andb_prop in E. destruct E as [E1 E2]. apply N.leb_le in E2. right. exists 0%nat. cbn. repeat split; auto; lia.
  - destruct (IH (i + 1) limit (if is_prefix pat (x :: s) && (i <=? limit) then i else best)) as [H|(d & Hd & Hr & Hl & Hp)].
    + rewrite H. destruct (is_prefix pat (x :: s) && (i <=? limit)) eqn:E; [|left; reflexivity].
      apply andb_prop in E. destruct E as [E1 E2]. apply N.leb_le in E2. right. exists 0%nat. cbn. repeat split; auto; lia.
    + right. exists (S d). cbn [length skipn]. repeat split; auto; lia.
Qed.

(* an occurrence not behind limit is found, or a later one *)
Lemma rfind_at_ge pat : forall s i limit best d, (d <= length s)%nat -> is_prefix pat (skipn d s) = true -> i + N.of_nat d <= limit ->
  i + N.of_nat (length s) < npos ->
  i + N.of_nat d <= rfind_at pat s i limit best <= limit.
Proof.
  induction s as [|x s IH]; intros i limit best d Hd Hp Hl Hb.
  - cbn in Hd. assert (d = 0%nat) by lia. subst d. cbn [skipn] in Hp. cbn [rfind_at]. rewrite Hp.
    replace (i <=? limit) with true by (symmetry; apply N.leb_le; lia). cbn [andb]. lia.
  - cbn [rfind_at]. destruct d as [|d].
    + cbn [skipn] in Hp. rewrite Hp. replace (i <=? limit) with true by (symmetry; apply N.leb_le; lia). cbn [andb].
      destruct (rfind_at_cases pat s (i + 1) limit i) as [H|(d' & Hd' & Hr & Hl' & _)]; [rewrite H; lia | rewrite Hr; lia].
    + cbn [skipn length] in *. specialize (IH (i + 1) limit (if is_prefix pat (x :: s) && (i <=? limit) then i else best) d).
      assert (i + 1 + N.of_nat d <= rfind_at pat s (i + 1) limit (if is_prefix pat (x :: s) && (i <=? limit) then i else best) <= limit)
        by (apply IH; auto; lia).
      lia.
Qed.
