(* Lemmas_PumlGuard.v - the guard parser returns, for every expression of the grammar (any nesting depth, any blank
   padding), exactly the tree that C++ precedence gives *)
From Msm Require Import Base Puml Lemmas_Puml PumlGuard.
From Coq Require Import NArith ZArith Lia ZifyBool ZifyN.
Ltac Zify.zify_post_hook ::= Z.div_mod_to_equations.
Local Open Scope N_scope.

(* ---- the grammar, with its padding, as a tree ---- *)
Inductive pexp :=
| PName (n:str)
| PNot (pad:str) (e:pexp)                   (* ! pad e *)
| PParen (p1:str) (e:pexp) (p2:str)         (* ( p1 e p2 ) *)
| PAnd (a:pexp) (p1 p2:str) (b:pexp)        (* a p1 && p2 b *)
| POr (a:pexp) (p1 p2:str) (b:pexp).        (* a p1 || p2 b *)

Fixpoint print (e:pexp) : str :=
  match e with
  | PName n => n
  | PNot p e => c_bang :: p ++ print e
  | PParen p1 e p2 => c_lpar :: p1 ++ print e ++ p2 ++ [c_rpar]
  | PAnd a p1 p2 b => print a ++ p1 ++ s_and ++ p2 ++ print b
  | POr a p1 p2 b => print a ++ p1 ++ s_or ++ p2 ++ print b
  end.

Fixpoint erase (e:pexp) : gexp :=
  match e with
  | PName n => GName n
  | PNot _ e => GNot (erase e)
  | PParen _ e _ => erase e
  | PAnd a _ _ b => GAnd (erase a) (erase b)
  | POr a _ _ b => GOr (erase a) (erase b)
  end.

Definition level (e:pexp) : nat :=
  match e with PAnd _ _ _ _ => 1 | POr _ _ _ _ => 2 | _ => 0 end.

Definition special : list nat := [c_lpar; c_rpar; c_bang; c_amp; c_bar; c_space; c_tab; c_dash].
Definition ident_char (c:nat) : Prop := memb c special = false.
Definition blank_char (c:nat) : Prop := c = c_space \/ c = c_tab.
Definition blank (p:str) : Prop := Forall blank_char p.

(* C++ precedence as a grammar: or-chains of and-chains of unary expressions, right-nested like the parser's splits *)
Fixpoint wf (e:pexp) : Prop :=
  match e with
  | PName n => n <> [] /\ Forall ident_char n
  | PNot p e => blank p /\ wf e /\ level e = 0%nat
  | PParen p1 e p2 => blank p1 /\ blank p2 /\ wf e
  | PAnd a p1 p2 b => blank p1 /\ blank p2 /\ wf a /\ wf b /\ level a = 0%nat /\ (level b <= 1)%nat
  | POr a p1 p2 b => blank p1 /\ blank p2 /\ wf a /\ wf b /\ (level a <= 1)%nat /\ (level b <= 2)%nat
  end.

Definition oplevel (op:str) : nat := if list_eqb op s_or then 2 else 1.

Definition is_op (op:str) : Prop := op = s_or \/ op = s_and.
Lemma oplevel_or : oplevel s_or = 2%nat. Proof. reflexivity. Qed.
Lemma oplevel_and : oplevel s_and = 1%nat. Proof. reflexivity. Qed.
Lemma oplevel_pos op : is_op op -> (0 < oplevel op)%nat.
Proof. intros [-> | ->]; [rewrite oplevel_or | rewrite oplevel_and]; lia. Qed.

(* ---- scanning ---- *)
Definition plain_for (op:str) (c:nat) : Prop :=
  c <> c_lpar /\ c <> c_rpar /\ (forall t, is_prefix op (c :: t) = false).

Lemma ftl_skip_plain op l : Forall (plain_for op) l ->
  forall t d i, ftl op (l ++ t) d i = ftl op t d (i + size l).
Proof.
  induction 1 as [|c l Hc Hl IH]; intros t d i; cbn [app].
  - unfold size. cbn. f_equal. lia.
  - destruct Hc as (H1 & H2 & H3). cbn [ftl].
    replace (Nat.eqb c c_lpar) with false by (symmetry; apply Nat.eqb_neq; auto).
    replace (Nat.eqb c c_rpar) with false by (symmetry; apply Nat.eqb_neq; auto).
    rewrite H3. rewrite andb_false_r. rewrite IH. f_equal. unfold size. cbn [length]. lia.
Qed.

(* at a depth other than 0 every character that is not a parenthesis is skipped *)
Lemma ftl_skip_deep op l : Forall (fun c => c <> c_lpar /\ c <> c_rpar) l ->
  forall t d i, d <> 0%Z -> ftl op (l ++ t) d i = ftl op t d (i + size l).
Proof.
  induction 1 as [|c l Hc Hl IH]; intros t d i Hd; cbn [app].
  - unfold size. cbn. f_equal. lia.
  - destruct Hc as (H1 & H2). cbn [ftl].
    replace (Nat.eqb c c_lpar) with false by (symmetry; apply Nat.eqb_neq; auto).
    replace (Nat.eqb c c_rpar) with false by (symmetry; apply Nat.eqb_neq; auto).
    replace (d =? 0)%Z with false by (symmetry; apply Z.eqb_neq; auto). cbn [andb].
    rewrite IH by auto. f_equal. unfold size. cbn [length]. lia.
Qed.


Lemma blank_plain op p : is_op op -> blank p -> Forall (plain_for op) p.
Proof.
  intros Hop Hp. eapply Forall_impl; [|exact Hp]. intros c [-> | ->]; unfold plain_for;
    (repeat split; [discriminate | discriminate | intros t; destruct Hop as [-> | ->]; reflexivity]).
Qed.

Lemma ident_char_neq c : ident_char c ->
  c <> c_lpar /\ c <> c_rpar /\ c <> c_bang /\ c <> c_amp /\ c <> c_bar /\ c <> c_space /\ c <> c_tab /\ c <> c_dash.
Proof.
  unfold ident_char, special, memb. cbn [existsb]. intros Hc.
  apply orb_false_iff in Hc as [E1 Hc]. apply orb_false_iff in Hc as [E2 Hc]. apply orb_false_iff in Hc as [E3 Hc].
  apply orb_false_iff in Hc as [E4 Hc]. apply orb_false_iff in Hc as [E5 Hc]. apply orb_false_iff in Hc as [E6 Hc].
  apply orb_false_iff in Hc as [E7 Hc]. apply orb_false_iff in Hc as [E8 _].
  apply Nat.eqb_neq in E1, E2, E3, E4, E5, E6, E7, E8. repeat split; assumption.
Qed.

Lemma ident_plain op n : is_op op -> Forall ident_char n -> Forall (plain_for op) n.
Proof.
  intros Hop Hn. eapply Forall_impl; [|exact Hn]. intros c Hc. apply ident_char_neq in Hc.
  destruct Hc as (N1 & N2 & N3 & N4 & N5 & _).
  repeat split; auto.
  intros t. destruct Hop as [-> | ->]; unfold s_or, s_and; cbn [is_prefix].
  - replace (Nat.eqb c_bar c) with false; [reflexivity|]. symmetry. apply Nat.eqb_neq. auto.
  - replace (Nat.eqb c_amp c) with false; [reflexivity|]. symmetry. apply Nat.eqb_neq. auto.
Qed.

Lemma blank_noparen p : blank p -> Forall (fun c => c <> c_lpar /\ c <> c_rpar) p.
Proof. intros Hp. eapply Forall_impl; [|exact Hp]. intros c [-> | ->]; split; discriminate. Qed.

Ltac neq := let H := fresh in intro H; vm_compute in H; discriminate H.
Ltac ln := unfold s_and, s_or; cbn [length]; repeat (rewrite app_length; cbn [length]); lia.
Ltac sz := unfold size, s_and, s_or; cbn [length]; repeat (rewrite app_length; cbn [length]); lia.
Lemma size_cons c (l:str) : size (c :: l) = 1 + size l.
Proof. unfold size. cbn [length]. lia. Qed.

(* a whole well-formed expression is skipped when it cannot contain the operator at depth 0: either we are inside
   parentheses already, or the expression binds tighter than the operator *)
Lemma ftl_skip_exp op : is_op op -> forall e, wf e ->
  forall t d i, ((0 < d)%Z \/ (d = 0%Z /\ (level e < oplevel op)%nat)) ->
  ftl op (print e ++ t) d i = ftl op t d (i + size (print e)).
Proof.
  intros Hop. induction e as [n | p e IH | p1 e IH p2 | a IHa p1 p2 b IHb | a IHa p1 p2 b IHb]; intros Hwf t d i Hd; cbn [print wf] in *.
  - destruct Hwf as (_ & Hn). apply ftl_skip_plain. apply ident_plain; auto.
  - destruct Hwf as (Hp & He & Hl).
    cbn [app ftl]. change (Nat.eqb c_bang c_lpar) with false. change (Nat.eqb c_bang c_rpar) with false. cbn match.
    replace (is_prefix op (c_bang :: (p ++ print e) ++ t)) with false by (destruct Hop as [-> | ->]; reflexivity).
    rewrite andb_false_r. rewrite <- app_assoc. rewrite (ftl_skip_plain op p) by (apply blank_plain; auto).
    rewrite IH; auto.
    + f_equal. sz.
    + destruct Hd as [Hd | (Hd & _)]; [left; auto | right; split; auto]. rewrite Hl. apply oplevel_pos; auto.
  - destruct Hwf as (Hp1 & Hp2 & He).
    cbn [app ftl]. change (Nat.eqb c_lpar c_lpar) with true. cbn match.
    assert (Hd1 : (0 < d + 1)%Z) by lia.
    repeat rewrite <- app_assoc.
    rewrite (ftl_skip_deep op p1) by (try apply blank_noparen; auto; lia).
    rewrite IH by (auto).
    rewrite (ftl_skip_deep op p2) by (try apply blank_noparen; auto; lia).
    cbn [app ftl]. change (Nat.eqb c_rpar c_lpar) with false. change (Nat.eqb c_rpar c_rpar) with true. cbn match.
    replace (d + 1 - 1)%Z with d by lia. f_equal.
    sz.
  - destruct Hwf as (Hp1 & Hp2 & Ha & Hb & Hla & Hlb).
    repeat rewrite <- app_assoc.
    assert (Hop_and : forall tt dd ii, ((0 < dd)%Z \/ op = s_or) -> ftl op (s_and ++ tt) dd ii = ftl op tt dd (ii + 2)).
    { intros tt dd ii H. unfold s_and. cbn [app ftl]. change (Nat.eqb c_amp c_lpar) with false. change (Nat.eqb c_amp c_rpar) with false.
      cbn match.
      assert (E : forall x, ((dd =? 0)%Z && is_prefix op (c_amp :: x)) = false).
      { intros x. destruct H as [H | ->]; [replace (dd =? 0)%Z with false by (symmetry; apply Z.eqb_neq; lia); reflexivity | apply andb_false_r]. }
      rewrite !E. f_equal. lia. }
    assert (Hcase : (0 < d)%Z \/ (d = 0%Z /\ op = s_or)).
    { destruct Hd as [Hd | (Hd & Hl)]; [left; auto | right; split; auto].
      cbn in Hl. destruct Hop as [-> | ->]; auto. cbn in Hl. lia. }
    rewrite IHa; auto.
    2:{ destruct Hcase as [H | (H & ->)]; [left; auto | right; split; auto]. rewrite Hla. cbn. lia. }
    rewrite (ftl_skip_plain op p1) by (apply blank_plain; auto).
    rewrite Hop_and by (destruct Hcase as [H | (H & ->)]; auto).
    rewrite (ftl_skip_plain op p2) by (apply blank_plain; auto).
    rewrite IHb; auto.
    2:{ destruct Hcase as [H | (H & ->)]; [left; auto | right; split; auto]. cbn. lia. }
    f_equal. sz.
  - destruct Hwf as (Hp1 & Hp2 & Ha & Hb & Hla & Hlb).
    assert (Hdeep : (0 < d)%Z).
    { destruct Hd as [Hd | (Hd & Hl)]; auto. cbn in Hl. destruct Hop as [-> | ->]; cbn in Hl; lia. }
    repeat rewrite <- app_assoc.
    rewrite IHa by auto.
    rewrite (ftl_skip_plain op p1) by (apply blank_plain; auto).
    replace (s_or ++ p2 ++ print b ++ t) with ((s_or ++ p2) ++ print b ++ t) by (rewrite <- app_assoc; reflexivity).
    rewrite (ftl_skip_deep op (s_or ++ p2)).
    2:{ apply Forall_app. split; [repeat constructor; discriminate | apply blank_noparen; auto]. }
    2:{ lia. }
    rewrite IHb by auto.
    f_equal. sz.
Qed.

(* ---- where the parser splits ---- *)
Lemma ftl_none op e : is_op op -> wf e -> (level e < oplevel op)%nat -> find_top_level (print e) op = npos.
Proof.
  intros Hop Hwf Hl. unfold find_top_level. rewrite <- (app_nil_r (print e)).
  rewrite ftl_skip_exp by auto. reflexivity.
Qed.

Lemma ftl_at_op op a p1 t : is_op op -> wf a -> blank p1 -> (level a < oplevel op)%nat ->
  find_top_level (print a ++ p1 ++ op ++ t) op = size (print a ++ p1).
Proof.
  intros Hop Ha Hp Hl. unfold find_top_level.
  rewrite ftl_skip_exp by auto. rewrite (ftl_skip_plain op p1) by (apply blank_plain; auto).
  destruct Hop as [-> | ->]; unfold s_or, s_and; cbn [app ftl];
    [change (Nat.eqb c_bar c_lpar) with false; change (Nat.eqb c_bar c_rpar) with false
    |change (Nat.eqb c_amp c_lpar) with false; change (Nat.eqb c_amp c_rpar) with false];
    cbn match; cbn [is_prefix]; rewrite !Nat.eqb_refl; cbn [andb Z.eqb]; sz.
Qed.

Lemma no_top_or e : wf e -> (level e <= 1)%nat -> find_top_level (print e) s_or = npos.
Proof. intros. apply ftl_none; [left; reflexivity | assumption | rewrite oplevel_or; lia]. Qed.
Lemma no_top_and e : wf e -> level e = 0%nat -> find_top_level (print e) s_and = npos.
Proof. intros. apply ftl_none; [right; reflexivity | assumption | rewrite oplevel_and; lia]. Qed.
Lemma at_top_or a p1 t : wf a -> blank p1 -> (level a <= 1)%nat ->
  find_top_level (print a ++ p1 ++ s_or ++ t) s_or = size (print a ++ p1).
Proof. intros. apply ftl_at_op; [left; reflexivity | assumption | assumption | rewrite oplevel_or; lia]. Qed.
Lemma at_top_and a p1 t : wf a -> blank p1 -> level a = 0%nat ->
  find_top_level (print a ++ p1 ++ s_and ++ t) s_and = size (print a ++ p1).
Proof. intros. apply ftl_at_op; [right; reflexivity | assumption | assumption | rewrite oplevel_and; lia]. Qed.

(* ---- substrings ---- *)
Lemma substr_prefix (x y:str) : substr (x ++ y) 0 (size x) = x.
Proof.
  unfold substr. replace (size (x ++ y) <? 0) with false by (symmetry; apply N.ltb_ge; lia).
  cbn [N.to_nat skipn]. replace (N.min (size x) (size (x ++ y) - 0)) with (size x) by sz.
  replace (N.to_nat (size x)) with (length x) by (unfold size; lia). apply firstn_app_exact.
Qed.

Lemma substr_from_suffix (x y:str) : size (x ++ y) < npos -> substr_from (x ++ y) (size x) = y.
Proof.
  intros Hs. unfold substr_from, substr.
  replace (size (x ++ y) <? size x) with false by (symmetry; apply N.ltb_ge; sz).
  replace (N.to_nat (size x)) with (length x) by (unfold size; lia). rewrite skipn_app_exact.
  replace (N.min npos (size (x ++ y) - size x)) with (size y) by (revert Hs; sz).
  replace (N.to_nat (size y)) with (length y) by (unfold size; lia). apply firstn_all.
Qed.

Lemma substr_middle (c:nat) (m:str) (d:nat) : size (c :: m ++ [d]) < npos ->
  substr (c :: m ++ [d]) 1 (wsub (size (c :: m ++ [d])) 2) = m.
Proof.
  intros Hs. unfold substr.
  replace (size (c :: m ++ [d]) <? 1) with false by (symmetry; apply N.ltb_ge; sz).
  change (N.to_nat 1) with 1%nat. cbn [skipn].
  assert (E : wsub (size (c :: m ++ [d])) 2 = size m).
  { unfold wsub. assert (HW : W = 18446744073709551616) by reflexivity. assert (Hn : npos = W - 1) by reflexivity.
    revert Hs. unfold size. cbn [length]. rewrite app_length. cbn [length]. intros Hs. rewrite HW in *. lia. }
  rewrite E. replace (N.min (size m) (size (c :: m ++ [d]) - 1)) with (size m) by sz.
  replace (N.to_nat (size m)) with (length m) by (unfold size; lia). apply firstn_app_exact.
Qed.

(* ---- trimming ---- *)
Definition edges_ok (s:str) : Prop := s <> [] /\ not_pad (hd 0%nat s) /\ not_pad (last s 0%nat).

Lemma blank_all_pad p : blank p -> all_pad p.
Proof. intros H. eapply Forall_impl; [|exact H]. intros c [-> | ->]; reflexivity. Qed.

Lemma cleanup_token_trim p1 s p2 : all_pad p1 -> all_pad p2 -> edges_ok s -> size (p1 ++ s ++ p2) < npos ->
  cleanup_token (p1 ++ s ++ p2) = s.
Proof.
  intros H1 H2 (Hne & Hh & Hl) Hs. destruct s as [|c s']; [congruence|].
  destruct s' as [|c' s''] using rev_ind.
  - cbn [app]. apply cleanup_token_single; auto.
  - clear IHs''. cbn [hd] in Hh. replace (last (c :: s'' ++ [c']) 0%nat) with c' in Hl.
    2:{ change (c :: s'' ++ [c']) with ((c :: s'') ++ [c']). rewrite last_last. reflexivity. }
    replace (p1 ++ (c :: s'' ++ [c']) ++ p2) with (p1 ++ c :: s'' ++ c' :: p2) in *.
    2:{ cbn [app]. rewrite <- app_assoc. reflexivity. }
    apply cleanup_token_exact; auto.
Qed.

Lemma not_pad_of_neq c : c <> c_dash -> c <> c_space -> c <> c_tab -> not_pad c.
Proof.
  intros A B C. unfold not_pad, pad_chars, memb. cbn [existsb].
  replace (Nat.eqb c c_dash) with false by (symmetry; apply Nat.eqb_neq; auto).
  replace (Nat.eqb c c_space) with false by (symmetry; apply Nat.eqb_neq; auto).
  replace (Nat.eqb c c_tab) with false by (symmetry; apply Nat.eqb_neq; auto). reflexivity.
Qed.

Lemma ident_not_pad c : ident_char c -> not_pad c.
Proof. intros H. apply ident_char_neq in H. destruct H as (_ & _ & _ & _ & _ & A & B & C). apply not_pad_of_neq; auto. Qed.

Lemma last_app_cons {A} (l:list A) x (t:list A) d : last (l ++ x :: t) d = last (x :: t) d.
Proof.
  induction l as [|a l IH]; [reflexivity|]. cbn [app].
  destruct (l ++ x :: t) as [|y r] eqn:E; [destruct l; discriminate|].
  change (last (a :: y :: r) d) with (last (y :: r) d). exact IH.
Qed.

Lemma print_edges e : wf e -> edges_ok (print e).
Proof.
  induction e as [n | p e IH | p1 e IH p2 | a IHa p1 p2 b IHb | a IHa p1 p2 b IHb]; cbn [print wf]; intros Hwf.
  - destruct Hwf as (Hne & Hn). split; [auto | split].
    + destruct n as [|c n]; [congruence|]. inversion Hn; subst. apply ident_not_pad; auto.
    + destruct n as [|c n] using rev_ind; [congruence|]. rewrite last_last. apply Forall_app in Hn as [_ Hn]. inversion Hn; subst. apply ident_not_pad; auto.
  - destruct Hwf as (Hp & He & Hl). destruct (IH He) as (Hne & Hh & Hla). split; [|split].
    + discriminate.
    + cbn [hd]. apply not_pad_of_neq; neq.
    + destruct (print e) as [|x t] eqn:E; [congruence|]. change (c_bang :: p ++ x :: t) with ((c_bang :: p) ++ x :: t).
      rewrite last_app_cons. exact Hla.
  - split; [|split].
    + discriminate.
    + cbn [hd]. apply not_pad_of_neq; neq.
    + change (c_lpar :: p1 ++ print e ++ p2 ++ [c_rpar]) with ((c_lpar :: p1) ++ print e ++ p2 ++ [c_rpar]).
      rewrite !app_assoc. rewrite last_last. apply not_pad_of_neq; neq.
  - destruct Hwf as (Hp1 & Hp2 & Ha & Hb & _). destruct (IHa Ha) as (Hna & Hha & _). destruct (IHb Hb) as (Hnb & _ & Hlb).
    split; [|split].
    + destruct (print a); [congruence | discriminate].
    + destruct (print a); [congruence | exact Hha].
    + destruct (print b) as [|x t] eqn:E; [congruence|]. rewrite !app_assoc. rewrite last_app_cons. exact Hlb.
  - destruct Hwf as (Hp1 & Hp2 & Ha & Hb & _). destruct (IHa Ha) as (Hna & Hha & _). destruct (IHb Hb) as (Hnb & _ & Hlb).
    split; [|split].
    + destruct (print a); [congruence | discriminate].
    + destruct (print a); [congruence | exact Hha].
    + destruct (print b) as [|x t] eqn:E; [congruence|]. rewrite !app_assoc. rewrite last_app_cons. exact Hlb.
Qed.

(* ---- the parser is exact ---- *)
Lemma trim_exp p1 e p2 : blank p1 -> blank p2 -> wf e -> size (p1 ++ print e ++ p2) < npos ->
  cleanup_token (p1 ++ print e ++ p2) = print e.
Proof. intros. apply cleanup_token_trim; auto using blank_all_pad, print_edges. Qed.

Lemma trim_exp_l p1 e : blank p1 -> wf e -> size (p1 ++ print e) < npos -> cleanup_token (p1 ++ print e) = print e.
Proof. intros H1 He Hs. rewrite <- (app_nil_r (print e)) at 1. apply trim_exp; auto. constructor. rewrite app_nil_r. auto. Qed.

Lemma trim_exp_r e p2 : blank p2 -> wf e -> size (print e ++ p2) < npos -> cleanup_token (print e ++ p2) = print e.
Proof. intros H2 He Hs. change (print e ++ p2) with ([] ++ print e ++ p2). apply trim_exp; auto. constructor. Qed.

Lemma starts_with_print c e : wf e -> starts_with c (print e) = true ->
  (c = c_bang -> exists p e', e = PNot p e') /\ (c = c_lpar -> level e = 0%nat -> exists p1 e' p2, e = PParen p1 e' p2).
Proof. Abort.

Lemma hd_print_level0 e : wf e -> level e = 0%nat ->
  match e with
  | PName n => starts_with c_bang (print e) = false /\ starts_with c_lpar (print e) = false
  | PNot _ _ => starts_with c_bang (print e) = true
  | PParen _ _ _ => starts_with c_bang (print e) = false /\ starts_with c_lpar (print e) = true /\ ends_with c_rpar (print e) = true
  | _ => True
  end.
Proof.
  intros Hwf Hl. destruct e as [n | p e | p1 e p2 | |]; cbn [print wf] in *; auto.
  - destruct Hwf as (Hne & Hn). destruct n as [|c n]; [congruence|]. inversion Hn as [|? ? Hc _]; subst.
    apply ident_char_neq in Hc. destruct Hc as (N1 & _ & N3 & _). cbn [starts_with].
    split; apply Nat.eqb_neq; auto.
  - cbn [starts_with]. split; [reflexivity|]. split; [reflexivity|].
    unfold ends_with. change (c_lpar :: p1 ++ print e ++ p2 ++ [c_rpar]) with ((c_lpar :: p1) ++ print e ++ p2 ++ [c_rpar]).
    rewrite !app_assoc. rewrite rev_app_distr. cbn [rev app]. apply Nat.eqb_refl.
Qed.

Theorem parse_print : forall e, wf e -> size (print e) < npos ->
  forall fuel, (length (print e) < fuel)%nat -> parse_guard_simple fuel (print e) = Some (erase e).
Proof.
  induction e as [n | p e IH | p1 e IH p2 | a IHa p1 p2 b IHb | a IHa p1 p2 b IHb]; intros Hwf Hs fuel Hf;
    (destruct fuel as [|f]; [lia|]); cbn [parse_guard_simple].
  - (* name *)
    rewrite (no_top_or (PName n)) by (auto; cbn; lia).
    rewrite (no_top_and (PName n)) by auto.
    rewrite N.eqb_refl. cbn [negb].
    destruct (hd_print_level0 (PName n) Hwf eq_refl) as (E1 & E2). rewrite E1, E2. reflexivity.
  - (* not *)
    rewrite (no_top_or (PNot p e)) by (auto; cbn; lia).
    rewrite (no_top_and (PNot p e)) by auto.
    rewrite N.eqb_refl. cbn [negb].
    rewrite (hd_print_level0 (PNot p e) Hwf eq_refl).
    cbn [print wf] in *. destruct Hwf as (Hp & He & Hl).
    change (c_bang :: p ++ print e) with ([c_bang] ++ p ++ print e) in *.
    change 1 with (size [c_bang]). rewrite substr_from_suffix by auto.
    assert (Hs' : size (p ++ print e) < npos) by (revert Hs; sz).
    rewrite trim_exp_l by auto.
    rewrite IH; auto.
    + revert Hs'. sz.
    + revert Hf. repeat (rewrite app_length; cbn [length]). lia.
  - (* parentheses *)
    rewrite (no_top_or (PParen p1 e p2)) by (auto; cbn; lia).
    rewrite (no_top_and (PParen p1 e p2)) by auto.
    rewrite N.eqb_refl. cbn [negb].
    destruct (hd_print_level0 (PParen p1 e p2) Hwf eq_refl) as (E1 & E2 & E3). rewrite E1, E2, E3. cbn [andb].
    cbn [print wf] in *. destruct Hwf as (Hp1 & Hp2 & He).
    replace (c_lpar :: p1 ++ print e ++ p2 ++ [c_rpar]) with (c_lpar :: (p1 ++ print e ++ p2) ++ [c_rpar]) in *
      by (repeat rewrite <- app_assoc; reflexivity).
    rewrite substr_middle by auto.
    assert (Hs' : size (p1 ++ print e ++ p2) < npos) by (revert Hs; sz).
    rewrite trim_exp by auto.
    apply IH; auto.
    + revert Hs'. sz.
    + revert Hf. cbn [length]. repeat (rewrite app_length; cbn [length]). lia.
  - (* and *)
    cbn [wf] in Hwf. destruct Hwf as (Hp1 & Hp2 & Ha & Hb & Hla & Hlb).
    rewrite (no_top_or (PAnd a p1 p2 b)) by (cbn [wf level]; auto 10).
    rewrite N.eqb_refl. cbn [negb]. cbn [print] in *.
    rewrite at_top_and by auto.
    replace (size (print a ++ p1) =? npos) with false by (symmetry; apply N.eqb_neq; revert Hs; sz). cbn [negb].
    replace (print a ++ p1 ++ s_and ++ p2 ++ print b) with ((print a ++ p1) ++ (s_and ++ p2 ++ print b)) in *
      by (repeat rewrite <- app_assoc; reflexivity).
    rewrite substr_prefix.
    replace (wadd (size (print a ++ p1)) 2) with (size ((print a ++ p1) ++ s_and)).
    2:{ unfold wadd. assert (HW : W = 18446744073709551616) by reflexivity. assert (Hn : npos = W - 1) by reflexivity.
        revert Hs. unfold size, s_and. repeat (rewrite app_length; cbn [length]). rewrite HW in *. intros Hs. rewrite Hn in Hs. lia. }
    replace ((print a ++ p1) ++ s_and ++ p2 ++ print b) with (((print a ++ p1) ++ s_and) ++ p2 ++ print b) in *
      by (repeat rewrite <- app_assoc; reflexivity).
    rewrite substr_from_suffix by auto.
    rewrite trim_exp_r by (auto; revert Hs; sz).
    rewrite trim_exp_l by (auto; revert Hs; sz).
    rewrite IHa; [| auto | revert Hs; sz | revert Hf; ln].
    rewrite IHb; [| auto | revert Hs; sz | revert Hf; ln].
    reflexivity.
  - (* or *)
    cbn [wf] in Hwf. destruct Hwf as (Hp1 & Hp2 & Ha & Hb & Hla & Hlb). cbn [print] in *.
    rewrite at_top_or by auto.
    replace (size (print a ++ p1) =? npos) with false by (symmetry; apply N.eqb_neq; revert Hs; sz). cbn [negb].
    replace (print a ++ p1 ++ s_or ++ p2 ++ print b) with ((print a ++ p1) ++ (s_or ++ p2 ++ print b)) in *
      by (repeat rewrite <- app_assoc; reflexivity).
    rewrite substr_prefix.
    replace (wadd (size (print a ++ p1)) 2) with (size ((print a ++ p1) ++ s_or)).
    2:{ unfold wadd. assert (HW : W = 18446744073709551616) by reflexivity. assert (Hn : npos = W - 1) by reflexivity.
        revert Hs. unfold size, s_or. repeat (rewrite app_length; cbn [length]). rewrite HW in *. intros Hs. rewrite Hn in Hs. lia. }
    replace ((print a ++ p1) ++ s_or ++ p2 ++ print b) with (((print a ++ p1) ++ s_or) ++ p2 ++ print b) in *
      by (repeat rewrite <- app_assoc; reflexivity).
    rewrite substr_from_suffix by auto.
    rewrite trim_exp_r by (auto; revert Hs; sz).
    rewrite trim_exp_l by (auto; revert Hs; sz).
    rewrite IHa; [| auto | revert Hs; sz | revert Hf; ln].
    rewrite IHb; [| auto | revert Hs; sz | revert Hf; ln].
    reflexivity.
Qed.

(* the C++ value of the written expression *)
Fixpoint peval (v:str -> bool) (e:pexp) : bool :=
  match e with
  | PName n => v n
  | PNot _ e => negb (peval v e)
  | PParen _ e _ => peval v e
  | PAnd a _ _ b => peval v a && peval v b
  | POr a _ _ b => peval v a || peval v b
  end.

Lemma geval_erase v e : geval v (erase e) = peval v e.
Proof. induction e; cbn; congruence. Qed.

Theorem parse_guard_value e v : wf e -> size (print e) < npos ->
  option_map (geval v) (parse_guard (print e)) = Some (peval v e).
Proof.
  intros Hwf Hs. unfold parse_guard. rewrite parse_print by (auto; lia). cbn. rewrite geval_erase. reflexivity.
Qed.

Lemma is_prefix_length p s : is_prefix p s = true -> (length p <= length s)%nat.
Proof.
  revert s. induction p as [|a p IH]; intros s H; cbn in *; [lia|].
  destruct s as [|b s]; [discriminate|]. apply andb_true_iff in H as [_ H]. apply IH in H. cbn. lia.
Qed.

Lemma ftl_bound op s : forall d i r, ftl op s d i = r -> r = npos \/ (i <= r /\ r + N.of_nat (length op) <= i + size s).
Proof.
  induction s as [|c s IH]; intros d i r H; cbn [ftl] in H.
  - left. auto.
  - destruct (Nat.eqb c c_lpar).
    { apply IH in H. destruct H as [H | H]; [left; auto | right]. rewrite size_cons. lia. }
    destruct (Nat.eqb c c_rpar).
    { apply IH in H. destruct H as [H | H]; [left; auto | right]. rewrite size_cons. lia. }
    destruct ((d =? 0)%Z && is_prefix op (c :: s)) eqn:E.
    { right. subst r. apply andb_true_iff in E as [_ E]. apply is_prefix_length in E. unfold size. lia. }
    apply IH in H. destruct H as [H | H]; [left; auto | right]. rewrite size_cons. lia.
Qed.

Lemma substr_length s pos len : (length (substr s pos len) <= length s - N.to_nat pos)%nat.
Proof.
  unfold substr. destruct (size s <? pos) eqn:E; [cbn; lia|].
  rewrite firstn_length, skipn_length. lia.
Qed.
Lemma substr_length_le s pos len : (length (substr s pos len) <= N.to_nat len)%nat.
Proof.
  unfold substr. destruct (size s <? pos) eqn:E; [cbn; lia|].
  rewrite firstn_length. lia.
Qed.

Lemma cleanup_token_length s : (length (cleanup_token s) <= length s)%nat.
Proof.
  unfold cleanup_token. destruct (_ && _); [|cbn; lia].
  etransitivity; [apply substr_length|]. lia.
Qed.

Lemma starts_with_nonempty c s : starts_with c s = true -> (1 <= length s)%nat.
Proof. destruct s; cbn; [discriminate | lia]. Qed.

Lemma paren_two s : starts_with c_lpar s = true -> ends_with c_rpar s = true -> (2 <= length s)%nat.
Proof.
  destruct s as [|a [|b s]]; cbn; try discriminate; try lia.
  unfold ends_with. cbn. intros H1 H2. apply Nat.eqb_eq in H1, H2. subst. discriminate.
Qed.

(* the recursion of parse_guard_simple ends for every string: each instantiation works on a strictly shorter one *)
Theorem parse_total : forall fuel s, size s < npos -> (length s < fuel)%nat -> parse_guard_simple fuel s <> None.
Proof.
  assert (HW : W = 18446744073709551616) by reflexivity. assert (Hn : npos = W - 1) by reflexivity.
  induction fuel as [|f IH]; intros s Hs Hf; [lia|]. cbn [parse_guard_simple].
  assert (Hsub : forall t, (length t < length s)%nat -> parse_guard_simple f t <> None).
  { intros t Ht. apply IH; [unfold size in *; lia | lia]. }
  destruct (negb (find_top_level s s_or =? npos)) eqn:Eor.
  { apply negb_true_iff, N.eqb_neq in Eor. unfold find_top_level in *.
    destruct (ftl_bound s_or s 0%Z 0 _ eq_refl) as [B | (B1 & B2)]; [congruence|]. cbn [length s_or] in B2.
    set (pos := ftl s_or s 0%Z 0) in *.
    assert (H1 : (length (cleanup_token (substr s 0 pos)) < length s)%nat).
    { eapply Nat.le_lt_trans; [apply cleanup_token_length|]. eapply Nat.le_lt_trans; [apply substr_length_le|]. unfold size in *. lia. }
    assert (H2 : (length (cleanup_token (substr_from s (wadd pos 2))) < length s)%nat).
    { eapply Nat.le_lt_trans; [apply cleanup_token_length|]. unfold substr_from.
      eapply Nat.le_lt_trans; [apply substr_length|]. unfold wadd. unfold size in *. rewrite HW in *. lia. }
    specialize (Hsub _ H1) as G1. specialize (Hsub _ H2) as G2.
    destruct (parse_guard_simple f (cleanup_token (substr s 0 pos))); [|congruence].
    destruct (parse_guard_simple f (cleanup_token (substr_from s (wadd pos 2)))); [discriminate|congruence]. }
  destruct (negb (find_top_level s s_and =? npos)) eqn:Eand.
  { apply negb_true_iff, N.eqb_neq in Eand. unfold find_top_level in *.
    destruct (ftl_bound s_and s 0%Z 0 _ eq_refl) as [B | (B1 & B2)]; [congruence|]. cbn [length s_and] in B2.
    set (pos := ftl s_and s 0%Z 0) in *.
    assert (H1 : (length (cleanup_token (substr s 0 pos)) < length s)%nat).
    { eapply Nat.le_lt_trans; [apply cleanup_token_length|]. eapply Nat.le_lt_trans; [apply substr_length_le|]. unfold size in *. lia. }
    assert (H2 : (length (cleanup_token (substr_from s (wadd pos 2))) < length s)%nat).
    { eapply Nat.le_lt_trans; [apply cleanup_token_length|]. unfold substr_from.
      eapply Nat.le_lt_trans; [apply substr_length|]. unfold wadd. unfold size in *. rewrite HW in *. lia. }
    specialize (Hsub _ H1) as G1. specialize (Hsub _ H2) as G2.
    destruct (parse_guard_simple f (cleanup_token (substr s 0 pos))); [|congruence].
    destruct (parse_guard_simple f (cleanup_token (substr_from s (wadd pos 2)))); [discriminate|congruence]. }
  destruct (starts_with c_bang s) eqn:Eb.
  { apply starts_with_nonempty in Eb.
    assert (H1 : (length (cleanup_token (substr_from s 1)) < length s)%nat).
    { eapply Nat.le_lt_trans; [apply cleanup_token_length|]. unfold substr_from. eapply Nat.le_lt_trans; [apply substr_length|]. lia. }
    specialize (Hsub _ H1). destruct (parse_guard_simple f (cleanup_token (substr_from s 1))); [discriminate|congruence]. }
  destruct (starts_with c_lpar s && ends_with c_rpar s) eqn:Ep.
  { apply andb_true_iff in Ep as [E1 E2]. pose proof (paren_two s E1 E2) as H2.
    apply Hsub. eapply Nat.le_lt_trans; [apply cleanup_token_length|]. eapply Nat.le_lt_trans; [apply substr_length|]. lia. }
  discriminate.
Qed.

Corollary parse_guard_total s : size s < npos -> exists g, parse_guard s = Some g.
Proof.
  intros Hs. unfold parse_guard. destruct (parse_guard_simple (S (length s)) s) eqn:E; [eauto|].
  exfalso. revert E. apply parse_total; auto.
Qed.
