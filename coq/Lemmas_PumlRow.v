(* Lemmas_PumlRow.v - C14, the PlantUML row tokenizer: detail::parse_row (transcribed in Puml.v, compared with the
   library's own function by harness/pumlcheck.py) returns exactly the five fields of every transition line of the
   documented grammar

       Source  -[-]*>  Target  [ : Event  [ / Actions ]  [ [Guard] ] ]        (guard and actions in either order)

   for identifiers, action lists and guard texts of any length (they may contain blanks, commas, '*', '&', '|', '!',
   parentheses ... - anything but the five structural characters - : / [ ]), any arrow length and any amount of blank /
   tab padding at every position.  No bound on any length except that the line is shorter than npos. *)
From Msm Require Import Base Puml Lemmas_Puml.
From Coq Require Import NArith Lia ZifyBool ZifyN List.
Import ListNotations.
Ltac Zify.zify_post_hook ::= Z.div_mod_to_equations.
Local Open Scope N_scope.
Notation find := Puml.find (only parsing).
Notation size := Puml.size (only parsing).

(* ---- characters ---- *)
Fixpoint hasb (c:nat) (s:str) : bool := match s with [] => false | x :: t => Nat.eqb c x || hasb c t end.
Lemma hasb_app c a b : hasb c (a ++ b) = hasb c a || hasb c b.
Proof. induction a as [|x a IH]; cbn; [reflexivity|]. rewrite IH, Bool.orb_assoc. reflexivity. Qed.

Definition specials : str := [c_dash; c_colon; c_slash; c_lbr; c_rbr].
Definition clean (t:str) : Prop := forallb (fun x => negb (memb x specials)) t = true.
Lemma clean_hasb t c : clean t -> memb c specials = true -> hasb c t = false.
Proof.
  unfold clean. induction t as [|x t IH]; cbn [forallb hasb]; intros H Hc; [reflexivity|].
  apply andb_prop in H. destruct H as [Hx Ht]. rewrite (IH Ht Hc), Bool.orb_false_r.
  destruct (Nat.eqb c x) eqn:E; [|reflexivity]. apply Nat.eqb_eq in E. subst x. rewrite Hc in Hx. discriminate.
Qed.

Definition blank (p:str) : Prop := Forall (fun c => c = c_space \/ c = c_tab) p.
Lemma blank_pad p : blank p -> all_pad p.
Proof. unfold blank, all_pad. apply Forall_impl. intros c [H|H]; subst; reflexivity. Qed.
Lemma blank_clean p : blank p -> clean p.
Proof. unfold blank, clean. induction 1 as [|c p [H|H] Hp IH]; cbn [forallb]; subst; [reflexivity| |]; rewrite IH; reflexivity. Qed.

Definition dashes (d:str) : Prop := Forall (fun c => c = c_dash) d.
Lemma dashes_pad d : dashes d -> all_pad d.
Proof. unfold dashes, all_pad. apply Forall_impl. intros c H; subst; reflexivity. Qed.
Lemma dashes_hasb d c : dashes d -> Nat.eqb c c_dash = false -> hasb c d = false.
Proof. induction 1 as [|x d Hx Hd IH]; cbn [hasb]; intros Hc; [reflexivity|]. subst x. rewrite Hc, IH by assumption. reflexivity. Qed.
Lemma all_pad_app a b : all_pad a -> all_pad b -> all_pad (a ++ b).
Proof. unfold all_pad. intros. apply Forall_app; auto. Qed.

(* a token: starts and ends with a character cleanup_token does not strip *)
Definition starts (t:str) : Prop := match t with c :: _ => not_pad c | [] => False end.
Definition ends (t:str) : Prop := starts (rev t).
Definition word (t:str) : Prop := starts t /\ ends t /\ clean t.

Lemma starts_app a b : starts a -> starts (a ++ b).
Proof. destruct a; cbn; [contradiction|auto]. Qed.
Lemma ends_app a b : ends b -> ends (a ++ b).
Proof. unfold ends. rewrite rev_app_distr. apply starts_app. Qed.
Lemma ends_cons c b : ends b -> ends (c :: b).
Proof. unfold ends. cbn [rev]. apply starts_app. Qed.
Lemma ends_one c : not_pad c -> ends [c].
Proof. intros H. exact H. Qed.
Lemma ends_snoc a c : not_pad c -> ends (a ++ [c]).
Proof. intros H. apply ends_app. exact H. Qed.

(* ---- sizes ---- *)
Lemma size_cons c t : size (c :: t) = 1 + size t.
Proof. unfold size. cbn [length]. lia. Qed.
Lemma size_nil : size [] = 0. Proof. reflexivity. Qed.
Global Hint Rewrite size_app size_cons size_nil : sz.

(* ---- substr ---- *)
Lemma substr_split s a b c pos len : s = a ++ b ++ c -> pos = size a -> len = size b -> substr s pos len = b.
Proof.
  intros -> -> ->. unfold substr. autorewrite with sz.
  replace (size a + (size b + size c) <? size a) with false by (symmetry; apply N.ltb_ge; lia).
  replace (N.min (size b) (size a + (size b + size c) - size a)) with (size b) by lia.
  replace (N.to_nat (size a)) with (length a) by (unfold size; lia).
  replace (N.to_nat (size b)) with (length b) by (unfold size; lia).
  rewrite skipn_app_exact. apply firstn_app_exact.
Qed.
Lemma substr_rest s a b pos len : s = a ++ b -> pos = size a -> size b <= len -> substr s pos len = b.
Proof.
  intros -> -> H. unfold substr. autorewrite with sz.
  replace (size a + size b <? size a) with false by (symmetry; apply N.ltb_ge; lia).
  replace (N.min len (size a + size b - size a)) with (size b) by lia.
  replace (N.to_nat (size a)) with (length a) by (unfold size; lia).
  replace (N.to_nat (size b)) with (length b) by (unfold size; lia).
  rewrite skipn_app_exact. apply firstn_all.
Qed.

(* ---- find of a one-character pattern ---- *)
Lemma find_at1_skip c a b i : hasb c a = false -> find_at [c] (a ++ b) i = find_at [c] b (i + size a).
Proof.
  revert i. induction a as [|x a IH]; intros i H; cbn [app].
  - rewrite size_nil, N.add_0_r. reflexivity.
  - cbn [hasb] in H. apply Bool.orb_false_elim in H. destruct H as [Hx Ha].
    cbn [find_at is_prefix]. rewrite Hx. cbn [andb]. rewrite IH by exact Ha. rewrite size_cons. f_equal. lia.
Qed.
Lemma find_at1_here c b i : find_at [c] (c :: b) i = i.
Proof. cbn [find_at is_prefix]. rewrite Nat.eqb_refl. reflexivity. Qed.
Lemma find_at1_none c a i : hasb c a = false -> find_at [c] a i = npos.
Proof.
  revert i. induction a as [|x a IH]; intros i H; [reflexivity|].
  cbn [hasb] in H. apply Bool.orb_false_elim in H. destruct H as [Hx Ha].
  cbn [find_at is_prefix]. rewrite Hx. cbn [andb]. apply IH. exact Ha.
Qed.
Lemma find_unfold pat s : find pat s = find_at pat s 0.
Proof. unfold find, find_from. replace (size s <? 0) with false by (symmetry; apply N.ltb_ge; lia). reflexivity. Qed.

Lemma find1_at c s a b : s = a ++ c :: b -> hasb c a = false -> find [c] s = size a.
Proof. intros -> H. rewrite find_unfold, find_at1_skip by exact H. apply find_at1_here. Qed.
Lemma find1_none c s : hasb c s = false -> find [c] s = npos.
Proof. intros H. rewrite find_unfold. apply find_at1_none. exact H. Qed.

(* ---- find of the arrow ---- *)
Lemma find_arrow_skip l x i : hasb c_dash l = false -> find_at c_arrow (l ++ x) i = find_at c_arrow x (i + size l).
Proof.
  revert i. induction l as [|y l IH]; intros i H; cbn [app].
  - rewrite size_nil, N.add_0_r. reflexivity.
  - cbn [hasb] in H. apply Bool.orb_false_elim in H. destruct H as [Hy Hl].
    unfold c_arrow at 1. cbn [find_at is_prefix]. rewrite Hy. cbn [andb]. fold c_arrow. rewrite IH by exact Hl.
    rewrite size_cons. f_equal. lia.
Qed.
Lemma find_arrow_dashes d r i : dashes d -> find_at c_arrow (d ++ c_dash :: c_gt :: r) i = i + size d.
Proof.
  intros H. revert i. induction H as [|x d Hx Hd IH]; intros i; cbn [app].
  - rewrite size_nil, N.add_0_r. reflexivity.
  - subst x.
    assert (E : is_prefix c_arrow (c_dash :: d ++ c_dash :: c_gt :: r) = false).
    { destruct d as [|y d']; [reflexivity|]. inversion Hd; subst. reflexivity. }
    change (find_at c_arrow (c_dash :: d ++ c_dash :: c_gt :: r) i)
      with (if is_prefix c_arrow (c_dash :: d ++ c_dash :: c_gt :: r) then i
            else find_at c_arrow (d ++ c_dash :: c_gt :: r) (i + 1)).
    rewrite E, IH, size_cons. lia.
Qed.
Lemma find_arrow s l d r : s = l ++ d ++ c_dash :: c_gt :: r -> hasb c_dash l = false -> dashes d ->
  find c_arrow s = size l + size d.
Proof. intros -> Hl Hd. rewrite find_unfold, find_arrow_skip by exact Hl. rewrite find_arrow_dashes by exact Hd. lia. Qed.

(* ---- cleanup_token on a padded token ---- *)
Lemma cleanup_tok p t q : all_pad p -> all_pad q -> starts t -> ends t -> size (p ++ t ++ q) < npos ->
  cleanup_token (p ++ t ++ q) = t.
Proof.
  intros Hp Hq Hs He Hsz. destruct t as [|f t']; [contradiction|]. cbn [starts] in Hs.
  destruct (@exists_last _ (f :: t') ltac:(discriminate)) as (front & l & E).
  assert (Hl : not_pad l). { unfold ends in He. rewrite E, rev_unit in He. exact He. }
  destruct front as [|f' mid].
  - cbn [app] in E. inversion E; subst. cbn [app]. cbn [app] in Hsz. apply cleanup_token_single; auto.
  - cbn [app] in E. inversion E; subst f' t'.
    replace (p ++ (f :: mid ++ [l]) ++ q) with (p ++ f :: mid ++ l :: q) in *
      by (cbn [app]; rewrite <- app_assoc; reflexivity).
    apply cleanup_token_exact; auto.
Qed.

Ltac la := repeat (rewrite <- app_assoc || (progress (cbn [app]))); reflexivity.
Ltac nos := repeat first [ rewrite hasb_app | progress (cbn [hasb])
                         | (rewrite clean_hasb by (assumption || reflexivity))
                         | (rewrite dashes_hasb by (assumption || reflexivity))
                         | match goal with H : hasb _ _ = false |- _ => rewrite H end ]; reflexivity.
Ltac nb := repeat match goal with
  | |- context[N.eqb ?a ?b] =>
      first [ replace (N.eqb a b) with true by (symmetry; apply N.eqb_eq; lia)
            | replace (N.eqb a b) with false by (symmetry; apply N.eqb_neq; lia) ]
  | |- context[N.ltb ?a ?b] =>
      first [ replace (N.ltb a b) with true by (symmetry; apply N.ltb_lt; lia)
            | replace (N.ltb a b) with false by (symmetry; apply N.ltb_ge; lia) ]
  | |- context[N.leb ?a ?b] =>
      first [ replace (N.leb a b) with true by (symmetry; apply N.leb_le; lia)
            | replace (N.leb a b) with false by (symmetry; apply N.leb_gt; lia) ]
  end.

Ltac ends_tac := first [ assumption | (apply ends_one; reflexivity) | (apply ends_app; ends_tac) | (apply ends_cons; ends_tac) ].
Ltac tok := first [ assumption | (apply blank_pad; assumption)
                   | ends_tac
                   | (repeat apply starts_app; assumption)
                   | (autorewrite with sz in *; lia) ].
Definition NP : N := 18446744073709551615.
Lemma npos_val : npos = NP. Proof. reflexivity. Qed.
Lemma wadd_small a b : a + b < W -> wadd a b = a + b.
Proof. intros H. unfold wadd. apply N.mod_small. exact H. Qed.
Lemma wsub_small a b : b <= a -> a < W -> wsub a b = a - b.
Proof. intros H1 H2. unfold wsub. rewrite (N.mod_small b) by lia. unfold W in *. lia. Qed.
Lemma wsub_wrap a b : a < b -> b < W -> wsub a b = a + W - b.
Proof. intros H1 H2. unfold wsub. rewrite (N.mod_small b) by lia. apply N.mod_small. lia. Qed.
Lemma W_val : W = NP + 1. Proof. reflexivity. Qed.

(* ==== the right-hand side of a line:  Target : Event tail ==== *)
Section Right.
Variables (p1 tgt p2 p3 evt p4 : str).
(* idash: the dash of an internal transition line "Source -> Source : -event ..." (empty for an external one) *)
Variable idash : str.
Hypothesis Hid : idash = [] \/ idash = [c_dash].
Hypothesis (B1 : blank p1) (B2 : blank p2) (B3 : blank p3) (B4 : blank p4).
Hypothesis (Wt : word tgt) (We : word evt).

Let Ct : clean tgt := proj2 (proj2 Wt).
Let Ce : clean evt := proj2 (proj2 We).
Let C1 := blank_clean p1 B1. Let C2 := blank_clean p2 B2. Let C3 := blank_clean p3 B3. Let C4 := blank_clean p4 B4.

Definition rhead := p1 ++ tgt ++ p2.
(* the target field: an internal line has none *)
Definition itgt : str := match idash with [] => tgt | _ => [] end.

Lemma idash_dashes : dashes idash.
Proof. destruct Hid as [Hi|Hi]; rewrite Hi; repeat constructor. Qed.

Lemma target_tok rest : size (rhead ++ c_colon :: rest) < npos -> cleanup_token rhead = tgt.
Proof.
  intros H. unfold rhead in *. pose proof Wt as (S1 & E1 & _). apply cleanup_tok; auto using blank_pad.
  autorewrite with sz in *. lia.
Qed.

Lemma cleanup_body part q1 body q2 : part = q1 ++ body ++ q2 -> blank q1 -> blank q2 -> starts body -> ends body ->
  size part < npos -> cleanup_token part = body.
Proof. intros -> H1 H2 Hs He Hsz. apply cleanup_tok; auto using blank_pad. Qed.

Lemma pg_none x : hasb c_lbr x = false -> parse_guards x = [].
Proof. intros H. unfold parse_guards. rewrite (find1_none c_lbr x H). reflexivity. Qed.

Lemma pg_some x a q1 g q2 b : x = a ++ c_lbr :: q1 ++ g ++ q2 ++ c_rbr :: b ->
  hasb c_lbr a = false -> hasb c_rbr a = false -> clean g -> blank q1 -> blank q2 -> starts g -> ends g -> size x < npos ->
  parse_guards x = g.
Proof.
  intros Hx Ha1 Ha2 Cg Bq1 Bq2 Sg Eg Hsz. pose proof npos_val as Hn. pose proof W_val as HW.
  pose proof (blank_clean q1 Bq1) as Cq1. pose proof (blank_clean q2 Bq2) as Cq2.
  assert (E1 : find [c_lbr] x = size a) by (eapply find1_at; [exact Hx | exact Ha1]).
  assert (E2 : find [c_rbr] x = size a + 1 + size q1 + size g + size q2).
  { rewrite (find1_at c_rbr x (a ++ c_lbr :: q1 ++ g ++ q2) b) by (try (rewrite Hx; la); nos).
    autorewrite with sz. lia. }
  assert (Hs : size x = size a + 1 + size q1 + size g + size q2 + 1 + size b) by (rewrite Hx; autorewrite with sz; lia).
  unfold parse_guards. rewrite E1, E2. rewrite Hn in *. nb. cbn [negb andb].
  rewrite wadd_small by lia. rewrite wsub_small by lia.
  rewrite (substr_split x (a ++ [c_lbr]) (q1 ++ g ++ q2) (c_rbr :: b)) by (try (rewrite Hx; la); autorewrite with sz; lia).
  apply cleanup_tok; auto using blank_pad. autorewrite with sz. lia.
Qed.

Definition M : N := size rhead + 1 + size p3 + size idash + size evt + size p4.

(* where the dash of an internal line is found, and that it is not found in an external one *)
Lemma find_idash part rest : part = rhead ++ c_colon :: p3 ++ idash ++ evt ++ p4 ++ rest -> hasb c_dash rest = false ->
  find [c_dash] part = match idash with [] => npos | _ => size rhead + 1 + size p3 end.
Proof.
  intros Hp Hr. destruct Hid as [Hi|Hi]; rewrite Hi in *; cbn [app] in Hp.
  - apply find1_none. rewrite Hp. unfold rhead. nos.
  - rewrite (find1_at c_dash part (rhead ++ c_colon :: p3) (evt ++ p4 ++ rest)) by (try (rewrite Hp; la); unfold rhead; nos).
    autorewrite with sz. lia.
Qed.

(* Target : Event     /     Source : -Event *)
Lemma prr_none : let part := rhead ++ c_colon :: p3 ++ idash ++ evt ++ p4 in
  size part < npos -> parse_row_right part = Transition [] itgt evt [] [].
Proof.
  intros part Hsz. pose proof npos_val as Hn. pose proof W_val as HW. pose proof idash_dashes as Did.
  assert (Hp : part = rhead ++ c_colon :: p3 ++ idash ++ evt ++ p4 ++ []) by (unfold part; rewrite app_nil_r; reflexivity).
  assert (Ee : find [c_colon] part = size rhead) by (eapply find1_at; [reflexivity | unfold rhead; nos]).
  assert (Ea : find [c_slash] part = npos) by (apply find1_none; unfold part, rhead; nos).
  assert (Eg : find [c_lbr] part = npos) by (apply find1_none; unfold part, rhead; nos).
  pose proof (find_idash part [] Hp eq_refl) as Ei. clear Hp.
  assert (Hs : size part = M) by (unfold part, M; autorewrite with sz; lia).
  pose proof Wt as (S1 & E1 & _). pose proof We as (S2 & E2 & _).
  assert (Eguard : parse_guards (cleanup_token part) = []).
  { rewrite (cleanup_body part p1 (tgt ++ p2 ++ c_colon :: p3 ++ idash ++ evt) p4)
      by (try tok; unfold part, rhead; la).
    apply pg_none. nos. }
  unfold parse_row_right. rewrite Eguard. rewrite Ee, Ea, Eg, Ei. unfold itgt, M in *.
  destruct Hid as [Hi|Hi]; rewrite Hi in *; autorewrite with sz in Hs; rewrite Hn in *; nb; cbn [negb andb].
  - assert (Hp1 : part = rhead ++ c_colon :: p3 ++ evt ++ p4) by (unfold part; rewrite Hi; reflexivity).
    clearbody part. subst part.
    rewrite (substr_split _ [] rhead (c_colon :: p3 ++ evt ++ p4) 0 (size rhead)) by (reflexivity || la).
    rewrite (target_tok (p3 ++ evt ++ p4)) by (rewrite Hn; lia).
    rewrite wadd_small by lia.
    unfold substr_from. rewrite (substr_rest _ (rhead ++ [c_colon]) (p3 ++ evt ++ p4) (size rhead + 1) NP)
      by (try la; autorewrite with sz; lia).
    rewrite (cleanup_tok p3 evt p4) by (auto using blank_pad; autorewrite with sz; rewrite Hn; lia).
    reflexivity.
  - assert (Hp1 : part = rhead ++ c_colon :: p3 ++ c_dash :: evt ++ p4) by (unfold part; rewrite Hi; reflexivity).
    clearbody part. subst part.
    rewrite wadd_small by lia.
    unfold substr_from. rewrite (substr_rest _ (rhead ++ c_colon :: p3 ++ [c_dash]) (evt ++ p4) (size rhead + 1 + size p3 + 1) NP)
      by (try la; autorewrite with sz; lia).
    change (evt ++ p4) with ([] ++ evt ++ p4).
    rewrite (cleanup_tok [] evt p4) by (try constructor; auto using blank_pad; autorewrite with sz; rewrite Hn; lia).
    reflexivity.
Qed.

(* ... followed by a tail that starts with '/' or '[' : target and event, the other two fields as expressions *)
Lemma prr_common tailtext A G : let part := rhead ++ c_colon :: p3 ++ idash ++ evt ++ p4 ++ tailtext in
  size part < npos -> hasb c_dash tailtext = false -> hasb c_colon tailtext = false ->
  find [c_slash] part = A -> find [c_lbr] part = G -> N.min A G = M ->
  parse_row_right part =
  Transition [] itgt evt (parse_guards (cleanup_token part))
    (if negb (A =? npos) && negb (G =? npos) then cleanup_token (substr part (wadd A 1) (wsub (wsub G 1) A))
     else if negb (A =? npos) then cleanup_token (substr_from part (wadd A 1)) else []).
Proof.
  intros part Hsz Hd Hc Ea Eg Hmin. pose proof npos_val as Hn. pose proof W_val as HW. pose proof idash_dashes as Did.
  assert (Ee : find [c_colon] part = size rhead) by (eapply find1_at; [reflexivity | unfold rhead; nos]).
  pose proof (find_idash part tailtext eq_refl Hd) as Ei.
  assert (Hs : size part = M + size tailtext) by (unfold part, M; autorewrite with sz; lia).
  pose proof Wt as (S1 & E1 & _). pose proof We as (S2 & E2 & _).
  assert (Hev : 1 <= size evt) by (destruct evt; [contradiction | autorewrite with sz; lia]).
  assert (HA : (A =? npos) && (G =? npos) = false).
  { destruct (A =? npos) eqn:X1; destruct (G =? npos) eqn:X2; try reflexivity.
    apply N.eqb_eq in X1, X2. unfold M in *. lia. }
  unfold parse_row_right. rewrite Ee, Ea, Eg, Ei, HA, Hmin. unfold itgt, M in *.
  destruct Hid as [Hi|Hi]; rewrite Hi in *; autorewrite with sz in Hs, Hmin |- *.
  - assert (Hp1 : part = rhead ++ c_colon :: p3 ++ evt ++ p4 ++ tailtext) by (unfold part; rewrite Hi; reflexivity).
    clearbody part. subst part.
    replace (negb (npos =? npos)) with false by reflexivity. cbn [andb negb].
    replace (npos =? npos) with true by reflexivity.
    replace (size rhead =? npos) with false by (symmetry; apply N.eqb_neq; lia). cbn [negb andb].
    rewrite (substr_split _ [] rhead (c_colon :: p3 ++ evt ++ p4 ++ tailtext) 0 (size rhead)) by (reflexivity || la).
    rewrite (target_tok (p3 ++ evt ++ p4 ++ tailtext)) by lia.
    f_equal.
    rewrite (wadd_small 1) by lia. rewrite (wadd_small (size rhead) 1) by lia.
    replace (1 + size rhead <? size rhead + 1 + size p3 + 0 + size evt + size p4) with true by (symmetry; apply N.ltb_lt; lia).
    rewrite (wsub_small _ 1) by lia. rewrite wsub_small by lia.
    rewrite (substr_split _ (rhead ++ [c_colon]) (p3 ++ evt ++ p4) tailtext)
      by (try la; autorewrite with sz; lia).
    apply cleanup_tok; auto using blank_pad. autorewrite with sz. lia.
  - assert (Hp1 : part = rhead ++ c_colon :: p3 ++ c_dash :: evt ++ p4 ++ tailtext) by (unfold part; rewrite Hi; reflexivity).
    clearbody part. subst part.
    assert (HAM : size rhead + 1 + size p3 <= A /\ size rhead + 1 + size p3 <= G) by lia. destruct HAM as [HA1 HG1].
    replace (size rhead + 1 + size p3 =? npos) with false by (symmetry; apply N.eqb_neq; lia).
    replace (size rhead <? size rhead + 1 + size p3) with true by (symmetry; apply N.ltb_lt; lia).
    replace (size rhead + 1 + size p3 <=? A) with true by (symmetry; apply N.leb_le; lia).
    replace (size rhead + 1 + size p3 <=? G) with true by (symmetry; apply N.leb_le; lia).
    cbn [negb andb].
    replace (size rhead =? npos) with false by (symmetry; apply N.eqb_neq; lia). cbn [negb andb].
    f_equal.
    rewrite (wadd_small 1) by lia. rewrite (wadd_small _ 1) by lia.
    replace (1 + (size rhead + 1 + size p3) <? size rhead + 1 + size p3 + (1 + 0) + size evt + size p4) with true
      by (symmetry; apply N.ltb_lt; lia).
    rewrite (wsub_small _ 1) by lia. rewrite wsub_small by lia.
    rewrite (substr_split _ (rhead ++ c_colon :: p3 ++ [c_dash]) (evt ++ p4) tailtext)
      by (try la; autorewrite with sz; lia).
    change (evt ++ p4) with ([] ++ evt ++ p4).
    apply cleanup_tok; try constructor; auto using blank_pad. autorewrite with sz. lia.
Qed.

(* ---- the four tails ---- *)
Variables (p5 p6 p7 p8 p9 act g : str).
Hypothesis (B5 : blank p5) (B6 : blank p6) (B7 : blank p7) (B8 : blank p8) (B9 : blank p9).
Hypothesis (Wa : word act) (Wg : word g).
Let Ca : clean act := proj2 (proj2 Wa).
Let Cg : clean g := proj2 (proj2 Wg).
Let C5 := blank_clean p5 B5. Let C6 := blank_clean p6 B6. Let C7 := blank_clean p7 B7.
Let C8 := blank_clean p8 B8. Let C9 := blank_clean p9 B9.

Definition lhead := rhead ++ c_colon :: p3 ++ idash ++ evt ++ p4.
Lemma lhead_size : size lhead = M.
Proof. unfold lhead, M. autorewrite with sz. lia. Qed.
Ltac tok2 := first [ tok | (unfold M, lhead, rhead in *; autorewrite with sz in *; lia) ].

(* Target : Event / Actions *)
Lemma prr_act : let part := lhead ++ c_slash :: p5 ++ act ++ p6 in
  size part < npos -> parse_row_right part = Transition [] itgt evt [] act.
Proof.
  intros part Hsz. pose proof npos_val as Hn. pose proof W_val as HW. pose proof lhead_size as HM. pose proof idash_dashes as Did.
  pose proof Wt as (S1 & E1 & _). pose proof Wa as (S3 & E3 & _).
  assert (Hp : part = rhead ++ c_colon :: p3 ++ idash ++ evt ++ p4 ++ c_slash :: p5 ++ act ++ p6) by (unfold part, lhead; la).
  assert (Hs : size part = M + 1 + size p5 + size act + size p6) by (unfold part; autorewrite with sz; lia).
  assert (Ea : find [c_slash] part = M).
  { rewrite <- HM. eapply find1_at; [reflexivity | unfold lhead, rhead; nos]. }
  assert (Eg : find [c_lbr] part = npos) by (apply find1_none; unfold part, lhead, rhead; nos).
  rewrite Hp. rewrite (prr_common (c_slash :: p5 ++ act ++ p6) M npos); rewrite <- ?Hp; try nos; try assumption.
  2:{ rewrite Hn. lia. }
  replace (M =? npos) with false by (symmetry; apply N.eqb_neq; lia).
  replace (npos =? npos) with true by reflexivity. cbn [negb andb]. f_equal.
  - rewrite (cleanup_body part p1 (tgt ++ p2 ++ c_colon :: p3 ++ idash ++ evt ++ p4 ++ c_slash :: p5 ++ act) p6)
      by (try tok; rewrite Hp; unfold rhead; la).
    apply pg_none. nos.
  - rewrite wadd_small by lia. unfold substr_from.
    rewrite (substr_rest part (lhead ++ [c_slash]) (p5 ++ act ++ p6) (M + 1) npos)
      by (try (unfold part; la); autorewrite with sz; lia).
    apply cleanup_tok; tok.
Qed.

(* Target : Event [Guard] *)
Lemma prr_guard : let part := lhead ++ c_lbr :: p5 ++ g ++ p6 ++ c_rbr :: p7 in
  size part < npos -> parse_row_right part = Transition [] itgt evt g [].
Proof.
  intros part Hsz. pose proof npos_val as Hn. pose proof W_val as HW. pose proof lhead_size as HM. pose proof idash_dashes as Did.
  pose proof Wt as (S1 & E1 & _). pose proof Wg as (S3 & E3 & _).
  assert (Hp : part = rhead ++ c_colon :: p3 ++ idash ++ evt ++ p4 ++ c_lbr :: p5 ++ g ++ p6 ++ c_rbr :: p7) by (unfold part, lhead; la).
  assert (Hs : size part = M + 1 + size p5 + size g + size p6 + 1 + size p7) by (unfold part; autorewrite with sz; lia).
  assert (Eg : find [c_lbr] part = M).
  { rewrite <- HM. eapply find1_at; [reflexivity | unfold lhead, rhead; nos]. }
  assert (Ea : find [c_slash] part = npos) by (apply find1_none; unfold part, lhead, rhead; nos).
  rewrite Hp. rewrite (prr_common (c_lbr :: p5 ++ g ++ p6 ++ c_rbr :: p7) npos M); rewrite <- ?Hp; try nos; try assumption.
  2:{ rewrite Hn. lia. }
  replace (npos =? npos) with true by reflexivity. cbn [negb andb]. f_equal.
  rewrite (cleanup_body part p1 (tgt ++ p2 ++ c_colon :: p3 ++ idash ++ evt ++ p4 ++ c_lbr :: p5 ++ g ++ p6 ++ [c_rbr]) p7)
    by (try tok; rewrite Hp; unfold rhead; la).
  apply (pg_some _ (tgt ++ p2 ++ c_colon :: p3 ++ idash ++ evt ++ p4) p5 g p6 []); try tok2; try nos; try la.
Qed.

(* Target : Event / Actions [Guard] *)
Lemma prr_act_guard : let part := lhead ++ c_slash :: p5 ++ act ++ p6 ++ c_lbr :: p7 ++ g ++ p8 ++ c_rbr :: p9 in
  size part < npos -> parse_row_right part = Transition [] itgt evt g act.
Proof.
  intros part Hsz. pose proof npos_val as Hn. pose proof W_val as HW. pose proof lhead_size as HM. pose proof idash_dashes as Did.
  pose proof Wt as (S1 & E1 & _). pose proof Wg as (S3 & E3 & _). pose proof Wa as (S4 & E4 & _).
  assert (Hp : part = rhead ++ c_colon :: p3 ++ idash ++ evt ++ p4 ++ c_slash :: p5 ++ act ++ p6 ++ c_lbr :: p7 ++ g ++ p8 ++ c_rbr :: p9)
    by (unfold part, lhead; la).
  assert (Hs : size part = M + 1 + size p5 + size act + size p6 + 1 + size p7 + size g + size p8 + 1 + size p9)
    by (unfold part; autorewrite with sz; lia).
  assert (Ea : find [c_slash] part = M).
  { rewrite <- HM. eapply find1_at; [reflexivity | unfold lhead, rhead; nos]. }
  assert (Eg : find [c_lbr] part = M + 1 + size p5 + size act + size p6).
  { rewrite (find1_at c_lbr part (lhead ++ c_slash :: p5 ++ act ++ p6) (p7 ++ g ++ p8 ++ c_rbr :: p9))
      by (try (unfold part; la); unfold lhead, rhead; nos).
    autorewrite with sz. rewrite HM. lia. }
  rewrite Hp.
  rewrite (prr_common (c_slash :: p5 ++ act ++ p6 ++ c_lbr :: p7 ++ g ++ p8 ++ c_rbr :: p9) M (M + 1 + size p5 + size act + size p6));
    rewrite <- ?Hp; try nos; try assumption.
  2:{ lia. }
  replace (M =? npos) with false by (symmetry; apply N.eqb_neq; lia).
  replace (M + 1 + size p5 + size act + size p6 =? npos) with false by (symmetry; apply N.eqb_neq; lia).
  cbn [negb andb]. f_equal.
  - rewrite (cleanup_body part p1
               (tgt ++ p2 ++ c_colon :: p3 ++ idash ++ evt ++ p4 ++ c_slash :: p5 ++ act ++ p6 ++ c_lbr :: p7 ++ g ++ p8 ++ [c_rbr]) p9)
      by (try tok; rewrite Hp; unfold rhead; la).
    apply (pg_some _ (tgt ++ p2 ++ c_colon :: p3 ++ idash ++ evt ++ p4 ++ c_slash :: p5 ++ act ++ p6) p7 g p8 []);
      try tok2; try nos; try la.
  - rewrite wadd_small by lia. rewrite (wsub_small _ 1) by lia. rewrite wsub_small by lia.
    rewrite (substr_split part (lhead ++ [c_slash]) (p5 ++ act ++ p6) (c_lbr :: p7 ++ g ++ p8 ++ c_rbr :: p9))
      by (try (unfold part; la); autorewrite with sz; lia).
    apply cleanup_tok; tok.
Qed.

(* Target : Event [Guard] / Actions *)
Lemma prr_guard_act : let part := lhead ++ c_lbr :: p5 ++ g ++ p6 ++ c_rbr :: p7 ++ c_slash :: p8 ++ act ++ p9 in
  size part < npos -> parse_row_right part = Transition [] itgt evt g act.
Proof.
  intros part Hsz. pose proof npos_val as Hn. pose proof W_val as HW. pose proof lhead_size as HM. pose proof idash_dashes as Did.
  pose proof Wt as (S1 & E1 & _). pose proof Wg as (S3 & E3 & _). pose proof Wa as (S4 & E4 & _).
  assert (Hp : part = rhead ++ c_colon :: p3 ++ idash ++ evt ++ p4 ++ c_lbr :: p5 ++ g ++ p6 ++ c_rbr :: p7 ++ c_slash :: p8 ++ act ++ p9)
    by (unfold part, lhead; la).
  assert (Hs : size part = M + 1 + size p5 + size g + size p6 + 1 + size p7 + 1 + size p8 + size act + size p9)
    by (unfold part; autorewrite with sz; lia).
  assert (Eg : find [c_lbr] part = M).
  { rewrite <- HM. eapply find1_at; [reflexivity | unfold lhead, rhead; nos]. }
  assert (Ea : find [c_slash] part = M + 1 + size p5 + size g + size p6 + 1 + size p7).
  { rewrite (find1_at c_slash part (lhead ++ c_lbr :: p5 ++ g ++ p6 ++ c_rbr :: p7) (p8 ++ act ++ p9))
      by (try (unfold part; la); unfold lhead, rhead; nos).
    autorewrite with sz. rewrite HM. lia. }
  rewrite Hp.
  rewrite (prr_common (c_lbr :: p5 ++ g ++ p6 ++ c_rbr :: p7 ++ c_slash :: p8 ++ act ++ p9)
             (M + 1 + size p5 + size g + size p6 + 1 + size p7) M);
    rewrite <- ?Hp; try nos; try assumption.
  2:{ lia. }
  replace (M =? npos) with false by (symmetry; apply N.eqb_neq; lia).
  replace (M + 1 + size p5 + size g + size p6 + 1 + size p7 =? npos) with false by (symmetry; apply N.eqb_neq; lia).
  cbn [negb andb]. f_equal.
  - rewrite (cleanup_body part p1
               (tgt ++ p2 ++ c_colon :: p3 ++ idash ++ evt ++ p4 ++ c_lbr :: p5 ++ g ++ p6 ++ c_rbr :: p7 ++ c_slash :: p8 ++ act) p9)
      by (try tok; rewrite Hp; unfold rhead; la).
    apply (pg_some _ (tgt ++ p2 ++ c_colon :: p3 ++ idash ++ evt ++ p4) p5 g p6 (p7 ++ c_slash :: p8 ++ act));
      try tok2; try nos; try la.
  - rewrite wadd_small by lia. rewrite (wsub_small _ 1) by (unfold M in *; lia). rewrite wsub_wrap by lia.
    rewrite (substr_rest part (lhead ++ c_lbr :: p5 ++ g ++ p6 ++ c_rbr :: p7 ++ [c_slash]) (p8 ++ act ++ p9))
      by (try (unfold part; la); autorewrite with sz; lia).
    apply cleanup_tok; tok.
Qed.

End Right.

(* ==== whole lines ==== *)
Section Row.
Variables (lead src b0 d : str).
Hypothesis (Bl : blank lead) (Ws : word src) (B0 : blank b0) (Dd : dashes d).

Definition lineof (right:str) : str := lead ++ src ++ b0 ++ d ++ c_dash :: c_gt :: right.

Lemma arrow_at right : find c_arrow (lineof right) = size lead + size src + size b0 + size d.
Proof.
  pose proof Ws as (_ & _ & Cs). pose proof (blank_clean b0 B0) as Cb. pose proof (blank_clean lead Bl) as Cl.
  rewrite (find_arrow (lineof right) (lead ++ src ++ b0) d right) by (try (unfold lineof; la); try assumption; nos).
  autorewrite with sz. lia.
Qed.

Lemma left_is_source right : size (lineof right) < npos ->
  cleanup_token (substr (lineof right) 0 (find c_arrow (lineof right))) = src.
Proof.
  intros Hsz. pose proof Ws as (S1 & E1 & _). rewrite arrow_at.
  rewrite (substr_split (lineof right) [] (lead ++ src ++ b0 ++ d) (c_dash :: c_gt :: right))
    by (try (unfold lineof; la); autorewrite with sz; lia).
  apply cleanup_tok; try assumption; try (apply blank_pad; assumption).
  - apply all_pad_app; [apply blank_pad; assumption | apply dashes_pad; assumption].
  - unfold lineof in Hsz. autorewrite with sz in *. lia.
Qed.

Lemma right_is_rest right : size (lineof right) < npos ->
  substr_from (lineof right) (wadd (find c_arrow (lineof right)) 2) = right.
Proof.
  intros Hsz. pose proof npos_val as Hn. pose proof W_val as HW. rewrite arrow_at.
  assert (Hs : size (lineof right) = size lead + size src + size b0 + size d + 2 + size right) by (unfold lineof; autorewrite with sz; lia).
  rewrite wadd_small by lia. unfold substr_from.
  apply (substr_rest _ (lead ++ src ++ b0 ++ d ++ [c_dash; c_gt])); try (unfold lineof; la); autorewrite with sz; lia.
Qed.

(* Source -> Target : ...   (the line has a colon: the right part decides the other four fields) *)
Lemma parse_row_with_event right : size (lineof right) < npos -> hasb c_colon right = true ->
  parse_row (lineof right) =
  let r := parse_row_right right in Transition src (t_target r) (t_event r) (t_guard r) (t_action r).
Proof.
  intros Hsz Hc. pose proof npos_val as Hn.
  assert (Ecol : (find [c_colon] (lineof right) =? npos) = false).
  { apply N.eqb_neq. rewrite find_unfold.
    assert (G : forall s i, hasb c_colon s = true -> i + size s < npos -> find_at [c_colon] s i <> npos).
    { induction s as [|x s IH]; intros i H Hb; [discriminate|]. cbn [find_at is_prefix].
      destruct (Nat.eqb c_colon x) eqn:E; cbn [andb].
      - rewrite Hn in *. rewrite size_cons in Hb. lia.
      - cbn [hasb] in H. rewrite E in H. cbn [orb] in H. apply IH; [exact H|]. rewrite size_cons in Hb. lia. }
    apply G; [|lia]. unfold lineof. rewrite !hasb_app. cbn [hasb]. rewrite Hc. rewrite !Bool.orb_true_r. reflexivity. }
  unfold parse_row. rewrite Ecol. cbn [negb]. rewrite left_is_source, right_is_rest by assumption. reflexivity.
Qed.

(* Source -> Target *)
Lemma parse_row_plain p1 tgt p2 : blank p1 -> blank p2 -> word tgt ->
  size (lineof (p1 ++ tgt ++ p2)) < npos ->
  parse_row (lineof (p1 ++ tgt ++ p2)) = Transition src tgt [] [] [].
Proof.
  intros B1 B2 (S1 & E1 & Ct) Hsz. pose proof npos_val as Hn. pose proof Ws as (_ & _ & Cs).
  pose proof (blank_clean b0 B0) as Cb0. pose proof (blank_clean lead Bl) as Cl. pose proof (blank_clean p1 B1) as C1. pose proof (blank_clean p2 B2) as C2.
  assert (Ecol : find [c_colon] (lineof (p1 ++ tgt ++ p2)) = npos) by (apply find1_none; unfold lineof; nos).
  assert (Earr : (find c_arrow (lineof (p1 ++ tgt ++ p2)) =? npos) = false).
  { apply N.eqb_neq. rewrite arrow_at. unfold lineof in Hsz. autorewrite with sz in Hsz. lia. }
  unfold parse_row. rewrite Ecol. replace (npos =? npos) with true by reflexivity. cbn [negb].
  rewrite Earr. cbn [negb]. rewrite left_is_source, right_is_rest by assumption.
  rewrite cleanup_tok; auto using blank_pad. unfold lineof in Hsz. autorewrite with sz in *. lia.
Qed.
End Row.

(* ==== the grammar of transition lines, its renderer, and the theorem ==== *)
Inductive tail :=
| TNone
| TAct (p5 act p6 : str)                               (*  / Actions            *)
| TGuard (p5 g p6 p7 : str)                            (*  [Guard]              *)
| TActGuard (p5 act p6 p7 g p8 p9 : str)               (*  / Actions [Guard]    *)
| TGuardAct (p5 g p6 p7 p8 act p9 : str).              (*  [Guard] / Actions    *)

Definition render_tail (t:tail) : str :=
  match t with
  | TNone => []
  | TAct p5 a p6 => c_slash :: p5 ++ a ++ p6
  | TGuard p5 g p6 p7 => c_lbr :: p5 ++ g ++ p6 ++ c_rbr :: p7
  | TActGuard p5 a p6 p7 g p8 p9 => c_slash :: p5 ++ a ++ p6 ++ c_lbr :: p7 ++ g ++ p8 ++ c_rbr :: p9
  | TGuardAct p5 g p6 p7 p8 a p9 => c_lbr :: p5 ++ g ++ p6 ++ c_rbr :: p7 ++ c_slash :: p8 ++ a ++ p9
  end.
Definition tail_guard (t:tail) : str :=
  match t with TGuard _ g _ _ | TActGuard _ _ _ _ g _ _ | TGuardAct _ g _ _ _ _ _ => g | _ => [] end.
Definition tail_action (t:tail) : str :=
  match t with TAct _ a _ | TActGuard _ a _ _ _ _ _ | TGuardAct _ _ _ _ _ a _ => a | _ => [] end.
Definition wf_tail (t:tail) : Prop :=
  match t with
  | TNone => True
  | TAct p5 a p6 => blank p5 /\ word a /\ blank p6
  | TGuard p5 g p6 p7 => blank p5 /\ word g /\ blank p6 /\ blank p7
  | TActGuard p5 a p6 p7 g p8 p9 => blank p5 /\ word a /\ blank p6 /\ blank p7 /\ word g /\ blank p8 /\ blank p9
  | TGuardAct p5 g p6 p7 p8 a p9 => blank p5 /\ word g /\ blank p6 /\ blank p7 /\ blank p8 /\ word a /\ blank p9
  end.

(* lead Source b0 d-> p1 Target p2 [ : p3 [-]Event p4 tail ]      (idash = "-" marks an internal transition line) *)
Record pline := PLine { l_lead : str; l_src : str; l_b0 : str; l_d : str; l_p1 : str; l_tgt : str; l_p2 : str;
                        l_ev : option (str * str * str * str * tail) }.
Definition render (l:pline) : str :=
  l_lead l ++ l_src l ++ l_b0 l ++ l_d l ++ c_dash :: c_gt :: l_p1 l ++ l_tgt l ++ l_p2 l ++
  match l_ev l with
  | None => []
  | Some (p3, idash, evt, p4, t) => c_colon :: p3 ++ idash ++ evt ++ p4 ++ render_tail t
  end.
Definition fields (l:pline) : transition :=
  match l_ev l with
  | None => Transition (l_src l) (l_tgt l) [] [] []
  | Some (_, idash, evt, _, t) =>
      Transition (l_src l) (match idash with [] => l_tgt l | _ => [] end) evt (tail_guard t) (tail_action t)
  end.
Definition wf_line (l:pline) : Prop :=
  blank (l_lead l) /\ word (l_src l) /\ blank (l_b0 l) /\ dashes (l_d l) /\ blank (l_p1 l) /\ word (l_tgt l) /\ blank (l_p2 l) /\
  match l_ev l with
  | None => True
  | Some (p3, idash, evt, p4, t) => blank p3 /\ (idash = [] \/ idash = [c_dash]) /\ word evt /\ blank p4 /\ wf_tail t
  end.

Theorem parse_row_exact l : wf_line l -> size (render l) < npos -> parse_row (render l) = fields l.
Proof.
  destruct l as [lead src b0 d p1 tgt p2 ev]. unfold wf_line, render, fields. cbn [l_lead l_src l_b0 l_d l_p1 l_tgt l_p2 l_ev].
  intros (Bl & Ws & B0 & Dd & B1 & Wt & B2 & Hev) Hsz.
  destruct ev as [[[[[p3 idash] evt] p4] t]|].
  2:{ rewrite app_nil_r in *. apply (parse_row_plain lead src b0 d Bl Ws B0 Dd p1 tgt p2 B1 B2 Wt). exact Hsz. }
  destruct Hev as (B3 & Hid & We & B4 & Ht).
  set (right := p1 ++ tgt ++ p2 ++ c_colon :: p3 ++ idash ++ evt ++ p4 ++ render_tail t) in *.
  change (lead ++ src ++ b0 ++ d ++ c_dash :: c_gt :: right) with (lineof lead src b0 d right) in *.
  rewrite (parse_row_with_event lead src b0 d Bl Ws B0 Dd right Hsz).
  2:{ unfold right. rewrite !hasb_app. cbn [hasb]. rewrite Nat.eqb_refl. cbn [orb]. rewrite !Bool.orb_true_r. reflexivity. }
  assert (Hr : size right < npos) by (unfold lineof in Hsz; autorewrite with sz in Hsz; lia).
  cbv zeta.
  assert (E : parse_row_right right = Transition [] (itgt tgt idash) evt (tail_guard t) (tail_action t));
    [|rewrite E; reflexivity].
  destruct t as [|p5 a p6|p5 g p6 p7|p5 a p6 p7 g p8 p9|p5 g p6 p7 p8 a p9]; cbn [render_tail tail_guard tail_action wf_tail] in *.
  - replace right with (rhead p1 tgt p2 ++ c_colon :: p3 ++ idash ++ evt ++ p4) in * by (unfold right, rhead; rewrite app_nil_r; la).
    apply (prr_none p1 tgt p2 p3 evt p4 idash); assumption.
  - destruct Ht as (B5 & Wa & B6).
    replace right with (lhead p1 tgt p2 p3 evt p4 idash ++ c_slash :: p5 ++ a ++ p6) in * by (unfold right, lhead, rhead; la).
    apply (prr_act p1 tgt p2 p3 evt p4 idash); assumption.
  - destruct Ht as (B5 & Wg & B6 & B7).
    replace right with (lhead p1 tgt p2 p3 evt p4 idash ++ c_lbr :: p5 ++ g ++ p6 ++ c_rbr :: p7) in * by (unfold right, lhead, rhead; la).
    apply (prr_guard p1 tgt p2 p3 evt p4 idash); assumption.
  - destruct Ht as (B5 & Wa & B6 & B7 & Wg & B8 & B9).
    replace right with (lhead p1 tgt p2 p3 evt p4 idash ++ c_slash :: p5 ++ a ++ p6 ++ c_lbr :: p7 ++ g ++ p8 ++ c_rbr :: p9) in *
      by (unfold right, lhead, rhead; la).
    apply (prr_act_guard p1 tgt p2 p3 evt p4 idash); assumption.
  - destruct Ht as (B5 & Wg & B6 & B7 & B8 & Wa & B9).
    replace right with (lhead p1 tgt p2 p3 evt p4 idash ++ c_lbr :: p5 ++ g ++ p6 ++ c_rbr :: p7 ++ c_slash :: p8 ++ a ++ p9) in *
      by (unfold right, lhead, rhead; la).
    apply (prr_guard_act p1 tgt p2 p3 evt p4 idash); assumption.
Qed.

(* the hypotheses are met by an ordinary line, with a Kleene event, an action list and a guard expression:
      "Playing   --->  Paused : * / log, stop_playback   [ !is_last && ok ]  "                                  *)
Local Close Scope N_scope.
Local Open Scope nat_scope.
Definition ex_line : pline :=
  PLine [32;32] [80;108;97;121;105;110;103] [32;32;32] [45;45] [32;32] [80;97;117;115;101;100] [32]
        (Some ([32], [], [42], [32], TActGuard [32] [108;111;103;44;32;115;116;111;112] [32;32;32] [32] [33;105;115;95;108;97;115;116;32;38;38;32;111;107] [32] [32;32])).
Example ex_line_ok : wf_line ex_line /\ (size (render ex_line) < npos)%N /\
  parse_row (render ex_line) = Transition [80;108;97;121;105;110;103] [80;97;117;115;101;100] [42]
                                          [33;105;115;95;108;97;115;116;32;38;38;32;111;107] [108;111;103;44;32;115;116;111;112].
Proof.
  split; [|split; [reflexivity | vm_compute; reflexivity]].
  unfold wf_line, word, blank, dashes, starts, ends, clean, not_pad. cbn.
  repeat split; repeat constructor; auto.
Qed.

(* ==== the action list: parse_action<k> returns the k-th comma separated action, trimmed ==== *)
Local Open Scope N_scope.
Lemma comma_free_hasb p : comma_free p -> hasb c_comma p = false.
Proof.
  unfold comma_free. induction p as [|x p IH]; cbn [count_char hasb]; intros H; [reflexivity|].
  rewrite Nat.eqb_sym. destruct (Nat.eqb x c_comma); [discriminate|]. cbn [orb]. apply IH. exact H.
Qed.

Lemma find_from_app c pre s : find_from [c] (pre ++ s) (size pre) = find_at [c] s (size pre).
Proof.
  unfold find_from. autorewrite with sz.
  replace (size pre + size s <? size pre) with false by (symmetry; apply N.ltb_ge; lia).
  replace (N.to_nat (size pre)) with (length pre) by (unfold size; lia). rewrite skipn_app_exact. reflexivity.
Qed.

Section Actions.
Variables (b w b' : str).
Hypothesis (Bb : blank b) (Bb' : blank b') (Sw : starts w) (Ew : ends w).

Lemma parse_action_loop_exact : forall parts pre fuel cpt k,
  nth_error parts k = Some (b ++ w ++ b') -> Forall comma_free parts -> (length parts <= fuel)%nat ->
  size (pre ++ join_commas parts) < npos ->
  parse_action_loop fuel (pre ++ join_commas parts) (size pre) cpt (cpt + k) = w.
Proof.
  pose proof npos_val as Hn. pose proof W_val as HW.
  induction parts as [|p rest IH]; intros pre fuel cpt k Hk Hcf Hfuel Hsz; [destruct k; discriminate|].
  inversion Hcf as [|? ? Hp Hrest]; subst. pose proof (comma_free_hasb p Hp) as Hpc.
  destruct fuel as [|f]; [cbn in Hfuel; lia|]. cbn [parse_action_loop].
  destruct rest as [|q rest'].
  - (* the last part *)
    cbn [join_commas] in *. rewrite find_from_app, find_at1_none by exact Hpc.
    destruct k as [|k]; [|destruct k; discriminate]. cbn in Hk. inversion Hk; subst p.
    rewrite Nat.add_0_r, Nat.eqb_refl.
    autorewrite with sz in Hsz.
    rewrite (substr_rest _ pre (b ++ w ++ b')) by (try reflexivity; autorewrite with sz; rewrite wsub_small by lia; lia).
    apply cleanup_tok; auto using blank_pad. autorewrite with sz. lia.
  - change (join_commas (p :: q :: rest')) with (p ++ c_comma :: join_commas (q :: rest')) in *.
    assert (Epos : find_from [c_comma] (pre ++ p ++ c_comma :: join_commas (q :: rest')) (size pre) = size pre + size p).
    { rewrite find_from_app, find_at1_skip by exact Hpc. apply find_at1_here. }
    rewrite Epos. autorewrite with sz in Hsz.
    destruct k as [|k].
    + cbn in Hk. inversion Hk; subst p. rewrite Nat.add_0_r, Nat.eqb_refl.
      rewrite wsub_small by lia.
      rewrite (substr_split _ pre (b ++ w ++ b') (c_comma :: join_commas (q :: rest'))) by (try reflexivity; lia).
      apply cleanup_tok; auto using blank_pad. autorewrite with sz in *. lia.
    + replace (Nat.eqb cpt (cpt + S k)) with false by (symmetry; apply Nat.eqb_neq; lia).
      replace (size pre + size p =? npos) with false by (symmetry; apply N.eqb_neq; lia).
      rewrite wadd_small by lia.
      replace (pre ++ p ++ c_comma :: join_commas (q :: rest')) with ((pre ++ p ++ [c_comma]) ++ join_commas (q :: rest')) by la.
      replace (size pre + size p + 1) with (size (pre ++ p ++ [c_comma])) by (autorewrite with sz; lia).
      replace (cpt + S k)%nat with (S cpt + k)%nat by lia.
      apply IH; auto.
      * cbn [length] in *. lia.
      * autorewrite with sz. lia.
Qed.
End Actions.

Theorem parse_action_exact parts k b w b' :
  nth_error parts k = Some (b ++ w ++ b') -> blank b -> blank b' -> starts w -> ends w ->
  Forall comma_free parts -> size (join_commas parts) < npos ->
  parse_action k (join_commas parts) = w.
Proof.
  intros Hk Bb Bb' Sw Ew Hcf Hsz. unfold parse_action.
  change (join_commas parts) with ([] ++ join_commas parts) at 2. change 0 with (size []).
  change k with (0 + k)%nat at 1.
  apply (parse_action_loop_exact b w b' Bb Bb' Sw Ew parts [] _ 0%nat k Hk Hcf); [|exact Hsz].
  (* the fuel of the transcription (one more than the length of the text) covers the number of parts *)
  clear -Hcf. assert (G : forall ps, (length ps <= S (length (join_commas ps)))%nat).
  { induction ps as [|p ps IH]; [cbn; lia|]. destruct ps as [|q r]; [cbn; lia|].
    rewrite join_commas_cons, app_length. cbn [length] in *. lia. }
  apply G.
Qed.
