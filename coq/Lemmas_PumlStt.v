(* Lemmas_PumlStt.v - C14: detail::parse_stt<t> (transcribed in Puml.v, compared with the library's own function on
   generated descriptions by harness/pumlcheck.py) returns parse_row of exactly the t-th transition line of a whole
   description, whatever other lines surround it: a line counts iff it contains "->" and no "[*]"; initial lines,
   terminate lines, entry / exit / flag lines, separators and empty lines are skipped and never merge with a neighbour.
   For every number of lines, every line length, with or without a final line end. *)
From Msm Require Import Base Puml Lemmas_Puml Lemmas_PumlRow.
From Coq Require Import NArith Lia ZifyBool ZifyN List.
Import ListNotations.
Ltac Zify.zify_post_hook ::= Z.div_mod_to_equations.
Local Open Scope N_scope.
Notation size := Puml.size (only parsing).

(* first index at which pat occurs *)
Fixpoint idxp (pat s:str) : option nat :=
  if is_prefix pat s then Some 0%nat
  else match s with [] => None | _ :: t => option_map S (idxp pat t) end.

Lemma find_at_idxp pat : forall s i, find_at pat s i = match idxp pat s with Some k => i + N.of_nat k | None => npos end.
Proof.
  induction s as [|x s IH]; intros i; cbn [find_at idxp].
  - destruct (is_prefix pat []); [f_equal; lia | reflexivity].
  - destruct (is_prefix pat (x :: s)); [lia|]. rewrite IH. destruct (idxp pat s); cbn [option_map]; [lia | reflexivity].
Qed.

Lemma is_prefix_length pat : forall s, is_prefix pat s = true -> (length pat <= length s)%nat.
Proof.
  induction pat as [|a pat IH]; intros s H; cbn; [lia|]. destruct s as [|x s]; [discriminate|].
  cbn in H. apply andb_prop in H. destruct H as [_ H]. apply IH in H. cbn. lia.
Qed.
Lemma idxp_lt pat : pat <> [] -> forall s k, idxp pat s = Some k -> (k < length s)%nat.
Proof.
  intros Hp. induction s as [|x s IH]; intros k H; cbn [idxp] in H.
  - destruct (is_prefix pat []) eqn:E; [|discriminate]. apply is_prefix_length in E. destruct pat; [contradiction|]. cbn in E. lia.
  - destruct (is_prefix pat (x :: s)); [inversion H; cbn; lia|].
    destruct (idxp pat s) as [k'|]; [|discriminate]. cbn in H. inversion H. specialize (IH k' eq_refl). cbn. lia.
Qed.

(* a pattern without a line end does not see across the end of a line *)
Lemma is_prefix_line pat : hasb c_nl pat = false -> pat <> [] -> forall l rest,
  is_prefix pat (l ++ c_nl :: rest) = is_prefix pat l.
Proof.
  induction pat as [|a pat IH]; intros Hn Hne l rest; [contradiction|].
  cbn [hasb] in Hn. apply Bool.orb_false_elim in Hn. destruct Hn as [Ha Hn].
  destruct l as [|x l]; cbn [app is_prefix].
  - rewrite Nat.eqb_sym, Ha. reflexivity.
  - destruct pat as [|b pat]; [reflexivity|]. rewrite IH by (auto; discriminate). reflexivity.
Qed.

Lemma idxp_line pat : hasb c_nl pat = false -> pat <> [] -> forall l rest,
  idxp pat (l ++ c_nl :: rest) =
  match idxp pat l with Some k => Some k | None => option_map (fun k => (length l + 1 + k)%nat) (idxp pat rest) end.
Proof.
  intros Hn Hne. induction l as [|x l IH]; intros rest.
  - pose proof (is_prefix_line pat Hn Hne [] rest) as E0. cbn [app] in E0.
    cbn [app idxp length]. rewrite E0.
    destruct (is_prefix pat []) eqn:E.
    + apply is_prefix_length in E. destruct pat; [contradiction|]. cbn in E. lia.
    + destruct (idxp pat rest); reflexivity.
  - pose proof (is_prefix_line pat Hn Hne (x :: l) rest) as E0. cbn [app] in E0.
    cbn [app]. cbn [idxp]. rewrite E0.
    destruct (is_prefix pat (x :: l)); [reflexivity|]. rewrite IH.
    destruct (idxp pat l); [reflexivity|]. destruct (idxp pat rest); cbn [option_map length]; [f_equal; lia | reflexivity].
Qed.

Lemma find_from_app_gen pat pre s : find_from pat (pre ++ s) (size pre) = find_at pat s (size pre).
Proof.
  unfold find_from. autorewrite with sz.
  replace (size pre + size s <? size pre) with false by (symmetry; apply N.ltb_ge; lia).
  replace (N.to_nat (size pre)) with (length pre) by (unfold size; lia). rewrite skipn_app_exact. reflexivity.
Qed.

(* ---- descriptions ---- *)
Fixpoint join_nl (lines:list str) : str :=
  match lines with
  | [] => []
  | [l] => l
  | l :: rest => l ++ c_nl :: join_nl rest
  end.
Lemma join_nl_cons l q r : join_nl (l :: q :: r) = l ++ c_nl :: join_nl (q :: r).
Proof. reflexivity. Qed.

Definition contains (pat l:str) : bool := match idxp pat l with Some _ => true | None => false end.
(* the lines parse_stt counts: an arrow and no "[*]" *)
Definition is_transb (l:str) : bool := negb (contains c_initstar l) && contains c_arrow l.
Definition line_ok (l:str) : Prop := hasb c_nl l = false.

Lemma arrow_nl : hasb c_nl c_arrow = false. Proof. reflexivity. Qed.
Lemma init_nl : hasb c_nl c_initstar = false. Proof. reflexivity. Qed.

Lemma stt_loop_exact row : forall lines pre fuel cpt k,
  Forall line_ok lines -> (length lines <= fuel)%nat -> size (pre ++ join_nl lines) < npos ->
  nth_error (filter is_transb lines) k = Some row ->
  parse_stt_loop fuel (pre ++ join_nl lines) (size pre) cpt (cpt + k) = parse_row row.
Proof.
  pose proof npos_val as Hn. pose proof W_val as HW.
  induction lines as [|l rest IH]; intros pre fuel cpt k Hok Hfuel Hsz Hk; [destruct k; discriminate|].
  inversion Hok as [|? ? Hl Hrest]; subst. unfold line_ok in Hl.
  destruct fuel as [|f]; [cbn in Hfuel; lia|]. cbn [parse_stt_loop].
  rewrite !find_from_app_gen.
  destruct rest as [|q rest'].
  - (* the last line: no line end behind it *)
    cbn [join_nl] in *. autorewrite with sz in Hsz.
    rewrite (find_at1_none c_nl l _ Hl). rewrite !find_at_idxp.
    cbn [filter] in Hk. unfold is_transb, contains in Hk.
    destruct (idxp c_initstar l) as [ki|] eqn:Ei.
    + cbn [negb andb] in Hk. destruct k; discriminate.
    + destruct (idxp c_arrow l) as [ka|] eqn:Ea; cbn [negb andb] in Hk; [|destruct k; discriminate].
      destruct k as [|k]; [|destruct k; discriminate]. cbn in Hk. inversion Hk; subst row.
      apply idxp_lt in Ea; [|discriminate].
      replace (npos <? npos) with false by reflexivity. cbn [orb].
      replace (npos <=? size pre + N.of_nat ka) with false by (symmetry; apply N.leb_gt; unfold size in *; lia).
      rewrite Nat.add_0_r, Nat.eqb_refl.
      rewrite (substr_rest _ pre l) by (try reflexivity; rewrite wsub_small by lia; lia). reflexivity.
  - rewrite join_nl_cons in *. autorewrite with sz in Hsz.
    assert (Epos : find_at [c_nl] (l ++ c_nl :: join_nl (q :: rest')) (size pre) = size pre + size l).
    { rewrite find_at1_skip by exact Hl. apply find_at1_here. }
    rewrite Epos. rewrite !find_at_idxp. rewrite (idxp_line c_arrow arrow_nl ltac:(discriminate)).
    rewrite (idxp_line c_initstar init_nl ltac:(discriminate)).
    cbn [filter] in Hk. unfold is_transb, contains in Hk.
    assert (Hrec : forall cpt' k', nth_error (filter is_transb (q :: rest')) k' = Some row ->
              parse_stt_loop f (pre ++ l ++ c_nl :: join_nl (q :: rest')) (wadd (size pre + size l) 1) cpt' (cpt' + k') = parse_row row).
    { intros cpt' k' Hk'. rewrite wadd_small by lia.
      replace (pre ++ l ++ c_nl :: join_nl (q :: rest')) with ((pre ++ l ++ [c_nl]) ++ join_nl (q :: rest')) by la.
      replace (size pre + size l + 1) with (size (pre ++ l ++ [c_nl])) by (autorewrite with sz; lia).
      apply IH; auto; [cbn [length] in *; lia | autorewrite with sz; lia]. }
    replace (size pre + size l =? npos) with false by (symmetry; apply N.eqb_neq; lia).
    (* where a later occurrence lies: behind this line's end *)
    assert (Later : forall pat, pat <> [] ->
              match option_map (fun k0 => (length l + 1 + k0)%nat) (idxp pat (join_nl (q :: rest'))) with
              | Some k0 => size pre + size l < size pre + N.of_nat k0 /\ size pre + N.of_nat k0 < npos
              | None => True end).
    { intros pat Hp. destruct (idxp pat (join_nl (q :: rest'))) as [k0|] eqn:E0; cbn [option_map]; [|exact I].
      apply idxp_lt in E0; [|exact Hp]. unfold size in *. lia. }
    destruct (idxp c_initstar l) as [ki|] eqn:Ei.
    + (* an initial / terminate line: skipped *)
      cbn [negb andb] in Hk. apply idxp_lt in Ei; [|discriminate].
      replace (size pre + N.of_nat ki <? size pre + size l) with true by (symmetry; apply N.ltb_lt; unfold size in *; lia).
      cbn [orb]. apply Hrec. exact Hk.
    + assert (Hi : (match option_map (fun k0 => (length l + 1 + k0)%nat) (idxp c_initstar (join_nl (q :: rest'))) with
                    | Some k0 => size pre + N.of_nat k0 | None => npos end <? size pre + size l) = false).
      { pose proof (Later c_initstar ltac:(discriminate)) as HL.
        destruct (option_map _ (idxp c_initstar (join_nl (q :: rest')))); apply N.ltb_ge; lia. }
      rewrite Hi. cbn [orb].
      destruct (idxp c_arrow l) as [ka|] eqn:Ea; cbn [negb andb] in Hk.
      * (* a transition line *)
        apply idxp_lt in Ea; [|discriminate].
        replace (size pre + size l <=? size pre + N.of_nat ka) with false by (symmetry; apply N.leb_gt; unfold size in *; lia).
        destruct k as [|k].
        -- cbn in Hk. inversion Hk; subst row. rewrite Nat.add_0_r, Nat.eqb_refl.
           rewrite wsub_small by lia.
           rewrite (substr_split _ pre l (c_nl :: join_nl (q :: rest'))) by (try reflexivity; lia). reflexivity.
        -- replace (Nat.eqb cpt (cpt + S k)) with false by (symmetry; apply Nat.eqb_neq; lia).
           replace (cpt + S k)%nat with (S cpt + k)%nat by lia. apply Hrec. exact Hk.
      * (* no arrow in this line: skipped *)
        assert (Ha : (size pre + size l <=? match option_map (fun k0 => (length l + 1 + k0)%nat) (idxp c_arrow (join_nl (q :: rest'))) with
                    | Some k0 => size pre + N.of_nat k0 | None => npos end) = true).
        { pose proof (Later c_arrow ltac:(discriminate)) as HL.
          destruct (option_map _ (idxp c_arrow (join_nl (q :: rest')))); apply N.leb_le; lia. }
        rewrite Ha. apply Hrec. exact Hk.
Qed.

Theorem parse_stt_exact lines t row :
  Forall line_ok lines -> size (join_nl lines) < npos ->
  nth_error (filter is_transb lines) t = Some row ->
  parse_stt t (join_nl lines) = parse_row row.
Proof.
  intros Hok Hsz Hk. unfold parse_stt.
  change (join_nl lines) with ([] ++ join_nl lines) at 2. change 0 with (size []). change t with (0 + t)%nat at 1.
  apply stt_loop_exact; auto.
  clear. assert (G : forall ls, (length ls <= S (length (join_nl ls)))%nat).
  { induction ls as [|p ps IH]; [cbn; lia|]. destruct ps as [|q r]; [cbn; lia|].
    rewrite join_nl_cons, app_length. cbn [length] in *. lia. }
  apply G.
Qed.
