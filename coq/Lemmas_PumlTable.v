(* Lemmas_PumlTable.v - C14: the number of rows create_transition_table builds for a PlantUML description,
   count_transitions - count_inits - count_terminates, is the number of its transition lines - the lines parse_stt<t>
   selects.  Per line: an arrow without "[*]" (transition line), an arrow behind the "[*]" (initial line) or an arrow in
   front of it (terminate line), never two of them (one arrow, one "[*]" per line). *)
From Msm Require Import Base Puml Lemmas_Puml Lemmas_PumlRow Lemmas_PumlStt Lemmas_PumlCount Lemmas_PumlTerm Lemmas_PumlTrans.
From Coq Require Import NArith Lia ZifyBool ZifyN List.
Import ListNotations.
Notation size := Puml.size (only parsing).

(* an arrow cannot end on the first character of v when that character is not '>' *)
Lemma idxp_arrow_app v : (match v with x :: _ => x <> c_gt | [] => True end) -> forall u,
  idxp c_arrow (u ++ v) =
  match idxp c_arrow u with Some a => Some a | None => option_map (fun j => (length u + j)%nat) (idxp c_arrow v) end.
Proof.
  intros Hv. induction u as [|x u IH].
  - cbn [app length]. replace (idxp c_arrow []) with (@None nat) by reflexivity. destruct (idxp c_arrow v); reflexivity.
  - cbn [app idxp length].
    assert (E : is_prefix c_arrow (x :: u ++ v) = is_prefix c_arrow (x :: u)).
    { destruct u as [|y u].
      - cbn [app]. unfold c_arrow. cbn [is_prefix]. destruct v as [|z v]; [reflexivity|].
        cbn [is_prefix]. destruct (Nat.eqb c_gt z) eqn:Ez; [apply Nat.eqb_eq in Ez; subst z; contradiction|].
        cbn [andb]. rewrite Bool.andb_false_r. reflexivity.
      - change (x :: (y :: u) ++ v) with ((x :: y :: u) ++ v). apply is_prefix_app_long. cbn. lia. }
    rewrite E. destruct (is_prefix c_arrow (x :: u)); [reflexivity|]. rewrite IH.
    destruct (idxp c_arrow u); [reflexivity|]. destruct (idxp c_arrow v); reflexivity.
Qed.

Lemma skipn_add {A} : forall b (l:list A) a, skipn a (skipn b l) = skipn (a + b) l.
Proof.
  induction b as [|b IH]; intros l a; [rewrite Nat.add_0_r; reflexivity|].
  rewrite Nat.add_succ_r. destruct l as [|x l]; [rewrite !skipn_nil; reflexivity|]. cbn [skipn]. apply IH.
Qed.

Lemma line_split l : one_arrow l -> single_star l ->
  Nat.b2n (has_arrow l) = (Nat.b2n (is_transb l) + Nat.b2n (is_initb l) + Nat.b2n (is_termb l))%nat.
Proof.
  intros H1 Hs. unfold has_arrow, is_transb, is_initb, is_termb, contains. unfold one_arrow in H1. unfold single_star in Hs.
  destruct (idxp c_initstar l) as [k|] eqn:Ek.
  - cbn [negb andb Nat.b2n].
    pose proof (idxp_star_len l k Ek) as Hk.
    destruct (is_prefix_star_shape _ (idxp_skipn_prefix _ _ _ Ek)) as (tk & Etk).
    assert (Hsplit := idxp_arrow_app (skipn k l) ltac:(rewrite Etk; discriminate) (firstn k l)).
    rewrite firstn_skipn in Hsplit. rewrite Hsplit in *.
    destruct (idxp c_arrow (firstn k l)) as [a1|] eqn:E1.
    + destruct (idxp c_arrow (skipn k l)) as [a2|] eqn:E2; [|reflexivity].
      exfalso. pose proof (arrow_len _ _ E1) as Ha1. rewrite firstn_length in Ha1.
      apply (idxp_some_of_occ c_arrow (skipn (a1 + 2) l) (k - (a1 + 2) + a2)); [| |exact H1].
      * rewrite skipn_length. pose proof (idxp_lt c_arrow ltac:(discriminate) _ _ E2) as H2. rewrite skipn_length in H2. lia.
      * rewrite skipn_add. replace (k - (a1 + 2) + a2 + (a1 + 2))%nat with (a2 + k)%nat by lia.
        rewrite <- skipn_add. apply idxp_skipn_prefix. exact E2.
    + destruct (idxp c_arrow (skipn k l)); reflexivity.
  - cbn [negb andb Nat.b2n]. destruct (idxp c_arrow l); reflexivity.
Qed.

Lemma filter_split : forall lines, Forall one_arrow lines -> Forall single_star lines ->
  length (filter has_arrow lines) =
  (length (filter is_transb lines) + length (filter is_initb lines) + length (filter is_termb lines))%nat.
Proof.
  induction lines as [|l lines IH]; intros H1 Hs; [reflexivity|].
  inversion H1; subst. inversion Hs; subst. cbn [filter].
  pose proof (line_split l ltac:(assumption) ltac:(assumption)) as E. specialize (IH ltac:(assumption) ltac:(assumption)).
  destruct (has_arrow l), (is_transb l), (is_initb l), (is_termb l); cbn [Nat.b2n length] in *; lia.
Qed.

(* the number of rows create_transition_table builds = the number of transition lines, which are the lines parse_stt<t> selects *)
Theorem table_rows_are_the_transition_lines l0 rest :
  idxp c_initstar l0 = None -> Forall line_ok (l0 :: rest) -> Forall single_star (l0 :: rest) -> Forall one_arrow (l0 :: rest) ->
  (size (join_nl (l0 :: rest)) < npos)%N ->
  (count_transitions (join_nl (l0 :: rest)) - count_inits (join_nl (l0 :: rest)) - count_terminates (join_nl (l0 :: rest)))%nat
  = length (filter is_transb (l0 :: rest)).
Proof.
  intros H0 Hok Hss Hoa Hsz.
  rewrite count_transitions_exact, count_inits_exact by assumption.
  inversion Hok; subst. inversion Hss; subst.
  rewrite count_terminates_exact by assumption.
  rewrite (filter_split (l0 :: rest)) by assumption.
  assert (Et : filter is_termb (l0 :: rest) = filter is_termb rest).
  { cbn [filter]. unfold is_termb at 1. rewrite H0. reflexivity. }
  rewrite Et. lia.
Qed.

(* hence every row index below that number is a transition line, fetched by parse_stt *)
Theorem every_table_row l0 rest t :
  idxp c_initstar l0 = None -> Forall line_ok (l0 :: rest) -> Forall single_star (l0 :: rest) -> Forall one_arrow (l0 :: rest) ->
  (size (join_nl (l0 :: rest)) < npos)%N ->
  (t < count_transitions (join_nl (l0 :: rest)) - count_inits (join_nl (l0 :: rest)) - count_terminates (join_nl (l0 :: rest)))%nat ->
  exists row, nth_error (filter is_transb (l0 :: rest)) t = Some row /\ parse_stt t (join_nl (l0 :: rest)) = parse_row row.
Proof.
  intros H0 Hok Hss Hoa Hsz Ht. rewrite table_rows_are_the_transition_lines in Ht by assumption.
  destruct (nth_error (filter is_transb (l0 :: rest)) t) as [row|] eqn:E.
  - exists row. split; [reflexivity|]. apply parse_stt_exact; assumption.
  - apply nth_error_None in E. lia.
Qed.

(* ---- the lines of the row grammar (Lemmas_PumlRow.render) are transition lines in the sense of parse_stt ---- *)
Lemma idxp_star_no_lbr s : hasb c_lbr s = false -> idxp c_initstar s = None.
Proof.
  induction s as [|x s IH]; intros H; [reflexivity|]. cbn [hasb] in H. apply Bool.orb_false_elim in H. destruct H as [Hx Hs].
  cbn [idxp]. unfold c_initstar at 1. cbn [is_prefix]. rewrite Hx. cbn [andb]. rewrite IH by exact Hs. reflexivity.
Qed.

Lemma idxp_star_one_lbr a b : hasb c_lbr a = false -> hasb c_lbr b = false ->
  (match b with x :: _ => x <> c_star | [] => True end) ->
  idxp c_initstar (a ++ c_lbr :: b) = None.
Proof.
  intros Ha Hb Hh. induction a as [|x a IH]; cbn [app].
  - cbn [idxp]. assert (E : is_prefix c_initstar (c_lbr :: b) = false).
    { unfold c_initstar. cbn [is_prefix]. rewrite Nat.eqb_refl. cbn [andb]. destruct b as [|y b]; [reflexivity|].
      cbn [is_prefix]. destruct (Nat.eqb c_star y) eqn:Ey; [apply Nat.eqb_eq in Ey; subst y; contradiction | reflexivity]. }
    rewrite E. rewrite idxp_star_no_lbr by exact Hb. reflexivity.
  - cbn [hasb] in Ha. apply Bool.orb_false_elim in Ha. destruct Ha as [Hx Ha].
    cbn [idxp]. unfold c_initstar at 1. cbn [is_prefix]. rewrite Hx. cbn [andb]. rewrite IH by exact Ha. reflexivity.
Qed.

(* a line of the grammar whose guard text does not begin with '*' contains an arrow and no "[*]": parse_stt counts it *)
Definition guard_ok (l:pline) : Prop :=
  match l_ev l with
  | Some (_, _, _, _, t) => match tail_guard t with x :: _ => x <> c_star | [] => True end
  | None => True
  end.

Lemma render_has_arrow l : wf_line l -> contains c_arrow (render l) = true.
Proof.
  intros _. unfold contains.
  destruct (idxp c_arrow (render l)) eqn:E; [reflexivity|]. exfalso.
  apply (idxp_some_of_occ c_arrow (render l) (length (l_lead l ++ l_src l ++ l_b0 l ++ l_d l))); [| |exact E].
  - unfold render. rewrite !app_length. cbn [length]. lia.
  - unfold render.
    replace (l_lead l ++ l_src l ++ l_b0 l ++ l_d l ++ c_dash :: c_gt :: l_p1 l ++ l_tgt l ++ l_p2 l ++
             match l_ev l with None => [] | Some (p3, idash, evt, p4, t) => c_colon :: p3 ++ idash ++ evt ++ p4 ++ render_tail t end)
      with ((l_lead l ++ l_src l ++ l_b0 l ++ l_d l) ++ c_dash :: c_gt :: l_p1 l ++ l_tgt l ++ l_p2 l ++
             match l_ev l with None => [] | Some (p3, idash, evt, p4, t) => c_colon :: p3 ++ idash ++ evt ++ p4 ++ render_tail t end)
      by (rewrite <- !app_assoc; reflexivity).
    rewrite skipn_app_exact. reflexivity.
Qed.

Lemma head_ok p g rest : blank p -> starts g -> (match g with x :: _ => x <> c_star | [] => True end) ->
  match p ++ g ++ rest with x :: _ => x <> c_star | [] => True end.
Proof.
  intros Bp Sg Hg. destruct p as [|x p]; cbn [app].
  - destruct g as [|y g]; [contradiction|]. exact Hg.
  - inversion Bp as [|? ? Hx _]; subst. destruct Hx as [->| ->]; discriminate.
Qed.

Lemma render_no_star l : wf_line l -> guard_ok l -> idxp c_initstar (render l) = None.
Proof.
  destruct l as [lead src b0 d p1 tgt p2 ev]. unfold wf_line, guard_ok, render. cbn [l_lead l_src l_b0 l_d l_p1 l_tgt l_p2 l_ev].
  intros (Bl & (_ & _ & Cs) & B0 & Dd & B1 & (_ & _ & Ct) & B2 & Hev) Hg.
  pose proof (blank_clean _ Bl) as Cl. pose proof (blank_clean _ B0) as C0. pose proof (blank_clean _ B1) as C1.
  pose proof (blank_clean _ B2) as C2.
  destruct ev as [[[[[p3 idash] evt] p4] t]|].
  2:{ apply idxp_star_no_lbr. nos. }
  destruct Hev as (B3 & Hid & (_ & _ & Ce) & B4 & Ht).
  pose proof (blank_clean _ B3) as C3. pose proof (blank_clean _ B4) as C4.
  assert (Did : dashes idash) by (destruct Hid as [->| ->]; repeat constructor).
  destruct t as [|p5 a p6|p5 g p6 p7|p5 a p6 p7 g p8 p9|p5 g p6 p7 p8 a p9]; cbn [render_tail tail_guard wf_tail] in *.
  - apply idxp_star_no_lbr. nos.
  - destruct Ht as (B5 & (_ & _ & Ca) & B6). pose proof (blank_clean _ B5) as C5. pose proof (blank_clean _ B6) as C6.
    apply idxp_star_no_lbr. nos.
  - destruct Ht as (B5 & (Sg & _ & Cg) & B6 & B7).
    pose proof (blank_clean _ B5) as C5. pose proof (blank_clean _ B6) as C6. pose proof (blank_clean _ B7) as C7.
    replace (lead ++ src ++ b0 ++ d ++ c_dash :: c_gt :: p1 ++ tgt ++ p2 ++ c_colon :: p3 ++ idash ++ evt ++ p4 ++ c_lbr :: p5 ++ g ++ p6 ++ c_rbr :: p7)
      with ((lead ++ src ++ b0 ++ d ++ c_dash :: c_gt :: p1 ++ tgt ++ p2 ++ c_colon :: p3 ++ idash ++ evt ++ p4) ++ c_lbr :: p5 ++ g ++ p6 ++ c_rbr :: p7) by la.
    apply idxp_star_one_lbr; [nos | nos | apply head_ok; assumption].
  - destruct Ht as (B5 & (_ & _ & Ca) & B6 & B7 & (Sg & _ & Cg) & B8 & B9).
    pose proof (blank_clean _ B5) as C5. pose proof (blank_clean _ B6) as C6. pose proof (blank_clean _ B7) as C7.
    pose proof (blank_clean _ B8) as C8. pose proof (blank_clean _ B9) as C9.
    replace (lead ++ src ++ b0 ++ d ++ c_dash :: c_gt :: p1 ++ tgt ++ p2 ++ c_colon :: p3 ++ idash ++ evt ++ p4 ++ c_slash :: p5 ++ a ++ p6 ++ c_lbr :: p7 ++ g ++ p8 ++ c_rbr :: p9)
      with ((lead ++ src ++ b0 ++ d ++ c_dash :: c_gt :: p1 ++ tgt ++ p2 ++ c_colon :: p3 ++ idash ++ evt ++ p4 ++ c_slash :: p5 ++ a ++ p6) ++ c_lbr :: p7 ++ g ++ p8 ++ c_rbr :: p9) by la.
    apply idxp_star_one_lbr; [nos | nos | apply head_ok; assumption].
  - destruct Ht as (B5 & (Sg & _ & Cg) & B6 & B7 & B8 & (_ & _ & Ca) & B9).
    pose proof (blank_clean _ B5) as C5. pose proof (blank_clean _ B6) as C6. pose proof (blank_clean _ B7) as C7.
    pose proof (blank_clean _ B8) as C8. pose proof (blank_clean _ B9) as C9.
    replace (lead ++ src ++ b0 ++ d ++ c_dash :: c_gt :: p1 ++ tgt ++ p2 ++ c_colon :: p3 ++ idash ++ evt ++ p4 ++ c_lbr :: p5 ++ g ++ p6 ++ c_rbr :: p7 ++ c_slash :: p8 ++ a ++ p9)
      with ((lead ++ src ++ b0 ++ d ++ c_dash :: c_gt :: p1 ++ tgt ++ p2 ++ c_colon :: p3 ++ idash ++ evt ++ p4) ++ c_lbr :: p5 ++ g ++ p6 ++ c_rbr :: p7 ++ c_slash :: p8 ++ a ++ p9) by la.
    apply idxp_star_one_lbr; [nos | nos | apply head_ok; assumption].
Qed.

Theorem grammar_line_is_transition_line l : wf_line l -> guard_ok l -> is_transb (render l) = true.
Proof.
  intros Hw Hg. unfold is_transb, contains at 1. rewrite (render_no_star l Hw Hg). cbn [negb andb]. apply render_has_arrow. exact Hw.
Qed.
