(* Lemmas_PumlTable.v - C14: the number of rows create_transition_table builds for a PlantUML description,
   count_transitions - count_inits - count_terminates, is the number of its transition lines - the lines parse_stt<t>
   selects.  Per line: an arrow without "[*]" (transition line), an arrow behind the "[*]" (initial line) or an arrow in
   front of it (terminate line), never two of them (one arrow, one "[*]" per line). *)
From Msm Require Import Base Puml Lemmas_Puml Lemmas_PumlRow Lemmas_PumlStt Lemmas_PumlCount Lemmas_PumlTerm Lemmas_PumlTrans.
From Coq Require Import NArith Lia ZifyBool ZifyN List.
Import ListNotations.
Notation size := Puml.size (only parsing).

(* an arrow cannot end on the first character of v when that character is not '>' *)
Lemma idxp_arrow_app v : (match v with x :: _ => x <> c_gt | [] => True end) -> forall u,
  idxp c_arrow (u ++ v) =
  match idxp c_arrow u with Some a => Some a | None => option_map (fun j => (length u + j)%nat) (idxp c_arrow v) end.
Proof.
  intros Hv. induction u as [|x u IH].
  - cbn [app length]. replace (idxp c_arrow []) with (@None nat) by reflexivity. destruct (idxp c_arrow v); reflexivity.
  - cbn [app idxp length].
    assert (E : is_prefix c_arrow (x :: u ++ v) = is_prefix c_arrow (x :: u)).
    { destruct u as [|y u].
      - cbn [app]. unfold c_arrow. cbn [is_prefix]. destruct v as [|z v]; [reflexivity|].
        cbn [is_prefix]. destruct (Nat.eqb c_gt z) eqn:Ez; [apply Nat.eqb_eq in Ez; subst z; contradiction|].
        cbn [andb]. rewrite Bool.andb_false_r. reflexivity.
      - change (x :: (y :: u) ++ v) with ((x :: y :: u) ++ v). apply is_prefix_app_long. cbn. lia. }
    rewrite E. destruct (is_prefix c_arrow (x :: u)); [reflexivity|]. rewrite IH.
    destruct (idxp c_arrow u); [reflexivity|]. destruct (idxp c_arrow v); reflexivity.
Qed.

Lemma skipn_add {A} : forall b (l:list A) a, skipn a (skipn b l) = skipn (a + b) l.
Proof.
  induction b as [|b IH]; intros l a; [rewrite Nat.add_0_r; reflexivity|].
  rewrite Nat.add_succ_r. destruct l as [|x l]; [rewrite !skipn_nil; reflexivity|]. cbn [skipn]. apply IH.
Qed.

Lemma line_split l : one_arrow l -> single_star l ->
  Nat.b2n (has_arrow l) = (Nat.b2n (is_transb l) + Nat.b2n (is_initb l) + Nat.b2n (is_termb l))%nat.
Proof.
  intros H1 Hs. unfold has_arrow, is_transb, is_initb, is_termb, contains. unfold one_arrow in H1. unfold single_star in Hs.
  destruct (idxp c_initstar l) as [k|] eqn:Ek.
  - cbn [negb andb Nat.b2n].
    pose proof (idxp_star_len l k Ek) as Hk.
    destruct (is_prefix_star_shape _ (idxp_skipn_prefix _ _ _ Ek)) as (tk & Etk).
    assert (Hsplit := idxp_arrow_app (skipn k l) ltac:(rewrite Etk; discriminate) (firstn k l)).
    rewrite firstn_skipn in Hsplit. rewrite Hsplit in *.
    destruct (idxp c_arrow (firstn k l)) as [a1|] eqn:E1.
    + destruct (idxp c_arrow (skipn k l)) as [a2|] eqn:E2; [|reflexivity].
      exfalso. pose proof (arrow_len _ _ E1) as Ha1. rewrite firstn_length in Ha1.
      apply (idxp_some_of_occ c_arrow (skipn (a1 + 2) l) (k - (a1 + 2) + a2)); [| |exact H1].
      * rewrite skipn_length. pose proof (idxp_lt c_arrow ltac:(discriminate) _ _ E2) as H2. rewrite skipn_length in H2. lia.
      * rewrite skipn_add. replace (k - (a1 + 2) + a2 + (a1 + 2))%nat with (a2 + k)%nat by lia.
        rewrite <- skipn_add. apply idxp_skipn_prefix. exact E2.
    + destruct (idxp c_arrow (skipn k l)); reflexivity.
  - cbn [negb andb Nat.b2n]. destruct (idxp c_arrow l); reflexivity.
Qed.

Lemma filter_split : forall lines, Forall one_arrow lines -> Forall single_star lines ->
  length (filter has_arrow lines) =
  (length (filter is_transb lines) + length (filter is_initb lines) + length (filter is_termb lines))%nat.
Proof.
  induction lines as [|l lines IH]; intros H1 Hs; [reflexivity|].
  inversion H1; subst. inversion Hs; subst. cbn [filter].
  pose proof (line_split l ltac:(assumption) ltac:(assumption)) as E. specialize (IH ltac:(assumption) ltac:(assumption)).
  destruct (has_arrow l), (is_transb l), (is_initb l), (is_termb l); cbn [Nat.b2n length] in *; lia.
Qed.

(* the number of rows create_transition_table builds = the number of transition lines, which are the lines parse_stt<t> selects *)
Theorem table_rows_are_the_transition_lines l0 rest :
  idxp c_initstar l0 = None -> Forall line_ok (l0 :: rest) -> Forall single_star (l0 :: rest) -> Forall one_arrow (l0 :: rest) ->
  (size (join_nl (l0 :: rest)) < npos)%N ->
  (count_transitions (join_nl (l0 :: rest)) - count_inits (join_nl (l0 :: rest)) - count_terminates (join_nl (l0 :: rest)))%nat
  = length (filter is_transb (l0 :: rest)).
Proof.
  intros H0 Hok Hss Hoa Hsz.
  rewrite count_transitions_exact, count_inits_exact by assumption.
  inversion Hok; subst. inversion Hss; subst.
  rewrite count_terminates_exact by assumption.
  rewrite (filter_split (l0 :: rest)) by assumption.
  assert (Et : filter is_termb (l0 :: rest) = filter is_termb rest).
  { cbn [filter]. unfold is_termb at 1. rewrite H0. reflexivity. }
  rewrite Et. lia.
Qed.

(* hence every row index below that number is a transition line, fetched by parse_stt *)
Theorem every_table_row l0 rest t :
  idxp c_initstar l0 = None -> Forall line_ok (l0 :: rest) -> Forall single_star (l0 :: rest) -> Forall one_arrow (l0 :: rest) ->
  (size (join_nl (l0 :: rest)) < npos)%N ->
  (t < count_transitions (join_nl (l0 :: rest)) - count_inits (join_nl (l0 :: rest)) - count_terminates (join_nl (l0 :: rest)))%nat ->
  exists row, nth_error (filter is_transb (l0 :: rest)) t = Some row /\ parse_stt t (join_nl (l0 :: rest)) = parse_row row.
Proof.
  intros H0 Hok Hss Hoa Hsz Ht. rewrite table_rows_are_the_transition_lines in Ht by assumption.
  destruct (nth_error (filter is_transb (l0 :: rest)) t) as [row|] eqn:E.
  - exists row. split; [reflexivity|]. apply parse_stt_exact; assumption.
  - apply nth_error_None in E. lia.
Qed.
