(* Lemmas_PumlTerm.v - C14: detail::count_terminates (transcribed in Puml.v with its rfind look-backs, compared with the
   library's own function on generated descriptions by harness/pumlcheck.py) counts exactly the terminate lines of a
   description: the lines in which an arrow stands in front of the "[*]" on the same line.  The look-back for the arrow
   may run into earlier lines - it is the comparison with the position of the line end in front of the "[*]" that keeps
   the count on the line (endl_before, arrow_found, arrow_not_found). *)
From Msm Require Import Base Puml Lemmas_Puml Lemmas_PumlRow Lemmas_PumlStt Lemmas_PumlCount.
From Coq Require Import NArith Lia ZifyBool ZifyN List.
Import ListNotations.
Ltac Zify.zify_post_hook ::= Z.div_mod_to_equations.
Local Open Scope N_scope.
Notation size := Puml.size (only parsing).
Notation find := Puml.find (only parsing).

Lemma is_prefix_mono pat : forall u x, is_prefix pat u = true -> is_prefix pat (u ++ x) = true.
Proof.
  induction pat as [|a pat IH]; intros u x H; [reflexivity|]. destruct u as [|y u]; [discriminate|].
  cbn in *. apply andb_prop in H. destruct H as [H1 H2]. rewrite H1, IH by exact H2. reflexivity.
Qed.
Lemma is_prefix_app_long pat : forall u x, (length pat <= length u)%nat -> is_prefix pat (u ++ x) = is_prefix pat u.
Proof.
  induction pat as [|a pat IH]; intros u x H; [reflexivity|]. destruct u as [|y u]; [cbn in H; lia|].
  cbn [app is_prefix]. rewrite IH by (cbn in H; lia). reflexivity.
Qed.
Lemma skipn_cons_nth {A} (l:list A) : forall j d, (j < length l)%nat -> skipn j l = nth j l d :: skipn (S j) l.
Proof. induction l as [|x l IH]; intros [|j] d H; cbn in *; try lia; [reflexivity|]. apply IH. lia. Qed.
Lemma is_prefix_arrow_shape t : is_prefix c_arrow t = true -> exists t', t = c_dash :: c_gt :: t'.
Proof.
  intros H. destruct t as [|x [|y t]]; try discriminate.
  - unfold c_arrow in H. cbn [is_prefix] in H. apply andb_prop in H. destruct H as [_ H]. discriminate.
  - unfold c_arrow in H. cbn [is_prefix] in H. apply andb_prop in H. destruct H as [H1 H]. apply andb_prop in H. destruct H as [H2 _].
    apply Nat.eqb_eq in H1, H2. subst. eexists; reflexivity.
Qed.
Lemma is_prefix_star_shape t : is_prefix c_initstar t = true -> exists t', t = c_lbr :: c_star :: c_rbr :: t'.
Proof.
  intros H. unfold c_initstar in H. destruct t as [|x [|y [|z t]]]; cbn [is_prefix] in H;
    repeat (apply andb_prop in H; let H1 := fresh in destruct H as [H1 H]; try apply Nat.eqb_eq in H1); try discriminate.
  subst. eexists; reflexivity.
Qed.
Lemma is_prefix_nl_shape t : is_prefix [c_nl] t = true -> exists t', t = c_nl :: t'.
Proof.
  intros H. destruct t as [|x t]; [discriminate|]. cbn [is_prefix] in H. apply andb_prop in H. destruct H as [H _].
  apply Nat.eqb_eq in H. subst. eexists; reflexivity.
Qed.
Lemma hasb_head c x t : hasb c (x :: t) = false -> x <> c.
Proof. cbn [hasb]. intros H E. subst. rewrite Nat.eqb_refl in H. discriminate. Qed.
Lemma skipn_lt_cons {A} (l:list A) j : (j < length l)%nat -> exists x t, skipn j l = x :: t.
Proof. revert j. induction l as [|y l IH]; intros [|j] H; cbn in *; try lia; eauto. apply IH. lia. Qed.
Lemma idxp_some_of_occ pat : forall u j, (j <= length u)%nat -> is_prefix pat (skipn j u) = true -> idxp pat u <> None.
Proof.
  induction u as [|x u IH]; intros j Hj H.
  - destruct j; cbn in *; [rewrite H; discriminate | lia].
  - cbn [idxp]. destruct (is_prefix pat (x :: u)) eqn:E; [discriminate|].
    destruct j as [|j]; [cbn in H; congruence|]. cbn [skipn] in H. cbn [length] in Hj.
    specialize (IH j ltac:(lia) H). destruct (idxp pat u); [discriminate | contradiction].
Qed.

(* the text: A, a line end, the line L with its first "[*]" at k, and whatever follows *)
Section Around.
Variables (A L T : str) (k : nat).
Hypothesis HL : hasb c_nl L = false.
Hypothesis Hk : idxp c_initstar L = Some k.
Let s := A ++ c_nl :: L ++ T.
Hypothesis Hsz : size s < npos.
Let P : N := size A + 1 + N.of_nat k.

Lemma k_bound : (k + 3 <= length L)%nat. Proof. apply idxp_star_len. exact Hk. Qed.

Lemma skip_into_L j : (j <= length L)%nat -> skipn (length A + 1 + j) s = skipn j L ++ T.
Proof. intros H. unfold s. rewrite skipn_shift_line. apply skipn_app_le. exact H. Qed.

Lemma endl_before : rfind [c_nl] s P = size A.
Proof.
  pose proof npos_val as Hn. pose proof k_bound as Hkb. unfold rfind.
  assert (Hlen : size s = size A + 1 + size L + size T) by (unfold s; autorewrite with sz; lia).
  assert (Hocc : is_prefix [c_nl] (skipn (length A) s) = true).
  { unfold s. rewrite skipn_app_exact. cbn. reflexivity. }
  pose proof (rfind_at_ge [c_nl] s 0 P npos (length A) ltac:(unfold s; rewrite app_length; cbn; lia) Hocc
                ltac:(unfold P, Puml.size; lia) ltac:(unfold Puml.size in *; lia)) as [Hlo Hhi].
  destruct (rfind_at_cases [c_nl] s 0 P npos) as [E|(d & Hd & Er & Hl & Hp)].
  - rewrite E in Hhi. unfold P, Puml.size in *. lia.
  - rewrite Er in *. unfold Puml.size in *.
    assert (Hd' : (d = length A \/ (length A + 1 <= d /\ d - (length A + 1) <= k))%nat) by (unfold P in *; lia).
    destruct Hd' as [->|(Hd1 & Hj)]; [lia|]. exfalso.
    set (j := (d - (length A + 1))%nat) in *. replace d with (length A + 1 + j)%nat in * by lia.
    rewrite skip_into_L in Hp by lia.
    destruct (skipn_lt_cons L j ltac:(lia)) as (x & t & Ex). rewrite Ex in Hp. cbn [app] in Hp.
    apply is_prefix_nl_shape in Hp. destruct Hp as (t' & Et). inversion Et; subst x.
    pose proof (hasb_skipn c_nl L j HL) as Hh. rewrite Ex in Hh. apply hasb_head in Hh. contradiction.
Qed.

Lemma arrow_found a : idxp c_arrow (firstn k L) = Some a -> size A < rfind c_arrow s P /\ rfind c_arrow s P <= P.
Proof.
  intros Ha. pose proof npos_val as Hn. pose proof k_bound as Hkb. unfold rfind.
  pose proof (idxp_skipn_prefix _ _ _ Ha) as Hp.
  pose proof (idxp_lt c_arrow ltac:(discriminate) _ _ Ha) as Hal. rewrite firstn_length in Hal.
  assert (Hocc : is_prefix c_arrow (skipn (length A + 1 + a) s) = true).
  { rewrite skip_into_L by lia.
    replace L with (firstn k L ++ skipn k L) at 1 by apply firstn_skipn.
    rewrite skipn_app_le by (rewrite firstn_length; lia). rewrite <- app_assoc. apply is_prefix_mono. exact Hp. }
  pose proof (rfind_at_ge c_arrow s 0 P npos (length A + 1 + a)
                ltac:(unfold s; rewrite !app_length; cbn [length]; rewrite app_length; lia) Hocc
                ltac:(unfold P, Puml.size; lia)
                ltac:(unfold Puml.size in *; lia)) as [Hlo Hhi].
  unfold Puml.size in *. lia.
Qed.

Lemma arrow_not_found : idxp c_arrow (firstn k L) = None ->
  rfind c_arrow s P = npos \/ rfind c_arrow s P < size A.
Proof.
  intros Ha. pose proof npos_val as Hn. pose proof k_bound as Hkb. unfold rfind.
  destruct (rfind_at_cases c_arrow s 0 P npos) as [E|(d & Hd & Er & Hl & Hp)]; [left; exact E|].
  right. rewrite Er. unfold Puml.size in *.
  assert (Hd' : (d < length A \/ d = length A \/ (length A + 1 <= d /\ d - (length A + 1) <= k))%nat) by (unfold P in *; lia).
  destruct Hd' as [H|[->|(Hd1 & Hj)]]; [lia| |]; exfalso;
    [|set (j := (d - (length A + 1))%nat) in *; replace d with (length A + 1 + j)%nat in * by lia].
  - unfold s in Hp. rewrite skipn_app_exact in Hp. cbn in Hp. discriminate.
  - rewrite skip_into_L in Hp by lia.
    destruct (is_prefix_star_shape _ (idxp_skipn_prefix _ _ _ Hk)) as (tk & Etk).
    assert (Hcase : (j + 2 <= k \/ j + 1 = k \/ j = k)%nat) by lia.
    destruct Hcase as [H|[H|H]].
    + (* both characters of the arrow lie in front of the "[*]" *)
      apply (idxp_some_of_occ c_arrow (firstn k L) j); [rewrite firstn_length; lia | | exact Ha].
      replace L with (firstn k L ++ skipn k L) in Hp at 1 by apply firstn_skipn.
      rewrite skipn_app_le in Hp by (rewrite firstn_length; lia). rewrite <- app_assoc in Hp.
      rewrite is_prefix_app_long in Hp; [exact Hp|].
      rewrite skipn_length, firstn_length. cbn. lia.
    + (* the arrow would end on the '[' *)
      assert (Es : skipn j L = nth j L 0%nat :: skipn k L).
      { replace k with (S j) by lia. apply skipn_cons_nth. lia. }
      rewrite Es, Etk in Hp. cbn [app] in Hp. apply is_prefix_arrow_shape in Hp. destruct Hp as (t' & Et). inversion Et.
    + rewrite H, Etk in Hp. cbn [app] in Hp. apply is_prefix_arrow_shape in Hp. destruct Hp as (t' & Et). inversion Et.
Qed.
End Around.

(* ---- the count ---- *)
Definition is_termb (l:str) : bool :=
  match idxp c_initstar l with Some k => contains c_arrow (firstn k l) | None => false end.
Definition jn (A:str) (rest:list str) : str := match rest with [] => A | _ => A ++ c_nl :: join_nl rest end.
Lemma join_nl_jn l rest : join_nl (l :: rest) = jn l rest.
Proof. destruct rest; reflexivity. Qed.

Lemma ct_unfold f s occ : s <> [] -> size s < npos ->
  count_terminates_loop (S f) s occ =
  match idxp c_initstar s with
  | None => occ
  | Some p => if negb (rfind c_arrow s (N.of_nat p) =? npos) && (rfind [c_nl] s (N.of_nat p) <? rfind c_arrow s (N.of_nat p))
              then count_terminates_loop f (skipn (p + 3) s) (S occ)
              else count_terminates_loop f (skipn (p + 3) s) occ
  end.
Proof.
  intros Hne Hs. pose proof npos_val as Hn. pose proof W_val as HW. cbn [count_terminates_loop].
  destruct s as [|x s']; [contradiction|]. set (s := x :: s') in *. rewrite find_idxp.
  destruct (idxp c_initstar s) as [p|] eqn:Ep.
  - pose proof (idxp_star_len s p Ep) as Hp.
    replace (N.of_nat p =? npos) with false by (symmetry; apply N.eqb_neq; unfold Puml.size in *; lia). cbn [negb andb].
    rewrite wadd_small by (unfold Puml.size in *; lia). replace (N.of_nat p + 3) with (N.of_nat (p + 3)) by lia.
    rewrite substr_from_skipn by (try lia; assumption).
    destruct (negb (rfind c_arrow s (N.of_nat p) =? npos)); cbn [andb]; reflexivity.
  - replace (npos =? npos) with true by reflexivity. cbn [negb andb]. reflexivity.
Qed.

Lemma ct_nil f occ : count_terminates_loop f [] occ = occ.
Proof. destruct f; reflexivity. Qed.

Lemma jn_length_lt A l rest : (length (jn (skipn 0 l) rest) <= length (jn A (l :: rest)))%nat.
Proof. unfold jn. cbn [skipn]. rewrite join_nl_jn. unfold jn. destruct rest; rewrite !app_length; cbn [length]; try rewrite app_length; cbn [length]; lia. Qed.

Theorem ct_lines : forall rest A f occ,
  idxp c_initstar A = None -> Forall line_ok rest -> Forall single_star rest ->
  (length (jn A rest) < f)%nat -> size (jn A rest) < npos ->
  count_terminates_loop f (jn A rest) occ = (occ + length (filter is_termb rest))%nat.
Proof.
  induction rest as [|l1 rest1 IH]; intros A f occ HA Hok Hss Hf Hsz.
  - unfold jn in *. cbn [filter length]. rewrite Nat.add_0_r.
    destruct A as [|x A']; [apply ct_nil|]. destruct f as [|f]; [reflexivity|].
    rewrite ct_unfold by (auto; discriminate). rewrite HA. reflexivity.
  - inversion Hok as [|? ? Hl Hrest]; subst. inversion Hss as [|? ? Hs1 Hsrest]; subst.
    cbn [filter]. unfold is_termb at 1. unfold single_star in Hs1. unfold line_ok in Hl.
    set (T := match rest1 with [] => [] | _ => c_nl :: join_nl rest1 end).
    assert (Es : jn A (l1 :: rest1) = A ++ c_nl :: l1 ++ T).
    { unfold jn, T. rewrite join_nl_jn. unfold jn. destruct rest1; [rewrite app_nil_r|]; reflexivity. }
    destruct (idxp c_initstar l1) as [k|] eqn:Ek.
    + (* the line has a "[*]" *)
      pose proof (idxp_star_len l1 k Ek) as Hkb.
      destruct f as [|f]; [lia|].
      rewrite Es in *. rewrite ct_unfold by (auto; destruct A; discriminate).
      assert (Estar : idxp c_initstar (A ++ c_nl :: l1 ++ T) = Some (length A + 1 + k)%nat).
      { rewrite (idxp_line c_initstar init_nl ltac:(discriminate)). rewrite HA.
        assert (E1 : idxp c_initstar (l1 ++ T) = Some k).
        { unfold T. destruct rest1; [rewrite app_nil_r; exact Ek|].
          rewrite (idxp_line c_initstar init_nl ltac:(discriminate)). rewrite Ek. reflexivity. }
        rewrite E1. reflexivity. }
      rewrite Estar.
      replace (N.of_nat (length A + 1 + k)) with (Puml.size A + 1 + N.of_nat k) by (unfold Puml.size; lia).
      rewrite (endl_before A l1 T k Hl Ek Hsz).
      assert (Eskip : skipn (length A + 1 + k + 3) (A ++ c_nl :: l1 ++ T) = jn (skipn (k + 3) l1) rest1).
      { replace (length A + 1 + k + 3)%nat with (length A + 1 + (k + 3))%nat by lia. rewrite skipn_shift_line.
        rewrite skipn_app_le by lia. unfold jn, T. destruct rest1; [apply app_nil_r | reflexivity]. }
      rewrite Eskip.
      assert (Hlen2 : (length (jn (skipn (k + 3) l1) rest1) < f)%nat).
      { rewrite <- Eskip. rewrite skipn_length.
        assert (Hls : length (A ++ c_nl :: l1 ++ T) = (length A + 1 + length l1 + length T)%nat)
          by (rewrite app_length; cbn [length]; rewrite app_length; lia).
        lia. }
      assert (Hsz2 : Puml.size (jn (skipn (k + 3) l1) rest1) < npos).
      { rewrite <- Eskip. pose proof (size_skipn_le (A ++ c_nl :: l1 ++ T) (length A + 1 + k + 3)). lia. }
      unfold contains.
      destruct (idxp c_arrow (firstn k l1)) as [a|] eqn:Ea.
      * destruct (arrow_found A l1 T k Ek Hsz a Ea) as [H1 H2]. pose proof npos_val as Hn.
        assert (Hp : Puml.size A + 1 + N.of_nat k < npos) by (autorewrite with sz in Hsz; unfold Puml.size in *; lia).
        replace (rfind c_arrow (A ++ c_nl :: l1 ++ T) (Puml.size A + 1 + N.of_nat k) =? npos) with false
          by (symmetry; apply N.eqb_neq; lia).
        replace (Puml.size A <? rfind c_arrow (A ++ c_nl :: l1 ++ T) (Puml.size A + 1 + N.of_nat k)) with true
          by (symmetry; apply N.ltb_lt; lia).
        cbn [negb andb]. rewrite IH; auto. cbn [length]. lia.
      * destruct (arrow_not_found A l1 T k Ek Hsz Ea) as [H1|H1].
        -- rewrite H1. replace (npos =? npos) with true by reflexivity. cbn [negb andb]. rewrite IH; auto.
        -- replace (Puml.size A <? rfind c_arrow (A ++ c_nl :: l1 ++ T) (Puml.size A + 1 + N.of_nat k)) with false
             by (symmetry; apply N.ltb_ge; lia).
           rewrite Bool.andb_false_r. rewrite IH; auto.
    + (* no "[*]" in this line: it joins the star-free text in front *)
      assert (Es2 : jn A (l1 :: rest1) = jn (A ++ c_nl :: l1) rest1).
      { rewrite Es. unfold jn, T. destruct rest1; [rewrite app_nil_r; reflexivity|]. rewrite <- app_assoc. reflexivity. }
      rewrite Es2 in *. rewrite IH; auto. rewrite (idxp_line c_initstar init_nl ltac:(discriminate)). rewrite HA, Ek. reflexivity.
Qed.

(* count_terminates of a description whose first line carries no "[*]" (descriptions start with @startuml): the number
   of lines in which an arrow stands in front of the "[*]" *)
Theorem count_terminates_exact l0 rest :
  idxp c_initstar l0 = None -> Forall line_ok rest -> Forall single_star rest -> size (join_nl (l0 :: rest)) < npos ->
  count_terminates (join_nl (l0 :: rest)) = length (filter is_termb rest).
Proof.
  intros H0 Hok Hss Hsz. unfold count_terminates. rewrite join_nl_jn in *. rewrite ct_lines; auto.
Qed.
