(* Lemmas_PumlTrans.v - C14: detail::count_transitions (transcribed in Puml.v, compared with the library on every
   generated line and description) counts the lines that contain an arrow - for every description whose lines carry at
   most one arrow each; create_transition_table takes count_transitions - count_inits - count_terminates rows. *)
From Msm Require Import Base Puml Lemmas_Puml Lemmas_PumlRow Lemmas_PumlStt Lemmas_PumlCount Lemmas_PumlTerm.
From Coq Require Import NArith Lia ZifyBool ZifyN List.
Import ListNotations.
Ltac Zify.zify_post_hook ::= Z.div_mod_to_equations.
Local Open Scope N_scope.
Notation size := Puml.size (only parsing).
Notation find := Puml.find (only parsing).

(* at most one arrow per line *)
Definition one_arrow (l:str) : Prop :=
  match idxp c_arrow l with Some a => idxp c_arrow (skipn (a + 2) l) = None | None => True end.

Lemma ctr_unfold f s (pos:nat) : (pos <= length s)%nat -> size s < npos ->
  count_transitions_loop (S f) s (N.of_nat pos) =
  match idxp c_arrow (skipn pos s) with
  | Some j => S (count_transitions_loop f s (N.of_nat (pos + j + 2)))
  | None => 0%nat
  end.
Proof.
  intros Hp Hs. pose proof npos_val as Hn. pose proof W_val as HW. cbn [count_transitions_loop].
  rewrite find_from_idxp by exact Hp.
  destruct (idxp c_arrow (skipn pos s)) as [j|] eqn:Ej; [|reflexivity].
  pose proof (idxp_lt c_arrow ltac:(discriminate) _ _ Ej) as Hj. rewrite skipn_length in Hj.
  replace (N.of_nat pos + N.of_nat j =? npos) with false by (symmetry; apply N.eqb_neq; unfold Puml.size in *; lia).
  rewrite wadd_small by (unfold Puml.size in *; lia).
  replace (N.of_nat pos + N.of_nat j + 2) with (N.of_nat (pos + j + 2)) by lia. reflexivity.
Qed.

Lemma arrow_len l a : idxp c_arrow l = Some a -> (a + 2 <= length l)%nat.
Proof.
  intros H. pose proof (idxp_skipn_prefix _ _ _ H) as Hp. apply is_prefix_length in Hp. rewrite skipn_length in Hp.
  pose proof (idxp_lt c_arrow ltac:(discriminate) _ _ H). cbn in Hp. lia.
Qed.

Definition has_arrow (l:str) : bool := contains c_arrow l.

Lemma both : forall rest,
  (forall l0 pre fuel, line_ok l0 -> idxp c_arrow l0 = None -> Forall line_ok rest -> Forall one_arrow rest ->
     (length (join_nl (l0 :: rest)) < fuel)%nat -> size (pre ++ join_nl (l0 :: rest)) < npos ->
     count_transitions_loop fuel (pre ++ join_nl (l0 :: rest)) (size pre) = length (filter has_arrow rest)) /\
  (forall l pre fuel, line_ok l -> one_arrow l -> Forall line_ok rest -> Forall one_arrow rest ->
     (length (join_nl (l :: rest)) < fuel)%nat -> size (pre ++ join_nl (l :: rest)) < npos ->
     count_transitions_loop fuel (pre ++ join_nl (l :: rest)) (size pre) = length (filter has_arrow (l :: rest))).
Proof.
  induction rest as [|q r IH].
  - assert (M0 : forall l0 pre fuel, line_ok l0 -> idxp c_arrow l0 = None ->
              (length (join_nl [l0]) < fuel)%nat -> size (pre ++ join_nl [l0]) < npos ->
              count_transitions_loop fuel (pre ++ join_nl [l0]) (size pre) = 0%nat).
    { intros l0 pre fuel Hl H0 Hf Hs. cbn [join_nl] in *. destruct fuel as [|f]; [lia|].
      unfold Puml.size. rewrite ctr_unfold by (try rewrite app_length; try lia; assumption).
      replace (length pre) with (length pre + 0)%nat by lia. rewrite skipn_app_shift. cbn [skipn]. rewrite H0. reflexivity. }
    split.
    + intros l0 pre fuel Hl H0 _ _ Hf Hs. cbn [filter length]. apply M0; auto.
    + intros l pre fuel Hl H1 _ _ Hf Hs. cbn [filter]. unfold has_arrow, contains. unfold one_arrow in H1.
      destruct (idxp c_arrow l) as [a|] eqn:Ea; [|cbn [length]; apply M0; auto].
      pose proof (arrow_len l a Ea) as Hal. cbn [join_nl] in *. destruct fuel as [|f]; [lia|].
      unfold Puml.size. rewrite ctr_unfold by (try rewrite app_length; try lia; assumption).
      replace (length pre) with (length pre + 0)%nat at 1 by lia. rewrite skipn_app_shift. cbn [skipn]. rewrite Ea. cbn [length]. f_equal.
      (* behind the arrow: nothing more in this line *)
      replace (pre ++ l) with ((pre ++ firstn (a + 2) l) ++ skipn (a + 2) l) by (rewrite <- app_assoc, firstn_skipn; reflexivity).
      match goal with |- context[count_transitions_loop _ _ (N.of_nat ?x)] =>
        replace (N.of_nat x) with (Puml.size (pre ++ firstn (a + 2) l)) by (unfold Puml.size; rewrite app_length, firstn_length; lia) end.
      change (skipn (a + 2) l) with (join_nl [skipn (a + 2) l]).
      apply M0; auto.
      * unfold line_ok. apply hasb_skipn. exact Hl.
      * cbn [join_nl]. rewrite skipn_length. lia.
      * cbn [join_nl]. rewrite <- app_assoc, firstn_skipn. exact Hs.
  - destruct IH as [IH0 IH1].
    assert (M0 : forall l0 pre fuel, line_ok l0 -> idxp c_arrow l0 = None -> Forall line_ok (q :: r) -> Forall one_arrow (q :: r) ->
              (length (join_nl (l0 :: q :: r)) < fuel)%nat -> size (pre ++ join_nl (l0 :: q :: r)) < npos ->
              count_transitions_loop fuel (pre ++ join_nl (l0 :: q :: r)) (size pre) = length (filter has_arrow (q :: r))).
    { intros l0 pre fuel Hl H0 Hok Hoa Hf Hs. inversion Hok as [|? ? Hq Hr]; subst. inversion Hoa as [|? ? Hq1 Hr1]; subst.
      rewrite join_nl_cons in *.
      (* the search started at the line's begin finds what the search started behind its line end finds *)
      assert (Eshift : forall fu, count_transitions_loop fu (pre ++ l0 ++ c_nl :: join_nl (q :: r)) (size pre) =
                                  count_transitions_loop fu (pre ++ l0 ++ c_nl :: join_nl (q :: r)) (size (pre ++ l0 ++ [c_nl]))).
      { intros [|fu]; [reflexivity|]. unfold Puml.size.
        assert (Hlen : length (pre ++ l0 ++ c_nl :: join_nl (q :: r)) = (length pre + length l0 + 1 + length (join_nl (q :: r)))%nat)
          by (rewrite !app_length; cbn [length]; lia).
        rewrite !ctr_unfold by (try (rewrite !app_length; cbn [length]; lia); assumption).
        assert (S1 : skipn (length pre) (pre ++ l0 ++ c_nl :: join_nl (q :: r)) = l0 ++ c_nl :: join_nl (q :: r)) by apply skipn_app_exact.
        assert (S2 : skipn (length (pre ++ l0 ++ [c_nl])) (pre ++ l0 ++ c_nl :: join_nl (q :: r)) = join_nl (q :: r)).
        { replace (pre ++ l0 ++ c_nl :: join_nl (q :: r)) with ((pre ++ l0 ++ [c_nl]) ++ join_nl (q :: r)) by (rewrite <- !app_assoc; reflexivity).
          apply skipn_app_exact. }
        rewrite S1, S2.
        rewrite (idxp_line c_arrow arrow_nl ltac:(discriminate)). rewrite H0.
        destruct (idxp c_arrow (join_nl (q :: r))) as [j|]; cbn [option_map]; [|reflexivity].
        f_equal. f_equal. rewrite !app_length. cbn [length]. lia. }
      rewrite Eshift.
      replace (pre ++ l0 ++ c_nl :: join_nl (q :: r)) with ((pre ++ l0 ++ [c_nl]) ++ join_nl (q :: r)) in * by (rewrite <- !app_assoc; reflexivity).
      apply IH1; auto. rewrite app_length in Hf. cbn [length] in Hf. lia. }
    split; [exact M0|].
    intros l pre fuel Hl H1 Hok Hoa Hf Hs. cbn [filter]. unfold has_arrow at 1. unfold contains. unfold one_arrow in H1.
    destruct (idxp c_arrow l) as [a|] eqn:Ea; [|apply M0; auto].
    pose proof (arrow_len l a Ea) as Hal. destruct fuel as [|f]; [lia|].
    rewrite join_nl_cons in *.
    assert (Hlen : length (pre ++ l ++ c_nl :: join_nl (q :: r)) = (length pre + length l + 1 + length (join_nl (q :: r)))%nat)
      by (rewrite !app_length; cbn [length]; lia).
    unfold Puml.size. rewrite ctr_unfold by (try lia; assumption).
    replace (length pre) with (length pre + 0)%nat at 1 by lia. rewrite skipn_app_shift. cbn [skipn].
    rewrite (idxp_line c_arrow arrow_nl ltac:(discriminate)). rewrite Ea. cbn [length]. f_equal.
    replace (pre ++ l ++ c_nl :: join_nl (q :: r)) with ((pre ++ firstn (a + 2) l) ++ join_nl (skipn (a + 2) l :: q :: r)).
    2:{ rewrite join_nl_cons. rewrite <- app_assoc. f_equal. rewrite app_assoc. rewrite firstn_skipn. reflexivity. }
    match goal with |- context[count_transitions_loop _ _ (N.of_nat ?x)] =>
      replace (N.of_nat x) with (Puml.size (pre ++ firstn (a + 2) l)) by (unfold Puml.size; rewrite app_length, firstn_length; lia) end.
    apply M0; auto.
    + unfold line_ok. apply hasb_skipn. exact Hl.
    + rewrite join_nl_cons, app_length in *. rewrite skipn_length. cbn [length] in *. lia.
    + rewrite join_nl_cons, <- app_assoc. rewrite (app_assoc (firstn (a + 2) l)), firstn_skipn. exact Hs.
Qed.

Theorem count_transitions_exact lines :
  Forall line_ok lines -> Forall one_arrow lines -> size (join_nl lines) < npos ->
  count_transitions (join_nl lines) = length (filter has_arrow lines).
Proof.
  intros Hok Hoa Hs. unfold count_transitions. destruct lines as [|l rest].
  - cbn. reflexivity.
  - inversion Hok; subst. inversion Hoa; subst.
    change (join_nl (l :: rest)) with ([] ++ join_nl (l :: rest)) at 2. change 0 with (size []).
    apply (proj2 (both rest)); auto.
Qed.
