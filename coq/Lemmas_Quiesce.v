(* Lemmas_Quiesce.v - "not wedged": after every operation no machine at any nesting level is left with its
   event-processing marker set. *)
From Msm Require Import Run Lemmas_NoThrow.
From Coq Require Import Lia.

(* ---- idle trees ---- *)
Fixpoint idle (rn:rnode) : Prop :=
  let 'RN _ ks _ _ _ _ p _ := rn in
  p = false /\
  (fix all (l:list (option rnode)) : Prop :=
     match l with [] => True | Some k :: t => idle k /\ all t | None :: t => all t end) ks.

Definition okid (ok:option rnode) : Prop := match ok with Some k => idle k | None => True end.
Definition kids_idle (rn:rnode) : Prop := Forall okid (kids rn).

Lemma idle_unfold rn : idle rn <-> processing rn = false /\ kids_idle rn.
Proof.
  destruct rn as [a ks h q d c p r]. cbn [idle processing kids_idle kids].
  assert (E : forall l, (fix all (l:list (option rnode)) : Prop :=
     match l with [] => True | Some k :: t => idle k /\ all t | None :: t => all t end) l <-> Forall okid l).
  { induction l as [|[k|] t IH]; cbn.
    - split; auto.
    - rewrite IH. split; [intros [H1 H2]; constructor; auto | intros H; inversion H; auto].
    - rewrite IH. split; [intros H; constructor; cbn; auto | intros H; inversion H; auto]. }
  rewrite E. reflexivity.
Qed.

(* ---- preservation of a predicate on the node, whatever the outcome (normal or exceptional) ---- *)
Definition pres {A} (P:rnode -> Prop) (m:M A) : Prop :=
  forall rn g r rn' g', P rn -> m rn g = (r, rn', g') -> P rn'.

Section Pres.
Variable P : rnode -> Prop.

Lemma pres_ret {A} (a:A) : pres P (ret a).
Proof. intros rn g r rn' g' H E. inversion E; subst; auto. Qed.
Lemma pres_throw {A} : pres P (@throw A).
Proof. intros rn g r rn' g' H E. inversion E; subst; auto. Qed.
Lemma pres_bind {A B} (m:M A) (k:A -> M B) : pres P m -> (forall a, pres P (k a)) -> pres P (bind m k).
Proof.
  intros Hm Hk rn g r rn' g' H E. unfold bind in E. destruct (m rn g) as [[[a|] rn1] g1] eqn:E1.
  - eapply Hk; [eapply Hm; eauto | eauto].
  - inversion E; subst. eapply Hm; eauto.
Qed.
Lemma pres_catch {A} (m h:M A) : pres P m -> pres P h -> pres P (catch m h).
Proof.
  intros Hm Hh rn g r rn' g' H E. unfold catch in E. destruct (m rn g) as [[[a|] rn1] g1] eqn:E1.
  - inversion E; subst. eapply Hm; eauto.
  - eapply Hh; [eapply Hm; eauto | eauto].
Qed.
Lemma pres_on_throw {A} (m:M A) c : pres P m -> pres P c -> pres P (on_throw m c).
Proof.
  intros Hm Hc rn g r rn' g' H E. unfold on_throw in E. destruct (m rn g) as [[[a|] rn1] g1] eqn:E1.
  - inversion E; subst. eapply Hm; eauto.
  - destruct (c rn1 g1) as [[u rn2] g2] eqn:E2. inversion E; subst. eapply Hc; [eapply Hm; eauto | eauto].
Qed.
Lemma pres_bind_get {A} (k:rnode -> M A) : (forall rn0, P rn0 -> pres P (k rn0)) -> pres P (bind get k).
Proof. intros Hk rn g r rn' g' H E. unfold bind, get in E. eapply Hk; eauto. Qed.
Lemma pres_get : pres P get.
Proof. intros rn g r rn' g' H E. inversion E; subst; auto. Qed.
Lemma pres_getg : pres P getg.
Proof. intros rn g r rn' g' H E. inversion E; subst; auto. Qed.
Lemma pres_putg g0 : pres P (putg g0).
Proof. intros rn g r rn' g' H E. inversion E; subst; auto. Qed.
Lemma pres_put x : P x -> pres P (put x).
Proof. intros Hx rn g r rn' g' H E. inversion E; subst; auto. Qed.
Lemma pres_modify f : (forall rn, P rn -> P (f rn)) -> pres P (modify f).
Proof. intros Hf rn g r rn' g' H E. inversion E; subst; auto. Qed.
Lemma pres_set_bad w : pres P (set_bad w).
Proof. intros rn g r rn' g' H E. inversion E; subst; auto. Qed.
Lemma pres_emit it : pres P (emit it).
Proof. intros rn g r rn' g' H E. inversion E; subst; auto. Qed.
Lemma pres_push_up e : pres P (push_up e).
Proof. intros rn g r rn' g' H E. inversion E; subst; auto. Qed.
Lemma pres_take_up : pres P take_up.
Proof. intros rn g r rn' g' H E. inversion E; subst; auto. Qed.
Lemma pres_iterM {A} (f:A -> M unit) l : (forall x, pres P (f x)) -> pres P (iterM f l).
Proof. intros Hf. induction l as [|x t IH]; cbn [iterM]; [apply pres_ret | apply pres_bind; auto]. Qed.
Lemma pres_if {A} (b:bool) (m1 m2:M A) : pres P m1 -> pres P m2 -> pres P (if b then m1 else m2).
Proof. destruct b; auto. Qed.
Lemma pres_when b m : pres P m -> pres P (when b m).
Proof. intros Hm. destruct b; cbn; [auto | apply pres_ret]. Qed.
Lemma pres_chain_gen {A} (ex:A -> M nat) cont merge l : (forall x, pres P (ex x)) -> pres P (chain_gen ex cont merge l).
Proof.
  intros Hex. induction l as [|x t IH]; cbn [chain_gen]; [apply pres_ret|].
  apply pres_bind; auto. intros res. destruct (cont res); [|apply pres_ret].
  apply pres_bind; auto. intros. apply pres_ret.
Qed.
Lemma pres_loop_gen {A} (ex:A -> M nat) cont step l : (forall x, pres P (ex x)) -> forall acc, pres P (loop_gen ex cont step acc l).
Proof.
  intros Hex. induction l as [|x t IH]; intros acc; cbn [loop_gen]; [apply pres_ret|].
  destruct (cont acc); [|apply pres_ret]. apply pres_bind; auto.
Qed.
End Pres.

Ltac pres_step :=
  cbv beta;
  lazymatch goal with
  | |- pres _ (ret _) => apply pres_ret
  | |- pres _ throw => apply pres_throw
  | |- pres _ get => apply pres_get
  | |- pres _ getg => apply pres_getg
  | |- pres _ (putg _) => apply pres_putg
  | |- pres _ (set_bad _) => apply pres_set_bad
  | |- pres _ (emit _) => apply pres_emit
  | |- pres _ (push_up _) => apply pres_push_up
  | |- pres _ take_up => apply pres_take_up
  | |- pres _ (bind get _) => apply pres_bind_get; let rn0 := fresh "rn0" in let H := fresh "Hrn0" in intros rn0 H
  | |- pres _ (bind _ _) => apply pres_bind; [|intros ?]
  | |- pres _ (catch _ _) => apply pres_catch
  | |- pres _ (on_throw _ _) => apply pres_on_throw
  | |- pres _ (iterM _ _) => apply pres_iterM; intros ?
  | |- pres _ (when _ _) => apply pres_when
  | |- pres _ (chain_gen _ _ _ _) => apply pres_chain_gen; intros ?
  | |- pres _ (loop_gen _ _ _ _ _) => apply pres_loop_gen; intros ?
  | |- pres _ (modify _) => apply pres_modify; intros ? ?; solve [auto with stab]
  | |- pres _ (put _) => apply pres_put; solve [auto with stab]
  | |- pres _ (if ?b then _ else _) => destruct b
  | |- pres _ (match ?x with _ => _ end) => destruct x
  | |- _ => solve [auto with stab]
  end.
Ltac pres_auto := repeat pres_step.

(* predicates that do not look at what the queue / activity setters change *)
Record stable (P:rnode -> Prop) : Prop := {
  st_act : forall rn a, P rn -> P (set_act rn a);
  st_hist : forall rn a, P rn -> P (set_hist rn a);
  st_msgq : forall rn a, P rn -> P (set_msgq rn a);
  st_defq : forall rn a, P rn -> P (set_defq rn a);
  st_curseq : forall rn a, P rn -> P (set_curseq rn a);
  st_running : forall rn a, P rn -> P (set_running rn a)
}.

Section BackGeneric.
Variable cf : cfg.
Variable parents : list (option nat).
Variable contained : bool.
Variable mc : machine.
Variable children : list (option child_ops).
Variable P : rnode -> Prop.
Hypothesis HS : stable P.

Lemma hs_act rn a : P rn -> P (set_act rn a). Proof. apply (st_act P HS). Qed.
Lemma hs_hist rn a : P rn -> P (set_hist rn a). Proof. apply (st_hist P HS). Qed.
Lemma hs_msgq rn a : P rn -> P (set_msgq rn a). Proof. apply (st_msgq P HS). Qed.
Lemma hs_defq rn a : P rn -> P (set_defq rn a). Proof. apply (st_defq P HS). Qed.
Lemma hs_curseq rn a : P rn -> P (set_curseq rn a). Proof. apply (st_curseq P HS). Qed.
Lemma hs_running rn a : P rn -> P (set_running rn a). Proof. apply (st_running P HS). Qed.
Hint Resolve hs_act hs_hist hs_msgq hs_defq hs_curseq hs_running : stab.

(* what is assumed about the submachines and about the entry of a state *)
Hypothesis Hpei : forall s co fuel ev src, child children s = Some co -> pres P (lift_child s 0 (co_pei co fuel ev src)).
Hypothesis Hexit_pre : forall s co fuel ev, child children s = Some co -> pres P (lift_child s tt (co_exit_pre co fuel ev)).
Hypothesis Hexit_post : forall s co ev, child children s = Some co -> pres P (lift_child s tt (co_exit_post co ev)).
Hypothesis Hentry : forall fwd fuel s ev k, pres P (exec_entry_gen cf contained mc children fwd fuel s ev k).

Lemma p_push_msg q : pres P (push_msg q).
Proof. unfold push_msg. pres_auto. Qed.
Lemma p_push_def q : pres P (push_def q).
Proof. unfold push_def. pres_auto. Qed.
Lemma p_set_act_at r s : pres P (set_act_at r s).
Proof. unfold set_act_at. pres_auto. Qed.
Hint Resolve p_push_msg p_push_def p_set_act_at : stab.

Lemma p_cb_submit e : pres P (cb_submit mc e).
Proof. unfold cb_submit. pres_auto. Qed.
Lemma p_cb_enqueue e : pres P (cb_enqueue e).
Proof. unfold cb_enqueue. pres_auto. Qed.
Hint Resolve p_cb_submit p_cb_enqueue : stab.

Lemma p_callback_at path k id ev w : pres P (callback_at (cb_submit mc) cb_enqueue path k id ev w).
Proof. unfold callback_at. pres_auto. Qed.
Lemma p_cb k id ev w : pres P (cb mc k id ev w).
Proof. apply p_callback_at. Qed.
Lemma p_cb_at path k id ev w : pres P (cb_at mc path k id ev w).
Proof. apply p_callback_at. Qed.
Hint Resolve p_cb p_cb_at : stab.

Lemma p_absorb_up_gen b : pres P (absorb_up b mc).
Proof. unfold absorb_up. destruct b; pres_auto. Qed.
Lemma p_absorb_up : pres P (absorb_up contained mc).
Proof. exact (p_absorb_up_gen contained). Qed.
Hint Resolve p_absorb_up : stab.

Lemma p_in_child {A} s (d:A) m : pres P (lift_child s d m) -> pres P (in_child contained mc s d m).
Proof. intros H. unfold in_child. pres_auto. Qed.

Lemma p_defer_event e : pres P (defer_event e).
Proof. unfold defer_event. pres_auto. Qed.
Hint Resolve p_defer_event : stab.

Lemma p_exec_exit fuel s ev : pres P (exec_exit contained mc children fuel s ev).
Proof.
  unfold exec_exit. destruct (child children s) as [co|] eqn:E; [|auto with stab].
  pres_auto; apply p_in_child; eauto.
Qed.
Hint Resolve p_exec_exit : stab.

Lemma p_guard_value r : pres P (guard_value r).
Proof. unfold guard_value. pres_auto. Qed.
Hint Resolve p_guard_value : stab.
Lemma p_run_action x ev : pres P (run_action mc x ev).
Proof. unfold run_action. pres_auto. Qed.
Lemma p_run_guard x ev : pres P (run_guard mc x ev).
Proof. unfold run_guard. pres_auto. Qed.
Lemma p_exec_entry fuel s ev k : pres P (exec_entry cf contained mc children fuel s ev k).
Proof. exact (Hentry true fuel s ev k). Qed.
Hint Resolve p_run_action p_run_guard Hentry p_exec_entry : stab.

Lemma p_exec_row fuel r x ev : pres P (exec_row cf contained mc children fuel r x ev).
Proof. unfold exec_row. pres_auto. Qed.
Hint Resolve p_exec_row : stab.

Lemma p_exec_item fuel r s ev it : pres P (exec_item cf contained mc children fuel r s ev it).
Proof.
  unfold exec_item. destruct it; [auto with stab | | pres_auto].
  destruct (child children s) as [co|] eqn:E; [|pres_auto].
  pres_auto. apply p_in_child; eauto.
Qed.
Hint Resolve p_exec_item : stab.

Lemma p_run_cell fuel r s ev l : pres P (run_cell cf contained mc children fuel r s ev l).
Proof.
  unfold run_cell, fct_chain, chain_row. destruct (c_fct cf); [pres_auto|].
  destruct l as [|x [|y t]]; pres_auto.
Qed.
Hint Resolve p_run_cell : stab.

Lemma p_regions_loop fuel ev n : forall r acc, pres P (regions_loop cf parents contained mc children fuel ev n r acc).
Proof. induction n as [|n IH]; intros r acc; cbn [regions_loop]; pres_auto. Qed.
Hint Resolve p_regions_loop : stab.

Lemma p_nt_phase ev direct handled : pres P (nt_phase contained mc ev direct handled).
Proof. unfold nt_phase. pres_auto. Qed.
Hint Resolve p_nt_phase : stab.

Lemma p_do_process_event fuel ev direct : pres P (do_process_event cf parents contained mc children fuel ev direct).
Proof. unfold do_process_event. pres_auto. Qed.
Hint Resolve p_do_process_event : stab.

Section WithRec.
Variable pei_rec : evt -> nat -> M nat.
Hypothesis Hrec : forall e src, pres P (pei_rec e src).
Hint Resolve Hrec : stab.

Lemma p_oof {A} (a:A) : pres P (oof a).
Proof. unfold oof. pres_auto. Qed.
Hint Resolve @p_oof : stab.

Lemma p_drain_msgq fuel : pres P (drain_msgq pei_rec fuel).
Proof. induction fuel as [|f IH]; cbn [drain_msgq]; pres_auto. Qed.
Hint Resolve p_drain_msgq : stab.

Lemma p_drain_one : pres P (drain_one pei_rec).
Proof. unfold drain_one. pres_auto. Qed.

Lemma p_deferred_loop fuel : pres P (deferred_loop pei_rec fuel).
Proof. induction fuel as [|f IH]; cbn [deferred_loop]; pres_auto. Qed.
Hint Resolve p_deferred_loop : stab.

Lemma p_handle_deferred fuel : forall b, pres P (handle_deferred mc pei_rec fuel b).
Proof. induction fuel as [|f IH]; intros b; cbn [handle_deferred]; pres_auto. Qed.
Hint Resolve p_handle_deferred : stab.

Lemma p_start_regions fuel ev n : forall r, pres P (start_regions cf contained mc children fuel ev n r).
Proof. induction n as [|n IH]; intros r; cbn [start_regions]; pres_auto. Qed.
Hint Resolve p_start_regions : stab.

Lemma p_internal_start fuel ev : pres P (internal_start cf contained mc children pei_rec fuel ev).
Proof. unfold internal_start. pres_auto. Qed.
Hint Resolve p_internal_start : stab.

Lemma p_exit_regions fuel ev n : forall r, pres P (exit_regions contained mc children fuel ev n r).
Proof. induction n as [|n IH]; intros r; cbn [exit_regions]; pres_auto. Qed.
Hint Resolve p_exit_regions : stab.

Lemma p_do_exit_pre fuel ev : pres P (do_exit_pre contained mc children fuel ev).
Proof. unfold do_exit_pre. auto with stab. Qed.
Lemma p_do_exit_post ev : pres P (do_exit_post mc ev).
Proof. unfold do_exit_post. destruct (m_hist mc); pres_auto. Qed.
Lemma p_do_stop fuel : pres P (do_stop contained mc children fuel).
Proof. unfold do_stop. pres_auto; auto using p_do_exit_pre, p_do_exit_post. Qed.

(* predicates that do not look at the marker either (the kids' state) *)
Section WithSP.
Hypothesis Hsp : forall rn b, P rn -> P (set_processing rn b).
Hint Resolve Hsp : stab.

Lemma p_pei_body fuel ev src : pres P (pei_body cf parents contained mc children pei_rec fuel ev src).
Proof. unfold pei_body. pres_auto. Qed.
Lemma p_do_entry_pre ev k : pres P (do_entry_pre mc ev k).
Proof. unfold do_entry_pre. pres_auto. Qed.
Lemma p_do_entry_post fuel ev k : pres P (do_entry_post cf contained mc children pei_rec fuel ev k).
Proof. unfold do_entry_post. pres_auto. Qed.
Lemma p_do_start fuel : pres P (do_start cf contained mc children pei_rec fuel).
Proof. unfold do_start. pres_auto. Qed.
End WithSP.
End WithRec.

Lemma p_pei (Hsp : forall rn b, P rn -> P (set_processing rn b)) fuel : forall ev src, pres P (pei cf parents contained mc children fuel ev src).
Proof.
  induction fuel as [|f IH]; intros ev src; cbn [pei]; [apply p_oof|].
  apply p_pei_body; auto.
Qed.
End BackGeneric.

(* ---- outcome-aware triples ---- *)
Definition tri {A} (Pre:rnode -> Prop) (m:M A) (PostN PostE:rnode -> Prop) : Prop :=
  forall rn g r rn' g', Pre rn -> m rn g = (r, rn', g') -> match r with Some _ => PostN rn' | None => PostE rn' end.

Lemma pres_tri {A} P (m:M A) : pres P m -> tri P m P P.
Proof. intros H rn g r rn' g' Hp E. destruct r; eapply H; eauto. Qed.
Lemma tri_pres {A} P (m:M A) : tri P m P P -> pres P m.
Proof. intros H rn g r rn' g' Hp E. specialize (H rn g r rn' g' Hp E). destruct r; auto. Qed.
Lemma tri_bind {A B} Pre Mid PostN PostE (m:M A) (k:A -> M B) :
  tri Pre m Mid PostE -> (forall a, tri Mid (k a) PostN PostE) -> tri Pre (bind m k) PostN PostE.
Proof.
  intros Hm Hk rn g r rn' g' Hp E. unfold bind in E. destruct (m rn g) as [[[a|] rn1] g1] eqn:E1.
  - eapply Hk; [|eauto]. apply (Hm rn g (Some a) rn1 g1 Hp E1).
  - inversion E; subst. apply (Hm rn g None rn' g' Hp E1).
Qed.
Lemma tri_on_throw {A} Pre Mid PostN PostE (m:M A) c :
  tri Pre m PostN Mid -> tri Mid c PostE PostE -> tri Pre (on_throw m c) PostN PostE.
Proof.
  intros Hm Hc rn g r rn' g' Hp E. unfold on_throw in E. destruct (m rn g) as [[[a|] rn1] g1] eqn:E1.
  - inversion E; subst. apply (Hm rn g (Some a) rn' g' Hp E1).
  - destruct (c rn1 g1) as [[u rn2] g2] eqn:E2. inversion E; subst.
    pose proof (Hm rn g None rn1 g1 Hp E1) as H1. cbn in H1.
    pose proof (Hc rn1 g1 u rn' g' H1 E2) as H2. destruct u; auto.
Qed.
Lemma tri_weaken {A} (Pre Pre' PostN PostN' PostE PostE':rnode -> Prop) (m:M A) :
  tri Pre m PostN PostE -> (forall rn, Pre' rn -> Pre rn) -> (forall rn, PostN rn -> PostN' rn) -> (forall rn, PostE rn -> PostE' rn) ->
  tri Pre' m PostN' PostE'.
Proof. intros H H1 H2 H3 rn g r rn' g' Hp E. specialize (H rn g r rn' g' (H1 _ Hp) E). destruct r; auto. Qed.

(* the kid under state s satisfies Q, every other kid is idle *)
Definition kid_ok (Q:rnode -> Prop) (ok:option rnode) : Prop := match ok with Some k => Q k | None => True end.
Definition kids_at (s:nat) (Q:rnode -> Prop) (rn:rnode) : Prop :=
  forall i ok, nth_error (kids rn) i = Some ok -> if Nat.eqb i s then kid_ok Q ok else okid ok.

Lemma kids_at_idle s rn : kids_at s idle rn <-> kids_idle rn.
Proof.
  unfold kids_at, kids_idle. rewrite Forall_forall. split.
  - intros H ok Hin. apply In_nth_error in Hin as [i Hi]. specialize (H i ok Hi). destruct (Nat.eqb i s); auto.
  - intros H i ok Hi. apply nth_error_In in Hi. specialize (H ok Hi). destruct (Nat.eqb i s); auto.
Qed.

Lemma kids_at_stable s Q : stable (kids_at s Q).
Proof. constructor; intros [a ks h q d c p r] x H; exact H. Qed.
Lemma kids_idle_stable : stable kids_idle.
Proof. constructor; intros [a ks h q d c p r] x H; exact H. Qed.
Lemma kids_at_set_processing s Q rn b : kids_at s Q rn -> kids_at s Q (set_processing rn b).
Proof. destruct rn; auto. Qed.
Lemma kids_idle_set_processing rn b : kids_idle rn -> kids_idle (set_processing rn b).
Proof. destruct rn; auto. Qed.

Lemma nth_error_upd_same {A} (l:list A) i x y : nth_error (upd l i x) i = Some y -> y = x.
Proof.
  revert i. induction l as [|a l IH]; intros [|i] H; cbn in *; try discriminate.
  - inversion H; auto.
  - apply IH in H. auto.
Qed.
Lemma nth_error_upd_other {A} (l:list A) i j x : i <> j -> nth_error (upd l i x) j = nth_error l j.
Proof.
  revert i j. induction l as [|a l IH]; intros [|i] [|j] H; cbn; try congruence; auto.
Qed.
Lemma nth_nth_error {A} (l:list (option A)) i x : nth i l None = Some x -> nth_error l i = Some (Some x).
Proof.
  revert i. induction l as [|a l IH]; intros [|i] H; cbn in *; try discriminate; auto. subst. reflexivity.
Qed.

Lemma kids_set_kids rn x : kids (set_kids rn x) = x.
Proof. destruct rn; reflexivity. Qed.

(* running a computation on the kid under s *)
Lemma tri_lift {A} s (d:A) (m:M A) (Q QN QE:rnode -> Prop) :
  tri Q m QN QE ->
  tri (kids_at s Q) (lift_child s d m) (kids_at s QN) (kids_at s QE).
Proof.
  intros Hm rn g r rn' g' Hp E. unfold lift_child in E.
  destruct (nth s (kids rn) None) as [kn|] eqn:Ek.
  - destruct (m kn _) as [[r1 kn'] g1] eqn:Em. inversion E; subst. clear E.
    assert (Hkn : Q kn).
    { pose proof (Hp s (Some kn) (nth_nth_error _ _ _ Ek)) as H. rewrite Nat.eqb_refl in H. exact H. }
    pose proof (Hm kn _ r kn' g1 Hkn Em) as Hpost.
    assert (G : forall QX:rnode -> Prop, QX kn' -> kids_at s QX (set_kids rn (upd (kids rn) s (Some kn')))).
    { intros QX Hx i ok Hi. unfold kids_at in Hp. rewrite kids_set_kids in Hi.
      destruct (Nat.eqb i s) eqn:Eis.
      - apply Nat.eqb_eq in Eis. subst i. apply nth_error_upd_same in Hi. subst ok. exact Hx.
      - apply Nat.eqb_neq in Eis. rewrite nth_error_upd_other in Hi by auto. specialize (Hp i ok Hi).
        replace (Nat.eqb i s) with false in Hp by (symmetry; apply Nat.eqb_neq; auto). exact Hp. }
    destruct r; apply G; exact Hpost.
  - inversion E; subst. intros i ok Hi. specialize (Hp i ok Hi). destruct (Nat.eqb i s) eqn:Eis; auto.
    apply Nat.eqb_eq in Eis. subst i.
    assert (ok = None).
    { clear -Ek Hi. revert s Ek Hi. generalize (kids rn'). induction l as [|a l IH]; intros [|s] Ek Hi; cbn in *; try discriminate.
      - inversion Hi; subst; auto.
      - eapply IH; eauto. }
    subst ok. exact I.
Qed.

Lemma kids_at_mono s (Q Q':rnode -> Prop) rn : (forall k, Q k -> Q' k) -> kids_at s Q rn -> kids_at s Q' rn.
Proof.
  intros HQ H i ok Hi. specialize (H i ok Hi). destruct (Nat.eqb i s); auto. destruct ok; cbn in *; auto.
Qed.
Lemma idle_kids k : idle k -> kids_idle k.
Proof. intros H. apply idle_unfold in H. tauto. Qed.

(* own marker *)
Definition flag_is (b:bool) (rn:rnode) : Prop := processing rn = b.
Lemma flag_stable b : stable (flag_is b).
Proof. constructor; intros [a ks h q d c p r] x H; exact H. Qed.
Lemma flag_lift {A} b s (d:A) m : pres (flag_is b) (lift_child s d m).
Proof.
  intros rn g r rn' g' Hp E. unfold lift_child in E. destruct (nth s (kids rn) None) as [kn|].
  - destruct (m kn _) as [[r1 kn'] g1]. inversion E; subst. destruct rn; exact Hp.
  - inversion E; subst. exact Hp.
Qed.

(* ---- what a level guarantees to the level that contains it ---- *)
Record cspec (co:child_ops) : Prop := {
  cs_pei : forall fuel ev src, pres idle (co_pei co fuel ev src);
  cs_pre : forall ev k, pres kids_idle (co_entry_pre co ev k);
  cs_post : forall fuel ev k, tri kids_idle (co_entry_post co fuel ev k) idle kids_idle;
  cs_exit_pre : forall fuel ev, pres idle (co_exit_pre co fuel ev);
  cs_exit_post : forall ev, pres idle (co_exit_post co ev);
  cs_start : forall fuel, pres idle (co_start co fuel);
  cs_stop : forall fuel, pres idle (co_stop co fuel);
  cs_enqueue : forall e, pres idle (co_enqueue co e);
  cs_drain : forall fuel n, pres idle (co_drain co fuel n)
}.
Definition children_ok (children:list (option child_ops)) : Prop :=
  forall s co, nth s children None = Some co -> cspec co.

Lemma pres_and {A} (P Q:rnode -> Prop) (m:M A) : pres P m -> pres Q m -> pres (fun rn => P rn /\ Q rn) m.
Proof. intros HP HQ rn g r rn' g' [H1 H2] E. split; [eapply HP | eapply HQ]; eauto. Qed.
Lemma pres_iff {A} (P Q:rnode -> Prop) (m:M A) : (forall rn, P rn <-> Q rn) -> pres P m -> pres Q m.
Proof. intros H HP rn g r rn' g' Hq E. apply H. eapply HP; eauto. apply H. auto. Qed.
Lemma pres_idle {A} (m:M A) : pres (flag_is false) m -> pres kids_idle m -> pres idle m.
Proof.
  intros H1 H2. eapply pres_iff; [|apply (pres_and _ _ _ H1 H2)].
  intros rn. rewrite idle_unfold. reflexivity.
Qed.

Lemma lift_idle {A} s (d:A) m : pres idle m -> pres kids_idle (lift_child s d m).
Proof.
  intros H. apply tri_pres. eapply tri_weaken.
  - apply (tri_lift s d m idle idle idle). apply pres_tri; auto.
  - intros rn. apply kids_at_idle.
  - intros rn. apply kids_at_idle.
  - intros rn. apply kids_at_idle.
Qed.

Section BackInst.
Variable cf : cfg.
Variable parents : list (option nat).
Variable contained : bool.
Variable mc : machine.
Variable children : list (option child_ops).
Hypothesis Hch : children_ok children.
Hypothesis Hresets : entry_throw_resets cf = true.
Hypothesis Hstartq : start_queues cf = true.

(* the marker of this level *)
Lemma f_entry b fwd fuel s ev k : pres (flag_is b) (exec_entry_gen cf contained mc children fwd fuel s ev k).
Proof.
  unfold exec_entry_gen. pose proof (flag_stable b) as HS.
  destruct (child children s) as [co|] eqn:E.
  - rewrite Hresets. apply pres_on_throw; [|apply flag_lift].
    apply pres_bind; [apply p_in_child; auto; apply flag_lift|]. intros _.
    apply pres_bind; [apply p_cb_at; auto|]. intros _. apply p_in_child; auto. apply flag_lift.
  - destruct (s_kind (get_state mc s)); try (apply p_cb; auto).
    apply pres_bind; [apply p_cb; auto | intros _; destruct (fwd && negb (Nat.eqb (e_ty ev) EV_NONE)); [apply pres_push_up | apply pres_ret]].
Qed.

(* the kids of this level *)
Lemma k_entry fwd fuel s ev k : pres kids_idle (exec_entry_gen cf contained mc children fwd fuel s ev k).
Proof.
  unfold exec_entry_gen. destruct (child children s) as [co|] eqn:E.
  - rewrite Hresets. pose proof (Hch s co E) as Hco.
    assert (Habs : forall (a:unit) Q, pres (kids_at s Q) (absorb_up contained mc ;; ret a)).
    { intros a Q. apply pres_bind; [apply p_absorb_up; apply kids_at_stable | intros; apply pres_ret]. }
    apply tri_pres. eapply tri_weaken with (Pre := kids_at s idle) (PostN := kids_at s idle) (PostE := kids_at s idle);
      [| apply kids_at_idle | apply kids_at_idle | apply kids_at_idle].
    apply tri_on_throw with (Mid := kids_at s kids_idle).
    + (* the three steps *)
      apply tri_bind with (Mid := kids_at s kids_idle).
      { unfold in_child. apply tri_bind with (Mid := kids_at s kids_idle).
        - apply tri_weaken with (Pre := kids_at s kids_idle) (PostN := kids_at s kids_idle) (PostE := kids_at s kids_idle);
            [apply (tri_lift s tt _ kids_idle kids_idle kids_idle); apply pres_tri; apply (cs_pre co Hco) | | auto | auto].
          intros rn. apply kids_at_mono. apply idle_kids.
        - intros a. apply pres_tri. apply Habs. }
      intros _. apply tri_bind with (Mid := kids_at s kids_idle).
      { apply pres_tri. apply p_cb_at. apply kids_at_stable. }
      intros _. unfold in_child. apply tri_bind with (Mid := kids_at s idle).
      { apply (tri_lift s tt _ kids_idle idle kids_idle). apply (cs_post co Hco). }
      intros a. apply tri_weaken with (Pre := kids_at s idle) (PostN := kids_at s idle) (PostE := kids_at s idle);
        [apply pres_tri; apply Habs | auto | auto | ].
      intros rn. apply kids_at_mono. apply idle_kids.
    + (* the destructor *)
      apply (tri_lift s tt (modify (fun rn => set_processing rn false)) kids_idle idle idle).
      intros rn g r rn' g' Hk Em. inversion Em; subst. cbn. apply idle_unfold. split; [destruct rn; reflexivity | apply kids_idle_set_processing; auto].
  - pose proof kids_idle_stable as HS.
    destruct (s_kind (get_state mc s)); try (apply p_cb; auto).
    apply pres_bind; [apply p_cb; auto | intros _; destruct (fwd && negb (Nat.eqb (e_ty ev) EV_NONE)); [apply pres_push_up | apply pres_ret]].
Qed.

Let Kpei : forall s co fuel ev src, child children s = Some co -> pres kids_idle (lift_child s 0 (co_pei co fuel ev src)).
Proof. intros. apply lift_idle. apply (cs_pei co (Hch s co H)). Qed.
Let Kexit_pre : forall s co fuel ev, child children s = Some co -> pres kids_idle (lift_child s tt (co_exit_pre co fuel ev)).
Proof. intros. apply lift_idle. apply (cs_exit_pre co (Hch s co H)). Qed.
Let Kexit_post : forall s co ev, child children s = Some co -> pres kids_idle (lift_child s tt (co_exit_post co ev)).
Proof. intros. apply lift_idle. apply (cs_exit_post co (Hch s co H)). Qed.
Let Fpei b : forall s co fuel ev src, child children s = Some co -> pres (flag_is b) (lift_child s 0 (co_pei co fuel ev src)).
Proof. intros. apply flag_lift. Qed.
Let Fexit_pre b : forall s co fuel ev, child children s = Some co -> pres (flag_is b) (lift_child s tt (co_exit_pre co fuel ev)).
Proof. intros. apply flag_lift. Qed.
Let Fexit_post b : forall s co ev, child children s = Some co -> pres (flag_is b) (lift_child s tt (co_exit_post co ev)).
Proof. intros. apply flag_lift. Qed.

(* kids: every function of the level *)
Lemma k_pei fuel ev src : pres kids_idle (pei cf parents contained mc children fuel ev src).
Proof. apply p_pei; auto using kids_idle_stable, k_entry, kids_idle_set_processing. Qed.

(* marker: the bracket of process_event_internal *)
Lemma flag_bracket {B} (X H:M nat) (k:nat -> M B) :
  nothrow H -> (forall a, pres (flag_is false) (k a)) ->
  pres (flag_is false) (modify (fun rn => set_processing rn true) ;; a <- catch X H ;; modify (fun rn => set_processing rn false) ;; k a).
Proof.
  intros HH Hk rn g r rn' g' _ E. unfold bind at 1 in E. unfold modify at 1 in E.
  unfold bind at 1 in E. unfold catch in E.
  destruct (X (set_processing rn true) g) as [[[a|] rn1] g1] eqn:EX.
  - unfold bind at 1 in E. unfold modify at 1 in E. eapply Hk; [|exact E]. destruct rn1; reflexivity.
  - destruct (HH rn1 g1) as (a & rn2 & g2 & EH). rewrite EH in E.
    unfold bind at 1 in E. unfold modify at 1 in E. eapply Hk; [|exact E]. destruct rn2; reflexivity.
Qed.

Lemma f_pei fuel : forall ev src, pres (flag_is false) (pei cf parents contained mc children fuel ev src).
Proof.
  pose proof (flag_stable false) as HS.
  induction fuel as [|f IH]; intros ev src; cbn [pei]; [apply p_oof|].
  unfold pei_body. apply pres_bind_get. intros rn0 Hrn0.
  destruct (blocked mc rn0 (e_ty ev)); [apply pres_ret|].
  destruct (processing rn0); [apply pres_bind; [apply p_push_msg; auto | intros; apply pres_ret]|].
  apply flag_bracket.
  - apply nt_bind; [apply nt_cb_exc | intros; apply nt_ret].
  - intros handled.
    assert (HD : forall fu, pres (flag_is false) (drain_msgq (pei cf parents contained mc children f) fu)) by (intros; apply p_drain_msgq; auto).
    assert (HH : forall fu b, pres (flag_is false) (handle_deferred mc (pei cf parents contained mc children f) fu b)) by (intros; apply p_handle_deferred; auto).
    repeat (first [apply pres_bind; [|intros ?] | apply pres_ret | apply IH | apply HD | apply HH
                  | match goal with |- pres _ (if ?b then _ else _) => destruct b end]).
Qed.

Lemma i_pei fuel ev src : pres idle (pei cf parents contained mc children fuel ev src).
Proof. apply pres_idle; [apply f_pei | apply k_pei]. Qed.

Let PEI := pei cf parents contained mc children.

Lemma k_entry_pre ev k : pres kids_idle (do_entry_pre mc ev k).
Proof. apply p_do_entry_pre; auto using kids_idle_stable, kids_idle_set_processing. Qed.

Lemma k_entry_post fuel ev k : pres kids_idle (do_entry_post cf contained mc children (PEI fuel) fuel ev k).
Proof. apply p_do_entry_post; auto using kids_idle_stable, k_entry, kids_idle_set_processing. intros; apply k_pei. Qed.

(* after the marker has been cleared, the rest keeps it clear *)
Lemma flag_after_reset {A B} (m1:M A) (R:M B) :
  pres (flag_is false) R ->
  tri (fun _ => True) (m1 ;; modify (fun rn => set_processing rn false) ;; R) (flag_is false) (fun _ => True).
Proof.
  intros HR rn g r rn' g' _ E. unfold bind at 1 in E. destruct (m1 rn g) as [[[a|] rn1] g1].
  - unfold bind at 1 in E. unfold modify at 1 in E.
    assert (H0 : flag_is false (set_processing rn1 false)) by (destruct rn1; reflexivity).
    specialize (HR _ _ _ _ _ H0 E). destruct r; auto.
  - inversion E; subst. exact I.
Qed.

Lemma tri_and {A} Pre (m:M A) N1 N2 E1 E2 :
  tri Pre m N1 E1 -> tri Pre m N2 E2 -> tri Pre m (fun rn => N1 rn /\ N2 rn) (fun rn => E1 rn /\ E2 rn).
Proof. intros H1 H2 rn g r rn' g' Hp E. specialize (H1 _ _ _ _ _ Hp E). specialize (H2 _ _ _ _ _ Hp E). destruct r; auto. Qed.

Lemma c_entry_post fuel ev k : tri kids_idle (do_entry_post cf contained mc children (PEI fuel) fuel ev k) idle kids_idle.
Proof.
  pose proof (flag_stable false) as HS.
  eapply tri_weaken with (Pre := kids_idle).
  - apply tri_and; [apply pres_tri; apply k_entry_post|].
    eapply tri_weaken with (Pre := fun _ => True); [| auto | intros rn H; exact H | intros rn H; exact H].
    unfold do_entry_post. apply flag_after_reset.
    apply pres_bind; [apply p_handle_deferred; auto; intros; apply f_pei | intros; apply p_drain_msgq; auto; intros; apply f_pei].
  - auto.
  - intros rn [H1 H2]. apply idle_unfold. auto.
  - intros rn [H1 _]. exact H1.
Qed.

Lemma i_exit_pre fuel ev : pres idle (do_exit_pre contained mc children fuel ev).
Proof. apply pres_idle; [apply p_do_exit_pre; auto using flag_stable | apply p_do_exit_pre; auto using kids_idle_stable]. Qed.
Lemma i_exit_post ev : pres idle (do_exit_post mc ev).
Proof. apply pres_idle; apply p_do_exit_post; auto using flag_stable, kids_idle_stable. Qed.
Lemma i_stop fuel : pres idle (do_stop contained mc children fuel).
Proof. apply pres_idle; [apply p_do_stop; auto using flag_stable | apply p_do_stop; auto using kids_idle_stable]. Qed.
Lemma i_enqueue e : pres idle (cb_enqueue e).
Proof. apply pres_idle; apply p_cb_enqueue; auto using flag_stable, kids_idle_stable. Qed.
Lemma i_drain fuel n : pres idle (if Nat.eqb n 0 then drain_msgq (PEI fuel) fuel else drain_one (PEI fuel)).
Proof.
  destruct (Nat.eqb n 0).
  - apply pres_idle; [apply p_drain_msgq; auto using flag_stable; intros; apply f_pei
                     | apply p_drain_msgq; auto using kids_idle_stable; intros; apply k_pei].
  - apply pres_idle; [apply p_drain_one; auto using flag_stable; intros; apply f_pei
                     | apply p_drain_one; auto using kids_idle_stable; intros; apply k_pei].
Qed.

Lemma on_throw_reset_flag {A} (m:M A) rn g rn' g' :
  on_throw m (modify (fun rn => set_processing rn false)) rn g = (None, rn', g') -> flag_is false rn'.
Proof.
  unfold on_throw. destruct (m rn g) as [[[a|] rn1] g1]; [discriminate|]. unfold modify. intros H; inversion H; subst.
  destruct rn1; reflexivity.
Qed.

Lemma f_start fuel : pres (flag_is false) (do_start cf contained mc children (PEI fuel) fuel).
Proof.
  pose proof (flag_stable false) as HS.
  unfold do_start. rewrite Hstartq.
  apply pres_bind; [apply pres_modify; intros [a ks h q d c p r] H; exact H|]. intros _.
  intros rn g r rn' g' _ E. unfold bind at 1 in E. unfold modify at 1 in E.
  unfold bind at 1 in E. unfold on_throw in E.
  match type of E with context [match ?X with _ => _ end] => destruct X as [[[a|] rn1] g1] eqn:EX end.
  - unfold bind at 1 in E. unfold modify at 1 in E.
    assert (H0 : flag_is false (set_processing rn1 false)) by (destruct rn1; reflexivity).
    revert H0 E. generalize (set_processing rn1 false). intros rn2 H0 E.
    assert (HR : pres (flag_is false)
      ((if has_completion_rows mc then PEI fuel completion_event SRC_DIRECT ;; ret tt else ret tt) ;; drain_msgq (PEI fuel) fuel)).
    { apply pres_bind; [destruct (has_completion_rows mc); [apply pres_bind; [apply f_pei | intros; apply pres_ret] | apply pres_ret]|].
      intros. apply p_drain_msgq; auto. intros; apply f_pei. }
    eapply HR; eauto.
  - inversion E; subst. eapply on_throw_reset_flag; eauto.
Qed.

Lemma k_start fuel : pres kids_idle (do_start cf contained mc children (PEI fuel) fuel).
Proof. apply p_do_start; auto using kids_idle_stable, k_entry, kids_idle_set_processing. intros; apply k_pei. Qed.

Theorem back_ops_spec : cspec (back_ops cf parents contained mc children).
Proof.
  constructor; cbn [back_ops co_pei co_entry_pre co_entry_post co_exit_pre co_exit_post co_start co_stop co_enqueue co_drain].
  - apply i_pei.
  - apply k_entry_pre.
  - apply c_entry_post.
  - apply i_exit_pre.
  - apply i_exit_post.
  - intros. apply pres_idle; [apply f_start | apply k_start].
  - apply i_stop.
  - apply i_enqueue.
  - apply i_drain.
Qed.
End BackInst.

(* ============================ backmp11 ============================ *)
Section Mp11Generic.
Variable cf : cfg.
Variable parents : list (option nat).
Variable contained : bool.
Variable mc : machine.
Variable children : list (option child_ops).
Variable P : rnode -> Prop.
Hypothesis HS : stable P.

Lemma ms_act rn a : P rn -> P (set_act rn a). Proof. apply (st_act P HS). Qed.
Lemma ms_hist rn a : P rn -> P (set_hist rn a). Proof. apply (st_hist P HS). Qed.
Lemma ms_msgq rn a : P rn -> P (set_msgq rn a). Proof. apply (st_msgq P HS). Qed.
Lemma ms_defq rn a : P rn -> P (set_defq rn a). Proof. apply (st_defq P HS). Qed.
Lemma ms_curseq rn a : P rn -> P (set_curseq rn a). Proof. apply (st_curseq P HS). Qed.
Lemma ms_running rn a : P rn -> P (set_running rn a). Proof. apply (st_running P HS). Qed.
Hint Resolve ms_act ms_hist ms_msgq ms_defq ms_curseq ms_running : stab.

Hypothesis Hpei : forall s co fuel ev info, mchild children s = Some co -> pres P (lift_child s 0 (co_pei co fuel ev info)).
Hypothesis Hexit_pre : forall s co fuel ev, mchild children s = Some co -> pres P (lift_child s tt (co_exit_pre co fuel ev)).
Hypothesis Hexit_post : forall s co ev, mchild children s = Some co -> pres P (lift_child s tt (co_exit_post co ev)).
Hypothesis Hentry : forall fwd fuel s ev k, pres P (mexec_entry_gen cf contained mc children fwd fuel s ev k).

Lemma mp_push_msg q : pres P (push_msg q).
Proof using HS. unfold push_msg. pres_auto. Qed.
Lemma mp_push_msg_front q : pres P (push_msg_front q).
Proof using HS. unfold push_msg_front. pres_auto. Qed.
Lemma mp_set_act_at r s : pres P (set_act_at r s).
Proof using HS. unfold set_act_at. pres_auto. Qed.
Hint Resolve mp_push_msg mp_push_msg_front mp_set_act_at : stab.
Lemma mp_push_deferred e b : pres P (push_deferred e b).
Proof using HS. unfold push_deferred. pres_auto. Qed.
Hint Resolve mp_push_deferred : stab.
Lemma mp_cb_submit e : pres P (mcb_submit cf mc children e).
Proof using HS. unfold mcb_submit. pres_auto. Qed.
Lemma mp_cb_enqueue e : pres P (mcb_enqueue e).
Proof using HS. unfold mcb_enqueue. pres_auto. Qed.
Hint Resolve mp_cb_submit mp_cb_enqueue : stab.
Lemma mp_callback_at path k id ev w : pres P (callback_at (mcb_submit cf mc children) mcb_enqueue path k id ev w).
Proof using HS. unfold callback_at. pres_auto. Qed.
Lemma mp_cb k id ev w : pres P (mcb cf mc children k id ev w).
Proof using HS. apply mp_callback_at. Qed.
Lemma mp_cb_at path k id ev w : pres P (mcb_at cf mc children path k id ev w).
Proof using HS. apply mp_callback_at. Qed.
Hint Resolve mp_cb mp_cb_at : stab.
Lemma mp_absorb_up : pres P (mabsorb_up contained).
Proof using HS.
  unfold mabsorb_up. apply pres_if; [apply pres_ret|].
  apply pres_bind; [apply pres_take_up|]. intros ups. apply pres_iterM. intros x. apply mp_cb_enqueue.
Qed.
Hint Resolve mp_absorb_up : stab.
Lemma mp_in_child {A} s (d:A) m : pres P (lift_child s d m) -> pres P (min_child contained s d m).
Proof using HS. intros H. unfold min_child. pres_auto. Qed.

Lemma mp_exec_exit fuel s ev : pres P (mexec_exit cf contained mc children fuel s ev).
Proof.
  unfold mexec_exit. destruct (mchild children s) as [co|] eqn:E; [|auto with stab].
  pres_auto; apply mp_in_child; eauto.
Qed.
Hint Resolve mp_exec_exit : stab.
Lemma mp_osec s r : pres P (on_state_entry_completed mc s r).
Proof. unfold on_state_entry_completed. pres_auto. Qed.
Hint Resolve mp_osec Hentry : stab.
Lemma mp_guard_value r : pres P (guard_value r).
Proof. unfold guard_value. pres_auto. Qed.
Hint Resolve mp_guard_value : stab.
Lemma mp_run_action x ev : pres P (mrun_action cf mc children x ev).
Proof. unfold mrun_action. pres_auto. Qed.
Lemma mp_run_guard x ev : pres P (mrun_guard cf mc children x ev).
Proof. unfold mrun_guard. pres_auto. Qed.
Hint Resolve mp_run_action mp_run_guard : stab.
Lemma mp_exec_row fuel r x ev : pres P (mexec_row cf contained mc children fuel r x ev).
Proof. unfold mexec_row, mexec_entry. pres_auto. Qed.
Hint Resolve mp_exec_row : stab.
Lemma mp_forward fuel s ev : pres P (mforward contained children fuel s ev).
Proof.
  unfold mforward. destruct (mchild children s) as [co|] eqn:E; [|pres_auto].
  apply mp_in_child. eauto.
Qed.
Hint Resolve mp_forward : stab.
Lemma mp_chain fuel r ev acc l : pres P (mchain cf contained mc children fuel r ev acc l).
Proof. unfold mchain, mchain_raw. destruct l; pres_auto. Qed.
Hint Resolve mp_chain : stab.
Lemma mp_dispatch fuel r s ev : pres P (mdispatch cf parents contained mc children fuel r s ev).
Proof. unfold mdispatch. pres_auto. Qed.
Hint Resolve mp_dispatch : stab.
Lemma mp_regions_loop fuel ev n : forall r acc, pres P (mregions_loop cf parents contained mc children fuel ev n r acc).
Proof. induction n as [|n IH]; intros r acc; cbn [mregions_loop]; pres_auto. Qed.
Hint Resolve mp_regions_loop : stab.
Lemma mp_internal_dispatch fuel ev : pres P (minternal_dispatch cf parents contained mc children fuel ev).
Proof. unfold minternal_dispatch. pres_auto. Qed.
Lemma mp_nt_phase ev info res : pres P (mnt_phase cf mc children ev info res).
Proof. unfold mnt_phase. pres_auto. Qed.
Hint Resolve mp_internal_dispatch mp_nt_phase : stab.
Lemma mp_do_process_event fuel ev info : pres P (mdo_process_event cf parents contained mc children fuel ev info).
Proof. unfold mdo_process_event. pres_auto. Qed.
Hint Resolve mp_do_process_event : stab.
Lemma mp_oof {A} (a:A) : pres P (moof a).
Proof. unfold moof. pres_auto. Qed.
Hint Resolve @mp_oof : stab.

Lemma mp_history_set_ids e : pres P (history_set_ids mc e).
Proof. unfold history_set_ids. pres_auto. Qed.
Hint Resolve mp_history_set_ids : stab.
Lemma mp_enter_states fuel ev l : forall rid, pres P (enter_states cf contained mc children fuel ev l rid).
Proof. induction l as [|s t IH]; intros rid; cbn [enter_states]; pres_auto. Qed.
Hint Resolve mp_enter_states : stab.
Lemma mp_exit_states fuel ev l : pres P (mexit_states cf contained mc children fuel ev l).
Proof. induction l as [|s t IH]; cbn [mexit_states]; pres_auto. Qed.
Hint Resolve mp_exit_states : stab.
Lemma mp_on_exit_pre fuel ev : pres P (mon_exit_pre cf contained mc children fuel ev).
Proof. unfold mon_exit_pre. pres_auto. Qed.
Lemma mp_on_exit_post ev : pres P (mon_exit_post mc ev).
Proof. unfold mon_exit_post. destruct (m_hist mc); pres_auto. Qed.
Hint Resolve mp_on_exit_pre mp_on_exit_post : stab.
Lemma mp_stop fuel : pres P (mstop cf contained mc children fuel).
Proof. unfold mstop. pres_auto. Qed.

Section MWithRec.
Variable pei_rec : evt -> nat -> M nat.
Hypothesis Hrec : forall e i, pres P (pei_rec e i).
Variable pc : nat -> nat -> nat -> M nat.     (* process_completion, abstracted *)
Hypothesis Hpc : forall f s r, pres P (process_completion cf parents contained mc children f s r).
Hint Resolve Hrec Hpc : stab.

Lemma mp_pool_loop fuel : forall idx processed maxev, pres P (pool_loop cf parents contained mc children pei_rec fuel idx processed maxev).
Proof. induction fuel as [|f IH]; intros idx processed maxev; cbn [pool_loop]; pres_auto. Qed.
Hint Resolve mp_pool_loop : stab.
Lemma mp_process_event_pool fuel maxev : pres P (process_event_pool cf parents contained mc children pei_rec fuel maxev).
Proof. unfold process_event_pool. pres_auto. Qed.
Hint Resolve mp_process_event_pool : stab.
End MWithRec.

Section MWithSP.
Hypothesis Hsp : forall rn b, P rn -> P (set_processing rn b).
Hint Resolve Hsp : stab.
Lemma mp_process_completion f s r : pres P (process_completion cf parents contained mc children f s r).
Proof. unfold process_completion. pres_auto. Qed.
Hint Resolve mp_process_completion : stab.
Variable pei_rec : evt -> nat -> M nat.
Hypothesis Hrec : forall e i, pres P (pei_rec e i).
Hint Resolve Hrec : stab.
Lemma mp_pool' fuel maxev : pres P (process_event_pool cf parents contained mc children pei_rec fuel maxev).
Proof. apply mp_process_event_pool; auto with stab. Qed.
Hint Resolve mp_pool' : stab.
Lemma mp_pei_body fuel ev info : pres P (mpei_body cf parents contained mc children pei_rec fuel ev info).
Proof. unfold mpei_body. pres_auto. Qed.
Lemma mp_preprocess : pres P preprocess_entry.
Proof. unfold preprocess_entry. pres_auto. Qed.
Lemma mp_postprocess fuel : pres P (postprocess_entry cf parents contained mc children pei_rec fuel).
Proof. unfold postprocess_entry. pres_auto. Qed.
Hint Resolve mp_preprocess mp_postprocess : stab.
Lemma mp_on_entry_pre ev k : pres P (mon_entry_pre ev k).
Proof. unfold mon_entry_pre. auto with stab. Qed.
Lemma mp_on_entry_post fuel ev k : pres P (mon_entry_post cf parents contained mc children pei_rec fuel ev k).
Proof. unfold mon_entry_post. pres_auto. Qed.
End MWithSP.

Lemma mp_pei (Hsp : forall rn b, P rn -> P (set_processing rn b)) fuel : forall ev info, pres P (mpei cf parents contained mc children fuel ev info).
Proof.
  induction fuel as [|f IH]; intros ev info; cbn [mpei]; [apply mp_oof|].
  apply mp_pei_body; auto.
Qed.
Lemma mp_start (Hsp : forall rn b, P rn -> P (set_processing rn b)) fuel : pres P (mstart cf parents contained mc children fuel).
Proof.
  unfold mstart. pres_auto; auto using mp_on_entry_pre, mp_on_entry_post, mp_pei.
Qed.
End Mp11Generic.

Lemma tri_last {A B} (m:M A) (k:A -> M B) (N:rnode -> Prop) :
  (forall a, tri (fun _ => True) (k a) N (fun _ => True)) -> tri (fun _ => True) (bind m k) N (fun _ => True).
Proof.
  intros Hk rn g r rn' g' _ E. unfold bind in E. destruct (m rn g) as [[[a|] rn1] g1].
  - eapply Hk; eauto.
  - inversion E; subst. exact I.
Qed.
Lemma tri_reset_then {B} (R:M B) :
  pres (flag_is false) R -> tri (fun _ => True) (modify (fun rn => set_processing rn false) ;; R) (flag_is false) (fun _ => True).
Proof.
  intros HR rn g r rn' g' _ E. unfold bind at 1 in E. unfold modify at 1 in E.
  assert (H0 : flag_is false (set_processing rn false)) by (destruct rn; reflexivity).
  specialize (HR _ _ _ _ _ H0 E). destruct r; auto.
Qed.
Lemma tri_pres_N {A} (m:M A) (N:rnode -> Prop) : pres N m -> tri N m N (fun _ => True).
Proof. intros H rn g r rn' g' Hp E. destruct r; [eapply H; eauto | exact I]. Qed.
Lemma tri_bind_N {A B} (m:M A) (k:A -> M B) (N:rnode -> Prop) :
  tri (fun _ => True) m N (fun _ => True) -> (forall a, pres N (k a)) -> tri (fun _ => True) (bind m k) N (fun _ => True).
Proof.
  intros Hm Hk rn g r rn' g' _ E. unfold bind in E. destruct (m rn g) as [[[a|] rn1] g1] eqn:E1.
  - pose proof (Hm _ _ _ _ _ I E1) as H1. cbn in H1. specialize (Hk a _ _ _ _ _ H1 E). destruct r; auto.
  - inversion E; subst. exact I.
Qed.

Section Mp11Inst.
Variable cf : cfg.
Variable parents : list (option nat).
Variable contained : bool.
Variable mc : machine.
Variable children : list (option child_ops).
Hypothesis Hch : children_ok children.
Hypothesis Hresets : mp11_entry_throw_resets = true.

Lemma fm_entry b fwd fuel s ev k : pres (flag_is b) (mexec_entry_gen cf contained mc children fwd fuel s ev k).
Proof.
  unfold mexec_entry_gen. pose proof (flag_stable b) as HS.
  destruct (mchild children s) as [co|] eqn:E.
  - rewrite Hresets. apply pres_on_throw; [|apply flag_lift].
    apply pres_bind; [apply mp_in_child; auto; apply flag_lift|]. intros _.
    apply pres_bind; [apply mp_cb_at; auto|]. intros _. apply mp_in_child; auto. apply flag_lift.
  - apply pres_bind; [apply mp_cb; auto|]. intros _.
    destruct (s_kind (get_state mc s)); try apply pres_ret.
    destruct fwd; [|apply pres_ret]. apply pres_bind; [apply pres_push_up | intros; apply mp_absorb_up; auto].
Qed.

Lemma km_entry fwd fuel s ev k : pres kids_idle (mexec_entry_gen cf contained mc children fwd fuel s ev k).
Proof.
  unfold mexec_entry_gen. destruct (mchild children s) as [co|] eqn:E.
  - rewrite Hresets. pose proof (Hch s co E) as Hco.
    assert (Habs : forall (a:unit) Q, pres (kids_at s Q) (mabsorb_up contained ;; ret a)).
    { intros a Q. apply pres_bind; [apply mp_absorb_up; apply kids_at_stable | intros; apply pres_ret]. }
    apply tri_pres. eapply tri_weaken with (Pre := kids_at s idle) (PostN := kids_at s idle) (PostE := kids_at s idle);
      [| apply kids_at_idle | apply kids_at_idle | apply kids_at_idle].
    apply tri_on_throw with (Mid := kids_at s kids_idle).
    + apply tri_bind with (Mid := kids_at s kids_idle).
      { unfold min_child. apply tri_bind with (Mid := kids_at s kids_idle).
        - apply tri_weaken with (Pre := kids_at s kids_idle) (PostN := kids_at s kids_idle) (PostE := kids_at s kids_idle);
            [apply (tri_lift s tt _ kids_idle kids_idle kids_idle); apply pres_tri; apply (cs_pre co Hco) | | auto | auto].
          intros rn. apply kids_at_mono. apply idle_kids.
        - intros a. apply pres_tri. apply Habs. }
      intros _. apply tri_bind with (Mid := kids_at s kids_idle).
      { apply pres_tri. apply mp_cb_at. apply kids_at_stable. }
      intros _. unfold min_child. apply tri_bind with (Mid := kids_at s idle).
      { apply (tri_lift s tt _ kids_idle idle kids_idle). apply (cs_post co Hco). }
      intros a. apply tri_weaken with (Pre := kids_at s idle) (PostN := kids_at s idle) (PostE := kids_at s idle);
        [apply pres_tri; apply Habs | auto | auto | ].
      intros rn. apply kids_at_mono. apply idle_kids.
    + apply (tri_lift s tt (modify (fun rn => set_processing rn false)) kids_idle idle idle).
      intros rn g r rn' g' Hk Em. inversion Em; subst. cbn. apply idle_unfold. split; [destruct rn; reflexivity | apply kids_idle_set_processing; auto].
  - pose proof kids_idle_stable as HS.
    apply pres_bind; [apply mp_cb; auto|]. intros _.
    destruct (s_kind (get_state mc s)); try apply pres_ret.
    destruct fwd; [|apply pres_ret]. apply pres_bind; [apply pres_push_up | intros; apply mp_absorb_up; auto].
Qed.

Let MKpei : forall s co fuel ev info, mchild children s = Some co -> pres kids_idle (lift_child s 0 (co_pei co fuel ev info)).
Proof. intros. apply lift_idle. apply (cs_pei co (Hch s co H)). Qed.
Let MKexit_pre : forall s co fuel ev, mchild children s = Some co -> pres kids_idle (lift_child s tt (co_exit_pre co fuel ev)).
Proof. intros. apply lift_idle. apply (cs_exit_pre co (Hch s co H)). Qed.
Let MKexit_post : forall s co ev, mchild children s = Some co -> pres kids_idle (lift_child s tt (co_exit_post co ev)).
Proof. intros. apply lift_idle. apply (cs_exit_post co (Hch s co H)). Qed.
Let MFpei b : forall s co fuel ev info, mchild children s = Some co -> pres (flag_is b) (lift_child s 0 (co_pei co fuel ev info)).
Proof. intros. apply flag_lift. Qed.
Let MFexit_pre b : forall s co fuel ev, mchild children s = Some co -> pres (flag_is b) (lift_child s tt (co_exit_pre co fuel ev)).
Proof. intros. apply flag_lift. Qed.
Let MFexit_post b : forall s co ev, mchild children s = Some co -> pres (flag_is b) (lift_child s tt (co_exit_post co ev)).
Proof. intros. apply flag_lift. Qed.

Let MPEI := mpei cf parents contained mc children.

Lemma km_pei fuel ev info : pres kids_idle (MPEI fuel ev info).
Proof. apply mp_pei; auto using kids_idle_stable, km_entry, kids_idle_set_processing. Qed.

Lemma fm_completion f s r : pres (flag_is false) (process_completion cf parents contained mc children f s r).
Proof.
  pose proof (flag_stable false) as HS.
  unfold process_completion. apply pres_bind_get. intros rn0 Hrn0.
  destruct (has_blocking mc && (term_active mc children rn0 || intr_active mc children rn0)); [apply pres_ret|].
  apply flag_bracket; [|intros; apply pres_ret].
  apply nt_bind; [apply nt_mcb_exc | intros; apply nt_ret].
Qed.

Lemma fm_pool fuel : (forall e i, pres (flag_is false) (MPEI fuel e i)) ->
  forall fu maxev, pres (flag_is false) (process_event_pool cf parents contained mc children (MPEI fuel) fu maxev).
Proof.
  intros IH fu maxev. apply mp_process_event_pool; auto using flag_stable, fm_entry, fm_completion.
Qed.

Lemma flag_bracket2 {B} (W:M unit) (X H:M nat) (k:nat -> M B) :
  nothrow W -> nothrow H -> (forall a, pres (flag_is false) (k a)) ->
  pres (flag_is false) (W ;; modify (fun rn => set_processing rn true) ;; a <- catch X H ;; modify (fun rn => set_processing rn false) ;; k a).
Proof.
  intros HW HH Hk rn g r rn' g' _ E. unfold bind at 1 in E.
  destruct (HW rn g) as (u & rn0 & g0 & EW). rewrite EW in E.
  eapply (flag_bracket X H k HH Hk rn0 g0); [|exact E]. exact (eq_refl : flag_is (processing rn0) rn0) || idtac.
Abort.

Lemma fm_pei fuel : forall ev info, pres (flag_is false) (MPEI fuel ev info).
Proof.
  pose proof (flag_stable false) as HS.
  induction fuel as [|f IH]; intros ev info; unfold MPEI; cbn [mpei]; [apply mp_oof|].
  unfold mpei_body. apply pres_bind_get. intros rn0 Hrn0.
  destruct (mblocked cf mc children rn0 (e_ty ev)); [apply pres_ret|].
  match goal with |- pres _ (if ?b then _ else _) => destruct b end;
    [apply pres_bind; [apply mp_push_deferred; auto | intros; apply pres_ret]|].
  apply pres_bind.
  { apply pres_when. apply pres_modify. intros [a ks h q d c p r] H; exact H. }
  intros _. apply flag_bracket.
  - apply nt_bind; [apply nt_mcb_exc | intros; apply nt_ret].
  - intros result. apply pres_bind; [|intros; apply pres_ret].
    destruct (negb (Nat.eqb info INFO_POOL)); [|apply pres_ret].
    apply pres_bind; [|intros; apply pres_ret]. apply fm_pool. exact IH.
Qed.

Lemma im_pei fuel ev info : pres idle (MPEI fuel ev info).
Proof. apply pres_idle; [apply fm_pei | apply km_pei]. Qed.

Lemma km_pool fuel fu maxev : pres kids_idle (process_event_pool cf parents contained mc children (MPEI fuel) fu maxev).
Proof.
  apply mp_process_event_pool; auto using kids_idle_stable, km_entry.
  - intros; apply km_pei.
  - intros. apply mp_process_completion; auto using kids_idle_stable, km_entry, kids_idle_set_processing.
Qed.

Lemma fm_postprocess_N fuel : tri (fun _ => True) (postprocess_entry cf parents contained mc children (MPEI fuel) fuel) (flag_is false) (fun _ => True).
Proof.
  unfold postprocess_entry. apply tri_reset_then.
  apply pres_bind; [apply fm_pool; apply fm_pei | intros; apply pres_ret].
Qed.

Lemma fm_entry_post_N fuel ev k :
  tri (fun _ => True) (mon_entry_post cf parents contained mc children (MPEI fuel) fuel ev k) (flag_is false) (fun _ => True).
Proof.
  unfold mon_entry_post. destruct k.
  - apply tri_last. intros ?. apply tri_last. intros ?. apply tri_last. intros ?. apply fm_postprocess_N.
  - apply tri_last. intros ?. apply tri_last. intros ?. apply tri_last. intros ?. apply fm_postprocess_N.
  - apply tri_last. intros ?. apply tri_last. intros ?. apply tri_last. intros ?.
    apply tri_bind_N; [apply fm_postprocess_N|]. intros ?.
    apply pres_bind; [apply fm_pei | intros; apply pres_ret].
Qed.

Lemma km_entry_post fuel ev k : pres kids_idle (mon_entry_post cf parents contained mc children (MPEI fuel) fuel ev k).
Proof. apply mp_on_entry_post; auto using kids_idle_stable, km_entry, kids_idle_set_processing. intros; apply km_pei. Qed.

Lemma cm_entry_post fuel ev k : tri kids_idle (mon_entry_post cf parents contained mc children (MPEI fuel) fuel ev k) idle kids_idle.
Proof.
  eapply tri_weaken with (Pre := kids_idle).
  - apply tri_and; [apply pres_tri; apply km_entry_post|].
    eapply tri_weaken with (Pre := fun _ => True); [apply fm_entry_post_N | auto | intros rn H; exact H | intros rn H; exact H].
  - auto.
  - intros rn [H1 H2]. apply idle_unfold. auto.
  - intros rn [H1 _]. exact H1.
Qed.

Lemma fm_start fuel : pres (flag_is false) (mstart cf parents contained mc children fuel).
Proof.
  unfold mstart. apply pres_bind_get. intros rn0 Hrn0. destruct (running rn0); [apply pres_ret|].
  rewrite Hresets. intros rn g r rn' g' _ E.
  destruct r as [u|].
  - (* normal end: the entry cascade ended with postprocess_entry *)
    unfold on_throw in E.
    match type of E with context [match ?X with _ => _ end] => destruct X as [[[a|] rn1] g1] eqn:EX end.
    + inversion E; subst.
      assert (T : tri (fun _ => True)
                (mon_entry_pre (Evt EV_INIT 0) EkPlain;; mcb cf mc children KMEntry 0 (Evt EV_INIT 0) false;;
                 mon_entry_post cf parents contained mc children (MPEI fuel) fuel (Evt EV_INIT 0) EkPlain) (flag_is false) (fun _ => True)).
      { apply tri_last. intros _. apply tri_last. intros _. apply fm_entry_post_N. }
      apply (T _ _ _ _ _ I EX).
    + destruct (modify (fun rn2 => set_processing rn2 false) rn1 g1) as [[u2 rn2] g2]. discriminate.
  - eapply on_throw_reset_flag; eauto.
Qed.

Lemma km_start fuel : pres kids_idle (mstart cf parents contained mc children fuel).
Proof. apply mp_start; auto using kids_idle_stable, km_entry, kids_idle_set_processing. Qed.

Theorem mp11_ops_spec : cspec (mp11_ops cf parents contained mc children).
Proof.
  constructor; cbn [mp11_ops co_pei co_entry_pre co_entry_post co_exit_pre co_exit_post co_start co_stop co_enqueue co_drain].
  - apply im_pei.
  - intros. apply mp_on_entry_pre; auto using kids_idle_stable, kids_idle_set_processing.
  - apply cm_entry_post.
  - intros. apply pres_idle; apply mp_on_exit_pre; auto using flag_stable, kids_idle_stable, fm_entry, km_entry.
  - intros. apply pres_idle; apply mp_on_exit_post; auto using flag_stable, kids_idle_stable.
  - intros. apply pres_idle; [apply fm_start | apply km_start].
  - intros. apply pres_idle; apply mp_stop; auto using flag_stable, kids_idle_stable, fm_entry, km_entry.
  - intros. apply pres_idle; apply mp_cb_enqueue; auto using flag_stable, kids_idle_stable.
  - intros. apply pres_idle; (apply pres_bind; [|intros; apply pres_ret]); [apply fm_pool; apply fm_pei | apply km_pool].
Qed.
End Mp11Inst.

(* ============================ whole definitions ============================ *)
Section Whole.
Variable cf : cfg.
Variable parents : list (option nat).
Hypothesis Hr : entry_throw_resets cf = true.
Hypothesis Hq : start_queues cf = true.
Hypothesis Hm : mp11_entry_throw_resets = true.

Lemma build_spec : forall mc contained, cspec (build cf parents contained mc).
Proof.
  fix IH 1. intros mc contained. destruct mc as [states inits rows irows hist].
  assert (Hch : children_ok (map (fun st => match s_sub st with
                                           | Some c => Some (build cf parents true c)
                                           | None => None end) states)).
  { clear -IH. induction states as [|st t IHt]; intros s co Hs.
    - destruct s; discriminate.
    - destruct s as [|s].
      + cbn in Hs. destruct st as [k sub si df fl z]. cbn in Hs. destruct sub as [c|]; [|discriminate].
        inversion Hs; subst. apply IH.
      + cbn in Hs. eapply IHt; eauto. }
  unfold build. fold build. cbn [m_states].
  destruct (c_be cf); [apply back_ops_spec | apply back_ops_spec | apply mp11_ops_spec]; auto.
Qed.

Lemma idle_init : forall mc, idle (init_rnode mc).
Proof.
  fix IH 1. intros mc. destruct mc as [states inits rows irows hist]. apply idle_unfold. split; [reflexivity|].
  unfold kids_idle. cbn [init_rnode kids m_states].
  induction states as [|st t IHt]; cbn [map]; constructor; auto.
  destruct st as [k sub si df fl z]. cbn. destruct sub as [c|]; cbn; auto.
Qed.

Lemma run_m_idle m rn val plan : pres idle m -> idle rn -> idle (fst (run_m m rn val plan)).
Proof.
  intros Hp Hi. unfold run_m. destruct (m rn _) as [[r rn'] g] eqn:E. cbn. eapply Hp; eauto.
Qed.

Theorem run_op_idle root fuel rn o :
  idle rn -> idle (fst (run_op cf root (build cf parents false root) fuel rn o)).
Proof.
  intros Hi. pose proof (build_spec root false) as S.
  destruct o; cbn [run_op]; try exact Hi; try (apply run_m_idle; auto).
  - apply (cs_start _ S).
  - apply (cs_stop _ S).
  - apply pres_bind; [apply (cs_pei _ S) | intros; apply pres_emit].
  - apply (cs_enqueue _ S).
  - apply (cs_drain _ S).
  - apply (cs_drain _ S).
  - cbn. apply idle_init.
Qed.
End Whole.

(* ---- histories ---- *)
Definition final_state (cf:cfg) (parents:list (option nat)) (root:machine) (fuel:nat) (rn:rnode) (l:list op) : rnode :=
  fold_left (fun rn o => fst (run_op cf root (build cf parents false root) fuel rn o)) l rn.

Theorem history_idle cf parents root fuel :
  entry_throw_resets cf = true -> start_queues cf = true -> mp11_entry_throw_resets = true ->
  forall l rn, idle rn -> idle (final_state cf parents root fuel rn l).
Proof.
  intros H1 H2 H3. induction l as [|o t IH]; intros rn Hi; cbn [final_state fold_left]; [exact Hi|].
  apply IH. apply run_op_idle; auto.
Qed.

(* the probed facts about the engines (Generated.v) make the hypotheses true for every configuration *)
Lemma flags_probed cf : entry_throw_resets cf = true /\ start_queues cf = true /\ mp11_entry_throw_resets = true.
Proof. unfold entry_throw_resets, start_queues. destruct (is11 cf); repeat split; reflexivity. Qed.

Theorem not_wedged cf parents root fuel l :
  idle (final_state cf parents root fuel (init_rnode root) l).
Proof.
  destruct (flags_probed cf) as (H1 & H2 & H3). apply history_idle; auto. apply idle_init.
Qed.
