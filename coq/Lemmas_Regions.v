(* Lemmas_Regions.v - loops over the regions of a level: every region exactly once, in declaration order;
   result codes are OR-ed; entry / exit cascades visit the regions in order. *)
From Msm Require Import Run Lemmas_Chain.

(* run f for each index of the list in order, OR-ing the codes *)
Fixpoint seq_or (f:nat -> M nat) (rs:list nat) (acc:nat) : M nat :=
  match rs with
  | [] => ret acc
  | r :: t => bind (f r) (fun c => seq_or f t (bit_or acc c))
  end.

Section Back.
Variable cf : cfg.
Variable parents : list (option nat).
Variable contained : bool.
Variable mc : machine.
Variable children : list (option child_ops).

Definition region_step (fuel:nat) (ev:evt) (r:nat) : M nat :=
  bind get (fun rn => let s := nth r (act rn) 0 in
                      run_cell cf contained mc children fuel r s ev (cell_items cf parents mc children s (e_ty ev))).

Lemma regions_loop_seq fuel ev n : forall r acc rn g,
  regions_loop cf parents contained mc children fuel ev n r acc rn g = seq_or (region_step fuel ev) (seqn r n) acc rn g.
Proof.
  induction n as [|n IH]; intros r acc rn g; cbn; [reflexivity|].
  unfold region_step at 1. unfold bind, get. cbn.
  destruct (run_cell cf contained mc children fuel r (nth r (act rn) 0) ev _ rn g) as [[[c|] rn1] g1]; [|reflexivity].
  apply IH.
Qed.

Definition exit_step (fuel:nat) (ev:evt) (r:nat) : M unit :=
  bind get (fun rn => exec_exit contained mc children fuel (nth r (act rn) 0) ev).
Definition entry_step (fuel:nat) (ev:evt) (r:nat) : M unit :=
  bind get (fun rn => exec_entry cf contained mc children fuel (nth r (act rn) 0) ev EkPlain).

Lemma exit_regions_seq fuel ev n : forall r rn g,
  exit_regions contained mc children fuel ev n r rn g = iterM (exit_step fuel ev) (seqn r n) rn g.
Proof.
  induction n as [|n IH]; intros r rn g; cbn; [reflexivity|].
  unfold exit_step at 1. unfold bind, get. cbn.
  destruct (exec_exit contained mc children fuel (nth r (act rn) 0) ev rn g) as [[[u|] rn1] g1]; [|reflexivity].
  apply IH.
Qed.

Lemma start_regions_seq fuel ev n : forall r rn g,
  start_regions cf contained mc children fuel ev n r rn g = iterM (entry_step fuel ev) (seqn r n) rn g.
Proof.
  induction n as [|n IH]; intros r rn g; cbn; [reflexivity|].
  unfold entry_step at 1. unfold bind, get. cbn.
  destruct (exec_entry cf contained mc children fuel (nth r (act rn) 0) ev EkPlain rn g) as [[[u|] rn1] g1]; [|reflexivity].
  apply IH.
Qed.
End Back.

Section Mp11.
Variable cf : cfg.
Variable parents : list (option nat).
Variable contained : bool.
Variable mc : machine.
Variable children : list (option child_ops).

Definition mregion_step (fuel:nat) (ev:evt) (r:nat) : M nat :=
  bind get (fun rn => mdispatch cf parents contained mc children fuel r (nth r (act rn) 0) ev).

Lemma mregions_loop_seq fuel ev n : forall r acc rn g,
  mregions_loop cf parents contained mc children fuel ev n r acc rn g = seq_or (mregion_step fuel ev) (seqn r n) acc rn g.
Proof.
  induction n as [|n IH]; intros r acc rn g; cbn; [reflexivity|].
  unfold mregion_step at 1. unfold bind, get.
  match goal with |- context [mdispatch ?a ?b ?c ?d ?e ?f ?h ?i ?j ?k ?l] =>
    destruct (mdispatch a b c d e f h i j k l) as [[[c0|] rn1] g1] end; [|reflexivity].
  apply IH.
Qed.
End Mp11.

(* seqn is the list of region indices 0 .. n-1, each once, ascending *)
Lemma seqn_spec start len : seqn start len = seq start len.
Proof. revert start; induction len as [|n IH]; intros s; cbn; congruence. Qed.
Lemma seqn_nodup start len : NoDup (seqn start len).
Proof. rewrite seqn_spec. apply seq_NoDup. Qed.
Lemma seqn_in start len r : In r (seqn start len) <-> start <= r < start + len.
Proof. rewrite seqn_spec. apply in_seq. Qed.

(* OR-ing result codes: handled / consumed / zero of the combination, swept over all pairs of codes *)
Lemma or_bits_ok : forallb (fun ab => let '(a, b) := ab in
     Bool.eqb (handled (bit_or a b)) (handled a || handled b) &&
     Bool.eqb (consumed (bit_or a b)) (consumed a || consumed b) &&
     Bool.eqb (Nat.eqb (bit_or a b) 0) (Nat.eqb a 0 && Nat.eqb b 0) &&
     Nat.ltb (bit_or a b) 8) pairs = true.
Proof. vm_compute. reflexivity. Qed.

Lemma pairs_complete a b : a < 8 -> b < 8 -> In (a, b) pairs.
Proof.
  intros Ha Hb. unfold pairs. apply in_flat_map. exists a. split; [apply codes_complete; auto|].
  apply in_map. apply codes_complete; auto.
Qed.

Lemma or_bits_spec a b : a < 8 -> b < 8 ->
  handled (bit_or a b) = (handled a || handled b) /\
  consumed (bit_or a b) = (consumed a || consumed b) /\
  (bit_or a b = 0 <-> a = 0 /\ b = 0) /\ bit_or a b < 8.
Proof.
  intros Ha Hb. pose proof or_bits_ok as H. rewrite forallb_forall in H. specialize (H (a, b) (pairs_complete a b Ha Hb)).
  cbn in H. apply andb_true_iff in H as [H H4]. apply andb_true_iff in H as [H H3]. apply andb_true_iff in H as [H1 H2].
  apply eqb_prop in H1, H2, H3. apply Nat.leb_le in H4.
  split; [exact H1|]. split; [exact H2|]. split; [|lia].
  split.
  - intros E. rewrite E in H3. cbn in H3. symmetry in H3. apply andb_true_iff in H3 as [X Y].
    apply Nat.eqb_eq in X, Y. auto.
  - intros [-> ->]. reflexivity.
Qed.
