(* Lemmas_Rows.v - single rows and the no_transition phase, executed symbolically on the interpreter's own
   exec_row / mexec_row / nt_phase / mnt_phase with behaviours that only observe (empty plan). *)
From Msm Require Import Run Lemmas_C19.

Definition bump (g:glob) (items:list titem) : glob :=
  Glob (items ++ g_tr g) (length items + g_cb g) (g_plan g) (g_val g) (g_up g) (g_bad g).

Section Rows.
Variable cf : cfg.
Variable contained : bool.
Variable mc : machine.
Variable children : list (option child_ops).

(* internal transition, guard holds: only guard and action run; the runtime state is untouched *)
Lemma back_internal_row fuel r rid src ev rn g :
  g_plan g = [] -> memb rid (g_val g) = true ->
  exec_row cf contained mc children fuel r (Row rid src (TrEv (e_ty ev)) TgNone true ActCall None) ev rn g =
    (Some HANDLED_TRUE, rn, bump g [Cb KAction [] rid ev false (act rn); Cb (KGuard true) [] rid ev false (act rn)]).
Proof.
  intros Hplan Hval. destruct g as [tr cbn0 plan val up bad]. cbn in Hplan, Hval. subst plan.
  unfold exec_row. cbn [tgt_state r_tgt]. unfold run_guard, guard_value, run_action. cbn [r_guard r_id r_act].
  unfold cb, callback, callback_at, bind, get, getg, putg, ret. cbn. rewrite Hval. cbn. reflexivity.
Qed.
Lemma mp11_internal_row fuel r rid src ev rn g :
  g_plan g = [] -> memb rid (g_val g) = true ->
  mexec_row cf contained mc children fuel r (Row rid src (TrEv (e_ty ev)) TgNone true ActCall None) ev rn g =
    (Some HANDLED_TRUE, rn, bump g [Cb KAction [] rid ev false (act rn); Cb (KGuard true) [] rid ev false (act rn)]).
Proof.
  intros Hplan Hval. destruct g as [tr cbn0 plan val up bad]. cbn in Hplan, Hval. subst plan.
  unfold mexec_row. cbn [tgt_state r_tgt]. unfold mrun_guard, guard_value, mrun_action. cbn [r_guard r_id r_act].
  unfold mcb, callback, callback_at, bind, get, getg, putg, ret. cbn. rewrite Hval. cbn. reflexivity.
Qed.

(* rejected guard: nothing but the guard runs, the state is untouched, the code is GUARD_REJECT -
   whatever the kind of row (external, internal, into a submachine, explicit entry ...) *)
Lemma back_rejected_row fuel r x ev rn g :
  g_plan g = [] -> r_guard x = true -> memb (r_id x) (g_val g) = false -> r_exitpt x = None ->
  exec_row cf contained mc children fuel r x ev rn g =
    (Some HANDLED_GUARD_REJECT, rn, bump g [Cb (KGuard false) [] (r_id x) ev false (act rn)]).
Proof.
  intros Hplan Hg Hval Hex. destruct g as [tr cbn0 plan val up bad]. cbn in Hplan, Hval. subst plan.
  unfold exec_row. rewrite Hex. unfold run_guard, guard_value. rewrite Hg.
  destruct (tgt_state (r_tgt x));
  unfold cb, callback, callback_at, bind, get, getg, putg, ret; cbn; rewrite Hval; cbn; reflexivity.
Qed.
Lemma mp11_rejected_row fuel r x ev rn g :
  g_plan g = [] -> r_guard x = true -> memb (r_id x) (g_val g) = false -> r_exitpt x = None ->
  mexec_row cf contained mc children fuel r x ev rn g =
    (Some HANDLED_GUARD_REJECT, rn, bump g [Cb (KGuard false) [] (r_id x) ev false (act rn)]).
Proof.
  intros Hplan Hg Hval Hex. destruct g as [tr cbn0 plan val up bad]. cbn in Hplan, Hval. subst plan.
  unfold mexec_row. rewrite Hex. unfold mrun_guard, guard_value. rewrite Hg.
  destruct (tgt_state (r_tgt x));
  unfold mcb, callback, callback_at, bind, get, getg, putg, ret; cbn; rewrite Hval; cbn; reflexivity.
Qed.

(* ---- no_transition ---- *)
Definition nt_items (ev:evt) (obs l:list nat) : list titem := rev (map (fun s => Cb KNoTrans [] s ev false obs) l).

Lemma back_iter_nt ev l : forall rn g, g_plan g = [] ->
  iterM (fun s => cb mc KNoTrans s ev false) l rn g = (Some tt, rn, bump g (nt_items ev (act rn) l)).
Proof.
  induction l as [|s l IH]; intros rn g Hplan.
  - destruct g. cbn. reflexivity.
  - cbn [iterM]. unfold bind. unfold cb at 1, callback, callback_at, bind, get, getg, putg, ret. cbn. rewrite Hplan. cbn.
    rewrite IH by reflexivity. unfold bump, nt_items. cbn. rewrite app_length, rev_length, map_length. cbn.
    rewrite <- app_assoc. cbn. rewrite Hplan.
    replace (length l + 1 + g_cb g) with (length l + S (g_cb g)) by lia. reflexivity.
Qed.
Lemma mp11_iter_nt ev l : forall rn g, g_plan g = [] ->
  iterM (fun s => mcb cf mc children KNoTrans s ev false) l rn g = (Some tt, rn, bump g (nt_items ev (act rn) l)).
Proof.
  induction l as [|s l IH]; intros rn g Hplan.
  - destruct g. cbn. reflexivity.
  - cbn [iterM]. unfold bind. unfold mcb at 1, callback, callback_at, bind, get, getg, putg, ret. cbn. rewrite Hplan. cbn.
    rewrite IH by reflexivity. unfold bump, nt_items. cbn. rewrite app_length, rev_length, map_length. cbn.
    rewrite <- app_assoc. cbn. rewrite Hplan.
    replace (length l + 1 + g_cb g) with (length l + S (g_cb g)) by lia. reflexivity.
Qed.

(* back / back11: no_transition is called exactly when the code is zero, the event is not a completion event and
   the call was made on this machine (root, or direct call) - then once per region, in region order, with that
   region's active id; otherwise nothing at all happens *)
Lemma back_nt_phase ev direct h rn g :
  g_plan g = [] ->
  nt_phase contained mc ev direct h rn g =
    (Some tt, rn,
     if (negb contained || direct) && Nat.eqb h 0 && negb (Nat.eqb (e_ty ev) EV_NONE)
     then bump g (nt_items ev (act rn) (act rn)) else g).
Proof.
  intros Hplan. unfold nt_phase.
  destruct ((negb contained || direct) && Nat.eqb h 0 && negb (Nat.eqb (e_ty ev) EV_NONE)); [|reflexivity].
  unfold bind, get. apply back_iter_nt; auto.
Qed.
Lemma mp11_nt_phase ev info res rn g :
  g_plan g = [] ->
  mnt_phase cf mc children ev info res rn g =
    (Some tt, rn,
     if Nat.eqb res 0 && negb (Nat.eqb info INFO_SUBMACHINE)
     then bump g (nt_items ev (act rn) (act rn)) else g).
Proof.
  intros Hplan. unfold mnt_phase.
  destruct (Nat.eqb res 0 && negb (Nat.eqb info INFO_SUBMACHINE)); [|reflexivity].
  unfold bind, get. apply mp11_iter_nt; auto.
Qed.

End Rows.
