(* Lemmas_Rtc.v - run-to-completion layer: blocking states, submissions from behaviours, history memory,
   completion bookkeeping - on the interpreter's own definitions. *)
From Msm Require Import Run Lemmas_Rows.

(* ---------------- C11: terminate / interrupt ---------------- *)
Section BackBlock.
Variable cf : cfg.
Variable parents : list (option nat).
Variable contained : bool.
Variable mc : machine.
Variable children : list (option child_ops).

(* a blocked machine: process_event returns without any behaviour, queueing or state change *)
Lemma back_pei_blocked fuel ev src rn g :
  blocked mc rn (e_ty ev) = true ->
  pei cf parents contained mc children (S fuel) ev src rn g = (Some HANDLED_TRUE, rn, g).
Proof.
  intros H. cbn. unfold pei_body, bind, get. rewrite H. reflexivity.
Qed.

Lemma has_blocking_of_state s : is_blocking_state (get_state mc s) = true -> has_blocking mc = true.
Proof.
  intros H. unfold has_blocking. apply existsb_exists. exists (get_state mc s). split; auto.
  unfold get_state in *. destruct (Nat.lt_ge_cases s (length (m_states mc))) as [Hl|Hl].
  - apply nth_In; auto.
  - rewrite nth_overflow in H by auto. discriminate.
Qed.

(* once the active state of any region is a terminate state, every event type is blocked *)
Lemma back_blocked_by_terminate rn ety s :
  In s (act rn) -> is_term_state (get_state mc s) = true -> blocked mc rn ety = true.
Proof.
  intros Hin Ht. unfold blocked.
  rewrite (has_blocking_of_state s) by (unfold is_blocking_state; rewrite Ht; reflexivity).
  cbn. apply orb_true_iff. left. unfold flag_or. apply existsb_exists. exists s. auto.
Qed.

(* an interrupt state blocks every event type except its end-interrupt types (no terminate state active) *)
Lemma back_blocked_by_interrupt rn ety :
  has_blocking mc = true ->
  flag_or mc rn is_term_state = false -> flag_or mc rn is_intr_state = true ->
  blocked mc rn ety = negb (flag_or mc rn (fun st => ends_intr st ety)).
Proof. intros Hb Ht Hi. unfold blocked. rewrite Hb, Ht, Hi. reflexivity. Qed.

(* a submission made from a behaviour while the machine is blocked is swallowed: nothing is queued *)
Lemma back_submit_blocked e rn g : blocked mc rn (e_ty e) = true -> cb_submit mc e rn g = (Some tt, rn, g).
Proof. intros H. unfold cb_submit, bind, get. rewrite H. reflexivity. Qed.

(* ---------------- C04: a submission during processing is stored, never run ---------------- *)
Lemma back_submit_while_processing e rn g :
  blocked mc rn (e_ty e) = false -> processing rn = true ->
  cb_submit mc e rn g = (Some tt, set_msgq rn (msgq rn ++ [QEv e (bit_or SRC_DIRECT SRC_MSG_QUEUE) 0%Z false]), g).
Proof. intros Hb Hp. unfold cb_submit, bind, get. rewrite Hb, Hp. reflexivity. Qed.

Lemma back_enqueue e rn g :
  cb_enqueue e rn g = (Some tt, set_msgq rn (msgq rn ++ [QEv e SRC_MSG_QUEUE 0%Z false]), g).
Proof. reflexivity. Qed.

(* process_event on a machine that is processing: queued at the back, HANDLED_TRUE, no behaviour *)
Lemma back_pei_while_processing fuel ev src rn g :
  blocked mc rn (e_ty ev) = false -> processing rn = true ->
  pei cf parents contained mc children (S fuel) ev src rn g =
    (Some HANDLED_TRUE, set_msgq rn (msgq rn ++ [QEv ev (bit_or SRC_DIRECT SRC_MSG_QUEUE) 0%Z false]), g).
Proof. intros Hb Hp. cbn. unfold pei_body, bind, get. rewrite Hb, Hp. reflexivity. Qed.

(* draining: the queue is consumed from the front, one stored event after the other *)
Lemma back_drain_step pei_rec fuel e src z m rest rn g :
  msgq rn = QEv e src z m :: rest ->
  drain_msgq pei_rec (S fuel) rn g =
    bind (pei_rec e src) (fun _ => drain_msgq pei_rec fuel) (set_msgq rn rest) g.
Proof. intros H. cbn. unfold bind at 1, get. rewrite H. reflexivity. Qed.

(* the single-step variant: exactly the oldest stored event, the rest of the queue is left as it is *)
Lemma back_drain_one pei_rec e src z m rest rn g :
  msgq rn = QEv e src z m :: rest ->
  drain_one pei_rec rn g = bind (pei_rec e src) (fun _ => ret tt) (set_msgq rn rest) g.
Proof. intros H. unfold drain_one. unfold bind at 1, get. rewrite H. reflexivity. Qed.
Lemma back_drain_one_empty pei_rec rn g : msgq rn = [] -> drain_one pei_rec rn g = (Some tt, rn, g).
Proof. intros H. unfold drain_one, bind, get. rewrite H. reflexivity. Qed.

Lemma back_drain_empty pei_rec fuel rn g : msgq rn = [] -> drain_msgq pei_rec fuel rn g = (Some tt, rn, g).
Proof. intros H. destruct fuel; cbn; unfold bind, get; rewrite H; reflexivity. Qed.

(* with a stub in place of the recursive call (it records the payload and does not touch the queue) the stored
   events are dispatched exactly once each, in storage order, and the queue ends empty *)
Definition stub (e:evt) (src:nat) : M nat := bind (emit (Res (e_pay e))) (fun _ => ret 0).
Definition ev_queue (l:list evt) : list qitem := map (fun e => QEv e SRC_MSG_QUEUE 0%Z false) l.

Lemma back_drain_fifo l : forall fuel rn g, length l <= fuel -> msgq rn = ev_queue l ->
  drain_msgq stub fuel rn g =
    (Some tt, set_msgq rn [],
     Glob (rev (map (fun e => Res (e_pay e)) l) ++ g_tr g) (g_cb g) (g_plan g) (g_val g) (g_up g) (g_bad g)).
Proof.
  induction l as [|e l IH]; intros fuel rn g Hf Hq.
  - rewrite back_drain_empty by auto. destruct rn, g; cbn in *; subst; reflexivity.
  - destruct fuel as [|f]; [cbn in Hf; lia|]. cbn in Hq.
    rewrite (back_drain_step stub f e SRC_MSG_QUEUE 0%Z false (ev_queue l)) by auto.
    unfold bind, stub, emit, ret. cbn.
    rewrite IH; [|cbn in Hf; lia | destruct rn; reflexivity].
    destruct rn, g; cbn. rewrite <- app_assoc. reflexivity.
Qed.

(* ---------------- C08: history ---------------- *)
(* exit stores the active ids according to the policy; the next entry reads them back according to the policy
   and the entering event - for explicit / fork / entry-point entries as well (k arbitrary) *)
Lemma back_history_cycle ev_exit ev_in k rn g g2 :
  let rn1 := snd (fst (do_exit_post mc ev_exit rn g)) in
  let rn2 := snd (fst (do_entry_pre mc ev_in k rn1 g2)) in
  act rn2 = match m_hist mc with
            | HNone => m_inits mc
            | HAlways => act rn
            | HShallow evs => if memb (e_ty ev_in) evs then act rn else m_inits mc
            end
  /\ processing rn2 = true.
Proof.
  unfold do_exit_post, do_entry_pre, bind, modify, ret, history_entry, keeps_deferred.
  destruct rn as [a ki h q d c p ru]. destruct (m_hist mc) as [| |evs]; cbn;
  try (destruct (memb (e_ty ev_exit) evs)); cbn; try (destruct (memb (e_ty ev_in) evs)); cbn; auto.
Qed.

(* before the first exit the memory holds the initial states *)
Lemma back_first_entry ev k g :
  let rn2 := snd (fst (do_entry_pre mc ev k (init_rnode mc) g)) in act rn2 = m_inits mc.
Proof.
  unfold do_entry_pre, bind, modify, ret, history_entry. destruct mc as [sts ini rows irows h]. cbn.
  destruct h as [| |evs]; cbn; auto. destruct (memb (e_ty ev) evs); auto.
Qed.

(* ---------------- C10: completion never produces no_transition (back) ---------------- *)
Lemma back_completion_no_nt direct h rn g :
  nt_phase contained mc (Evt EV_NONE 0) direct h rn g = (Some tt, rn, g).
Proof.
  unfold nt_phase. cbn [e_ty]. rewrite Nat.eqb_refl. rewrite andb_false_r. reflexivity.
Qed.
End BackBlock.

Section Mp11Rtc.
Variable cf : cfg.
Variable parents : list (option nat).
Variable contained : bool.
Variable mc : machine.
Variable children : list (option child_ops).

Lemma mp11_pei_blocked fuel ev info rn g :
  mblocked cf mc children rn (e_ty ev) = true ->
  mpei cf parents contained mc children (S fuel) ev info rn g = (Some HANDLED_TRUE, rn, g).
Proof. intros H. cbn. unfold mpei_body, bind, get. rewrite H. reflexivity. Qed.

(* once a terminate state is active anywhere in the active configuration (recursively) the machine is blocked *)
Lemma mp11_blocked_by_terminate rn ety :
  has_blocking mc = true -> term_active mc children rn = true -> mblocked cf mc children rn ety = true.
Proof. intros Hb Ht. unfold mblocked. rewrite Hb, Ht. reflexivity. Qed.

Lemma mp11_submit_blocked e rn g :
  mblocked cf mc children rn (e_ty e) = true -> mcb_submit cf mc children e rn g = (Some tt, rn, g).
Proof. intros H. unfold mcb_submit, bind, get. rewrite H. reflexivity. Qed.

(* a submission while processing (or while the configuration defers the type) is stored at the back of the pool *)
Lemma mp11_submit_while_processing e rn g :
  mblocked cf mc children rn (e_ty e) = false -> processing rn = true ->
  mcb_submit cf mc children e rn g =
    (Some tt, set_msgq rn (msgq rn ++ [QEv e 0 (wrap_mp11 (curseq rn - 1)) false]), g).
Proof.
  intros Hb Hp. unfold mcb_submit, bind, get. rewrite Hb, Hp. cbn.
  unfold push_deferred, bind, get, push_msg, modify. reflexivity.
Qed.

Lemma mp11_pei_while_processing fuel ev info rn g :
  mblocked cf mc children rn (e_ty ev) = false -> processing rn = true -> info <> INFO_POOL ->
  mpei cf parents contained mc children (S fuel) ev info rn g =
    (Some HANDLED_DEFERRED, set_msgq rn (msgq rn ++ [QEv ev 0 (wrap_mp11 (curseq rn - 1)) false]), g).
Proof.
  intros Hb Hp Hi. cbn. unfold mpei_body, bind, get. rewrite Hb, Hp.
  apply Nat.eqb_neq in Hi. rewrite Hi. cbn.
  unfold push_deferred, bind, get, push_msg, modify, ret. reflexivity.
Qed.

(* history of backmp11: on_exit stores, on_entry restores per policy; when history is not applied the pool is cleared *)
Lemma mp11_history_cycle ev_exit ev_in rn g g2 :
  let rn1 := snd (fst (mon_exit_post mc ev_exit rn g)) in
  let rn2 := snd (fst (history_set_ids mc (e_ty ev_in) rn1 g2)) in
  act rn2 = match m_hist mc with
            | HNone => m_inits mc
            | HAlways => act rn
            | HShallow evs => if memb (e_ty ev_in) evs then act rn else m_inits mc
            end.
Proof.
  unfold mon_exit_post, history_set_ids, modify.
  destruct rn as [a ki h q d c p ru]. destruct (m_hist mc) as [| |evs]; cbn; auto.
  destruct (memb (e_ty ev_in) evs); cbn; auto.
Qed.

(* completion: entering a simple state that has completion rows puts its completion occurrence at the very front
   of the pool - before every stored event *)
Lemma mp11_completion_first s r rn g :
  is_sub mc s = false -> state_has_completion mc s = true ->
  on_state_entry_completed mc s r rn g = (Some tt, set_msgq rn (QCompl s r false :: msgq rn), g).
Proof. intros Hs Hc. unfold on_state_entry_completed. rewrite Hs, Hc. reflexivity. Qed.

Lemma mp11_no_completion_for_others s r rn g :
  is_sub mc s = true \/ state_has_completion mc s = false ->
  on_state_entry_completed mc s r rn g = (Some tt, rn, g).
Proof.
  intros H. unfold on_state_entry_completed. destruct H as [H|H]; rewrite H; cbn; auto.
  destruct (negb (is_sub mc s)); reflexivity.
Qed.
End Mp11Rtc.
