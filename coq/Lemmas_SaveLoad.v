(* Lemmas_SaveLoad.v - C16, second sentence: the loaded machine reacts to every event sequence like the original.
   What Boost.Serialization restores (loaded_from: active ids, history memory, the marker, recursively - not the
   queues, and the deferred-sequence counter starts again at 0) is, for a quiet tree, a tree that abstracts to the
   same configuration and is quiet again; the refinement theorem of Lemmas_SpecRun then makes the original and the
   loaded object run the same specification from the same configuration - for every core definition, every history
   that led to the save point and every continuation. *)
From Msm Require Import Run Lemmas_C19 Lemmas_Rows Lemmas_Sim Spec Lemmas_SpecBack Lemmas_SpecRun Lemmas_Equiv Lemmas_World.
From Coq Require Import Lia.

(* the tree an operation list ends in *)
Fixpoint run_final (cf:cfg) (root:machine) (ops:child_ops) (fuel:nat) (rn:rnode) (l:list op) : rnode :=
  match l with
  | [] => rn
  | o :: t => run_final cf root ops fuel (fst (run_op cf root ops fuel rn o)) t
  end.

Lemma run_ops_app cf root ops fuel : forall l1 rn l2,
  run_ops cf root ops fuel rn (l1 ++ l2) =
  run_ops cf root ops fuel rn l1 ++ run_ops cf root ops fuel (run_final cf root ops fuel rn l1) l2.
Proof.
  induction l1 as [|o t IH]; intros rn l2; cbn [app run_ops run_final]; [reflexivity|].
  destruct (run_op cf root ops fuel rn o) as [rn' tr]. cbn [fst]. rewrite IH. reflexivity.
Qed.

(* ---- loading keeps the configuration and quietness ---- *)
Lemma abs_loaded : forall rn, abs (loaded_from rn) = abs rn.
Proof.
  fix IH 1. intros [a ks h q d c p r]. cbn [abs loaded_from]. f_equal.
  induction ks as [|[k|] t IHt]; cbn; [reflexivity| |]; f_equal; auto. f_equal. apply IH.
Qed.

Lemma ok_loaded : forall mc rn, ok mc rn -> ok mc (loaded_from rn).
Proof.
  fix IH 1. intros mc rn H. apply ok_unfold in H. destruct H as ((Hq & Hd & Hk) & Hp). apply ok_unfold.
  destruct (loaded_from_spec rn) as (_ & _ & Hp' & _ & Hq' & Hd' & _).
  split; [|congruence]. unfold okL, okLq. repeat split; auto.
  destruct mc as [states inits rows irows hist]. unfold ok_subs in *. cbn [m_states] in *.
  destruct rn as [a ks h q d c p r]. cbn [kids loaded_from] in *. clear -IH Hk.
  revert ks Hk. induction states as [|st t IHt]; intros ks Hk; inversion Hk as [|o k ? ks' Hs Ht]; subst; cbn [map]; [constructor|].
  destruct k as [kn|]; cbn.
  - constructor; [|apply IHt; exact Ht].
    destruct st as [kd sub si df fl z]. cbn in *. destruct sub as [c|]; cbn in *; [|contradiction]. apply IH. exact Hs.
  - constructor; [exact Hs | apply IHt; exact Ht].
Qed.

Lemma ok_no_pending : forall mc rn, ok mc rn -> has_pending rn = false.
Proof.
  fix IH 1. intros mc rn H. apply ok_unfold in H. destruct H as ((Hq & Hd & Hk) & _).
  destruct mc as [states inits rows irows hist]. unfold ok_subs in *. cbn [m_states] in *.
  destruct rn as [a ks h q d c p r]. cbn [kids msgq defq has_pending] in *. subst q d. cbn [negb orb].
  clear -IH Hk. revert ks Hk. induction states as [|st t IHt]; intros ks Hk; inversion Hk as [|o k ? ks' Hs Ht]; subst; [reflexivity|].
  destruct k as [kn|].
  - destruct st as [kd sub si df fl z]. cbn in Hs. destruct sub as [c|]; cbn in Hs; [|contradiction].
    rewrite (IH c kn Hs). cbn [orb]. apply IHt. exact Ht.
  - apply IHt. exact Ht.
Qed.

Section BackSaveLoad.
Variable cf : cfg.
Hypothesis Hbe : c_be cf = Back.
Variable parents : list (option nat).
Hypothesis Hflat : forall e, nth e parents None = None.
Hypothesis Hstartq : back_start_queues = true.
Variable root : machine.
Hypothesis Hcore : core root.
Variable fuel : nat.
Hypothesis Hfuel : depth root + 2 <= fuel.

Let ops := build cf parents false root.

Lemma back_final_ok : forall l rn, Forall plain_op l -> ok root rn -> ok root (run_final cf root ops fuel rn l).
Proof.
  induction l as [|o t IH]; intros rn Hall Hok; cbn [run_final]; [exact Hok|].
  inversion Hall as [|? ? Ho Ht]; subst.
  pose proof (back_run_op cf Hbe parents Hflat Hstartq root Hcore fuel Hfuel o rn Ho Hok) as H. fold ops in H.
  destruct (run_op cf root ops fuel rn o) as [rn' tr]. destruct H as (Hok' & _). cbn [fst]. apply IH; assumption.
Qed.

(* a quiet original and its loaded image: same behaviour for every continuation *)
Theorem back_loaded_same_behaviour : forall rn l, ok root rn -> Forall plain_op l ->
  Forall2 same_step_strict (run_ops cf root ops fuel rn l) (run_ops cf root ops fuel (loaded_from rn) l).
Proof.
  intros rn l Hok Hpl.
  pose proof (back_run_ops cf Hbe parents Hflat Hstartq root Hcore fuel Hfuel l rn Hpl Hok) as H1.
  pose proof (back_run_ops cf Hbe parents Hflat Hstartq root Hcore fuel Hfuel l (loaded_from rn) Hpl (ok_loaded root rn Hok)) as H2.
  rewrite abs_loaded in H2. fold ops in H1, H2.
  eapply Forall2_same_strict; eauto.
Qed.

(* every reachable save point: after any history on a fresh object *)
Theorem back_saveload_any_history : forall l1 l2, Forall plain_op l1 -> Forall plain_op l2 ->
  let rn := run_final cf root ops fuel (init_rnode root) l1 in
  has_pending rn = false /\
  abs (loaded_from rn) = abs rn /\
  Forall2 same_step_strict (run_ops cf root ops fuel rn l2) (run_ops cf root ops fuel (loaded_from rn) l2).
Proof.
  intros l1 l2 H1 H2 rn.
  assert (Hok : ok root rn) by (apply back_final_ok; [exact H1 | apply ok_init]).
  split; [eapply ok_no_pending; eauto|]. split; [apply abs_loaded|].
  apply back_loaded_same_behaviour; assumption.
Qed.

(* the world operation: save src, load into dst - no refusal, dst holds the loaded image, and from then on the two
   objects answer every operation alike *)
Theorem back_saveload_world : forall w src dst rn o,
  wget w src = Some rn -> ok root rn -> dst < length w -> dst <> src -> plain_op o ->
  let '(w', tr) := run_wop cf root ops fuel w (OSaveLoad dst src) in
  tr = [] /\ wget w' src = Some rn /\ wget w' dst = Some (loaded_from rn) /\
  same_step_strict (let '(rn1, t1) := run_op cf root ops fuel rn o in (t1, snapshot root rn1 []))
                   (let '(rn2, t2) := run_op cf root ops fuel (loaded_from rn) o in (t2, snapshot root rn2 [])).
Proof.
  intros w src dst rn o Hs Hok Hd Hne Hpl. cbn [run_wop]. rewrite Hs. rewrite (ok_no_pending root rn Hok).
  split; [reflexivity|]. split; [|split].
  - unfold wget in *. rewrite nth_upd_neq by auto. exact Hs.
  - unfold wget. apply nth_upd_eq. exact Hd.
  - pose proof (back_loaded_same_behaviour rn [o] Hok (Forall_cons _ Hpl (Forall_nil _))) as H.
    cbn [run_ops] in H.
    destruct (run_op cf root ops fuel rn o) as [rn1 t1]. destruct (run_op cf root ops fuel (loaded_from rn) o) as [rn2 t2].
    inversion H; subst. assumption.
Qed.
End BackSaveLoad.

(* back11: the same function on definitions without own internal tables *)
Theorem back11_saveload_any_history : forall fct pol qb parents root fuel l1 l2,
  (forall e, nth e parents None = None) -> back_start_queues = true -> core root -> no_internal root ->
  depth root + 2 <= fuel -> Forall plain_op l1 -> Forall plain_op l2 ->
  let cf := Cfg Back11 fct pol qb in
  let ops := build cf parents false root in
  let rn := run_final cf root ops fuel (init_rnode root) l1 in
  has_pending rn = false /\
  abs (loaded_from rn) = abs rn /\
  Forall2 same_step_strict (run_ops cf root ops fuel rn l2) (run_ops cf root ops fuel (loaded_from rn) l2).
Proof.
  intros fct pol qb parents root fuel l1 l2 Hflat Hq Hcore Hni Hfuel H1 H2 cf ops rn.
  pose proof (back_saveload_any_history (Cfg Back fct pol qb) eq_refl parents Hflat Hq root Hcore fuel Hfuel l1 l2 H1 H2) as H.
  cbv zeta in H.
  assert (Eops : build (Cfg Back fct pol qb) parents false root = ops)
    by (apply (build_back_back11 fct pol qb parents root false Hni)).
  rewrite Eops in H.
  assert (Eop : forall rn o, run_op (Cfg Back fct pol qb) root ops fuel rn o = run_op cf root ops fuel rn o)
    by (intros ? o; destruct o; reflexivity).
  assert (Efin : forall l rn0, run_final (Cfg Back fct pol qb) root ops fuel rn0 l = run_final cf root ops fuel rn0 l).
  { induction l as [|o t IH]; intros rn0; cbn [run_final]; [reflexivity|]. rewrite Eop. apply IH. }
  assert (Erun : forall l rn0, run_ops (Cfg Back fct pol qb) root ops fuel rn0 l = run_ops cf root ops fuel rn0 l).
  { induction l as [|o t IH]; intros rn0; cbn [run_ops]; [reflexivity|]. rewrite Eop.
    destruct (run_op cf root ops fuel rn0 o) as [rn' tr]. rewrite IH. reflexivity. }
  rewrite Efin, !Erun in H. exact H.
Qed.
