(* Lemmas_Shape.v - the runtime tree keeps the shape of the definition through every operation. *)
From Msm Require Import Run Lemmas_Quiesce.
From Coq Require Import Lia.

(* the runtime tree has the shape of the definition: one node under every submachine state, none elsewhere, at every depth *)
Fixpoint wk (mc:machine) {struct mc} : rnode -> Prop :=
  let subs := map (fun st => match s_sub st with Some c => Some (wk c) | None => None end) (m_states mc) in
  fun rn => Forall2 (fun (o:option (rnode -> Prop)) (k:option rnode) =>
                       match o, k with
                       | Some p, Some kn => p kn
                       | None, None => True
                       | _, _ => False
                       end) subs (kids rn).

Definition wk_subs (mc:machine) : list (option (rnode -> Prop)) :=
  map (fun st => match s_sub st with Some c => Some (wk c) | None => None end) (m_states mc).
Definition slot_ok (o:option (rnode -> Prop)) (k:option rnode) : Prop :=
  match o, k with Some p, Some kn => p kn | None, None => True | _, _ => False end.

Lemma wk_unfold mc rn : wk mc rn <-> Forall2 slot_ok (wk_subs mc) (kids rn).
Proof. destruct mc; reflexivity. Qed.

Lemma wk_init : forall mc, wk mc (init_rnode mc).
Proof.
  fix IH 1. intros mc. apply wk_unfold. destruct mc as [states inits rows irows hist].
  unfold wk_subs. cbn [m_states init_rnode kids].
  induction states as [|st t IHt]; cbn [map]; constructor; auto.
  destruct st as [k sub si df fl z]. cbn. destruct sub as [c|]; cbn; auto.
Qed.

Lemma wk_stable mc : stable (wk mc).
Proof. constructor; intros [a ks h q d c p r] x H; apply wk_unfold in H; apply wk_unfold; exact H. Qed.
Lemma wk_set_processing mc rn b : wk mc rn -> wk mc (set_processing rn b).
Proof. destruct rn. intros H; apply wk_unfold in H; apply wk_unfold; exact H. Qed.

Lemma Forall2_upd {A B} (R:A -> B -> Prop) la lb i b a0 :
  Forall2 R la lb -> nth_error la i = Some a0 -> R a0 b -> Forall2 R la (upd lb i b).
Proof.
  intros H. revert i. induction H as [|x y la lb Hxy H IH]; intros [|i] Hn Hr; cbn in *; try discriminate.
  - inversion Hn; subst. constructor; auto.
  - constructor; auto.
Qed.
Lemma Forall2_nth_slot subs ks s kn : Forall2 slot_ok subs ks -> nth s ks None = Some kn ->
  exists p, nth_error subs s = Some (Some p) /\ p kn.
Proof.
  intros H. revert s. induction H as [|o k subs ks Hok H IH]; intros [|s] Hn; cbn in *; try discriminate.
  - subst k. destruct o as [p|]; cbn in Hok; [|contradiction]. eauto.
  - apply IH; auto.
Qed.

(* running an operation of the submachine under s on its node *)
Lemma wk_lift {A} mc s (d:A) (m:M A) :
  (forall c, s_sub (get_state mc s) = Some c -> pres (wk c) m) -> pres (wk mc) (lift_child s d m).
Proof.
  intros Hm rn g r rn' g' Hw E. unfold lift_child in E.
  destruct (nth s (kids rn) None) as [kn|] eqn:Ek.
  - destruct (m kn _) as [[r1 kn'] g1] eqn:Em. inversion E; subst. clear E.
    apply wk_unfold in Hw. apply wk_unfold. rewrite kids_set_kids.
    destruct (Forall2_nth_slot _ _ _ _ Hw Ek) as (p & Hp & Hkn).
    eapply Forall2_upd; eauto. cbn.
    (* p is wk c for the submachine c of state s *)
    unfold wk_subs in Hp. rewrite nth_error_map in Hp.
    destruct (nth_error (m_states mc) s) as [st|] eqn:Est; [|discriminate]. cbn in Hp.
    destruct (s_sub st) as [c|] eqn:Ec; [|discriminate]. inversion Hp; subst p.
    eapply Hm; eauto. unfold get_state. erewrite nth_error_nth; eauto.
  - inversion E; subst. exact Hw.
Qed.

Record wspec (c:machine) (co:child_ops) : Prop := {
  ws_pei : forall fuel ev src, pres (wk c) (co_pei co fuel ev src);
  ws_pre : forall ev k, pres (wk c) (co_entry_pre co ev k);
  ws_post : forall fuel ev k, pres (wk c) (co_entry_post co fuel ev k);
  ws_exit_pre : forall fuel ev, pres (wk c) (co_exit_pre co fuel ev);
  ws_exit_post : forall ev, pres (wk c) (co_exit_post co ev);
  ws_start : forall fuel, pres (wk c) (co_start co fuel);
  ws_stop : forall fuel, pres (wk c) (co_stop co fuel);
  ws_enqueue : forall e, pres (wk c) (co_enqueue co e);
  ws_drain : forall fuel n, pres (wk c) (co_drain co fuel n)
}.
Definition children_wk (mc:machine) (children:list (option child_ops)) : Prop :=
  forall s co, nth s children None = Some co -> exists c, s_sub (get_state mc s) = Some c /\ wspec c co.

Lemma pres_set_proc_false c : pres (wk c) (modify (fun rn => set_processing rn false)).
Proof. apply pres_modify. intros. apply wk_set_processing; auto. Qed.

Section BackWk.
Variable cf : cfg.
Variable parents : list (option nat).
Variable contained : bool.
Variable mc : machine.
Variable children : list (option child_ops).
Hypothesis Hch : children_wk mc children.

Lemma wl {A} s co (d:A) (m:M A) : child children s = Some co ->
  (forall c, wspec c co -> pres (wk c) m) -> pres (wk mc) (lift_child s d m).
Proof.
  intros Hc Hm. apply wk_lift. intros c Hs. destruct (Hch s co Hc) as (c' & Hs' & Hw).
  rewrite Hs in Hs'. inversion Hs'; subst. auto.
Qed.

Lemma w_entry fwd fuel s ev k : pres (wk mc) (exec_entry_gen cf contained mc children fwd fuel s ev k).
Proof.
  pose proof (wk_stable mc) as HS. unfold exec_entry_gen. destruct (child children s) as [co|] eqn:E.
  - assert (B : pres (wk mc) (in_child contained mc s tt (co_entry_pre co ev k);;
                              cb_at mc [s] KMEntry 0 ev match k with EkPlain => false | _ => true end;;
                              in_child contained mc s tt (co_entry_post co fuel ev k))).
    { apply pres_bind; [apply p_in_child; auto; eapply wl; eauto; intros c W; apply (ws_pre c co W)|]. intros _.
      apply pres_bind; [apply p_cb_at; auto|]. intros _.
      apply p_in_child; auto. eapply wl; eauto. intros c W. apply (ws_post c co W). }
    destruct (entry_throw_resets cf); [|exact B].
    apply pres_on_throw; [exact B|]. eapply wl; eauto. intros c _. apply pres_set_proc_false.
  - destruct (s_kind (get_state mc s)); try (apply p_cb; auto).
    apply pres_bind; [apply p_cb; auto | intros _; destruct (fwd && negb (Nat.eqb (e_ty ev) EV_NONE)); [apply pres_push_up | apply pres_ret]].
Qed.

Let Wpei : forall s co fuel ev src, child children s = Some co -> pres (wk mc) (lift_child s 0 (co_pei co fuel ev src)).
Proof. intros. eapply wl; eauto. intros c W. apply (ws_pei c co W). Qed.
Let Wexit_pre : forall s co fuel ev, child children s = Some co -> pres (wk mc) (lift_child s tt (co_exit_pre co fuel ev)).
Proof. intros. eapply wl; eauto. intros c W. apply (ws_exit_pre c co W). Qed.
Let Wexit_post : forall s co ev, child children s = Some co -> pres (wk mc) (lift_child s tt (co_exit_post co ev)).
Proof. intros. eapply wl; eauto. intros c W. apply (ws_exit_post c co W). Qed.

Lemma w_pei fuel ev src : pres (wk mc) (pei cf parents contained mc children fuel ev src).
Proof. apply p_pei; auto using wk_stable, w_entry, wk_set_processing. Qed.

Theorem back_ops_wspec : wspec mc (back_ops cf parents contained mc children).
Proof.
  pose proof (wk_stable mc) as HS.
  constructor; cbn [back_ops co_pei co_entry_pre co_entry_post co_exit_pre co_exit_post co_start co_stop co_enqueue co_drain]; intros.
  - apply w_pei.
  - apply p_do_entry_pre; auto using wk_set_processing.
  - apply p_do_entry_post; auto using w_entry, wk_set_processing. intros; apply w_pei.
  - apply p_do_exit_pre; auto.
  - apply p_do_exit_post; auto.
  - apply p_do_start; auto using w_entry, wk_set_processing. intros; apply w_pei.
  - apply p_do_stop; auto.
  - apply p_cb_enqueue; auto.
  - destruct (Nat.eqb n 0); [apply p_drain_msgq | apply p_drain_one]; auto; intros; apply w_pei.
Qed.
End BackWk.

Section Mp11Wk.
Variable cf : cfg.
Variable parents : list (option nat).
Variable contained : bool.
Variable mc : machine.
Variable children : list (option child_ops).
Hypothesis Hch : children_wk mc children.

Lemma mwl {A} s co (d:A) (m:M A) : mchild children s = Some co ->
  (forall c, wspec c co -> pres (wk c) m) -> pres (wk mc) (lift_child s d m).
Proof.
  intros Hc Hm. apply wk_lift. intros c Hs. destruct (Hch s co Hc) as (c' & Hs' & Hw).
  rewrite Hs in Hs'. inversion Hs'; subst. auto.
Qed.

Lemma mw_entry fwd fuel s ev k : pres (wk mc) (mexec_entry_gen cf contained mc children fwd fuel s ev k).
Proof.
  pose proof (wk_stable mc) as HS. unfold mexec_entry_gen. destruct (mchild children s) as [co|] eqn:E.
  - assert (B : pres (wk mc) (min_child contained s tt (co_entry_pre co ev k);;
                              mcb_at cf mc children [s] KMEntry 0 ev false;;
                              min_child contained s tt (co_entry_post co fuel ev k))).
    { apply pres_bind; [apply mp_in_child; auto; eapply mwl; eauto; intros c W; apply (ws_pre c co W)|]. intros _.
      apply pres_bind; [apply mp_cb_at; auto|]. intros _.
      apply mp_in_child; auto. eapply mwl; eauto. intros c W. apply (ws_post c co W). }
    destruct mp11_entry_throw_resets; [|exact B].
    apply pres_on_throw; [exact B|]. eapply mwl; eauto. intros c _. apply pres_set_proc_false.
  - apply pres_bind; [apply mp_cb; auto|]. intros _.
    destruct (s_kind (get_state mc s)); try apply pres_ret.
    destruct fwd; [|apply pres_ret]. apply pres_bind; [apply pres_push_up | intros; apply mp_absorb_up; auto].
Qed.

Let MWpei : forall s co fuel ev info, mchild children s = Some co -> pres (wk mc) (lift_child s 0 (co_pei co fuel ev info)).
Proof. intros. eapply mwl; eauto. intros c W. apply (ws_pei c co W). Qed.
Let MWexit_pre : forall s co fuel ev, mchild children s = Some co -> pres (wk mc) (lift_child s tt (co_exit_pre co fuel ev)).
Proof. intros. eapply mwl; eauto. intros c W. apply (ws_exit_pre c co W). Qed.
Let MWexit_post : forall s co ev, mchild children s = Some co -> pres (wk mc) (lift_child s tt (co_exit_post co ev)).
Proof. intros. eapply mwl; eauto. intros c W. apply (ws_exit_post c co W). Qed.

Lemma mw_pei fuel ev info : pres (wk mc) (mpei cf parents contained mc children fuel ev info).
Proof. apply mp_pei; auto using wk_stable, mw_entry, wk_set_processing. Qed.

Theorem mp11_ops_wspec : wspec mc (mp11_ops cf parents contained mc children).
Proof.
  pose proof (wk_stable mc) as HS.
  constructor; cbn [mp11_ops co_pei co_entry_pre co_entry_post co_exit_pre co_exit_post co_start co_stop co_enqueue co_drain]; intros.
  - apply mw_pei.
  - apply mp_on_entry_pre; auto using wk_set_processing.
  - apply mp_on_entry_post; auto using mw_entry, wk_set_processing. intros; apply mw_pei.
  - apply mp_on_exit_pre; auto using mw_entry.
  - apply mp_on_exit_post; auto.
  - apply mp_start; auto using mw_entry, wk_set_processing.
  - apply mp_stop; auto using mw_entry.
  - apply mp_cb_enqueue; auto.
  - apply pres_bind; [|intros; apply pres_ret].
    apply mp_process_event_pool; auto using mw_entry.
    + intros; apply mw_pei.
    + intros. apply mp_process_completion; auto using mw_entry, wk_set_processing.
Qed.
End Mp11Wk.

Section WholeWk.
Variable cf : cfg.
Variable parents : list (option nat).

Lemma build_wspec : forall mc contained, wspec mc (build cf parents contained mc).
Proof.
  fix IH 1. intros mc contained. destruct mc as [states inits rows irows hist].
  assert (Hch : children_wk (Machine states inits rows irows hist)
                  (map (fun st => match s_sub st with Some c => Some (build cf parents true c) | None => None end) states)).
  { unfold children_wk, get_state. cbn [m_states]. clear -IH. induction states as [|st t IHt]; intros s co Hs.
    - destruct s; discriminate.
    - destruct s as [|s].
      + cbn in Hs. destruct st as [k sub si df fl z]. cbn in *. destruct sub as [c|]; [|discriminate].
        inversion Hs; subst. exists c. split; [reflexivity | apply IH].
      + cbn in Hs. cbn [nth]. eapply IHt; eauto. }
  unfold build. fold build. cbn [m_states].
  destruct (c_be cf); [apply back_ops_wspec | apply back_ops_wspec | apply mp11_ops_wspec]; auto.
Qed.

Theorem run_op_wk root fuel rn o :
  wk root rn -> wk root (fst (run_op cf root (build cf parents false root) fuel rn o)).
Proof.
  intros Hi. pose proof (build_wspec root false) as S.
  assert (RM : forall m val plan, pres (wk root) m -> wk root (fst (run_m m rn val plan))).
  { intros m val plan Hp. unfold run_m. destruct (m rn _) as [[r rn'] g] eqn:E. cbn. eapply Hp; eauto. }
  destruct o; cbn [run_op]; try exact Hi; try (apply RM).
  - apply (ws_start _ _ S).
  - apply (ws_stop _ _ S).
  - apply pres_bind; [apply (ws_pei _ _ S) | intros; apply pres_emit].
  - apply (ws_enqueue _ _ S).
  - apply (ws_drain _ _ S).
  - apply (ws_drain _ _ S).
  - cbn. apply wk_init.
Qed.

Theorem history_wk root fuel l : wk root (final_state cf parents root fuel (init_rnode root) l).
Proof.
  unfold final_state. generalize (wk_init root). generalize (init_rnode root) as rn.
  induction l as [|o t IH]; intros rn Hw; cbn [fold_left]; [exact Hw|]. apply IH. apply run_op_wk. exact Hw.
Qed.
End WholeWk.
