(* Lemmas_Sim.v - toolkit for proving that an interpreter computation is a given pure function: symbolic execution of
   the monad for behaviours that only observe (empty plan, no exit-point events in flight), the abstraction of a
   runtime tree to a configuration, and the "quiet tree" invariant (no stored events, no processing marker). *)
From Msm Require Import Run Lemmas_C19 Lemmas_Rows Spec.
From Coq Require Import Lia.

Lemma bump_bump g a b : bump (bump g a) b = bump g (b ++ a).
Proof. unfold bump. cbn. rewrite app_length. f_equal; [rewrite app_assoc; reflexivity | lia]. Qed.
Lemma bump_nil g : bump g [] = g.
Proof. destruct g; reflexivity. Qed.

Section Sim.
Variable val : list nat.

Definition plain (g:glob) : Prop := g_plan g = [] /\ g_up g = [] /\ g_val g = val.
Lemma plain_bump g i : plain g -> plain (bump g i).
Proof. intros (A & B & C). repeat split; assumption. Qed.

(* run from rn the computation returns normally with a value, a node and the emitted items satisfying P *)
Definition sim {A} (m:M A) (rn:rnode) (P:A -> rnode -> list titem -> Prop) : Prop :=
  forall g, plain g -> exists a rn' items, m rn g = (Some a, rn', bump g items) /\ P a rn' items.

Lemma sim_ret {A} (a:A) rn (P:A -> rnode -> list titem -> Prop) : P a rn [] -> sim (ret a) rn P.
Proof. intros H g _. exists a, rn, []. rewrite bump_nil. split; [reflexivity | exact H]. Qed.

Lemma sim_bind {A B} (m:M A) (k:A -> M B) rn (P:A -> rnode -> list titem -> Prop) (Q:B -> rnode -> list titem -> Prop) :
  sim m rn P ->
  (forall a rn1 i1, P a rn1 i1 -> sim (k a) rn1 (fun b rn2 i2 => Q b rn2 (i2 ++ i1))) ->
  sim (bind m k) rn Q.
Proof.
  intros Hm Hk g Hg. destruct (Hm g Hg) as (a & rn1 & i1 & E1 & HP).
  destruct (Hk a rn1 i1 HP (bump g i1) (plain_bump g i1 Hg)) as (b & rn2 & i2 & E2 & HQ).
  exists b, rn2, (i2 ++ i1). unfold bind. rewrite E1, E2. rewrite bump_bump. split; [reflexivity | exact HQ].
Qed.

Lemma sim_conseq {A} (m:M A) rn (P Q:A -> rnode -> list titem -> Prop) :
  sim m rn P -> (forall a rn' i, P a rn' i -> Q a rn' i) -> sim m rn Q.
Proof. intros H HPQ g Hg. destruct (H g Hg) as (a & rn' & i & E & HP). exists a, rn', i. auto. Qed.

Lemma sim_get rn (P:rnode -> rnode -> list titem -> Prop) : P rn rn [] -> sim get rn P.
Proof. intros H g _. exists rn, rn, []. rewrite bump_nil. split; [reflexivity | exact H]. Qed.
Lemma sim_put x rn (P:unit -> rnode -> list titem -> Prop) : P tt x [] -> sim (put x) rn P.
Proof. intros H g _. exists tt, x, []. rewrite bump_nil. split; [reflexivity | exact H]. Qed.
Lemma sim_modify f rn (P:unit -> rnode -> list titem -> Prop) : P tt (f rn) [] -> sim (modify f) rn P.
Proof. intros H g _. exists tt, (f rn), []. rewrite bump_nil. split; [reflexivity | exact H]. Qed.

Lemma sim_guard_value rid rn (P:bool -> rnode -> list titem -> Prop) : P (memb rid val) rn [] -> sim (guard_value rid) rn P.
Proof.
  intros H g (_ & _ & Hv). exists (memb rid val), rn, []. rewrite bump_nil. split; [|exact H].
  unfold guard_value, bind, getg, ret. rewrite Hv. reflexivity.
Qed.

Lemma sim_callback_at sub enq path k id ev w rn (P:unit -> rnode -> list titem -> Prop) :
  P tt rn [Cb k path id ev w (act rn)] -> sim (callback_at sub enq path k id ev w) rn P.
Proof.
  intros H g (Hp & _ & _). exists tt, rn, [Cb k path id ev w (act rn)]. split; [|exact H].
  destruct g as [tr n plan v up bad]. cbn in Hp. subst plan.
  unfold callback_at, bind, get, getg, putg, ret. cbn. reflexivity.
Qed.

Lemma sim_lift {A} s (d:A) (m:M A) rn kn (P:A -> rnode -> list titem -> Prop) :
  nth s (kids rn) None = Some kn ->
  sim m kn (fun a kn' items => P a (set_kids rn (upd (kids rn) s (Some kn'))) (map (push_path s) items)) ->
  sim (lift_child s d m) rn P.
Proof.
  intros Hk Hm g (Hp & Hu & Hv). unfold lift_child. rewrite Hk.
  destruct (Hm (Glob [] (g_cb g) (g_plan g) (g_val g) (g_up g) (g_bad g))) as (a & kn' & items & E & HP).
  { repeat split; assumption. }
  rewrite E. exists a, (set_kids rn (upd (kids rn) s (Some kn'))), (map (push_path s) items). split; [|exact HP].
  unfold bump. cbn. rewrite app_nil_r. rewrite map_length. reflexivity.
Qed.

Lemma sim_take_up rn (P:list evt -> rnode -> list titem -> Prop) : P [] rn [] -> sim take_up rn P.
Proof.
  intros H g (_ & Hu & _). exists [], rn, []. rewrite bump_nil. split; [|exact H].
  destruct g as [tr n plan v up bad]. cbn in Hu. subst up. reflexivity.
Qed.

Lemma sim_catch {A} (m h:M A) rn (P:A -> rnode -> list titem -> Prop) : sim m rn P -> sim (catch m h) rn P.
Proof. intros H g Hg. destruct (H g Hg) as (a & rn' & i & E & HP). exists a, rn', i. unfold catch. rewrite E. auto. Qed.
Lemma sim_on_throw {A} (m:M A) c rn (P:A -> rnode -> list titem -> Prop) : sim m rn P -> sim (on_throw m c) rn P.
Proof. intros H g Hg. destruct (H g Hg) as (a & rn' & i & E & HP). exists a, rn', i. unfold on_throw. rewrite E. auto. Qed.

Lemma sim_iterM {A} (f:A -> M unit) (I:rnode -> list titem -> Prop) : forall l rn items0,
  I rn items0 ->
  (forall x rn1 i1, In x l -> I rn1 i1 -> sim (f x) rn1 (fun _ rn2 i2 => I rn2 (i2 ++ i1))) ->
  sim (iterM f l) rn (fun _ rn' items => I rn' (items ++ items0)).
Proof.
  induction l as [|x l IH]; intros rn items0 HI Hf; cbn [iterM].
  - apply sim_ret. exact HI.
  - eapply sim_bind.
    + apply Hf; [left; reflexivity | exact HI].
    + intros u rn1 i1 H1. cbn in H1. eapply sim_conseq.
      * apply (IH rn1 (i1 ++ items0)); [exact H1|]. intros y rn2 i2 Hy. apply Hf. right. exact Hy.
      * cbn. intros u' rn' i H. rewrite <- app_assoc. exact H.
Qed.
End Sim.

(* ---- abstraction ---- *)
Lemma abs_unfold rn : abs rn = Conf (act rn) (map (option_map abs) (kids rn)) (hist rn).
Proof.
  destruct rn as [a ks h q d c p r]. cbn [abs act kids hist]. f_equal.
  induction ks as [|[k|] t IH]; cbn; [reflexivity | rewrite IH; reflexivity | rewrite IH; reflexivity].
Qed.
Lemma abs_act rn : c_act (abs rn) = act rn. Proof. rewrite abs_unfold. reflexivity. Qed.
Lemma abs_hist rn : c_hist (abs rn) = hist rn. Proof. rewrite abs_unfold. reflexivity. Qed.
Lemma abs_kids rn : c_kids (abs rn) = map (option_map abs) (kids rn). Proof. rewrite abs_unfold. reflexivity. Qed.
Lemma abs_kid rn s : nth s (c_kids (abs rn)) None = option_map abs (nth s (kids rn) None).
Proof. rewrite abs_kids. change (@None conf) with (option_map abs None). apply map_nth. Qed.
Lemma abs_set_act rn a : abs (set_act rn a) = c_set_act (abs rn) a.
Proof. rewrite !abs_unfold. destruct rn; reflexivity. Qed.
Lemma abs_set_hist rn a : abs (set_hist rn a) = c_set_hist (abs rn) a.
Proof. rewrite !abs_unfold. destruct rn; reflexivity. Qed.
Lemma abs_set_msgq rn a : abs (set_msgq rn a) = abs rn. Proof. rewrite !abs_unfold. destruct rn; reflexivity. Qed.
Lemma abs_set_defq rn a : abs (set_defq rn a) = abs rn. Proof. rewrite !abs_unfold. destruct rn; reflexivity. Qed.
Lemma abs_set_curseq rn a : abs (set_curseq rn a) = abs rn. Proof. rewrite !abs_unfold. destruct rn; reflexivity. Qed.
Lemma abs_set_processing rn a : abs (set_processing rn a) = abs rn. Proof. rewrite !abs_unfold. destruct rn; reflexivity. Qed.
Lemma abs_set_running rn a : abs (set_running rn a) = abs rn. Proof. rewrite !abs_unfold. destruct rn; reflexivity. Qed.
Lemma map_upd {A B} (f:A -> B) l i x : map f (upd l i x) = upd (map f l) i (f x).
Proof. revert i. induction l as [|a l IH]; intros [|i]; cbn; auto. f_equal. apply IH. Qed.
Lemma abs_set_kid rn s kn : abs (set_kids rn (upd (kids rn) s (Some kn))) = c_set_kid (abs rn) s (abs kn).
Proof.
  rewrite (abs_unfold (set_kids _ _)), (abs_unfold rn). destruct rn as [a ks h q d c p r]. cbn. rewrite map_upd. reflexivity.
Qed.
Lemma c_act_set_slot c r s : c_act (c_set_slot c r s) = upd (c_act c) r s.
Proof. destruct c; reflexivity. Qed.
Lemma abs_set_act_at rn r s : abs (set_act rn (upd (act rn) r s)) = c_set_slot (abs rn) r s.
Proof. rewrite abs_set_act. unfold c_set_slot. rewrite abs_act. reflexivity. Qed.

Lemma kids_set_kids rn x : kids (set_kids rn x) = x. Proof. destruct rn; reflexivity. Qed.
Lemma act_set_kids rn x : act (set_kids rn x) = act rn. Proof. destruct rn; reflexivity. Qed.
Lemma processing_set_kids rn x : processing (set_kids rn x) = processing rn. Proof. destruct rn; reflexivity. Qed.
Lemma set_kids_set_kids rn x y : set_kids (set_kids rn x) y = set_kids rn y. Proof. destruct rn; reflexivity. Qed.
Lemma upd_upd {A} (l:list A) i x y : upd (upd l i x) i y = upd l i y.
Proof. revert i. induction l as [|a l IH]; intros [|i]; cbn; auto. f_equal. apply IH. Qed.
Lemma nth_upd_some {A} (l:list (option A)) i x y : nth i l None = Some y -> nth i (upd l i (Some x)) None = Some x.
Proof. revert i. induction l as [|a l IH]; intros [|i] H; cbn in *; try discriminate; auto. Qed.

Lemma upd_same_or_out (l:list nat) i : upd l i (nth i l 0) = l.
Proof. revert i. induction l as [|a l IH]; intros [|i]; cbn; auto. f_equal. apply IH. Qed.

(* ---- quiet trees ---- *)
Definition slot_okP (o:option (rnode -> Prop)) (k:option rnode) : Prop :=
  match o, k with Some p, Some kn => p kn | None, None => True | _, _ => False end.

(* nothing stored, nothing marked, at this level and below; the tree has the shape of the definition *)
Fixpoint ok (mc:machine) {struct mc} : rnode -> Prop :=
  let subs := map (fun st => match s_sub st with Some c => Some (ok c) | None => None end) (m_states mc) in
  fun rn => msgq rn = [] /\ defq rn = [] /\ processing rn = false /\ Forall2 slot_okP subs (kids rn).
Definition ok_subs (mc:machine) : list (option (rnode -> Prop)) :=
  map (fun st => match s_sub st with Some c => Some (ok c) | None => None end) (m_states mc).
(* the same without the requirement on this level's own marker (it is set while the level dispatches) *)
(* q: what the level's own message queue holds (events enqueued from outside wait there; everything below is idle) *)
Definition okLq (q:list qitem) (mc:machine) (rn:rnode) : Prop :=
  msgq rn = q /\ defq rn = [] /\ Forall2 slot_okP (ok_subs mc) (kids rn).
Definition okL (mc:machine) (rn:rnode) : Prop := okLq [] mc rn.

Lemma ok_unfold mc rn : ok mc rn <-> okL mc rn /\ processing rn = false.
Proof. destruct mc; unfold okL, okLq, ok_subs; cbn [ok m_states]. tauto. Qed.

Lemma ok_init : forall mc, ok mc (init_rnode mc).
Proof.
  fix IH 1. intros mc. apply ok_unfold. destruct mc as [states inits rows irows hist].
  unfold okL, okLq, ok_subs. cbn [m_states init_rnode kids msgq defq processing]. repeat split.
  induction states as [|st t IHt]; cbn [map]; constructor; auto.
  destruct st as [k sub si df fl z]. cbn. destruct sub as [c|]; cbn; auto.
Qed.

Lemma okL_kid {q} mc rn s c : okLq q mc rn -> s_sub (get_state mc s) = Some c -> exists kn, nth s (kids rn) None = Some kn /\ ok c kn.
Proof.
  intros (_ & _ & H) Hs. unfold ok_subs, get_state in *.
  revert s Hs. generalize dependent (kids rn). generalize (m_states mc) as states.
  induction states as [|st t IH]; intros ks H s Hs.
  - destruct s; cbn in Hs; discriminate.
  - inversion H as [|o k subs ks' Hok Hrest]; subst. destruct s as [|s]; cbn in *.
    + rewrite Hs in Hok. destruct k as [kn|]; cbn in Hok; [|contradiction]. eauto.
    + eapply IH; eauto.
Qed.
Lemma okL_nokid {q} mc rn s : okLq q mc rn -> s_sub (get_state mc s) = None -> nth s (kids rn) None = None.
Proof.
  intros (_ & _ & H) Hs. unfold ok_subs, get_state in *.
  revert s Hs. generalize dependent (kids rn). generalize (m_states mc) as states.
  induction states as [|st t IH]; intros ks H s Hs.
  - inversion H; subst. destruct s; reflexivity.
  - inversion H as [|o k subs ks' Hok Hrest]; subst. destruct s as [|s]; cbn in *.
    + rewrite Hs in Hok. destruct k; cbn in Hok; [contradiction | reflexivity].
    + eapply IH; eauto.
Qed.

Lemma Forall2P_upd subs ks s (p:rnode -> Prop) kn :
  Forall2 slot_okP subs ks -> nth_error subs s = Some (Some p) -> p kn -> Forall2 slot_okP subs (upd ks s (Some kn)).
Proof.
  intros H. revert s. induction H as [|o k subs ks Hok H IH]; intros [|s] Hn Hp; cbn in *; try discriminate.
  - inversion Hn; subst. constructor; auto.
  - constructor; auto.
Qed.
Lemma okL_set_kid {q} mc rn s c kn : okLq q mc rn -> s_sub (get_state mc s) = Some c -> s < length (m_states mc) -> ok c kn ->
  okLq q mc (set_kids rn (upd (kids rn) s (Some kn))).
Proof.
  intros (A & B & H) Hs Hlt Hk. unfold okLq. destruct rn as [a ks h q0 d cs p r]. cbn in *. repeat split; auto.
  eapply Forall2P_upd; eauto. unfold ok_subs. rewrite nth_error_map.
  unfold get_state in Hs. rewrite (nth_error_nth' _ dummy_state Hlt). cbn. rewrite Hs. reflexivity.
Qed.
Lemma sub_in_range mc s c : s_sub (get_state mc s) = Some c -> s < length (m_states mc).
Proof.
  unfold get_state. intros H. destruct (Nat.lt_ge_cases s (length (m_states mc))) as [L|G]; [exact L|].
  rewrite nth_overflow in H by exact G. discriminate.
Qed.

Lemma okL_set_act {q} mc rn a : okLq q mc rn -> okLq q mc (set_act rn a). Proof. destruct rn; exact (fun H => H). Qed.
Lemma okL_set_hist {q} mc rn a : okLq q mc rn -> okLq q mc (set_hist rn a). Proof. destruct rn; exact (fun H => H). Qed.
Lemma okL_set_processing {q} mc rn a : okLq q mc rn -> okLq q mc (set_processing rn a). Proof. destruct rn; exact (fun H => H). Qed.
Lemma okL_set_curseq {q} mc rn a : okLq q mc rn -> okLq q mc (set_curseq rn a). Proof. destruct rn; exact (fun H => H). Qed.
Lemma okL_set_running {q} mc rn a : okLq q mc rn -> okLq q mc (set_running rn a). Proof. destruct rn; exact (fun H => H). Qed.
Lemma okL_set_defq_nil {q} mc rn : okLq q mc rn -> okLq q mc (set_defq rn []).
Proof. destruct rn. unfold okLq. cbn. tauto. Qed.
Lemma okL_set_msgq_nil {q} mc rn : okLq q mc rn -> okLq [] mc (set_msgq rn []).
Proof. destruct rn. unfold okLq. cbn. tauto. Qed.
Lemma okL_set_msgq {q} mc rn q' : okLq q mc rn -> okLq q' mc (set_msgq rn q').
Proof. destruct rn. unfold okLq. cbn. tauto. Qed.

(* nesting depth below a machine: what the fuel of the event loops has to exceed *)
Fixpoint depth (mc:machine) {struct mc} : nat :=
  let 'Machine states _ _ _ _ := mc in
  (fix go (l:list state) : nat :=
     match l with
     | [] => 0
     | State _ (Some c) _ _ _ _ :: t => Nat.max (S (depth c)) (go t)
     | _ :: t => go t
     end) states.
Lemma depth_sub mc s c : s_sub (get_state mc s) = Some c -> S (depth c) <= depth mc.
Proof.
  destruct mc as [states inits rows irows hist]. unfold get_state. cbn [m_states depth].
  revert s. induction states as [|st t IH]; intros s Hs.
  - destruct s; cbn in Hs; discriminate.
  - destruct s as [|s]; cbn in Hs.
    + destruct st as [k sub si df fl z]. cbn in Hs. subst sub. lia.
    + specialize (IH s Hs). destruct st as [k [c'|] si df fl z]; lia.
Qed.

(* induction over the definition tree through the sub-machine accessor *)
Lemma machine_sub_ind (P:machine -> Prop) :
  (forall mc, (forall s c, s_sub (get_state mc s) = Some c -> P c) -> P mc) -> forall mc, P mc.
Proof.
  intros H. fix IH 1. intros mc. apply H. intros s c Hs.
  destruct mc as [states inits rows irows hist]. unfold get_state in Hs. cbn [m_states] in Hs.
  revert s Hs. induction states as [|st t IHt]; intros s Hs.
  - destruct s; cbn in Hs; discriminate.
  - destruct s as [|s]; cbn in Hs.
    + destruct st as [k sub si df fl z]. cbn in Hs. destruct sub as [c'|]; [|discriminate].
      assert (E : c' = c) by congruence. rewrite <- E. apply IH.
    + eapply IHt; eauto.
Qed.

Lemma nth_map_sub {B} (f:machine -> B) states s :
  nth s (map (fun st => match s_sub st with Some c => Some (f c) | None => None end) states) None =
  match s_sub (nth s states dummy_state) with Some c => Some (f c) | None => None end.
Proof. revert s. induction states as [|st t IH]; intros [|s]; cbn; auto. Qed.
