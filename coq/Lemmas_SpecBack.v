(* Lemmas_SpecBack.v - back (favor_runtime_speed and favor_compile_time) refines the specification of Spec.v on the core
   fragment: for every definition of the fragment, every quiet runtime tree, event, guard valuation and enough fuel,
   process_event_internal emits exactly the behaviour invocations of sp_level / sp_process, ends in a quiet tree whose
   configuration is the specified one, and returns a code whose handled bit / zero-ness is the specified outcome. *)
From Msm Require Import Run Lemmas_C19 Lemmas_Rows Lemmas_Sim Spec.
From Coq Require Import Lia.

(* result code against outcome: handled bit iff a transition was taken; not handled: 2 iff a guard said no, else 0 *)
Definition code_ok (code:nat) (h rj:bool) : Prop :=
  if h then code = 1 \/ code = 3 else code = (if rj then 2 else 0).

Lemma code_ok_or c1 c2 h1 r1 h2 r2 : code_ok c1 h1 r1 -> code_ok c2 h2 r2 -> code_ok (bit_or c1 c2) (h1 || h2) (r1 || r2).
Proof.
  unfold code_ok. destruct h1, h2, r1, r2; cbn; intros H1 H2; repeat (destruct H1 as [H1|H1]); repeat (destruct H2 as [H2|H2]);
    subst; cbn; auto.
Qed.

Section BackSpec.
Variable cf : cfg.
Hypothesis Hbe : c_be cf = Back.
Variable parents : list (option nat).
Hypothesis Hflat : forall e, nth e parents None = None.
Variable val : list nat.
Notation pol := (c_pol cf).

(* what a level assumes about the submachine under one of its states *)
Record cspec (c:machine) (co:child_ops) : Prop := {
  cs_exit_pre : forall fuel ev kn, ok c kn ->
    sim val (co_exit_pre co fuel ev) kn (fun _ kn' items => ok c kn' /\ (items, abs kn') = sp_exit c ev (abs kn));
  cs_exit_post : forall ev kn, ok c kn ->
    sim val (co_exit_post co ev) kn (fun _ kn' items => ok c kn' /\ items = [] /\ abs kn' = sp_post_exit c (abs kn));
  cs_entry_pre : forall ev kn, ok c kn ->
    sim val (co_entry_pre co ev EkPlain) kn
        (fun _ kn' items => okL c kn' /\ items = [] /\ abs kn' = c_set_act (abs kn) (sp_hist_entry c (abs kn) (e_ty ev)));
  cs_entry_post : forall fuel ev kn, okL c kn -> 1 <= fuel ->
    sim val (co_entry_post co fuel ev EkPlain) kn (fun _ kn' items => ok c kn' /\ (items, abs kn') = sp_enter c ev (abs kn));
  cs_pei : forall fuel ev kn, ok c kn -> depth c + 2 <= fuel -> e_ty ev <> EV_NONE ->
    sim val (co_pei co fuel ev SRC_DEFAULT) kn
        (fun code kn' items => ok c kn' /\
           items = o_items (sp_level pol c ev val (abs kn)) /\ abs kn' = o_conf (sp_level pol c ev val (abs kn)) /\
           code_ok code (o_taken (sp_level pol c ev val (abs kn))) (o_rejected (sp_level pol c ev val (abs kn))));
  cs_silent : forall ev k, existsb (fun t => trig_matches parents true t (e_ty ev)) (co_trigs co) = false ->
    sp_level pol c ev val k = Out false false [] k
}.

Variable contained : bool.
Variable mc : machine.
Variable children : list (option child_ops).
Hypothesis Hch : forall s, match s_sub (get_state mc s) with
                           | Some c => exists co, nth s children None = Some co /\ cspec c co
                           | None => nth s children None = None
                           end.

Lemma child_some s c : s_sub (get_state mc s) = Some c -> exists co, child children s = Some co /\ cspec c co.
Proof. intros H. specialize (Hch s). rewrite H in Hch. exact Hch. Qed.
Lemma child_none s : s_sub (get_state mc s) = None -> child children s = None.
Proof. intros H. specialize (Hch s). rewrite H in Hch. exact Hch. Qed.

Lemma sim_absorb rn (P:unit -> rnode -> list titem -> Prop) : P tt rn [] -> sim val (absorb_up contained mc) rn P.
Proof.
  intros H. unfold absorb_up. destruct contained; [apply sim_ret; exact H|].
  eapply sim_bind; [apply (sim_take_up val rn (fun a rn1 i1 => a = [] /\ rn1 = rn /\ i1 = [])); auto|].
  intros a rn1 i1 (-> & -> & ->). cbn [iterM]. apply sim_ret. exact H.
Qed.

Lemma sim_in_child {A} s (d:A) (m:M A) rn kn (P:A -> rnode -> list titem -> Prop) :
  nth s (kids rn) None = Some kn ->
  sim val m kn (fun a kn' items => P a (set_kids rn (upd (kids rn) s (Some kn'))) (map (push_path s) items)) ->
  sim val (in_child contained mc s d m) rn P.
Proof.
  intros Hk Hm. unfold in_child. eapply sim_bind; [eapply sim_lift; [exact Hk|]; exact Hm|].
  cbn. intros a rn1 i1 HP. eapply sim_bind; [apply (sim_absorb rn1 (fun _ rn2 i2 => rn2 = rn1 /\ i2 = [])); auto|].
  intros u rn2 i2 (-> & ->). apply sim_ret. cbn. exact HP.
Qed.

Lemma sim_in_child_x {A} s (d:A) (m:M A) rn kn (Q:A -> rnode -> list titem -> Prop) :
  nth s (kids rn) None = Some kn -> sim val m kn Q ->
  sim val (in_child contained mc s d m) rn
      (fun a rn' items => exists kn' i, Q a kn' i /\ rn' = set_kids rn (upd (kids rn) s (Some kn')) /\ items = map (push_path s) i).
Proof.
  intros Hk Hm. eapply sim_in_child; [exact Hk|]. eapply sim_conseq; [exact Hm|].
  cbn. intros a kn' i HQ. exists kn', i. auto.
Qed.

Lemma sim_cb_at path k id ev w rn :
  sim val (cb_at mc path k id ev w) rn (fun _ rn' items => rn' = rn /\ items = [Cb k path id ev w (act rn)]).
Proof. apply sim_callback_at. auto. Qed.
Lemma sim_cb k id ev w rn :
  sim val (cb mc k id ev w) rn (fun _ rn' items => rn' = rn /\ items = [Cb k [] id ev w (act rn)]).
Proof. apply sim_callback_at. auto. Qed.

Lemma exit_subs_nth s : nth s (sp_exit_subs mc) None =
  match s_sub (get_state mc s) with
  | Some m => Some (fun ev k => let '(it, k1) := sp_exit m ev k in (it, sp_post_exit m k1))
  | None => None end.
Proof. unfold sp_exit_subs. apply nth_map_sub. Qed.
Lemma enter_subs_nth s : nth s (sp_enter_subs mc) None =
  match s_sub (get_state mc s) with Some m => Some (m, sp_enter m) | None => None end.
Proof. unfold sp_enter_subs. apply nth_map_sub. Qed.

(* ---- leaving a state ---- *)
Lemma L_exit fuel s ev rn : okL mc rn ->
  sim val (exec_exit contained mc children fuel s ev) rn
      (fun _ rn' items => okL mc rn' /\ processing rn' = processing rn /\
                          (items, abs rn') = sp_exit_state (sp_exit_subs mc) ev s ([], abs rn)).
Proof.
  intros Hok. unfold exec_exit, sp_exit_state. rewrite exit_subs_nth, abs_kid.
  destruct (s_sub (get_state mc s)) as [c|] eqn:Es.
  - destruct (child_some s c Es) as (co & Hco & Hsp). rewrite Hco.
    destruct (okL_kid mc rn s c Hok Es) as (kn & Hk & Hkn). rewrite Hk. cbn [option_map].
    pose proof (sub_in_range mc s c Es) as Hlt.
    eapply sim_bind.
    { eapply sim_in_child_x; [exact Hk|]. apply (cs_exit_pre c co Hsp fuel ev kn Hkn). }
    cbn. intros u rn1' i1' (kn1 & i1 & (Hkn1 & E1) & -> & ->).
    eapply sim_bind; [apply sim_cb_at|].
    cbn. intros u2 rn2 i2 (-> & ->).
    set (rn1 := set_kids rn (upd (kids rn) s (Some kn1))) in *.
    assert (Hk1 : nth s (kids rn1) None = Some kn1).
    { unfold rn1. rewrite kids_set_kids. destruct rn as [a ks h q d cs p r]. cbn in *.
      clear -Hk. revert s Hk. induction ks as [|x t IH]; intros [|s] H; cbn in *; try discriminate; auto. }
    eapply sim_conseq.
    { eapply sim_in_child_x; [exact Hk1|]. apply (cs_exit_post c co Hsp ev kn1 Hkn1). }
    cbn. intros u3 rn3' i3' (kn2 & i3 & (Hkn2 & -> & E2) & -> & ->).
    destruct (sp_exit c ev (abs kn)) as [inner k1] eqn:Esp. inversion E1; subst i1 k1. clear E1.
    unfold rn1. rewrite kids_set_kids.
    assert (Hupd : forall (l:list (option rnode)) x y, upd (upd l s x) s y = upd l s y).
    { intros l x y. revert s. clear. induction l as [|a l IH]; intros [|s]; cbn; auto. f_equal. apply IH. }
    rewrite Hupd. repeat split.
    + change (set_kids (set_kids rn (upd (kids rn) s (Some kn1))) (upd (kids rn) s (Some kn2)))
        with (set_kids rn1 (upd (kids rn) s (Some kn2))).
      replace (set_kids rn1 (upd (kids rn) s (Some kn2))) with (set_kids rn (upd (kids rn) s (Some kn2)))
        by (unfold rn1; destruct rn; reflexivity).
      eapply okL_set_kid; eauto.
    + destruct rn; reflexivity.
    + cbn [map app]. rewrite app_nil_r.
      replace (act rn1) with (act rn) by (unfold rn1; destruct rn; reflexivity).
      rewrite abs_act. f_equal.
      replace (set_kids rn1 (upd (kids rn) s (Some kn2))) with (set_kids rn (upd (kids rn) s (Some kn2)))
        by (unfold rn1; destruct rn; reflexivity).
      rewrite abs_set_kid. rewrite E2. reflexivity.
  - rewrite (child_none s Es).
    eapply sim_conseq; [apply sim_cb|].
    cbn. intros u rn' i (-> & ->). rewrite abs_act. repeat split; auto.
    destruct (option_map abs (nth s (kids rn) None)); reflexivity.
Qed.

(* ---- entering a state ---- *)
Hypothesis Hcore : core mc.

Lemma core_state_kind s : s_sub (get_state mc s) = None -> s_kind (get_state mc s) = KSimple.
Proof.
  destruct mc as [states inits rows irows hist]. cbn in Hcore. destruct Hcore as (_ & _ & Hall).
  unfold get_state. cbn [m_states]. clear Hcore. revert s. induction states as [|st t IH]; intros s Hs.
  - destruct s; reflexivity.
  - destruct st as [k sub si df fl z]. destruct Hall as (_ & _ & Hk & Hrest). destruct s as [|s]; cbn in *.
    + subst sub. exact Hk.
    + apply IH; auto.
Qed.

Lemma entry_throw_irrelevant {A} (m:M A) c rn (P:A -> rnode -> list titem -> Prop) (b:bool) :
  sim val m rn P -> sim val (if b then on_throw m c else m) rn P.
Proof. intros H. destruct b; [apply sim_on_throw|]; exact H. Qed.

Lemma L_entry fuel s ev rn : okL mc rn -> 1 <= fuel ->
  sim val (exec_entry cf contained mc children fuel s ev EkPlain) rn
      (fun _ rn' items => okL mc rn' /\ processing rn' = processing rn /\
                          (items, abs rn') = sp_enter_state (sp_enter_subs mc) ev s ([], abs rn)).
Proof.
  intros Hok Hfuel. unfold exec_entry, sp_enter_state. rewrite enter_subs_nth, abs_kid.
  destruct (s_sub (get_state mc s)) as [c|] eqn:Es.
  - destruct (child_some s c Es) as (co & Hco & Hsp). rewrite Hco.
    destruct (okL_kid mc rn s c Hok Es) as (kn & Hk & Hkn). rewrite Hk. cbn [option_map].
    pose proof (sub_in_range mc s c Es) as Hlt.
    apply entry_throw_irrelevant.
    eapply sim_bind.
    { eapply sim_in_child_x; [exact Hk|]. apply (cs_entry_pre c co Hsp ev kn Hkn). }
    cbn. intros u rn1' i1' (kn1 & i1 & (Hkn1 & -> & E1) & -> & ->).
    eapply sim_bind; [apply sim_cb_at|].
    cbn. intros u2 rn2 i2 (-> & ->).
    set (rn1 := set_kids rn (upd (kids rn) s (Some kn1))) in *.
    assert (Hk1 : nth s (kids rn1) None = Some kn1).
    { unfold rn1. rewrite kids_set_kids. destruct rn as [a ks h q d cs p r]. cbn in *.
      clear -Hk. revert s Hk. induction ks as [|x t IH]; intros [|s] H; cbn in *; try discriminate; auto. }
    eapply sim_conseq.
    { eapply sim_in_child_x; [exact Hk1|]. apply (cs_entry_post c co Hsp fuel ev kn1 Hkn1 Hfuel). }
    cbn. intros u3 rn3' i3' (kn2 & i3 & (Hkn2 & E2) & -> & ->).
    rewrite E1 in E2.
    destruct (sp_enter c ev (c_set_act (abs kn) (sp_hist_entry c (abs kn) (e_ty ev)))) as [inner k1] eqn:Esp.
    inversion E2; subst i3 k1. clear E2.
    unfold rn1. rewrite kids_set_kids.
    assert (Hupd : forall (l:list (option rnode)) x y, upd (upd l s x) s y = upd l s y).
    { intros l x y. revert s. clear. induction l as [|a l IH]; intros [|s]; cbn; auto. f_equal. apply IH. }
    rewrite Hupd.
    replace (set_kids (set_kids rn (upd (kids rn) s (Some kn1))) (upd (kids rn) s (Some kn2)))
      with (set_kids rn (upd (kids rn) s (Some kn2))) by (destruct rn; reflexivity).
    repeat split.
    + eapply okL_set_kid; eauto.
    + destruct rn; reflexivity.
    + cbn [map app]. rewrite app_nil_r.
      replace (act rn1) with (act rn) by (unfold rn1; destruct rn; reflexivity).
      rewrite abs_act. rewrite abs_set_kid. reflexivity.
  - rewrite (child_none s Es). rewrite (core_state_kind s Es).
    eapply sim_conseq; [apply sim_cb|].
    cbn. intros u rn' i (-> & ->). rewrite abs_act. repeat split; auto.
    destruct (option_map abs (nth s (kids rn) None)); reflexivity.
Qed.

End BackSpec.
