(* Lemmas_SpecBack.v - back (favor_runtime_speed and favor_compile_time) refines the specification of Spec.v on the core
   fragment: for every definition of the fragment, every quiet runtime tree, event, guard valuation and enough fuel,
   process_event_internal emits exactly the behaviour invocations of sp_level / sp_process, ends in a quiet tree whose
   configuration is the specified one, and returns a code whose handled bit / zero-ness is the specified outcome. *)
From Msm Require Import Run Lemmas_C19 Lemmas_Rows Lemmas_Sim Spec.
From Coq Require Import Lia.

Arguments sp_exit_state : simpl never.
Arguments sp_enter_state : simpl never.
Arguments sp_take : simpl never.
Arguments sp_exit : simpl never.
Arguments sp_enter : simpl never.
Arguments sp_level : simpl never.
Arguments switch_id : simpl never.

(* result code against outcome: handled bit iff a transition was taken; not handled: 2 iff a guard said no, else 0 *)
Definition code_ok (code:nat) (h rj:bool) : Prop :=
  if h then code = 1 \/ code = 3 else code = (if rj then 2 else 0).

Lemma code_ok_or c1 c2 h1 r1 h2 r2 : code_ok c1 h1 r1 -> code_ok c2 h2 r2 -> code_ok (bit_or c1 c2) (h1 || h2) (r1 || r2).
Proof.
  unfold code_ok. destruct h1, h2, r1, r2; cbn; intros H1 H2; repeat (destruct H1 as [H1|H1]); repeat (destruct H2 as [H2|H2]);
    subst; cbn; auto.
Qed.

Lemma sp_exit_state_acc subs ev s items c :
  sp_exit_state subs ev s (items, c) = let '(it, c') := sp_exit_state subs ev s ([], c) in (it ++ items, c').
Proof.
  unfold sp_exit_state. destruct (nth s subs None) as [f|]; [|cbn; reflexivity].
  destruct (nth s (c_kids c) None) as [k|]; [|cbn; reflexivity].
  destruct (f ev k) as [inner k1]. cbn. rewrite app_nil_r. reflexivity.
Qed.
Lemma sp_enter_state_acc subs ev s items c :
  sp_enter_state subs ev s (items, c) = let '(it, c') := sp_enter_state subs ev s ([], c) in (it ++ items, c').
Proof.
  unfold sp_enter_state. destruct (nth s subs None) as [[m f]|]; [|cbn; reflexivity].
  destruct (nth s (c_kids c) None) as [k|]; [|cbn; reflexivity].
  destruct (f ev _) as [inner k1]. cbn. rewrite <- app_assoc. reflexivity.
Qed.

Section BackSpec.
Variable cf : cfg.
Hypothesis Hbe : c_be cf = Back.
Variable parents : list (option nat).
Hypothesis Hflat : forall e, nth e parents None = None.
Variable val : list nat.
Notation pol := (c_pol cf).

(* what a level assumes about the submachine under one of its states *)
Record cspec (c:machine) (co:child_ops) : Prop := {
  cs_exit_pre : forall fuel ev kn, ok c kn ->
    sim val (co_exit_pre co fuel ev) kn (fun _ kn' items => ok c kn' /\ (items, abs kn') = sp_exit c ev (abs kn));
  cs_exit_post : forall ev kn, ok c kn ->
    sim val (co_exit_post co ev) kn (fun _ kn' items => ok c kn' /\ items = [] /\ abs kn' = sp_post_exit c (abs kn));
  cs_entry_pre : forall ev kn, ok c kn ->
    sim val (co_entry_pre co ev EkPlain) kn
        (fun _ kn' items => okL c kn' /\ items = [] /\ abs kn' = c_set_act (abs kn) (sp_hist_entry c (abs kn) (e_ty ev)));
  cs_entry_post : forall fuel ev kn, okL c kn -> 1 <= fuel ->
    sim val (co_entry_post co fuel ev EkPlain) kn (fun _ kn' items => ok c kn' /\ (items, abs kn') = sp_enter c ev (abs kn));
  cs_pei : forall fuel ev kn, ok c kn -> depth c + 2 <= fuel -> e_ty ev <> EV_NONE ->
    sim val (co_pei co fuel ev SRC_DEFAULT) kn
        (fun code kn' items => ok c kn' /\
           items = o_items (sp_level pol c ev val (abs kn)) /\ abs kn' = o_conf (sp_level pol c ev val (abs kn)) /\
           code_ok code (o_taken (sp_level pol c ev val (abs kn))) (o_rejected (sp_level pol c ev val (abs kn))));
  cs_silent : forall ev k, existsb (fun t => trig_matches parents true t (e_ty ev)) (co_trigs co) = false ->
    sp_level pol c ev val k = Out false false [] k;
  cs_silent_fct : forall ev k, existsb (fun t => match t with TrEv e => Nat.eqb e (e_ty ev) | _ => false end) (co_trigs co) = false ->
    sp_level pol c ev val k = Out false false [] k
}.

Variable contained : bool.
Variable mc : machine.
Variable children : list (option child_ops).
Hypothesis Hch : forall s, match s_sub (get_state mc s) with
                           | Some c => exists co, nth s children None = Some co /\ cspec c co
                           | None => nth s children None = None
                           end.

Lemma child_some s c : s_sub (get_state mc s) = Some c -> exists co, child children s = Some co /\ cspec c co.
Proof. intros H. specialize (Hch s). rewrite H in Hch. exact Hch. Qed.
Lemma child_none s : s_sub (get_state mc s) = None -> child children s = None.
Proof. intros H. specialize (Hch s). rewrite H in Hch. exact Hch. Qed.

Lemma sim_absorb rn (P:unit -> rnode -> list titem -> Prop) : P tt rn [] -> sim val (absorb_up contained mc) rn P.
Proof.
  intros H. unfold absorb_up. destruct contained; [apply sim_ret; exact H|].
  eapply sim_bind; [apply (sim_take_up val rn (fun a rn1 i1 => a = [] /\ rn1 = rn /\ i1 = [])); auto|].
  intros a rn1 i1 (-> & -> & ->). cbn [iterM]. apply sim_ret. exact H.
Qed.

Lemma sim_in_child {A} s (d:A) (m:M A) rn kn (P:A -> rnode -> list titem -> Prop) :
  nth s (kids rn) None = Some kn ->
  sim val m kn (fun a kn' items => P a (set_kids rn (upd (kids rn) s (Some kn'))) (map (push_path s) items)) ->
  sim val (in_child contained mc s d m) rn P.
Proof.
  intros Hk Hm. unfold in_child. eapply sim_bind; [eapply sim_lift; [exact Hk|]; exact Hm|].
  cbn. intros a rn1 i1 HP. eapply sim_bind; [apply (sim_absorb rn1 (fun _ rn2 i2 => rn2 = rn1 /\ i2 = [])); auto|].
  intros u rn2 i2 (-> & ->). apply sim_ret. cbn. exact HP.
Qed.

Lemma sim_in_child_x {A} s (d:A) (m:M A) rn kn (Q:A -> rnode -> list titem -> Prop) :
  nth s (kids rn) None = Some kn -> sim val m kn Q ->
  sim val (in_child contained mc s d m) rn
      (fun a rn' items => exists kn' i, Q a kn' i /\ rn' = set_kids rn (upd (kids rn) s (Some kn')) /\ items = map (push_path s) i).
Proof.
  intros Hk Hm. eapply sim_in_child; [exact Hk|]. eapply sim_conseq; [exact Hm|].
  cbn. intros a kn' i HQ. exists kn', i. auto.
Qed.

Lemma sim_cb_at path k id ev w rn :
  sim val (cb_at mc path k id ev w) rn (fun _ rn' items => rn' = rn /\ items = [Cb k path id ev w (act rn)]).
Proof. apply sim_callback_at. auto. Qed.
Lemma sim_cb k id ev w rn :
  sim val (cb mc k id ev w) rn (fun _ rn' items => rn' = rn /\ items = [Cb k [] id ev w (act rn)]).
Proof. apply sim_callback_at. auto. Qed.

Lemma exit_subs_nth s : nth s (sp_exit_subs mc) None =
  match s_sub (get_state mc s) with
  | Some m => Some (fun ev k => let '(it, k1) := sp_exit m ev k in (it, sp_post_exit m k1))
  | None => None end.
Proof. unfold sp_exit_subs. apply nth_map_sub. Qed.
Lemma enter_subs_nth s : nth s (sp_enter_subs mc) None =
  match s_sub (get_state mc s) with Some m => Some (m, sp_enter m) | None => None end.
Proof. unfold sp_enter_subs. apply nth_map_sub. Qed.

(* ---- leaving a state ---- *)
Lemma L_exit {q} fuel s ev rn : okLq q mc rn ->
  sim val (exec_exit contained mc children fuel s ev) rn
      (fun _ rn' items => okLq q mc rn' /\ processing rn' = processing rn /\
                          (items, abs rn') = sp_exit_state (sp_exit_subs mc) ev s ([], abs rn)).
Proof.
  intros Hok. unfold exec_exit, sp_exit_state. rewrite exit_subs_nth, abs_kid.
  destruct (s_sub (get_state mc s)) as [c|] eqn:Es.
  - destruct (child_some s c Es) as (co & Hco & Hsp). rewrite Hco.
    destruct (okL_kid mc rn s c Hok Es) as (kn & Hk & Hkn). rewrite Hk. cbn [option_map].
    pose proof (sub_in_range mc s c Es) as Hlt.
    eapply sim_bind.
    { eapply sim_in_child_x; [exact Hk|]. apply (cs_exit_pre c co Hsp fuel ev kn Hkn). }
    cbn. intros u rn1' i1' (kn1 & i1 & (Hkn1 & E1) & -> & ->).
    eapply sim_bind; [apply sim_cb_at|].
    cbn. intros u2 rn2 i2 (-> & ->).
    set (rn1 := set_kids rn (upd (kids rn) s (Some kn1))) in *.
    assert (Hk1 : nth s (kids rn1) None = Some kn1).
    { unfold rn1. rewrite kids_set_kids. eapply nth_upd_some; eauto. }
    eapply sim_conseq.
    { eapply sim_in_child_x; [exact Hk1|]. apply (cs_exit_post c co Hsp ev kn1 Hkn1). }
    cbn. intros u3 rn3' i3' (kn2 & i3 & (Hkn2 & -> & E2) & -> & ->).
    destruct (sp_exit c ev (abs kn)) as [inner k1] eqn:Esp. inversion E1; subst i1 k1. clear E1.
    unfold rn1. rewrite kids_set_kids, upd_upd, set_kids_set_kids.
    split; [|split].
    + eapply okL_set_kid; eauto.
    + apply processing_set_kids.
    + cbn [map app]. rewrite app_nil_r. rewrite act_set_kids, abs_act, abs_set_kid, E2. reflexivity.
  - rewrite (child_none s Es).
    eapply sim_conseq; [apply sim_cb|].
    cbn. intros u rn' i (-> & ->). rewrite abs_act. split; [exact Hok|split; [reflexivity|]].
    destruct (option_map abs (nth s (kids rn) None)); reflexivity.
Qed.

(* ---- entering a state ---- *)
Hypothesis Hcore : core mc.

Lemma core_states_kind states : forall s,
  (fix all (l:list state) : Prop :=
     match l with
     | [] => True
     | State k sub sirows defers _ _ :: t =>
         defers = [] /\ Forall core_irow sirows /\
         match sub with Some m => k = KSub /\ core m | None => k = KSimple end /\ all t
     end) states ->
  s_sub (nth s states dummy_state) = None -> s_kind (nth s states dummy_state) = KSimple.
Proof.
  induction states as [|st t IH]; intros s Hall Hs.
  - destruct s; reflexivity.
  - destruct st as [k sub si df fl z]. destruct Hall as (_ & _ & Hk & Hrest). destruct s as [|s]; cbn in *.
    + subst sub. exact Hk.
    + apply IH; auto.
Qed.
Lemma core_state_kind s : s_sub (get_state mc s) = None -> s_kind (get_state mc s) = KSimple.
Proof.
  unfold get_state. destruct mc as [states inits rows irows hist]. cbn in Hcore. destruct Hcore as (_ & _ & Hall).
  cbn [m_states]. apply core_states_kind. exact Hall.
Qed.

Lemma entry_throw_irrelevant {A} (m:M A) c rn (P:A -> rnode -> list titem -> Prop) (b:bool) :
  sim val m rn P -> sim val (if b then on_throw m c else m) rn P.
Proof. intros H. destruct b; [apply sim_on_throw|]; exact H. Qed.

Lemma L_entry {q} fwd fuel s ev rn : okLq q mc rn -> 1 <= fuel ->
  sim val (exec_entry_gen cf contained mc children fwd fuel s ev EkPlain) rn
      (fun _ rn' items => okLq q mc rn' /\ processing rn' = processing rn /\
                          (items, abs rn') = sp_enter_state (sp_enter_subs mc) ev s ([], abs rn)).
Proof.
  intros Hok Hfuel. unfold exec_entry_gen, sp_enter_state. rewrite enter_subs_nth, abs_kid.
  destruct (s_sub (get_state mc s)) as [c|] eqn:Es.
  - destruct (child_some s c Es) as (co & Hco & Hsp). rewrite Hco.
    destruct (okL_kid mc rn s c Hok Es) as (kn & Hk & Hkn). rewrite Hk. cbn [option_map].
    pose proof (sub_in_range mc s c Es) as Hlt.
    apply entry_throw_irrelevant.
    eapply sim_bind.
    { eapply sim_in_child_x; [exact Hk|]. apply (cs_entry_pre c co Hsp ev kn Hkn). }
    cbn. intros u rn1' i1' (kn1 & i1 & (Hkn1 & -> & E1) & -> & ->).
    eapply sim_bind; [apply sim_cb_at|].
    cbn. intros u2 rn2 i2 (-> & ->).
    set (rn1 := set_kids rn (upd (kids rn) s (Some kn1))) in *.
    assert (Hk1 : nth s (kids rn1) None = Some kn1).
    { unfold rn1. rewrite kids_set_kids. eapply nth_upd_some; eauto. }
    eapply sim_conseq.
    { eapply sim_in_child_x; [exact Hk1|]. apply (cs_entry_post c co Hsp fuel ev kn1 Hkn1 Hfuel). }
    cbn. intros u3 rn3' i3' (kn2 & i3 & (Hkn2 & E2) & -> & ->).
    rewrite E1 in E2.
    destruct (sp_enter c ev (c_set_act (abs kn) (sp_hist_entry c (abs kn) (e_ty ev)))) as [inner k1] eqn:Esp.
    inversion E2; subst i3 k1. clear E2.
    unfold rn1. rewrite kids_set_kids, upd_upd, set_kids_set_kids.
    split; [|split].
    + eapply okL_set_kid; eauto.
    + apply processing_set_kids.
    + cbn [map app]. rewrite app_nil_r. rewrite act_set_kids, abs_act, abs_set_kid. reflexivity.
  - rewrite (child_none s Es). rewrite (core_state_kind s Es).
    eapply sim_conseq; [apply sim_cb|].
    cbn. intros u rn' i (-> & ->). rewrite abs_act. split; [exact Hok|split; [reflexivity|]].
    destruct (option_map abs (nth s (kids rn) None)); reflexivity.
Qed.


(* ---- one row ---- *)
Lemma sim_set_act_at r s rn :
  sim val (set_act_at r s) rn (fun _ rn' items => rn' = set_act rn (upd (act rn) r s) /\ items = []).
Proof. unfold set_act_at. apply sim_modify. auto. Qed.

Lemma sim_run_guard x ev rn :
  sim val (run_guard mc x ev) rn
      (fun b rn' items => rn' = rn /\
         if r_guard x then b = memb (r_id x) val /\ items = [Cb (KGuard b) [] (r_id x) ev false (act rn)]
         else b = true /\ items = []).
Proof.
  unfold run_guard. destruct (r_guard x).
  - eapply sim_bind; [apply (sim_guard_value val (r_id x) rn (fun b rn1 i1 => b = memb (r_id x) val /\ rn1 = rn /\ i1 = [])); auto|].
    cbn. intros b rn1 i1 (-> & -> & ->).
    eapply sim_bind; [apply sim_cb|]. cbn. intros u rn2 i2 (-> & ->). apply sim_ret. cbn. auto.
  - apply sim_ret. auto.
Qed.

Lemma sim_run_action x ev rn : r_act x <> ActDefer ->
  sim val (run_action mc x ev) rn
      (fun code rn' items => rn' = rn /\ code = HANDLED_TRUE /\
         items = match r_act x with ActCall => [Cb KAction [] (r_id x) ev false (act rn)] | _ => [] end).
Proof.
  intros Hd. unfold run_action. destruct (r_act x); try congruence.
  - apply sim_ret. auto.
  - eapply sim_bind; [apply sim_cb|]. cbn. intros u rn2 i2 (-> & ->). apply sim_ret. cbn. auto.
Qed.

Definition core_row' (x:row) : Prop :=
  r_act x <> ActDefer /\ r_exitpt x = None /\ (r_tgt x = TgNone \/ exists t, r_tgt x = TgState t).

Lemma L_take {q} fuel r x ev rn : okLq q mc rn -> 1 <= fuel -> core_row' x ->
  sim val (match tgt_state (r_tgt x) with
           | None => run_action mc x ev
           | Some nxt =>
               set_act_at r (switch_id pol 0 (r_src x) nxt) ;;
               exec_exit contained mc children fuel (r_src x) ev ;;
               set_act_at r (switch_id pol 1 (r_src x) nxt) ;;
               res <- run_action mc x ev ;;
               set_act_at r (switch_id pol 2 (r_src x) nxt) ;;
               exec_entry_gen cf contained mc children (row_converts x) fuel nxt ev (tgt_ekind (r_tgt x)) ;;
               set_act_at r (switch_id pol 3 (r_src x) nxt) ;;
               ret res
           end) rn
      (fun code rn' items => okLq q mc rn' /\ processing rn' = processing rn /\ code = HANDLED_TRUE /\
                             (items, abs rn') = sp_take pol mc r x ev (abs rn)).
Proof.
  intros Hok Hfuel (Hd & _ & Htgt). unfold sp_take.
  destruct Htgt as [Ht | (t & Ht)]; rewrite Ht; cbn [tgt_state tgt_ekind].
  - eapply sim_conseq; [apply sim_run_action; exact Hd|].
    cbn. intros code rn' items (-> & -> & ->). rewrite abs_act. auto.
  - set (cur := r_src x).
    eapply sim_bind; [apply sim_set_act_at|]. cbn. intros u0 rn0 i0 (-> & ->).
    eapply sim_bind; [eapply (L_exit (q:=q)); apply okL_set_act; exact Hok|]. cbn. intros u1 rn1 i1 (Hok1 & Hp1 & E1).
    eapply sim_bind; [apply sim_set_act_at|]. cbn. intros u2 rn2 i2 (-> & ->).
    eapply sim_bind; [apply sim_run_action; exact Hd|]. cbn. intros res rn3 i3 (-> & -> & ->).
    eapply sim_bind; [apply sim_set_act_at|]. cbn. intros u4 rn4 i4 (-> & ->).
    eapply sim_bind; [eapply (L_entry (q:=q)); [repeat apply okL_set_act; exact Hok1 | exact Hfuel]|].
    cbn. intros u5 rn5 i5 (Hok5 & Hp5 & E5).
    eapply sim_bind; [apply sim_set_act_at|]. cbn. intros u6 rn6 i6 (-> & ->).
    apply sim_ret. cbn.
    rewrite abs_set_act_at in E1.
    destruct (sp_exit_state (sp_exit_subs mc) ev cur ([], c_set_slot (abs rn) r (switch_id pol 0 cur t))) as [j1 c1] eqn:X1.
    injection E1 as <- <-.
    rewrite !abs_set_act_at in E5.
    assert (Ea : act (set_act rn1 (upd (act rn1) r (switch_id pol 1 cur t))) = c_act (c_set_slot (abs rn1) r (switch_id pol 1 cur t))).
    { rewrite c_act_set_slot, abs_act. destruct rn1; reflexivity. }
    rewrite Ea.
    destruct (sp_enter_state (sp_enter_subs mc) ev t
                ([], c_set_slot (c_set_slot (abs rn1) r (switch_id pol 1 cur t)) r (switch_id pol 2 cur t))) as [j5 c5] eqn:X5.
    injection E5 as <- <-.
    split; [apply okL_set_act; exact Hok5|]. split.
    { destruct rn5, rn1, rn; cbn in *. congruence. }
    split; [reflexivity|].
    rewrite abs_set_act_at. rewrite !app_nil_r. rewrite app_assoc. reflexivity.
Qed.

Lemma L_row {q} fuel r x ev rn : okLq q mc rn -> 1 <= fuel -> core_row' x ->
  sim val (exec_row cf contained mc children fuel r x ev) rn
      (fun code rn' items => okLq q mc rn' /\ processing rn' = processing rn /\
         items = o_items (sp_rows pol mc r ev val [x] (abs rn)) /\ abs rn' = o_conf (sp_rows pol mc r ev val [x] (abs rn)) /\
         code = (if o_taken (sp_rows pol mc r ev val [x] (abs rn)) then 1 else 2) /\
         o_rejected (sp_rows pol mc r ev val [x] (abs rn)) = negb (o_taken (sp_rows pol mc r ev val [x] (abs rn)))).
Proof.
  intros Hok Hfuel Hc. pose proof Hc as (Hd & Hx & Htgt). unfold exec_row. cbn [sp_rows].
  assert (Hcommon : forall b gi, (if r_guard x then b = memb (r_id x) val /\ gi = [Cb (KGuard b) [] (r_id x) ev false (act rn)] else b = true /\ gi = []) ->
            sim val (if b then
                       match tgt_state (r_tgt x) with
                       | None => run_action mc x ev
                       | Some nxt =>
                           set_act_at r (switch_id pol 0 (r_src x) nxt) ;;
                           exec_exit contained mc children fuel (r_src x) ev ;;
                           set_act_at r (switch_id pol 1 (r_src x) nxt) ;;
                           res <- run_action mc x ev ;;
                           set_act_at r (switch_id pol 2 (r_src x) nxt) ;;
                           exec_entry_gen cf contained mc children (row_converts x) fuel nxt ev (tgt_ekind (r_tgt x)) ;;
                           set_act_at r (switch_id pol 3 (r_src x) nxt) ;;
                           ret res
                       end
                     else ret HANDLED_GUARD_REJECT) rn
              (fun code rn' items => okLq q mc rn' /\ processing rn' = processing rn /\
                 let o := (if r_guard x
                           then if memb (r_id x) val
                                then (let '(i, c') := sp_take pol mc r x ev (abs rn) in Out true false (i ++ [Cb (KGuard true) [] (r_id x) ev false (c_act (abs rn))]) c')
                                else Out false true ([] ++ [Cb (KGuard false) [] (r_id x) ev false (c_act (abs rn))]) (abs rn)
                           else (let '(i, c') := sp_take pol mc r x ev (abs rn) in Out true false i c')) in
                 items ++ gi = o_items o /\ abs rn' = o_conf o /\ code = (if o_taken o then 1 else 2) /\ o_rejected o = negb (o_taken o))).
  { intros b gi Hb. destruct b.
    - eapply sim_conseq; [eapply (L_take (q:=q)); auto|]. cbn. intros code rn' items (H1 & H2 & -> & E).
      split; [exact H1|]. split; [exact H2|].
      destruct (sp_take pol mc r x ev (abs rn)) as [i c'] eqn:T. inversion E; subst i c'.
      destruct (r_guard x).
      + destruct Hb as (Hb & ->). rewrite <- Hb. cbn. rewrite abs_act. auto.
      + destruct Hb as (_ & ->). cbn. rewrite app_nil_r. auto.
    - apply sim_ret. split; [exact Hok|]. split; [reflexivity|].
      destruct (r_guard x); [|destruct Hb; discriminate].
      destruct Hb as (Hb & ->). rewrite <- Hb. cbn. rewrite abs_act. auto. }
  destruct (tgt_state (r_tgt x)) as [nxt|] eqn:Et.
  - rewrite Hx. eapply sim_bind; [apply (sim_get val rn (fun a rn1 i1 => a = rn /\ rn1 = rn /\ i1 = [])); auto|].
    cbn. intros a rn1 i1 (-> & -> & ->).
    eapply sim_bind; [apply sim_run_guard|]. cbn. intros b rn2 gi (-> & Hb).
    specialize (Hcommon b gi Hb).
    destruct b; cbn [negb]; (eapply sim_conseq; [exact Hcommon|]); cbn; intros code rn' items H; rewrite app_nil_r;
      (destruct (r_guard x); [destruct (memb (r_id x) val)|]); exact H.
  - eapply sim_bind; [apply sim_run_guard|]. cbn. intros b rn2 gi (-> & Hb).
    specialize (Hcommon b gi Hb).
    eapply sim_conseq; [exact Hcommon|]. cbn. intros code rn' items H.
    destruct (r_guard x); [destruct (memb (r_id x) val)|]; exact H.
Qed.


(* ---- the candidates of a state, one after the other ---- *)

Lemma is11_false : is11 cf = false. Proof. unfold is11. rewrite Hbe. reflexivity. Qed.
Lemma cc_vals : chain_continue cf 0 = true /\ chain_continue cf 1 = false /\ chain_continue cf 2 = true /\ chain_continue cf 3 = false.
Proof. unfold chain_continue. rewrite is11_false. repeat split; reflexivity. Qed.
Lemma merge2 sub h rj : code_ok sub h rj -> code_ok (chain_merge cf 2 sub) h true.
Proof.
  unfold chain_merge. rewrite is11_false. unfold code_ok. destruct h.
  - intros [->| ->]; cbn; auto.
  - destruct rj; intros ->; reflexivity.
Qed.
Lemma merge0 sub : sub < 4 -> chain_merge cf 0 sub = sub.
Proof. unfold chain_merge. rewrite is11_false. intros H. do 4 (destruct sub as [|sub]; [reflexivity|]). lia. Qed.
Lemma code_ok_lt4 c h rj : code_ok c h rj -> c < 4.
Proof. unfold code_ok. destruct h; [intros [->| ->]; lia | destruct rj; intros ->; lia]. Qed.

Lemma sp_rows_cons x t r ev c :
  sp_rows pol mc r ev val (x :: t) c =
  let o1 := sp_rows pol mc r ev val [x] c in
  if o_taken o1 then o1
  else (let o2 := sp_rows pol mc r ev val t (o_conf o1) in
        Out (o_taken o2) true (o_items o2 ++ o_items o1) (o_conf o2)).
Proof.
  cbn [sp_rows]. destruct (r_guard x).
  - destruct (memb (r_id x) val).
    + destruct (sp_take pol mc r x ev c) as [i c']. reflexivity.
    + cbn. reflexivity.
  - destruct (sp_take pol mc r x ev c) as [i c']. reflexivity.
Qed.

Lemma L_rows {q} fuel r s ev : forall rows rn, okLq q mc rn -> 1 <= fuel -> Forall core_row' rows ->
  sim val (chain_gen (exec_item cf contained mc children fuel r s ev) (chain_continue cf) (chain_merge cf) (map CRow rows)) rn
      (fun code rn' items => okLq q mc rn' /\ processing rn' = processing rn /\
         items = o_items (sp_rows pol mc r ev val rows (abs rn)) /\ abs rn' = o_conf (sp_rows pol mc r ev val rows (abs rn)) /\
         code_ok code (o_taken (sp_rows pol mc r ev val rows (abs rn))) (o_rejected (sp_rows pol mc r ev val rows (abs rn)))).
Proof.
  induction rows as [|x t IH]; intros rn Hok Hfuel Hall; cbn [map chain_gen].
  - apply sim_ret. cbn. split; [exact Hok|]. repeat (split; [reflexivity|]). reflexivity.
  - inversion Hall as [|? ? Hx Ht]; subst. rewrite sp_rows_cons.
    eapply sim_bind; [apply (L_row (q:=q) fuel r x ev rn Hok Hfuel Hx)|].
    cbn beta. intros res rn1 i1 (Hok1 & Hp1 & Ei & Ec & Eres & Erj).
    destruct (o_taken (sp_rows pol mc r ev val [x] (abs rn))) eqn:Tk.
    + subst res. destruct cc_vals as (_ & C1 & _). rewrite C1. apply sim_ret. cbn zeta. rewrite Tk.
      rewrite app_nil_l. split; [exact Hok1|]. split; [exact Hp1|]. split; [exact Ei|]. split; [exact Ec|].
      rewrite Erj, Tk. unfold code_ok. auto.
    + subst res. destruct cc_vals as (_ & _ & C2 & _). rewrite C2.
      eapply sim_bind; [apply (IH rn1 Hok1 Hfuel Ht)|].
      cbn beta. intros sub rn2 i2 (Hok2 & Hp2 & Ei2 & Ec2 & Hc2). apply sim_ret. cbn zeta. rewrite Tk. cbn [o_taken o_rejected o_items o_conf].
      rewrite app_nil_l. rewrite <- Ec. split; [exact Hok2|]. split; [congruence|]. split; [congruence|]. split; [exact Ec2|].
      apply merge2 with (rj := o_rejected (sp_rows pol mc r ev val t (abs rn1))). exact Hc2.
Qed.

(* favor_compile_time: the same candidates through the accumulator loop *)
Definition acc_of (rj:bool) : nat := if rj then 2 else 0.
Lemma fcont_vals : tab1 fct_chain_continue 0 = true /\ tab1 fct_chain_continue 1 = false /\ tab1 fct_chain_continue 2 = true /\ tab1 fct_chain_continue 3 = false.
Proof. repeat split; reflexivity. Qed.
Lemma fstep_ok rj0 h t rj : code_ok h t rj -> code_ok (tab2 fct_chain_step (acc_of rj0) h) t (rj0 || rj).
Proof.
  unfold code_ok. destruct t.
  - intros [->| ->]; destruct rj0; cbn; auto.
  - destruct rj; intros ->; destruct rj0; reflexivity.
Qed.
Lemma loop_stops {A} (ex:A -> M nat) cont step acc l rn : cont acc = false ->
  sim val (loop_gen ex cont step acc l) rn (fun code rn' items => rn' = rn /\ items = [] /\ code = acc).
Proof. intros H. destruct l; cbn [loop_gen]; [|rewrite H]; apply sim_ret; auto. Qed.

Lemma L_rows_fct {q} fuel r s ev : forall rows rn rj0, okLq q mc rn -> 1 <= fuel -> Forall core_row' rows ->
  sim val (loop_gen (exec_item cf contained mc children fuel r s ev) (tab1 fct_chain_continue) (tab2 fct_chain_step) (acc_of rj0) (map CRow rows)) rn
      (fun code rn' items => okLq q mc rn' /\ processing rn' = processing rn /\
         items = o_items (sp_rows pol mc r ev val rows (abs rn)) /\ abs rn' = o_conf (sp_rows pol mc r ev val rows (abs rn)) /\
         code_ok code (o_taken (sp_rows pol mc r ev val rows (abs rn))) (rj0 || o_rejected (sp_rows pol mc r ev val rows (abs rn)))).
Proof.
  induction rows as [|x t IH]; intros rn rj0 Hok Hfuel Hall; cbn [map loop_gen].
  - apply sim_ret. cbn. split; [exact Hok|]. repeat (split; [reflexivity|]). unfold code_ok, acc_of. rewrite orb_false_r. reflexivity.
  - inversion Hall as [|? ? Hx Ht]; subst. rewrite sp_rows_cons.
    assert (Hc : tab1 fct_chain_continue (acc_of rj0) = true) by (destruct rj0; reflexivity). rewrite Hc.
    eapply sim_bind; [apply (L_row (q:=q) fuel r x ev rn Hok Hfuel Hx)|].
    cbn beta. intros res rn1 i1 (Hok1 & Hp1 & Ei & Ec & Eres & Erj).
    destruct (o_taken (sp_rows pol mc r ev val [x] (abs rn))) eqn:Tk.
    + subst res. cbn zeta. rewrite Tk.
      eapply sim_conseq; [apply loop_stops; destruct rj0; reflexivity|]. cbn beta. intros code rn' items (-> & -> & ->).
      rewrite app_nil_l. split; [exact Hok1|]. split; [exact Hp1|]. split; [exact Ei|]. split; [exact Ec|].
      unfold code_ok. rewrite Tk. destruct rj0; cbn; auto.
    + subst res. cbn zeta. rewrite Tk. cbn [o_taken o_rejected o_items o_conf].
      assert (Eacc : tab2 fct_chain_step (acc_of rj0) 2 = acc_of true) by (destruct rj0; reflexivity). rewrite Eacc.
      eapply sim_conseq; [apply (IH rn1 true Hok1 Hfuel Ht)|].
      cbn beta. intros code rn2 i2 (Hok2 & Hp2 & Ei2 & Ec2 & Hc2).
      rewrite <- Ec. split; [exact Hok2|]. split; [congruence|]. split; [rewrite Ei2, Ei; reflexivity|].
      split; [exact Ec2|]. rewrite orb_true_r. exact Hc2.
Qed.

(* the rows alone, as run_cell executes them under either compile policy *)
Lemma L_run_rows {q} fuel r s ev rows rn0 : okLq q mc rn0 -> 1 <= fuel -> Forall core_row' rows ->
  sim val (run_cell cf contained mc children fuel r s ev (map CRow rows)) rn0
      (fun code rn' items => okLq q mc rn' /\ processing rn' = processing rn0 /\
         items = o_items (sp_rows pol mc r ev val rows (abs rn0)) /\ abs rn' = o_conf (sp_rows pol mc r ev val rows (abs rn0)) /\
         code_ok code (o_taken (sp_rows pol mc r ev val rows (abs rn0))) (o_rejected (sp_rows pol mc r ev val rows (abs rn0)))).
Proof.
  intros Hok0 Hf1 Hrows. unfold run_cell. destruct (c_fct cf) eqn:Hfct.
  - unfold fct_chain. exact (L_rows_fct fuel r s ev rows rn0 false Hok0 Hf1 Hrows).
  - pose proof (L_rows fuel r s ev rows rn0 Hok0 Hf1 Hrows) as HL.
    destruct rows as [|x [|y t]] eqn:Ec; cbn [map].
    + apply sim_ret. cbn. split; [exact Hok0|]. repeat (split; [reflexivity|]). reflexivity.
    + inversion Hrows as [|? ? Hx _]; subst. cbn [exec_item].
      eapply sim_conseq; [apply (L_row (q:=q) fuel r x ev rn0 Hok0 Hf1 Hx)|].
      cbn beta. intros code rn' items (H1 & H2 & H3 & H4 & H5 & H6).
      split; [exact H1|]. split; [exact H2|]. split; [exact H3|]. split; [exact H4|].
      rewrite H6. subst code. unfold code_ok. destruct (o_taken _); cbn; auto.
    + exact HL.
Qed.

(* the rows of a state in the engine's table are the specification's candidates *)
Lemma flat_base t e : is_base_of parents t e = Nat.eqb t e.
Proof.
  unfold is_base_of. destruct (length parents) as [|n]; cbn; [rewrite orb_false_r; reflexivity|].
  rewrite Hflat. rewrite orb_false_r. reflexivity.
Qed.
Definition trig_core (x:row) : Prop := exists e, r_trig x = TrEv e /\ e <> EV_NONE.
Lemma row_matches_core ety x : ety <> EV_NONE -> trig_core x -> row_matches cf parents ety x = sp_matches ety x.
Proof.
  intros Hn (e & He & _). unfold row_matches, sp_matches, trig_matches. rewrite He. rewrite flat_base.
  destruct (Nat.eqb ety EV_NONE) eqn:E; [apply Nat.eqb_eq in E; contradiction|]. reflexivity.
Qed.
Lemma filter_ext_Forall {A} (f g:A -> bool) (P:A -> Prop) l :
  Forall P l -> (forall x, P x -> f x = g x) -> filter f l = filter g l.
Proof. intros H Hfg. induction H as [|x l Hx Hl IH]; cbn; [reflexivity|]. rewrite (Hfg x Hx), IH. reflexivity. Qed.


(* ---- facts about core definitions ---- *)
Lemma core_row_parts n x : core_row n x -> core_row' x /\ trig_core x.
Proof. intros (Ht & Ha & Hx & Hg). split; [split; [exact Ha | split; [exact Hx | exact Hg]] | exact Ht]. Qed.
Lemma core_irow_parts x : core_irow x -> core_row' x /\ trig_core x.
Proof. intros (Ht & Ha & Hx & Hg). split; [split; [exact Ha | split; [exact Hx | left; exact Hg]] | exact Ht]. Qed.

Definition good (x:row) : Prop := core_row' x /\ trig_core x.
Lemma core_rows_good : Forall good (m_rows mc).
Proof.
  destruct mc as [states inits rows irows hist]. cbn in Hcore. destruct Hcore as (Hr & _ & _). cbn [m_rows].
  eapply Forall_impl; [|exact Hr]. intros x Hx. eapply core_row_parts; eauto.
Qed.
Lemma core_irows_good : Forall good (m_irows mc).
Proof.
  destruct mc as [states inits rows irows hist]. cbn in Hcore. destruct Hcore as (_ & Hi & _). cbn [m_irows].
  eapply Forall_impl; [|exact Hi]. intros x Hx. apply core_irow_parts; auto.
Qed.
Lemma core_states_facts states : forall s,
  (fix all (l:list state) : Prop :=
     match l with
     | [] => True
     | State k sub sirows defers _ _ :: t =>
         defers = [] /\ Forall core_irow sirows /\
         match sub with Some m => k = KSub /\ core m | None => k = KSimple end /\ all t
     end) states ->
  s_defers (nth s states dummy_state) = [] /\ Forall good (s_irows (nth s states dummy_state)) /\
  is_blocking_state (nth s states dummy_state) = false /\
  match s_sub (nth s states dummy_state) with Some m => core m | None => True end.
Proof.
  induction states as [|st t IH]; intros s Hall.
  - destruct s; cbn; auto.
  - destruct st as [k sub si df fl z]. destruct Hall as (Hd & Hsi & Hk & Hrest). destruct s as [|s]; cbn [nth].
    + cbn. split; [exact Hd|]. split.
      * eapply Forall_impl; [|exact Hsi]. intros x Hx. apply core_irow_parts; auto.
      * destruct sub as [m|]; [destruct Hk as (-> & Hm) | subst k]; cbn; auto.
    + apply IH; auto.
Qed.
Lemma core_state s :
  s_defers (get_state mc s) = [] /\ Forall good (s_irows (get_state mc s)) /\ is_blocking_state (get_state mc s) = false /\
  match s_sub (get_state mc s) with Some m => core m | None => True end.
Proof.
  unfold get_state. destruct mc as [states inits rows irows hist]. cbn in Hcore. destruct Hcore as (_ & _ & Hall).
  cbn [m_states]. apply core_states_facts. exact Hall.
Qed.

Lemma Forall_filter {A} (P:A -> Prop) f l : Forall P l -> Forall P (filter f l).
Proof. intros H. induction H as [|x l Hx Hl IH]; cbn; [constructor|]. destruct (f x); [constructor; auto | auto]. Qed.
Lemma Forall_rev' {A} (P:A -> Prop) l : Forall P l -> Forall P (rev l).
Proof. intros H. apply Forall_forall. intros x Hx. apply in_rev in Hx. eapply Forall_forall in H; eauto. Qed.

Lemma table_rows_spec s ety : ety <> EV_NONE ->
  table_rows cf parents mc s ety = sp_candidates mc s ety /\ Forall core_row' (sp_candidates mc s ety).
Proof.
  intros Hn. unfold table_rows, sp_candidates. destruct (core_state s) as (_ & Hsi & _ & _). pose proof core_rows_good as Hr.
  split.
  - f_equal.
    + destruct (is_sub mc s); [reflexivity|]. f_equal.
      eapply filter_ext_Forall; [exact Hsi|]. intros x (_ & Hx). apply row_matches_core; auto.
    + f_equal. eapply filter_ext_Forall; [exact Hr|]. intros x (_ & Hx). rewrite row_matches_core by auto. reflexivity.
  - apply Forall_app. split.
    + destruct (is_sub mc s); [constructor|]. apply Forall_rev'. apply Forall_filter.
      eapply Forall_impl; [|exact Hsi]. intros x (H & _). exact H.
    + apply Forall_rev'. apply Forall_filter. eapply Forall_impl; [|exact Hr]. intros x (H & _). exact H.
Qed.

Lemma level_subs_nth s : nth s (sp_level_subs pol mc) None =
  match s_sub (get_state mc s) with Some m => Some (sp_level pol m) | None => None end.
Proof. unfold sp_level_subs. apply nth_map_sub. Qed.

Lemma c_set_kid_same c s k : nth s (c_kids c) None = Some k -> c_set_kid c s k = c.
Proof.
  destruct c as [a ks h]. cbn. intros H. f_equal. revert s H. induction ks as [|x t IH]; intros [|s] H; cbn in *; try discriminate.
  - subst x. reflexivity.
  - f_equal. apply IH. exact H.
Qed.

Lemma match_id {A} (l:list A) : match l with [] => [] | _ :: _ => l end = l.
Proof. destruct l; reflexivity. Qed.

(* ---- one region ---- *)
Lemma L_cell_fct {q} fuel r ev rn : c_fct cf = true -> okLq q mc rn -> depth mc + 1 <= fuel -> e_ty ev <> EV_NONE ->
  sim val (run_cell cf contained mc children fuel r (nth r (act rn) 0) ev
             (cell_items cf parents mc children (nth r (act rn) 0) (e_ty ev))) rn
      (fun code rn' items => okLq q mc rn' /\ processing rn' = processing rn /\
         items = o_items (sp_region pol mc (sp_level_subs pol mc) ev val r (abs rn)) /\
         abs rn' = o_conf (sp_region pol mc (sp_level_subs pol mc) ev val r (abs rn)) /\
         code_ok code (o_taken (sp_region pol mc (sp_level_subs pol mc) ev val r (abs rn)))
                      (o_rejected (sp_region pol mc (sp_level_subs pol mc) ev val r (abs rn)))).
Proof.
  intros Hfct Hok Hfuel Hev. set (s := nth r (act rn) 0).
  assert (Hf1 : 1 <= fuel) by lia.
  destruct (table_rows_spec s (e_ty ev) Hev) as (Etab & Hrows).
  destruct (core_state s) as (Hdef & _ & _ & Hsubcore).
  unfold cell_items. rewrite Hfct. unfold state_defers. rewrite Hdef. cbn [memb existsb negb]. rewrite Etab, app_nil_r, andb_true_r.
  unfold sp_region. rewrite abs_act. fold s. rewrite level_subs_nth, abs_kid.
  destruct (s_sub (get_state mc s)) as [c|] eqn:Es.
  - destruct (child_some s c Es) as (co & Hco & Hsp).
    destruct (okL_kid mc rn s c Hok Es) as (kn & Hk & Hkn). rewrite Hk. cbn [option_map].
    pose proof (sub_in_range mc s c Es) as Hlt. pose proof (depth_sub mc s c Es) as Hdep.
    unfold forwards. rewrite Hco, Hfct.
    assert (Ene : Nat.eqb (e_ty ev) EV_NONE = false) by (apply Nat.eqb_neq; exact Hev). rewrite Ene. cbn [negb andb].
    destruct (existsb (fun t => match t with TrEv e => Nat.eqb e (e_ty ev) | _ => false end) (co_trigs co)) eqn:Fw.
    + assert (Fr : sim val (exec_item cf contained mc children fuel r s ev CFrow) rn
                (fun code rn' items => okLq q mc rn' /\ processing rn' = processing rn /\ act rn' = act rn /\
                   items = map (push_path s) (o_items (sp_level pol c ev val (abs kn))) /\
                   abs rn' = c_set_kid (abs rn) s (o_conf (sp_level pol c ev val (abs kn))) /\
                   code_ok code (o_taken (sp_level pol c ev val (abs kn))) (o_rejected (sp_level pol c ev val (abs kn))))).
      { cbn [exec_item]. rewrite Hco, Hfct.
        eapply sim_bind.
        { eapply sim_in_child_x; [exact Hk|]. apply (cs_pei c co Hsp fuel ev kn Hkn); [lia | exact Hev]. }
        cbn beta. intros res rn1' i1' (kn1 & i1 & (Hkn1 & Ei & Ec & Hcode) & -> & ->).
        eapply sim_bind; [apply (sim_ret val tt _ (fun _ rn2 i2 => rn2 = set_kids rn (upd (kids rn) s (Some kn1)) /\ i2 = [])); auto|].
        cbn beta. intros u rn2 i2 (-> & ->).
        apply sim_ret.
        split; [eapply okL_set_kid; eauto|]. split; [apply processing_set_kids|]. split; [apply act_set_kids|].
        rewrite !app_nil_l. split; [rewrite Ei; reflexivity|]. split; [rewrite abs_set_kid, Ec; reflexivity | exact Hcode]. }
      cbn [app]. unfold run_cell. rewrite Hfct. unfold fct_chain. cbn [loop_gen].
      change (tab1 fct_chain_continue HANDLED_FALSE) with true. cbn iota.
      eapply sim_bind; [exact Fr|]. cbn beta. intros res rn1 i1 (Hok1 & Hp1 & Ha1 & Ei1 & Ec1 & Hc1).
      destruct (o_taken (sp_level pol c ev val (abs kn))) eqn:Tk.
      * assert (Est : tab2 fct_chain_step HANDLED_FALSE res = res /\ tab1 fct_chain_continue res = false).
        { unfold code_ok in Hc1. destruct Hc1 as [->| ->]; split; reflexivity. }
        destruct Est as (Est & Ecf). rewrite Est.
        eapply sim_conseq; [apply loop_stops; exact Ecf|]. cbn beta. intros code rn' items (-> & -> & ->).
        rewrite app_nil_l. cbn [o_taken o_rejected o_items o_conf]. auto.
      * assert (Est : tab2 fct_chain_step HANDLED_FALSE res = acc_of (o_rejected (sp_level pol c ev val (abs kn)))).
        { unfold code_ok in Hc1. destruct (o_rejected (sp_level pol c ev val (abs kn))); subst res; reflexivity. }
        rewrite Est.
        eapply sim_conseq; [apply (L_rows_fct (q:=q) fuel r s ev _ rn1 _ Hok1 Hf1 Hrows)|].
        cbn beta. intros code rn2 i2 (Hok2 & Hp2 & Ei2 & Ec2 & Hc2).
        rewrite Ec1 in *. cbn [o_taken o_rejected o_items o_conf].
        split; [exact Hok2|]. split; [congruence|]. split; [rewrite Ei2, Ei1; reflexivity|]. split; [exact Ec2 | exact Hc2].
    + rewrite (cs_silent_fct c co Hsp ev (abs kn) Fw). cbn [o_taken o_rejected o_items o_conf map app orb].
      assert (Eid : c_set_kid (abs rn) s (abs kn) = abs rn) by (apply c_set_kid_same; rewrite abs_kid, Hk; reflexivity).
      rewrite Eid. cbn [app].
      eapply sim_conseq; [apply (L_run_rows (q:=q) fuel r s ev _ rn Hok Hf1 Hrows)|]. cbn beta. intros code rn' items (H1 & H2 & H3 & H4 & H5).
      rewrite app_nil_r. auto.
  - unfold forwards. rewrite (child_none s Es). cbn [andb app].
    eapply sim_conseq; [apply (L_run_rows (q:=q) fuel r s ev _ rn Hok Hf1 Hrows)|]. cbn beta. intros code rn' items H. exact H.
Qed.

Lemma L_cell {q} fuel r ev rn : okLq q mc rn -> depth mc + 1 <= fuel -> e_ty ev <> EV_NONE ->
  sim val (run_cell cf contained mc children fuel r (nth r (act rn) 0) ev
             (cell_items cf parents mc children (nth r (act rn) 0) (e_ty ev))) rn
      (fun code rn' items => okLq q mc rn' /\ processing rn' = processing rn /\
         items = o_items (sp_region pol mc (sp_level_subs pol mc) ev val r (abs rn)) /\
         abs rn' = o_conf (sp_region pol mc (sp_level_subs pol mc) ev val r (abs rn)) /\
         code_ok code (o_taken (sp_region pol mc (sp_level_subs pol mc) ev val r (abs rn)))
                      (o_rejected (sp_region pol mc (sp_level_subs pol mc) ev val r (abs rn)))).
Proof.
  intros Hok Hfuel Hev. destruct (c_fct cf) eqn:Hnofct; [eapply (L_cell_fct (q:=q)); assumption|]. set (s := nth r (act rn) 0).
  assert (Hf1 : 1 <= fuel) by lia.
  destruct (table_rows_spec s (e_ty ev) Hev) as (Etab & Hrows).
  destruct (core_state s) as (Hdef & _ & _ & Hsubcore).
  unfold run_cell, cell_items. rewrite Hnofct. unfold state_defers. rewrite Hdef. cbn [memb existsb]. rewrite Etab.
  unfold sp_region. rewrite abs_act. fold s. rewrite level_subs_nth, abs_kid.
  (* the rows alone, as run_cell executes them *)
  assert (Rows : forall rn0, okLq q mc rn0 ->
            sim val (match map CRow (sp_candidates mc s (e_ty ev)) with
                     | [] => ret HANDLED_FALSE
                     | [x] => exec_item cf contained mc children fuel r s ev x
                     | _ => chain_row cf contained mc children fuel r s ev (map CRow (sp_candidates mc s (e_ty ev)))
                     end) rn0
              (fun code rn' items => okLq q mc rn' /\ processing rn' = processing rn0 /\
                 items = o_items (sp_rows pol mc r ev val (sp_candidates mc s (e_ty ev)) (abs rn0)) /\
                 abs rn' = o_conf (sp_rows pol mc r ev val (sp_candidates mc s (e_ty ev)) (abs rn0)) /\
                 code_ok code (o_taken (sp_rows pol mc r ev val (sp_candidates mc s (e_ty ev)) (abs rn0)))
                              (o_rejected (sp_rows pol mc r ev val (sp_candidates mc s (e_ty ev)) (abs rn0))))).
  { intros rn0 Hok0. pose proof (L_rows fuel r s ev (sp_candidates mc s (e_ty ev)) rn0 Hok0 Hf1 Hrows) as HL.
    destruct (sp_candidates mc s (e_ty ev)) as [|x [|y t]] eqn:Ec; cbn [map].
    - apply sim_ret. cbn. split; [exact Hok0|]. repeat (split; [reflexivity|]). reflexivity.
    - inversion Hrows as [|? ? Hx _]; subst. cbn [exec_item].
      eapply sim_conseq; [apply (L_row (q:=q) fuel r x ev rn0 Hok0 Hf1 Hx)|].
      cbn beta. intros code rn' items (H1 & H2 & H3 & H4 & H5 & H6).
      split; [exact H1|]. split; [exact H2|]. split; [exact H3|]. split; [exact H4|].
      rewrite H6. subst code. unfold code_ok. destruct (o_taken _); cbn; auto.
    - exact HL. }
  destruct (s_sub (get_state mc s)) as [c|] eqn:Es.
  - (* an active submachine *)
    destruct (child_some s c Es) as (co & Hco & Hsp).
    destruct (okL_kid mc rn s c Hok Es) as (kn & Hk & Hkn). rewrite Hk. cbn [option_map].
    pose proof (sub_in_range mc s c Es) as Hlt. pose proof (depth_sub mc s c Es) as Hdep.
    unfold forwards. rewrite Hco, Hnofct.
    destruct (existsb (fun t => trig_matches parents true t (e_ty ev)) (co_trigs co)) eqn:Fw.
    + (* forwarded first *)
      assert (Fr : sim val (exec_item cf contained mc children fuel r s ev CFrow) rn
                (fun code rn' items => okLq q mc rn' /\ processing rn' = processing rn /\ act rn' = act rn /\
                   items = map (push_path s) (o_items (sp_level pol c ev val (abs kn))) /\
                   abs rn' = c_set_kid (abs rn) s (o_conf (sp_level pol c ev val (abs kn))) /\
                   code_ok code (o_taken (sp_level pol c ev val (abs kn))) (o_rejected (sp_level pol c ev val (abs kn))))).
      { cbn [exec_item]. rewrite Hco, Hnofct.
        eapply sim_bind.
        { eapply sim_in_child_x; [exact Hk|]. apply (cs_pei c co Hsp fuel ev kn Hkn); [lia | exact Hev]. }
        cbn beta. intros res rn1' i1' (kn1 & i1 & (Hkn1 & Ei & Ec & Hcode) & -> & ->).
        eapply sim_bind; [apply sim_set_act_at|]. cbn beta. intros u rn2 i2 (-> & ->).
        apply sim_ret. rewrite act_set_kids. unfold s. rewrite upd_same_or_out.
        replace (set_act (set_kids rn (upd (kids rn) (nth r (act rn) 0) (Some kn1))) (act rn))
          with (set_kids rn (upd (kids rn) (nth r (act rn) 0) (Some kn1))) by (destruct rn; reflexivity).
        fold s. split; [eapply okL_set_kid; eauto|]. split; [apply processing_set_kids|]. split; [apply act_set_kids|].
        rewrite !app_nil_l. split; [rewrite Ei; reflexivity|]. split; [rewrite abs_set_kid, Ec; reflexivity | exact Hcode]. }
      cbn [app].
      destruct (map CRow (sp_candidates mc s (e_ty ev))) as [|y t] eqn:Em.
      * (* no row of the enclosing machine: the forwarding entry alone *)
        assert (En : sp_candidates mc s (e_ty ev) = []) by (destruct (sp_candidates mc s (e_ty ev)); [reflexivity | discriminate]).
        eapply sim_conseq; [exact Fr|]. cbn beta. intros code rn' items (H1 & H2 & _ & H3 & H4 & H5).
        rewrite En in *. cbn [sp_rows o_taken o_rejected o_items o_conf].
        split; [exact H1|]. split; [exact H2|].
        destruct (o_taken (sp_level pol c ev val (abs kn))); cbn [o_taken o_rejected o_items o_conf];
          rewrite ?orb_false_r, ?app_nil_l; auto.
      * rewrite <- Em. unfold chain_row. cbn [chain_gen].
        eapply sim_bind; [exact Fr|]. cbn beta. intros res rn1 i1 (Hok1 & Hp1 & Ha1 & Ei1 & Ec1 & Hc1).
        destruct (o_taken (sp_level pol c ev val (abs kn))) eqn:Tk.
        -- (* the submachine took a transition: nothing else is tried *)
           assert (Cf : chain_continue cf res = false).
           { destruct cc_vals as (_ & C1 & _ & C3). unfold code_ok in Hc1. destruct Hc1 as [->| ->]; auto. }
           rewrite Cf. apply sim_ret. rewrite app_nil_l. cbn [o_taken o_rejected o_items o_conf]. auto.
        -- assert (Cf : chain_continue cf res = true).
           { destruct cc_vals as (C0 & _ & C2 & _). unfold code_ok in Hc1. destruct (o_rejected _); subst res; auto. }
           rewrite Cf.
           eapply sim_bind; [apply (L_rows (q:=q) fuel r s ev _ rn1 Hok1 Hf1 Hrows)|].
           cbn beta. intros sub rn2 i2 (Hok2 & Hp2 & Ei2 & Ec2 & Hc2). apply sim_ret. rewrite app_nil_l.
           rewrite Ec1 in *. cbn [o_taken o_rejected o_items o_conf].
           split; [exact Hok2|]. split; [congruence|]. split; [rewrite Ei2, Ei1; reflexivity|]. split; [exact Ec2|].
           unfold code_ok in Hc1. destruct (o_rejected (sp_level pol c ev val (abs kn))); subst res; cbn [orb].
           ++ eapply merge2; eauto.
           ++ rewrite merge0 by (eapply code_ok_lt4; eauto). exact Hc2.
    + (* the submachine has no transition for this event type anywhere: it is not consulted, and the specification
         says it would have done nothing *)
      rewrite (cs_silent c co Hsp ev (abs kn) Fw). cbn [o_taken o_rejected o_items o_conf map app orb].
      assert (Eid : c_set_kid (abs rn) s (abs kn) = abs rn) by (apply c_set_kid_same; rewrite abs_kid, Hk; reflexivity).
      rewrite Eid. cbn [app]. rewrite match_id.
      eapply sim_conseq; [apply (Rows rn Hok)|]. cbn beta. intros code rn' items (H1 & H2 & H3 & H4 & H5).
      rewrite app_nil_r. auto.
  - (* a simple state *)
    unfold forwards. rewrite (child_none s Es). cbn [app]. rewrite match_id.
    eapply sim_conseq; [apply (Rows rn Hok)|]. cbn beta. intros code rn' items H. exact H.
Qed.


(* ---- every region once, in order ---- *)
Definition reg_step (ev:evt) (o:outcome) (r:nat) : outcome :=
  let o' := sp_region pol mc (sp_level_subs pol mc) ev val r (o_conf o) in
  Out (o_taken o || o_taken o') (o_rejected o || o_rejected o') (o_items o' ++ o_items o) (o_conf o').

Lemma L_regions {q} fuel ev : depth mc + 1 <= fuel -> e_ty ev <> EV_NONE ->
  forall n r acc oacc rn, okLq q mc rn -> abs rn = o_conf oacc -> code_ok acc (o_taken oacc) (o_rejected oacc) ->
  sim val (regions_loop cf parents contained mc children fuel ev n r acc) rn
      (fun code rn' items => okLq q mc rn' /\ processing rn' = processing rn /\
         items ++ o_items oacc = o_items (fold_left (reg_step ev) (seqn r n) oacc) /\
         abs rn' = o_conf (fold_left (reg_step ev) (seqn r n) oacc) /\
         code_ok code (o_taken (fold_left (reg_step ev) (seqn r n) oacc)) (o_rejected (fold_left (reg_step ev) (seqn r n) oacc))).
Proof.
  intros Hfuel Hev. induction n as [|n IH]; intros r acc oacc rn Hok Ea Hc; cbn [regions_loop seqn fold_left].
  - apply sim_ret. rewrite app_nil_l. auto.
  - eapply sim_bind; [apply (sim_get val rn (fun a rn1 i1 => a = rn /\ rn1 = rn /\ i1 = [])); auto|].
    cbn beta. intros a rn0 i0 (-> & -> & ->).
    eapply sim_bind; [apply (L_cell (q:=q) fuel r ev rn Hok Hfuel Hev)|].
    cbn beta. intros res rn1 i1 (Hok1 & Hp1 & Ei1 & Ec1 & Hc1).
    eapply sim_conseq.
    { apply (IH (S r) (bit_or acc res) (reg_step ev oacc r) rn1 Hok1).
      - unfold reg_step. cbn [o_conf]. rewrite <- Ea. exact Ec1.
      - unfold reg_step. cbn [o_taken o_rejected]. rewrite <- Ea. apply code_ok_or; assumption. }
    cbn beta. intros code rn2 i2 (Hok2 & Hp2 & Ei2 & Ec2 & Hc2).
    split; [exact Hok2|]. split; [congruence|]. split; [|split; [exact Ec2 | exact Hc2]].
    rewrite <- Ei2. unfold reg_step. cbn [o_items]. rewrite <- Ea, <- Ei1. rewrite app_nil_r, app_assoc. reflexivity.
Qed.

Lemma sp_regions_fold ev c :
  sp_regions pol mc (sp_level_subs pol mc) ev val c = fold_left (reg_step ev) (seqn 0 (m_nreg mc)) (Out false false [] c).
Proof. reflexivity. Qed.

Lemma sp_level_unfold ev c :
  sp_level pol mc ev val c =
  let o := sp_regions pol mc (sp_level_subs pol mc) ev val c in
  if o_taken o then o
  else (let o2 := sp_rows pol mc 0 ev val (rev (filter (sp_matches (e_ty ev)) (m_irows mc))) (o_conf o) in
        Out (o_taken o2) (o_rejected o || o_rejected o2) (o_items o2 ++ o_items o) (o_conf o2)).
Proof. destruct mc; reflexivity. Qed.

Lemma sim_iter_nt ev : forall l rn,
  sim val (iterM (fun s => cb mc KNoTrans s ev false) l) rn
      (fun _ rn' items => rn' = rn /\ items = rev (map (fun s => Cb KNoTrans [] s ev false (act rn)) l)).
Proof.
  induction l as [|x t IH]; intros rn; cbn [iterM].
  - apply sim_ret. auto.
  - eapply sim_bind; [apply sim_cb|]. cbn beta. intros u rn1 i1 (-> & ->).
    eapply sim_conseq; [apply IH|]. cbn beta. intros u2 rn2 i2 (-> & ->). split; [reflexivity|].
    cbn [map rev]. reflexivity.
Qed.

(* ---- a whole level ---- *)
Lemma internal_tried_vals : internal_tried cf 0 = true /\ internal_tried cf 1 = false /\ internal_tried cf 2 = true /\ internal_tried cf 3 = false.
Proof. unfold internal_tried. rewrite is11_false. repeat split; reflexivity. Qed.

Lemma internal_processable_false ety : ety <> EV_NONE -> internal_processable mc ety = false ->
  filter (sp_matches ety) (m_irows mc) = [].
Proof.
  intros Hn. unfold internal_processable. pose proof core_irows_good as Hg.
  induction Hg as [|x l (_ & (e & He & _)) Hl IH]; cbn; [reflexivity|].
  rewrite He. unfold sp_matches at 1. rewrite He.
  destruct (Nat.eqb e ety) eqn:E; cbn.
  - destruct (Nat.eqb ety EV_NONE) eqn:E2; [apply Nat.eqb_eq in E2; contradiction|]. cbn. discriminate.
  - exact IH.
Qed.

Lemma L_level {q} fuel ev direct rn : okLq q mc rn -> depth mc + 1 <= fuel -> e_ty ev <> EV_NONE ->
  sim val (do_process_event cf parents contained mc children fuel ev direct) rn
      (fun code rn' items => okLq q mc rn' /\ processing rn' = processing rn /\
         (let o := sp_level pol mc ev val (abs rn) in
          let nt := (negb contained || direct) && negb (o_taken o || o_rejected o) in
          items = (if nt then rev (map (fun s => Cb KNoTrans [] s ev false (c_act (o_conf o))) (c_act (o_conf o))) else []) ++ o_items o /\
          abs rn' = o_conf o /\ code_ok code (o_taken o) (o_rejected o))).
Proof.
  intros Hok Hfuel Hev. assert (Hf1 : 1 <= fuel) by lia. unfold do_process_event. rewrite sp_level_unfold, sp_regions_fold.
  eapply sim_bind.
  { apply (L_regions (q:=q) fuel ev Hfuel Hev (m_nreg mc) 0 HANDLED_FALSE (Out false false [] (abs rn)) rn Hok); [reflexivity|].
    unfold code_ok. reflexivity. }
  cbn beta. intros h rn1 i1 (Hok1 & Hp1 & Ei1 & Ec1 & Hc1). rewrite app_nil_r in Ei1.
  set (o := fold_left (reg_step ev) (seqn 0 (m_nreg mc)) (Out false false [] (abs rn))) in *.
  (* the machine's own internal table *)
  eapply sim_bind with (P := fun h2 rn2 i2 => okLq q mc rn2 /\ processing rn2 = processing rn /\
      let o' := (if o_taken o then o
                 else (let o2 := sp_rows pol mc 0 ev val (rev (filter (sp_matches (e_ty ev)) (m_irows mc))) (o_conf o) in
                       Out (o_taken o2) (o_rejected o || o_rejected o2) (o_items o2 ++ o_items o) (o_conf o2))) in
      i2 ++ i1 = o_items o' /\ abs rn2 = o_conf o' /\ code_ok h2 (o_taken o') (o_rejected o')).
  { destruct (o_taken o) eqn:Tk.
    - assert (Ei : internal_tried cf h = false).
      { destruct internal_tried_vals as (_ & T1 & _ & T3). unfold code_ok in Hc1. destruct Hc1 as [->| ->]; auto. }
      rewrite Ei, andb_false_r. apply sim_ret. rewrite app_nil_l. cbn zeta.
      split; [exact Hok1|]. split; [exact Hp1|]. split; [exact Ei1|]. split; [exact Ec1|]. rewrite ?Tk. exact Hc1.
    - assert (Ei : internal_tried cf h = true).
      { destruct internal_tried_vals as (T0 & _ & T2 & _). unfold code_ok in Hc1. destruct (o_rejected o); subst h; auto. }
      rewrite Ei, andb_true_r.
      destruct (internal_processable mc (e_ty ev)) eqn:Ip.
      + eapply sim_bind; [apply (sim_get val rn1 (fun a rn2 i2 => a = rn1 /\ rn2 = rn1 /\ i2 = [])); auto|].
        cbn beta. intros a rn2 i2 (-> & -> & ->).
        assert (Erows : internal_items cf parents mc (e_ty ev) = map CRow (rev (filter (sp_matches (e_ty ev)) (m_irows mc)))).
        { unfold internal_items. f_equal. f_equal. eapply filter_ext_Forall; [apply core_irows_good|].
          intros x (_ & Hx). apply row_matches_core; auto. }
        rewrite Erows.
        assert (Hgood : Forall core_row' (rev (filter (sp_matches (e_ty ev)) (m_irows mc)))).
        { apply Forall_rev'. apply Forall_filter. eapply Forall_impl; [|apply core_irows_good]. intros x (H & _). exact H. }
        set (irs := rev (filter (sp_matches (e_ty ev)) (m_irows mc))) in *.
        eapply sim_bind with (P := fun ri rn3 i3 => okLq q mc rn3 /\ processing rn3 = processing rn1 /\
            i3 = o_items (sp_rows pol mc 0 ev val irs (abs rn1)) /\ abs rn3 = o_conf (sp_rows pol mc 0 ev val irs (abs rn1)) /\
            code_ok ri (o_taken (sp_rows pol mc 0 ev val irs (abs rn1))) (o_rejected (sp_rows pol mc 0 ev val irs (abs rn1)))).
        { exact (L_run_rows fuel 0 (nth 0 (act rn1) 0) ev irs rn1 Hok1 Hf1 Hgood). }
        cbn beta. intros ri rn3 i3 (Hok3 & Hp3 & Ei3 & Ec3 & Hc3). apply sim_ret. rewrite app_nil_l.
        rewrite <- Ec1. cbn zeta. cbn [o_taken o_rejected o_items o_conf].
        split; [exact Hok3|]. split; [congruence|]. split; [rewrite Ei3, Ei1, app_nil_r; reflexivity|]. split; [exact Ec3|].
        try rewrite Tk in Hc1. replace (o_taken (sp_rows pol mc 0 ev val irs (abs rn1))) with (false || o_taken (sp_rows pol mc 0 ev val irs (abs rn1))) by reflexivity.
        apply code_ok_or; assumption.
      + cbn [andb]. apply sim_ret. rewrite app_nil_l.
        rewrite (internal_processable_false (e_ty ev) Hev Ip). cbn [rev sp_rows o_taken o_rejected o_items o_conf].
        rewrite orb_false_r, app_nil_l. cbn zeta.
        split; [exact Hok1|]. split; [exact Hp1|]. split; [exact Ei1|]. split; [exact Ec1|]. rewrite ?Tk. exact Hc1. }
  cbn beta. intros h2 rn2 i2 (Hok2 & Hp2 & Hres). cbn zeta in Hres. destruct Hres as (Ei2 & Ec2 & Hc2).
  set (o' := if o_taken o then o else _) in *.
  (* no_transition *)
  eapply sim_bind with (P := fun _ rn3 i3 => rn3 = rn2 /\
      i3 = if (negb contained || direct) && negb (o_taken o' || o_rejected o')
           then rev (map (fun s => Cb KNoTrans [] s ev false (act rn2)) (act rn2)) else []).
  { unfold nt_phase.
    assert (Ez : Nat.eqb h2 0 = negb (o_taken o' || o_rejected o')).
    { unfold code_ok in Hc2. destruct (o_taken o'); [destruct Hc2 as [->| ->]; reflexivity|]. destruct (o_rejected o'); subst h2; reflexivity. }
    rewrite Ez. destruct (Nat.eqb (e_ty ev) EV_NONE) eqn:En; [apply Nat.eqb_eq in En; contradiction|]. cbn [negb]. rewrite andb_true_r.
    destruct ((negb contained || direct) && negb (o_taken o' || o_rejected o')).
    - eapply sim_bind; [apply (sim_get val rn2 (fun a rn3 i3 => a = rn2 /\ rn3 = rn2 /\ i3 = [])); auto|].
      cbn beta. intros a rn3 i3 (-> & -> & ->).
      eapply sim_conseq; [apply sim_iter_nt|]. cbn beta. intros u rn4 i4 (-> & ->). rewrite app_nil_r. auto.
    - apply sim_ret. auto. }
  cbn beta. intros u rn3 i3 (-> & ->). apply sim_ret. rewrite app_nil_l.
  split; [exact Hok2|]. split; [exact Hp2|]. cbn zeta. fold o'.
  rewrite <- Ec2, abs_act. split; [rewrite <- Ei2; rewrite app_assoc; reflexivity|]. split; [reflexivity | exact Hc2].
Qed.


(* ---- process_event_internal of one level ---- *)
Lemma existsb_false_nth {A} (f:A -> bool) l d : (forall s, f (nth s l d) = false) -> existsb f l = false.
Proof.
  intros H. induction l as [|x l IH]; cbn [existsb]; [reflexivity|]. pose proof (H 0) as H0. cbn [nth] in H0. rewrite H0. cbn [orb]. apply IH. intros s. apply (H (S s)).
Qed.
Lemma existsb_false_Forall {A} (f:A -> bool) (P:A -> Prop) l : Forall P l -> (forall x, P x -> f x = false) -> existsb f l = false.
Proof. intros H Hf. induction H as [|x l Hx Hl IH]; cbn; [reflexivity|]. rewrite (Hf x Hx). exact IH. Qed.

Lemma core_no_blocking : has_blocking mc = false.
Proof. unfold has_blocking. apply existsb_false_nth with (d := dummy_state). intros s. apply (core_state s). Qed.
Lemma core_no_completion : has_completion_rows mc = false.
Proof.
  unfold has_completion_rows. eapply existsb_false_Forall; [apply core_rows_good|]. intros x (_ & (e & He & _)). rewrite He. reflexivity.
Qed.
Lemma good_no_defer x : good x -> match r_act x with ActDefer => true | _ => false end = false.
Proof. intros ((Hd & _) & _). destruct (r_act x); congruence. Qed.
Lemma core_no_deferring : has_deferring_states mc = false.
Proof.
  unfold has_deferring_states.
  rewrite (existsb_false_nth _ (m_states mc) dummy_state).
  2:{ intros s. destruct (core_state s) as (Hd & _). fold (get_state mc s). rewrite Hd. reflexivity. }
  rewrite (existsb_false_Forall _ good (m_rows mc) core_rows_good good_no_defer).
  rewrite (existsb_false_nth _ (m_states mc) dummy_state).
  2:{ intros s. destruct (core_state s) as (_ & Hsi & _). fold (get_state mc s).
      eapply existsb_false_Forall; [exact Hsi | exact good_no_defer]. }
  rewrite (existsb_false_Forall _ good (m_irows mc) core_irows_good good_no_defer). reflexivity.
Qed.

Lemma sim_handle_deferred pei_rec f b rn : 1 <= f ->
  sim val (handle_deferred mc pei_rec f b) rn (fun _ rn' items => rn' = rn /\ items = []).
Proof.
  intros Hf. destruct f as [|f]; [lia|]. cbn [handle_deferred]. rewrite core_no_deferring. cbn [negb]. apply sim_ret. auto.
Qed.
Lemma sim_drain_empty pei_rec f rn : msgq rn = [] ->
  sim val (drain_msgq pei_rec f) rn (fun _ rn' items => rn' = rn /\ items = []).
Proof.
  intros Hq. destruct f as [|f]; cbn [drain_msgq].
  - eapply sim_bind; [apply (sim_get val rn (fun a rn1 i1 => a = rn /\ rn1 = rn /\ i1 = [])); auto|].
    cbn beta. intros a rn1 i1 (-> & -> & ->). rewrite Hq. apply sim_ret. auto.
  - eapply sim_bind; [apply (sim_get val rn (fun a rn1 i1 => a = rn /\ rn1 = rn /\ i1 = [])); auto|].
    cbn beta. intros a rn1 i1 (-> & -> & ->). rewrite Hq. apply sim_ret. auto.
Qed.

Lemma blocked_false rn ety : blocked mc rn ety = false.
Proof. unfold blocked. rewrite core_no_blocking. reflexivity. Qed.

Definition level_post (direct:bool) (ev:evt) (rn:rnode) (code:nat) (rn':rnode) (items:list titem) : Prop :=
  ok mc rn' /\
  (let o := sp_level pol mc ev val (abs rn) in
   let nt := (negb contained || direct) && negb (o_taken o || o_rejected o) in
   items = (if nt then rev (map (fun s => Cb KNoTrans [] s ev false (c_act (o_conf o))) (c_act (o_conf o))) else []) ++ o_items o /\
   abs rn' = o_conf o /\ code_ok code (o_taken o) (o_rejected o)).

Lemma L_pei fuel ev src rn : ok mc rn -> depth mc + 2 <= fuel -> e_ty ev <> EV_NONE ->
  sim val (pei cf parents contained mc children fuel ev src) rn (level_post (has_bits src SRC_DIRECT) ev rn).
Proof.
  intros Hok Hfuel Hev. apply ok_unfold in Hok. destruct Hok as (HokL & Hproc).
  destruct fuel as [|f]; [lia|]. cbn [pei]. unfold pei_body.
  eapply sim_bind; [apply (sim_get val rn (fun a rn1 i1 => a = rn /\ rn1 = rn /\ i1 = [])); auto|].
  cbn beta. intros a rn0 i0 (-> & -> & ->). rewrite blocked_false, Hproc.
  eapply sim_bind; [apply (sim_modify val _ rn (fun _ rn1 i1 => rn1 = set_processing rn true /\ i1 = [])); auto|].
  cbn beta. intros u1 rn1 i1 (-> & ->).
  eapply sim_bind.
  { apply sim_catch. apply (L_level (q:=[]) f ev (has_bits src SRC_DIRECT) (set_processing rn true)); [apply okL_set_processing; exact HokL | lia | exact Hev]. }
  cbn beta. intros code rn2 i2 (Hok2 & Hp2 & Hres). rewrite abs_set_processing in Hres.
  eapply sim_bind; [apply (sim_modify val _ rn2 (fun _ rn3 i3 => rn3 = set_processing rn2 false /\ i3 = [])); auto|].
  cbn beta. intros u3 rn3 i3 (-> & ->).
  rewrite core_no_completion. cbn [andb].
  eapply sim_bind; [apply (sim_ret val tt (set_processing rn2 false) (fun _ rn4 i4 => rn4 = set_processing rn2 false /\ i4 = [])); auto|].
  cbn beta. intros u4 rn4 i4 (-> & ->).
  assert (Hq : msgq (set_processing rn2 false) = []) by (destruct Hok2 as (Hq & _); destruct rn2; exact Hq).
  assert (Hf : 1 <= f) by lia.
  eapply sim_bind with (P := fun _ rn5 i5 => rn5 = set_processing rn2 false /\ i5 = []).
  { destruct (c_qbefore cf).
    - destruct (negb (has_bits src SRC_MSG_QUEUE)); [|apply sim_ret; auto].
      eapply sim_bind; [apply sim_drain_empty; exact Hq|]. cbn beta. intros u5 rn5 i5 (-> & ->).
      destruct (negb (has_bits src SRC_DEFERRED)); [|apply sim_ret; auto].
      eapply sim_conseq; [apply sim_handle_deferred; exact Hf|]. cbn beta. intros u6 rn6 i6 (-> & ->). auto.
    - destruct (negb (has_bits src SRC_DEFERRED)); [|apply sim_ret; auto].
      eapply sim_bind; [apply sim_handle_deferred; exact Hf|]. cbn beta. intros u5 rn5 i5 (-> & ->).
      destruct (negb (has_bits src SRC_MSG_QUEUE)); [|apply sim_ret; auto].
      eapply sim_conseq; [apply sim_drain_empty; exact Hq|]. cbn beta. intros u6 rn6 i6 (-> & ->). auto. }
  cbn beta. intros u5 rn5 i5 (-> & ->). apply sim_ret. rewrite !app_nil_l, !app_nil_r.
  unfold level_post. split.
  - apply ok_unfold. split; [apply okL_set_processing; exact Hok2 | destruct rn2; reflexivity].
  - rewrite abs_set_processing. exact Hres.
Qed.

(* ---- events stored in the level's own message queue (enqueue_event from outside) ---- *)
Definition mkq (e:evt) : qitem := QEv e SRC_MSG_QUEUE 0%Z false.

(* a stored event taken from the queue is one complete step; what else the queue holds stays *)
Lemma L_pei_queued {q} fuel ev rn : okLq q mc rn -> processing rn = false -> depth mc + 2 <= fuel -> e_ty ev <> EV_NONE ->
  sim val (pei cf parents contained mc children fuel ev SRC_MSG_QUEUE) rn
      (fun code rn' items => okLq q mc rn' /\ processing rn' = false /\
         (let o := sp_level pol mc ev val (abs rn) in
          let nt := negb contained && negb (o_taken o || o_rejected o) in
          items = (if nt then rev (map (fun s => Cb KNoTrans [] s ev false (c_act (o_conf o))) (c_act (o_conf o))) else []) ++ o_items o /\
          abs rn' = o_conf o)).
Proof.
  intros HokL Hproc Hfuel Hev.
  destruct fuel as [|f]; [lia|]. cbn [pei]. unfold pei_body.
  eapply sim_bind; [apply (sim_get val rn (fun a rn1 i1 => a = rn /\ rn1 = rn /\ i1 = [])); auto|].
  cbn beta. intros a rn0 i0 (-> & -> & ->). rewrite blocked_false, Hproc.
  eapply sim_bind; [apply (sim_modify val _ rn (fun _ rn1 i1 => rn1 = set_processing rn true /\ i1 = [])); auto|].
  cbn beta. intros u1 rn1 i1 (-> & ->).
  eapply sim_bind.
  { apply sim_catch. apply (L_level (q:=q) f ev (has_bits SRC_MSG_QUEUE SRC_DIRECT) (set_processing rn true)); [apply okL_set_processing; exact HokL | lia | exact Hev]. }
  cbn beta. intros code rn2 i2 (Hok2 & Hp2 & Hres). rewrite abs_set_processing in Hres.
  eapply sim_bind; [apply (sim_modify val _ rn2 (fun _ rn3 i3 => rn3 = set_processing rn2 false /\ i3 = [])); auto|].
  cbn beta. intros u3 rn3 i3 (-> & ->).
  rewrite core_no_completion. cbn [andb].
  eapply sim_bind; [apply (sim_ret val tt (set_processing rn2 false) (fun _ rn4 i4 => rn4 = set_processing rn2 false /\ i4 = [])); auto|].
  cbn beta. intros u4 rn4 i4 (-> & ->).
  assert (Hf : 1 <= f) by lia.
  change (has_bits SRC_MSG_QUEUE SRC_MSG_QUEUE) with true. change (has_bits SRC_MSG_QUEUE SRC_DEFERRED) with false.
  change (has_bits SRC_MSG_QUEUE SRC_DIRECT) with false in Hres. cbn [negb orb] in *.
  eapply sim_bind with (P := fun _ rn5 i5 => rn5 = set_processing rn2 false /\ i5 = []).
  { destruct (c_qbefore cf); [apply sim_ret; auto|].
    eapply sim_bind; [apply sim_handle_deferred; exact Hf|]. cbn beta. intros u5 rn5 i5 (-> & ->). apply sim_ret. auto. }
  cbn beta. intros u5 rn5 i5 (-> & ->). apply sim_ret. rewrite !app_nil_l, !app_nil_r.
  split; [apply okL_set_processing; exact Hok2|]. split; [destruct rn2; reflexivity|].
  rewrite abs_set_processing. cbn zeta in Hres. destruct Hres as (H1 & H2 & _). rewrite orb_false_r in H1. auto.
Qed.

Lemma sp_process_unfold_root ev c :
  let o := sp_level pol mc ev val c in
  sp_process pol mc ev val c =
    Out (o_taken o) (o_rejected o)
        ((if negb (o_taken o || o_rejected o) then rev (map (fun s => Cb KNoTrans [] s ev false (c_act (o_conf o))) (c_act (o_conf o))) else []) ++ o_items o)
        (o_conf o).
Proof.
  cbn zeta. unfold sp_process. destruct (sp_level pol mc ev val c) as [t rj i c']. cbn [o_taken o_rejected o_items o_conf].
  destruct t, rj; reflexivity.
Qed.

(* the stored events are dispatched oldest first, each as a complete step: execute_queued_events, and the queue handling
   at the end of a direct process_event *)
Lemma L_drain fuel' : contained = false -> depth mc + 2 <= fuel' ->
  forall evs f rn, okLq (map mkq evs) mc rn -> processing rn = false -> length evs <= f ->
    Forall (fun e => e_ty e <> EV_NONE) evs ->
    sim val (drain_msgq (pei cf parents contained mc children fuel') f) rn
        (fun _ rn' items => ok mc rn' /\ (items, abs rn') = sp_drain pol mc val evs (abs rn)).
Proof.
  intros Hroot Hfuel. induction evs as [|e t IH]; intros f rn Hok Hp Hlen Hall.
  - cbn [map] in Hok. eapply sim_conseq; [apply sim_drain_empty; destruct Hok as (Hq & _); exact Hq|].
    cbn beta. intros u rn' items (-> & ->). split; [apply ok_unfold; split; assumption | reflexivity].
  - destruct f as [|f]; [cbn in Hlen; lia|]. cbn [drain_msgq map].
    inversion Hall as [|e' t' He Ht]; subst e' t'.
    eapply sim_bind; [apply (sim_get val rn (fun a rn1 i1 => a = rn /\ rn1 = rn /\ i1 = [])); auto|].
    cbn beta. intros a rn1 i1 (-> & -> & ->).
    assert (Hq : msgq rn = mkq e :: map mkq t) by (destruct Hok as (Hq & _); exact Hq).
    rewrite Hq. unfold mkq at 1.
    eapply sim_bind; [apply (sim_put val (set_msgq rn (map mkq t)) rn (fun _ rn1 i1 => rn1 = set_msgq rn (map mkq t) /\ i1 = [])); auto|].
    cbn beta. intros u1 rn1 i1 (-> & ->).
    eapply sim_bind.
    { apply (L_pei_queued (q:=map mkq t) fuel' e (set_msgq rn (map mkq t))); [eapply okL_set_msgq; exact Hok | destruct rn; exact Hp | exact Hfuel | exact He]. }
    cbn beta. intros code rn2 i2 (Hok2 & Hp2 & Hi2 & Ha2). rewrite abs_set_msgq in Hi2, Ha2.
    eapply sim_conseq; [apply (IH f rn2 Hok2 Hp2); [cbn in Hlen; lia | exact Ht]|].
    cbn beta. intros u3 rn3 i3 (Hok3 & E3). split; [exact Hok3|].
    cbn [sp_drain]. rewrite sp_process_unfold_root. cbn zeta. cbn [o_conf o_items].
    rewrite Hroot in Hi2. cbn [negb andb] in Hi2. rewrite <- Hi2. rewrite <- Ha2, <- E3. rewrite !app_nil_r. reflexivity.
Qed.

(* process_event from outside while events are stored: the event's own step, then every stored event *)
Lemma L_pei_direct_q evs fuel ev rn : contained = false ->
  okLq (map mkq evs) mc rn -> processing rn = false -> depth mc + 3 + length evs <= fuel -> e_ty ev <> EV_NONE ->
  Forall (fun e => e_ty e <> EV_NONE) evs ->
  sim val (pei cf parents contained mc children fuel ev SRC_DIRECT) rn
      (fun code rn' items => ok mc rn' /\
         (let o := sp_process pol mc ev val (abs rn) in
          let '(i, c') := sp_drain pol mc val evs (o_conf o) in
          items = i ++ o_items o /\ abs rn' = c' /\ code_ok code (o_taken o) (o_rejected o))).
Proof.
  intros Hroot HokL Hproc Hfuel Hev Hall.
  destruct fuel as [|f]; [lia|]. cbn [pei]. unfold pei_body.
  eapply sim_bind; [apply (sim_get val rn (fun a rn1 i1 => a = rn /\ rn1 = rn /\ i1 = [])); auto|].
  cbn beta. intros a rn0 i0 (-> & -> & ->). rewrite blocked_false, Hproc.
  eapply sim_bind; [apply (sim_modify val _ rn (fun _ rn1 i1 => rn1 = set_processing rn true /\ i1 = [])); auto|].
  cbn beta. intros u1 rn1 i1 (-> & ->).
  eapply sim_bind.
  { apply sim_catch. apply (L_level (q:=map mkq evs) f ev (has_bits SRC_DIRECT SRC_DIRECT) (set_processing rn true)); [apply okL_set_processing; exact HokL | lia | exact Hev]. }
  cbn beta. intros code rn2 i2 (Hok2 & Hp2 & Hres). rewrite abs_set_processing in Hres.
  eapply sim_bind; [apply (sim_modify val _ rn2 (fun _ rn3 i3 => rn3 = set_processing rn2 false /\ i3 = [])); auto|].
  cbn beta. intros u3 rn3 i3 (-> & ->).
  rewrite core_no_completion. cbn [andb].
  eapply sim_bind; [apply (sim_ret val tt (set_processing rn2 false) (fun _ rn4 i4 => rn4 = set_processing rn2 false /\ i4 = [])); auto|].
  cbn beta. intros u4 rn4 i4 (-> & ->).
  assert (Hf : 1 <= f) by lia.
  change (has_bits SRC_DIRECT SRC_MSG_QUEUE) with false. change (has_bits SRC_DIRECT SRC_DEFERRED) with false.
  change (has_bits SRC_DIRECT SRC_DIRECT) with true in Hres. cbn [negb orb] in *.
  assert (Hok2' : okLq (map mkq evs) mc (set_processing rn2 false)) by (apply okL_set_processing; exact Hok2).
  assert (Hp2' : processing (set_processing rn2 false) = false) by (destruct rn2; reflexivity).
  eapply sim_bind with (P := fun _ rn5 i5 => ok mc rn5 /\ (i5, abs rn5) = sp_drain pol mc val evs (abs (set_processing rn2 false))).
  { destruct (c_qbefore cf).
    - eapply sim_bind; [apply (L_drain f Hroot ltac:(lia) evs f _ Hok2' Hp2' ltac:(lia) Hall)|].
      cbn beta. intros u5 rn5 i5 (Hok5 & E5).
      eapply sim_conseq; [apply sim_handle_deferred; exact Hf|]. cbn beta. intros u6 rn6 i6 (-> & ->). rewrite app_nil_l. auto.
    - eapply sim_bind; [apply sim_handle_deferred; exact Hf|]. cbn beta. intros u5 rn5 i5 (-> & ->).
      eapply sim_conseq; [apply (L_drain f Hroot ltac:(lia) evs f _ Hok2' Hp2' ltac:(lia) Hall)|].
      cbn beta. intros u6 rn6 i6 (Hok6 & E6). rewrite app_nil_r. auto. }
  cbn beta. intros u5 rn5 i5 (Hok5 & E5). apply sim_ret. rewrite !app_nil_l, !app_nil_r.
  split; [exact Hok5|]. rewrite abs_set_processing in E5.
  rewrite sp_process_unfold_root. cbn zeta. cbn [o_conf o_items o_taken o_rejected].
  cbn zeta in Hres. destruct Hres as (H1 & H2 & H3). rewrite Hroot in H1. cbn [negb orb andb] in H1.
  rewrite <- H2. destruct (sp_drain pol mc val evs (abs rn2)) as [i c'] eqn:Ed. inversion E5; subst i5 c'.
  split; [rewrite H1, H2; reflexivity|]. split; [reflexivity | exact H3].
Qed.

(* ---- leaving and entering the whole level (it is the submachine of an enclosing level) ---- *)
Lemma L_exit_regions {q} fuel ev : forall n r rn items0, okLq q mc rn ->
  sim val (exit_regions contained mc children fuel ev n r) rn
      (fun _ rn' items => okLq q mc rn' /\ processing rn' = processing rn /\
         (items ++ items0, abs rn') =
         fold_left (fun acc r => sp_exit_state (sp_exit_subs mc) ev (nth r (c_act (snd acc)) 0) acc) (seqn r n) (items0, abs rn)).
Proof.
  induction n as [|n IH]; intros r rn items0 Hok; cbn [exit_regions seqn fold_left].
  - apply sim_ret. auto.
  - eapply sim_bind; [apply (sim_get val rn (fun a rn1 i1 => a = rn /\ rn1 = rn /\ i1 = [])); auto|].
    cbn beta. intros a rn0 i0 (-> & -> & ->).
    eapply sim_bind; [apply (L_exit (q:=q) fuel (nth r (act rn) 0) ev rn Hok)|].
    cbn beta. intros u rn1 i1 (Hok1 & Hp1 & E1).
    eapply sim_conseq; [apply (IH (S r) rn1 (i1 ++ items0) Hok1)|].
    cbn beta. intros u2 rn2 i2 (Hok2 & Hp2 & E2).
    split; [exact Hok2|]. split; [congruence|]. rewrite app_nil_r, <- app_assoc, E2. f_equal.
    cbn [snd]. rewrite abs_act.
    rewrite (sp_exit_state_acc (sp_exit_subs mc) ev (nth r (act rn) 0) items0 (abs rn)). rewrite <- E1. reflexivity.
Qed.


Lemma L_start_regions {q} fuel ev : 1 <= fuel -> forall n r rn items0, okLq q mc rn ->
  sim val (start_regions cf contained mc children fuel ev n r) rn
      (fun _ rn' items => okLq q mc rn' /\ processing rn' = processing rn /\
         (items ++ items0, abs rn') =
         fold_left (fun acc r => sp_enter_state (sp_enter_subs mc) ev (nth r (c_act (snd acc)) 0) acc) (seqn r n) (items0, abs rn)).
Proof.
  intros Hf. induction n as [|n IH]; intros r rn items0 Hok; cbn [start_regions seqn fold_left].
  - apply sim_ret. auto.
  - eapply sim_bind; [apply (sim_get val rn (fun a rn1 i1 => a = rn /\ rn1 = rn /\ i1 = [])); auto|].
    cbn beta. intros a rn0 i0 (-> & -> & ->).
    eapply sim_bind; [apply (L_entry (q:=q) true fuel (nth r (act rn) 0) ev rn Hok Hf)|].
    cbn beta. intros u rn1 i1 (Hok1 & Hp1 & E1).
    eapply sim_conseq; [apply (IH (S r) rn1 (i1 ++ items0) Hok1)|].
    cbn beta. intros u2 rn2 i2 (Hok2 & Hp2 & E2).
    split; [exact Hok2|]. split; [congruence|]. rewrite app_nil_r, <- app_assoc, E2. f_equal.
    cbn [snd]. rewrite abs_act.
    rewrite (sp_enter_state_acc (sp_enter_subs mc) ev (nth r (act rn) 0) items0 (abs rn)). rewrite <- E1. reflexivity.
Qed.

Lemma sp_exit_unfold ev c :
  sp_exit mc ev c = fold_left (fun acc r => sp_exit_state (sp_exit_subs mc) ev (nth r (c_act (snd acc)) 0) acc) (seqn 0 (m_nreg mc)) ([], c).
Proof. destruct mc; reflexivity. Qed.
Lemma sp_enter_unfold ev c :
  sp_enter mc ev c = fold_left (fun acc r => sp_enter_state (sp_enter_subs mc) ev (nth r (c_act (snd acc)) 0) acc) (seqn 0 (m_nreg mc)) ([], c).
Proof. destruct mc; reflexivity. Qed.

(* nothing of this level or below has a transition for the event type: the specification does nothing *)
Lemma good_unmatched ety x : good x -> trig_matches parents true (r_trig x) ety = false -> sp_matches ety x = false.
Proof.
  intros (_ & (e & He & Hne)). unfold sp_matches. rewrite He. cbn [trig_matches]. rewrite flat_base.
  destruct (Nat.eqb e ety) eqn:E; [|reflexivity]. apply Nat.eqb_eq in E. subst ety.
  destruct (Nat.eqb e EV_NONE) eqn:E2; [apply Nat.eqb_eq in E2; contradiction|]. cbn. discriminate.
Qed.
Lemma existsb_forall {A} (f:A -> bool) l : existsb f l = false <-> (forall x, In x l -> f x = false).
Proof.
  induction l as [|a l IH]; cbn; [split; [intros _ x [] | reflexivity]|].
  rewrite orb_false_iff, IH. split.
  - intros (Ha & Hl) x [->|Hx]; auto.
  - intros H. split; [apply H; left; reflexivity | intros x Hx; apply H; right; exact Hx].
Qed.
Lemma filter_nil_Forall {A} (f:A -> bool) l : (forall x, In x l -> f x = false) -> filter f l = [].
Proof. intros H. induction l as [|x l IH]; cbn; [reflexivity|]. rewrite (H x) by (left; reflexivity). apply IH. intros y Hy. apply H. right. exact Hy. Qed.

Lemma L_silent_gen (tm:trigger -> bool) ev c :
  (forall x, good x -> tm (r_trig x) = false -> sp_matches (e_ty ev) x = false) ->
  (forall m co k, cspec m co -> existsb tm (co_trigs co) = false -> sp_level pol m ev val k = Out false false [] k) ->
  existsb tm (level_trigs cf mc children) = false ->
  sp_level pol mc ev val c = Out false false [] c.
Proof.
  intros Htm Hkid Hs. unfold level_trigs in Hs. rewrite is11_false in Hs. rewrite !existsb_app in Hs.
  apply orb_false_iff in Hs. destruct Hs as (Hrows & Hs). apply orb_false_iff in Hs. destruct Hs as (Hrest & Hkids).
  apply orb_false_iff in Hrest. destruct Hrest as (Hirows & Hsirows).
  assert (Hun : forall l, Forall good l -> existsb tm (map r_trig l) = false ->
                          filter (sp_matches (e_ty ev)) l = []).
  { intros l Hg He. apply filter_nil_Forall. intros x Hx. eapply Forall_forall in Hg; eauto. apply Htm; [exact Hg|].
    rewrite existsb_forall in He. apply He. apply in_map. exact Hx. }
  assert (Hcand : forall s, sp_candidates mc s (e_ty ev) = []).
  { intros s. unfold sp_candidates.
    assert (E1 : filter (fun x => Nat.eqb (r_src x) s && sp_matches (e_ty ev) x) (m_rows mc) = []).
    { apply filter_nil_Forall. intros x Hx. pose proof core_rows_good as Hg. eapply Forall_forall in Hg; eauto.
      rewrite (Htm x Hg); [apply andb_false_r|].
      rewrite existsb_forall in Hrows. apply Hrows. apply in_map. exact Hx. }
    rewrite E1. cbn [rev]. rewrite app_nil_r. destruct (is_sub mc s); [reflexivity|].
    destruct (core_state s) as (_ & Hsi & _). rewrite (Hun _ Hsi); [reflexivity|].
    rewrite existsb_forall in Hsirows |- *. intros t Ht. apply Hsirows. apply in_flat_map.
    destruct (Nat.lt_ge_cases s (length (m_states mc))) as [L|G].
    - exists (get_state mc s). split; [apply nth_In; exact L | exact Ht].
    - unfold get_state in Ht. rewrite nth_overflow in Ht by exact G. cbn in Ht. contradiction. }
  assert (Hreg : forall r c0, sp_region pol mc (sp_level_subs pol mc) ev val r c0 = Out false false [] c0).
  { intros r c0. unfold sp_region. rewrite Hcand. rewrite level_subs_nth.
    destruct (s_sub (get_state mc (nth r (c_act c0) 0))) as [m|] eqn:Es; [|reflexivity].
    destruct (nth (nth r (c_act c0) 0) (c_kids c0) None) as [k|] eqn:Ek; [|reflexivity].
    destruct (child_some _ m Es) as (co & Hco & Hsp).
    rewrite (Hkid m co k Hsp).
    - cbn [o_taken o_rejected o_items o_conf sp_rows map app orb]. rewrite c_set_kid_same by exact Ek. reflexivity.
    - rewrite existsb_forall in Hkids |- *. intros t Ht. apply Hkids. apply in_flat_map.
      exists (Some co). split; [|exact Ht]. unfold child in Hco. rewrite <- Hco. apply nth_In.
      destruct (Nat.lt_ge_cases (nth r (c_act c0) 0) (length children)) as [L|G]; [exact L|].
      rewrite nth_overflow in Hco by exact G. discriminate. }
  rewrite sp_level_unfold, sp_regions_fold.
  assert (Hfold : forall l o, o = Out false false [] (o_conf o) -> fold_left (reg_step ev) l o = o).
  { induction l as [|r l IH]; intros o Ho; cbn [fold_left]; [reflexivity|].
    assert (E : reg_step ev o r = o).
    { unfold reg_step. rewrite Hreg. rewrite Ho. cbn. reflexivity. }
    rewrite E. apply IH. exact Ho. }
  rewrite Hfold by reflexivity. cbn [o_taken o_rejected o_items o_conf].
  rewrite (Hun _ core_irows_good Hirows). reflexivity.
Qed.
Lemma L_silent ev c :
  existsb (fun t => trig_matches parents true t (e_ty ev)) (level_trigs cf mc children) = false ->
  sp_level pol mc ev val c = Out false false [] c.
Proof.
  eapply L_silent_gen.
  - intros x Hg. apply good_unmatched. exact Hg.
  - intros m co k Hsp. apply (cs_silent m co Hsp ev k).
Qed.
Lemma L_silent_fct ev c :
  existsb (fun t => match t with TrEv e => Nat.eqb e (e_ty ev) | _ => false end) (level_trigs cf mc children) = false ->
  sp_level pol mc ev val c = Out false false [] c.
Proof.
  eapply L_silent_gen.
  - intros x (_ & (e & He & _)). unfold sp_matches. rewrite He. exact (fun H => H).
  - intros m co k Hsp. apply (cs_silent_fct m co Hsp ev k).
Qed.

End BackSpec.

(* ============================ every level of every core definition ============================ *)
Section BackWhole.
Variable cf : cfg.
Hypothesis Hbe : c_be cf = Back.
Variable parents : list (option nat).
Hypothesis Hflat : forall e, nth e parents None = None.
Variable val : list nat.
Notation pol := (c_pol cf).

Definition kidsops (mc:machine) : list (option child_ops) :=
  map (fun st => match s_sub st with Some c => Some (build cf parents true c) | None => None end) (m_states mc).
Lemma build_back mc contained : build cf parents contained mc = back_ops cf parents contained mc (kidsops mc).
Proof. destruct mc. unfold build; fold build. rewrite Hbe. reflexivity. Qed.

Lemma core_sub mc s c : core mc -> s_sub (get_state mc s) = Some c -> core c.
Proof.
  intros Hc Hs. unfold get_state in Hs. destruct mc as [states inits rows irows hist]. cbn in Hc. destruct Hc as (_ & _ & Hall).
  cbn [m_states] in Hs. pose proof (core_states_facts states s Hall) as (_ & _ & _ & H). rewrite Hs in H. exact H.
Qed.

Lemma hist_entry_abs mc rn ety : history_entry mc rn ety = sp_hist_entry mc (abs rn) ety.
Proof. unfold history_entry, sp_hist_entry. rewrite abs_hist. reflexivity. Qed.

Theorem back_cspec : forall mc, core mc -> cspec cf parents val mc (build cf parents true mc).
Proof.
  intros mc. induction mc as [mc IH] using machine_sub_ind. intros Hcore.
  assert (Hch : forall s, match s_sub (get_state mc s) with
                          | Some c => exists co, nth s (kidsops mc) None = Some co /\ cspec cf parents val c co
                          | None => nth s (kidsops mc) None = None
                          end).
  { intros s. unfold kidsops. rewrite nth_map_sub. fold (get_state mc s).
    destruct (s_sub (get_state mc s)) as [c|] eqn:Es; [|reflexivity].
    exists (build cf parents true c). split; [reflexivity|]. apply (IH s c Es). eapply core_sub; eauto. }
  rewrite build_back. constructor; cbn [back_ops co_exit_pre co_exit_post co_entry_pre co_entry_post co_pei co_trigs].
  - (* leaving *)
    intros fuel ev kn Hok. apply ok_unfold in Hok. destruct Hok as (HokL & Hp). unfold do_exit_pre.
    eapply sim_conseq; [eapply L_exit_regions with (items0 := []); eauto|].
    cbn beta. intros u kn' items (H1 & H2 & H3). split.
    + apply ok_unfold. split; [exact H1 | congruence].
    + rewrite app_nil_r in H3. rewrite H3. symmetry. eapply sp_exit_unfold; eauto.
  - intros ev kn Hok. apply ok_unfold in Hok. destruct Hok as (HokL & Hp). unfold do_exit_post.
    eapply sim_bind; [apply (sim_modify val _ kn (fun _ rn1 i1 => rn1 = (match m_hist mc with HNone => kn | _ => set_hist kn (act kn) end) /\ i1 = [])); auto|].
    cbn beta. intros u rn1 i1 (-> & ->).
    assert (Ha : abs (match m_hist mc with HNone => kn | _ => set_hist kn (act kn) end) = sp_post_exit mc (abs kn)).
    { unfold sp_post_exit. destruct (m_hist mc); [reflexivity | |]; rewrite abs_set_hist, abs_act; reflexivity. }
    assert (Ho : okL mc (match m_hist mc with HNone => kn | _ => set_hist kn (act kn) end) /\
                 processing (match m_hist mc with HNone => kn | _ => set_hist kn (act kn) end) = false).
    { destruct (m_hist mc); (split; [try apply okL_set_hist; exact HokL | destruct kn; exact Hp]). }
    destruct Ho as (Ho1 & Ho2).
    destruct (keeps_deferred mc (e_ty ev)).
    + apply sim_ret. split; [apply ok_unfold; auto|]. auto.
    + apply sim_modify. split; [|split; [reflexivity | rewrite abs_set_defq; exact Ha]].
      apply ok_unfold. split; [apply okL_set_defq_nil; exact Ho1|].
      destruct (match m_hist mc with HNone => kn | _ => set_hist kn (act kn) end); exact Ho2.
  - (* entering: the regions are placed *)
    intros ev kn Hok. apply ok_unfold in Hok. destruct Hok as (HokL & Hp). unfold do_entry_pre.
    eapply sim_bind; [apply (sim_modify val _ kn (fun _ rn1 i1 => rn1 = set_act kn (history_entry mc kn (e_ty ev)) /\ i1 = [])); auto|].
    cbn beta. intros u rn1 i1 (-> & ->).
    apply sim_modify. split; [apply okL_set_processing; apply okL_set_act; exact HokL|]. split; [reflexivity|].
    rewrite abs_set_processing, abs_set_act, hist_entry_abs. reflexivity.
  - (* entering: the states of the regions *)
    intros fuel ev kn HokL Hf. unfold do_entry_post, internal_start.
    erewrite core_no_completion by eauto.
    eapply sim_bind with (P := fun _ rn1 i1 => okL mc rn1 /\ processing rn1 = processing kn /\
        (i1, abs rn1) = fold_left (fun acc r => sp_enter_state (sp_enter_subs mc) ev (nth r (c_act (snd acc)) 0) acc)
                                  (seqn 0 (m_nreg mc)) ([], abs kn)).
    { eapply sim_bind; [eapply L_start_regions with (items0 := []); eauto|].
      cbn beta. intros u rn1 i1 (H1 & H2 & H3). apply sim_ret. rewrite app_nil_l. rewrite app_nil_r in H3. auto. }
    cbn beta. intros u rn1 i1 (Hok1 & Hp1 & E1).
    eapply sim_bind; [apply (sim_modify val _ rn1 (fun _ rn2 i2 => rn2 = set_processing rn1 false /\ i2 = [])); auto|].
    cbn beta. intros u2 rn2 i2 (-> & ->).
    eapply sim_bind; [eapply sim_handle_deferred; eauto|].
    cbn beta. intros u3 rn3 i3 (-> & ->).
    assert (Hq : msgq (set_processing rn1 false) = []) by (destruct Hok1 as (Hq & _); destruct rn1; exact Hq).
    eapply sim_conseq; [apply sim_drain_empty; exact Hq|].
    cbn beta. intros u4 rn4 i4 (-> & ->). rewrite !app_nil_l. split.
    + apply ok_unfold. split; [apply okL_set_processing; exact Hok1 | destruct rn1; reflexivity].
    + rewrite abs_set_processing. rewrite E1. symmetry. eapply sp_enter_unfold; eauto.
  - (* an event *)
    intros fuel ev kn Hok Hfuel Hev.
    eapply sim_conseq; [eapply L_pei; eauto|].
    unfold level_post. cbn beta. intros code kn' items (H1 & H2). split; [exact H1|]. cbn zeta in H2. cbn in H2.
    destruct H2 as (H2 & H3 & H4). auto.
  - intros ev k Hs. eapply L_silent; eauto.
  - intros ev k Hs. eapply L_silent_fct; eauto.
Qed.


(* ---- the outermost machine ---- *)
Lemma kids_hch mc : core mc ->
  forall s, match s_sub (get_state mc s) with
            | Some c => exists co, nth s (kidsops mc) None = Some co /\ cspec cf parents val c co
            | None => nth s (kidsops mc) None = None
            end.
Proof.
  intros Hcore s. unfold kidsops. rewrite nth_map_sub. fold (get_state mc s).
  destruct (s_sub (get_state mc s)) as [c|] eqn:Es; [|reflexivity].
  exists (build cf parents true c). split; [reflexivity|]. apply back_cspec. eapply core_sub; eauto.
Qed.

(* process_event on the outermost machine is sp_process *)
Theorem back_process_event : forall mc, core mc -> forall fuel ev rn,
  ok mc rn -> depth mc + 2 <= fuel -> e_ty ev <> EV_NONE ->
  sim val (co_pei (build cf parents false mc) fuel ev SRC_DIRECT) rn
      (fun code rn' items => ok mc rn' /\
         items = o_items (sp_process pol mc ev val (abs rn)) /\ abs rn' = o_conf (sp_process pol mc ev val (abs rn)) /\
         code_ok code (o_taken (sp_process pol mc ev val (abs rn))) (o_rejected (sp_process pol mc ev val (abs rn)))).
Proof.
  intros mc Hcore fuel ev rn Hok Hfuel Hev. pose proof (kids_hch mc Hcore) as Hch. rewrite build_back. cbn [back_ops co_pei].
  eapply sim_conseq; [eapply L_pei; eauto|].
  unfold level_post. cbn beta. intros code rn' items (H1 & H2). split; [exact H1|]. cbn zeta in H2. destruct H2 as (H2 & H3 & H4).
  unfold sp_process. change (has_bits SRC_DIRECT SRC_DIRECT) with true in H2. cbn [negb orb andb] in H2.
  destruct (o_taken (sp_level pol mc ev val (abs rn)) || o_rejected (sp_level pol mc ev val (abs rn))) eqn:E.
  - cbn [negb] in H2. rewrite app_nil_l in H2. auto.
  - cbn [negb] in H2. cbn [o_items o_conf o_taken o_rejected]. apply orb_false_iff in E. destruct E as (E1 & E2).
    rewrite E1, E2 in H4. auto.
Qed.

Hypothesis Hstartq : back_start_queues = true.

Theorem back_start : forall mc, core mc -> forall fuel rn, ok mc rn -> 1 <= fuel ->
  sim val (co_start (build cf parents false mc) fuel) rn
      (fun _ rn' items => ok mc rn' /\ (items, abs rn') = sp_start mc (abs rn)).
Proof.
  intros mc Hcore fuel rn Hok Hf. pose proof (kids_hch mc Hcore) as Hch. apply ok_unfold in Hok. destruct Hok as (HokL & Hp).
  rewrite build_back. cbn [back_ops co_start]. unfold do_start, start_queues. rewrite (is11_false cf Hbe), Hstartq.
  erewrite core_no_completion by eauto.
  eapply sim_bind; [apply (sim_modify val _ rn (fun _ rn1 i1 => rn1 = set_act rn (m_inits mc) /\ i1 = [])); auto|].
  cbn beta. intros u1 rn1 i1 (-> & ->).
  eapply sim_bind; [apply (sim_modify val _ _ (fun _ rn2 i2 => rn2 = set_processing (set_act rn (m_inits mc)) true /\ i2 = [])); auto|].
  cbn beta. intros u2 rn2 i2 (-> & ->).
  set (rn0 := set_processing (set_act rn (m_inits mc)) true).
  assert (Hok0 : okL mc rn0) by (apply okL_set_processing, okL_set_act; exact HokL).
  eapply sim_bind with (P := fun _ rn3 i3 => okL mc rn3 /\ processing rn3 = true /\
      (i3, abs rn3) = (let '(items, c1) := sp_enter mc (Evt EV_INIT 0) (abs rn0) in
                       (items ++ [Cb KMEntry [] 0 (Evt EV_INIT 0) false (m_inits mc)], c1))).
  { apply sim_on_throw.
    eapply sim_bind; [eapply sim_cb|]. cbn beta. intros u3 rn3 i3 (-> & ->).
    eapply sim_conseq; [eapply L_start_regions with (items0 := []); eauto|].
    cbn beta. intros u4 rn4 i4 (H1 & H2 & H3). split; [exact H1|]. split; [rewrite H2; unfold rn0; destruct rn; reflexivity|].
    rewrite app_nil_r in H3. erewrite sp_enter_unfold by eauto. rewrite <- H3.
    f_equal. f_equal. unfold rn0. destruct rn; reflexivity. }
  cbn beta. intros u3 rn3 i3 (Hok3 & Hp3 & E3).
  eapply sim_bind; [apply (sim_modify val _ rn3 (fun _ rn4 i4 => rn4 = set_processing rn3 false /\ i4 = [])); auto|].
  cbn beta. intros u4 rn4 i4 (-> & ->).
  eapply sim_bind; [apply (sim_ret val tt (set_processing rn3 false) (fun _ rn5 i5 => rn5 = set_processing rn3 false /\ i5 = [])); auto|].
  cbn beta. intros u5 rn5 i5 (-> & ->).
  assert (Hq : msgq (set_processing rn3 false) = []) by (destruct Hok3 as (Hq & _); destruct rn3; exact Hq).
  eapply sim_conseq; [apply sim_drain_empty; exact Hq|].
  cbn beta. intros u6 rn6 i6 (-> & ->). rewrite !app_nil_l, !app_nil_r. split.
  - apply ok_unfold. split; [apply okL_set_processing; exact Hok3 | destruct rn3; reflexivity].
  - rewrite abs_set_processing. rewrite E3. unfold sp_start, sp_start_obs, rn0. rewrite abs_set_processing, abs_set_act. reflexivity.
Qed.

Theorem back_stop : forall mc, core mc -> forall fuel rn, ok mc rn ->
  sim val (co_stop (build cf parents false mc) fuel) rn
      (fun _ rn' items => ok mc rn' /\ (items, abs rn') = sp_stop mc (abs rn)).
Proof.
  intros mc Hcore fuel rn Hok. pose proof (kids_hch mc Hcore) as Hch. pose proof (back_cspec mc Hcore) as Hsp.
  apply ok_unfold in Hok. destruct Hok as (HokL & Hp).
  rewrite build_back. cbn [back_ops co_stop]. unfold do_stop, do_exit_pre.
  eapply sim_bind; [eapply L_exit_regions with (items0 := []); eauto|].
  cbn beta. intros u1 rn1 i1 (Hok1 & Hp1 & E1). rewrite app_nil_r in E1.
  eapply sim_bind; [eapply sim_cb|]. cbn beta. intros u2 rn2 i2 (-> & ->).
  (* the bookkeeping is the same function whether the machine is contained or not *)
  assert (Hpost : sim val (do_exit_post mc (Evt EV_EXIT 0)) rn1
            (fun _ rn' items => ok mc rn' /\ items = [] /\ abs rn' = sp_post_exit mc (abs rn1))).
  { pose proof (cs_exit_post cf parents val mc _ Hsp (Evt EV_EXIT 0) rn1) as H.
    rewrite build_back in H. cbn [back_ops co_exit_post] in H. apply H.
    apply ok_unfold. split; [exact Hok1 | congruence]. }
  eapply sim_conseq; [exact Hpost|]. cbn beta. intros u3 rn3 i3 (Hok3 & -> & E3).
  split; [exact Hok3|]. unfold sp_stop. erewrite sp_exit_unfold by eauto. rewrite <- E1.
  rewrite app_nil_l. cbn [app]. rewrite abs_act, E3. reflexivity.
Qed.

(* ---- the outermost machine with events stored from outside (enqueue_event) ---- *)
Definition quiet (evs:list evt) (mc:machine) (rn:rnode) : Prop := okLq (map mkq evs) mc rn /\ processing rn = false.
Definition user_events (evs:list evt) : Prop := Forall (fun e => e_ty e <> EV_NONE) evs.

Lemma quiet_nil mc rn : quiet [] mc rn <-> ok mc rn.
Proof. unfold quiet. cbn [map]. symmetry. apply ok_unfold. Qed.

Theorem back_enqueue_q : forall mc evs e rn, quiet evs mc rn ->
  sim val (co_enqueue (build cf parents false mc) e) rn (fun _ rn' items => quiet (evs ++ [e]) mc rn' /\ items = [] /\ abs rn' = abs rn).
Proof.
  intros mc evs e rn (Hok & Hp). rewrite build_back. cbn [back_ops co_enqueue]. unfold cb_enqueue, push_msg.
  apply sim_modify. split; [|split; [reflexivity | apply abs_set_msgq]].
  split; [|destruct rn; exact Hp]. destruct Hok as (Hq & Hd & Hk). rewrite Hq, map_app. cbn [map].
  eapply okL_set_msgq. split; eauto.
Qed.

Theorem back_process_event_q : forall mc, core mc -> forall evs fuel ev rn,
  quiet evs mc rn -> depth mc + 3 + length evs <= fuel -> e_ty ev <> EV_NONE -> user_events evs ->
  sim val (co_pei (build cf parents false mc) fuel ev SRC_DIRECT) rn
      (fun code rn' items => ok mc rn' /\
         (let o := sp_process pol mc ev val (abs rn) in
          let '(i, c') := sp_drain pol mc val evs (o_conf o) in
          items = i ++ o_items o /\ abs rn' = c' /\ code_ok code (o_taken o) (o_rejected o))).
Proof.
  intros mc Hcore evs fuel ev rn (Hok & Hp) Hfuel Hev Hall. pose proof (kids_hch mc Hcore) as Hch.
  rewrite build_back. cbn [back_ops co_pei]. eapply L_pei_direct_q; eauto.
Qed.

Theorem back_drain_q : forall mc, core mc -> forall evs fuel rn,
  quiet evs mc rn -> depth mc + 3 + length evs <= fuel -> user_events evs ->
  sim val (co_drain (build cf parents false mc) fuel 0) rn
      (fun _ rn' items => ok mc rn' /\ (items, abs rn') = sp_drain pol mc val evs (abs rn)).
Proof.
  intros mc Hcore evs fuel rn (Hok & Hp) Hfuel Hall. pose proof (kids_hch mc Hcore) as Hch.
  rewrite build_back. cbn [back_ops co_drain]. change (Nat.eqb 0 0) with true. cbn iota.
  eapply L_drain; eauto; lia.
Qed.

(* execute_single_queued_event: exactly the oldest stored occurrence, as one complete step; the rest stays *)
Theorem back_drain1_q : forall mc, core mc -> forall e evs fuel rn,
  quiet (e :: evs) mc rn -> depth mc + 2 <= fuel -> e_ty e <> EV_NONE ->
  sim val (co_drain (build cf parents false mc) fuel 1) rn
      (fun _ rn' items => quiet evs mc rn' /\ items = o_items (sp_process pol mc e val (abs rn)) /\ abs rn' = o_conf (sp_process pol mc e val (abs rn))).
Proof.
  intros mc Hcore e evs fuel rn (Hok & Hp) Hfuel He. pose proof (kids_hch mc Hcore) as Hch.
  rewrite build_back. cbn [back_ops co_drain]. change (Nat.eqb 1 0) with false. cbn iota. unfold drain_one.
  eapply sim_bind; [apply (sim_get val rn (fun a rn1 i1 => a = rn /\ rn1 = rn /\ i1 = [])); auto|].
  cbn beta. intros a rn1 i1 (-> & -> & ->).
  assert (Hq : msgq rn = mkq e :: map mkq evs) by (destruct Hok as (Hq & _); exact Hq).
  rewrite Hq. unfold mkq at 1.
  eapply sim_bind; [apply (sim_put val (set_msgq rn (map mkq evs)) rn (fun _ rn1 i1 => rn1 = set_msgq rn (map mkq evs) /\ i1 = [])); auto|].
  cbn beta. intros u1 rn1 i1 (-> & ->).
  eapply sim_bind.
  { eapply (L_pei_queued cf Hbe parents Hflat val false mc (kidsops mc) Hch Hcore (q:=map mkq evs) fuel e (set_msgq rn (map mkq evs)));
      [eapply okL_set_msgq; exact Hok | destruct rn; exact Hp | exact Hfuel | exact He]. }
  cbn beta. intros code rn2 i2 (Hok2 & Hp2 & Hi2 & Ha2). rewrite abs_set_msgq in Hi2, Ha2.
  apply sim_ret. rewrite !app_nil_l, !app_nil_r. split; [split; assumption|].
  rewrite sp_process_unfold_root. cbn zeta. cbn [o_conf o_items]. cbn [negb andb] in Hi2. auto.
Qed.

Theorem back_stop_q : forall mc, core mc -> forall evs fuel rn, quiet evs mc rn ->
  sim val (co_stop (build cf parents false mc) fuel) rn
      (fun _ rn' items => quiet evs mc rn' /\ (items, abs rn') = sp_stop mc (abs rn)).
Proof.
  intros mc Hcore evs fuel rn (HokL & Hp). pose proof (kids_hch mc Hcore) as Hch.
  rewrite build_back. cbn [back_ops co_stop]. unfold do_stop, do_exit_pre.
  eapply sim_bind; [eapply L_exit_regions with (items0 := []); eauto|].
  cbn beta. intros u1 rn1 i1 (Hok1 & Hp1 & E1). rewrite app_nil_r in E1.
  eapply sim_bind; [eapply sim_cb|]. cbn beta. intros u2 rn2 i2 (-> & ->).
  unfold do_exit_post.
  eapply sim_bind; [apply (sim_modify val _ rn1 (fun _ rn3 i3 => rn3 = (match m_hist mc with HNone => rn1 | _ => set_hist rn1 (act rn1) end) /\ i3 = [])); auto|].
  cbn beta. intros u rn3 i3 (-> & ->).
  assert (Ha : abs (match m_hist mc with HNone => rn1 | _ => set_hist rn1 (act rn1) end) = sp_post_exit mc (abs rn1)).
  { unfold sp_post_exit. destruct (m_hist mc); [reflexivity | |]; rewrite abs_set_hist, abs_act; reflexivity. }
  assert (Ho : quiet evs mc (match m_hist mc with HNone => rn1 | _ => set_hist rn1 (act rn1) end)).
  { unfold quiet. destruct (m_hist mc); (split; [try apply okL_set_hist; exact Hok1 | destruct rn1; cbn in *; congruence]). }
  assert (Hfin : forall rnx, quiet evs mc rnx -> abs rnx = sp_post_exit mc (abs rn1) ->
            quiet evs mc rnx /\ (([] ++ [Cb KMExit [] 0 (Evt EV_EXIT 0) false (act rn1)]) ++ i1, abs rnx) = sp_stop mc (abs rn)).
  { intros rnx Hqx Hax. split; [exact Hqx|]. unfold sp_stop. erewrite sp_exit_unfold by eauto. rewrite <- E1.
    rewrite app_nil_l. cbn [app]. rewrite abs_act, Hax. reflexivity. }
  destruct (keeps_deferred mc (e_ty (Evt EV_EXIT 0))).
  - apply sim_ret. rewrite app_nil_l. apply Hfin; assumption.
  - apply sim_modify. rewrite app_nil_l. apply Hfin.
    + destruct Ho as (Ho1 & Ho2). split; [apply okL_set_defq_nil; exact Ho1|].
      destruct (match m_hist mc with HNone => rn1 | _ => set_hist rn1 (act rn1) end); exact Ho2.
    + rewrite abs_set_defq. exact Ha.
Qed.

Theorem back_start_q : forall mc, core mc -> forall evs fuel rn, quiet evs mc rn ->
  depth mc + 3 + length evs <= fuel -> user_events evs ->
  sim val (co_start (build cf parents false mc) fuel) rn
      (fun _ rn' items => ok mc rn' /\
         (let '(i0, c0) := sp_start mc (abs rn) in
          let '(i, c') := sp_drain pol mc val evs c0 in items = i ++ i0 /\ abs rn' = c')).
Proof.
  intros mc Hcore evs fuel rn (HokL & Hp) Hf Hall. pose proof (kids_hch mc Hcore) as Hch.
  rewrite build_back. cbn [back_ops co_start]. unfold do_start, start_queues. rewrite (is11_false cf Hbe), Hstartq.
  erewrite core_no_completion by eauto.
  eapply sim_bind; [apply (sim_modify val _ rn (fun _ rn1 i1 => rn1 = set_act rn (m_inits mc) /\ i1 = [])); auto|].
  cbn beta. intros u1 rn1 i1 (-> & ->).
  eapply sim_bind; [apply (sim_modify val _ _ (fun _ rn2 i2 => rn2 = set_processing (set_act rn (m_inits mc)) true /\ i2 = [])); auto|].
  cbn beta. intros u2 rn2 i2 (-> & ->).
  set (rn0 := set_processing (set_act rn (m_inits mc)) true).
  assert (Hok0 : okLq (map mkq evs) mc rn0) by (apply okL_set_processing, okL_set_act; exact HokL).
  eapply sim_bind with (P := fun _ rn3 i3 => okLq (map mkq evs) mc rn3 /\ processing rn3 = true /\
      (i3, abs rn3) = (let '(items, c1) := sp_enter mc (Evt EV_INIT 0) (abs rn0) in
                       (items ++ [Cb KMEntry [] 0 (Evt EV_INIT 0) false (m_inits mc)], c1))).
  { apply sim_on_throw.
    eapply sim_bind; [eapply sim_cb|]. cbn beta. intros u3 rn3 i3 (-> & ->).
    eapply sim_conseq; [eapply L_start_regions with (items0 := []); eauto; lia|].
    cbn beta. intros u4 rn4 i4 (H1 & H2 & H3). split; [exact H1|]. split; [rewrite H2; unfold rn0; destruct rn; reflexivity|].
    rewrite app_nil_r in H3. erewrite sp_enter_unfold by eauto. rewrite <- H3.
    f_equal. f_equal. unfold rn0. destruct rn; reflexivity. }
  cbn beta. intros u3 rn3 i3 (Hok3 & Hp3 & E3).
  eapply sim_bind; [apply (sim_modify val _ rn3 (fun _ rn4 i4 => rn4 = set_processing rn3 false /\ i4 = [])); auto|].
  cbn beta. intros u4 rn4 i4 (-> & ->).
  eapply sim_bind; [apply (sim_ret val tt (set_processing rn3 false) (fun _ rn5 i5 => rn5 = set_processing rn3 false /\ i5 = [])); auto|].
  cbn beta. intros u5 rn5 i5 (-> & ->).
  eapply sim_conseq.
  { eapply (L_drain cf Hbe parents Hflat val false mc (kidsops mc) Hch Hcore fuel eq_refl ltac:(lia) evs fuel (set_processing rn3 false));
      [apply okL_set_processing; exact Hok3 | destruct rn3; reflexivity | lia | exact Hall]. }
  cbn beta. intros u6 rn6 i6 (Hok6 & E6). rewrite ?app_nil_l, ?app_nil_r. split; [exact Hok6|].
  rewrite abs_set_processing in E6. unfold sp_start, sp_start_obs.
  replace (c_set_act (abs rn) (m_inits mc)) with (abs rn0) by (unfold rn0; rewrite abs_set_processing, abs_set_act; reflexivity).
  destruct (sp_enter mc (Evt EV_INIT 0) (abs rn0)) as [items c1]. inversion E3 as [[Hi3 Ha3]].
  rewrite Ha3 in E6. rewrite Ha3. destruct (sp_drain pol mc val evs c1) as [i c'] eqn:Ed. inversion E6 as [[Hi6 Ha6]]. auto.
Qed.

End BackWhole.
