(* Lemmas_SpecFlags.v - is_flag_active as a function of the configuration, at every depth: for every definition (not
   only the core fragment) the engines' flag queries are the recursive functions below applied to the abstract
   configuration of the runtime tree. *)
From Msm Require Import Run Lemmas_Sim Spec Lemmas_Core Lemmas_SpecMp11 Lemmas_SpecRun.
From Coq Require Import Lia.

Lemma existsb_ext {A} (f g:A -> bool) l : (forall x, f x = g x) -> existsb f l = existsb g l.
Proof. intros H. induction l as [|x t IH]; cbn; [reflexivity|]. rewrite H, IH. reflexivity. Qed.
Lemma forallb_ext {A} (f g:A -> bool) l : (forall x, f x = g x) -> forallb f l = forallb g l.
Proof. intros H. induction l as [|x t IH]; cbn; [reflexivity|]. rewrite H, IH. reflexivity. Qed.

(* OR: some active state, at any depth, carries the flag *)
Fixpoint sp_flag_or (mc:machine) {struct mc} : conf -> nat -> bool :=
  let subs := map (fun st => match s_sub st with Some m => Some (sp_flag_or m) | None => None end) (m_states mc) in
  fun c f => existsb (fun s => memb f (s_flags (get_state mc s)) ||
                               match nth s subs None, nth s (c_kids c) None with
                               | Some g, Some k => g k f
                               | _, _ => false
                               end) (c_act c).
(* AND, back / back11: in every region of the machine asked, the active state carries the flag or is a submachine in
   which some active state does (the submachine is asked with OR) *)
Definition sp_flag_and_back (mc:machine) (c:conf) (f:nat) : bool :=
  forallb (fun s => memb f (s_flags (get_state mc s)) ||
                    match s_sub (get_state mc s), nth s (c_kids c) None with
                    | Some m, Some k => sp_flag_or m k f
                    | _, _ => false
                    end) (c_act c).
(* AND, backmp11: every active state at every depth - submachine states included - carries the flag *)
Fixpoint sp_flag_and_mp11 (mc:machine) {struct mc} : conf -> nat -> bool :=
  let subs := map (fun st => match s_sub st with Some m => Some (sp_flag_and_mp11 m) | None => None end) (m_states mc) in
  fun c f => forallb (fun s => memb f (s_flags (get_state mc s)) &&
                               match nth s subs None, nth s (c_kids c) None with
                               | Some g, Some k => g k f
                               | _, _ => true
                               end) (c_act c).

Lemma sp_flag_or_unfold mc c f :
  sp_flag_or mc c f = existsb (fun s => memb f (s_flags (get_state mc s)) ||
                                        match s_sub (get_state mc s), nth s (c_kids c) None with
                                        | Some m, Some k => sp_flag_or m k f
                                        | _, _ => false
                                        end) (c_act c).
Proof.
  destruct mc as [states inits rows irows hist]. cbn [sp_flag_or m_states]. apply existsb_ext. intros s. f_equal.
  rewrite nth_map_sub. unfold get_state. cbn [m_states]. destruct (s_sub (nth s states dummy_state)); reflexivity.
Qed.
Lemma sp_flag_and_mp11_unfold mc c f :
  sp_flag_and_mp11 mc c f = forallb (fun s => memb f (s_flags (get_state mc s)) &&
                                        match s_sub (get_state mc s), nth s (c_kids c) None with
                                        | Some m, Some k => sp_flag_and_mp11 m k f
                                        | _, _ => true
                                        end) (c_act c).
Proof.
  destruct mc as [states inits rows irows hist]. cbn [sp_flag_and_mp11 m_states]. apply forallb_ext. intros s. f_equal.
  rewrite nth_map_sub. unfold get_state. cbn [m_states]. destruct (s_sub (nth s states dummy_state)); reflexivity.
Qed.

(* ---- back / back11 (both compile policies): no hypothesis on the tree at all ---- *)
Section BackFlags.
Variable cf : cfg.
Hypothesis Hbe : c_be cf <> Mp11.
Variable parents : list (option nat).

Lemma build_back' mc contained : build cf parents contained mc =
  back_ops cf parents contained mc (map (fun st => match s_sub st with Some c => Some (build cf parents true c) | None => None end) (m_states mc)).
Proof. destruct mc. unfold build; fold build. destruct (c_be cf); try reflexivity. contradiction. Qed.

Theorem back_flag_or_spec : forall mc contained rn f,
  co_flag_or (build cf parents contained mc) rn f = sp_flag_or mc (abs rn) f.
Proof.
  intros mc. induction mc as [mc IH] using machine_sub_ind. intros contained rn f.
  rewrite build_back', sp_flag_or_unfold. cbn [back_ops co_flag_or]. unfold back_flag_or. rewrite abs_act.
  apply existsb_ext. intros s. unfold flag_entry, has_flag, child. f_equal. rewrite nth_map_sub, abs_kid. fold (get_state mc s).
  destruct (s_sub (get_state mc s)) as [c|] eqn:Es; [|reflexivity].
  destruct (nth s (kids rn) None) as [kn|]; [|reflexivity]. cbn [option_map]. apply (IH s c Es).
Qed.

Theorem back_flag_and_spec : forall mc contained rn f,
  co_flag_and (build cf parents contained mc) rn f = sp_flag_and_back mc (abs rn) f.
Proof.
  intros mc contained rn f. rewrite build_back'. cbn [back_ops co_flag_and]. unfold back_flag_and, sp_flag_and_back. rewrite abs_act.
  apply forallb_ext. intros s. unfold flag_entry, has_flag, child. f_equal. rewrite nth_map_sub, abs_kid. fold (get_state mc s).
  destruct (s_sub (get_state mc s)) as [c|] eqn:Es; [|reflexivity].
  destruct (nth s (kids rn) None) as [kn|]; [|reflexivity]. cbn [option_map]. apply back_flag_or_spec.
Qed.
End BackFlags.

(* ---- backmp11: a machine that is not running is not traversed; started machines whose active submachine states
        have been entered (the invariant of every history, Lemmas_SpecMp11.okm) answer the specification ---- *)
Fixpoint runs (mc:machine) {struct mc} : rnode -> Prop :=
  let subs := map (fun st => match s_sub st with Some c => Some (runs c) | None => None end) (m_states mc) in
  fun rn => running rn = true /\
            forall s, In s (act rn) -> match nth s subs None, nth s (kids rn) None with
                                       | Some p, Some kn => p kn
                                       | _, _ => True
                                       end.
Lemma runs_unfold mc rn :
  runs mc rn <-> running rn = true /\
                 forall s, In s (act rn) -> match s_sub (get_state mc s), nth s (kids rn) None with
                                            | Some c, Some kn => runs c kn
                                            | _, _ => True
                                            end.
Proof.
  destruct mc as [states inits rows irows hist]. cbn [runs m_states].
  split; intros (H1 & H2); (split; [exact H1|]); intros s Hs; specialize (H2 s Hs); rewrite nth_map_sub in *; unfold get_state in *; cbn [m_states] in *;
    destruct (s_sub (nth s states dummy_state)); exact H2.
Qed.

Section Mp11Flags.
Variable cf : cfg.
Hypothesis Hbe : c_be cf = Mp11.
Variable parents : list (option nat).

Lemma build_mp11' mc contained : build cf parents contained mc =
  mp11_ops cf parents contained mc (map (fun st => match s_sub st with Some c => Some (build cf parents true c) | None => None end) (m_states mc)).
Proof. destruct mc. unfold build; fold build. rewrite Hbe. reflexivity. Qed.

Theorem mp11_flag_or_spec : forall mc contained rn f, runs mc rn ->
  co_flag_or (build cf parents contained mc) rn f = sp_flag_or mc (abs rn) f.
Proof.
  intros mc. induction mc as [mc IH] using machine_sub_ind. intros contained rn f Hr. apply runs_unfold in Hr. destruct Hr as (Hr & Hk).
  rewrite build_mp11', sp_flag_or_unfold. cbn [mp11_ops co_flag_or]. unfold mflag_or, active_any. rewrite Hr, abs_act. cbn [andb].
  revert Hk. generalize (act rn) as l. induction l as [|s l IHl]; intros Hk; [reflexivity|]. cbn [existsb].
  rewrite IHl by (intros s' Hs'; apply Hk; right; exact Hs'). f_equal.
  unfold mchild. f_equal. rewrite nth_map_sub, abs_kid. fold (get_state mc s). specialize (Hk s (or_introl eq_refl)).
  destruct (s_sub (get_state mc s)) as [c|] eqn:Es; [|reflexivity].
  destruct (nth s (kids rn) None) as [kn|]; [|reflexivity]. cbn [option_map]. apply (IH s c Es). exact Hk.
Qed.

Theorem mp11_flag_and_spec : forall mc contained rn f, runs mc rn ->
  co_flag_and (build cf parents contained mc) rn f = sp_flag_and_mp11 mc (abs rn) f.
Proof.
  intros mc. induction mc as [mc IH] using machine_sub_ind. intros contained rn f Hr. apply runs_unfold in Hr. destruct Hr as (Hr & Hk).
  rewrite build_mp11', sp_flag_and_mp11_unfold. cbn [mp11_ops co_flag_and]. unfold mflag_and. rewrite Hr, abs_act. cbn [negb orb].
  revert Hk. generalize (act rn) as l. induction l as [|s l IHl]; intros Hk; [reflexivity|]. cbn [forallb].
  rewrite IHl by (intros s' Hs'; apply Hk; right; exact Hs'). f_equal.
  unfold mchild. f_equal. rewrite nth_map_sub, abs_kid. fold (get_state mc s). specialize (Hk s (or_introl eq_refl)).
  destruct (s_sub (get_state mc s)) as [c|] eqn:Es; [|reflexivity].
  destruct (nth s (kids rn) None) as [kn|]; [|reflexivity]. cbn [option_map]. apply (IH s c Es). exact Hk.
Qed.

(* a machine that is not running answers OR with false and AND with true, whatever its tree holds *)
Theorem mp11_flags_stopped : forall mc contained rn f, running rn = false ->
  co_flag_or (build cf parents contained mc) rn f = false /\ co_flag_and (build cf parents contained mc) rn f = true.
Proof.
  intros mc contained rn f Hr. rewrite build_mp11'. cbn [mp11_ops co_flag_or co_flag_and]. unfold mflag_or, mflag_and, active_any.
  rewrite Hr. split; reflexivity.
Qed.
End Mp11Flags.

(* the invariant of every history gives `runs` *)
Lemma okm_runs : forall mc rn, okm mc rn -> running rn = true -> runs mc rn.
Proof.
  intros mc. induction mc as [mc IH] using machine_sub_ind. intros rn Hok Hr. apply runs_unfold. split; [exact Hr|].
  apply okm_unfold in Hok. destruct Hok as (HokL & _ & Har). specialize (Har Hr). intros s Hs.
  destruct (s_sub (get_state mc s)) as [c|] eqn:Es; [|exact I].
  destruct (okmL_kid mc rn s c HokL Es) as (kn & Ek & Hokk). rewrite Ek. apply (IH s c Es kn Hokk).
  destruct (In_nth _ _ 0 Hs) as (r & Hlt & Er). specialize (Har r Hlt). rewrite Er in Har. unfold kid_running in Har. rewrite Ek in Har. exact Har.
Qed.

(* ---- after every history ---- *)
Fixpoint final_rn (cf:cfg) (root:machine) (ops:child_ops) (fuel:nat) (rn:rnode) (l:list op) : rnode :=
  match l with [] => rn | o :: t => final_rn cf root ops fuel (fst (run_op cf root ops fuel rn o)) t end.
Fixpoint sp_final (stale:bool) (pol:nat) (mc:machine) (c:conf) (l:list op) : conf :=
  match l with [] => c | o :: t => sp_final stale pol mc (snd (sp_op_gen stale pol mc o c)) t end.
Fixpoint ends_started (started:bool) (l:list op) : bool :=
  match l with [] => started | OStart _ _ :: t => ends_started true t | OStop _ :: t => ends_started false t | _ :: t => ends_started started t end.

Section Mp11Final.
Variable cf : cfg.
Hypothesis Hbe : c_be cf = Mp11.
Variable parents : list (option nat).
Hypothesis Hflat : forall e, nth e parents None = None.
Hypothesis Hresets : mp11_entry_throw_resets = true.
Variable root : machine.
Hypothesis Hcore : core root.
Hypothesis Hnohist : m_hist root = HNone.
Variable fuel : nat.
Hypothesis Hfuel : depth root + 2 <= fuel.

Theorem mp11_final : forall l rn started, bracketed started l -> okm root rn -> running rn = started ->
  let rn' := final_rn cf root (build cf parents false root) fuel rn l in
  okm root rn' /\ running rn' = ends_started started l /\ abs rn' = sp_final true (c_pol cf) root (abs rn) l.
Proof.
  induction l as [|o t IH]; intros rn started Hb Hok Hrun; cbn [final_rn sp_final ends_started]; [auto|].
  cbn in Hb. destruct o as [val plan|plan|e val plan| | | | | | | | |]; try contradiction.
  - destruct plan; [|contradiction]. destruct started; [contradiction|]. cbn [run_op sp_op_gen]. rewrite abs_act.
    destruct (msim_run_m _ rn val _ (mp11_start cf Hbe parents Hflat val Hresets root Hcore Hnohist fuel rn Hok Hrun ltac:(lia)))
      as (rn' & items & E & Hok' & Hr' & Hs).
    rewrite E. rewrite <- Hs. cbn [fst snd]. eapply IH; eauto.
  - destruct plan; [|contradiction]. destruct started; [|contradiction]. cbn [run_op sp_op_gen].
    destruct (msim_run_m _ rn [] _ (mp11_stop cf Hbe parents Hflat [] Hresets root Hcore fuel rn Hok Hrun))
      as (rn' & items & E & Hok' & Hr' & Hs).
    rewrite E. rewrite <- Hs. cbn [fst snd]. eapply IH; eauto.
  - destruct plan; [|contradiction]. destruct started; [|contradiction]. destruct Hb as (He & Hb). cbn [run_op sp_op_gen].
    pose proof (mp11_process_event cf Hbe parents Hflat val Hresets root Hcore fuel e rn Hok Hrun Hfuel He) as Hs.
    destruct (Hs (Glob [] 0 [] val [] 0)) as (code & rn' & items & E & Hok' & Hr' & Hi & Hc & Hcode).
    { repeat split. }
    unfold run_m, bind, direct_code. rewrite Hbe. rewrite E. cbn [fst snd]. rewrite <- Hc. eapply IH; eauto.
Qed.

(* hence: what is_flag_active answers after any history is the flag function of the specified configuration *)
Theorem mp11_flags_after_history : forall l f, bracketed false l -> ends_started false l = true ->
  let rn' := final_rn cf root (build cf parents false root) fuel (init_rnode root) l in
  let c' := sp_final true (c_pol cf) root (abs (init_rnode root)) l in
  co_flag_or (build cf parents false root) rn' f = sp_flag_or root c' f /\
  co_flag_and (build cf parents false root) rn' f = sp_flag_and_mp11 root c' f.
Proof.
  intros l f Hb He. cbn zeta.
  destruct (mp11_final l (init_rnode root) false Hb (okm_init root)) as (Hok & Hr & Ha); [destruct root; reflexivity|].
  rewrite He in Hr. pose proof (okm_runs root _ Hok Hr) as Hruns. rewrite <- Ha.
  split; [apply mp11_flag_or_spec | apply mp11_flag_and_spec]; assumption.
Qed.
End Mp11Final.

Section BackFinal.
Variable cf : cfg.
Hypothesis Hbe : c_be cf = Back.
Variable parents : list (option nat).
Hypothesis Hflat : forall e, nth e parents None = None.
Hypothesis Hstartq : back_start_queues = true.
Variable root : machine.
Hypothesis Hcore : core root.
Variable fuel : nat.
Hypothesis Hfuel : depth root + 2 <= fuel.

Theorem back_final : forall l rn, Forall plain_op l -> ok root rn ->
  let rn' := final_rn cf root (build cf parents false root) fuel rn l in
  ok root rn' /\ abs rn' = sp_final false (c_pol cf) root (abs rn) l.
Proof.
  induction l as [|o t IH]; intros rn Hall Hok; cbn [final_rn sp_final]; [auto|].
  inversion Hall as [|? ? Ho Ht]; subst.
  pose proof (back_run_op cf Hbe parents Hflat Hstartq root Hcore fuel Hfuel o rn Ho Hok) as H.
  destruct (run_op cf root (build cf parents false root) fuel rn o) as [rn' tr]. destruct H as (Hok' & Hres).
  destruct (sp_op_gen false (c_pol cf) root o (abs rn)) as [[items out] c'] eqn:Eo. cbn in Hres. destruct Hres as (Hc & _).
  cbn [fst snd]. rewrite <- Hc. apply IH; assumption.
Qed.

Theorem back_flags_after_history : forall l f, Forall plain_op l ->
  let rn' := final_rn cf root (build cf parents false root) fuel (init_rnode root) l in
  let c' := sp_final false (c_pol cf) root (abs (init_rnode root)) l in
  co_flag_or (build cf parents false root) rn' f = sp_flag_or root c' f /\
  co_flag_and (build cf parents false root) rn' f = sp_flag_and_back root c' f.
Proof.
  intros l f Hall. cbn zeta. destruct (back_final l (init_rnode root) Hall (ok_init root)) as (_ & Ha). rewrite <- Ha.
  assert (Hne : c_be cf <> Mp11) by (rewrite Hbe; discriminate).
  split; [apply back_flag_or_spec | apply back_flag_and_spec]; assumption.
Qed.
End BackFinal.
