(* Lemmas_SpecInv.v - configuration integrity as an invariant of the specification function: in every configuration
   reachable by any history, at every nesting depth and for active and inactive submachines alike, every region has
   exactly one slot and the state in it belongs to that region; the history memory likewise.  Stated for every
   definition whose rows stay inside their source's region (wfz) - not only the core fragment.  By Lemmas_SpecRun the
   engines' runtime trees abstract to such configurations after every history on the core fragment. *)
From Msm Require Import Run Lemmas_Sim Spec Lemmas_Core Lemmas_SpecMp11 Lemmas_SpecRun Lemmas_SpecProps Lemmas_SpecFlags.
From Coq Require Import Lia.

Lemma sp_exit_unf mc ev c :
  sp_exit mc ev c = fold_left (fun acc r => sp_exit_state (sp_exit_subs mc) ev (nth r (c_act (snd acc)) 0) acc) (seqn 0 (m_nreg mc)) ([], c).
Proof. destruct mc; reflexivity. Qed.
Lemma sp_enter_unf mc ev c :
  sp_enter mc ev c = fold_left (fun acc r => sp_enter_state (sp_enter_subs mc) ev (nth r (c_act (snd acc)) 0) acc) (seqn 0 (m_nreg mc)) ([], c).
Proof. destruct mc; reflexivity. Qed.

Definition zone_of (mc:machine) (s:nat) : nat := s_zone (get_state mc s).
Definition in_region (mc:machine) (r s:nat) : Prop := s < length (m_states mc) /\ zone_of mc s = r.
Definition slots_ok (mc:machine) (a:list nat) : Prop :=
  length a = m_nreg mc /\ forall r, r < m_nreg mc -> in_region mc r (nth r a 0).
Definition no_target (x:row) : Prop := tgt_state (r_tgt x) = None.
Definition stays_in_region (mc:machine) (x:row) : Prop :=
  match tgt_state (r_tgt x) with
  | Some t => t < length (m_states mc) /\ zone_of mc t = zone_of mc (r_src x)
  | None => True
  end.

Definition wf_level (mc:machine) : Prop :=
  slots_ok mc (m_inits mc) /\ Forall (stays_in_region mc) (m_rows mc) /\ Forall no_target (m_irows mc) /\
  forall s, Forall no_target (s_irows (get_state mc s)).
Fixpoint wfz (mc:machine) {struct mc} : Prop :=
  wf_level mc /\
  (fix all (l:list state) : Prop :=
     match l with
     | [] => True
     | st :: t => match s_sub st with Some m => wfz m | None => True end /\ all t
     end) (m_states mc).
Lemma wfz_level mc : wfz mc -> wf_level mc. Proof. destruct mc; cbn. tauto. Qed.
Lemma wfz_sub mc s m : wfz mc -> s_sub (get_state mc s) = Some m -> wfz m.
Proof.
  destruct mc as [states inits rows irows hist]. cbn [wfz m_states]. intros (_ & H). unfold get_state. cbn [m_states].
  revert s. induction states as [|st t IH]; intros s Hs.
  - destruct s; cbn in Hs; discriminate.
  - destruct H as (Hst & Ht). destruct s as [|s]; cbn [nth] in Hs.
    + rewrite Hs in Hst. exact Hst.
    + apply (IH Ht s Hs).
Qed.

Fixpoint inv (mc:machine) {struct mc} : conf -> Prop :=
  let subs := map (fun st => match s_sub st with Some m => Some (inv m) | None => None end) (m_states mc) in
  fun c => slots_ok mc (c_act c) /\ slots_ok mc (c_hist c) /\
           forall s, match nth s subs None, nth s (c_kids c) None with Some p, Some k => p k | _, _ => True end.
Lemma inv_unfold mc c :
  inv mc c <-> slots_ok mc (c_act c) /\ slots_ok mc (c_hist c) /\
               forall s m k, s_sub (get_state mc s) = Some m -> nth s (c_kids c) None = Some k -> inv m k.
Proof.
  destruct mc as [states inits rows irows hist]. cbn [inv m_states]. unfold get_state. cbn [m_states].
  split; intros (A & B & C); (split; [exact A|]); (split; [exact B|]).
  - intros s m k Hs Hk. specialize (C s). rewrite nth_map_sub, Hs, Hk in C. exact C.
  - intros s. rewrite nth_map_sub. destruct (s_sub (nth s states dummy_state)) as [m|] eqn:Es; [|exact I].
    destruct (nth s (c_kids c) None) as [k|] eqn:Ek; [|exact I]. eapply C; eauto.
Qed.

(* the fresh object *)
Lemma inv_init : forall mc, wfz mc -> inv mc (abs (init_rnode mc)).
Proof.
  intros mc. induction mc as [mc IH] using machine_sub_ind. intros Hwf. apply inv_unfold.
  pose proof (wfz_level mc Hwf) as (Hi & _).
  destruct mc as [states inits rows irows hist]. cbn [init_rnode]. rewrite abs_act, abs_hist. cbn [act Syntax.hist m_inits] in *.
  split; [exact Hi|]. split; [exact Hi|]. intros s m k Hs Hk. rewrite abs_kid in Hk. cbn [kids] in Hk.
  cbn [m_states] in Hk. rewrite nth_map_sub in Hk. pose proof Hs as Hs'. unfold get_state in Hs'. cbn [m_states] in Hs'. rewrite Hs' in Hk.
  cbn in Hk. inversion Hk; subst.
  apply (IH s m); [exact Hs|]. eapply wfz_sub; eauto.
Qed.

Lemma slots_upd mc a r x : slots_ok mc a -> in_region mc r x -> slots_ok mc (upd a r x).
Proof.
  intros (L & H) Hx. split; [rewrite upd_length; exact L|]. intros r' Hr'.
  destruct (Nat.eq_dec r r') as [->|Hne].
  - rewrite nth_upd_eq by lia. exact Hx.
  - rewrite nth_upd_neq by exact Hne. apply H. exact Hr'.
Qed.

Section Level.
Variable mc : machine.
Hypothesis Hwf : wfz mc.
(* the submachines keep their invariant when they are left, entered and offered an event *)
Variable pol : nat.
Hypothesis IHexit : forall s m, s_sub (get_state mc s) = Some m -> forall ev k, inv m k -> inv m (sp_post_exit m (snd (sp_exit m ev k))).
Hypothesis IHenter : forall s m, s_sub (get_state mc s) = Some m -> forall ev k, inv m k ->
  inv m (snd (sp_enter m ev (c_set_act k (sp_hist_entry m k (e_ty ev))))).
Hypothesis IHlevel : forall s m, s_sub (get_state mc s) = Some m -> forall ev val k, inv m k -> inv m (o_conf (sp_level pol m ev val k)).

Lemma inv_set_act c a : inv mc c -> slots_ok mc a -> inv mc (c_set_act c a).
Proof. rewrite !inv_unfold. destruct c as [a0 ks h]. cbn. tauto. Qed.
Lemma inv_set_slot c r x : inv mc c -> in_region mc r x -> inv mc (c_set_slot c r x).
Proof. intros H Hx. apply inv_set_act; [exact H|]. apply slots_upd; [|exact Hx]. apply inv_unfold in H. tauto. Qed.
Lemma inv_set_kid c s m k : inv mc c -> s_sub (get_state mc s) = Some m -> inv m k -> inv mc (c_set_kid c s k).
Proof.
  rewrite !inv_unfold. destruct c as [a ks h]. cbn [c_set_kid c_act c_hist c_kids]. intros (A & B & C) Hs Hk.
  split; [exact A|]. split; [exact B|]. intros s' m' k' Hs' Hk'.
  destruct (Nat.eq_dec s s') as [->|Hne].
  - destruct (nth s' ks None) as [k0|] eqn:E0.
    + rewrite (nth_upd_some ks s' k k0 E0) in Hk'. inversion Hk'; subst. rewrite Hs in Hs'. inversion Hs'; subst. apply inv_unfold; exact Hk.
    + assert (nth s' (upd ks s' (Some k)) None = None \/ nth s' (upd ks s' (Some k)) None = Some k).
      { clear -E0. revert s' E0. induction ks as [|x t IH]; intros [|s'] E0; cbn in *; auto. }
      destruct H as [H|H]; rewrite H in Hk'; [discriminate|]. inversion Hk'; subst. rewrite Hs in Hs'. inversion Hs'; subst. apply inv_unfold; exact Hk.
  - rewrite nth_upd_neq in Hk' by exact Hne. eapply C; eauto.
Qed.

Lemma exit_subs_nth s : nth s (sp_exit_subs mc) None =
  match s_sub (get_state mc s) with Some m => Some (fun ev k => let '(it, k1) := sp_exit m ev k in (it, sp_post_exit m k1)) | None => None end.
Proof. unfold sp_exit_subs. apply nth_map_sub. Qed.
Lemma enter_subs_nth s : nth s (sp_enter_subs mc) None =
  match s_sub (get_state mc s) with Some m => Some (m, sp_enter m) | None => None end.
Proof. unfold sp_enter_subs. apply nth_map_sub. Qed.

Lemma exit_state_inv ev s items c : inv mc c -> inv mc (snd (sp_exit_state (sp_exit_subs mc) ev s (items, c))).
Proof.
  intros H. unfold sp_exit_state. rewrite exit_subs_nth.
  destruct (s_sub (get_state mc s)) as [m|] eqn:Es; [|exact H].
  destruct (nth s (c_kids c) None) as [k|] eqn:Ek; [|exact H].
  pose proof (IHexit s m Es ev k) as Hk. destruct (sp_exit m ev k) as [it k1]. cbn [snd] in *.
  eapply inv_set_kid; eauto. apply Hk. apply inv_unfold in H. destruct H as (_ & _ & C). eapply C; eauto.
Qed.
Lemma enter_state_inv ev s items c : inv mc c -> inv mc (snd (sp_enter_state (sp_enter_subs mc) ev s (items, c))).
Proof.
  intros H. unfold sp_enter_state. rewrite enter_subs_nth.
  destruct (s_sub (get_state mc s)) as [m|] eqn:Es; [|exact H].
  destruct (nth s (c_kids c) None) as [k|] eqn:Ek; [|exact H].
  pose proof (IHenter s m Es ev k) as Hk. destruct (sp_enter m ev (c_set_act k (sp_hist_entry m k (e_ty ev)))) as [it k1]. cbn [snd] in *.
  eapply inv_set_kid; eauto. apply Hk. apply inv_unfold in H. destruct H as (_ & _ & C). eapply C; eauto.
Qed.

(* a row that may be taken in region r of configuration c *)
Definition row_fits (r:nat) (c:conf) (x:row) : Prop :=
  no_target x \/ (r < m_nreg mc /\ r_src x = nth r (c_act c) 0 /\ stays_in_region mc x).

Lemma policy_slot p ph cur nxt : switch_id p ph cur nxt = cur \/ switch_id p ph cur nxt = nxt.
Proof. unfold switch_id. destruct (policy_next p ph); auto. Qed.

Lemma take_inv r x ev c : inv mc c -> row_fits r c x -> inv mc (snd (sp_take pol mc r x ev c)).
Proof.
  intros H Hx. unfold sp_take. destruct (tgt_state (r_tgt x)) as [nxt|] eqn:Et; [|exact H].
  destruct Hx as [Hn|(Hr & Hsrc & Hst)]; [unfold no_target in Hn; congruence|].
  unfold stays_in_region in Hst. rewrite Et in Hst. destruct Hst as (Hlt & Hz).
  assert (Hcur : in_region mc r (r_src x)).
  { apply inv_unfold in H. destruct H as ((_ & A) & _). rewrite Hsrc. apply A. exact Hr. }
  assert (Hnxt : in_region mc r nxt) by (split; [exact Hlt | rewrite Hz; apply Hcur]).
  assert (Hsw : forall ph, in_region mc r (switch_id pol ph (r_src x) nxt)).
  { intros ph. destruct (policy_slot pol ph (r_src x) nxt) as [->| ->]; assumption. }
  set (c0 := c_set_slot c r (switch_id pol 0 (r_src x) nxt)).
  assert (H0 : inv mc c0) by (apply inv_set_slot; auto).
  pose proof (exit_state_inv ev (r_src x) [] c0 H0) as H1.
  destruct (sp_exit_state (sp_exit_subs mc) ev (r_src x) ([], c0)) as [i1 c1]. cbn [snd] in H1.
  assert (H3 : inv mc (c_set_slot (c_set_slot c1 r (switch_id pol 1 (r_src x) nxt)) r (switch_id pol 2 (r_src x) nxt))).
  { apply inv_set_slot; auto. apply inv_set_slot; auto. }
  pose proof (enter_state_inv ev nxt [] _ H3) as H4.
  destruct (sp_enter_state (sp_enter_subs mc) ev nxt ([], c_set_slot (c_set_slot c1 r (switch_id pol 1 (r_src x) nxt)) r (switch_id pol 2 (r_src x) nxt))) as [i3 c4].
  cbn [snd] in *. apply inv_set_slot; auto.
Qed.

Lemma rows_inv r ev val : forall l c, inv mc c -> Forall (row_fits r c) l -> inv mc (o_conf (sp_rows pol mc r ev val l c)).
Proof.
  induction l as [|x t IH]; intros c H Hall; cbn [sp_rows]; [exact H|]. inversion Hall as [|? ? Hx Ht]; subst.
  pose proof (take_inv r x ev c H Hx) as Hk. destruct (sp_take pol mc r x ev c) as [i c']. cbn [snd] in Hk.
  destruct (r_guard x); [destruct (memb (r_id x) val)|]; cbn [o_conf]; auto.
Qed.

Lemma candidates_fit r c : inv mc c -> r < m_nreg mc -> forall ety, Forall (row_fits r c) (sp_candidates mc (nth r (c_act c) 0) ety).
Proof.
  intros H Hr ety. pose proof (wfz_level mc Hwf) as (_ & Hrows & _ & Hsi). unfold sp_candidates. apply Forall_app. split.
  - destruct (is_sub mc (nth r (c_act c) 0)); [constructor|]. apply Forall_forall. intros x Hx. apply in_rev in Hx.
    apply filter_In in Hx. destruct Hx as (Hx & _). left. specialize (Hsi (nth r (c_act c) 0)). eapply Forall_forall in Hsi; eauto.
  - apply Forall_forall. intros x Hx. apply in_rev in Hx. apply filter_In in Hx. destruct Hx as (Hx & Hf).
    apply andb_true_iff in Hf. destruct Hf as (Hsrc & _). apply Nat.eqb_eq in Hsrc.
    right. split; [exact Hr|]. split; [exact Hsrc|]. eapply Forall_forall in Hrows; eauto.
Qed.

Lemma row_fits_set_kid r c s k x : row_fits r c x -> row_fits r (c_set_kid c s k) x.
Proof. unfold row_fits. destruct c; cbn. auto. Qed.

Lemma region_inv ev val r c : inv mc c -> r < m_nreg mc ->
  inv mc (o_conf (sp_region pol mc (sp_level_subs pol mc) ev val r c)).
Proof.
  intros H Hr. unfold sp_region. pose proof (candidates_fit r c H Hr (e_ty ev)) as Hc.
  unfold sp_level_subs. rewrite nth_map_sub. fold (get_state mc (nth r (c_act c) 0)).
  destruct (s_sub (get_state mc (nth r (c_act c) 0))) as [m|] eqn:Es; [|apply rows_inv; assumption].
  destruct (nth (nth r (c_act c) 0) (c_kids c) None) as [k|] eqn:Ek; [|apply rows_inv; assumption].
  assert (Hk : inv m k) by (apply inv_unfold in H; destruct H as (_ & _ & C); eapply C; eauto).
  pose proof (IHlevel _ m Es ev val k Hk) as Hk'.
  assert (H1 : inv mc (c_set_kid c (nth r (c_act c) 0) (o_conf (sp_level pol m ev val k)))) by (eapply inv_set_kid; eauto).
  destruct (o_taken (sp_level pol m ev val k)); cbn [o_conf]; [exact H1|].
  apply rows_inv; [exact H1|]. eapply Forall_impl; [|exact Hc]. intros x Hx. apply row_fits_set_kid. exact Hx.
Qed.

Lemma regions_inv ev val c : inv mc c -> inv mc (o_conf (sp_regions pol mc (sp_level_subs pol mc) ev val c)).
Proof.
  intros H. unfold sp_regions.
  assert (G : forall n r o, r + n <= m_nreg mc -> inv mc (o_conf o) ->
     inv mc (o_conf (fold_left (fun o r => let o' := sp_region pol mc (sp_level_subs pol mc) ev val r (o_conf o) in
                        Out (o_taken o || o_taken o') (o_rejected o || o_rejected o') (o_items o' ++ o_items o) (o_conf o'))
                       (seqn r n) o))).
  { induction n as [|n IH]; intros r o Hb Ho; cbn [seqn fold_left]; [exact Ho|]. apply IH; [lia|]. cbn [o_conf].
    apply region_inv; [exact Ho | lia]. }
  apply G; [lia | exact H].
Qed.

Lemma level_inv ev val c : inv mc c -> inv mc (o_conf (sp_level pol mc ev val c)).
Proof.
  intros H. rewrite Lemmas_SpecProps.sp_level_unfold. cbn zeta. pose proof (regions_inv ev val c H) as Hr.
  destruct (o_taken (sp_regions pol mc (sp_level_subs pol mc) ev val c)); [exact Hr|]. cbn [o_conf].
  apply rows_inv; [exact Hr|]. pose proof (wfz_level mc Hwf) as (_ & _ & Hir & _).
  apply Forall_forall. intros x Hx. apply in_rev in Hx. apply filter_In in Hx. destruct Hx as (Hx & _). left.
  eapply Forall_forall in Hir; eauto.
Qed.

Lemma exit_inv ev c : inv mc c -> inv mc (snd (sp_exit mc ev c)).
Proof.
  intros H. rewrite sp_exit_unf.
  assert (G : forall l acc, inv mc (snd acc) ->
     inv mc (snd (fold_left (fun acc r => sp_exit_state (sp_exit_subs mc) ev (nth r (c_act (snd acc)) 0) acc) l acc))).
  { induction l as [|r l IH]; intros acc Ha; cbn [fold_left]; [exact Ha|]. apply IH. destruct acc as [i c0]. apply exit_state_inv. exact Ha. }
  apply G. exact H.
Qed.
Lemma enter_inv ev c : inv mc c -> inv mc (snd (sp_enter mc ev c)).
Proof.
  intros H. rewrite sp_enter_unf.
  assert (G : forall l acc, inv mc (snd acc) ->
     inv mc (snd (fold_left (fun acc r => sp_enter_state (sp_enter_subs mc) ev (nth r (c_act (snd acc)) 0) acc) l acc))).
  { induction l as [|r l IH]; intros acc Ha; cbn [fold_left]; [exact Ha|]. apply IH. destruct acc as [i c0]. apply enter_state_inv. exact Ha. }
  apply G. exact H.
Qed.
Lemma post_exit_inv c : inv mc c -> inv mc (sp_post_exit mc c).
Proof.
  intros H. unfold sp_post_exit. destruct (m_hist mc); [exact H | |];
    (apply inv_unfold in H; destruct H as (A & B & C); apply inv_unfold; destruct c; cbn in *; auto).
Qed.
Lemma hist_entry_ok c ety : inv mc c -> slots_ok mc (sp_hist_entry mc c ety).
Proof.
  intros H. pose proof (wfz_level mc Hwf) as (Hi & _). apply inv_unfold in H. destruct H as (_ & B & _).
  unfold sp_hist_entry. destruct (m_hist mc) as [| |evs]; [exact Hi | exact B | destruct (memb ety evs); assumption].
Qed.
End Level.

(* ---- every machine of the definition tree ---- *)
Theorem inv_all pol : forall mc, wfz mc ->
  (forall ev k, inv mc k -> inv mc (sp_post_exit mc (snd (sp_exit mc ev k)))) /\
  (forall ev k, inv mc k -> inv mc (snd (sp_enter mc ev (c_set_act k (sp_hist_entry mc k (e_ty ev)))))) /\
  (forall ev val k, inv mc k -> inv mc (o_conf (sp_level pol mc ev val k))).
Proof.
  intros mc. induction mc as [mc IH] using machine_sub_ind. intros Hwf.
  assert (I1 : forall s m, s_sub (get_state mc s) = Some m -> forall ev k, inv m k -> inv m (sp_post_exit m (snd (sp_exit m ev k)))).
  { intros s m Hs. apply (IH s m Hs). eapply wfz_sub; eauto. }
  assert (I2 : forall s m, s_sub (get_state mc s) = Some m -> forall ev k, inv m k ->
                 inv m (snd (sp_enter m ev (c_set_act k (sp_hist_entry m k (e_ty ev)))))).
  { intros s m Hs. apply (IH s m Hs). eapply wfz_sub; eauto. }
  assert (I3 : forall s m, s_sub (get_state mc s) = Some m -> forall ev val k, inv m k -> inv m (o_conf (sp_level pol m ev val k))).
  { intros s m Hs. apply (IH s m Hs). eapply wfz_sub; eauto. }
  split; [|split].
  - intros ev k Hk. apply post_exit_inv. apply exit_inv; assumption.
  - intros ev k Hk. apply enter_inv; [assumption|]. apply inv_set_act; [exact Hk|]. apply hist_entry_ok; assumption.
  - intros ev val k Hk. eapply level_inv; eauto.
Qed.

Theorem sp_op_inv stale pol mc o c : wfz mc -> inv mc c -> inv mc (snd (sp_op_gen stale pol mc o c)).
Proof.
  intros Hwf H. destruct (inv_all pol mc Hwf) as (Hexit & Henter & Hlevel).
  assert (I1 : forall s m, s_sub (get_state mc s) = Some m -> forall ev k, inv m k -> inv m (sp_post_exit m (snd (sp_exit m ev k)))).
  { intros s m Hs. apply (inv_all pol m). eapply wfz_sub; eauto. }
  assert (I2 : forall s m, s_sub (get_state mc s) = Some m -> forall ev k, inv m k ->
                 inv m (snd (sp_enter m ev (c_set_act k (sp_hist_entry m k (e_ty ev)))))).
  { intros s m Hs. apply (inv_all pol m). eapply wfz_sub; eauto. }
  destruct o; cbn [sp_op_gen]; try exact H.
  - unfold sp_start_obs.
    pose proof (enter_inv mc I2 (Evt EV_INIT 0) (c_set_act c (m_inits mc))) as He.
    destruct (sp_enter mc (Evt EV_INIT 0) (c_set_act c (m_inits mc))) as [items cc]. cbn [snd] in *.
    apply He. apply inv_set_act; [exact H|]. apply (wfz_level mc Hwf).
  - unfold sp_stop. pose proof (exit_inv mc I1 (Evt EV_EXIT 0) c H) as He.
    destruct (sp_exit mc (Evt EV_EXIT 0) c) as [items c1]. cbn [snd] in *. apply post_exit_inv. exact He.
  - cbn [snd]. unfold sp_process. specialize (Hlevel e val c H).
    destruct (o_taken (sp_level pol mc e val c) || o_rejected (sp_level pol mc e val c)); exact Hlevel.
Qed.

Theorem sp_final_inv stale pol mc : wfz mc -> forall l c, inv mc c -> inv mc (sp_final stale pol mc c l).
Proof.
  intros Hwf. induction l as [|o t IH]; intros c H; cbn [sp_final]; [exact H|]. apply IH. apply sp_op_inv; assumption.
Qed.

(* the engines: after every history on a core definition whose rows stay inside their regions, the runtime tree's
   configuration has, at every depth, one active state per region and that state belongs to the region *)
Theorem back_integrity_after_history : forall cf, c_be cf = Back -> forall parents, (forall e, nth e parents None = None) ->
  back_start_queues = true -> forall root, core root -> wfz root -> forall fuel, depth root + 2 <= fuel -> forall l, Forall plain_op l ->
  inv root (abs (final_rn cf root (build cf parents false root) fuel (init_rnode root) l)).
Proof.
  intros cf Hbe parents Hflat Hq root Hcore Hwf fuel Hfuel l Hall.
  destruct (back_final cf Hbe parents Hflat Hq root Hcore fuel Hfuel l (init_rnode root) Hall (ok_init root)) as (_ & Ha).
  rewrite Ha. apply sp_final_inv; [exact Hwf|]. apply inv_init. exact Hwf.
Qed.
Theorem mp11_integrity_after_history : forall cf, c_be cf = Mp11 -> forall parents, (forall e, nth e parents None = None) ->
  mp11_entry_throw_resets = true -> forall root, core root -> m_hist root = HNone -> wfz root ->
  forall fuel, depth root + 2 <= fuel -> forall l, bracketed false l ->
  inv root (abs (final_rn cf root (build cf parents false root) fuel (init_rnode root) l)).
Proof.
  intros cf Hbe parents Hflat Hr root Hcore Hh Hwf fuel Hfuel l Hb.
  destruct (mp11_final cf Hbe parents Hflat Hr root Hcore Hh fuel Hfuel l (init_rnode root) false Hb (okm_init root)) as (_ & _ & Ha);
    [destruct root; reflexivity|].
  rewrite Ha. apply sp_final_inv; [exact Hwf|]. apply inv_init. exact Hwf.
Qed.

Lemma ex_core_wfz : wfz (md_root ex_core_md).
Proof.
  cbn. unfold wf_level, slots_ok, in_region, zone_of, stays_in_region, no_target. cbn.
  repeat match goal with
  | |- _ /\ _ => split
  | |- forall r, r < _ -> _ => intros r Hr; (do 3 (destruct r as [|r]; [cbn; try lia; auto|])); cbn; lia
  | |- forall s, Forall _ _ => intros s; do 7 (destruct s as [|s]; [cbn; repeat constructor|]); cbn; constructor
  | |- Forall _ _ => constructor
  | |- _ => first [lia | reflexivity | exact I | (cbn; split; [lia | reflexivity])]
  end.
Qed.
