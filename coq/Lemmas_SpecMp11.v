(* Lemmas_SpecMp11.v - backmp11 (favor_runtime_speed, both dispatch strategies, and favor_compile_time) refines the
   specification of Spec.v on the core fragment: same statement as Lemmas_SpecBack.v, for the other engine (event pool
   instead of two queues, visitors, history in the front-end, m_running). *)
From Msm Require Import Run Lemmas_C19 Lemmas_Rows Lemmas_Sim Spec Lemmas_Core Lemmas_Fifo.
From Coq Require Import Lia ZArith.

(* ---- quiet trees of backmp11 ---- *)
Definition kid_running (rn:rnode) (s:nat) : Prop :=
  match nth s (kids rn) None with Some kn => running kn = true | None => True end.
(* every active submachine state has been entered (its node is running) *)
Definition act_run (rn:rnode) : Prop := forall r, r < length (act rn) -> kid_running rn (nth r (act rn) 0).

Fixpoint okm (mc:machine) {struct mc} : rnode -> Prop :=
  let subs := map (fun st => match s_sub st with Some c => Some (okm c) | None => None end) (m_states mc) in
  fun rn => msgq rn = [] /\ processing rn = false /\ length (act rn) = m_nreg mc /\ length (hist rn) = m_nreg mc /\
            Forall2 slot_okP subs (kids rn) /\ (running rn = true -> act_run rn).
Definition okm_subs (mc:machine) : list (option (rnode -> Prop)) :=
  map (fun st => match s_sub st with Some c => Some (okm c) | None => None end) (m_states mc).
(* the level while it dispatches: its own marker may be set, the slot of the transitioning region is in flux *)
(* `q`: the content of the level's own pool and, when given, the value of its sequence counter *)
Definition seq_is (c:option Z) (rn:rnode) : Prop := match c with Some z => curseq rn = z | None => True end.
Definition okmLq (q:list qitem * option Z) (mc:machine) (rn:rnode) : Prop :=
  (msgq rn = fst q /\ seq_is (snd q) rn) /\ length (act rn) = m_nreg mc /\ length (hist rn) = m_nreg mc /\ Forall2 slot_okP (okm_subs mc) (kids rn).
Definition okmL (mc:machine) (rn:rnode) : Prop := okmLq ([], None) mc rn.

Lemma okm_unfold mc rn : okm mc rn <-> okmL mc rn /\ processing rn = false /\ (running rn = true -> act_run rn).
Proof. destruct mc; unfold okmL, okmLq, okm_subs, seq_is; cbn [okm m_states fst snd]. tauto. Qed.

Lemma okm_init : forall mc, okm mc (init_rnode mc).
Proof.
  fix IH 1. intros mc. apply okm_unfold. destruct mc as [states inits rows irows hist].
  unfold okmL, okmLq, okm_subs, m_nreg. cbn [m_states m_inits init_rnode kids msgq act Syntax.hist processing running].
  split; [|split; [reflexivity | discriminate]]. repeat split.
  induction states as [|st t IHt]; cbn [map]; constructor; auto.
  destruct st as [k sub si df fl z]. cbn. destruct sub as [c|]; cbn; auto.
Qed.

Lemma okmL_kid {q} mc rn s c : okmLq q mc rn -> s_sub (get_state mc s) = Some c -> exists kn, nth s (kids rn) None = Some kn /\ okm c kn.
Proof.
  intros (_ & _ & _ & H) Hs. unfold okm_subs, get_state in *.
  revert s Hs. generalize dependent (kids rn). generalize (m_states mc) as states.
  induction states as [|st t IH]; intros ks H s Hs.
  - destruct s; cbn in Hs; discriminate.
  - inversion H as [|o k subs ks' Hok Hrest]; subst. destruct s as [|s]; cbn in *.
    + rewrite Hs in Hok. destruct k as [kn|]; cbn in Hok; [|contradiction]. eauto.
    + eapply IH; eauto.
Qed.
Lemma okmL_nokid {q} mc rn s : okmLq q mc rn -> s_sub (get_state mc s) = None -> nth s (kids rn) None = None.
Proof.
  intros (_ & _ & _ & H) Hs. unfold okm_subs, get_state in *.
  revert s Hs. generalize dependent (kids rn). generalize (m_states mc) as states.
  induction states as [|st t IH]; intros ks H s Hs.
  - inversion H; subst. destruct s; reflexivity.
  - inversion H as [|o k subs ks' Hok Hrest]; subst. destruct s as [|s]; cbn in *.
    + rewrite Hs in Hok. destruct k; cbn in Hok; [contradiction | reflexivity].
    + eapply IH; eauto.
Qed.
Lemma okmL_set_kid {q} mc rn s c kn : okmLq q mc rn -> s_sub (get_state mc s) = Some c -> okm c kn ->
  okmLq q mc (set_kids rn (upd (kids rn) s (Some kn))).
Proof.
  intros (A & B & C & H) Hs Hk. pose proof (sub_in_range mc s c Hs) as Hlt.
  unfold okmLq. destruct rn as [a ks h q0 d cs p r]. cbn in *. split; [exact A|]. repeat split; auto.
  eapply Forall2P_upd; eauto. unfold okm_subs. rewrite nth_error_map.
  unfold get_state in Hs. rewrite (nth_error_nth' _ dummy_state Hlt). cbn. rewrite Hs. reflexivity.
Qed.
Lemma okmL_set_slot {q} mc rn r s : okmLq q mc rn -> okmLq q mc (set_act rn (upd (act rn) r s)).
Proof. destruct rn. unfold okmLq. cbn. rewrite upd_length. tauto. Qed.
Lemma okmL_set_processing {q} mc rn a : okmLq q mc rn -> okmLq q mc (set_processing rn a). Proof. destruct rn; exact (fun H => H). Qed.
Lemma okmL_set_curseq {l c} mc rn a : okmLq (l, c) mc rn -> okmLq (l, None) mc (set_curseq rn a).
Proof. destruct rn. unfold okmLq, seq_is. cbn. tauto. Qed.
Lemma okmL_set_curseq_to {l c} mc rn a : okmLq (l, c) mc rn -> okmLq (l, Some a) mc (set_curseq rn a).
Proof. destruct rn. unfold okmLq, seq_is. cbn. tauto. Qed.
Lemma okmL_set_msgq {l c} mc rn l' : okmLq (l, c) mc rn -> okmLq (l', c) mc (set_msgq rn l').
Proof. destruct rn. unfold okmLq, seq_is. cbn. tauto. Qed.
Lemma okmL_forget {l c} mc rn : okmLq (l, c) mc rn -> okmLq (l, None) mc rn.
Proof. unfold okmLq, seq_is. cbn. tauto. Qed.
Lemma okmL_seq {l c} mc rn : okmLq (l, Some c) mc rn -> curseq rn = c.
Proof. unfold okmLq, seq_is. cbn. tauto. Qed.
Lemma okmL_msgq {q} mc rn : okmLq q mc rn -> msgq rn = fst q.
Proof. unfold okmLq. tauto. Qed.
Lemma okmL_know {l} mc rn : okmLq (l, None) mc rn -> okmLq (l, Some (curseq rn)) mc rn.
Proof. unfold okmLq, seq_is. cbn. tauto. Qed.
Lemma okmL_set_running {q} mc rn a : okmLq q mc rn -> okmLq q mc (set_running rn a). Proof. destruct rn; exact (fun H => H). Qed.

(* a fold that re-reads the region's slot is the fold over the list of active ids when the steps leave it alone *)
Lemma fold_slots (f:nat -> sres -> sres) :
  (forall s acc, c_act (snd (f s acc)) = c_act (snd acc)) ->
  forall L n k acc, c_act (snd acc) = L -> k + n = length L ->
  fold_left (fun acc r => f (nth r (c_act (snd acc)) 0) acc) (seqn k n) acc = fold_left (fun acc s => f s acc) (skipn k L) acc.
Proof.
  intros Hf L. induction n as [|n IH]; intros k acc Ha Hk; cbn [seqn fold_left].
  - rewrite skipn_all2 by lia. reflexivity.
  - assert (Hlt : k < length L) by lia.
    assert (Es : skipn k L = nth k L 0 :: skipn (S k) L).
    { clear -Hlt. revert k Hlt. induction L as [|x L IHL]; intros [|k] H; cbn in *; try lia; auto. apply IHL. lia. }
    rewrite Es. cbn [fold_left]. rewrite Ha. apply IH; [rewrite Hf; exact Ha | lia].
Qed.
Lemma sp_exit_state_act subs ev s acc : c_act (snd (sp_exit_state subs ev s acc)) = c_act (snd acc).
Proof.
  unfold sp_exit_state. destruct acc as [items c]. destruct (nth s subs None) as [f|]; [|reflexivity].
  destruct (nth s (c_kids c) None) as [k|]; [|reflexivity]. destruct (f ev k). destruct c; reflexivity.
Qed.
Lemma sp_enter_state_act subs ev s acc : c_act (snd (sp_enter_state subs ev s acc)) = c_act (snd acc).
Proof.
  unfold sp_enter_state. destruct acc as [items c]. destruct (nth s subs None) as [[m f]|]; [|reflexivity].
  destruct (nth s (c_kids c) None) as [k|]; [|reflexivity]. destruct (f ev _). destruct c; reflexivity.
Qed.

(* ---- events stored in the level's own pool (enqueue_event from outside) ---- *)
Definition mkqm (s0:Z) (e:evt) : qitem := QEv e 0 s0 false.
(* a cell the single-step variant process_event_pool(1) leaves behind: dispatched, marked, not yet removed *)
Definition mhead (mk:option qitem) : list qitem := match mk with Some q => [q] | None => [] end.
Definition is_mk (mk:option qitem) : Prop := match mk with Some q => is_marked q = true | None => True end.
(* the sequence value s0 the stored occurrences carry stays apart from the next n values of the counter *)
Definition apart (s0 c:Z) (n:nat) : Prop := forall j, j < n -> ((s0 - (c + Z.of_nat j)) mod MW <> 0)%Z.

Lemma apart_now s0 c n : apart s0 c (S n) -> Z.eqb s0 c = false.
Proof.
  intros H. apply Z.eqb_neq. intros ->. apply (H 0); [lia|]. cbn [Z.of_nat]. rewrite Z.add_0_r, Z.sub_diag. reflexivity.
Qed.
Lemma apart_next s0 c n : apart s0 c (S n) -> apart s0 (wrap_mp11 (c + 1)) n.
Proof.
  intros H j Hj. rewrite wrap_mp11_mod. specialize (H (S j) ltac:(lia)).
  replace (s0 - ((c + 1) mod MW + Z.of_nat j))%Z with ((s0 - Z.of_nat j) - (c + 1) mod MW)%Z by lia.
  rewrite Zminus_mod_idemp_r. replace (s0 - Z.of_nat j - (c + 1))%Z with (s0 - (c + Z.of_nat (S j)))%Z by lia. exact H.
Qed.
Lemma apart_stored c n : (Z.of_nat n < MW)%Z -> apart (wrap_mp11 (c - 1)) c n.
Proof.
  intros Hn j Hj. rewrite wrap_mp11_mod.
  replace ((c - 1) mod MW - (c + Z.of_nat j))%Z with (- (c + Z.of_nat j) + (c - 1) mod MW)%Z by lia.
  rewrite Zplus_mod_idemp_r. replace (- (c + Z.of_nat j) + (c - 1))%Z with (- (Z.of_nat j + 1))%Z by lia.
  rewrite MW_val in *. intros E. apply Z_mod_zero_opp_full in E. rewrite Z.opp_involutive in E.
  rewrite Z.mod_small in E by lia. lia.
Qed.
Lemma apart_stored_next c n : (Z.of_nat n + 1 < MW)%Z -> apart (wrap_mp11 (c - 1)) (wrap_mp11 (c + 1)) n.
Proof. intros Hn. apply apart_next. apply apart_stored. lia. Qed.

Lemma code_not_deferred c h rj : code_ok c h rj -> Nat.eqb c HANDLED_DEFERRED = false /\ has_bits c HANDLED_DEFERRED = false.
Proof. unfold code_ok. destruct h; [intros [->| ->] | destruct rj; intros ->]; split; reflexivity. Qed.

Section Mp11Spec.
Variable cf : cfg.
Hypothesis Hbe : c_be cf = Mp11.
Variable parents : list (option nat).
Hypothesis Hflat : forall e, nth e parents None = None.
Variable val : list nat.
Notation pol := (c_pol cf).
Hypothesis Hresets : mp11_entry_throw_resets = true.

Record cspecm (c:machine) (co:child_ops) : Prop := {
  cm_exit_pre : forall fuel ev kn, okm c kn -> running kn = true ->
    sim val (co_exit_pre co fuel ev) kn (fun _ kn' items => okm c kn' /\ running kn' = true /\ (items, abs kn') = sp_exit c ev (abs kn));
  cm_exit_post : forall ev kn, okm c kn ->
    sim val (co_exit_post co ev) kn (fun _ kn' items => okm c kn' /\ running kn' = running kn /\ items = [] /\ abs kn' = sp_post_exit c (abs kn));
  cm_entry_pre : forall ev kn, okm c kn ->
    sim val (co_entry_pre co ev EkPlain) kn
        (fun _ kn' items => kn' = set_processing (set_running kn true) true /\ items = []);
  cm_entry_post : forall fuel ev kn, okm c kn -> 1 <= fuel ->
    sim val (co_entry_post co fuel ev EkPlain) (set_processing (set_running kn true) true)
        (fun _ kn' items => okm c kn' /\ running kn' = true /\
           (items, abs kn') = sp_enter c ev (c_set_act (abs kn) (sp_hist_entry c (abs kn) (e_ty ev))));
  cm_pei : forall fuel ev kn, okm c kn -> running kn = true -> depth c + 2 <= fuel -> e_ty ev <> EV_NONE ->
    sim val (co_pei co fuel ev INFO_SUBMACHINE) kn
        (fun code kn' items => okm c kn' /\ running kn' = true /\
           items = o_items (sp_level pol c ev val (abs kn)) /\ abs kn' = o_conf (sp_level pol c ev val (abs kn)) /\
           code_ok code (o_taken (sp_level pol c ev val (abs kn))) (o_rejected (sp_level pol c ev val (abs kn))));
  cm_silent : forall ev k, existsb (fun t => trig_matches parents true t (e_ty ev)) (co_trigs co) = false ->
    sp_level pol c ev val k = Out false false [] k;
  cm_defers : forall kn ety, co_defers co kn ety = false
}.

Variable contained : bool.
Variable mc : machine.
Variable children : list (option child_ops).
Hypothesis Hch : forall s, match s_sub (get_state mc s) with
                           | Some c => exists co, nth s children None = Some co /\ cspecm c co
                           | None => nth s children None = None
                           end.
Hypothesis Hcore : core mc.

Lemma mchild_some s c : s_sub (get_state mc s) = Some c -> exists co, mchild children s = Some co /\ cspecm c co.
Proof. intros H. specialize (Hch s). rewrite H in Hch. exact Hch. Qed.
Lemma mchild_none s : s_sub (get_state mc s) = None -> mchild children s = None.
Proof. intros H. specialize (Hch s). rewrite H in Hch. exact Hch. Qed.

Lemma sim_mabsorb rn (P:unit -> rnode -> list titem -> Prop) : P tt rn [] -> sim val (mabsorb_up contained) rn P.
Proof.
  intros H. unfold mabsorb_up. destruct contained; [apply sim_ret; exact H|].
  eapply sim_bind; [apply (sim_take_up val rn (fun a rn1 i1 => a = [] /\ rn1 = rn /\ i1 = [])); auto|].
  intros a rn1 i1 (-> & -> & ->). cbn [iterM]. apply sim_ret. exact H.
Qed.
Lemma sim_min_child {A} s (d:A) (m:M A) rn kn (Q:A -> rnode -> list titem -> Prop) :
  nth s (kids rn) None = Some kn -> sim val m kn Q ->
  sim val (min_child contained s d m) rn
      (fun a rn' items => exists kn' i, Q a kn' i /\ rn' = set_kids rn (upd (kids rn) s (Some kn')) /\ items = map (push_path s) i).
Proof.
  intros Hk Hm. unfold min_child.
  eapply sim_bind with (P := fun a rn' items => exists kn' i, Q a kn' i /\ rn' = set_kids rn (upd (kids rn) s (Some kn')) /\ items = map (push_path s) i).
  { eapply sim_lift; [exact Hk|]. eapply sim_conseq; [exact Hm|]. cbn beta. intros a kn' i HQ. exists kn', i. auto. }
  cbn beta. intros a rn1 i1 HP. eapply sim_bind; [apply (sim_mabsorb rn1 (fun _ rn2 i2 => rn2 = rn1 /\ i2 = [])); auto|].
  intros u rn2 i2 (-> & ->). apply sim_ret. cbn [app]. exact HP.
Qed.
Lemma sim_mcb_at path k id ev w rn :
  sim val (mcb_at cf mc children path k id ev w) rn (fun _ rn' items => rn' = rn /\ items = [Cb k path id ev w (act rn)]).
Proof. apply sim_callback_at. auto. Qed.
Lemma sim_mcb k id ev w rn :
  sim val (mcb cf mc children k id ev w) rn (fun _ rn' items => rn' = rn /\ items = [Cb k [] id ev w (act rn)]).
Proof. apply sim_callback_at. auto. Qed.

(* ---- leaving a state ---- *)
Lemma Lm_exit {q} fuel s ev rn : okmLq q mc rn -> kid_running rn s ->
  sim val (mexec_exit cf contained mc children fuel s ev) rn
      (fun _ rn' items => okmLq q mc rn' /\ processing rn' = processing rn /\ running rn' = running rn /\ act rn' = act rn /\
                          (forall s', kid_running rn s' -> kid_running rn' s') /\
                          (items, abs rn') = sp_exit_state (sp_exit_subs mc) ev s ([], abs rn)).
Proof.
  intros Hok Hrun. unfold mexec_exit, sp_exit_state. rewrite (exit_subs_nth mc), abs_kid.
  destruct (s_sub (get_state mc s)) as [c|] eqn:Es.
  - destruct (mchild_some s c Es) as (co & Hco & Hsp). rewrite Hco.
    destruct (okmL_kid mc rn s c Hok Es) as (kn & Hk & Hkn). rewrite Hk. cbn [option_map].
    unfold kid_running in Hrun. rewrite Hk in Hrun.
    eapply sim_bind.
    { eapply sim_min_child; [exact Hk|]. apply (cm_exit_pre c co Hsp fuel ev kn Hkn Hrun). }
    cbn beta. intros u rn1' i1' (kn1 & i1 & (Hkn1 & Hr1 & E1) & -> & ->).
    eapply sim_bind; [apply sim_mcb_at|].
    cbn beta. intros u2 rn2 i2 (-> & ->).
    set (rn1 := set_kids rn (upd (kids rn) s (Some kn1))) in *.
    assert (Hk1 : nth s (kids rn1) None = Some kn1).
    { unfold rn1. rewrite kids_set_kids. eapply nth_upd_some; eauto. }
    eapply sim_conseq.
    { eapply sim_min_child; [exact Hk1|]. apply (cm_exit_post c co Hsp ev kn1 Hkn1). }
    cbn beta. intros u3 rn3' i3' (kn2 & i3 & (Hkn2 & Hr2 & -> & E2) & -> & ->).
    destruct (sp_exit c ev (abs kn)) as [inner k1] eqn:Esp. injection E1 as <- <-.
    unfold rn1. rewrite kids_set_kids, upd_upd, set_kids_set_kids.
    split; [eapply okmL_set_kid; eauto|]. split; [apply processing_set_kids|].
    split; [destruct rn; reflexivity|]. split; [apply act_set_kids|]. split.
    + intros s' Hs'. unfold kid_running in *. rewrite kids_set_kids.
      destruct (Nat.eq_dec s' s) as [->|Hne].
      * rewrite (nth_upd_some _ _ _ _ Hk). congruence.
      * rewrite nth_upd_neq by congruence. exact Hs'.
    + cbn [map app]. rewrite app_nil_r. rewrite act_set_kids, abs_act, abs_set_kid, E2. reflexivity.
  - rewrite (mchild_none s Es).
    eapply sim_conseq; [apply sim_mcb|].
    cbn beta. intros u rn' i (-> & ->). rewrite abs_act. split; [exact Hok|]. repeat (split; [reflexivity|]). split; [auto|].
    destruct (option_map abs (nth s (kids rn) None)); reflexivity.
Qed.

(* ---- entering a state ---- *)
Lemma Lm_entry {q} fwd fuel s ev rn : okmLq q mc rn -> 1 <= fuel ->
  sim val (mexec_entry_gen cf contained mc children fwd fuel s ev EkPlain) rn
      (fun _ rn' items => okmLq q mc rn' /\ processing rn' = processing rn /\ running rn' = running rn /\ act rn' = act rn /\
                          kid_running rn' s /\ (forall s', kid_running rn s' -> kid_running rn' s') /\
                          (items, abs rn') = sp_enter_state (sp_enter_subs mc) ev s ([], abs rn)).
Proof.
  intros Hok Hfuel. unfold mexec_entry_gen, sp_enter_state. rewrite (enter_subs_nth mc), abs_kid.
  destruct (s_sub (get_state mc s)) as [c|] eqn:Es.
  - destruct (mchild_some s c Es) as (co & Hco & Hsp). rewrite Hco.
    destruct (okmL_kid mc rn s c Hok Es) as (kn & Hk & Hkn). rewrite Hk. cbn [option_map].
    rewrite Hresets. apply sim_on_throw.
    eapply sim_bind.
    { eapply sim_min_child; [exact Hk|]. apply (cm_entry_pre c co Hsp ev kn Hkn). }
    cbn beta. intros u rn1' i1' (kn1 & i1 & (-> & ->) & -> & ->).
    eapply sim_bind; [apply sim_mcb_at|].
    cbn beta. intros u2 rn2 i2 (-> & ->).
    set (kn1 := set_processing (set_running kn true) true) in *.
    set (rn1 := set_kids rn (upd (kids rn) s (Some kn1))) in *.
    assert (Hk1 : nth s (kids rn1) None = Some kn1).
    { unfold rn1. rewrite kids_set_kids. eapply nth_upd_some; eauto. }
    eapply sim_conseq.
    { eapply sim_min_child; [exact Hk1|]. apply (cm_entry_post c co Hsp fuel ev kn Hkn Hfuel). }
    cbn beta. intros u3 rn3' i3' (kn2 & i3 & (Hkn2 & Hr2 & E2) & -> & ->).
    destruct (sp_enter c ev (c_set_act (abs kn) (sp_hist_entry c (abs kn) (e_ty ev)))) as [inner k1] eqn:Esp.
    injection E2 as <- <-.
    unfold rn1. rewrite kids_set_kids, upd_upd, set_kids_set_kids.
    split; [eapply okmL_set_kid; eauto|]. split; [apply processing_set_kids|].
    split; [destruct rn; reflexivity|]. split; [apply act_set_kids|]. split; [|split].
    + unfold kid_running. rewrite kids_set_kids, (nth_upd_some _ _ _ _ Hk). exact Hr2.
    + intros s' Hs'. unfold kid_running in *. rewrite kids_set_kids.
      destruct (Nat.eq_dec s' s) as [->|Hne].
      * rewrite (nth_upd_some _ _ _ _ Hk). exact Hr2.
      * rewrite nth_upd_neq by congruence. exact Hs'.
    + cbn [map app]. rewrite app_nil_r. rewrite act_set_kids, abs_act, abs_set_kid. reflexivity.
  - rewrite (mchild_none s Es). rewrite (core_state_kind mc Hcore s Es).
    eapply sim_bind; [apply sim_mcb|]. cbn beta. intros u rn' i (-> & ->). apply sim_ret.
    rewrite abs_act, app_nil_l. split; [exact Hok|]. repeat (split; [reflexivity|]).
    split; [unfold kid_running; rewrite (okmL_nokid mc rn s Hok Es); exact I|]. split; [auto|].
    destruct (option_map abs (nth s (kids rn) None)); reflexivity.
Qed.


(* ---- one row ---- *)
Lemma sim_mrun_guard x ev rn :
  sim val (mrun_guard cf mc children x ev) rn
      (fun b rn' items => rn' = rn /\
         if r_guard x then b = memb (r_id x) val /\ items = [Cb (KGuard b) [] (r_id x) ev false (act rn)]
         else b = true /\ items = []).
Proof.
  unfold mrun_guard. destruct (r_guard x).
  - eapply sim_bind; [apply (sim_guard_value val (r_id x) rn (fun b rn1 i1 => b = memb (r_id x) val /\ rn1 = rn /\ i1 = [])); auto|].
    cbn beta. intros b rn1 i1 (-> & -> & ->).
    eapply sim_bind; [apply sim_mcb|]. cbn beta. intros u rn2 i2 (-> & ->). apply sim_ret. cbn. auto.
  - apply sim_ret. auto.
Qed.
Lemma sim_mrun_action x ev rn : r_act x <> ActDefer ->
  sim val (mrun_action cf mc children x ev) rn
      (fun code rn' items => rn' = rn /\ code = HANDLED_TRUE /\
         items = match r_act x with ActCall => [Cb KAction [] (r_id x) ev false (act rn)] | _ => [] end).
Proof.
  intros Hd. unfold mrun_action. destruct (r_act x); try congruence.
  - apply sim_ret. auto.
  - eapply sim_bind; [apply sim_mcb|]. cbn beta. intros u rn2 i2 (-> & ->). apply sim_ret. cbn. auto.
Qed.
Lemma sim_mset_act_at r s rn :
  sim val (set_act_at r s) rn (fun _ rn' items => rn' = set_act rn (upd (act rn) r s) /\ items = []).
Proof. unfold set_act_at. apply sim_modify. auto. Qed.

Lemma core_no_state_completion s : state_has_completion mc s = false.
Proof.
  unfold state_has_completion. eapply existsb_false_Forall; [apply (core_rows_good mc Hcore)|].
  intros x (_ & (e & He & _)). rewrite He. apply andb_false_r.
Qed.

Lemma kid_running_set_act rn a s : kid_running (set_act rn a) s <-> kid_running rn s.
Proof. unfold kid_running. destruct rn; reflexivity. Qed.

(* the level between two steps of its dispatch: shape, and every active submachine has been entered *)
Definition lvlq (q:list qitem * option Z) (rn:rnode) : Prop := okmLq q mc rn /\ act_run rn.
Notation lvl := (lvlq ([], None)).

Lemma Lm_take {q} fuel r x ev rn : lvlq q rn -> 1 <= fuel -> core_row' x ->
  (tgt_state (r_tgt x) <> None -> r_src x = nth r (act rn) 0 /\ r < length (act rn)) ->
  sim val (match tgt_state (r_tgt x) with
           | None => mrun_action cf mc children x ev
           | Some nxt =>
               set_act_at r (switch_id pol 0 (r_src x) nxt) ;;
               mexec_exit cf contained mc children fuel (r_src x) ev ;;
               set_act_at r (switch_id pol 1 (r_src x) nxt) ;;
               res <- mrun_action cf mc children x ev ;;
               set_act_at r (switch_id pol 2 (r_src x) nxt) ;;
               mexec_entry cf contained mc children fuel nxt ev (tgt_ekind (r_tgt x)) ;;
               set_act_at r (switch_id pol 3 (r_src x) nxt) ;;
               on_state_entry_completed mc nxt r ;;
               ret res
           end) rn
      (fun code rn' items => lvlq q rn' /\ processing rn' = processing rn /\ running rn' = running rn /\ code = HANDLED_TRUE /\
                             (items, abs rn') = sp_take pol mc r x ev (abs rn)).
Proof.
  intros (Hok & Hrun) Hfuel (Hd & _ & Htgt) Hsrc. unfold sp_take.
  destruct Htgt as [Ht | (t & Ht)]; rewrite Ht in *; cbn [tgt_state tgt_ekind] in *.
  - eapply sim_conseq; [apply sim_mrun_action; exact Hd|].
    cbn beta. intros code rn' items (-> & -> & ->). rewrite abs_act. split; [split; assumption|]. auto.
  - set (cur := r_src x) in *.
    destruct (Hsrc ltac:(discriminate)) as (Esrc & Hrlt).
    assert (Hcur : kid_running rn cur) by (rewrite Esrc; apply Hrun; exact Hrlt).
    eapply sim_bind; [apply sim_mset_act_at|]. cbn beta. intros u0 rn0 i0 (-> & ->).
    eapply sim_bind; [apply (Lm_exit (q:=q)); [apply okmL_set_slot; exact Hok | apply kid_running_set_act; exact Hcur]|].
    cbn beta. intros u1 rn1 i1 (Hok1 & Hp1 & Hr1 & Ha1 & Hk1 & E1).
    eapply sim_bind; [apply sim_mset_act_at|]. cbn beta. intros u2 rn2 i2 (-> & ->).
    eapply sim_bind; [apply sim_mrun_action; exact Hd|]. cbn beta. intros res rn3 i3 (-> & -> & ->).
    eapply sim_bind; [apply sim_mset_act_at|]. cbn beta. intros u4 rn4 i4 (-> & ->).
    eapply sim_bind; [apply (Lm_entry (q:=q)); [repeat apply okmL_set_slot; exact Hok1 | exact Hfuel]|].
    cbn beta. intros u5 rn5 i5 (Hok5 & Hp5 & Hr5 & Ha5 & Hkn5 & Hk5 & E5).
    eapply sim_bind; [apply sim_mset_act_at|]. cbn beta. intros u6 rn6 i6 (-> & ->).
    unfold on_state_entry_completed. rewrite core_no_state_completion, andb_false_r.
    eapply sim_bind; [apply (sim_ret val tt _ (fun _ rn7 i7 => rn7 = set_act rn5 (upd (act rn5) r (switch_id pol 3 cur t)) /\ i7 = [])); auto|].
    cbn beta. intros u7 rn7 i7 (-> & ->).
    apply sim_ret.
    rewrite abs_set_act_at in E1.
    destruct (sp_exit_state (sp_exit_subs mc) ev cur ([], c_set_slot (abs rn) r (switch_id pol 0 cur t))) as [j1 c1] eqn:X1.
    injection E1 as <- <-.
    rewrite !abs_set_act_at in E5.
    assert (Ea : act (set_act rn1 (upd (act rn1) r (switch_id pol 1 cur t))) = c_act (c_set_slot (abs rn1) r (switch_id pol 1 cur t))).
    { rewrite c_act_set_slot, abs_act. destruct rn1; reflexivity. }
    rewrite Ea.
    destruct (sp_enter_state (sp_enter_subs mc) ev t
                ([], c_set_slot (c_set_slot (abs rn1) r (switch_id pol 1 cur t)) r (switch_id pol 2 cur t))) as [j5 c5] eqn:X5.
    injection E5 as <- <-.
    (* every kid that was running still is, and the target's has been entered *)
    assert (Hall : forall s', kid_running rn s' -> kid_running rn5 s').
    { intros s' Hs'. apply Hk5. do 2 apply kid_running_set_act. apply Hk1. apply kid_running_set_act. exact Hs'. }
    split; [split|].
    + apply okmL_set_slot; exact Hok5.
    + intros r0 Hr0. apply kid_running_set_act.
      assert (Hact5 : act rn5 = upd (upd (upd (act rn) r (switch_id pol 0 cur t)) r (switch_id pol 1 cur t)) r (switch_id pol 2 cur t)).
      { rewrite Ha5. destruct rn1 as [a1 ? ? ? ? ? ? ?]. cbn in *. rewrite Ha1. destruct rn; reflexivity. }
      replace (act (set_act rn5 (upd (act rn5) r (switch_id pol 3 cur t)))) with (upd (act rn5) r (switch_id pol 3 cur t)) in * by (destruct rn5; reflexivity).
      rewrite Hact5, !upd_upd in *. rewrite upd_length in Hr0.
      destruct (Nat.eq_dec r0 r) as [->|Hne].
      * rewrite nth_upd_eq by exact Hrlt. unfold switch_id. destruct (policy_next pol 3); [exact Hkn5 | apply Hall; exact Hcur].
      * rewrite nth_upd_neq by congruence. apply Hall. apply Hrun. exact Hr0.
    + split; [destruct rn5, rn1, rn; cbn in *; congruence|]. split; [destruct rn5, rn1, rn; cbn in *; congruence|].
      split; [reflexivity|].
      rewrite abs_set_act_at. rewrite !app_nil_l, !app_nil_r. rewrite app_assoc. reflexivity.
Qed.

Definition row_ok (s:nat) (x:row) : Prop := core_row' x /\ (tgt_state (r_tgt x) <> None -> r_src x = s).

Lemma Lm_row {q} fuel r x ev rn : lvlq q rn -> 1 <= fuel -> row_ok (nth r (act rn) 0) x ->
  (tgt_state (r_tgt x) <> None -> r < length (act rn)) ->
  sim val (mexec_row cf contained mc children fuel r x ev) rn
      (fun code rn' items => lvlq q rn' /\ processing rn' = processing rn /\ running rn' = running rn /\
         (o_taken (sp_rows pol mc r ev val [x] (abs rn)) = false -> act rn' = act rn) /\
         items = o_items (sp_rows pol mc r ev val [x] (abs rn)) /\ abs rn' = o_conf (sp_rows pol mc r ev val [x] (abs rn)) /\
         code = (if o_taken (sp_rows pol mc r ev val [x] (abs rn)) then 1 else 2) /\
         o_rejected (sp_rows pol mc r ev val [x] (abs rn)) = negb (o_taken (sp_rows pol mc r ev val [x] (abs rn)))).
Proof.
  intros Hl Hfuel (Hc & Hsrc0) Hbnd. assert (Hsrc : tgt_state (r_tgt x) <> None -> r_src x = nth r (act rn) 0 /\ r < length (act rn)) by (intros H; split; auto).
  pose proof Hc as (Hd & Hx & Htgt). unfold mexec_row. cbn [sp_rows].
  assert (Hcommon : forall b gi, (if r_guard x then b = memb (r_id x) val /\ gi = [Cb (KGuard b) [] (r_id x) ev false (act rn)] else b = true /\ gi = []) ->
            sim val (if b then
                       match tgt_state (r_tgt x) with
                       | None => mrun_action cf mc children x ev
                       | Some nxt =>
                           set_act_at r (switch_id pol 0 (r_src x) nxt) ;;
                           mexec_exit cf contained mc children fuel (r_src x) ev ;;
                           set_act_at r (switch_id pol 1 (r_src x) nxt) ;;
                           res <- mrun_action cf mc children x ev ;;
                           set_act_at r (switch_id pol 2 (r_src x) nxt) ;;
                           mexec_entry cf contained mc children fuel nxt ev (tgt_ekind (r_tgt x)) ;;
                           set_act_at r (switch_id pol 3 (r_src x) nxt) ;;
                           on_state_entry_completed mc nxt r ;;
                           ret res
                       end
                     else ret HANDLED_GUARD_REJECT) rn
              (fun code rn' items => lvlq q rn' /\ processing rn' = processing rn /\ running rn' = running rn /\
                 let o := (if r_guard x
                           then if memb (r_id x) val
                                then (let '(i, c') := sp_take pol mc r x ev (abs rn) in Out true false (i ++ [Cb (KGuard true) [] (r_id x) ev false (c_act (abs rn))]) c')
                                else Out false true ([] ++ [Cb (KGuard false) [] (r_id x) ev false (c_act (abs rn))]) (abs rn)
                           else (let '(i, c') := sp_take pol mc r x ev (abs rn) in Out true false i c')) in
                 (o_taken o = false -> act rn' = act rn) /\
                 items ++ gi = o_items o /\ abs rn' = o_conf o /\ code = (if o_taken o then 1 else 2) /\ o_rejected o = negb (o_taken o))).
  { intros b gi Hb. destruct b.
    - eapply sim_conseq; [apply (Lm_take (q:=q)); auto|]. cbn beta. intros code rn' items (H1 & H2 & H3 & -> & E).
      split; [exact H1|]. split; [exact H2|]. split; [exact H3|].
      destruct (sp_take pol mc r x ev (abs rn)) as [i c'] eqn:T. inversion E; subst i c'.
      destruct (r_guard x).
      + destruct Hb as (Hb & ->). rewrite <- Hb. cbn. rewrite abs_act. split; [discriminate|]. auto.
      + destruct Hb as (_ & ->). cbn. rewrite app_nil_r. split; [discriminate|]. auto.
    - apply sim_ret. split; [exact Hl|]. split; [reflexivity|]. split; [reflexivity|].
      destruct (r_guard x); [|destruct Hb; discriminate].
      destruct Hb as (Hb & ->). rewrite <- Hb. cbn. rewrite abs_act. auto. }
  destruct (tgt_state (r_tgt x)) as [nxt|] eqn:Et.
  - rewrite Hx. eapply sim_bind; [apply (sim_get val rn (fun a rn1 i1 => a = rn /\ rn1 = rn /\ i1 = [])); auto|].
    cbn beta. intros a rn1 i1 (-> & -> & ->).
    eapply sim_bind; [apply sim_mrun_guard|]. cbn beta. intros b rn2 gi (-> & Hb).
    specialize (Hcommon b gi Hb).
    destruct b; cbn [negb]; (eapply sim_conseq; [exact Hcommon|]); cbn; intros code rn' items H; rewrite app_nil_r;
      (destruct (r_guard x); [destruct (memb (r_id x) val)|]); exact H.
  - eapply sim_bind; [apply sim_mrun_guard|]. cbn beta. intros b rn2 gi (-> & Hb).
    specialize (Hcommon b gi Hb).
    eapply sim_conseq; [exact Hcommon|]. cbn. intros code rn' items H.
    destruct (r_guard x); [destruct (memb (r_id x) val)|]; exact H.
Qed.


(* ---- the candidates of a state, one after the other ---- *)
Lemma mcont_vals : mp11_cont 0 = true /\ mp11_cont 1 = false /\ mp11_cont 2 = true /\ mp11_cont 3 = false.
Proof. repeat split; reflexivity. Qed.
Lemma mfinish_vals : mp11_finish 0 = 0 /\ mp11_finish 1 = 1 /\ mp11_finish 2 = 2 /\ mp11_finish 3 = 1.
Proof. repeat split; reflexivity. Qed.

(* the accumulated code before a row is tried: nothing taken yet *)
Definition acc_of (rj:bool) : nat := if rj then 2 else 0.

Lemma Lm_rows_raw {q} fuel r ev : forall rows rn rj0, lvlq q rn -> 1 <= fuel -> Forall (row_ok (nth r (act rn) 0)) rows ->
  (r < length (act rn) \/ Forall (fun x => tgt_state (r_tgt x) = None) rows) ->
  sim val (mchain_raw cf contained mc children fuel r ev (acc_of rj0) rows) rn
      (fun code rn' items => lvlq q rn' /\ processing rn' = processing rn /\ running rn' = running rn /\
         items = o_items (sp_rows pol mc r ev val rows (abs rn)) /\ abs rn' = o_conf (sp_rows pol mc r ev val rows (abs rn)) /\
         code_ok code (o_taken (sp_rows pol mc r ev val rows (abs rn))) (rj0 || o_rejected (sp_rows pol mc r ev val rows (abs rn)))).
Proof.
  unfold mchain_raw. induction rows as [|x t IH]; intros rn rj0 Hl Hfuel Hall Hbnd; cbn [loop_gen].
  - apply sim_ret. cbn. split; [exact Hl|]. repeat (split; [reflexivity|]). unfold code_ok, acc_of. rewrite orb_false_r. reflexivity.
  - inversion Hall as [|? ? Hx Ht]; subst. rewrite (sp_rows_cons mc pol val).
    assert (Hc : mp11_cont (acc_of rj0) = true) by (destruct rj0; reflexivity). rewrite Hc.
    assert (Hbx : tgt_state (r_tgt x) <> None -> r < length (act rn)).
    { intros Hn. destruct Hbnd as [L|F]; [exact L|]. inversion F; subst. contradiction. }
    eapply sim_bind; [apply (Lm_row (q:=q) fuel r x ev rn Hl Hfuel Hx Hbx)|].
    cbn beta. intros res rn1 i1 (Hl1 & Hp1 & Hr1 & Hact & Ei & Ec & Eres & Erj).
    destruct (o_taken (sp_rows pol mc r ev val [x] (abs rn))) eqn:Tk.
    + (* taken: the loop ends at the next test *)
      subst res. cbn zeta. rewrite Tk.
      assert (Hend : forall l rn0, sim val (loop_gen (fun x0 => mexec_row cf contained mc children fuel r x0 ev) mp11_cont bit_or (bit_or (acc_of rj0) 1) l) rn0
                        (fun code rn' items => rn' = rn0 /\ items = [] /\ code = bit_or (acc_of rj0) 1)).
      { intros l rn0. destruct l; cbn [loop_gen]; [apply sim_ret; auto|].
        assert (Hn : mp11_cont (bit_or (acc_of rj0) 1) = false) by (destruct rj0; reflexivity). rewrite Hn. apply sim_ret. auto. }
      eapply sim_conseq; [apply Hend|]. cbn beta. intros code rn' items (-> & -> & ->).
      rewrite app_nil_l. split; [exact Hl1|]. split; [exact Hp1|]. split; [exact Hr1|]. split; [exact Ei|]. split; [exact Ec|].
      unfold code_ok. rewrite Tk. destruct rj0; [right|left]; reflexivity.
    + subst res. cbn zeta. rewrite Tk. cbn [o_taken o_rejected o_items o_conf].
      assert (Eacc : bit_or (acc_of rj0) 2 = acc_of true) by (destruct rj0; reflexivity). rewrite Eacc.
      assert (Hall1 : Forall (row_ok (nth r (act rn1) 0)) t) by (rewrite (Hact eq_refl); exact Ht).
      assert (Hbnd1 : r < length (act rn1) \/ Forall (fun x => tgt_state (r_tgt x) = None) t).
      { destruct Hbnd as [L|F]; [left; rewrite (Hact eq_refl); exact L | right; inversion F; assumption]. }
      eapply sim_conseq; [apply (IH rn1 true Hl1 Hfuel Hall1 Hbnd1)|].
      cbn beta. intros code rn2 i2 (Hl2 & Hp2 & Hr2 & Ei2 & Ec2 & Hc2).
      rewrite <- Ec. split; [exact Hl2|]. split; [congruence|]. split; [congruence|]. split; [rewrite Ei2, Ei; reflexivity|].
      split; [exact Ec2|]. rewrite orb_true_r. exact Hc2.
Qed.

Lemma code_ok_finish c h rj : code_ok c h rj -> code_ok (mp11_finish c) h rj.
Proof.
  unfold code_ok. destruct h.
  - intros [->| ->]; left; reflexivity.
  - destruct rj; intros ->; reflexivity.
Qed.

Lemma Lm_rows {q} fuel r ev rows rn rj0 : lvlq q rn -> 1 <= fuel -> Forall (row_ok (nth r (act rn) 0)) rows ->
  (r < length (act rn) \/ Forall (fun x => tgt_state (r_tgt x) = None) rows) ->
  sim val (mchain cf contained mc children fuel r ev (acc_of rj0) rows) rn
      (fun code rn' items => lvlq q rn' /\ processing rn' = processing rn /\ running rn' = running rn /\
         items = o_items (sp_rows pol mc r ev val rows (abs rn)) /\ abs rn' = o_conf (sp_rows pol mc r ev val rows (abs rn)) /\
         code_ok code (o_taken (sp_rows pol mc r ev val rows (abs rn))) (rj0 || o_rejected (sp_rows pol mc r ev val rows (abs rn)))).
Proof.
  intros Hl Hfuel Hall Hbnd. unfold mchain. destruct rows as [|x t].
  - apply sim_ret. cbn. split; [exact Hl|]. repeat (split; [reflexivity|]). unfold code_ok, acc_of. rewrite orb_false_r. reflexivity.
  - eapply sim_bind; [apply (Lm_rows_raw (q:=q) fuel r ev (x :: t) rn rj0 Hl Hfuel Hall Hbnd)|].
    cbn beta. intros res rn1 i1 (H1 & H2 & H3 & H4 & H5 & H6). apply sim_ret. rewrite app_nil_l.
    split; [exact H1|]. split; [exact H2|]. split; [exact H3|]. split; [exact H4|]. split; [exact H5|]. apply code_ok_finish. exact H6.
Qed.

(* the rows of a state in the engine's table are the specification's candidates *)
Lemma mrow_matches_core ety x : ety <> EV_NONE -> trig_core x -> mrow_matches cf parents ety x = sp_matches ety x.
Proof.
  intros Hn (e & He & _). unfold mrow_matches, sp_matches, trig_matches. rewrite He.
  destruct (Nat.eqb ety EV_NONE) eqn:E; [apply Nat.eqb_eq in E; contradiction|].
  destruct (c_fct cf); [cbn; apply andb_true_r|]. rewrite (flat_base parents Hflat). reflexivity.
Qed.

Lemma mtable_rows_spec s ety : ety <> EV_NONE ->
  mtable_rows cf parents mc s ety = sp_candidates mc s ety /\ Forall (row_ok s) (sp_candidates mc s ety).
Proof.
  intros Hn. unfold mtable_rows, sp_candidates. destruct (core_state mc Hcore s) as (_ & Hsi & _ & _).
  pose proof (core_rows_good mc Hcore) as Hr.
  split.
  - f_equal.
    + destruct (is_sub mc s); [reflexivity|]. f_equal.
      eapply filter_ext_Forall; [exact Hsi|]. intros x (_ & Hx). apply mrow_matches_core; auto.
    + f_equal. eapply filter_ext_Forall; [exact Hr|]. intros x (_ & Hx). rewrite mrow_matches_core by auto. reflexivity.
  - apply Forall_app. split.
    + destruct (is_sub mc s); [constructor|]. apply Forall_rev'. apply Forall_filter.
      (* rows of a state's own table are internal *)
      destruct mc as [states inits rows irows hist]. cbn in Hcore. destruct Hcore as (_ & _ & Hall).
      unfold get_state. cbn [m_states].
      assert (Hi : Forall core_irow (s_irows (nth s states dummy_state))).
      { clear -Hall. revert s. induction states as [|st t IH]; intros s.
        - destruct s; constructor.
        - destruct st as [k sub si df fl z]. destruct Hall as (_ & Hsi & _ & Hrest). destruct s as [|s]; cbn; auto. }
      eapply Forall_impl; [|exact Hi]. intros x Hx. split; [apply core_irow_parts; exact Hx|].
      destruct Hx as (_ & _ & _ & Ht). rewrite Ht. cbn. congruence.
    + apply Forall_rev'. apply Forall_forall. intros x Hx. apply filter_In in Hx. destruct Hx as (Hin & Hf).
      apply andb_true_iff in Hf. destruct Hf as (Hsrc & _). apply Nat.eqb_eq in Hsrc.
      eapply Forall_forall in Hr; eauto. destruct Hr as (Hc & _). split; [exact Hc | intros _; exact Hsrc].
Qed.


(* ---- one region ---- *)
Lemma kid_running_set_kid rn s kn s' : running kn = true -> kid_running rn s' ->
  kid_running (set_kids rn (upd (kids rn) s (Some kn))) s'.
Proof.
  intros Hr Hs'. unfold kid_running in *. rewrite kids_set_kids.
  destruct (Nat.eq_dec s' s) as [->|Hne].
  - destruct (nth s (kids rn) None) as [k0|] eqn:E.
    + rewrite (nth_upd_some _ _ _ _ E). exact Hr.
    + destruct (Nat.lt_ge_cases s (length (kids rn))) as [L|G].
      * rewrite nth_upd_eq by exact L. exact Hr.
      * rewrite nth_overflow by (rewrite upd_length; exact G). exact I.
  - rewrite nth_upd_neq by congruence. exact Hs'.
Qed.

Lemma Lm_cell {q} fuel r ev rn : lvlq q rn -> depth mc + 1 <= fuel -> e_ty ev <> EV_NONE -> r < length (act rn) ->
  sim val (mdispatch cf parents contained mc children fuel r (nth r (act rn) 0) ev) rn
      (fun code rn' items => lvlq q rn' /\ processing rn' = processing rn /\ running rn' = running rn /\
         items = o_items (sp_region pol mc (sp_level_subs pol mc) ev val r (abs rn)) /\
         abs rn' = o_conf (sp_region pol mc (sp_level_subs pol mc) ev val r (abs rn)) /\
         code_ok code (o_taken (sp_region pol mc (sp_level_subs pol mc) ev val r (abs rn)))
                      (o_rejected (sp_region pol mc (sp_level_subs pol mc) ev val r (abs rn)))).
Proof.
  intros Hl Hfuel Hev Hrlt. pose proof Hl as (Hok & Hrun). set (s := nth r (act rn) 0).
  assert (Hf1 : 1 <= fuel) by lia.
  destruct (mtable_rows_spec s (e_ty ev) Hev) as (Etab & Hrows).
  unfold mdispatch. rewrite Etab.
  unfold sp_region. rewrite abs_act. fold s. rewrite level_subs_nth, abs_kid.
  (* the rows alone, in the three shapes the dispatcher gives them *)
  assert (Rows : forall rn0, lvlq q rn0 -> nth r (act rn0) 0 = s -> r < length (act rn0) ->
            sim val (match sp_candidates mc s (e_ty ev) with
                     | [] => ret HANDLED_FALSE
                     | [x] => mexec_row cf contained mc children fuel r x ev
                     | _ => mchain cf contained mc children fuel r ev HANDLED_FALSE (sp_candidates mc s (e_ty ev))
                     end) rn0
              (fun code rn' items => lvlq q rn' /\ processing rn' = processing rn0 /\ running rn' = running rn0 /\
                 items = o_items (sp_rows pol mc r ev val (sp_candidates mc s (e_ty ev)) (abs rn0)) /\
                 abs rn' = o_conf (sp_rows pol mc r ev val (sp_candidates mc s (e_ty ev)) (abs rn0)) /\
                 code_ok code (o_taken (sp_rows pol mc r ev val (sp_candidates mc s (e_ty ev)) (abs rn0)))
                              (o_rejected (sp_rows pol mc r ev val (sp_candidates mc s (e_ty ev)) (abs rn0))))).
  { intros rn0 Hl0 Hs0 Hlt0.
    assert (Hrows0 : Forall (row_ok (nth r (act rn0) 0)) (sp_candidates mc s (e_ty ev))) by (rewrite Hs0; exact Hrows).
    pose proof (Lm_rows fuel r ev (sp_candidates mc s (e_ty ev)) rn0 false Hl0 Hf1 Hrows0 (or_introl Hlt0)) as HL.
    destruct (sp_candidates mc s (e_ty ev)) as [|x [|y t]] eqn:Ec.
    - apply sim_ret. cbn. split; [exact Hl0|]. repeat (split; [reflexivity|]). reflexivity.
    - inversion Hrows0 as [|? ? Hx _]; subst.
      eapply sim_conseq; [apply (Lm_row (q:=q) fuel r x ev rn0 Hl0 Hf1 Hx (fun _ => Hlt0))|].
      cbn beta. intros code rn' items (H1 & H2 & H3 & _ & H4 & H5 & H6 & H7).
      split; [exact H1|]. split; [exact H2|]. split; [exact H3|]. split; [exact H4|]. split; [exact H5|].
      rewrite H7. subst code. unfold code_ok.
      destruct (o_taken (sp_rows pol mc r ev val [x] (abs rn0))); [left; reflexivity | reflexivity].
    - exact HL. }
  destruct (s_sub (get_state mc s)) as [c|] eqn:Es.
  - (* an active submachine *)
    destruct (mchild_some s c Es) as (co & Hco & Hsp).
    destruct (okmL_kid mc rn s c Hok Es) as (kn & Hk & Hkn). rewrite Hk. cbn [option_map].
    pose proof (depth_sub mc s c Es) as Hdep.
    assert (Hkr : running kn = true).
    { specialize (Hrun r Hrlt). fold s in Hrun. unfold kid_running in Hrun. rewrite Hk in Hrun. exact Hrun. }
    assert (Fr : sim val (mforward contained children fuel s ev) rn
              (fun code rn' items => lvlq q rn' /\ processing rn' = processing rn /\ running rn' = running rn /\ act rn' = act rn /\
                 items = map (push_path s) (o_items (sp_level pol c ev val (abs kn))) /\
                 abs rn' = c_set_kid (abs rn) s (o_conf (sp_level pol c ev val (abs kn))) /\
                 code_ok code (o_taken (sp_level pol c ev val (abs kn))) (o_rejected (sp_level pol c ev val (abs kn))))).
    { unfold mforward. rewrite Hco.
      eapply sim_conseq.
      { eapply sim_min_child; [exact Hk|]. apply (cm_pei c co Hsp fuel ev kn Hkn Hkr); [lia | exact Hev]. }
      cbn beta. intros res rn1' i1' (kn1 & i1 & (Hkn1 & Hr1 & Ei & Ec & Hcode) & -> & ->).
      split; [split; [eapply okmL_set_kid; eauto | intros r0 Hr0; rewrite act_set_kids in *; apply kid_running_set_kid; [exact Hr1 | apply Hrun; exact Hr0]]|].
      split; [apply processing_set_kids|]. split; [destruct rn; reflexivity|]. split; [apply act_set_kids|].
      split; [rewrite Ei; reflexivity|]. split; [rewrite abs_set_kid, Ec; reflexivity | exact Hcode]. }
    unfold needs_forward. rewrite Hco.
    (* the continuation after the submachine did not take a transition *)
    assert (After : forall res rn1 rj1, lvlq q rn1 -> act rn1 = act rn -> res = acc_of rj1 ->
              sim val (mchain cf contained mc children fuel r ev res (sp_candidates mc s (e_ty ev))) rn1
                (fun code rn' items => lvlq q rn' /\ processing rn' = processing rn1 /\ running rn' = running rn1 /\
                   items = o_items (sp_rows pol mc r ev val (sp_candidates mc s (e_ty ev)) (abs rn1)) /\
                   abs rn' = o_conf (sp_rows pol mc r ev val (sp_candidates mc s (e_ty ev)) (abs rn1)) /\
                   code_ok code (o_taken (sp_rows pol mc r ev val (sp_candidates mc s (e_ty ev)) (abs rn1)))
                                (rj1 || o_rejected (sp_rows pol mc r ev val (sp_candidates mc s (e_ty ev)) (abs rn1))))).
    { intros res rn1 rj1 Hl1 Ha1 ->. apply (Lm_rows (q:=q)); [exact Hl1 | exact Hf1 | rewrite Ha1; exact Hrows | left; rewrite Ha1; exact Hrlt]. }
    assert (Acc : forall res rj, code_ok res false rj -> res = acc_of rj).
    { intros res rj H. unfold code_ok in H. exact H. }
    destruct (c_fct cf) eqn:Efct.
    + (* favor_compile_time: always forwarded; stop iff the handled bit is set *)
      cbn [orb].
      eapply sim_bind; [exact Fr|]. cbn beta. intros res rn1 i1 (Hl1 & Hp1 & Hr1 & Ha1 & Ei1 & Ec1 & Hc1).
      destruct (o_taken (sp_level pol c ev val (abs kn))) eqn:Tk.
      * assert (Hb : has_bits res handled_true_or_deferred = true) by (unfold code_ok in Hc1; destruct Hc1 as [->| ->]; reflexivity).
        rewrite Hb. apply sim_ret. rewrite app_nil_l. cbn [o_taken o_rejected o_items o_conf].
        split; [exact Hl1|]. split; [exact Hp1|]. split; [exact Hr1|]. split; [exact Ei1|]. split; [exact Ec1 | exact Hc1].
      * assert (Hb : has_bits res handled_true_or_deferred = false) by (unfold code_ok in Hc1; destruct (o_rejected _); subst res; reflexivity).
        rewrite Hb.
        eapply sim_conseq; [apply (After res rn1 _ Hl1 Ha1 (Acc _ _ Hc1))|].
        cbn beta. intros code rn2 i2 (Hl2 & Hp2 & Hr2 & Ei2 & Ec2 & Hc2).
        rewrite Ec1 in *. cbn [o_taken o_rejected o_items o_conf].
        split; [exact Hl2|]. split; [congruence|]. split; [congruence|]. split; [rewrite Ei2, Ei1; reflexivity|]. split; [exact Ec2 | exact Hc2].
    + cbn [orb].
      destruct (existsb (fun t => trig_matches parents true t (e_ty ev)) (co_trigs co)) eqn:Fw.
      * destruct (sp_candidates mc s (e_ty ev)) as [|y t] eqn:Em.
        -- eapply sim_conseq; [exact Fr|]. cbn beta. intros code rn' items (H1 & H2 & H3 & _ & H4 & H5 & H6).
           cbn [sp_rows o_taken o_rejected o_items o_conf].
           split; [exact H1|]. split; [exact H2|]. split; [exact H3|].
           destruct (o_taken (sp_level pol c ev val (abs kn))); cbn [o_taken o_rejected o_items o_conf];
             rewrite ?orb_false_r, ?app_nil_l; auto.
        -- rewrite <- Em in *.
           eapply sim_bind; [exact Fr|]. cbn beta. intros res rn1 i1 (Hl1 & Hp1 & Hr1 & Ha1 & Ei1 & Ec1 & Hc1).
           destruct (o_taken (sp_level pol c ev val (abs kn))) eqn:Tk.
           ++ assert (Hb : tab1 mp11_chain_stop res = true /\ tab1n mp11_chain_mask res = 1)
                by (unfold code_ok in Hc1; destruct Hc1 as [->| ->]; split; reflexivity).
              destruct Hb as (Hb1 & Hb2). rewrite Hb1, Hb2. apply sim_ret. rewrite app_nil_l. cbn [o_taken o_rejected o_items o_conf].
              split; [exact Hl1|]. split; [exact Hp1|]. split; [exact Hr1|]. split; [exact Ei1|]. split; [exact Ec1|].
              unfold code_ok. left; reflexivity.
           ++ assert (Hb : tab1 mp11_chain_stop res = false) by (unfold code_ok in Hc1; destruct (o_rejected _); subst res; reflexivity).
              rewrite Hb.
              eapply sim_conseq; [apply (After res rn1 _ Hl1 Ha1 (Acc _ _ Hc1))|].
              cbn beta. intros code rn2 i2 (Hl2 & Hp2 & Hr2 & Ei2 & Ec2 & Hc2).
              rewrite Ec1 in *. cbn [o_taken o_rejected o_items o_conf].
              split; [exact Hl2|]. split; [congruence|]. split; [congruence|]. split; [rewrite Ei2, Ei1; reflexivity|]. split; [exact Ec2 | exact Hc2].
      * (* not consulted; the specification says it would have done nothing *)
        rewrite (cm_silent c co Hsp ev (abs kn) Fw). cbn [o_taken o_rejected o_items o_conf map app orb].
        assert (Eid : c_set_kid (abs rn) s (abs kn) = abs rn) by (apply c_set_kid_same; rewrite abs_kid, Hk; reflexivity).
        rewrite Eid.
        eapply sim_conseq; [apply (Rows rn Hl eq_refl Hrlt)|]. cbn beta. intros code rn' items (H1 & H2 & H3 & H4 & H5 & H6).
        rewrite app_nil_r. split; [exact H1|]. split; [exact H2|]. split; [exact H3|]. split; [exact H4|]. split; [exact H5 | exact H6].
  - (* a simple state *)
    unfold needs_forward. rewrite (mchild_none s Es).
    destruct (c_fct cf) eqn:Efct.
    + eapply sim_conseq; [apply (Lm_rows (q:=q) fuel r ev (sp_candidates mc s (e_ty ev)) rn false Hl Hf1 Hrows (or_introl Hrlt))|].
      cbn beta. intros code rn' items H. exact H.
    + eapply sim_conseq; [apply (Rows rn Hl eq_refl Hrlt)|]. cbn beta. intros code rn' items H. exact H.
Qed.


(* ---- every region once, in order ---- *)
Notation reg_step := (reg_step mc pol val).

Lemma Lm_regions {q} fuel ev : depth mc + 1 <= fuel -> e_ty ev <> EV_NONE ->
  forall n r acc oacc rn, lvlq q rn -> r + n = m_nreg mc -> abs rn = o_conf oacc -> code_ok acc (o_taken oacc) (o_rejected oacc) ->
  sim val (mregions_loop cf parents contained mc children fuel ev n r acc) rn
      (fun code rn' items => lvlq q rn' /\ processing rn' = processing rn /\ running rn' = running rn /\
         items ++ o_items oacc = o_items (fold_left (reg_step ev) (seqn r n) oacc) /\
         abs rn' = o_conf (fold_left (reg_step ev) (seqn r n) oacc) /\
         code_ok code (o_taken (fold_left (reg_step ev) (seqn r n) oacc)) (o_rejected (fold_left (reg_step ev) (seqn r n) oacc))).
Proof.
  intros Hfuel Hev. induction n as [|n IH]; intros r acc oacc rn Hl Hrn Ea Hc; cbn [mregions_loop seqn fold_left].
  - apply sim_ret. rewrite app_nil_l. split; [exact Hl|]. auto.
  - eapply sim_bind; [apply (sim_get val rn (fun a rn1 i1 => a = rn /\ rn1 = rn /\ i1 = [])); auto|].
    cbn beta. intros a rn0 i0 (-> & -> & ->).
    assert (Hrlt : r < length (act rn)) by (destruct Hl as ((_ & La & _) & _); lia).
    eapply sim_bind; [apply (Lm_cell (q:=q) fuel r ev rn Hl Hfuel Hev Hrlt)|].
    cbn beta. intros res rn1 i1 (Hl1 & Hp1 & Hr1 & Ei1 & Ec1 & Hc1).
    eapply sim_conseq.
    { apply (IH (S r) (bit_or acc res) (reg_step ev oacc r) rn1 Hl1); [lia| |].
      - unfold Lemmas_Core.reg_step. cbn [o_conf]. rewrite <- Ea. exact Ec1.
      - unfold Lemmas_Core.reg_step. cbn [o_taken o_rejected]. rewrite <- Ea. apply code_ok_or; assumption. }
    cbn beta. intros code rn2 i2 (Hl2 & Hp2 & Hr2 & Ei2 & Ec2 & Hc2).
    split; [exact Hl2|]. split; [congruence|]. split; [congruence|]. split; [|split; [exact Ec2 | exact Hc2]].
    rewrite <- Ei2. unfold Lemmas_Core.reg_step. cbn [o_items]. rewrite <- Ea, <- Ei1. rewrite app_nil_r, app_assoc. reflexivity.
Qed.

Lemma sim_miter_nt ev : forall l rn,
  sim val (iterM (fun s => mcb cf mc children KNoTrans s ev false) l) rn
      (fun _ rn' items => rn' = rn /\ items = rev (map (fun s => Cb KNoTrans [] s ev false (act rn)) l)).
Proof.
  induction l as [|x t IH]; intros rn; cbn [iterM].
  - apply sim_ret. auto.
  - eapply sim_bind; [apply sim_mcb|]. cbn beta. intros u rn1 i1 (-> & ->).
    eapply sim_conseq; [apply IH|]. cbn beta. intros u2 rn2 i2 (-> & ->). split; [reflexivity|].
    cbn [map rev]. reflexivity.
Qed.

Lemma mtried_vals : tab1 mp11_internal_tried 0 = true /\ tab1 mp11_internal_tried 1 = false /\
                    tab1 mp11_internal_tried 2 = true /\ tab1 mp11_internal_tried 3 = false.
Proof. repeat split; reflexivity. Qed.

(* ---- a whole level ---- *)
Lemma Lm_level {q} fuel ev info rn : lvlq q rn -> depth mc + 1 <= fuel -> e_ty ev <> EV_NONE ->
  sim val (mdo_process_event cf parents contained mc children fuel ev info) rn
      (fun code rn' items => lvlq q rn' /\ processing rn' = processing rn /\ running rn' = running rn /\
         (let o := sp_level pol mc ev val (abs rn) in
          let nt := negb (Nat.eqb info INFO_SUBMACHINE) && negb (o_taken o || o_rejected o) in
          items = (if nt then rev (map (fun s => Cb KNoTrans [] s ev false (c_act (o_conf o))) (c_act (o_conf o))) else []) ++ o_items o /\
          abs rn' = o_conf o /\ code_ok code (o_taken o) (o_rejected o))).
Proof.
  intros Hl Hfuel Hev. assert (Hf1 : 1 <= fuel) by lia. unfold mdo_process_event.
  rewrite (sp_level_unfold mc Hcore pol val), (sp_regions_fold mc pol val).
  eapply sim_bind.
  { apply (Lm_regions (q:=q) fuel ev Hfuel Hev (m_nreg mc) 0 HANDLED_FALSE (Out false false [] (abs rn)) rn Hl); [reflexivity | reflexivity|].
    unfold code_ok. reflexivity. }
  cbn beta. intros h rn1 i1 (Hl1 & Hp1 & Hr1 & Ei1 & Ec1 & Hc1). rewrite app_nil_r in Ei1.
  set (o := fold_left (reg_step ev) (seqn 0 (m_nreg mc)) (Out false false [] (abs rn))) in *.
  set (irs := rev (filter (sp_matches (e_ty ev)) (m_irows mc))).
  assert (Hirs : minternal_rows cf parents mc (e_ty ev) = irs).
  { unfold minternal_rows, irs. f_equal. eapply filter_ext_Forall; [apply (core_irows_good mc Hcore)|].
    intros x (_ & Hx). apply mrow_matches_core; auto. }
  assert (Hint : Forall (fun x => tgt_state (r_tgt x) = None) irs).
  { unfold irs. apply Forall_rev'. apply Forall_filter.
    destruct mc as [states inits rows irows hist]. cbn in Hcore. destruct Hcore as (_ & Hi & _). cbn [m_irows].
    eapply Forall_impl; [|exact Hi]. intros x (_ & _ & _ & Ht). rewrite Ht. reflexivity. }
  assert (Hgood : forall s0, Forall (row_ok s0) irs).
  { intros s0. unfold irs. apply Forall_rev'. apply Forall_filter.
    destruct mc as [states inits rows irows hist]. cbn in Hcore. destruct Hcore as (_ & Hi & _). cbn [m_irows].
    eapply Forall_impl; [|exact Hi]. intros x Hx. split; [apply core_irow_parts; exact Hx|].
    destruct Hx as (_ & _ & _ & Ht). rewrite Ht. cbn. congruence. }
  eapply sim_bind with (P := fun h2 rn2 i2 => lvlq q rn2 /\ processing rn2 = processing rn /\ running rn2 = running rn /\
      let o' := (if o_taken o then o
                 else (let o2 := sp_rows pol mc 0 ev val irs (o_conf o) in
                       Out (o_taken o2) (o_rejected o || o_rejected o2) (o_items o2 ++ o_items o) (o_conf o2))) in
      i2 ++ i1 = o_items o' /\ abs rn2 = o_conf o' /\ code_ok h2 (o_taken o') (o_rejected o')).
  { destruct (o_taken o) eqn:Tk.
    - assert (Ei : tab1 mp11_internal_tried h = false).
      { destruct mtried_vals as (_ & T1 & _ & T3). unfold code_ok in Hc1. destruct Hc1 as [->| ->]; auto. }
      rewrite Ei. apply sim_ret. rewrite app_nil_l. cbn zeta.
      split; [exact Hl1|]. split; [exact Hp1|]. split; [exact Hr1|]. split; [exact Ei1|]. split; [exact Ec1|]. rewrite ?Tk. exact Hc1.
    - assert (Ei : tab1 mp11_internal_tried h = true).
      { destruct mtried_vals as (T0 & _ & T2 & _). unfold code_ok in Hc1. destruct (o_rejected o); subst h; auto. }
      rewrite Ei.
      eapply sim_bind with (P := fun ri rn3 i3 => lvlq q rn3 /\ processing rn3 = processing rn1 /\ running rn3 = running rn1 /\
          i3 = o_items (sp_rows pol mc 0 ev val irs (abs rn1)) /\ abs rn3 = o_conf (sp_rows pol mc 0 ev val irs (abs rn1)) /\
          code_ok ri (o_taken (sp_rows pol mc 0 ev val irs (abs rn1))) (o_rejected (sp_rows pol mc 0 ev val irs (abs rn1)))).
      { unfold minternal_dispatch. rewrite Hirs.
        pose proof (Lm_rows fuel 0 ev irs rn1 false Hl1 Hf1 (Hgood _) (or_intror Hint)) as HL.
        destruct irs as [|x [|y t]] eqn:Ec.
        - apply sim_ret. cbn. split; [exact Hl1|]. repeat (split; [reflexivity|]). reflexivity.
        - destruct (c_fct cf); [exact HL|].
          pose proof (Hgood (nth 0 (act rn1) 0)) as Hg. inversion Hg as [|? ? Hx _]; subst.
          assert (Hxi : tgt_state (r_tgt x) <> None -> 0 < length (act rn1)) by (inversion Hint; subst; intros; contradiction).
          eapply sim_conseq; [apply (Lm_row (q:=q) fuel 0 x ev rn1 Hl1 Hf1 Hx Hxi)|].
          cbn beta. intros code rn' items (H1 & H2 & H3 & _ & H4 & H5 & H6 & H7).
          split; [exact H1|]. split; [exact H2|]. split; [exact H3|]. split; [exact H4|]. split; [exact H5|].
          rewrite H7. subst code. unfold code_ok.
          destruct (o_taken (sp_rows pol mc 0 ev val [x] (abs rn1))); [left; reflexivity | reflexivity].
        - exact HL. }
      cbn beta. intros ri rn3 i3 (Hl3 & Hp3 & Hr3 & Ei3 & Ec3 & Hc3). apply sim_ret. rewrite app_nil_l.
      rewrite <- Ec1. cbn zeta. cbn [o_taken o_rejected o_items o_conf].
      split; [exact Hl3|]. split; [congruence|]. split; [congruence|]. split; [rewrite Ei3, Ei1, ?app_nil_r; reflexivity|]. split; [exact Ec3|].
      try rewrite Tk in Hc1. replace (o_taken (sp_rows pol mc 0 ev val irs (abs rn1))) with (false || o_taken (sp_rows pol mc 0 ev val irs (abs rn1))) by reflexivity.
      apply code_ok_or; assumption. }
  cbn beta. intros h2 rn2 i2 (Hl2 & Hp2 & Hr2 & Hres). cbn zeta in Hres. destruct Hres as (Ei2 & Ec2 & Hc2).
  set (o' := if o_taken o then o else _) in *.
  eapply sim_bind with (P := fun _ rn3 i3 => rn3 = rn2 /\
      i3 = if negb (Nat.eqb info INFO_SUBMACHINE) && negb (o_taken o' || o_rejected o')
           then rev (map (fun s => Cb KNoTrans [] s ev false (act rn2)) (act rn2)) else []).
  { unfold mnt_phase.
    assert (Ez : Nat.eqb h2 0 = negb (o_taken o' || o_rejected o')).
    { unfold code_ok in Hc2. destruct (o_taken o'); [destruct Hc2 as [->| ->]; reflexivity|]. destruct (o_rejected o'); subst h2; reflexivity. }
    rewrite Ez. rewrite andb_comm.
    destruct (negb (Nat.eqb info INFO_SUBMACHINE) && negb (o_taken o' || o_rejected o')).
    - eapply sim_bind; [apply (sim_get val rn2 (fun a rn3 i3 => a = rn2 /\ rn3 = rn2 /\ i3 = [])); auto|].
      cbn beta. intros a rn3 i3 (-> & -> & ->).
      eapply sim_conseq; [apply sim_miter_nt|]. cbn beta. intros u rn4 i4 (-> & ->). rewrite app_nil_r. auto.
    - apply sim_ret. auto. }
  cbn beta. intros u rn3 i3 (-> & ->). apply sim_ret. rewrite app_nil_l.
  split; [exact Hl2|]. split; [exact Hp2|]. split; [exact Hr2|]. cbn zeta. fold o'.
  rewrite <- Ec2, abs_act. split; [rewrite <- Ei2; rewrite app_assoc; reflexivity|]. split; [reflexivity | exact Hc2].
Qed.


(* ---- process_event_internal of one level ---- *)
Lemma mblocked_false rn ety : mblocked cf mc children rn ety = false.
Proof. unfold mblocked. rewrite (core_no_blocking mc Hcore). reflexivity. Qed.

Lemma defers_false rn ety : defers_active mc children rn ety = false.
Proof.
  unfold defers_active, active_any. destruct (running rn); [|reflexivity]. cbn [andb].
  apply existsb_forall. intros s _. destruct (core_state mc Hcore s) as (Hd & _). rewrite Hd. cbn [memb existsb orb].
  destruct (s_sub (get_state mc s)) as [c|] eqn:Es.
  - destruct (mchild_some s c Es) as (co & Hco & Hsp). rewrite Hco.
    destruct (nth s (kids rn) None); [apply (cm_defers c co Hsp) | reflexivity].
  - rewrite (mchild_none s Es). reflexivity.
Qed.

Lemma sim_pool_empty pei_rec f n rn : msgq rn = [] ->
  sim val (process_event_pool cf parents contained mc children pei_rec f n) rn (fun _ rn' items => rn' = rn /\ items = []).
Proof.
  intros Hq. unfold process_event_pool.
  eapply sim_bind; [apply (sim_get val rn (fun a rn1 i1 => a = rn /\ rn1 = rn /\ i1 = [])); auto|].
  cbn beta. intros a rn1 i1 (-> & -> & ->). rewrite Hq. apply sim_ret. auto.
Qed.

Definition mlevel_post (info:nat) (ev:evt) (rn:rnode) (code:nat) (rn':rnode) (items:list titem) : Prop :=
  okm mc rn' /\ running rn' = true /\
  (let o := sp_level pol mc ev val (abs rn) in
   let nt := negb (Nat.eqb info INFO_SUBMACHINE) && negb (o_taken o || o_rejected o) in
   items = (if nt then rev (map (fun s => Cb KNoTrans [] s ev false (c_act (o_conf o))) (c_act (o_conf o))) else []) ++ o_items o /\
   abs rn' = o_conf o /\ code_ok code (o_taken o) (o_rejected o)).

Lemma Lm_pei fuel ev info rn : okm mc rn -> running rn = true -> depth mc + 2 <= fuel -> e_ty ev <> EV_NONE -> info <> INFO_POOL ->
  sim val (mpei cf parents contained mc children fuel ev info) rn (mlevel_post info ev rn).
Proof.
  intros Hok Hrunning Hfuel Hev Hinfo. apply okm_unfold in Hok. destruct Hok as (HokL & Hproc & Har).
  specialize (Har Hrunning).
  destruct fuel as [|f]; [lia|]. cbn [mpei]. unfold mpei_body.
  eapply sim_bind; [apply (sim_get val rn (fun a rn1 i1 => a = rn /\ rn1 = rn /\ i1 = [])); auto|].
  cbn beta. intros a rn0 i0 (-> & -> & ->). rewrite mblocked_false, Hproc, defers_false.
  assert (Ep : Nat.eqb info INFO_POOL = false) by (apply Nat.eqb_neq; exact Hinfo).
  rewrite Ep. cbn [negb orb andb]. rewrite andb_false_r. cbn [when].
  eapply sim_bind; [apply (sim_modify val _ rn (fun _ rn1 i1 => rn1 = set_curseq rn (wrap_mp11 (curseq rn + 1)) /\ i1 = [])); auto|].
  cbn beta. intros u0 rn1 i1 (-> & ->).
  eapply sim_bind; [apply (sim_modify val _ _ (fun _ rn2 i2 => rn2 = set_processing (set_curseq rn (wrap_mp11 (curseq rn + 1))) true /\ i2 = [])); auto|].
  cbn beta. intros u1 rn2 i2 (-> & ->).
  set (rn0 := set_processing (set_curseq rn (wrap_mp11 (curseq rn + 1))) true).
  assert (Hl0 : lvl rn0).
  { split; [apply okmL_set_processing, (okmL_set_curseq (c:=None)); exact HokL|].
    intros r Hr. unfold rn0 in *. destruct rn; exact (Har r Hr). }
  eapply sim_bind; [apply sim_catch; apply (Lm_level f ev info rn0 Hl0); [lia | exact Hev]|].
  cbn beta. intros code rn3 i3 (Hl3 & Hp3 & Hr3 & Hres).
  replace (abs rn0) with (abs rn) in Hres by (unfold rn0; rewrite abs_set_processing, abs_set_curseq; reflexivity).
  eapply sim_bind; [apply (sim_modify val _ rn3 (fun _ rn4 i4 => rn4 = set_processing rn3 false /\ i4 = [])); auto|].
  cbn beta. intros u4 rn4 i4 (-> & ->).
  assert (Hq : msgq (set_processing rn3 false) = []) by (destruct Hl3 as (((Hq & _) & _) & _); destruct rn3; exact Hq).
  eapply sim_bind with (P := fun _ rn5 i5 => rn5 = set_processing rn3 false /\ i5 = []).
  { eapply sim_bind; [apply sim_pool_empty; exact Hq|]. cbn beta. intros u5 rn5 i5 (-> & ->). apply sim_ret. auto. }
  cbn beta. intros u5 rn5 i5 (-> & ->). apply sim_ret. rewrite !app_nil_l, !app_nil_r.
  unfold mlevel_post. destruct Hl3 as (HokL3 & Har3). split; [|split].
  - apply okm_unfold. split; [apply okmL_set_processing; exact HokL3|]. split; [destruct rn3; reflexivity|].
    intros _ r Hr. destruct rn3; exact (Har3 r Hr).
  - unfold rn0 in Hr3. destruct rn3, rn; cbn in *. congruence.
  - rewrite abs_set_processing. exact Hres.
Qed.

Lemma sp_process_unfold_rootm ev c :
  let o := sp_level pol mc ev val c in
  sp_process pol mc ev val c =
    Out (o_taken o) (o_rejected o)
        ((if negb (o_taken o || o_rejected o) then rev (map (fun s => Cb KNoTrans [] s ev false (c_act (o_conf o))) (c_act (o_conf o))) else []) ++ o_items o)
        (o_conf o).
Proof.
  cbn zeta. unfold sp_process. destruct (sp_level pol mc ev val c) as [t rj i c']. cbn [o_taken o_rejected o_items o_conf].
  destruct t, rj; reflexivity.
Qed.

(* a stored event dispatched from the pool is one complete step; what else the pool holds and the counter stay *)
Lemma Lm_pei_pool {l} fuel ev rn : okmLq (l, None) mc rn -> processing rn = false -> act_run rn -> running rn = true ->
  depth mc + 2 <= fuel -> e_ty ev <> EV_NONE ->
  sim val (mpei cf parents contained mc children fuel ev INFO_POOL) rn
      (fun code rn' items => okmLq (l, Some (curseq rn)) mc rn' /\ act_run rn' /\ processing rn' = false /\ running rn' = true /\
         (let o := sp_process pol mc ev val (abs rn) in
          items = o_items o /\ abs rn' = o_conf o /\ code_ok code (o_taken o) (o_rejected o))).
Proof.
  intros HokL Hproc Har Hrunning Hfuel Hev.
  destruct fuel as [|f]; [lia|]. cbn [mpei]. unfold mpei_body.
  eapply sim_bind; [apply (sim_get val rn (fun a rn1 i1 => a = rn /\ rn1 = rn /\ i1 = [])); auto|].
  cbn beta. intros a rn0 i0 (-> & -> & ->). rewrite mblocked_false.
  change (Nat.eqb INFO_POOL INFO_POOL) with true. cbn [negb andb when].
  eapply sim_bind; [apply (sim_ret val tt rn (fun _ rn1 i1 => rn1 = rn /\ i1 = [])); auto|].
  cbn beta. intros u0 rn1 i1 (-> & ->).
  eapply sim_bind; [apply (sim_modify val _ rn (fun _ rn2 i2 => rn2 = set_processing rn true /\ i2 = [])); auto|].
  cbn beta. intros u1 rn2 i2 (-> & ->).
  assert (Hl0 : lvlq (l, Some (curseq rn)) (set_processing rn true)).
  { split; [apply okmL_set_processing, okmL_know; exact HokL|].
    intros r Hr. destruct rn; exact (Har r Hr). }
  eapply sim_bind; [apply sim_catch; apply (Lm_level (q:=(l, Some (curseq rn))) f ev INFO_POOL _ Hl0); [lia | exact Hev]|].
  cbn beta. intros code rn3 i3 (Hl3 & Hp3 & Hr3 & Hres). rewrite abs_set_processing in Hres.
  eapply sim_bind; [apply (sim_modify val _ rn3 (fun _ rn4 i4 => rn4 = set_processing rn3 false /\ i4 = [])); auto|].
  cbn beta. intros u4 rn4 i4 (-> & ->).
  eapply sim_bind; [apply (sim_ret val tt (set_processing rn3 false) (fun _ rn5 i5 => rn5 = set_processing rn3 false /\ i5 = [])); auto|].
  cbn beta. intros u5 rn5 i5 (-> & ->). apply sim_ret. rewrite !app_nil_l, !app_nil_r.
  destruct Hl3 as (HokL3 & Har3).
  split; [apply okmL_set_processing; exact HokL3|].
  split; [intros r Hr; destruct rn3; exact (Har3 r Hr)|].
  split; [destruct rn3; reflexivity|].
  split; [destruct rn3, rn; cbn in *; congruence|].
  rewrite abs_set_processing. rewrite sp_process_unfold_rootm. cbn zeta. cbn [o_items o_conf o_taken o_rejected].
  cbn zeta in Hres. change (Nat.eqb INFO_POOL INFO_SUBMACHINE) with false in Hres. cbn [negb andb] in Hres. exact Hres.
Qed.

(* the pool processed to the end: every stored event is one complete step, oldest first *)
Lemma Lm_pool0 fuel' s0 : depth mc + 2 <= fuel' ->
  forall evs fl rn p, okmLq (map (mkqm s0) evs, None) mc rn -> processing rn = false -> act_run rn -> running rn = true ->
    2 * length evs + 1 <= fl -> apart s0 (curseq rn) (length evs) -> Forall (fun e => e_ty e <> EV_NONE) evs ->
    sim val (pool_loop cf parents contained mc children (mpei cf parents contained mc children fuel') fl 0 p 0) rn
        (fun _ rn' items => okm mc rn' /\ running rn' = true /\ (items, abs rn') = sp_drain pol mc val evs (abs rn)).
Proof.
  intros Hfuel. induction evs as [|e t IH]; intros fl rn p Hok Hp Har Hrun Hfl Hap Hall.
  - destruct fl as [|f]; [cbn in Hfl; lia|]. cbn [pool_loop].
    eapply sim_bind; [apply (sim_get val rn (fun a rn1 i1 => a = rn /\ rn1 = rn /\ i1 = [])); auto|].
    cbn beta. intros a rn1 i1 (-> & -> & ->). rewrite (okmL_msgq _ _ Hok). cbn [fst map nth_error].
    apply sim_ret. split; [|split; [exact Hrun | reflexivity]].
    apply okm_unfold. split; [exact Hok|]. split; [exact Hp | intros _; exact Har].
  - destruct fl as [|fl1]; [cbn in Hfl; lia|]. cbn [length] in Hfl, Hap.
    inversion Hall as [|e' t' He Ht]; subst e' t'.
    cbn [pool_loop].
    eapply sim_bind; [apply (sim_get val rn (fun a rn1 i1 => a = rn /\ rn1 = rn /\ i1 = [])); auto|].
    cbn beta. intros a rn1 i1 (-> & -> & ->). rewrite (okmL_msgq _ _ Hok). cbn [fst map nth_error].
    change (mkqm s0 e) with (QEv e 0 s0 false). cbn [is_marked]. cbv iota.
    rewrite (apart_now _ _ _ Hap), defers_false. cbn [orb].
    unfold mark_at. cbn [nth_error upd].
    set (q1 := QEv e 0 s0 true :: map (mkqm s0) t).
    eapply sim_bind; [apply (sim_put val (set_msgq rn q1) rn (fun _ rn1 i1 => rn1 = set_msgq rn q1 /\ i1 = [])); auto|].
    cbn beta. intros u1 rn1 i1 (-> & ->).
    eapply sim_bind.
    { apply (Lm_pei_pool (l:=q1) fuel' e (set_msgq rn q1)); [eapply okmL_set_msgq; exact Hok | destruct rn; exact Hp | | destruct rn; exact Hrun | exact Hfuel | exact He].
      intros r Hr. destruct rn; exact (Har r Hr). }
    cbn beta. intros code rn2 i2 (Hok2 & Har2 & Hp2 & Hr2 & Hi2 & Ha2 & Hc2).
    rewrite abs_set_msgq in Hi2, Ha2, Hc2.
    destruct (code_not_deferred _ _ _ Hc2) as (Ed & Eb). rewrite Ed, Eb. cbn [negb andb when].
    replace (Nat.eqb (S p) 0) with false by reflexivity. cbn [andb].
    eapply sim_bind; [apply (sim_modify val _ rn2 (fun _ rn3 i3 => rn3 = set_curseq rn2 (wrap_mp11 (curseq rn2 + 1)) /\ i3 = [])); auto|].
    cbn beta. intros u3 rn3 i3 (-> & ->).
    (* the marked cell is removed *)
    destruct fl1 as [|f]; [lia|]. cbn [pool_loop].
    eapply sim_bind; [apply (sim_get val _ (fun a rn4 i4 => a = set_curseq rn2 (wrap_mp11 (curseq rn2 + 1)) /\ rn4 = a /\ i4 = [])); auto|].
    cbn beta. intros a rn4 i4 (-> & -> & ->).
    assert (Hq2 : msgq (set_curseq rn2 (wrap_mp11 (curseq rn2 + 1))) = q1) by (pose proof (okmL_msgq _ _ Hok2) as Hm; cbn [fst] in Hm; rewrite <- Hm; destruct rn2; reflexivity).
    rewrite Hq2. unfold q1 at 1. cbn [nth_error is_marked].
    unfold q1. cbn [remove_at].
    set (rn5 := set_msgq (set_curseq rn2 (wrap_mp11 (curseq rn2 + 1))) (map (mkqm s0) t)).
    eapply sim_bind; [apply (sim_put val rn5 _ (fun _ rn6 i6 => rn6 = rn5 /\ i6 = [])); auto|].
    cbn beta. intros u6 rn6 i6 (-> & ->).
    assert (Hc : curseq rn2 = curseq rn) by (rewrite (okmL_seq _ _ Hok2); destruct rn; reflexivity).
    eapply sim_conseq.
    { apply (IH f rn5 (S p)).
      - unfold rn5. eapply okmL_set_msgq. eapply okmL_set_curseq. exact Hok2.
      - unfold rn5. destruct rn2; exact Hp2.
      - intros r Hr. unfold rn5 in *. destruct rn2; exact (Har2 r Hr).
      - unfold rn5. destruct rn2; exact Hr2.
      - lia.
      - replace (curseq rn5) with (wrap_mp11 (curseq rn + 1)) by (unfold rn5; rewrite <- Hc; destruct rn2; reflexivity).
        apply apart_next. exact Hap.
      - exact Ht. }
    cbn beta. intros n7 rn7 i7 (Hok7 & Hr7 & E7). split; [exact Hok7|]. split; [exact Hr7|].
    cbn [sp_drain]. replace (abs rn5) with (abs rn2) in E7 by (unfold rn5; rewrite abs_set_msgq, abs_set_curseq; reflexivity).
    rewrite Ha2 in E7. rewrite <- E7. rewrite !app_nil_r. rewrite Hi2. reflexivity.
Qed.

Lemma Lm_pool fuel' s0 mk : depth mc + 2 <= fuel' -> is_mk mk ->
  forall evs fl rn p, okmLq (mhead mk ++ map (mkqm s0) evs, None) mc rn -> processing rn = false -> act_run rn -> running rn = true ->
    2 * length evs + 2 <= fl -> apart s0 (curseq rn) (length evs) -> Forall (fun e => e_ty e <> EV_NONE) evs ->
    sim val (pool_loop cf parents contained mc children (mpei cf parents contained mc children fuel') fl 0 p 0) rn
        (fun _ rn' items => okm mc rn' /\ running rn' = true /\ (items, abs rn') = sp_drain pol mc val evs (abs rn)).
Proof.
  intros Hfuel Hmk evs fl rn p Hok Hp Har Hrun Hfl Hap Hall.
  destruct mk as [q|]; cbn [mhead app] in Hok.
  - destruct fl as [|fl]; [lia|]. cbn [pool_loop].
    eapply sim_bind; [apply (sim_get val rn (fun a rn1 i1 => a = rn /\ rn1 = rn /\ i1 = [])); auto|].
    cbn beta. intros a rn1 i1 (-> & -> & ->). rewrite (okmL_msgq _ _ Hok). cbn [fst nth_error]. cbn in Hmk. rewrite Hmk. cbn [remove_at].
    eapply sim_bind; [apply (sim_put val (set_msgq rn (map (mkqm s0) evs)) rn (fun _ rn1 i1 => rn1 = set_msgq rn (map (mkqm s0) evs) /\ i1 = [])); auto|].
    cbn beta. intros u1 rn1 i1 (-> & ->).
    eapply sim_conseq.
    { apply (Lm_pool0 fuel' s0 Hfuel evs fl (set_msgq rn (map (mkqm s0) evs)) p);
        [eapply okmL_set_msgq; exact Hok | destruct rn; exact Hp | intros r Hr; destruct rn; exact (Har r Hr) | destruct rn; exact Hrun | lia
        | replace (curseq (set_msgq rn (map (mkqm s0) evs))) with (curseq rn) by (destruct rn; reflexivity); exact Hap | exact Hall]. }
    cbn beta. intros n rn' i H. rewrite abs_set_msgq in H. rewrite !app_nil_r. exact H.
  - apply (Lm_pool0 fuel' s0 Hfuel evs fl rn p Hok Hp Har Hrun ltac:(lia) Hap Hall).
Qed.

Lemma Lm_process_pool fuel' s0 mk evs fl rn : depth mc + 2 <= fuel' -> is_mk mk ->
  okmLq (mhead mk ++ map (mkqm s0) evs, None) mc rn -> processing rn = false -> act_run rn -> running rn = true ->
  2 * length evs + 2 <= fl -> apart s0 (curseq rn) (length evs) -> Forall (fun e => e_ty e <> EV_NONE) evs ->
  sim val (process_event_pool cf parents contained mc children (mpei cf parents contained mc children fuel') fl 0) rn
      (fun _ rn' items => okm mc rn' /\ running rn' = true /\ (items, abs rn') = sp_drain pol mc val evs (abs rn)).
Proof.
  intros Hfuel Hmk Hok Hp Har Hrun Hfl Hap Hall. unfold process_event_pool.
  eapply sim_bind; [apply (sim_get val rn (fun a rn1 i1 => a = rn /\ rn1 = rn /\ i1 = [])); auto|].
  cbn beta. intros a rn1 i1 (-> & -> & ->). pose proof (okmL_msgq _ _ Hok) as Hq. cbn [fst] in Hq.
  assert (Loop : sim val (pool_loop cf parents contained mc children (mpei cf parents contained mc children fuel') fl 0 0 0) rn
            (fun _ rn' items => okm mc rn' /\ running rn' = true /\ (items ++ [], abs rn') = sp_drain pol mc val evs (abs rn))).
  { eapply sim_conseq; [apply (Lm_pool fuel' s0 mk Hfuel Hmk evs fl rn 0 Hok Hp Har Hrun Hfl Hap Hall)|].
    cbn beta. intros n rn' i H. rewrite app_nil_r. exact H. }
  destruct mk as [q|]; [|destruct evs as [|e t]].
  - rewrite Hq. cbn [mhead app]. rewrite Hp. exact Loop.
  - rewrite Hq. cbn [mhead app map]. apply sim_ret. split; [|split; [exact Hrun | reflexivity]].
    apply okm_unfold. split; [exact Hok|]. split; [exact Hp | intros _; exact Har].
  - rewrite Hq. cbn [mhead app map]. rewrite Hp. exact Loop.
Qed.

(* process_event from outside while events are stored: the event's own step, then every stored event *)
Lemma Lm_pei_direct_q s0 mk evs fuel ev rn : is_mk mk ->
  okmLq (mhead mk ++ map (mkqm s0) evs, None) mc rn -> processing rn = false -> act_run rn -> running rn = true ->
  depth mc + 3 <= fuel -> 2 * length evs + 3 <= fuel -> e_ty ev <> EV_NONE -> Forall (fun e => e_ty e <> EV_NONE) evs ->
  apart s0 (wrap_mp11 (curseq rn + 1)) (length evs) ->
  sim val (mpei cf parents contained mc children fuel ev INFO_DIRECT) rn
      (fun code rn' items => okm mc rn' /\ running rn' = true /\
         (let o := sp_process pol mc ev val (abs rn) in
          let '(i, c') := sp_drain pol mc val evs (o_conf o) in
          items = i ++ o_items o /\ abs rn' = c' /\ code_ok code (o_taken o) (o_rejected o))).
Proof.
  intros Hmk HokL Hproc Har Hrunning Hfuel Hfl Hev Hall Hap.
  destruct fuel as [|f]; [lia|]. cbn [mpei]. unfold mpei_body.
  eapply sim_bind; [apply (sim_get val rn (fun a rn1 i1 => a = rn /\ rn1 = rn /\ i1 = [])); auto|].
  cbn beta. intros a rn0 i0 (-> & -> & ->). rewrite mblocked_false, Hproc, defers_false.
  change (Nat.eqb INFO_DIRECT INFO_POOL) with false. cbn [negb orb andb]. rewrite andb_false_r. cbn [when].
  set (c1 := wrap_mp11 (curseq rn + 1)) in *.
  eapply sim_bind; [apply (sim_modify val _ rn (fun _ rn1 i1 => rn1 = set_curseq rn c1 /\ i1 = [])); auto|].
  cbn beta. intros u0 rn1 i1 (-> & ->).
  eapply sim_bind; [apply (sim_modify val _ _ (fun _ rn2 i2 => rn2 = set_processing (set_curseq rn c1) true /\ i2 = [])); auto|].
  cbn beta. intros u1 rn2 i2 (-> & ->).
  set (l := mhead mk ++ map (mkqm s0) evs) in *.
  assert (Hl0 : lvlq (l, Some c1) (set_processing (set_curseq rn c1) true)).
  { split; [apply okmL_set_processing; eapply okmL_set_curseq_to; exact HokL|].
    intros r Hr. destruct rn; exact (Har r Hr). }
  eapply sim_bind; [apply sim_catch; apply (Lm_level (q:=(l, Some c1)) f ev INFO_DIRECT _ Hl0); [lia | exact Hev]|].
  cbn beta. intros code rn3 i3 (Hl3 & Hp3 & Hr3 & Hres).
  rewrite abs_set_processing, abs_set_curseq in Hres.
  eapply sim_bind; [apply (sim_modify val _ rn3 (fun _ rn4 i4 => rn4 = set_processing rn3 false /\ i4 = [])); auto|].
  cbn beta. intros u4 rn4 i4 (-> & ->).
  destruct Hl3 as (HokL3 & Har3).
  eapply sim_bind with (P := fun _ rn5 i5 => okm mc rn5 /\ running rn5 = true /\ (i5, abs rn5) = sp_drain pol mc val evs (abs rn3)).
  { eapply sim_bind.
    { apply (Lm_process_pool f s0 mk evs f (set_processing rn3 false)); [lia | exact Hmk | apply okmL_set_processing; eapply okmL_forget; exact HokL3
        | destruct rn3; reflexivity | intros r Hr; destruct rn3; exact (Har3 r Hr) | destruct rn3, rn; cbn in *; congruence | lia | | exact Hall].
      replace (curseq (set_processing rn3 false)) with c1 by (rewrite <- (okmL_seq _ _ HokL3); destruct rn3; reflexivity). exact Hap. }
    cbn beta. intros n5 rn5 i5 (H1 & H2 & H3). apply sim_ret. rewrite app_nil_l. rewrite abs_set_processing in H3. auto. }
  cbn beta. intros u5 rn5 i5 (Hok5 & Hr5 & E5). apply sim_ret. rewrite !app_nil_l, !app_nil_r.
  split; [exact Hok5|]. split; [exact Hr5|].
  rewrite sp_process_unfold_rootm. cbn zeta. cbn [o_conf o_items o_taken o_rejected].
  cbn zeta in Hres. change (Nat.eqb INFO_DIRECT INFO_SUBMACHINE) with false in Hres. cbn [negb andb] in Hres.
  destruct Hres as (H1 & H2 & H3). rewrite H1. rewrite <- H2.
  destruct (sp_drain pol mc val evs (abs rn3)) as [i c'] eqn:Ed. inversion E5; subst i5 c'.
  split; [reflexivity|]. split; [reflexivity | exact H3].
Qed.

(* process_event_pool(1): exactly the oldest stored occurrence, as one complete step; its cell stays behind, marked,
   and the sequence counter is not advanced *)
Lemma Lm_process_pool1 fuel' s0 mk e evs fl rn : depth mc + 2 <= fuel' -> is_mk mk ->
  okmLq (mhead mk ++ map (mkqm s0) (e :: evs), None) mc rn -> processing rn = false -> act_run rn -> running rn = true ->
  3 <= fl -> Z.eqb s0 (curseq rn) = false -> e_ty e <> EV_NONE ->
  sim val (process_event_pool cf parents contained mc children (mpei cf parents contained mc children fuel') fl 1) rn
      (fun _ rn' items => okmLq (QEv e 0 s0 true :: map (mkqm s0) evs, Some (curseq rn)) mc rn' /\ processing rn' = false /\
         act_run rn' /\ running rn' = true /\
         items = o_items (sp_process pol mc e val (abs rn)) /\ abs rn' = o_conf (sp_process pol mc e val (abs rn))).
Proof.
  intros Hfuel Hmk Hok Hp Har Hrun Hfl Hseq He. unfold process_event_pool.
  eapply sim_bind; [apply (sim_get val rn (fun a rn1 i1 => a = rn /\ rn1 = rn /\ i1 = [])); auto|].
  cbn beta. intros a rn1 i1 (-> & -> & ->). pose proof (okmL_msgq _ _ Hok) as Hq. cbn [fst] in Hq.
  assert (Step : forall f rn0, okmLq (map (mkqm s0) (e :: evs), None) mc rn0 -> processing rn0 = false -> act_run rn0 -> running rn0 = true ->
            curseq rn0 = curseq rn -> abs rn0 = abs rn ->
            sim val (pool_loop cf parents contained mc children (mpei cf parents contained mc children fuel') (S f) 0 0 1) rn0
              (fun _ rn' items => okmLq (QEv e 0 s0 true :: map (mkqm s0) evs, Some (curseq rn)) mc rn' /\ processing rn' = false /\
                 act_run rn' /\ running rn' = true /\
                 items = o_items (sp_process pol mc e val (abs rn)) /\ abs rn' = o_conf (sp_process pol mc e val (abs rn)))).
  { intros f rn0 Hok0 Hp0 Har0 Hrun0 Hc0 Ha0. cbn [pool_loop].
    eapply sim_bind; [apply (sim_get val rn0 (fun a rn1 i1 => a = rn0 /\ rn1 = rn0 /\ i1 = [])); auto|].
    cbn beta. intros a rn1 i1 (-> & -> & ->). rewrite (okmL_msgq _ _ Hok0). cbn [fst map nth_error].
    change (mkqm s0 e) with (QEv e 0 s0 false). cbn [is_marked]. cbv iota. rewrite Hc0, Hseq, defers_false. cbn [orb].
    unfold mark_at. cbn [nth_error upd].
    set (q1 := QEv e 0 s0 true :: map (mkqm s0) evs).
    eapply sim_bind; [apply (sim_put val (set_msgq rn0 q1) rn0 (fun _ rn1 i1 => rn1 = set_msgq rn0 q1 /\ i1 = [])); auto|].
    cbn beta. intros u1 rn1 i1 (-> & ->).
    eapply sim_bind.
    { apply (Lm_pei_pool (l:=q1) fuel' e (set_msgq rn0 q1)); [eapply okmL_set_msgq; exact Hok0 | destruct rn0; exact Hp0 | | destruct rn0; exact Hrun0 | exact Hfuel | exact He].
      intros r Hr. destruct rn0; exact (Har0 r Hr). }
    cbn beta. intros code rn2 i2 (Hok2 & Har2 & Hp2 & Hr2 & Hi2 & Ha2 & Hc2).
    rewrite abs_set_msgq, Ha0 in Hi2, Ha2, Hc2.
    destruct (code_not_deferred _ _ _ Hc2) as (Ed & Eb). rewrite Ed. cbn [negb andb Nat.eqb].
    apply sim_ret. rewrite !app_nil_r.
    replace (curseq (set_msgq rn0 q1)) with (curseq rn) in Hok2 by (rewrite <- Hc0; destruct rn0; reflexivity).
    auto 10. }
  destruct fl as [|fl]; [lia|].
  destruct mk as [q|]; cbn [mhead app] in Hq, Hok; rewrite Hq.
  - cbn [map]. rewrite Hp. cbn [pool_loop].
    eapply sim_bind; [apply (sim_get val rn (fun a rn1 i1 => a = rn /\ rn1 = rn /\ i1 = [])); auto|].
    cbn beta. intros a rn1 i1 (-> & -> & ->). rewrite Hq. cbn [nth_error]. cbn in Hmk. rewrite Hmk. cbn [remove_at].
    set (l0 := mkqm s0 e :: map (mkqm s0) evs).
    eapply sim_bind; [apply (sim_put val (set_msgq rn l0) rn (fun _ rn1 i1 => rn1 = set_msgq rn l0 /\ i1 = [])); auto|].
    cbn beta. intros u1 rn1 i1 (-> & ->).
    destruct fl as [|fl]; [lia|].
    eapply sim_conseq.
    { apply (Step fl (set_msgq rn l0)); [eapply okmL_set_msgq; exact Hok | destruct rn; exact Hp | intros r Hr; destruct rn; exact (Har r Hr)
        | destruct rn; exact Hrun | destruct rn; reflexivity | apply abs_set_msgq]. }
    cbn beta. intros n rn' i H. rewrite !app_nil_r. exact H.
  - cbn [map]. rewrite Hp.
    eapply sim_conseq; [apply (Step fl rn Hok Hp Har Hrun eq_refl eq_refl)|].
    cbn beta. intros n rn' i H. rewrite !app_nil_r. exact H.
Qed.

(* ---- leaving and entering the whole level ---- *)
Lemma Lm_exit_states {q} fuel ev : forall l rn items0, okmLq q mc rn -> (forall s, In s l -> kid_running rn s) ->
  sim val (mexit_states cf contained mc children fuel ev l) rn
      (fun _ rn' items => okmLq q mc rn' /\ processing rn' = processing rn /\ running rn' = running rn /\ act rn' = act rn /\
         (forall s', kid_running rn s' -> kid_running rn' s') /\
         (items ++ items0, abs rn') = fold_left (fun acc s => sp_exit_state (sp_exit_subs mc) ev s acc) l (items0, abs rn)).
Proof.
  induction l as [|s t IH]; intros rn items0 Hok Hrun; cbn [mexit_states fold_left].
  - apply sim_ret. split; [exact Hok|]. auto.
  - eapply sim_bind; [apply (Lm_exit (q:=q) fuel s ev rn Hok); apply Hrun; left; reflexivity|].
    cbn beta. intros u rn1 i1 (Hok1 & Hp1 & Hr1 & Ha1 & Hk1 & E1).
    eapply sim_conseq; [apply (IH rn1 (i1 ++ items0) Hok1); intros s' Hs'; apply Hk1; apply Hrun; right; exact Hs'|].
    cbn beta. intros u2 rn2 i2 (Hok2 & Hp2 & Hr2 & Ha2 & Hk2 & E2).
    split; [exact Hok2|]. split; [congruence|]. split; [congruence|]. split; [congruence|]. split; [auto|].
    rewrite <- app_assoc, E2. f_equal.
    rewrite (sp_exit_state_acc (sp_exit_subs mc) ev s items0 (abs rn)). rewrite <- E1. reflexivity.
Qed.

Lemma Lm_enter_states {q} fuel ev : 1 <= fuel -> forall l rid rn items0, okmLq q mc rn ->
  sim val (enter_states cf contained mc children fuel ev l rid) rn
      (fun _ rn' items => okmLq q mc rn' /\ processing rn' = processing rn /\ running rn' = running rn /\ act rn' = act rn /\
         (forall s, In s l -> kid_running rn' s) /\ (forall s', kid_running rn s' -> kid_running rn' s') /\
         (items ++ items0, abs rn') = fold_left (fun acc s => sp_enter_state (sp_enter_subs mc) ev s acc) l (items0, abs rn)).
Proof.
  intros Hf. induction l as [|s t IH]; intros rid rn items0 Hok; cbn [enter_states fold_left].
  - apply sim_ret. split; [exact Hok|]. repeat (split; [reflexivity|]). split; [intros s []|]. auto.
  - eapply sim_bind; [apply (Lm_entry (q:=q) false fuel s ev rn Hok Hf)|].
    cbn beta. intros u rn1 i1 (Hok1 & Hp1 & Hr1 & Ha1 & Hks & Hk1 & E1).
    unfold on_state_entry_completed. rewrite core_no_state_completion, andb_false_r.
    eapply sim_bind; [apply (sim_ret val tt rn1 (fun _ rn2 i2 => rn2 = rn1 /\ i2 = [])); auto|].
    cbn beta. intros u2 rn2 i2 (-> & ->).
    eapply sim_conseq; [apply (IH (S rid) rn1 (i1 ++ items0) Hok1)|].
    cbn beta. intros u3 rn3 i3 (Hok3 & Hp3 & Hr3 & Ha3 & Hin3 & Hk3 & E3).
    split; [exact Hok3|]. split; [congruence|]. split; [congruence|]. split; [congruence|].
    split; [intros s' [<-|Hs']; [apply Hk3; exact Hks | apply Hin3; exact Hs']|]. split; [auto|].
    rewrite ?app_nil_r, <- app_assoc, E3. f_equal.
    rewrite (sp_enter_state_acc (sp_enter_subs mc) ev s items0 (abs rn)). rewrite <- E1. reflexivity.
Qed.

(* nothing of this level or below has a transition for the event type *)
Lemma Lm_silent ev c :
  existsb (fun t => trig_matches parents true t (e_ty ev)) (mlevel_trigs mc children) = false ->
  sp_level pol mc ev val c = Out false false [] c.
Proof.
  intros Hs. unfold mlevel_trigs in Hs. rewrite !existsb_app in Hs.
  apply orb_false_iff in Hs. destruct Hs as (Hrows & Hs). apply orb_false_iff in Hs. destruct Hs as (Hirows & Hs).
  apply orb_false_iff in Hs. destruct Hs as (Hsirows & Hkids).
  assert (Hun : forall l, Forall good l -> existsb (fun t => trig_matches parents true t (e_ty ev)) (map r_trig l) = false ->
                          filter (sp_matches (e_ty ev)) l = []).
  { intros l Hg He. apply filter_nil_Forall. intros x Hx. eapply Forall_forall in Hg; eauto. apply (good_unmatched parents Hflat); [exact Hg|].
    rewrite existsb_forall in He. apply He. apply in_map. exact Hx. }
  assert (Hcand : forall s, sp_candidates mc s (e_ty ev) = []).
  { intros s. unfold sp_candidates.
    assert (E1 : filter (fun x => Nat.eqb (r_src x) s && sp_matches (e_ty ev) x) (m_rows mc) = []).
    { apply filter_nil_Forall. intros x Hx. pose proof (core_rows_good mc Hcore) as Hg. eapply Forall_forall in Hg; eauto.
      rewrite (good_unmatched parents Hflat _ x Hg); [apply andb_false_r|].
      rewrite existsb_forall in Hrows. apply Hrows. apply in_map. exact Hx. }
    rewrite E1. cbn [rev]. rewrite app_nil_r. destruct (is_sub mc s) eqn:Eis; [reflexivity|].
    destruct (core_state mc Hcore s) as (_ & Hsi & _). rewrite (Hun _ Hsi); [reflexivity|].
    rewrite existsb_forall in Hsirows |- *. intros t Ht. apply Hsirows. apply in_flat_map.
    destruct (Nat.lt_ge_cases s (length (m_states mc))) as [L|G].
    - exists (get_state mc s). split; [apply nth_In; exact L|].
      unfold is_sub in Eis. destruct (s_sub (get_state mc s)); [discriminate | exact Ht].
    - unfold get_state in Ht. rewrite nth_overflow in Ht by exact G. cbn in Ht. contradiction. }
  assert (Hreg : forall r c0, sp_region pol mc (sp_level_subs pol mc) ev val r c0 = Out false false [] c0).
  { intros r c0. unfold sp_region. rewrite Hcand. rewrite level_subs_nth.
    destruct (s_sub (get_state mc (nth r (c_act c0) 0))) as [m|] eqn:Es; [|reflexivity].
    destruct (nth (nth r (c_act c0) 0) (c_kids c0) None) as [k|] eqn:Ek; [|reflexivity].
    destruct (mchild_some _ m Es) as (co & Hco & Hsp).
    rewrite (cm_silent m co Hsp ev k).
    - cbn [o_taken o_rejected o_items o_conf sp_rows map app orb]. rewrite c_set_kid_same by exact Ek. reflexivity.
    - rewrite existsb_forall in Hkids |- *. intros t Ht. apply Hkids. apply in_flat_map.
      exists (Some co). split; [|exact Ht]. unfold mchild in Hco. rewrite <- Hco. apply nth_In.
      destruct (Nat.lt_ge_cases (nth r (c_act c0) 0) (length children)) as [L|G]; [exact L|].
      rewrite nth_overflow in Hco by exact G. discriminate. }
  rewrite (sp_level_unfold mc Hcore pol val), (sp_regions_fold mc pol val).
  assert (Hfold : forall l o, o = Out false false [] (o_conf o) -> fold_left (reg_step ev) l o = o).
  { induction l as [|r l IH]; intros o Ho; cbn [fold_left]; [reflexivity|].
    assert (E : reg_step ev o r = o).
    { unfold Lemmas_Core.reg_step. rewrite Hreg. rewrite Ho. cbn. reflexivity. }
    rewrite E. apply IH. exact Ho. }
  rewrite Hfold by reflexivity. cbn [o_taken o_rejected o_items o_conf].
  rewrite (Hun _ (core_irows_good mc Hcore) Hirows). reflexivity.
Qed.

End Mp11Spec.

(* ============================ every level of every core definition ============================ *)
Section Mp11Whole.
Variable cf : cfg.
Hypothesis Hbe : c_be cf = Mp11.
Variable parents : list (option nat).
Hypothesis Hflat : forall e, nth e parents None = None.
Variable val : list nat.
Hypothesis Hresets : mp11_entry_throw_resets = true.
Notation pol := (c_pol cf).

Definition mkidsops (mc:machine) : list (option child_ops) :=
  map (fun st => match s_sub st with Some c => Some (build cf parents true c) | None => None end) (m_states mc).
Lemma build_mp11 mc contained : build cf parents contained mc = mp11_ops cf parents contained mc (mkidsops mc).
Proof. destruct mc. unfold build; fold build. rewrite Hbe. reflexivity. Qed.

Lemma mcore_sub mc s c : core mc -> s_sub (get_state mc s) = Some c -> core c.
Proof.
  intros Hc Hs. unfold get_state in Hs. destruct mc as [states inits rows irows hist]. cbn in Hc. destruct Hc as (_ & _ & Hall).
  cbn [m_states] in Hs. pose proof (core_states_facts states s Hall) as (_ & _ & _ & H). rewrite Hs in H. exact H.
Qed.

Lemma In_act_run rn s : act_run rn -> In s (act rn) -> kid_running rn s.
Proof. intros H Hin. destruct (In_nth _ _ 0 Hin) as (r & Hr & <-). apply H. exact Hr. Qed.

Lemma fold_whole (f:nat -> sres -> sres) (Hf : forall s acc, c_act (snd (f s acc)) = c_act (snd acc)) c n :
  length (c_act c) = n ->
  fold_left (fun acc r => f (nth r (c_act (snd acc)) 0) acc) (seqn 0 n) ([], c) = fold_left (fun acc s => f s acc) (c_act c) ([], c).
Proof. intros Hn. rewrite (fold_slots f Hf (c_act c) n 0 ([], c)); [reflexivity | reflexivity | lia]. Qed.

Theorem mp11_cspecm : forall mc contained, core mc -> cspecm cf parents val mc (build cf parents contained mc).
Proof.
  intros mc. induction mc as [mc IH] using machine_sub_ind. intros contained Hcore.
  assert (Hch : forall s, match s_sub (get_state mc s) with
                          | Some c => exists co, nth s (mkidsops mc) None = Some co /\ cspecm cf parents val c co
                          | None => nth s (mkidsops mc) None = None
                          end).
  { intros s. unfold mkidsops. rewrite nth_map_sub. fold (get_state mc s).
    destruct (s_sub (get_state mc s)) as [c|] eqn:Es; [|reflexivity].
    exists (build cf parents true c). split; [reflexivity|]. apply (IH s c Es true). eapply mcore_sub; eauto. }
  rewrite build_mp11. constructor; cbn [mp11_ops co_exit_pre co_exit_post co_entry_pre co_entry_post co_pei co_trigs co_defers].
  - (* leaving *)
    intros fuel ev kn Hok Hrun. apply okm_unfold in Hok. destruct Hok as (HokL & Hp & Har). specialize (Har Hrun).
    unfold mon_exit_pre.
    eapply sim_bind; [apply (sim_get val kn (fun a rn1 i1 => a = kn /\ rn1 = kn /\ i1 = [])); auto|].
    cbn beta. intros a rn1 i1 (-> & -> & ->). rewrite Hrun.
    eapply sim_conseq; [eapply Lm_exit_states with (items0 := []); eauto; intros s Hs; apply In_act_run; assumption|].
    cbn beta. intros u kn' items (H1 & H2 & H3 & H4 & H5 & H6). rewrite !app_nil_r in H6. split; [|split].
    + apply okm_unfold. split; [exact H1|]. split; [congruence|]. intros _ r Hr. rewrite H4 in *. apply H5. apply Har. exact Hr.
    + congruence.
    + rewrite ?app_nil_r. rewrite H6. erewrite sp_exit_unfold by eauto.
      rewrite (fold_whole (sp_exit_state (sp_exit_subs mc) ev) (sp_exit_state_act _ ev) (abs kn) (m_nreg mc)); [rewrite abs_act; reflexivity|].
      rewrite abs_act. destruct HokL as (_ & L & _). exact L.
  - intros ev kn Hok. apply okm_unfold in Hok. destruct Hok as (HokL & Hp & Har). unfold mon_exit_post.
    apply sim_modify.
    assert (E : abs (match m_hist mc with HNone => kn | _ => set_hist kn (act kn) end) = sp_post_exit mc (abs kn)).
    { unfold sp_post_exit. destruct (m_hist mc); [reflexivity | |]; rewrite abs_set_hist, abs_act; reflexivity. }
    split; [|split; [destruct (m_hist mc); destruct kn; reflexivity | split; [reflexivity | exact E]]].
    apply okm_unfold. destruct HokL as (Hq & La & Lh & Hk).
    destruct (m_hist mc); (split; [|split; [destruct kn; exact Hp | destruct kn; exact Har]]);
      unfold okmL, okmLq; destruct kn; cbn in *; auto.
  - intros ev kn Hok. unfold mon_entry_pre, preprocess_entry. apply sim_modify. auto.
  - (* entering *)
    intros fuel ev kn Hok Hf. apply okm_unfold in Hok. destruct Hok as (HokL & Hp & Har).
    set (kn0 := set_processing (set_running kn true) true).
    unfold mon_entry_post.
    set (rnA := set_act kn0 (sp_hist_entry mc (abs kn) (e_ty ev))).
    eapply sim_bind with (P := fun _ rn1 i1 => i1 = [] /\ okmL mc rn1 /\ abs rn1 = abs rnA /\ processing rn1 = true /\ running rn1 = true).
    { unfold history_set_ids, sp_hist_entry in *. destruct HokL as ((Hq & _) & La & Lh & Hk). cbn [fst] in Hq.
      assert (Li : length (m_inits mc) = m_nreg mc) by reflexivity.
      destruct (m_hist mc) as [| |evs]; [| |destruct (memb (e_ty ev) evs)]; apply sim_modify; (split; [reflexivity|]);
        unfold kn0, rnA, okmL, okmLq, seq_is; rewrite ?abs_hist; destruct kn; cbn in *; repeat split; auto. }
    cbn beta. intros u rn1 i1 (-> & Hok1 & Ea & Hp1 & Hr1).
    eapply sim_bind; [apply (sim_get val rn1 (fun a rn2 i2 => a = rn1 /\ rn2 = rn1 /\ i2 = [])); auto|].
    cbn beta. intros a rn2 i2 (-> & -> & ->).
    eapply sim_bind; [eapply Lm_enter_states with (items0 := []); eauto|].
    cbn beta. intros u3 rn3 i3 (Hok3 & Hp3 & Hr3 & Ha3 & Hin3 & Hk3 & E3). rewrite app_nil_r in E3.
    unfold postprocess_entry.
    eapply sim_bind; [apply (sim_modify val _ rn3 (fun _ rn4 i4 => rn4 = set_processing rn3 false /\ i4 = [])); auto|].
    cbn beta. intros u4 rn4 i4 (-> & ->).
    assert (Hq : msgq (set_processing rn3 false) = []) by (destruct Hok3 as ((Hq & _) & _); destruct rn3; exact Hq).
    eapply sim_bind; [eapply sim_pool_empty; eauto|]. cbn beta. intros u5 rn5 i5 (-> & ->).
    apply sim_ret. rewrite !app_nil_l, !app_nil_r. split; [|split].
    + apply okm_unfold. split; [apply okmL_set_processing; exact Hok3|]. split; [destruct rn3; reflexivity|].
      intros _ r Hr. replace (act (set_processing rn3 false)) with (act rn3) in * by (destruct rn3; reflexivity).
      assert (Hkr : kid_running rn3 (nth r (act rn3) 0)) by (apply Hin3; rewrite <- Ha3; apply nth_In; exact Hr).
      unfold kid_running in *. destruct rn3; exact Hkr.
    + destruct rn3; cbn in *. congruence.
    + rewrite abs_set_processing, E3. erewrite sp_enter_unfold by eauto.
      replace (c_set_act (abs kn) (sp_hist_entry mc (abs kn) (e_ty ev))) with (abs rnA)
        by (unfold rnA, kn0; rewrite abs_set_act, abs_set_processing, abs_set_running; reflexivity).
      rewrite <- Ea.
      rewrite (fold_whole (sp_enter_state (sp_enter_subs mc) ev) (sp_enter_state_act _ ev) (abs rn1) (m_nreg mc)); [rewrite abs_act; reflexivity|].
      rewrite abs_act. destruct Hok1 as (_ & L & _). exact L.
  - (* an event *)
    intros fuel ev kn Hok Hrun Hfuel Hev.
    eapply sim_conseq; [eapply Lm_pei; eauto; discriminate|].
    unfold mlevel_post. cbn beta. intros code kn' items (H1 & H2 & H3). split; [exact H1|]. split; [exact H2|].
    cbn zeta in H3. cbn in H3. exact H3.
  - intros ev k Hs. eapply Lm_silent; eauto.
  - intros kn ety. eapply defers_false; eauto.
Qed.


(* ---- the outermost machine ---- *)
Lemma mkids_hch mc : core mc ->
  forall s, match s_sub (get_state mc s) with
            | Some c => exists co, nth s (mkidsops mc) None = Some co /\ cspecm cf parents val c co
            | None => nth s (mkidsops mc) None = None
            end.
Proof.
  intros Hcore s. unfold mkidsops. rewrite nth_map_sub. fold (get_state mc s).
  destruct (s_sub (get_state mc s)) as [c|] eqn:Es; [|reflexivity].
  exists (build cf parents true c). split; [reflexivity|]. apply mp11_cspecm. eapply mcore_sub; eauto.
Qed.

Theorem mp11_process_event : forall mc, core mc -> forall fuel ev rn,
  okm mc rn -> running rn = true -> depth mc + 2 <= fuel -> e_ty ev <> EV_NONE ->
  sim val (co_pei (build cf parents false mc) fuel ev INFO_DIRECT) rn
      (fun code rn' items => okm mc rn' /\ running rn' = true /\
         items = o_items (sp_process pol mc ev val (abs rn)) /\ abs rn' = o_conf (sp_process pol mc ev val (abs rn)) /\
         code_ok code (o_taken (sp_process pol mc ev val (abs rn))) (o_rejected (sp_process pol mc ev val (abs rn)))).
Proof.
  intros mc Hcore fuel ev rn Hok Hrun Hfuel Hev. pose proof (mkids_hch mc Hcore) as Hch. rewrite build_mp11. cbn [mp11_ops co_pei].
  eapply sim_conseq; [eapply Lm_pei; eauto; discriminate|].
  unfold mlevel_post. cbn beta. intros code rn' items (H1 & H2 & H3). split; [exact H1|]. split; [exact H2|].
  cbn zeta in H3. destruct H3 as (H3 & H4 & H5).
  unfold sp_process. change (Nat.eqb INFO_DIRECT INFO_SUBMACHINE) with false in H3. cbn [negb andb] in H3.
  destruct (o_taken (sp_level pol mc ev val (abs rn)) || o_rejected (sp_level pol mc ev val (abs rn))) eqn:E.
  - cbn [negb] in H3. rewrite app_nil_l in H3. auto.
  - cbn [negb] in H3. cbn [o_items o_conf o_taken o_rejected]. apply orb_false_iff in E. destruct E as (E1 & E2).
    rewrite E1, E2 in H5. auto.
Qed.

(* start() of a stopped machine without history of its own; stop() of a started one *)
Theorem mp11_start : forall mc, core mc -> m_hist mc = HNone -> forall fuel rn, okm mc rn -> running rn = false -> 1 <= fuel ->
  sim val (co_start (build cf parents false mc) fuel) rn
      (fun _ rn' items => okm mc rn' /\ running rn' = true /\ (items, abs rn') = sp_start_obs (act rn) mc (abs rn)).
Proof.
  intros mc Hcore Hh fuel rn Hok Hnr Hf. pose proof (mkids_hch mc Hcore) as Hch. pose proof (mp11_cspecm mc false Hcore) as Hsp.
  rewrite build_mp11. cbn [mp11_ops co_start]. unfold mstart.
  eapply sim_bind; [apply (sim_get val rn (fun a rn1 i1 => a = rn /\ rn1 = rn /\ i1 = [])); auto|].
  cbn beta. intros a rn1 i1 (-> & -> & ->). rewrite Hnr, Hresets. apply sim_on_throw.
  eapply sim_bind; [unfold mon_entry_pre, preprocess_entry; apply (sim_modify val _ rn (fun _ rn1 i1 => rn1 = set_processing (set_running rn true) true /\ i1 = [])); auto|].
  cbn beta. intros u1 rn1 i1 (-> & ->).
  eapply sim_bind; [eapply sim_mcb|]. cbn beta. intros u2 rn2 i2 (-> & ->).
  pose proof (cm_entry_post cf parents val mc _ Hsp fuel (Evt EV_INIT 0) rn Hok Hf) as Hpost.
  rewrite build_mp11 in Hpost. cbn [mp11_ops co_entry_post] in Hpost.
  eapply sim_conseq; [exact Hpost|]. cbn beta. intros u3 rn3 i3 (H1 & H2 & H3).
  split; [exact H1|]. split; [exact H2|]. unfold sp_start_obs.
  unfold sp_hist_entry in H3. rewrite Hh in H3. rewrite <- H3. rewrite !app_nil_r.
  destruct rn; reflexivity.
Qed.

Theorem mp11_stop : forall mc, core mc -> forall fuel rn, okm mc rn -> running rn = true ->
  sim val (co_stop (build cf parents false mc) fuel) rn
      (fun _ rn' items => okm mc rn' /\ running rn' = false /\ (items, abs rn') = sp_stop mc (abs rn)).
Proof.
  intros mc Hcore fuel rn Hok Hrun. pose proof (mkids_hch mc Hcore) as Hch. pose proof (mp11_cspecm mc false Hcore) as Hsp.
  rewrite build_mp11. cbn [mp11_ops co_stop]. unfold mstop.
  eapply sim_bind; [apply (sim_get val rn (fun a rn1 i1 => a = rn /\ rn1 = rn /\ i1 = [])); auto|].
  cbn beta. intros a rn1 i1 (-> & -> & ->). rewrite Hrun.
  pose proof (cm_exit_pre cf parents val mc _ Hsp fuel (Evt EV_EXIT 0) rn Hok Hrun) as Hpre.
  rewrite build_mp11 in Hpre. cbn [mp11_ops co_exit_pre] in Hpre.
  eapply sim_bind; [exact Hpre|]. cbn beta. intros u1 rn1 i1 (Hok1 & Hr1 & E1).
  eapply sim_bind; [eapply sim_mcb|]. cbn beta. intros u2 rn2 i2 (-> & ->).
  pose proof (cm_exit_post cf parents val mc _ Hsp (Evt EV_EXIT 0) rn1 Hok1) as Hpost.
  rewrite build_mp11 in Hpost. cbn [mp11_ops co_exit_post] in Hpost.
  eapply sim_bind; [exact Hpost|]. cbn beta. intros u3 rn3 i3 (Hok3 & Hr3 & -> & E3).
  apply sim_modify. split; [|split; [destruct rn3; reflexivity|]].
  - apply okm_unfold in Hok3. destruct Hok3 as (A & B & C). apply okm_unfold.
    split; [apply okmL_set_running; exact A|]. split; [destruct rn3; exact B|]. destruct rn3; cbn. discriminate.
  - unfold sp_stop. rewrite <- E1. rewrite !app_nil_l. cbn [app]. rewrite ?app_nil_r. rewrite abs_set_running, abs_act, E3. reflexivity.
Qed.

(* ---- events stored from outside (enqueue_event) on the outermost machine ---- *)
(* between operations: the pool holds the stored occurrences, oldest first, each with the sequence value just behind
   the counter; nothing is being processed *)
Definition pool_of (rn:rnode) (pend:list evt) : list qitem := map (mkqm (wrap_mp11 (curseq rn - 1))) pend.
(* mk: the cell process_event_pool(1) may have left behind (dispatched, marked, not yet removed) *)
Definition quietm2 (mk:option qitem) (pend:list evt) (mc:machine) (rn:rnode) : Prop :=
  okmLq (mhead mk ++ pool_of rn pend, None) mc rn /\ is_mk mk /\ processing rn = false /\ (running rn = true -> act_run rn).
Definition quietm := quietm2 None.
Lemma quietm_nil mc rn : okm mc rn -> quietm [] mc rn.
Proof. intros H. apply okm_unfold in H. destruct H as (A & B & C). unfold quietm, quietm2, pool_of. cbn [mhead map app]. split; [exact A|]. split; [exact I|]. split; assumption. Qed.

Theorem mp11_process_event_q : forall mc, core mc -> forall mk pend fuel ev rn,
  quietm2 mk pend mc rn -> running rn = true -> depth mc + 3 <= fuel -> 2 * length pend + 3 <= fuel -> (Z.of_nat fuel < MW)%Z ->
  e_ty ev <> EV_NONE -> Forall (fun e => e_ty e <> EV_NONE) pend ->
  sim val (co_pei (build cf parents false mc) fuel ev INFO_DIRECT) rn
      (fun code rn' items => okm mc rn' /\ running rn' = true /\
         (let o := sp_process pol mc ev val (abs rn) in
          let '(i, c') := sp_drain pol mc val pend (o_conf o) in
          items = i ++ o_items o /\ abs rn' = c' /\ code_ok code (o_taken o) (o_rejected o))).
Proof.
  intros mc Hcore mk pend fuel ev rn (Hok & Hmk & Hp & Har) Hrun Hfuel Hfl Hmw Hev Hall.
  pose proof (mkids_hch mc Hcore) as Hch. rewrite build_mp11. cbn [mp11_ops co_pei].
  unfold pool_of in Hok.
  eapply Lm_pei_direct_q; eauto.
  apply apart_stored_next. lia.
Qed.

Theorem mp11_drain_q : forall mc, core mc -> forall mk pend fuel rn,
  quietm2 mk pend mc rn -> running rn = true -> depth mc + 2 <= fuel -> 2 * length pend + 2 <= fuel -> (Z.of_nat fuel < MW)%Z ->
  Forall (fun e => e_ty e <> EV_NONE) pend ->
  sim val (co_drain (build cf parents false mc) fuel 0) rn
      (fun _ rn' items => okm mc rn' /\ running rn' = true /\ (items, abs rn') = sp_drain pol mc val pend (abs rn)).
Proof.
  intros mc Hcore mk pend fuel rn (Hok & Hmk & Hp & Har) Hrun Hfuel Hfl Hmw Hall.
  pose proof (mkids_hch mc Hcore) as Hch. rewrite build_mp11. cbn [mp11_ops co_drain].
  eapply sim_bind.
  { unfold pool_of in Hok. eapply Lm_process_pool; eauto.
    apply apart_stored. lia. }
  cbn beta. intros n rn1 i1 H. apply sim_ret. rewrite app_nil_l. exact H.
Qed.

(* process_event_pool(1): the oldest stored occurrence as one complete step, the others stay *)
Theorem mp11_drain1_q : forall mc, core mc -> forall mk e pend fuel rn,
  quietm2 mk (e :: pend) mc rn -> running rn = true -> depth mc + 2 <= fuel -> 3 <= fuel -> e_ty e <> EV_NONE ->
  sim val (co_drain (build cf parents false mc) fuel 1) rn
      (fun _ rn' items => (exists mk', quietm2 mk' pend mc rn') /\ running rn' = true /\
         items = o_items (sp_process pol mc e val (abs rn)) /\ abs rn' = o_conf (sp_process pol mc e val (abs rn))).
Proof.
  intros mc Hcore mk e pend fuel rn (Hok & Hmk & Hp & Har) Hrun Hfuel Hfl He.
  pose proof (mkids_hch mc Hcore) as Hch. rewrite build_mp11. cbn [mp11_ops co_drain].
  eapply sim_bind.
  { unfold pool_of in Hok. eapply Lm_process_pool1; eauto.
    apply (apart_now _ _ 0). apply apart_stored. rewrite MW_val. lia. }
  cbn beta. intros n rn1 i1 (Hok1 & Hp1 & Har1 & Hr1 & Hi1 & Ha1). apply sim_ret. rewrite app_nil_l.
  split; [|split; [exact Hr1 | split; [exact Hi1 | exact Ha1]]].
  exists (Some (QEv e 0 (wrap_mp11 (curseq rn - 1)) true)). unfold quietm2, pool_of.
  rewrite (okmL_seq _ _ Hok1). cbn [mhead app]. split; [eapply okmL_forget; exact Hok1|].
  split; [reflexivity|]. split; [exact Hp1 | intros _; exact Har1].
Qed.

(* process_event_pool(1) with nothing stored: at most the cell left behind is removed *)
Theorem mp11_drain1_nil : forall mc mk fuel rn, quietm2 mk [] mc rn -> running rn = true -> 2 <= fuel ->
  sim val (co_drain (build cf parents false mc) fuel 1) rn
      (fun _ rn' items => quietm2 None [] mc rn' /\ running rn' = true /\ items = [] /\ abs rn' = abs rn).
Proof.
  intros mc mk fuel rn (Hok & Hmk & Hp & Har) Hrun Hfl. rewrite build_mp11. cbn [mp11_ops co_drain].
  unfold process_event_pool.
  eapply sim_bind with (P := fun _ rn' items => quietm2 None [] mc rn' /\ running rn' = true /\ items = [] /\ abs rn' = abs rn).
  2:{ cbn beta. intros n rn1 i1 H. apply sim_ret. rewrite app_nil_l. exact H. }
  eapply sim_bind; [apply (sim_get val rn (fun a rn1 i1 => a = rn /\ rn1 = rn /\ i1 = [])); auto|].
  cbn beta. intros a rn1 i1 (-> & -> & ->). pose proof (okmL_msgq _ _ Hok) as Hq. cbn [fst pool_of map] in Hq. rewrite app_nil_r in Hq.
  unfold pool_of in Hok. cbn [map] in Hok. rewrite app_nil_r in Hok.
  destruct mk as [q|]; cbn [mhead] in Hq, Hok; rewrite Hq.
  - rewrite Hp. destruct fuel as [|[|f]]; try lia. cbn [pool_loop].
    eapply sim_bind; [apply (sim_get val rn (fun a rn1 i1 => a = rn /\ rn1 = rn /\ i1 = [])); auto|].
    cbn beta. intros a rn1 i1 (-> & -> & ->). rewrite Hq. cbn [nth_error]. cbn in Hmk. rewrite Hmk. cbn [remove_at].
    eapply sim_bind; [apply (sim_put val (set_msgq rn []) rn (fun _ rn1 i1 => rn1 = set_msgq rn [] /\ i1 = [])); auto|].
    cbn beta. intros u1 rn1 i1 (-> & ->).
    eapply sim_bind; [apply (sim_get val _ (fun a rn1 i1 => a = set_msgq rn [] /\ rn1 = a /\ i1 = [])); auto|].
    cbn beta. intros a rn1 i1 (-> & -> & ->).
    replace (msgq (set_msgq rn [])) with (@nil qitem) by (destruct rn; reflexivity). cbn [nth_error].
    apply sim_ret. split; [|split; [destruct rn; exact Hrun | split; [reflexivity | apply abs_set_msgq]]].
    unfold quietm2, pool_of. cbn [mhead map app]. split; [eapply okmL_set_msgq; exact Hok|]. split; [exact I|].
    split; [destruct rn; exact Hp | destruct rn; exact Har].
  - apply sim_ret. split; [|auto]. unfold quietm2, pool_of. cbn [mhead map app]. auto.
Qed.

Theorem mp11_enqueue_q : forall mc mk pend e rn, quietm2 mk pend mc rn ->
  sim val (co_enqueue (build cf parents false mc) e) rn
      (fun _ rn' items => quietm2 mk (pend ++ [e]) mc rn' /\ running rn' = running rn /\ items = [] /\ abs rn' = abs rn).
Proof.
  intros mc mk pend e rn (Hok & Hmk & Hp & Har). rewrite build_mp11. cbn [mp11_ops co_enqueue]. unfold mcb_enqueue, push_deferred.
  eapply sim_bind; [apply (sim_get val rn (fun a rn1 i1 => a = rn /\ rn1 = rn /\ i1 = [])); auto|].
  cbn beta. intros a rn1 i1 (-> & -> & ->). unfold push_msg. apply sim_modify.
  pose proof (okmL_msgq _ _ Hok) as Hq. cbn [fst] in Hq. rewrite Hq.
  split; [|split; [destruct rn; reflexivity | split; [reflexivity | apply abs_set_msgq]]].
  split; [|split; [exact Hmk | split; [destruct rn; exact Hp | destruct rn; exact Har]]].
  set (X := (mhead mk ++ pool_of rn pend) ++ [QEv e 0 (wrap_mp11 (curseq rn - 1)) false]).
  assert (E : mhead mk ++ pool_of (set_msgq rn X) (pend ++ [e]) = X)
    by (unfold X, pool_of; rewrite map_app, app_assoc; destruct rn; reflexivity).
  rewrite E. eapply okmL_set_msgq. exact Hok.
Qed.

Theorem mp11_stop_q : forall mc, core mc -> forall mk pend fuel rn, quietm2 mk pend mc rn -> running rn = true ->
  sim val (co_stop (build cf parents false mc) fuel) rn
      (fun _ rn' items => quietm2 mk pend mc rn' /\ running rn' = false /\ (items, abs rn') = sp_stop mc (abs rn)).
Proof.
  intros mc Hcore mk pend fuel rn (HokL & Hmk & Hp & Har) Hrun. pose proof (mkids_hch mc Hcore) as Hch. specialize (Har Hrun).
  rewrite build_mp11. cbn [mp11_ops co_stop]. unfold mstop.
  eapply sim_bind; [apply (sim_get val rn (fun a rn1 i1 => a = rn /\ rn1 = rn /\ i1 = [])); auto|].
  cbn beta. intros a rn1 i1 (-> & -> & ->). rewrite Hrun. unfold mon_exit_pre.
  set (ev := Evt EV_EXIT 0). set (L := mhead mk ++ pool_of rn pend) in *.
  eapply sim_bind with (P := fun _ rn1 i1 => okmLq (L, Some (curseq rn)) mc rn1 /\ processing rn1 = false /\ running rn1 = true /\
                                              (i1, abs rn1) = sp_exit mc ev (abs rn)).
  { eapply sim_bind; [apply (sim_get val rn (fun a rn1 i1 => a = rn /\ rn1 = rn /\ i1 = [])); auto|].
    cbn beta. intros a rn1 i1 (-> & -> & ->). rewrite Hrun.
    eapply sim_conseq.
    { eapply Lm_exit_states with (items0 := []) (q := (L, Some (curseq rn))); eauto.
      - apply okmL_know. exact HokL.
      - intros s Hs. apply In_act_run; assumption. }
    cbn beta. intros u kn' items (H1 & H2 & H3 & H4 & H5 & H6). rewrite !app_nil_r in *.
    split; [exact H1|]. split; [congruence|]. split; [congruence|].
    rewrite H6. erewrite sp_exit_unfold by eauto.
    rewrite (fold_whole (sp_exit_state (sp_exit_subs mc) ev) (sp_exit_state_act _ ev) (abs rn) (m_nreg mc)); [rewrite abs_act; reflexivity|].
    rewrite abs_act. destruct HokL as (_ & Lh & _). exact Lh. }
  cbn beta. intros u1 rn1 i1 (Hok1 & Hp1 & Hr1 & E1).
  eapply sim_bind; [eapply sim_mcb|]. cbn beta. intros u2 rn2 i2 (-> & ->).
  unfold mon_exit_post.
  set (rn3 := match m_hist mc with HNone => rn1 | _ => set_hist rn1 (act rn1) end).
  eapply sim_bind; [apply (sim_modify val _ rn1 (fun _ rn4 i4 => rn4 = rn3 /\ i4 = [])); auto|].
  cbn beta. intros u3 rn4 i4 (-> & ->).
  apply sim_modify.
  assert (E3 : abs rn3 = sp_post_exit mc (abs rn1)).
  { unfold rn3, sp_post_exit. destruct (m_hist mc); [reflexivity | |]; rewrite abs_set_hist, abs_act; reflexivity. }
  assert (Hc3 : curseq rn3 = curseq rn) by (unfold rn3; rewrite <- (okmL_seq _ _ Hok1); destruct (m_hist mc); destruct rn1; reflexivity).
  assert (Hok3 : okmLq (L, None) mc rn3).
  { apply okmL_forget in Hok1. unfold rn3. destruct Hok1 as ((Hq & _) & La & Lh & Hk).
    destruct (m_hist mc); unfold okmLq, seq_is; destruct rn1; cbn in *; auto. }
  split; [|split; [destruct rn3; reflexivity|]].
  - split; [|split; [exact Hmk | split; [unfold rn3; destruct (m_hist mc); destruct rn1; exact Hp1 | destruct rn3; cbn; discriminate]]].
    replace (pool_of (set_running rn3 false) pend) with (pool_of rn pend) by (unfold pool_of; rewrite <- Hc3; destruct rn3; reflexivity).
    apply okmL_set_running. exact Hok3.
  - unfold sp_stop. fold ev. rewrite <- E1. rewrite !app_nil_l. cbn [app]. rewrite ?app_nil_r. rewrite abs_set_running, abs_act, E3. reflexivity.
Qed.

(* start() of a stopped machine without history of its own: the pool is emptied *)
Theorem mp11_start_q : forall mc, core mc -> m_hist mc = HNone -> forall mk pend fuel rn, quietm2 mk pend mc rn -> running rn = false -> 1 <= fuel ->
  sim val (co_start (build cf parents false mc) fuel) rn
      (fun _ rn' items => okm mc rn' /\ running rn' = true /\ (items, abs rn') = sp_start_obs (act rn) mc (abs rn)).
Proof.
  intros mc Hcore Hh mk pend fuel rn (HokL & Hmk & Hp & Har) Hnr Hf.
  assert (Hok0 : okm mc (set_msgq rn [])).
  { apply okm_unfold. split; [eapply okmL_set_msgq; exact HokL|]. split; [destruct rn; exact Hp|].
    intros Hr. exfalso. destruct rn; cbn in *; congruence. }
  pose proof (mp11_start mc Hcore Hh fuel (set_msgq rn []) Hok0 ltac:(destruct rn; exact Hnr) Hf) as H0.
  intros g Hg. specialize (H0 g Hg). destruct H0 as (a & rn' & items & E & HP).
  exists a, rn', items. split.
  - rewrite <- E. rewrite build_mp11. cbn [mp11_ops co_start].
    destruct g as [tr n plan v up bad]. destruct Hg as (Hpl & _ & _). cbn in Hpl. subst plan.
    destruct rn as [ac ks hi mq dq cs pr ru]. cbn in Hnr. subst ru.
    unfold mstart, mon_entry_pre, preprocess_entry, mon_entry_post, history_set_ids. rewrite Hh.
    destruct mp11_entry_throw_resets; unfold on_throw, bind, modify, mcb, callback, callback_at, get, getg, putg; reflexivity.
  - replace (act (set_msgq rn [])) with (act rn) in HP by (destruct rn; reflexivity). rewrite abs_set_msgq in HP. exact HP.
Qed.


End Mp11Whole.
