(* Lemmas_SpecPolicy.v - the active-state-switch policy is invisible outside transitions: on the specification function
   two policies give, for every definition, configuration, event and guard valuation, the same behaviour invocations
   (same kind, machine, id, event, in the same order - only the active ids they read from the fsm argument may differ),
   the same outcome and the same configuration.  By Lemmas_SpecRun the engines inherit it on the core fragment. *)
From Msm Require Import Run Lemmas_Sim Spec Lemmas_Core Lemmas_SpecMp11 Lemmas_SpecRun Lemmas_SpecProps.
From Coq Require Import Lia.

Definition erase (it:titem) : titem :=
  match it with Cb k p id ev w _ => Cb k p id ev w [] | other => other end.
Definition E (l:list titem) : list titem := map erase l.
Lemma E_app a b : E (a ++ b) = E a ++ E b. Proof. apply map_app. Qed.
Lemma E_push s l : E (map (push_path s) l) = map (push_path s) (E l).
Proof. unfold E. rewrite !map_map. apply map_ext. intros [k p id ev w obs| | | ]; reflexivity. Qed.
Lemma E_rev l : E (rev l) = rev (E l). Proof. unfold E. rewrite map_rev. reflexivity. Qed.

(* leaving / entering a state do not look at the active ids of the level they act on *)
Lemma exit_state_act subs ev s c a :
  let '(i, c1) := sp_exit_state subs ev s ([], c) in
  let '(i', c1') := sp_exit_state subs ev s ([], c_set_act c a) in
  E i' = E i /\ c1' = c_set_act c1 a.
Proof.
  unfold sp_exit_state. destruct c as [act ks h]. cbn [c_set_act c_kids c_act].
  destruct (nth s subs None) as [f|]; [|cbn; auto].
  destruct (nth s ks None) as [k|]; [|cbn; auto].
  destruct (f ev k) as [inner k1]. cbn. auto.
Qed.
Lemma enter_state_act subs ev s c a :
  let '(i, c1) := sp_enter_state subs ev s ([], c) in
  let '(i', c1') := sp_enter_state subs ev s ([], c_set_act c a) in
  E i' = E i /\ c1' = c_set_act c1 a.
Proof.
  unfold sp_enter_state. destruct c as [act ks h]. cbn [c_set_act c_kids c_act].
  destruct (nth s subs None) as [[m f]|]; [|cbn; auto].
  destruct (nth s ks None) as [k|]; [|cbn; auto].
  destruct (f ev (c_set_act k (sp_hist_entry m k (e_ty ev)))) as [inner k1]. cbn.
  split; [|reflexivity]. rewrite !E_app. reflexivity.
Qed.

Lemma set_act_act c a b : c_set_act (c_set_act c a) b = c_set_act c b. Proof. destruct c; reflexivity. Qed.
Lemma act_set_act c a : c_act (c_set_act c a) = a. Proof. destruct c; reflexivity. Qed.
Lemma set_slot_as_act c r x : c_set_slot c r x = c_set_act c (upd (c_act c) r x). Proof. reflexivity. Qed.

(* one transition: the policy-free reading - leave, act, enter on the configuration before the transition, then place the
   region on the target *)
Definition sp_take0 (mc:machine) (r:nat) (x:row) (ev:evt) (c:conf) : sres :=
  let act_item := match r_act x with ActCall => [Cb KAction [] (r_id x) ev false []] | _ => [] end in
  match tgt_state (r_tgt x) with
  | None => (act_item, c)
  | Some nxt =>
      let '(i1, c1) := sp_exit_state (sp_exit_subs mc) ev (r_src x) ([], c) in
      let '(i3, c4) := sp_enter_state (sp_enter_subs mc) ev nxt ([], c1) in
      (i3 ++ act_item ++ i1, c_set_act c4 (upd (c_act c) r nxt))
  end.

Lemma policy_ends_on_target pol cur nxt : pol < 4 -> switch_id pol 3 cur nxt = nxt.
Proof. intros H. do 4 (destruct pol as [|pol]; [reflexivity|]). lia. Qed.

Lemma sp_take_policy_free pol mc r x ev c : pol < 4 ->
  E (fst (sp_take pol mc r x ev c)) = E (fst (sp_take0 mc r x ev c)) /\ snd (sp_take pol mc r x ev c) = snd (sp_take0 mc r x ev c).
Proof.
  intros Hp. unfold sp_take, sp_take0. destruct (tgt_state (r_tgt x)) as [nxt|].
  - rewrite !set_slot_as_act.
    set (a0 := upd (c_act c) r (switch_id pol 0 (r_src x) nxt)).
    pose proof (exit_state_act (sp_exit_subs mc) ev (r_src x) c a0) as H1.
    destruct (sp_exit_state (sp_exit_subs mc) ev (r_src x) ([], c)) as [i1 c1] eqn:E1.
    destruct (sp_exit_state (sp_exit_subs mc) ev (r_src x) ([], c_set_act c a0)) as [i1' c1'] eqn:E1'.
    destruct H1 as (Hi1 & ->).
    assert (Ha1 : c_act c1 = c_act c).
    { pose proof (sp_exit_state_act (sp_exit_subs mc) ev (r_src x) ([], c)) as H. rewrite E1 in H. exact H. }
    rewrite !set_slot_as_act, !set_act_act, !act_set_act.
    set (a2 := upd (upd (upd a0 r (switch_id pol 1 (r_src x) nxt)) r (switch_id pol 2 (r_src x) nxt))).
    unfold a0. rewrite !upd_upd.
    pose proof (enter_state_act (sp_enter_subs mc) ev nxt c1 (upd (c_act c) r (switch_id pol 2 (r_src x) nxt))) as H3.
    destruct (sp_enter_state (sp_enter_subs mc) ev nxt ([], c1)) as [i3 c4] eqn:E3.
    destruct (sp_enter_state (sp_enter_subs mc) ev nxt ([], c_set_act c1 (upd (c_act c) r (switch_id pol 2 (r_src x) nxt)))) as [i3' c4'] eqn:E3'.
    destruct H3 as (Hi3 & ->). cbn [fst snd].
    rewrite set_slot_as_act, set_act_act, act_set_act, upd_upd, (policy_ends_on_target pol _ _ Hp).
    split; [|reflexivity]. rewrite !E_app, Hi1, Hi3. f_equal. f_equal. destruct (r_act x); reflexivity.
  - cbn [fst snd]. split; [|reflexivity]. destruct (r_act x); reflexivity.
Qed.

(* outcomes that agree up to the ids read by behaviours *)
Definition oeq (o1 o2:outcome) : Prop :=
  o_taken o1 = o_taken o2 /\ o_rejected o1 = o_rejected o2 /\ E (o_items o1) = E (o_items o2) /\ o_conf o1 = o_conf o2.

Lemma sp_rows_policy p1 p2 mc r ev val : p1 < 4 -> p2 < 4 -> forall l c,
  oeq (sp_rows p1 mc r ev val l c) (sp_rows p2 mc r ev val l c).
Proof.
  intros H1 H2. induction l as [|x t IH]; intros c; cbn [sp_rows]; [repeat split|].
  destruct (sp_take_policy_free p1 mc r x ev c H1) as (A1 & B1). destruct (sp_take_policy_free p2 mc r x ev c H2) as (A2 & B2).
  destruct (sp_take p1 mc r x ev c) as [i1 c1]. destruct (sp_take p2 mc r x ev c) as [i2 c2]. cbn [fst snd] in *.
  destruct (r_guard x).
  - destruct (memb (r_id x) val).
    + unfold oeq. cbn [o_taken o_rejected o_items o_conf]. rewrite !E_app, A1, A2, B1, B2. auto.
    + destruct (IH c) as (T & R & I & C). unfold oeq. cbn [o_taken o_rejected o_items o_conf]. rewrite !E_app, I, T, C. auto.
  - unfold oeq. cbn [o_taken o_rejected o_items o_conf]. rewrite A1, A2, B1, B2. auto.
Qed.

Lemma oeq_refl o : oeq o o. Proof. repeat split. Qed.

Section Level.
Variables p1 p2 : nat.
Hypothesis H1 : p1 < 4.
Hypothesis H2 : p2 < 4.

Lemma sp_region_policy mc subs1 subs2 ev val r c :
  (forall s, match nth s subs1 None, nth s subs2 None with
             | Some f1, Some f2 => forall k, oeq (f1 ev val k) (f2 ev val k)
             | None, None => True
             | _, _ => False
             end) ->
  oeq (sp_region p1 mc subs1 ev val r c) (sp_region p2 mc subs2 ev val r c).
Proof.
  intros Hs. unfold sp_region. specialize (Hs (nth r (c_act c) 0)).
  destruct (nth (nth r (c_act c) 0) subs1 None) as [f1|], (nth (nth r (c_act c) 0) subs2 None) as [f2|]; try contradiction.
  - destruct (nth (nth r (c_act c) 0) (c_kids c) None) as [k|]; [|apply sp_rows_policy; assumption].
    destruct (Hs k) as (T & R & I & C). rewrite T, C.
    destruct (o_taken (f2 ev val k)).
    + unfold oeq. cbn [o_taken o_rejected o_items o_conf]. rewrite !E_push, I, R. auto.
    + destruct (sp_rows_policy p1 p2 mc r ev val H1 H2 (sp_candidates mc (nth r (c_act c) 0) (e_ty ev))
                  (c_set_kid c (nth r (c_act c) 0) (o_conf (f2 ev val k)))) as (T' & R' & I' & C').
      unfold oeq. cbn [o_taken o_rejected o_items o_conf]. rewrite !E_app, !E_push, I, I', T', R, R', C'. auto.
  - apply sp_rows_policy; assumption.
Qed.

Lemma sp_regions_policy mc subs1 subs2 ev val c :
  (forall s, match nth s subs1 None, nth s subs2 None with
             | Some f1, Some f2 => forall k, oeq (f1 ev val k) (f2 ev val k)
             | None, None => True
             | _, _ => False
             end) ->
  oeq (sp_regions p1 mc subs1 ev val c) (sp_regions p2 mc subs2 ev val c).
Proof.
  intros Hs. unfold sp_regions.
  assert (G : forall l o1 o2, oeq o1 o2 ->
     oeq (fold_left (fun o r => let o' := sp_region p1 mc subs1 ev val r (o_conf o) in
                        Out (o_taken o || o_taken o') (o_rejected o || o_rejected o') (o_items o' ++ o_items o) (o_conf o')) l o1)
         (fold_left (fun o r => let o' := sp_region p2 mc subs2 ev val r (o_conf o) in
                        Out (o_taken o || o_taken o') (o_rejected o || o_rejected o') (o_items o' ++ o_items o) (o_conf o')) l o2)).
  { induction l as [|r l IH]; intros o1 o2 Ho; cbn [fold_left]; [exact Ho|]. apply IH.
    destruct Ho as (T & R & I & C). rewrite C.
    destruct (sp_region_policy mc subs1 subs2 ev val r (o_conf o2) Hs) as (T' & R' & I' & C').
    unfold oeq. cbn [o_taken o_rejected o_items o_conf]. rewrite !E_app, T, R, I, T', R', I', C'. auto. }
  apply G. apply oeq_refl.
Qed.

Theorem sp_level_policy : forall mc ev val c, oeq (sp_level p1 mc ev val c) (sp_level p2 mc ev val c).
Proof.
  intros mc. induction mc as [mc IH] using machine_sub_ind. intros ev val c.
  rewrite !Lemmas_SpecProps.sp_level_unfold. cbn zeta.
  assert (Hs : forall s, match nth s (sp_level_subs p1 mc) None, nth s (sp_level_subs p2 mc) None with
             | Some f1, Some f2 => forall k, oeq (f1 ev val k) (f2 ev val k)
             | None, None => True
             | _, _ => False
             end).
  { intros s. unfold sp_level_subs. rewrite !nth_map_sub. fold (get_state mc s).
    destruct (s_sub (get_state mc s)) as [m|] eqn:Es; [|exact I]. intros k. apply (IH s m Es). }
  destruct (sp_regions_policy mc _ _ ev val c Hs) as (T & R & I & C). rewrite T, C.
  destruct (o_taken (sp_regions p2 mc (sp_level_subs p2 mc) ev val c)) eqn:T2.
  - unfold oeq. rewrite T2. auto.
  - destruct (sp_rows_policy p1 p2 mc 0 ev val H1 H2 (rev (filter (sp_matches (e_ty ev)) (m_irows mc)))
                (o_conf (sp_regions p2 mc (sp_level_subs p2 mc) ev val c))) as (T' & R' & I' & C').
    unfold oeq. cbn [o_taken o_rejected o_items o_conf]. rewrite !E_app, I, I', T', R, R', C'. auto.
Qed.

Theorem sp_process_policy mc ev val c : oeq (sp_process p1 mc ev val c) (sp_process p2 mc ev val c).
Proof.
  unfold sp_process. destruct (sp_level_policy mc ev val c) as (T & R & I & C). rewrite T, R, C.
  destruct (o_taken (sp_level p2 mc ev val c) || o_rejected (sp_level p2 mc ev val c)).
  - unfold oeq. auto.
  - unfold oeq. cbn [o_taken o_rejected o_items o_conf]. rewrite !E_app, I. auto.
Qed.
End Level.

(* ---- whole histories ---- *)
Definition spec_obs (s1 s2:list titem * option (bool * bool) * list (list nat * list nat)) : Prop :=
  snd s1 = snd s2 /\ snd (fst s1) = snd (fst s2) /\ E (fst (fst s1)) = E (fst (fst s2)).

Lemma sp_op_policy s1 s2 p1 p2 mc o c : p1 < 4 -> p2 < 4 ->
  let r1 := sp_op_gen s1 p1 mc o c in let r2 := sp_op_gen s2 p2 mc o c in
  snd r1 = snd r2 /\ snd (fst r1) = snd (fst r2) /\ E (fst (fst r1)) = E (fst (fst r2)).
Proof.
  intros H1 H2. cbn zeta. destruct o; cbn [sp_op_gen]; try (repeat split; reflexivity).
  - unfold sp_start_obs. destruct (sp_enter mc (Evt EV_INIT 0) (c_set_act c (m_inits mc))) as [items cc]. cbn [fst snd].
    repeat split. rewrite !E_rev, !E_app. reflexivity.
  - destruct (sp_process_policy p1 p2 H1 H2 mc e val c) as (T & R & I & C). cbn [fst snd].
    rewrite T, R, C, !E_rev, I. auto.
Qed.

Lemma sp_run_policy s1 s2 p1 p2 mc : p1 < 4 -> p2 < 4 -> forall l c,
  Forall2 spec_obs (sp_run s1 p1 mc c l) (sp_run s2 p2 mc c l).
Proof.
  intros H1 H2. induction l as [|o t IH]; intros c; cbn [sp_run]; [constructor|].
  pose proof (sp_op_policy s1 s2 p1 p2 mc o c H1 H2) as H. cbn zeta in H.
  destruct (sp_op_gen s1 p1 mc o c) as [[i1 o1] c1]. destruct (sp_op_gen s2 p2 mc o c) as [[i2 o2] c2].
  cbn [fst snd] in H. destruct H as (-> & -> & Hi). constructor; [|apply IH].
  unfold spec_obs. cbn [fst snd]. auto.
Qed.

(* what two runs under different policies (and possibly different engines) may differ in: the ids behaviours read from
   their fsm argument, and the numeric result code *)
Definition same_step_obs (b m:list titem * list (list nat * list nat)) : Prop :=
  snd b = snd m /\
  (E (fst b) = E (fst m) \/
   exists i1 i2 cb cm h rj, fst b = i1 ++ [Res cb] /\ fst m = i2 ++ [Res cm] /\ E i1 = E i2 /\ code_ok cb h rj /\ code_ok cm h rj).

Lemma step_ok_obs s1 s2 b m : spec_obs s1 s2 -> step_ok s1 b -> step_ok s2 m -> same_step_obs b m.
Proof.
  destruct s1 as [[i1 o1] n1]. destruct s2 as [[i2 o2] n2]. unfold spec_obs, step_ok, same_step_obs. cbn [fst snd].
  intros (-> & -> & Hi) (Hb1 & Hb2) (Hm1 & Hm2). split; [congruence|].
  destruct o2 as [[h rj]|].
  - destruct Hb2 as (cb & Eb & Cb). destruct Hm2 as (cm & Em & Cm). right. exists i1, i2, cb, cm, h, rj. auto.
  - left. congruence.
Qed.
Lemma Forall2_obs : forall ss1 ss2 bs ms, Forall2 spec_obs ss1 ss2 -> Forall2 step_ok ss1 bs -> Forall2 step_ok ss2 ms ->
  Forall2 same_step_obs bs ms.
Proof.
  induction ss1 as [|s t IH]; intros ss2 bs ms Hs Hb Hm; inversion Hs; subst; inversion Hb; inversion Hm; subst; constructor.
  - eapply step_ok_obs; eauto.
  - eapply IH; eauto.
Qed.

(* any two configurations, any two switch policies *)
Theorem policies_indistinguishable_outside_transitions : forall cf1 cf2 md l,
  c_pol cf1 < 4 -> c_pol cf2 < 4 ->
  flat_events md -> core (md_root md) -> cfg_fits cf1 md -> cfg_fits cf2 md ->
  depth (md_root md) + 2 <= default_fuel -> back_start_queues = true -> mp11_entry_throw_resets = true ->
  bracketed false l ->
  Forall2 same_step_obs (run cf1 md l) (run cf2 md l).
Proof.
  intros cf1 cf2 md l Hp1 Hp2 Hflat Hcore Hf1 Hf2 Hfuel Hq Hr Hbr.
  eapply Forall2_obs.
  - apply (sp_run_policy (is_mp11 cf1) (is_mp11 cf2) (c_pol cf1) (c_pol cf2) (md_root md) Hp1 Hp2 l (abs (init_rnode (md_root md)))).
  - apply run_is_spec; auto.
  - apply run_is_spec; auto.
Qed.

(* an external transition, in the words of C02: (newest first) the target's entry cascade, the action, the source's exit
   cascade - under every policy - and afterwards the region is on the target *)
Lemma sp_take_order pol mc r x ev c nxt : pol < 4 -> tgt_state (r_tgt x) = Some nxt ->
  let '(i1, c1) := sp_exit_state (sp_exit_subs mc) ev (r_src x) ([], c) in
  let '(i3, c4) := sp_enter_state (sp_enter_subs mc) ev nxt ([], c1) in
  E (fst (sp_take pol mc r x ev c)) =
    E (i3 ++ (match r_act x with ActCall => [Cb KAction [] (r_id x) ev false []] | _ => [] end) ++ i1) /\
  snd (sp_take pol mc r x ev c) = c_set_act c4 (upd (c_act c) r nxt).
Proof.
  intros Hp Ht. destruct (sp_take_policy_free pol mc r x ev c Hp) as (A & B). unfold sp_take0 in A, B. rewrite Ht in A, B.
  destruct (sp_exit_state (sp_exit_subs mc) ev (r_src x) ([], c)) as [i1 c1].
  destruct (sp_enter_state (sp_enter_subs mc) ev nxt ([], c1)) as [i3 c4]. cbn [fst snd] in A, B. auto.
Qed.
Lemma sp_take_internal pol mc r x ev c : tgt_state (r_tgt x) = None ->
  sp_take pol mc r x ev c = (match r_act x with ActCall => [Cb KAction [] (r_id x) ev false (c_act c)] | _ => [] end, c).
Proof. intros Ht. unfold sp_take. rewrite Ht. reflexivity. Qed.
