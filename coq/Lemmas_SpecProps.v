(* Lemmas_SpecProps.v - what the specification function of Spec.v says, in the words of the properties: statements
   about Spec alone; by Lemmas_SpecRun.v they hold for the engines on the core fragment. *)
From Msm Require Import Run Spec Lemmas_Core.
From Coq Require Import Lia.

Definition guard_no (ev:evt) (c:conf) (y:row) : titem := Cb (KGuard false) [] (r_id y) ev false (c_act c).
Definition says_no (val:list nat) (y:row) : Prop := r_guard y = true /\ memb (r_id y) val = false.
Definition says_yes (val:list nat) (x:row) : Prop := r_guard x = false \/ memb (r_id x) val = true.

(* selection within one cell: the candidates before the first one whose guard holds have their guard evaluated once
   each, in priority order, and are not taken; the first one whose guard holds (or that has none) is taken; nothing
   behind it is looked at (the result does not mention `post`) *)
Lemma sp_rows_first_yes pol mc r ev val : forall pre x post c,
  Forall (says_no val) pre -> says_yes val x ->
  sp_rows pol mc r ev val (pre ++ x :: post) c =
    let '(i, c') := sp_take pol mc r x ev c in
    Out true (match pre with [] => false | _ => true end)
        (i ++ (if r_guard x then [Cb (KGuard true) [] (r_id x) ev false (c_act c)] else []) ++ rev (map (guard_no ev c) pre)) c'.
Proof.
  induction pre as [|y pre IH]; intros x post c Hpre Hx.
  - cbn [app sp_rows map rev]. destruct Hx as [Hx|Hx].
    + rewrite Hx. destruct (sp_take pol mc r x ev c) as [i c']. rewrite !app_nil_r. reflexivity.
    + destruct (r_guard x) eqn:Eg.
      * rewrite Hx. destruct (sp_take pol mc r x ev c) as [i c']. rewrite app_nil_r. reflexivity.
      * destruct (sp_take pol mc r x ev c) as [i c']. rewrite !app_nil_r. reflexivity.
  - inversion Hpre as [|? ? (Hg & Hv) Ht]; subst. cbn [app sp_rows]. rewrite Hg, Hv.
    rewrite (IH x post c Ht Hx). destruct (sp_take pol mc r x ev c) as [i c']. cbn [o_taken o_items o_conf map rev].
    f_equal. unfold guard_no at 2. rewrite !app_assoc. reflexivity.
Qed.

(* no candidate's guard holds: nothing is taken, the configuration is the one before, every guard was evaluated once *)
Lemma sp_rows_all_no pol mc r ev val : forall l c,
  Forall (says_no val) l ->
  sp_rows pol mc r ev val l c = Out false (match l with [] => false | _ => true end) (rev (map (guard_no ev c) l)) c.
Proof.
  induction l as [|y l IH]; intros c H; [reflexivity|]. inversion H as [|? ? (Hg & Hv) Ht]; subst.
  cbn [sp_rows]. rewrite Hg, Hv, (IH c Ht). cbn [o_taken o_items o_conf map rev]. reflexivity.
Qed.

(* every candidate list splits one of these two ways *)
Lemma sp_rows_cases val : forall l, Forall (says_no val) l \/ exists pre x post, l = pre ++ x :: post /\ Forall (says_no val) pre /\ says_yes val x.
Proof.
  induction l as [|y l IH]; [left; constructor|].
  destruct (r_guard y) eqn:Eg; [destruct (memb (r_id y) val) eqn:Ev|].
  - right. exists [], y, l. repeat split; auto. right. exact Ev.
  - destruct IH as [IH|(pre & x & post & -> & Hp & Hx)].
    + left. constructor; [split; assumption | exact IH].
    + right. exists (y :: pre), x, post. repeat split; auto. constructor; [split; assumption | exact Hp].
  - right. exists [], y, l. repeat split; auto. left. exact Eg.
Qed.

(* hierarchy: a transition taken inside an active submachine keeps the enclosing machine's rows for that state from
   being tried at all; if nothing is taken inside, they are tried next, on the configuration the submachine left *)
Lemma sp_region_inner_first pol mc subs ev val r c f k :
  nth (nth r (c_act c) 0) subs None = Some f -> nth (nth r (c_act c) 0) (c_kids c) None = Some k ->
  o_taken (f ev val k) = true ->
  sp_region pol mc subs ev val r c =
    Out true (o_rejected (f ev val k)) (map (push_path (nth r (c_act c) 0)) (o_items (f ev val k)))
        (c_set_kid c (nth r (c_act c) 0) (o_conf (f ev val k))).
Proof. intros Hf Hk Ht. unfold sp_region. rewrite Hf, Hk, Ht. reflexivity. Qed.

Lemma sp_region_bubbles pol mc subs ev val r c f k :
  nth (nth r (c_act c) 0) subs None = Some f -> nth (nth r (c_act c) 0) (c_kids c) None = Some k ->
  o_taken (f ev val k) = false ->
  let s := nth r (c_act c) 0 in
  let o2 := sp_rows pol mc r ev val (sp_candidates mc s (e_ty ev)) (c_set_kid c s (o_conf (f ev val k))) in
  sp_region pol mc subs ev val r c =
    Out (o_taken o2) (o_rejected (f ev val k) || o_rejected o2) (o_items o2 ++ map (push_path s) (o_items (f ev val k))) (o_conf o2).
Proof. intros Hf Hk Ht. unfold sp_region. rewrite Hf, Hk, Ht. reflexivity. Qed.

(* the machine's own internal table is tried only if no region took a transition *)
Lemma sp_level_unfold pol mc ev val c :
  sp_level pol mc ev val c =
    let o := sp_regions pol mc (sp_level_subs pol mc) ev val c in
    if o_taken o then o
    else (let o2 := sp_rows pol mc 0 ev val (rev (filter (sp_matches (e_ty ev)) (m_irows mc))) (o_conf o) in
          Out (o_taken o2) (o_rejected o || o_rejected o2) (o_items o2 ++ o_items o) (o_conf o2)).
Proof. destruct mc; reflexivity. Qed.

(* no_transition is reported exactly when nothing was taken and no guard rejected, once per region, after the step *)
Lemma sp_process_no_transition pol mc ev val c :
  let o := sp_level pol mc ev val c in
  o_taken o = false -> o_rejected o = false ->
  sp_process pol mc ev val c =
    Out false false (rev (map (fun s => Cb KNoTrans [] s ev false (c_act (o_conf o))) (c_act (o_conf o))) ++ o_items o) (o_conf o).
Proof. cbn zeta. intros H1 H2. unfold sp_process. rewrite H1, H2. reflexivity. Qed.
Lemma sp_process_handled pol mc ev val c :
  let o := sp_level pol mc ev val c in
  o_taken o = true \/ o_rejected o = true -> sp_process pol mc ev val c = o.
Proof. cbn zeta. intros [H|H]; unfold sp_process; rewrite H; [reflexivity | rewrite Bool.orb_true_r; reflexivity]. Qed.

(* history: what a machine remembers when it is left is what the policy hands back when it is entered again *)
Lemma sp_history_cycle mc c ety :
  sp_hist_entry mc (sp_post_exit mc c) ety =
  match m_hist mc with
  | HNone => m_inits mc
  | HAlways => c_act c
  | HShallow evs => if memb ety evs then c_act c else m_inits mc
  end.
Proof. unfold sp_hist_entry, sp_post_exit. destruct (m_hist mc) as [| |evs]; destruct c; reflexivity. Qed.

(* a machine that was never left starts from its initial states under the two remembering policies only if its memory
   was initialised with them - which init_rnode does (Lemmas below are about the specification's own bookkeeping) *)
Lemma sp_post_exit_keeps mc c : c_act (sp_post_exit mc c) = c_act c /\ c_kids (sp_post_exit mc c) = c_kids c.
Proof. unfold sp_post_exit. destruct (m_hist mc); destruct c; auto. Qed.
