(* Lemmas_SpecQueue.v - events stored from outside (enqueue_event) on the outermost machine: for every core definition and
   every history of start / stop / process_event / enqueue_event / execute_queued_events the back engine is the
   specification extended by one pending list: every stored occurrence is dispatched exactly once, oldest first, each as
   a complete step, at the end of the next start() / process_event / execute_queued_events. *)
From Msm Require Import Run Lemmas_C19 Lemmas_Rows Lemmas_Sim Spec Lemmas_Core Lemmas_SpecBack Lemmas_SpecRun Lemmas_Equiv.
From Coq Require Import Lia.

Section BackQueue.
Variable cf : cfg.
Hypothesis Hbe : c_be cf = Back.
Variable parents : list (option nat).
Hypothesis Hflat : forall e, nth e parents None = None.
Hypothesis Hstartq : back_start_queues = true.
Variable root : machine.
Hypothesis Hcore : core root.
Variable fuel : nat.

Lemma sim_run_m' (m:M unit) rn val (P:unit -> rnode -> list titem -> Prop) :
  sim val m rn P -> exists rn' items, run_m m rn val [] = (rn', rev items) /\ P tt rn' items.
Proof.
  intros H. destruct (H (Glob [] 0 [] val [] 0)) as ([] & rn' & items & E & HP).
  { repeat split. }
  exists rn', items. unfold run_m. rewrite E. cbn. rewrite app_nil_r. auto.
Qed.

Theorem back_qrun_ops : forall l rn pend, Forall qplain_op l -> quiet pend root rn -> user_events pend ->
  length pend + count_enq l + depth root + 3 <= fuel ->
  Forall2 step_ok (sp_qrun (c_pol cf) root (abs rn, pend) l) (run_ops cf root (build cf parents false root) fuel rn l).
Proof.
  induction l as [|o t IH]; intros rn pend Hall Hq Hu Hf; cbn [sp_qrun run_ops]; [constructor|].
  inversion Hall as [|? ? Ho Ht]; subst.
  destruct o as [val plan|plan|e val plan|e|val plan| | | | | | |]; try contradiction; cbn [qplain_op] in Ho; cbn [sp_qop run_op count_enq] in *.
  - (* start *)
    destruct plan; [|contradiction].
    destruct (sim_run_m' _ rn val _ (back_start_q cf Hbe parents Hflat val Hstartq root Hcore pend fuel rn Hq ltac:(lia) Hu))
      as (rn' & items & E & Hok' & Hs).
    rewrite E. destruct (sp_start root (abs rn)) as [i0 c0]. destruct (sp_drain (c_pol cf) root val pend c0) as [i c'].
    cbn beta iota zeta in Hs. destruct Hs as (-> & Ha). cbn [fst]. constructor.
    + unfold step_ok. cbn [fst snd]. split; [rewrite snapshot_abs, Ha; reflexivity | reflexivity].
    + rewrite <- Ha. apply IH; [exact Ht | apply quiet_nil; exact Hok' | constructor | cbn; lia].
  - (* stop *)
    destruct plan; [|contradiction].
    destruct (sim_run_m' _ rn [] _ (back_stop_q cf Hbe parents Hflat [] root Hcore pend fuel rn Hq))
      as (rn' & items & E & Hq' & Hs).
    rewrite E. destruct (sp_stop root (abs rn)) as [i c']. inversion Hs; subst. cbn [fst]. constructor.
    + unfold step_ok. cbn [fst snd]. split; [rewrite snapshot_abs; reflexivity | reflexivity].
    + apply IH; [exact Ht | exact Hq' | exact Hu | lia].
  - (* process_event *)
    destruct plan; [|contradiction].
    pose proof (back_process_event_q cf Hbe parents Hflat val root Hcore pend fuel e rn Hq ltac:(lia) Ho Hu) as Hs.
    destruct (Hs (Glob [] 0 [] val [] 0)) as (code & rn' & items & E & Hok' & Hres).
    { repeat split. }
    unfold run_m, bind, direct_code. rewrite Hbe. rewrite E. cbn. rewrite app_nil_r. cbn zeta in Hres.
    destruct (sp_drain (c_pol cf) root val pend (o_conf (sp_process (c_pol cf) root e val (abs rn)))) as [i c'].
    cbn beta iota zeta in Hres. destruct Hres as (-> & Ha & Hc). cbn [fst]. constructor.
    + unfold step_ok. cbn [fst snd]. split; [rewrite snapshot_abs, Ha; reflexivity|]. exists code. auto.
    + rewrite <- Ha. apply IH; [exact Ht | apply quiet_nil; exact Hok' | constructor | cbn; lia].
  - (* enqueue_event *)
    destruct (sim_run_m' _ rn [] _ (back_enqueue_q cf Hbe parents [] root pend e rn Hq)) as (rn' & items & E & Hq' & -> & Ha).
    rewrite E. cbn [fst rev]. constructor.
    + unfold step_ok. cbn [fst snd]. split; [rewrite snapshot_abs, Ha; reflexivity | reflexivity].
    + rewrite <- Ha. apply IH; [exact Ht | exact Hq' | apply Forall_app; split; [exact Hu | constructor; [exact Ho | constructor]] |].
      rewrite app_length. cbn. lia.
  - (* execute_queued_events *)
    destruct plan; [|contradiction].
    destruct (sim_run_m' _ rn val _ (back_drain_q cf Hbe parents Hflat val root Hcore pend fuel rn Hq ltac:(lia) Hu))
      as (rn' & items & E & Hok' & Hs).
    rewrite E. destruct (sp_drain (c_pol cf) root val pend (abs rn)) as [i c']. inversion Hs; subst. cbn [fst]. constructor.
    + unfold step_ok. cbn [fst snd]. split; [rewrite snapshot_abs; reflexivity | reflexivity].
    + apply IH; [exact Ht | apply quiet_nil; exact Hok' | constructor | cbn; lia].
Qed.
End BackQueue.

Theorem back_queue_is_spec : forall cf md l,
  c_be cf = Back -> flat_events md -> core (md_root md) -> back_start_queues = true -> Forall qplain_op l ->
  count_enq l + depth (md_root md) + 3 <= default_fuel ->
  Forall2 step_ok (sp_qrun (c_pol cf) (md_root md) (abs (init_rnode (md_root md)), []) l) (run cf md l).
Proof.
  intros cf md l HB Hflat Hcore Hq Hall Hf. unfold run.
  apply (back_qrun_ops cf HB (md_parents md) Hflat Hq (md_root md) Hcore default_fuel l (init_rnode (md_root md)) [] Hall).
  - apply quiet_nil. apply ok_init.
  - constructor.
  - cbn. lia.
Qed.

(* back11 on the definitions it can compile, and any two configurations of the back family side by side *)
Definition back_family (cf:cfg) (md:mdef) : Prop :=
  match c_be cf with Back => True | Back11 => no_internal (md_root md) | Mp11 => False end.

Theorem back_family_queue_is_spec : forall cf md l,
  back_family cf md -> flat_events md -> core (md_root md) -> back_start_queues = true -> Forall qplain_op l ->
  count_enq l + depth (md_root md) + 3 <= default_fuel ->
  Forall2 step_ok (sp_qrun (c_pol cf) (md_root md) (abs (init_rnode (md_root md)), []) l) (run cf md l).
Proof.
  intros cf md l Hfam Hflat Hcore Hq Hall Hf. unfold back_family in Hfam. destruct cf as [be fct pl qb]. cbn [c_be c_pol] in *.
  destruct be; try contradiction.
  - apply (back_queue_is_spec (Cfg Back fct pl qb)); auto.
  - rewrite <- (run_back_back11 fct pl qb md l Hfam). apply (back_queue_is_spec (Cfg Back fct pl qb)); auto.
Qed.

Theorem back_family_same_queue_behaviour : forall cf1 cf2 md l,
  c_pol cf1 = c_pol cf2 -> back_family cf1 md -> back_family cf2 md -> flat_events md -> core (md_root md) ->
  back_start_queues = true -> Forall qplain_op l -> count_enq l + depth (md_root md) + 3 <= default_fuel ->
  Forall2 same_step_strict (run cf1 md l) (run cf2 md l).
Proof.
  intros cf1 cf2 md l Hpol H1 H2 Hflat Hcore Hq Hall Hf.
  eapply Forall2_same_strict.
  - apply back_family_queue_is_spec; eauto.
  - rewrite Hpol. apply back_family_queue_is_spec; eauto.
Qed.

(* a history inside the hypotheses, on the nested example definition *)
Definition ex_queue_ops : list op :=
  [OEnqueue (Evt 4 1); OStart [] []; OEnqueue (Evt 6 2); OEnqueue (Evt 5 3); OProcess (Evt 6 4) [10] []; OEnqueue (Evt 4 5);
   ODrain [3] []; OStop []; OEnqueue (Evt 4 6); OStart [1] []].
