(* Lemmas_SpecQueue.v - events stored from outside (enqueue_event) on the outermost machine: for every core definition and
   every history of start / stop / process_event / enqueue_event / execute_queued_events the back engine is the
   specification extended by one pending list: every stored occurrence is dispatched exactly once, oldest first, each as
   a complete step, at the end of the next start() / process_event / execute_queued_events. *)
From Msm Require Import Run Lemmas_C19 Lemmas_Rows Lemmas_Sim Spec Lemmas_Core Lemmas_Fifo Lemmas_SpecBack Lemmas_SpecMp11 Lemmas_SpecRun Lemmas_Equiv.
From Coq Require Import Lia ZArith.

Section BackQueue.
Variable cf : cfg.
Hypothesis Hbe : c_be cf = Back.
Variable parents : list (option nat).
Hypothesis Hflat : forall e, nth e parents None = None.
Hypothesis Hstartq : back_start_queues = true.
Variable root : machine.
Hypothesis Hcore : core root.
Variable fuel : nat.

Lemma sim_run_m' (m:M unit) rn val (P:unit -> rnode -> list titem -> Prop) :
  sim val m rn P -> exists rn' items, run_m m rn val [] = (rn', rev items) /\ P tt rn' items.
Proof.
  intros H. destruct (H (Glob [] 0 [] val [] 0)) as ([] & rn' & items & E & HP).
  { repeat split. }
  exists rn', items. unfold run_m. rewrite E. cbn. rewrite app_nil_r. auto.
Qed.

Theorem back_qrun_ops : forall l rn pend, Forall qplain_op l -> quiet pend root rn -> user_events pend ->
  length pend + count_enq l + depth root + 3 <= fuel ->
  Forall2 step_ok (sp_qrun (c_pol cf) root (abs rn, pend) l) (run_ops cf root (build cf parents false root) fuel rn l).
Proof.
  induction l as [|o t IH]; intros rn pend Hall Hq Hu Hf; cbn [sp_qrun run_ops]; [constructor|].
  inversion Hall as [|? ? Ho Ht]; subst.
  destruct o as [val plan|plan|e val plan|e|val plan| | | | | | |]; try contradiction; cbn [qplain_op] in Ho; cbn [sp_qop run_op count_enq] in *.
  - (* start *)
    destruct plan; [|contradiction].
    destruct (sim_run_m' _ rn val _ (back_start_q cf Hbe parents Hflat val Hstartq root Hcore pend fuel rn Hq ltac:(lia) Hu))
      as (rn' & items & E & Hok' & Hs).
    rewrite E. destruct (sp_start root (abs rn)) as [i0 c0]. destruct (sp_drain (c_pol cf) root val pend c0) as [i c'].
    cbn beta iota zeta in Hs. destruct Hs as (-> & Ha). cbn [fst]. constructor.
    + unfold step_ok. cbn [fst snd]. split; [rewrite snapshot_abs, Ha; reflexivity | reflexivity].
    + rewrite <- Ha. apply IH; [exact Ht | apply quiet_nil; exact Hok' | constructor | cbn; lia].
  - (* stop *)
    destruct plan; [|contradiction].
    destruct (sim_run_m' _ rn [] _ (back_stop_q cf Hbe parents Hflat [] root Hcore pend fuel rn Hq))
      as (rn' & items & E & Hq' & Hs).
    rewrite E. destruct (sp_stop root (abs rn)) as [i c']. inversion Hs; subst. cbn [fst]. constructor.
    + unfold step_ok. cbn [fst snd]. split; [rewrite snapshot_abs; reflexivity | reflexivity].
    + apply IH; [exact Ht | exact Hq' | exact Hu | lia].
  - (* process_event *)
    destruct plan; [|contradiction].
    pose proof (back_process_event_q cf Hbe parents Hflat val root Hcore pend fuel e rn Hq ltac:(lia) Ho Hu) as Hs.
    destruct (Hs (Glob [] 0 [] val [] 0)) as (code & rn' & items & E & Hok' & Hres).
    { repeat split. }
    unfold run_m, bind, direct_code. rewrite Hbe. rewrite E. cbn. rewrite app_nil_r. cbn zeta in Hres.
    destruct (sp_drain (c_pol cf) root val pend (o_conf (sp_process (c_pol cf) root e val (abs rn)))) as [i c'].
    cbn beta iota zeta in Hres. destruct Hres as (-> & Ha & Hc). cbn [fst]. constructor.
    + unfold step_ok. cbn [fst snd]. split; [rewrite snapshot_abs, Ha; reflexivity|]. exists code. auto.
    + rewrite <- Ha. apply IH; [exact Ht | apply quiet_nil; exact Hok' | constructor | cbn; lia].
  - (* enqueue_event *)
    destruct (sim_run_m' _ rn [] _ (back_enqueue_q cf Hbe parents [] root pend e rn Hq)) as (rn' & items & E & Hq' & -> & Ha).
    rewrite E. cbn [fst rev]. constructor.
    + unfold step_ok. cbn [fst snd]. split; [rewrite snapshot_abs, Ha; reflexivity | reflexivity].
    + rewrite <- Ha. apply IH; [exact Ht | exact Hq' | apply Forall_app; split; [exact Hu | constructor; [exact Ho | constructor]] |].
      rewrite app_length. cbn. lia.
  - (* execute_queued_events *)
    destruct plan; [|contradiction].
    destruct (sim_run_m' _ rn val _ (back_drain_q cf Hbe parents Hflat val root Hcore pend fuel rn Hq ltac:(lia) Hu))
      as (rn' & items & E & Hok' & Hs).
    rewrite E. destruct (sp_drain (c_pol cf) root val pend (abs rn)) as [i c']. inversion Hs; subst. cbn [fst]. constructor.
    + unfold step_ok. cbn [fst snd]. split; [rewrite snapshot_abs; reflexivity | reflexivity].
    + apply IH; [exact Ht | apply quiet_nil; exact Hok' | constructor | cbn; lia].
  - (* execute_single_queued_event *)
    destruct plan; [|contradiction]. destruct pend as [|e pend].
    + (* nothing stored *)
      assert (E : run_m (co_drain (build cf parents false root) fuel 1) rn val [] = (rn, [])).
      { destruct Hq as ((Hmq & _) & _). cbn [map] in Hmq.
        rewrite (build_back cf Hbe). cbn [back_ops co_drain]. change (Nat.eqb 1 0) with false. cbn iota.
        unfold run_m, drain_one, bind, get. rewrite Hmq. reflexivity. }
      rewrite E. cbn [fst]. constructor.
      * unfold step_ok. cbn [fst snd]. split; [apply snapshot_abs | reflexivity].
      * apply IH; [exact Ht | exact Hq | exact Hu | cbn in *; lia].
    + inversion Hu as [|? ? He Hu']; subst.
      destruct (sim_run_m' _ rn val _ (back_drain1_q cf Hbe parents Hflat val root Hcore e pend fuel rn Hq ltac:(lia) He))
        as (rn' & items & E & Hq' & -> & Ha).
      rewrite E. cbn [fst]. constructor.
      * unfold step_ok. cbn [fst snd]. split; [rewrite snapshot_abs, Ha; reflexivity | reflexivity].
      * rewrite <- Ha. apply IH; [exact Ht | exact Hq' | exact Hu' | cbn in *; lia].
Qed.
End BackQueue.

Theorem back_queue_is_spec : forall cf md l,
  c_be cf = Back -> flat_events md -> core (md_root md) -> back_start_queues = true -> Forall qplain_op l ->
  count_enq l + depth (md_root md) + 3 <= default_fuel ->
  Forall2 step_ok (sp_qrun (c_pol cf) (md_root md) (abs (init_rnode (md_root md)), []) l) (run cf md l).
Proof.
  intros cf md l HB Hflat Hcore Hq Hall Hf. unfold run.
  apply (back_qrun_ops cf HB (md_parents md) Hflat Hq (md_root md) Hcore default_fuel l (init_rnode (md_root md)) [] Hall).
  - apply quiet_nil. apply ok_init.
  - constructor.
  - cbn. lia.
Qed.

(* back11 on the definitions it can compile, and any two configurations of the back family side by side *)
Definition back_family (cf:cfg) (md:mdef) : Prop :=
  match c_be cf with Back => True | Back11 => no_internal (md_root md) | Mp11 => False end.

Theorem back_family_queue_is_spec : forall cf md l,
  back_family cf md -> flat_events md -> core (md_root md) -> back_start_queues = true -> Forall qplain_op l ->
  count_enq l + depth (md_root md) + 3 <= default_fuel ->
  Forall2 step_ok (sp_qrun (c_pol cf) (md_root md) (abs (init_rnode (md_root md)), []) l) (run cf md l).
Proof.
  intros cf md l Hfam Hflat Hcore Hq Hall Hf. unfold back_family in Hfam. destruct cf as [be fct pl qb]. cbn [c_be c_pol] in *.
  destruct be; try contradiction.
  - apply (back_queue_is_spec (Cfg Back fct pl qb)); auto.
  - rewrite <- (run_back_back11 fct pl qb md l Hfam). apply (back_queue_is_spec (Cfg Back fct pl qb)); auto.
Qed.

Theorem back_family_same_queue_behaviour : forall cf1 cf2 md l,
  c_pol cf1 = c_pol cf2 -> back_family cf1 md -> back_family cf2 md -> flat_events md -> core (md_root md) ->
  back_start_queues = true -> Forall qplain_op l -> count_enq l + depth (md_root md) + 3 <= default_fuel ->
  Forall2 same_step_strict (run cf1 md l) (run cf2 md l).
Proof.
  intros cf1 cf2 md l Hpol H1 H2 Hflat Hcore Hq Hall Hf.
  eapply Forall2_same_strict.
  - apply back_family_queue_is_spec; eauto.
  - rewrite Hpol. apply back_family_queue_is_spec; eauto.
Qed.

(* ---- backmp11: the pool of the outermost machine ---- *)
Section Mp11Queue.
Variable cf : cfg.
Hypothesis Hbe : c_be cf = Mp11.
Variable parents : list (option nat).
Hypothesis Hflat : forall e, nth e parents None = None.
Hypothesis Hresets : mp11_entry_throw_resets = true.
Variable root : machine.
Hypothesis Hcore : core root.
Hypothesis Hnohist : m_hist root = HNone.
Variable fuel : nat.
Hypothesis Hmw : (Z.of_nat fuel < MW)%Z.

Theorem mp11_qrun_ops : forall l rn mk pend started, qbracketed started l -> quietm2 mk pend root rn -> running rn = started ->
  Forall (fun e => e_ty e <> EV_NONE) pend -> 2 * (length pend + count_enq l) + depth root + 3 <= fuel ->
  Forall2 step_ok (sp_qrun_mp11 (c_pol cf) root (abs rn, pend) l) (run_ops cf root (build cf parents false root) fuel rn l).
Proof.
  induction l as [|o t IH]; intros rn mk pend started Hb Hq Hrun Hu Hf; cbn [sp_qrun_mp11 run_ops]; [constructor|].
  cbn [qbracketed] in Hb.
  destruct o as [val plan|plan|e val plan|e|val plan|val plan| | | | | |]; try contradiction; cbn [sp_qop_mp11 run_op count_enq] in *.
  - (* start *)
    destruct plan; [|contradiction]. destruct started; [contradiction|]. rewrite abs_act.
    destruct (sim_run_m' _ rn val _ (mp11_start_q cf Hbe parents Hflat val Hresets root Hcore Hnohist mk pend fuel rn Hq Hrun ltac:(lia)))
      as (rn' & items & E & Hok' & Hr' & Hs).
    rewrite E. rewrite <- Hs. cbn [fst]. constructor.
    + unfold step_ok. cbn [fst snd]. split; [apply snapshot_abs | reflexivity].
    + apply (IH rn' None [] true); [exact Hb | apply quietm_nil; exact Hok' | exact Hr' | constructor | cbn [length]; lia].
  - (* stop *)
    destruct plan; [|contradiction]. destruct started; [|contradiction].
    destruct (sim_run_m' _ rn [] _ (mp11_stop_q cf Hbe parents Hflat [] Hresets root Hcore mk pend fuel rn Hq Hrun))
      as (rn' & items & E & Hq' & Hr' & Hs).
    rewrite E. rewrite <- Hs. cbn [fst]. constructor.
    + unfold step_ok. cbn [fst snd]. split; [apply snapshot_abs | reflexivity].
    + apply (IH rn' mk pend false); [exact Hb | exact Hq' | exact Hr' | exact Hu | lia].
  - (* process_event *)
    destruct plan; [|contradiction]. destruct started; [|contradiction]. destruct Hb as (He & Hb).
    pose proof (mp11_process_event_q cf Hbe parents Hflat val Hresets root Hcore mk pend fuel e rn Hq Hrun ltac:(lia) ltac:(lia) Hmw He Hu) as Hs.
    destruct (Hs (Glob [] 0 [] val [] 0)) as (code & rn' & items & E & Hok' & Hr' & Hres).
    { repeat split. }
    unfold run_m, bind, direct_code. rewrite Hbe. rewrite E. cbn. rewrite app_nil_r. cbn zeta in Hres.
    destruct (sp_drain (c_pol cf) root val pend (o_conf (sp_process (c_pol cf) root e val (abs rn)))) as [i c'].
    destruct Hres as (-> & Ha & Hc). cbn [fst]. constructor.
    + unfold step_ok. cbn [fst snd]. split; [rewrite snapshot_abs, Ha; reflexivity|]. exists code. auto.
    + rewrite <- Ha. apply (IH rn' None [] true); [exact Hb | apply quietm_nil; exact Hok' | exact Hr' | constructor | cbn [length]; lia].
  - (* enqueue_event *)
    destruct Hb as (He & Hb).
    destruct (sim_run_m' _ rn [] _ (mp11_enqueue_q cf Hbe parents [] root mk pend e rn Hq)) as (rn' & items & E & Hq' & Hr' & -> & Ha).
    rewrite E. cbn [fst rev]. constructor.
    + unfold step_ok. cbn [fst snd]. split; [rewrite snapshot_abs, Ha; reflexivity | reflexivity].
    + rewrite <- Ha. apply (IH rn' mk (pend ++ [e]) started); [exact Hb | exact Hq' | congruence | apply Forall_app; split; [exact Hu | constructor; [exact He | constructor]] |].
      rewrite app_length. cbn [length]. lia.
  - (* process_event_pool *)
    destruct plan; [|contradiction]. destruct started; [|contradiction].
    destruct (sim_run_m' _ rn val _ (mp11_drain_q cf Hbe parents Hflat val Hresets root Hcore mk pend fuel rn Hq Hrun ltac:(lia) ltac:(lia) Hmw Hu))
      as (rn' & items & E & Hok' & Hr' & Hs).
    rewrite E. destruct (sp_drain (c_pol cf) root val pend (abs rn)) as [i c']. inversion Hs; subst. cbn [fst]. constructor.
    + unfold step_ok. cbn [fst snd]. split; [rewrite snapshot_abs; reflexivity | reflexivity].
    + apply (IH rn' None [] true); [exact Hb | apply quietm_nil; exact Hok' | exact Hr' | constructor | cbn [length]; lia].
  - (* process_event_pool(1) *)
    destruct plan; [|contradiction]. destruct started; [|contradiction]. destruct pend as [|e pend].
    + destruct (sim_run_m' _ rn val _ (mp11_drain1_nil cf Hbe parents val root mk fuel rn Hq Hrun ltac:(lia)))
        as (rn' & items & E & Hq' & Hr' & -> & Ha).
      rewrite E. cbn [fst rev]. constructor.
      * unfold step_ok. cbn [fst snd]. split; [rewrite snapshot_abs, Ha; reflexivity | reflexivity].
      * rewrite <- Ha. apply (IH rn' None [] true); [exact Hb | exact Hq' | exact Hr' | constructor | cbn [length] in *; lia].
    + inversion Hu as [|? ? He Hu']; subst.
      destruct (sim_run_m' _ rn val _ (mp11_drain1_q cf Hbe parents Hflat val Hresets root Hcore mk e pend fuel rn Hq Hrun ltac:(lia) ltac:(lia) He))
        as (rn' & items & E & (mk' & Hq') & Hr' & -> & Ha).
      rewrite E. cbn [fst]. constructor.
      * unfold step_ok. cbn [fst snd]. split; [rewrite snapshot_abs, Ha; reflexivity | reflexivity].
      * rewrite <- Ha. apply (IH rn' mk' pend true); [exact Hb | exact Hq' | exact Hr' | exact Hu' | cbn [length] in *; lia].
Qed.
End Mp11Queue.

Theorem mp11_queue_is_spec : forall cf md l,
  c_be cf = Mp11 -> flat_events md -> core (md_root md) -> m_hist (md_root md) = HNone -> mp11_entry_throw_resets = true ->
  qbracketed false l -> 2 * count_enq l + depth (md_root md) + 3 <= default_fuel ->
  Forall2 step_ok (sp_qrun_mp11 (c_pol cf) (md_root md) (abs (init_rnode (md_root md)), []) l) (run cf md l).
Proof.
  intros cf md l HB Hflat Hcore Hh Hres Hb Hf. unfold run.
  apply (mp11_qrun_ops cf HB (md_parents md) Hflat Hres (md_root md) Hcore Hh default_fuel ltac:(reflexivity) l (init_rnode (md_root md)) None [] false Hb).
  - apply quietm_nil. apply okm_init.
  - destruct (md_root md); reflexivity.
  - constructor.
  - cbn [length]. lia.
Qed.

(* ---- the back family and backmp11 side by side on histories with stored events ---- *)
(* histories on which the two readings coincide: start() and stop() alternate, events are sent and stored while the
   machine is started, and nothing is pending when the machine is stopped (`pending`: something may be stored) *)
Fixpoint qlive (started pending:bool) (l:list op) : Prop :=
  match l with
  | [] => True
  | o :: t =>
      match o, started with
      | OStart _ [], false => pending = false /\ qlive true false t
      | OStop [], true => pending = false /\ qlive false false t
      | OProcess e _ [], true => e_ty e <> EV_NONE /\ qlive true false t
      | OEnqueue e, true => e_ty e <> EV_NONE /\ qlive true true t
      | ODrain _ [], true => qlive true false t
      | ODrain1 _ [], true => qlive true pending t
      | _, _ => False
      end
  end.

Lemma qlive_bracketed : forall l s p, qlive s p l -> qbracketed s l.
Proof.
  induction l as [|o t IH]; intros s p H; [exact I|]. cbn [qlive qbracketed] in *.
  destruct o as [val plan|plan|e val plan|e|val plan|val plan| | | | | |]; try contradiction.
  - destruct plan; [|contradiction]. destruct s; [contradiction|]. destruct H as (_ & H). eapply IH; eauto.
  - destruct plan; [|contradiction]. destruct s; [|contradiction]. destruct H as (_ & H). eapply IH; eauto.
  - destruct plan; [|contradiction]. destruct s; [|contradiction]. destruct H as (He & H). split; [exact He | eapply IH; eauto].
  - destruct s; [|contradiction]. destruct H as (He & H). split; [exact He | eapply IH; eauto].
  - destruct plan; [|contradiction]. destruct s; [|contradiction]. eapply IH; eauto.
  - destruct plan; [|contradiction]. destruct s; [|contradiction]. eapply IH; eauto.
Qed.
Lemma qlive_plain : forall l s p, qlive s p l -> Forall qplain_op l.
Proof.
  induction l as [|o t IH]; intros s p H; [constructor|]. cbn [qlive] in H.
  destruct o as [val plan|plan|e val plan|e|val plan|val plan| | | | | |]; try contradiction.
  - destruct plan; [|contradiction]. destruct s; [contradiction|]. destruct H as (_ & H). constructor; [exact I | eapply IH; eauto].
  - destruct plan; [|contradiction]. destruct s; [|contradiction]. destruct H as (_ & H). constructor; [exact I | eapply IH; eauto].
  - destruct plan; [|contradiction]. destruct s; [|contradiction]. destruct H as (He & H). constructor; [exact He | eapply IH; eauto].
  - destruct s; [|contradiction]. destruct H as (He & H). constructor; [exact He | eapply IH; eauto].
  - destruct plan; [|contradiction]. destruct s; [|contradiction]. constructor; [exact I | eapply IH; eauto].
  - destruct plan; [|contradiction]. destruct s; [|contradiction]. constructor; [exact I | eapply IH; eauto].
Qed.

Lemma sp_qrun_same pol mc : forall l c pend s p, qlive s p l -> (p = false -> pend = []) ->
  Forall2 same_spec (sp_qrun pol mc (c, pend) l) (sp_qrun_mp11 pol mc (c, pend) l).
Proof.
  induction l as [|o t IH]; intros c pend s p H Hp; cbn [sp_qrun sp_qrun_mp11]; [constructor|]. cbn [qlive] in H.
  destruct o as [val plan|plan|e val plan|e|val plan|val plan| | | | | |]; try contradiction; cbn [sp_qop sp_qop_mp11].
  - destruct plan; [|contradiction]. destruct s; [contradiction|]. destruct H as (-> & H). rewrite (Hp eq_refl). cbn [sp_drain].
    unfold sp_start, sp_start_obs. destruct (sp_enter mc (Evt EV_INIT 0) (c_set_act c (m_inits mc))) as [items cc]. cbn [fst].
    constructor; [|eapply IH; eauto].
    unfold same_spec. cbn [fst snd]. split; [reflexivity|]. split; [reflexivity|]. right. split; [reflexivity|].
    cbn [app]. rewrite !rev_app_distr. cbn [rev app]. eauto 10.
  - destruct plan; [|contradiction]. destruct s; [|contradiction]. destruct H as (-> & H).
    destruct (sp_stop mc c) as [i c']. cbn [fst]. constructor; [|eapply IH; eauto].
    unfold same_spec. cbn [fst snd]. auto.
  - destruct plan; [|contradiction]. destruct s; [|contradiction]. destruct H as (He & H).
    destruct (sp_drain pol mc val pend (o_conf (sp_process pol mc e val c))) as [i c']. cbn [fst]. constructor; [|eapply IH; eauto].
    unfold same_spec. cbn [fst snd]. auto.
  - destruct s; [|contradiction]. destruct H as (He & H). cbn [fst]. constructor; [|eapply IH; eauto; discriminate].
    unfold same_spec. cbn [fst snd]. auto.
  - destruct plan; [|contradiction]. destruct s; [|contradiction].
    destruct (sp_drain pol mc val pend c) as [i c']. cbn [fst]. constructor; [|eapply IH; eauto].
    unfold same_spec. cbn [fst snd]. auto.
  - destruct plan; [|contradiction]. destruct s; [|contradiction]. destruct pend as [|e0 pend'].
    + cbn [fst]. constructor; [|eapply IH; eauto]. unfold same_spec. cbn [fst snd]. auto.
    + cbn [fst]. constructor; [|eapply IH; eauto; intros ->; specialize (Hp eq_refl); discriminate].
      unfold same_spec. cbn [fst snd]. auto.
Qed.

(* back / back11 and backmp11, the same switch policy: on these histories every stored occurrence is dispatched by both
   at the same point, with the same behaviour invocations, arguments and configurations *)
Theorem back_family_mp11_same_queue_behaviour : forall cfB cfM md l,
  back_family cfB md -> c_be cfM = Mp11 -> c_pol cfB = c_pol cfM -> flat_events md -> core (md_root md) ->
  m_hist (md_root md) = HNone -> back_start_queues = true -> mp11_entry_throw_resets = true ->
  qlive false false l -> 2 * count_enq l + depth (md_root md) + 3 <= default_fuel ->
  Forall2 same_step (run cfB md l) (run cfM md l).
Proof.
  intros cfB cfM md l HB HM Hpol Hflat Hcore Hh Hq Hr Hl Hf.
  eapply Forall2_same.
  - eapply (sp_qrun_same (c_pol cfB) (md_root md) l _ [] false false Hl). reflexivity.
  - apply back_family_queue_is_spec; eauto; [eapply qlive_plain; eauto | lia].
  - rewrite Hpol. apply mp11_queue_is_spec; eauto. eapply qlive_bracketed; eauto.
Qed.

(* a history inside the hypotheses, on the nested example definition *)
Definition ex_queue_ops : list op :=
  [OEnqueue (Evt 4 1); OStart [] []; OEnqueue (Evt 6 2); OEnqueue (Evt 5 3); OProcess (Evt 6 4) [10] []; OEnqueue (Evt 4 5);
   ODrain [3] []; OStop []; OEnqueue (Evt 4 6); OStart [1] []].

(* a history backmp11 is specified on (start / stop alternate), with events stored while stopped and while started *)
Definition ex_queue_ops_mp11 : list op :=
  [OEnqueue (Evt 4 1); OStart [] []; OEnqueue (Evt 4 2); OEnqueue (Evt 5 3); OProcess (Evt 6 4) [10] []; OEnqueue (Evt 6 5);
   ODrain [4] []; OStop []; OEnqueue (Evt 4 6); OStart [1] []; OEnqueue (Evt 4 7); OEnqueue (Evt 5 8); ODrain1 [1] []; ODrain1 [2] []; ODrain1 [] []].

(* any two backmp11 configurations (compile policy, dispatch strategy), the same switch policy *)
Theorem mp11_same_queue_behaviour : forall cf1 cf2 md l,
  c_be cf1 = Mp11 -> c_be cf2 = Mp11 -> c_pol cf1 = c_pol cf2 -> flat_events md -> core (md_root md) ->
  m_hist (md_root md) = HNone -> mp11_entry_throw_resets = true -> qbracketed false l ->
  2 * count_enq l + depth (md_root md) + 3 <= default_fuel ->
  Forall2 same_step_strict (run cf1 md l) (run cf2 md l).
Proof.
  intros cf1 cf2 md l H1 H2 Hpol Hflat Hcore Hh Hr Hb Hf.
  eapply Forall2_same_strict.
  - apply mp11_queue_is_spec; eauto.
  - rewrite Hpol. apply mp11_queue_is_spec; eauto.
Qed.
