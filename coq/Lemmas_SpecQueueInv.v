(* Lemmas_SpecQueueInv.v - what holds after every history with stored events: the state the engines end in is the one
   the specification with a pending list prescribes (`sp_qfinal`), hence the integrity invariant of Lemmas_SpecInv.v
   and the flag functions of Lemmas_SpecFlags.v hold there too. *)
From Msm Require Import Run Lemmas_C19 Lemmas_Rows Lemmas_Sim Spec Lemmas_Core Lemmas_Fifo Lemmas_SpecBack Lemmas_SpecMp11 Lemmas_SpecRun
  Lemmas_SpecProps Lemmas_SpecFlags Lemmas_SpecInv Lemmas_SpecQueue Lemmas_Equiv.
From Coq Require Import Lia ZArith.

(* the invariant along the specification *)
Lemma sp_drain_inv pol mc val : wfz mc -> forall evs c, inv mc c -> inv mc (snd (sp_drain pol mc val evs c)).
Proof.
  intros Hwf. induction evs as [|e t IH]; intros c H; cbn [sp_drain]; [exact H|].
  pose proof (sp_op_inv false pol mc (OProcess e val []) c Hwf H) as H1. cbn [sp_op_gen snd] in H1.
  specialize (IH _ H1). destruct (sp_drain pol mc val t (o_conf (sp_process pol mc e val c))) as [i c']. exact IH.
Qed.

Lemma sp_qop_inv pol mc o c pend : wfz mc -> inv mc c -> inv mc (fst (snd (sp_qop pol mc o (c, pend)))).
Proof.
  intros Hwf H. destruct o; cbn [sp_qop]; try exact H.
  - pose proof (sp_op_inv false pol mc (OStart val plan) c Hwf H) as H1. cbn [sp_op_gen] in H1. unfold sp_start.
    destruct (sp_start_obs (m_inits mc) mc c) as [i0 c0]. cbn [snd] in H1.
    pose proof (sp_drain_inv pol mc val Hwf pend c0 H1) as H2. destruct (sp_drain pol mc val pend c0) as [i c']. exact H2.
  - pose proof (sp_op_inv false pol mc (OStop plan) c Hwf H) as H1. cbn [sp_op_gen] in H1.
    destruct (sp_stop mc c) as [i c']. exact H1.
  - pose proof (sp_op_inv false pol mc (OProcess e val plan) c Hwf H) as H1. cbn [sp_op_gen snd] in H1.
    pose proof (sp_drain_inv pol mc val Hwf pend _ H1) as H2.
    destruct (sp_drain pol mc val pend (o_conf (sp_process pol mc e val c))) as [i c']. exact H2.
  - pose proof (sp_drain_inv pol mc val Hwf pend c H) as H2. destruct (sp_drain pol mc val pend c) as [i c']. exact H2.
  - destruct pend as [|e t]; [exact H|].
    pose proof (sp_op_inv false pol mc (OProcess e val []) c Hwf H) as H1. cbn [sp_op_gen snd] in H1. exact H1.
Qed.

Lemma sp_qop_mp11_inv pol mc o c pend : wfz mc -> inv mc c -> inv mc (fst (snd (sp_qop_mp11 pol mc o (c, pend)))).
Proof.
  intros Hwf H. destruct o; cbn [sp_qop_mp11]; try exact H.
  - pose proof (sp_op_inv true pol mc (OStart val plan) c Hwf H) as H1. cbn [sp_op_gen] in H1.
    destruct (sp_start_obs (c_act c) mc c) as [i0 c0]. exact H1.
  - pose proof (sp_op_inv false pol mc (OStop plan) c Hwf H) as H1. cbn [sp_op_gen] in H1.
    destruct (sp_stop mc c) as [i c']. exact H1.
  - pose proof (sp_op_inv false pol mc (OProcess e val plan) c Hwf H) as H1. cbn [sp_op_gen snd] in H1.
    pose proof (sp_drain_inv pol mc val Hwf pend _ H1) as H2.
    destruct (sp_drain pol mc val pend (o_conf (sp_process pol mc e val c))) as [i c']. exact H2.
  - pose proof (sp_drain_inv pol mc val Hwf pend c H) as H2. destruct (sp_drain pol mc val pend c) as [i c']. exact H2.
  - destruct pend as [|e t]; [exact H|].
    pose proof (sp_op_inv false pol mc (OProcess e val []) c Hwf H) as H1. cbn [sp_op_gen snd] in H1. exact H1.
Qed.

Lemma sp_qfinal_inv pol mc : wfz mc -> forall l c pend, inv mc c -> inv mc (fst (sp_qfinal pol mc (c, pend) l)).
Proof.
  intros Hwf. induction l as [|o t IH]; intros c pend H; cbn [sp_qfinal]; [exact H|].
  pose proof (sp_qop_inv pol mc o c pend Hwf H) as H1. destruct (snd (sp_qop pol mc o (c, pend))) as [c1 p1]. apply IH. exact H1.
Qed.
Lemma sp_qfinal_mp11_inv pol mc : wfz mc -> forall l c pend, inv mc c -> inv mc (fst (sp_qfinal_mp11 pol mc (c, pend) l)).
Proof.
  intros Hwf. induction l as [|o t IH]; intros c pend H; cbn [sp_qfinal_mp11]; [exact H|].
  pose proof (sp_qop_mp11_inv pol mc o c pend Hwf H) as H1. destruct (snd (sp_qop_mp11 pol mc o (c, pend))) as [c1 p1]. apply IH. exact H1.
Qed.

(* ---- back: the state a history with stored events ends in ---- *)
Section BackQFinal.
Variable cf : cfg.
Hypothesis Hbe : c_be cf = Back.
Variable parents : list (option nat).
Hypothesis Hflat : forall e, nth e parents None = None.
Hypothesis Hstartq : back_start_queues = true.
Variable root : machine.
Hypothesis Hcore : core root.
Variable fuel : nat.

Theorem back_qfinal : forall l rn pend, Forall qplain_op l -> quiet pend root rn -> user_events pend ->
  length pend + count_enq l + depth root + 3 <= fuel ->
  let rn' := final_rn cf root (build cf parents false root) fuel rn l in
  let st' := sp_qfinal (c_pol cf) root (abs rn, pend) l in
  quiet (snd st') root rn' /\ abs rn' = fst st'.
Proof.
  induction l as [|o t IH]; intros rn pend Hall Hq Hu Hf; cbn [final_rn sp_qfinal]; [cbn [fst snd]; auto|].
  inversion Hall as [|? ? Ho Ht]; subst.
  destruct o as [val plan|plan|e val plan|e|val plan|val plan| | | | | |]; try contradiction; cbn [qplain_op] in Ho; cbn [sp_qop run_op count_enq] in *.
  - destruct plan; [|contradiction].
    destruct (sim_run_m' _ rn val _ (back_start_q cf Hbe parents Hflat val Hstartq root Hcore pend fuel rn Hq ltac:(lia) Hu))
      as (rn' & items & E & Hok' & Hs).
    rewrite E. destruct (sp_start root (abs rn)) as [i0 c0]. destruct (sp_drain (c_pol cf) root val pend c0) as [i c'].
    cbn beta iota zeta in Hs. destruct Hs as (-> & Ha). cbn [fst snd]. rewrite <- Ha.
    apply IH; [exact Ht | apply quiet_nil; exact Hok' | constructor | cbn; lia].
  - destruct plan; [|contradiction].
    destruct (sim_run_m' _ rn [] _ (back_stop_q cf Hbe parents Hflat [] root Hcore pend fuel rn Hq)) as (rn' & items & E & Hq' & Hs).
    rewrite E. destruct (sp_stop root (abs rn)) as [i c']. inversion Hs; subst. cbn [fst snd].
    apply IH; [exact Ht | exact Hq' | exact Hu | lia].
  - destruct plan; [|contradiction].
    pose proof (back_process_event_q cf Hbe parents Hflat val root Hcore pend fuel e rn Hq ltac:(lia) Ho Hu) as Hs.
    destruct (Hs (Glob [] 0 [] val [] 0)) as (code & rn' & items & E & Hok' & Hres).
    { repeat split. }
    unfold run_m, bind, direct_code. rewrite Hbe. rewrite E. cbn [fst snd]. cbn zeta in Hres.
    destruct (sp_drain (c_pol cf) root val pend (o_conf (sp_process (c_pol cf) root e val (abs rn)))) as [i c'].
    destruct Hres as (_ & Ha & _). cbn [fst snd]. rewrite <- Ha.
    apply IH; [exact Ht | apply quiet_nil; exact Hok' | constructor | cbn; lia].
  - destruct (sim_run_m' _ rn [] _ (back_enqueue_q cf Hbe parents [] root pend e rn Hq)) as (rn' & items & E & Hq' & _ & Ha).
    rewrite E. cbn [fst snd]. rewrite <- Ha.
    apply IH; [exact Ht | exact Hq' | apply Forall_app; split; [exact Hu | constructor; [exact Ho | constructor]] |].
    rewrite app_length. cbn. lia.
  - destruct plan; [|contradiction].
    destruct (sim_run_m' _ rn val _ (back_drain_q cf Hbe parents Hflat val root Hcore pend fuel rn Hq ltac:(lia) Hu)) as (rn' & items & E & Hok' & Hs).
    rewrite E. destruct (sp_drain (c_pol cf) root val pend (abs rn)) as [i c']. inversion Hs; subst. cbn [fst snd].
    apply IH; [exact Ht | apply quiet_nil; exact Hok' | constructor | cbn; lia].
  - destruct plan; [|contradiction]. destruct pend as [|e pend].
    + assert (E : run_m (co_drain (build cf parents false root) fuel 1) rn val [] = (rn, [])).
      { destruct Hq as ((Hmq & _) & _). cbn [map] in Hmq.
        rewrite (build_back cf Hbe). cbn [back_ops co_drain]. change (Nat.eqb 1 0) with false. cbn iota.
        unfold run_m, drain_one, bind, get. rewrite Hmq. reflexivity. }
      rewrite E. cbn [fst snd]. apply IH; [exact Ht | exact Hq | exact Hu | cbn in *; lia].
    + inversion Hu as [|? ? He Hu']; subst.
      destruct (sim_run_m' _ rn val _ (back_drain1_q cf Hbe parents Hflat val root Hcore e pend fuel rn Hq ltac:(lia) He))
        as (rn' & items & E & Hq' & _ & Ha).
      rewrite E. cbn [fst snd]. rewrite <- Ha. apply IH; [exact Ht | exact Hq' | exact Hu' | cbn in *; lia].
Qed.
End BackQFinal.

(* integrity (Lemmas_SpecInv.inv: one active id per region, each a state of that region, submachine configurations
   well-formed at every depth) and the flag answers after every history with stored events, back *)
Theorem back_integrity_after_queue_history : forall cf, c_be cf = Back -> forall parents, (forall e, nth e parents None = None) ->
  back_start_queues = true -> forall root, core root -> wfz root -> forall l, Forall qplain_op l ->
  count_enq l + depth root + 3 <= default_fuel ->
  inv root (abs (final_rn cf root (build cf parents false root) default_fuel (init_rnode root) l)).
Proof.
  intros cf Hbe parents Hflat Hq root Hcore Hwf l Hall Hf.
  destruct (back_qfinal cf Hbe parents Hflat Hq root Hcore default_fuel l (init_rnode root) [] Hall) as (_ & Ha).
  - apply quiet_nil. apply ok_init.
  - constructor.
  - cbn [length]. lia.
  - rewrite Ha. apply sp_qfinal_inv; [exact Hwf|]. apply inv_init. exact Hwf.
Qed.

Theorem back_flags_after_queue_history : forall cf, c_be cf = Back -> forall parents, (forall e, nth e parents None = None) ->
  back_start_queues = true -> forall root, core root -> forall l f, Forall qplain_op l ->
  count_enq l + depth root + 3 <= default_fuel ->
  let rn' := final_rn cf root (build cf parents false root) default_fuel (init_rnode root) l in
  let c' := fst (sp_qfinal (c_pol cf) root (abs (init_rnode root), []) l) in
  co_flag_or (build cf parents false root) rn' f = sp_flag_or root c' f /\
  co_flag_and (build cf parents false root) rn' f = sp_flag_and_back root c' f.
Proof.
  intros cf Hbe parents Hflat Hq root Hcore l f Hall Hf. cbn zeta.
  destruct (back_qfinal cf Hbe parents Hflat Hq root Hcore default_fuel l (init_rnode root) [] Hall) as (_ & Ha).
  - apply quiet_nil. apply ok_init.
  - constructor.
  - cbn [length]. lia.
  - rewrite <- Ha. assert (Hne : c_be cf <> Mp11) by (rewrite Hbe; discriminate).
    split; [apply back_flag_or_spec | apply back_flag_and_spec]; assumption.
Qed.

(* ---- backmp11 ---- *)
Section Mp11QFinal.
Variable cf : cfg.
Hypothesis Hbe : c_be cf = Mp11.
Variable parents : list (option nat).
Hypothesis Hflat : forall e, nth e parents None = None.
Hypothesis Hresets : mp11_entry_throw_resets = true.
Variable root : machine.
Hypothesis Hcore : core root.
Hypothesis Hnohist : m_hist root = HNone.
Variable fuel : nat.
Hypothesis Hmw : (Z.of_nat fuel < MW)%Z.

Theorem mp11_qfinal : forall l rn mk pend started, qbracketed started l -> quietm2 mk pend root rn -> running rn = started ->
  Forall (fun e => e_ty e <> EV_NONE) pend -> 2 * (length pend + count_enq l) + depth root + 3 <= fuel ->
  let rn' := final_rn cf root (build cf parents false root) fuel rn l in
  let st' := sp_qfinal_mp11 (c_pol cf) root (abs rn, pend) l in
  (exists mk', quietm2 mk' (snd st') root rn') /\ running rn' = ends_started started l /\ abs rn' = fst st'.
Proof.
  induction l as [|o t IH]; intros rn mk pend started Hb Hq Hrun Hu Hf; cbn [final_rn sp_qfinal_mp11 ends_started]; [cbn [fst snd]; eauto|].
  cbn [qbracketed] in Hb.
  destruct o as [val plan|plan|e val plan|e|val plan|val plan| | | | | |]; try contradiction; cbn [sp_qop_mp11 run_op count_enq ends_started] in *.
  - destruct plan; [|contradiction]. destruct started; [contradiction|]. rewrite abs_act.
    destruct (sim_run_m' _ rn val _ (mp11_start_q cf Hbe parents Hflat val Hresets root Hcore Hnohist mk pend fuel rn Hq Hrun ltac:(lia)))
      as (rn' & items & E & Hok' & Hr' & Hs).
    rewrite E. rewrite <- Hs. cbn [fst snd].
    apply (IH rn' None [] true); [exact Hb | apply quietm_nil; exact Hok' | exact Hr' | constructor | cbn [length]; lia].
  - destruct plan; [|contradiction]. destruct started; [|contradiction].
    destruct (sim_run_m' _ rn [] _ (mp11_stop_q cf Hbe parents Hflat [] Hresets root Hcore mk pend fuel rn Hq Hrun))
      as (rn' & items & E & Hq' & Hr' & Hs).
    rewrite E. rewrite <- Hs. cbn [fst snd]. apply (IH rn' mk pend false); [exact Hb | exact Hq' | exact Hr' | exact Hu | lia].
  - destruct plan; [|contradiction]. destruct started; [|contradiction]. destruct Hb as (He & Hb).
    pose proof (mp11_process_event_q cf Hbe parents Hflat val Hresets root Hcore mk pend fuel e rn Hq Hrun ltac:(lia) ltac:(lia) Hmw He Hu) as Hs.
    destruct (Hs (Glob [] 0 [] val [] 0)) as (code & rn' & items & E & Hok' & Hr' & Hres).
    { repeat split. }
    unfold run_m, bind, direct_code. rewrite Hbe. rewrite E. cbn [fst snd]. cbn zeta in Hres.
    destruct (sp_drain (c_pol cf) root val pend (o_conf (sp_process (c_pol cf) root e val (abs rn)))) as [i c'].
    destruct Hres as (_ & Ha & _). cbn [fst snd]. rewrite <- Ha.
    apply (IH rn' None [] true); [exact Hb | apply quietm_nil; exact Hok' | exact Hr' | constructor | cbn [length]; lia].
  - destruct Hb as (He & Hb).
    destruct (sim_run_m' _ rn [] _ (mp11_enqueue_q cf Hbe parents [] root mk pend e rn Hq)) as (rn' & items & E & Hq' & Hr' & _ & Ha).
    rewrite E. cbn [fst snd]. rewrite <- Ha.
    apply (IH rn' mk (pend ++ [e]) started); [exact Hb | exact Hq' | congruence | apply Forall_app; split; [exact Hu | constructor; [exact He | constructor]] |].
    rewrite app_length. cbn [length]. lia.
  - destruct plan; [|contradiction]. destruct started; [|contradiction].
    destruct (sim_run_m' _ rn val _ (mp11_drain_q cf Hbe parents Hflat val Hresets root Hcore mk pend fuel rn Hq Hrun ltac:(lia) ltac:(lia) Hmw Hu))
      as (rn' & items & E & Hok' & Hr' & Hs).
    rewrite E. destruct (sp_drain (c_pol cf) root val pend (abs rn)) as [i c']. inversion Hs; subst. cbn [fst snd].
    apply (IH rn' None [] true); [exact Hb | apply quietm_nil; exact Hok' | exact Hr' | constructor | cbn [length]; lia].
  - destruct plan; [|contradiction]. destruct started; [|contradiction]. destruct pend as [|e pend].
    + destruct (sim_run_m' _ rn val _ (mp11_drain1_nil cf Hbe parents val root mk fuel rn Hq Hrun ltac:(lia)))
        as (rn' & items & E & Hq' & Hr' & _ & Ha).
      rewrite E. cbn [fst snd]. rewrite <- Ha.
      apply (IH rn' None [] true); [exact Hb | exact Hq' | exact Hr' | constructor | cbn [length] in *; lia].
    + inversion Hu as [|? ? He Hu']; subst.
      destruct (sim_run_m' _ rn val _ (mp11_drain1_q cf Hbe parents Hflat val Hresets root Hcore mk e pend fuel rn Hq Hrun ltac:(lia) ltac:(lia) He))
        as (rn' & items & E & (mk' & Hq') & Hr' & _ & Ha).
      rewrite E. cbn [fst snd]. rewrite <- Ha.
      apply (IH rn' mk' pend true); [exact Hb | exact Hq' | exact Hr' | exact Hu' | cbn [length] in *; lia].
Qed.
End Mp11QFinal.

Theorem mp11_integrity_after_queue_history : forall cf, c_be cf = Mp11 -> forall parents, (forall e, nth e parents None = None) ->
  mp11_entry_throw_resets = true -> forall root, core root -> m_hist root = HNone -> wfz root ->
  forall l, qbracketed false l -> 2 * count_enq l + depth root + 3 <= default_fuel ->
  inv root (abs (final_rn cf root (build cf parents false root) default_fuel (init_rnode root) l)).
Proof.
  intros cf Hbe parents Hflat Hr root Hcore Hh Hwf l Hb Hf.
  destruct (mp11_qfinal cf Hbe parents Hflat Hr root Hcore Hh default_fuel ltac:(reflexivity) l (init_rnode root) None [] false Hb) as (_ & _ & Ha).
  - apply quietm_nil. apply okm_init.
  - destruct root; reflexivity.
  - constructor.
  - cbn [length]. lia.
  - rewrite Ha. apply sp_qfinal_mp11_inv; [exact Hwf|]. apply inv_init. exact Hwf.
Qed.

(* `runs` from the invariant between operations with stored events *)
Lemma quietm2_runs : forall mc mk pend rn, quietm2 mk pend mc rn -> running rn = true -> runs mc rn.
Proof.
  intros mc mk pend rn (HokL & _ & _ & Har) Hr. apply runs_unfold. split; [exact Hr|]. specialize (Har Hr). intros s Hs.
  destruct (s_sub (get_state mc s)) as [c|] eqn:Es; [|exact I].
  destruct (okmL_kid mc rn s c HokL Es) as (kn & Ek & Hokk). rewrite Ek. apply okm_runs; [exact Hokk|].
  destruct (In_nth _ _ 0 Hs) as (r & Hlt & Er). specialize (Har r Hlt). rewrite Er in Har. unfold kid_running in Har. rewrite Ek in Har. exact Har.
Qed.

Theorem mp11_flags_after_queue_history : forall cf, c_be cf = Mp11 -> forall parents, (forall e, nth e parents None = None) ->
  mp11_entry_throw_resets = true -> forall root, core root -> m_hist root = HNone ->
  forall l f, qbracketed false l -> ends_started false l = true -> 2 * count_enq l + depth root + 3 <= default_fuel ->
  let rn' := final_rn cf root (build cf parents false root) default_fuel (init_rnode root) l in
  let c' := fst (sp_qfinal_mp11 (c_pol cf) root (abs (init_rnode root), []) l) in
  co_flag_or (build cf parents false root) rn' f = sp_flag_or root c' f /\
  co_flag_and (build cf parents false root) rn' f = sp_flag_and_mp11 root c' f.
Proof.
  intros cf Hbe parents Hflat Hr root Hcore Hh l f Hb He Hf. cbn zeta.
  destruct (mp11_qfinal cf Hbe parents Hflat Hr root Hcore Hh default_fuel ltac:(reflexivity) l (init_rnode root) None [] false Hb)
    as ((mk' & Hq') & Hrun & Ha).
  - apply quietm_nil. apply okm_init.
  - destruct root; reflexivity.
  - constructor.
  - cbn [length]. lia.
  - rewrite He in Hrun. pose proof (quietm2_runs root _ _ _ Hq' Hrun) as Hruns. rewrite <- Ha.
    split; [apply mp11_flag_or_spec | apply mp11_flag_and_spec]; assumption.
Qed.
