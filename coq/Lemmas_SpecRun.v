(* Lemmas_SpecRun.v - whole histories: for every core definition, every list of start / process_event / stop operations
   whose behaviours only observe, and every guard valuation, `run` of the back engine is the specification of Spec.v
   applied operation by operation: same behaviour invocations in the same order with the same arguments, same reported
   configuration after every operation, and a result code whose handled bit / zero-ness is the specified outcome. *)
From Msm Require Import Run Lemmas_C19 Lemmas_Rows Lemmas_Sim Spec Lemmas_SpecBack.
From Coq Require Import Lia.

Lemma snapshot_abs : forall mc rn path, snapshot mc rn path = sp_snapshot mc (abs rn) path.
Proof.
  intros mc. induction mc as [mc IH] using machine_sub_ind. intros rn path.
  destruct mc as [states inits rows irows hist]. cbn [snapshot sp_snapshot m_states]. rewrite abs_act. f_equal.
  apply flat_map_ext. intros s. rewrite !nth_map_sub, abs_kid.
  destruct (s_sub (nth s states dummy_state)) as [c|] eqn:Es; [|reflexivity].
  destruct (nth s (kids rn) None) as [kn|]; [|reflexivity]. cbn [option_map].
  apply (IH s c). exact Es.
Qed.

(* what the trace of one operation must look like *)
Definition op_result_ok (o:op) (res:list titem * option (bool * bool) * conf) (tr:list titem) (c':conf) : Prop :=
  let '(items, out, c1) := res in
  c' = c1 /\
  match out with
  | None => tr = items
  | Some (h, rj) => exists code, tr = items ++ [Res code] /\ code_ok code h rj
  end.

Section BackRun.
Variable cf : cfg.
Hypothesis Hbe : c_be cf = Back.
Hypothesis Hnofct : c_fct cf = false.
Variable parents : list (option nat).
Hypothesis Hflat : forall e, nth e parents None = None.
Hypothesis Hstartq : back_start_queues = true.
Variable root : machine.
Hypothesis Hcore : core root.
Variable fuel : nat.
Hypothesis Hfuel : depth root + 2 <= fuel.

Lemma sim_run_m (m:M unit) rn val (P:unit -> rnode -> list titem -> Prop) :
  sim val m rn P -> exists rn' items, run_m m rn val [] = (rn', rev items) /\ P tt rn' items.
Proof.
  intros H. destruct (H (Glob [] 0 [] val [] 0)) as ([] & rn' & items & E & HP).
  { repeat split. }
  exists rn', items. unfold run_m. rewrite E. cbn. rewrite app_nil_r. auto.
Qed.

Theorem back_run_op o rn : plain_op o -> ok root rn ->
  let '(rn', tr) := run_op cf root (build cf parents false root) fuel rn o in
  ok root rn' /\ op_result_ok o (sp_op (c_pol cf) root o (abs rn)) tr (abs rn').
Proof.
  intros Hplain Hok. destruct o as [val plan|plan|e val plan| | | | | | | | |]; try contradiction; cbn [run_op sp_op].
  - (* start *)
    destruct plan; [|contradiction].
    destruct (sim_run_m _ rn val _ (back_start cf Hbe Hnofct parents Hflat val Hstartq root Hcore fuel rn Hok ltac:(lia)))
      as (rn' & items & E & Hok' & Hs).
    rewrite E. split; [exact Hok'|]. unfold op_result_ok. rewrite <- Hs. auto.
  - destruct plan; [|contradiction].
    destruct (sim_run_m _ rn [] _ (back_stop cf Hbe Hnofct parents Hflat [] root Hcore fuel rn Hok))
      as (rn' & items & E & Hok' & Hs).
    rewrite E. split; [exact Hok'|]. unfold op_result_ok. rewrite <- Hs. auto.
  - destruct plan; [|contradiction]. cbn in Hplain.
    pose proof (back_process_event cf Hbe Hnofct parents Hflat val root Hcore fuel e rn Hok Hfuel Hplain) as Hs.
    destruct (Hs (Glob [] 0 [] val [] 0)) as (code & rn' & items & E & Hok' & Hi & Hc & Hcode).
    { repeat split. }
    unfold run_m, bind, direct_code. rewrite Hbe. rewrite E. cbn. rewrite app_nil_r.
    split; [exact Hok'|]. unfold op_result_ok. split; [exact Hc|]. exists code. rewrite Hi. auto.
Qed.

(* every history *)
Fixpoint sp_run (pol:nat) (mc:machine) (c:conf) (l:list op) : list (list titem * option (bool * bool) * list (list nat * list nat)) :=
  match l with
  | [] => []
  | o :: t => let '(items, out, c') := sp_op pol mc o c in (items, out, sp_snapshot mc c' []) :: sp_run pol mc c' t
  end.

Definition step_ok (spec:list titem * option (bool * bool) * list (list nat * list nat)) (got:list titem * list (list nat * list nat)) : Prop :=
  let '(items, out, snap) := spec in
  snd got = snap /\
  match out with
  | None => fst got = items
  | Some (h, rj) => exists code, fst got = items ++ [Res code] /\ code_ok code h rj
  end.

Theorem back_run_ops : forall l rn, Forall plain_op l -> ok root rn ->
  Forall2 step_ok (sp_run (c_pol cf) root (abs rn) l) (run_ops cf root (build cf parents false root) fuel rn l).
Proof.
  induction l as [|o t IH]; intros rn Hall Hok; cbn [sp_run run_ops]; [constructor|].
  inversion Hall as [|? ? Ho Ht]; subst.
  pose proof (back_run_op o rn Ho Hok) as H.
  destruct (run_op cf root (build cf parents false root) fuel rn o) as [rn' tr]. destruct H as (Hok' & Hres).
  destruct (sp_op (c_pol cf) root o (abs rn)) as [[items out] c'] eqn:Eo. cbn in Hres. destruct Hres as (Hc & Hres).
  constructor.
  - unfold step_ok. cbn [fst snd]. split; [rewrite snapshot_abs, Hc; reflexivity | exact Hres].
  - rewrite <- Hc. apply IH; assumption.
Qed.
End BackRun.
