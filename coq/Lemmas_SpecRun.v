(* Lemmas_SpecRun.v - whole histories: for every core definition, every list of start / process_event / stop operations
   whose behaviours only observe, and every guard valuation, `run` of the back engine is the specification of Spec.v
   applied operation by operation: same behaviour invocations in the same order with the same arguments, same reported
   configuration after every operation, and a result code whose handled bit / zero-ness is the specified outcome. *)
From Msm Require Import Run Lemmas_C19 Lemmas_Rows Lemmas_Sim Spec Lemmas_SpecBack Lemmas_SpecMp11 Lemmas_Equiv.
From Coq Require Import Lia.

Lemma snapshot_abs : forall mc rn path, snapshot mc rn path = sp_snapshot mc (abs rn) path.
Proof.
  intros mc. induction mc as [mc IH] using machine_sub_ind. intros rn path.
  destruct mc as [states inits rows irows hist]. cbn [snapshot sp_snapshot m_states]. rewrite abs_act. f_equal.
  apply flat_map_ext. intros s. rewrite !nth_map_sub, abs_kid.
  destruct (s_sub (nth s states dummy_state)) as [c|] eqn:Es; [|reflexivity].
  destruct (nth s (kids rn) None) as [kn|]; [|reflexivity]. cbn [option_map].
  apply (IH s c). exact Es.
Qed.

(* what the trace of one operation must look like *)
Definition op_result_ok (o:op) (res:list titem * option (bool * bool) * conf) (tr:list titem) (c':conf) : Prop :=
  let '(items, out, c1) := res in
  c' = c1 /\
  match out with
  | None => tr = items
  | Some (h, rj) => exists code, tr = items ++ [Res code] /\ code_ok code h rj
  end.

Section BackRun.
Variable cf : cfg.
Hypothesis Hbe : c_be cf = Back.
Variable parents : list (option nat).
Hypothesis Hflat : forall e, nth e parents None = None.
Hypothesis Hstartq : back_start_queues = true.
Variable root : machine.
Hypothesis Hcore : core root.
Variable fuel : nat.
Hypothesis Hfuel : depth root + 2 <= fuel.

Lemma sim_run_m (m:M unit) rn val (P:unit -> rnode -> list titem -> Prop) :
  sim val m rn P -> exists rn' items, run_m m rn val [] = (rn', rev items) /\ P tt rn' items.
Proof.
  intros H. destruct (H (Glob [] 0 [] val [] 0)) as ([] & rn' & items & E & HP).
  { repeat split. }
  exists rn', items. unfold run_m. rewrite E. cbn. rewrite app_nil_r. auto.
Qed.

Theorem back_run_op o rn : plain_op o -> ok root rn ->
  let '(rn', tr) := run_op cf root (build cf parents false root) fuel rn o in
  ok root rn' /\ op_result_ok o (sp_op_gen false (c_pol cf) root o (abs rn)) tr (abs rn').
Proof.
  intros Hplain Hok. destruct o as [val plan|plan|e val plan| | | | | | | | |]; try contradiction; cbn [run_op sp_op_gen].
  - (* start *)
    destruct plan; [|contradiction].
    destruct (sim_run_m _ rn val _ (back_start cf Hbe parents Hflat val Hstartq root Hcore fuel rn Hok ltac:(lia)))
      as (rn' & items & E & Hok' & Hs).
    rewrite E. split; [exact Hok'|]. unfold op_result_ok. unfold sp_start in Hs. rewrite <- Hs. auto.
  - destruct plan; [|contradiction].
    destruct (sim_run_m _ rn [] _ (back_stop cf Hbe parents Hflat [] root Hcore fuel rn Hok))
      as (rn' & items & E & Hok' & Hs).
    rewrite E. split; [exact Hok'|]. unfold op_result_ok. rewrite <- Hs. auto.
  - destruct plan; [|contradiction]. cbn in Hplain.
    pose proof (back_process_event cf Hbe parents Hflat val root Hcore fuel e rn Hok Hfuel Hplain) as Hs.
    destruct (Hs (Glob [] 0 [] val [] 0)) as (code & rn' & items & E & Hok' & Hi & Hc & Hcode).
    { repeat split. }
    unfold run_m, bind, direct_code. rewrite Hbe. rewrite E. cbn. rewrite app_nil_r.
    split; [exact Hok'|]. unfold op_result_ok. split; [exact Hc|]. exists code. rewrite Hi. auto.
Qed.

(* every history *)
Definition step_ok (spec:list titem * option (bool * bool) * list (list nat * list nat)) (got:list titem * list (list nat * list nat)) : Prop :=
  let '(items, out, snap) := spec in
  snd got = snap /\
  match out with
  | None => fst got = items
  | Some (h, rj) => exists code, fst got = items ++ [Res code] /\ code_ok code h rj
  end.

Theorem back_run_ops : forall l rn, Forall plain_op l -> ok root rn ->
  Forall2 step_ok (sp_run false (c_pol cf) root (abs rn) l) (run_ops cf root (build cf parents false root) fuel rn l).
Proof.
  induction l as [|o t IH]; intros rn Hall Hok; cbn [sp_run run_ops]; [constructor|].
  inversion Hall as [|? ? Ho Ht]; subst.
  pose proof (back_run_op o rn Ho Hok) as H.
  destruct (run_op cf root (build cf parents false root) fuel rn o) as [rn' tr]. destruct H as (Hok' & Hres).
  destruct (sp_op_gen false (c_pol cf) root o (abs rn)) as [[items out] c'] eqn:Eo. cbn in Hres. destruct Hres as (Hc & Hres).
  constructor.
  - unfold step_ok. cbn [fst snd]. split; [rewrite snapshot_abs, Hc; reflexivity | exact Hres].
  - rewrite <- Hc. apply IH; assumption.
Qed.
End BackRun.

(* ---- backmp11 ---- *)
(* histories in which start() and stop() alternate (backmp11 ignores start() of a started machine and stop() of a
   stopped one, back does not) and events are sent to a started machine *)
Fixpoint bracketed (started:bool) (l:list op) : Prop :=
  match l with
  | [] => True
  | o :: t =>
      match o, started with
      | OStart _ [], false => bracketed true t
      | OStop [], true => bracketed false t
      | OProcess e _ [], true => e_ty e <> EV_NONE /\ bracketed true t
      | _, _ => False
      end
  end.
Lemma bracketed_plain : forall l b, bracketed b l -> Forall plain_op l.
Proof.
  induction l as [|o t IH]; intros b H; [constructor|]. cbn in H.
  destruct o as [val plan|plan|e val plan| | | | | | | | |]; try contradiction.
  - destruct plan; [|contradiction]. destruct b; [contradiction|]. constructor; [exact I | eapply IH; eauto].
  - destruct plan; [|contradiction]. destruct b; [|contradiction]. constructor; [exact I | eapply IH; eauto].
  - destruct plan; [|contradiction]. destruct b; [|contradiction]. destruct H as (He & H). constructor; [exact He | eapply IH; eauto].
Qed.

Section Mp11Run.
Variable cf : cfg.
Hypothesis Hbe : c_be cf = Mp11.
Variable parents : list (option nat).
Hypothesis Hflat : forall e, nth e parents None = None.
Hypothesis Hresets : mp11_entry_throw_resets = true.
Variable root : machine.
Hypothesis Hcore : core root.
Hypothesis Hnohist : m_hist root = HNone.
Variable fuel : nat.
Hypothesis Hfuel : depth root + 2 <= fuel.

Lemma msim_run_m (m:M unit) rn val (P:unit -> rnode -> list titem -> Prop) :
  sim val m rn P -> exists rn' items, run_m m rn val [] = (rn', rev items) /\ P tt rn' items.
Proof.
  intros H. destruct (H (Glob [] 0 [] val [] 0)) as ([] & rn' & items & E & HP).
  { repeat split. }
  exists rn', items. unfold run_m. rewrite E. cbn. rewrite app_nil_r. auto.
Qed.

Theorem mp11_run_ops : forall l rn started, bracketed started l -> okm root rn -> running rn = started ->
  Forall2 step_ok (sp_run true (c_pol cf) root (abs rn) l) (run_ops cf root (build cf parents false root) fuel rn l).
Proof.
  induction l as [|o t IH]; intros rn started Hb Hok Hrun; cbn [sp_run run_ops]; [constructor|].
  cbn in Hb. destruct o as [val plan|plan|e val plan| | | | | | | | |]; try contradiction.
  - (* start *)
    destruct plan; [|contradiction]. destruct started; [contradiction|]. cbn [run_op sp_op_gen]. rewrite abs_act.
    destruct (msim_run_m _ rn val _ (mp11_start cf Hbe parents Hflat val Hresets root Hcore Hnohist fuel rn Hok Hrun ltac:(lia)))
      as (rn' & items & E & Hok' & Hr' & Hs).
    rewrite E. rewrite <- Hs. constructor.
    + unfold step_ok. cbn [fst snd]. split; [apply snapshot_abs | reflexivity].
    + eapply IH; eauto.
  - destruct plan; [|contradiction]. destruct started; [|contradiction]. cbn [run_op sp_op_gen].
    destruct (msim_run_m _ rn [] _ (mp11_stop cf Hbe parents Hflat [] Hresets root Hcore fuel rn Hok Hrun))
      as (rn' & items & E & Hok' & Hr' & Hs).
    rewrite E. rewrite <- Hs. constructor.
    + unfold step_ok. cbn [fst snd]. split; [apply snapshot_abs | reflexivity].
    + eapply IH; eauto.
  - destruct plan; [|contradiction]. destruct started; [|contradiction]. destruct Hb as (He & Hb). cbn [run_op sp_op_gen].
    pose proof (mp11_process_event cf Hbe parents Hflat val Hresets root Hcore fuel e rn Hok Hrun Hfuel He) as Hs.
    destruct (Hs (Glob [] 0 [] val [] 0)) as (code & rn' & items & E & Hok' & Hr' & Hi & Hc & Hcode).
    { repeat split. }
    unfold run_m, bind, direct_code. rewrite Hbe. rewrite E. cbn. rewrite app_nil_r. constructor.
    + unfold step_ok. cbn [fst snd]. split; [rewrite snapshot_abs, Hc; reflexivity|]. exists code. rewrite Hi. auto.
    + rewrite <- Hc. eapply IH; eauto.
Qed.
End Mp11Run.

(* ---- back and backmp11 side by side ---- *)
(* what the two engines may differ in: the exact result code, of which only the handled bit and zero-ness are specified,
   and what the outermost machine's own entry behaviour reads from its fsm argument when a stopped machine is started
   again (Spec.sp_start_obs) *)
Definition same_step (b m:list titem * list (list nat * list nat)) : Prop :=
  snd b = snd m /\
  (fst b = fst m \/
   (exists items cb cm h rj, fst b = items ++ [Res cb] /\ fst m = items ++ [Res cm] /\ code_ok cb h rj /\ code_ok cm h rj) \/
   (exists ev w ids1 ids2 rest, fst b = Cb KMEntry [] 0 ev w ids1 :: rest /\ fst m = Cb KMEntry [] 0 ev w ids2 :: rest)).

(* the two readings of the specification side by side *)
Definition same_spec (sb sm:list titem * option (bool * bool) * list (list nat * list nat)) : Prop :=
  snd sb = snd sm /\ snd (fst sb) = snd (fst sm) /\
  (fst (fst sb) = fst (fst sm) \/
   (snd (fst sb) = None /\
    exists ev w ids1 ids2 rest, fst (fst sb) = Cb KMEntry [] 0 ev w ids1 :: rest /\ fst (fst sm) = Cb KMEntry [] 0 ev w ids2 :: rest)).

Lemma sp_op_gen_conf pol mc o c : snd (sp_op_gen true pol mc o c) = snd (sp_op_gen false pol mc o c).
Proof.
  destruct o; cbn [sp_op_gen]; try reflexivity. unfold sp_start_obs.
  destruct (sp_enter mc (Evt EV_INIT 0) (c_set_act c (m_inits mc))); reflexivity.
Qed.

Lemma sp_run_same pol mc : forall l c, Forall2 same_spec (sp_run false pol mc c l) (sp_run true pol mc c l).
Proof.
  induction l as [|o t IH]; intros c; cbn [sp_run]; [constructor|].
  pose proof (sp_op_gen_conf pol mc o c) as Hc.
  destruct (sp_op_gen false pol mc o c) as [[i1 o1] c1] eqn:E1. destruct (sp_op_gen true pol mc o c) as [[i2 o2] c2] eqn:E2.
  cbn [snd] in Hc. subst c2. constructor; [|apply IH].
  unfold same_spec. cbn [fst snd]. split; [reflexivity|].
  destruct o; cbn [sp_op_gen] in E1, E2; try (rewrite E1 in E2; inversion E2; subst; auto; fail).
  unfold sp_start_obs in E1, E2. destruct (sp_enter mc (Evt EV_INIT 0) (c_set_act c (m_inits mc))) as [items cc].
  inversion E1; inversion E2; subst. split; [reflexivity|]. right. split; [reflexivity|].
  rewrite !rev_app_distr. cbn [rev app]. eauto 10.
Qed.

Lemma step_ok_same sb sm b m : same_spec sb sm -> step_ok sb b -> step_ok sm m -> same_step b m.
Proof.
  destruct sb as [[ib ob] snb]. destruct sm as [[im om] snm]. unfold same_spec, step_ok, same_step. cbn [fst snd].
  intros (Hs & Ho & Hi) (Hb1 & Hb2) (Hm1 & Hm2). subst snm om. split; [congruence|].
  destruct Hi as [Hi|(Hn & ev & w & ids1 & ids2 & rest & Eb & Em)].
  - subst im. destruct ob as [[h rj]|].
    + destruct Hb2 as (cb & Eb & Cb). destruct Hm2 as (cm & Em & Cm). right. left. exists ib, cb, cm, h, rj. auto.
    + left. congruence.
  - subst ob. right. right. exists ev, w, ids1, ids2, rest. split; congruence.
Qed.
Lemma Forall2_same : forall sbs sms bs ms, Forall2 same_spec sbs sms -> Forall2 step_ok sbs bs -> Forall2 step_ok sms ms ->
  Forall2 same_step bs ms.
Proof.
  induction sbs as [|sb t IH]; intros sms bs ms Hs Hb Hm; inversion Hs; subst; inversion Hb; inversion Hm; subst; constructor.
  - eapply step_ok_same; eauto.
  - eapply IH; eauto.
Qed.

(* back and backmp11 (any dispatch strategy, any compile policy of backmp11), the same switch policy: for every core
   definition whose outermost machine has no history of its own, every history of alternating start() / stop() with
   events in between, every guard valuation: same behaviour invocations in the same order with the same arguments, same
   active ids at every level after every operation, same handled / rejected status *)
Theorem back_mp11_same_behaviour : forall cfB cfM md l,
  c_be cfB = Back -> c_be cfM = Mp11 -> c_pol cfB = c_pol cfM ->
  (forall e, nth e (md_parents md) None = None) -> core (md_root md) -> m_hist (md_root md) = HNone ->
  depth (md_root md) + 2 <= default_fuel ->
  back_start_queues = true -> mp11_entry_throw_resets = true ->
  bracketed false l ->
  Forall2 same_step (run cfB md l) (run cfM md l).
Proof.
  intros cfB cfM md l HB HM Hpol Hflat Hcore Hh Hfuel Hq Hr Hbr. unfold run.
  eapply Forall2_same.
  - apply sp_run_same.
  - apply (back_run_ops cfB HB (md_parents md) Hflat Hq (md_root md) Hcore default_fuel Hfuel l (init_rnode (md_root md))).
    + eapply bracketed_plain; eauto.
    + apply ok_init.
  - rewrite Hpol.
    apply (mp11_run_ops cfM HM (md_parents md) Hflat Hr (md_root md) Hcore Hh default_fuel Hfuel l (init_rnode (md_root md)) false Hbr).
    + apply okm_init.
    + destruct (md_root md); reflexivity.
Qed.

(* a history with one start(): nothing but the exact result code can differ *)
Definition not_start (o:op) : Prop := match o with OStart _ _ => False | _ => True end.
Definition one_start (l:list op) : Prop := match l with _ :: t => Forall not_start t | [] => True end.

Definition same_step_strict (b m:list titem * list (list nat * list nat)) : Prop :=
  snd b = snd m /\
  (fst b = fst m \/
   exists items cb cm h rj, fst b = items ++ [Res cb] /\ fst m = items ++ [Res cm] /\ code_ok cb h rj /\ code_ok cm h rj).

Lemma sp_run_nostart pol mc : forall l c, Forall not_start l -> sp_run true pol mc c l = sp_run false pol mc c l.
Proof.
  induction l as [|o t IH]; intros c H; cbn [sp_run]; [reflexivity|]. inversion H as [|? ? Ho Ht]; subst.
  assert (E : sp_op_gen true pol mc o c = sp_op_gen false pol mc o c) by (destruct o; try reflexivity; contradiction).
  rewrite E. destruct (sp_op_gen false pol mc o c) as [[i out] c']. rewrite IH by assumption. reflexivity.
Qed.
Lemma sp_run_fresh pol mc l c : c_act c = m_inits mc -> one_start l -> sp_run true pol mc c l = sp_run false pol mc c l.
Proof.
  intros Hc H. destruct l as [|o t]; [reflexivity|]. cbn [one_start] in H. cbn [sp_run].
  assert (E : sp_op_gen true pol mc o c = sp_op_gen false pol mc o c) by (destruct o; try reflexivity; cbn [sp_op_gen]; rewrite Hc; reflexivity).
  rewrite E. destruct (sp_op_gen false pol mc o c) as [[i out] c']. rewrite sp_run_nostart by assumption. reflexivity.
Qed.

Lemma step_ok_same_strict sp b m : step_ok sp b -> step_ok sp m -> same_step_strict b m.
Proof.
  destruct sp as [[items out] snap]. unfold step_ok, same_step_strict. intros (Hb1 & Hb2) (Hm1 & Hm2). split; [congruence|].
  destruct out as [[h rj]|].
  - destruct Hb2 as (cb & Eb & Cb). destruct Hm2 as (cm & Em & Cm). right. exists items, cb, cm, h, rj. auto.
  - left. congruence.
Qed.
Lemma Forall2_same_strict : forall sps bs ms, Forall2 step_ok sps bs -> Forall2 step_ok sps ms -> Forall2 same_step_strict bs ms.
Proof.
  induction sps as [|sp t IH]; intros bs ms Hb Hm; inversion Hb; inversion Hm; subst; constructor.
  - eapply step_ok_same_strict; eauto.
  - eapply IH; eauto.
Qed.

Theorem back_mp11_same_behaviour_one_start : forall cfB cfM md l,
  c_be cfB = Back -> c_be cfM = Mp11 -> c_pol cfB = c_pol cfM ->
  (forall e, nth e (md_parents md) None = None) -> core (md_root md) -> m_hist (md_root md) = HNone ->
  depth (md_root md) + 2 <= default_fuel ->
  back_start_queues = true -> mp11_entry_throw_resets = true ->
  bracketed false l -> one_start l ->
  Forall2 same_step_strict (run cfB md l) (run cfM md l).
Proof.
  intros cfB cfM md l HB HM Hpol Hflat Hcore Hh Hfuel Hq Hr Hbr H1. unfold run.
  eapply Forall2_same_strict.
  - apply (back_run_ops cfB HB (md_parents md) Hflat Hq (md_root md) Hcore default_fuel Hfuel l (init_rnode (md_root md))).
    + eapply bracketed_plain; eauto.
    + apply ok_init.
  - rewrite Hpol. rewrite <- sp_run_fresh.
    + apply (mp11_run_ops cfM HM (md_parents md) Hflat Hr (md_root md) Hcore Hh default_fuel Hfuel l (init_rnode (md_root md)) false Hbr).
      * apply okm_init.
      * destruct (md_root md); reflexivity.
    + destruct (md_root md); reflexivity.
    + exact H1.
Qed.

(* ---- the statements the property files quote ---- *)
Definition flat_events (md:mdef) : Prop := forall e, nth e (md_parents md) None = None.
Definition spec_run (stale:bool) (pol:nat) (md:mdef) (l:list op) :=
  sp_run stale pol (md_root md) (abs (init_rnode (md_root md))) l.

Theorem back_run_is_spec : forall cf md l,
  c_be cf = Back -> flat_events md -> core (md_root md) -> depth (md_root md) + 2 <= default_fuel ->
  back_start_queues = true -> Forall plain_op l ->
  Forall2 step_ok (spec_run false (c_pol cf) md l) (run cf md l).
Proof.
  intros cf md l HB Hflat Hcore Hfuel Hq Hpl. unfold run, spec_run.
  apply (back_run_ops cf HB (md_parents md) Hflat Hq (md_root md) Hcore default_fuel Hfuel l (init_rnode (md_root md)) Hpl).
  apply ok_init.
Qed.

Theorem mp11_run_is_spec : forall cf md l,
  c_be cf = Mp11 -> flat_events md -> core (md_root md) -> m_hist (md_root md) = HNone ->
  depth (md_root md) + 2 <= default_fuel -> mp11_entry_throw_resets = true -> bracketed false l ->
  Forall2 step_ok (spec_run true (c_pol cf) md l) (run cf md l).
Proof.
  intros cf md l HM Hflat Hcore Hh Hfuel Hr Hbr. unfold run, spec_run.
  apply (mp11_run_ops cf HM (md_parents md) Hflat Hr (md_root md) Hcore Hh default_fuel Hfuel l (init_rnode (md_root md)) false Hbr).
  - apply okm_init.
  - destruct (md_root md); reflexivity.
Qed.

(* a definition and a history inside the hypotheses (used by the Examples of the property files) *)
Definition ex_core_sub : machine :=
  Machine [State KSimple None [] [] [] 0; State KSimple None [Row 13 1 (TrEv 5) TgNone true ActCall None] [] [] 0;
           State KSimple None [] [] [] 1; State KSimple None [] [] [] 1]
          [0; 2]
          [Row 10 0 (TrEv 6) (TgState 1) true ActCall None; Row 11 2 (TrEv 6) (TgState 3) true ActCall None;
           Row 12 1 (TrEv 6) (TgState 0) false ActNone None]
          [] HAlways.
Definition ex_core_md : mdef :=
  MDef (Machine [State KSimple None [] [] [] 0; State KSub (Some ex_core_sub) [] [] [] 0; State KSimple None [] [] [] 0]
                [0]
                [Row 1 0 (TrEv 4) (TgState 1) true ActCall None; Row 2 1 (TrEv 5) (TgState 2) true ActCall None;
                 Row 3 2 (TrEv 4) (TgState 1) false ActCall None; Row 4 1 (TrEv 6) (TgState 0) true ActCall None]
                [] HNone) [].
Definition ex_core_ops : list op :=
  [OStart [] []; OProcess (Evt 4 0) [1] []; OProcess (Evt 6 0) [10; 4] []; OProcess (Evt 5 0) [13] []; OProcess (Evt 5 0) [2] [];
   OProcess (Evt 4 0) [] []; OProcess (Evt 6 0) [] []; OProcess (Evt 7 0) [] []; OStop []; OStart [] []; OProcess (Evt 4 0) [1] []].

Lemma ex_core_ok : core (md_root ex_core_md).
Proof.
  cbn. repeat first [ split | discriminate | reflexivity | (eexists; split; [reflexivity|discriminate])
                    | (left; reflexivity) | (right; eexists; reflexivity) | apply Forall_nil | apply Forall_cons ].
Qed.

(* ---- every configuration ---- *)
Definition is_mp11 (cf:cfg) : bool := match c_be cf with Mp11 => true | _ => false end.
(* what a configuration needs of the definition: back11 cannot compile internal tables (and finding F7 separates it
   from back where it can); the backmp11 theorem is for an outermost machine without history of its own *)
Definition cfg_fits (cf:cfg) (md:mdef) : Prop :=
  match c_be cf with Back => True | Back11 => no_internal (md_root md) | Mp11 => m_hist (md_root md) = HNone end.

Theorem run_is_spec : forall cf md l,
  flat_events md -> core (md_root md) -> cfg_fits cf md -> depth (md_root md) + 2 <= default_fuel ->
  back_start_queues = true -> mp11_entry_throw_resets = true -> bracketed false l ->
  Forall2 step_ok (spec_run (is_mp11 cf) (c_pol cf) md l) (run cf md l).
Proof.
  intros cf md l Hflat Hcore Hfit Hfuel Hq Hr Hbr. unfold cfg_fits, is_mp11 in *.
  destruct cf as [be fct pl qb]. cbn [c_be c_pol] in *. destruct be.
  - apply (back_run_is_spec (Cfg Back fct pl qb)); auto. eapply bracketed_plain; eauto.
  - rewrite <- (run_back_back11 fct pl qb md l Hfit).
    apply (back_run_is_spec (Cfg Back fct pl qb)); auto. eapply bracketed_plain; eauto.
  - apply (mp11_run_is_spec (Cfg Mp11 fct pl qb)); auto.
Qed.

Lemma sp_op_gen_conf2 s1 s2 pol mc o c : snd (sp_op_gen s1 pol mc o c) = snd (sp_op_gen s2 pol mc o c).
Proof.
  destruct o; cbn [sp_op_gen]; try reflexivity. unfold sp_start_obs.
  destruct (sp_enter mc (Evt EV_INIT 0) (c_set_act c (m_inits mc))); reflexivity.
Qed.
Lemma sp_run_same_gen s1 s2 pol mc : forall l c, Forall2 same_spec (sp_run s1 pol mc c l) (sp_run s2 pol mc c l).
Proof.
  induction l as [|o t IH]; intros c; cbn [sp_run]; [constructor|].
  pose proof (sp_op_gen_conf2 s1 s2 pol mc o c) as Hc.
  destruct (sp_op_gen s1 pol mc o c) as [[i1 o1] c1] eqn:E1. destruct (sp_op_gen s2 pol mc o c) as [[i2 o2] c2] eqn:E2.
  cbn [snd] in Hc. subst c2. constructor; [|apply IH].
  unfold same_spec. cbn [fst snd]. split; [reflexivity|].
  destruct o; cbn [sp_op_gen] in E1, E2; try (rewrite E1 in E2; inversion E2; subst; auto; fail).
  unfold sp_start_obs in E1, E2. destruct (sp_enter mc (Evt EV_INIT 0) (c_set_act c (m_inits mc))) as [items cc].
  inversion E1; inversion E2; subst. split; [reflexivity|]. right. split; [reflexivity|].
  rewrite !rev_app_distr. cbn [rev app]. eauto 10.
Qed.

(* any two configurations - back, back11, backmp11; favor_runtime_speed or favor_compile_time; any queue option - with
   the same switch policy *)
Theorem configs_same_behaviour : forall cf1 cf2 md l,
  c_pol cf1 = c_pol cf2 -> flat_events md -> core (md_root md) -> cfg_fits cf1 md -> cfg_fits cf2 md ->
  depth (md_root md) + 2 <= default_fuel -> back_start_queues = true -> mp11_entry_throw_resets = true ->
  bracketed false l ->
  Forall2 same_step (run cf1 md l) (run cf2 md l).
Proof.
  intros cf1 cf2 md l Hpol Hflat Hcore Hf1 Hf2 Hfuel Hq Hr Hbr.
  eapply Forall2_same.
  - apply (sp_run_same_gen (is_mp11 cf1) (is_mp11 cf2) (c_pol cf1) (md_root md) l (abs (init_rnode (md_root md)))).
  - apply run_is_spec; auto.
  - rewrite Hpol. apply run_is_spec; auto.
Qed.

(* two configurations of the same family (both backmp11, or both back / back11), or any two on a history with one
   start(): nothing but the numeric result code can differ *)
Theorem configs_same_behaviour_strict : forall cf1 cf2 md l,
  c_pol cf1 = c_pol cf2 -> flat_events md -> core (md_root md) -> cfg_fits cf1 md -> cfg_fits cf2 md ->
  depth (md_root md) + 2 <= default_fuel -> back_start_queues = true -> mp11_entry_throw_resets = true ->
  bracketed false l -> (is_mp11 cf1 = is_mp11 cf2 \/ one_start l) ->
  Forall2 same_step_strict (run cf1 md l) (run cf2 md l).
Proof.
  intros cf1 cf2 md l Hpol Hflat Hcore Hf1 Hf2 Hfuel Hq Hr Hbr Hs.
  assert (E : spec_run (is_mp11 cf1) (c_pol cf1) md l = spec_run (is_mp11 cf2) (c_pol cf1) md l).
  { destruct Hs as [Hs|Hs]; [rewrite Hs; reflexivity|]. unfold spec_run.
    assert (Hi : c_act (abs (init_rnode (md_root md))) = m_inits (md_root md)) by (destruct (md_root md); reflexivity).
    destruct (is_mp11 cf1), (is_mp11 cf2); try reflexivity; [|symmetry]; apply sp_run_fresh; assumption. }
  eapply Forall2_same_strict.
  - apply run_is_spec; auto.
  - rewrite E, Hpol. apply run_is_spec; auto.
Qed.
