(* Lemmas_Store.v - the object ledger of basic_polymorphic: for every history of make / copy / move / assign /
   destroy operations every object that was created is either alive in exactly one cell or was destroyed exactly
   once; nothing dead is held by a cell; destroying all cells leaves no object alive. *)
From Msm Require Import Base Store.
From Coq Require Import Permutation.

Definition Inv (s:store) : Prop :=
  NoDup (live_ids s ++ dead s) /\
  (forall x, In x (born s) <-> In x (live_ids s ++ dead s)) /\
  (forall x, In x (born s) -> x < next_id s).

Lemma live_ids_upd cs i c :
  i < length cs ->
  Permutation (cell_ids (nth i cs CEmpty) ++ flat_map cell_ids (upd cs i c)) (cell_ids c ++ flat_map cell_ids cs).
Proof.
  revert i. induction cs as [|a cs IH]; intros i Hi; cbn in Hi; [lia|].
  destruct i as [|i]; cbn.
  - rewrite !app_assoc. apply Permutation_app_tail. apply Permutation_app_comm.
  - specialize (IH i ltac:(lia)).
    rewrite (Permutation_app_swap_app (cell_ids (nth i cs CEmpty)) (cell_ids a)).
    rewrite IH. apply Permutation_app_swap_app.
Qed.

Lemma in_live_upd cs i c x :
  i < length cs -> In x (flat_map cell_ids (upd cs i c)) -> In x (cell_ids c) \/ In x (flat_map cell_ids cs).
Proof.
  intros Hi H. pose proof (live_ids_upd cs i c Hi) as P.
  apply in_app_iff. eapply Permutation_in; [exact P|]. apply in_app_iff. right; auto.
Qed.

(* replacing an EMPTY-of-objects cell (one that holds no object) by a cell holding the ids ids *)
Lemma live_ids_upd_noobj cs i c :
  i < length cs -> cell_ids (nth i cs CEmpty) = [] ->
  Permutation (flat_map cell_ids (upd cs i c)) (cell_ids c ++ flat_map cell_ids cs).
Proof. intros Hi He. pose proof (live_ids_upd cs i c Hi) as P. rewrite He in P. exact P. Qed.

Lemma Inv_init n : Inv (init_store n).
Proof.
  unfold Inv, init_store, live_ids. cbn.
  assert (E : flat_map cell_ids (repeat CEmpty n) = []) by (induction n; cbn; auto).
  rewrite E. cbn. repeat split; try constructor; intros; try contradiction; tauto.
Qed.

(* destroying a cell moves exactly its object (if any) from the live set to the dead list *)
Lemma destroy_cell_perm s i :
  i < length (cells s) ->
  Permutation (live_ids (destroy_cell s i) ++ dead (destroy_cell s i)) (live_ids s ++ dead s) /\
  born (destroy_cell s i) = born s /\ next_id (destroy_cell s i) = next_id s /\
  length (cells (destroy_cell s i)) = length (cells s) /\
  cell_ids (get_cell (destroy_cell s i) i) = [].
Proof.
  intros Hi. unfold destroy_cell, set_cell, kill, live_ids, get_cell. cbn.
  pose proof (live_ids_upd (cells s) i CEmpty Hi) as P. cbn in P.
  split; [|repeat split; auto using upd_length; rewrite nth_upd_eq by auto; reflexivity].
  rewrite app_assoc. apply Permutation_app_tail.
  rewrite Permutation_app_comm. exact P.
Qed.

Lemma Inv_perm s s' :
  Inv s -> Permutation (live_ids s' ++ dead s') (live_ids s ++ dead s) ->
  born s' = born s -> next_id s' = next_id s -> Inv s'.
Proof.
  intros (N & B & L) P Hb Hn. unfold Inv. rewrite Hb, Hn. split; [|split; auto].
  - eapply Permutation_NoDup; [symmetry; exact P | exact N].
  - intros x. rewrite B. split; intros H.
    + eapply Permutation_in; [symmetry; exact P | exact H].
    + eapply Permutation_in; [exact P | exact H].
Qed.

Lemma Inv_destroy s i : Inv s -> i < length (cells s) -> Inv (destroy_cell s i).
Proof.
  intros I Hi. destruct (destroy_cell_perm s i Hi) as (P & Hb & Hn & _ & _). eapply Inv_perm; eauto.
Qed.

(* creating a fresh object in a cell that holds none *)
Lemma Inv_fresh_into s i (mk:nat -> cell) :
  Inv s -> i < length (cells s) -> cell_ids (get_cell s i) = [] ->
  (forall o, cell_ids (mk o) = [o]) ->
  Inv (let '(o, s1) := fresh s in set_cell s1 i (mk o)).
Proof.
  intros (N & B & L) Hi He Hmk. unfold fresh, set_cell. cbn. unfold Inv, live_ids. cbn.
  pose proof (live_ids_upd_noobj (cells s) i (mk (next_id s)) Hi He) as P. rewrite Hmk in P.
  assert (Hnew : ~ In (next_id s) (live_ids s ++ dead s)).
  { intros H. apply B in H. apply L in H. lia. }
  split; [|split].
  - eapply Permutation_NoDup.
    + symmetry. apply Permutation_app_tail. exact P.
    + cbn. constructor; auto.
  - intros x. split.
    + intros [<-|H].
      * apply in_app_iff. left. eapply Permutation_in; [symmetry; exact P|]. left; auto.
      * apply B in H. apply in_app_iff in H as [H|H]; apply in_app_iff; [left|right; auto].
        eapply Permutation_in; [symmetry; exact P|]. right; auto.
    + intros H. apply in_app_iff in H as [H|H].
      * eapply Permutation_in in H; [|exact P]. destruct H as [<-|H]; [left; auto|].
        right. apply B. apply in_app_iff. left; auto.
      * right. apply B. apply in_app_iff. right; auto.
  - intros x [<-|H]; [lia|]. apply L in H. lia.
Qed.

Lemma Inv_set_noobj s i c :
  Inv s -> i < length (cells s) -> cell_ids (get_cell s i) = [] -> cell_ids c = [] -> Inv (set_cell s i c).
Proof.
  intros I Hi He Hc. eapply Inv_perm; eauto; try reflexivity.
  unfold set_cell, live_ids. cbn. apply Permutation_app_tail.
  pose proof (live_ids_upd_noobj (cells s) i c Hi He) as P. rewrite Hc in P. exact P.
Qed.

Lemma Inv_copy_into s i src :
  Inv s -> i < length (cells s) -> cell_ids (get_cell s i) = [] -> Inv (copy_into s i src).
Proof.
  intros I Hi He. unfold copy_into. destruct src as [|t o v|t [[o v]|]].
  - apply Inv_set_noobj; auto.
  - apply (Inv_fresh_into s i (fun o' => CInline t o' v)); auto.
  - apply (Inv_fresh_into s i (fun o' => CHeap t (Some (o', v)))); auto.
  - apply Inv_set_noobj; auto.
Qed.

Lemma Inv_move_into s i j :
  Inv s -> i < length (cells s) -> j < length (cells s) -> i <> j -> cell_ids (get_cell s i) = [] ->
  Inv (move_into s i j).
Proof.
  intros I Hi Hj Hij He. unfold move_into. destruct (get_cell s j) as [|t o v|t p] eqn:Ej.
  - apply Inv_set_noobj; auto.
  - (* inline: a new object in i, the source keeps its (moved-from) object *)
    pose proof (Inv_fresh_into s i (fun o' => CInline t o' v) I Hi He ltac:(reflexivity)) as I1.
    unfold fresh in *. cbn in *.
    set (s1 := set_cell (Store (cells s) (S (next_id s)) (next_id s :: born s) (dead s)) i (CInline t (next_id s) v)) in *.
    eapply Inv_perm; [exact I1| |reflexivity|reflexivity].
    unfold set_cell, live_ids. cbn. apply Permutation_app_tail.
    assert (Hj1 : j < length (cells s1)) by (unfold s1, set_cell; cbn; rewrite upd_length; auto).
    pose proof (live_ids_upd (cells s1) j (CInline t o (if t_trivial t then v else moved_from_value)) Hj1) as P.
    assert (Enj : nth j (cells s1) CEmpty = CInline t o v).
    { unfold s1, set_cell. cbn. rewrite nth_upd_neq by auto. exact Ej. }
    rewrite Enj in P. cbn in P. apply Permutation_cons_inv in P. exact P.
  - (* heap: the pointer moves from j to i *)
    eapply Inv_perm; [exact I| |reflexivity|reflexivity].
    unfold set_cell, live_ids. cbn. apply Permutation_app_tail.
    assert (Hj1 : j < length (upd (cells s) i (CHeap t p))) by (rewrite upd_length; auto).
    pose proof (live_ids_upd (upd (cells s) i (CHeap t p)) j (CHeap t None) Hj1) as P1.
    rewrite nth_upd_neq in P1 by auto. unfold get_cell in Ej. rewrite Ej in P1. cbn [cell_ids app] in P1.
    pose proof (live_ids_upd_noobj (cells s) i (CHeap t p) Hi He) as P2.
    cbn [cell_ids] in P2.
    apply (Permutation_app_inv_l (cell_ids (CHeap t p))).
    etransitivity; [exact P1 | exact P2].
Qed.

Theorem Inv_step s o : Inv s -> wf_op s o = true -> Inv (sstep s o).
Proof.
  intros I Hw. destruct o as [i t v|i j|i j|i j|i j|i]; cbn in Hw; cbn [sstep].
  - apply andb_true_iff in Hw as [Hi He]. apply Nat.ltb_lt in Hi.
    assert (Hc : cell_ids (get_cell s i) = []) by (destruct (get_cell s i); try discriminate; reflexivity).
    destruct (is_inline t).
    + apply (Inv_fresh_into s i (fun o' => CInline t o' v)); auto.
    + apply (Inv_fresh_into s i (fun o' => CHeap t (Some (o', v)))); auto.
  - apply andb_true_iff in Hw as [Hw Hsrc]. apply andb_true_iff in Hw as [Hw Hemp].
    apply andb_true_iff in Hw as [Hw Hne]. apply andb_true_iff in Hw as [Hi Hj]. apply Nat.ltb_lt in Hi.
    apply Inv_copy_into; auto. destruct (get_cell s i); try discriminate; reflexivity.
  - apply andb_true_iff in Hw as [Hw Hsrc]. apply andb_true_iff in Hw as [Hi Hj]. apply Nat.ltb_lt in Hi, Hj.
    destruct (Nat.eqb i j) eqn:E; auto.
    destruct (destroy_cell_perm s i Hi) as (_ & _ & _ & Hl & Hc).
    apply Inv_copy_into; auto using Inv_destroy. rewrite Hl. auto.
  - apply andb_true_iff in Hw as [Hw Hsrc]. apply andb_true_iff in Hw as [Hw Hemp].
    apply andb_true_iff in Hw as [Hw Hne]. apply andb_true_iff in Hw as [Hi Hj]. apply Nat.ltb_lt in Hi, Hj.
    apply negb_true_iff in Hne. apply Nat.eqb_neq in Hne.
    apply Inv_move_into; auto. destruct (get_cell s i); try discriminate; reflexivity.
  - apply andb_true_iff in Hw as [Hw Hsrc]. apply andb_true_iff in Hw as [Hi Hj]. apply Nat.ltb_lt in Hi, Hj.
    destruct (Nat.eqb i j) eqn:E; auto. apply Nat.eqb_neq in E.
    destruct (destroy_cell_perm s i Hi) as (_ & _ & _ & Hl & Hc).
    apply Inv_move_into; auto using Inv_destroy; rewrite Hl; auto.
  - apply Nat.ltb_lt in Hw. apply Inv_destroy; auto.
Qed.

Theorem Inv_run l : forall s, Inv s -> Inv (srun s l).
Proof.
  induction l as [|o l IH]; intros s I; cbn; auto.
  destruct (wf_op s o) eqn:E; auto. apply IH. apply Inv_step; auto.
Qed.

(* after every cell was destroyed no object is alive, and every object ever created was destroyed exactly once *)
Lemma destroy_all_spec s : Inv s ->
  let s' := destroy_all s in Inv s' /\ live_ids s' = [].
Proof.
  intros I. unfold destroy_all.
  assert (G : forall n k s0, Inv s0 -> k + n = length (cells s0) ->
              (forall m, m < k -> cell_ids (get_cell s0 m) = []) ->
              let s1 := fold_left destroy_cell (seqn k n) s0 in
              Inv s1 /\ length (cells s1) = length (cells s0) /\ (forall m, m < k + n -> cell_ids (get_cell s1 m) = [])).
  { induction n as [|n IH]; intros k s0 I0 Hk Hprev; cbn.
    - split; auto. split; auto. intros m Hm. apply Hprev. lia.
    - assert (Hkl : k < length (cells s0)) by lia.
      destruct (destroy_cell_perm s0 k Hkl) as (_ & _ & _ & Hl & Hc).
      specialize (IH (S k) (destroy_cell s0 k) (Inv_destroy s0 k I0 Hkl) ltac:(rewrite Hl; lia)).
      destruct IH as (I1 & L1 & E1).
      + intros m Hm. destruct (Nat.eq_dec m k) as [->|Hne]; auto.
        unfold destroy_cell, set_cell, kill, get_cell. cbn. rewrite nth_upd_neq by auto. apply Hprev. lia.
      + split; auto. split; [rewrite L1, Hl; reflexivity|]. intros m Hm. apply E1. lia. }
  destruct (G (length (cells s)) 0 s I eq_refl ltac:(intros; lia)) as (I1 & L1 & E1).
  split; auto. unfold live_ids.
  assert (H : forall cs, (forall m, m < length cs -> cell_ids (nth m cs CEmpty) = []) -> flat_map cell_ids cs = []).
  { induction cs as [|c cs IHc]; intros Hc; cbn; auto.
    pose proof (Hc 0 ltac:(cbn; lia)) as H0. cbn in H0. rewrite H0. cbn.
    apply IHc. intros m Hm. apply (Hc (S m)). cbn; lia. }
  apply H. intros m Hm. apply E1. rewrite <- L1. cbn. exact Hm.
Qed.

Theorem all_destroyed_exactly_once n ops :
  let s := destroy_all (srun (init_store n) ops) in
  live_ids s = [] /\ NoDup (dead s) /\ (forall x, In x (born s) <-> In x (dead s)).
Proof.
  cbn. pose proof (Inv_run ops (init_store n) (Inv_init n)) as I.
  destruct (destroy_all_spec _ I) as ((N & B & L) & E). rewrite E in *. cbn in *. auto.
Qed.

(* values: a copy carries the value of its source; a move of a heap object carries the same object *)
Lemma copy_value s i src : i < length (cells s) -> cell_value (get_cell (copy_into s i src) i) = cell_value src.
Proof.
  intros Hi. unfold copy_into, get_cell. destruct src as [|t o v|t [[o v]|]]; unfold fresh, set_cell; cbn;
  rewrite nth_upd_eq by auto; reflexivity.
Qed.
