(* Lemmas_World.v - several machine objects: copies are exact and independent, moves take over the state,
   a saved and loaded machine has the saved configuration. *)
From Msm Require Import Run.

Section World.
Variable cf : cfg.
Variable root : machine.
Variable ops : child_ops.
Variable fuel : nat.

(* an operation addressed to object k leaves every other object exactly as it was *)
Lemma on_object_frame w k o w' tr j :
  run_wop cf root ops fuel w (OOn k o) = (w', tr) -> j <> k -> wget w' j = wget w j.
Proof.
  cbn. intros H Hj. destruct (wget w k) as [rn|]; [|inversion H; subst; auto].
  destruct (run_op cf root ops fuel rn o) as [rn' tr']. inversion H; subst.
  unfold wget. apply nth_upd_neq. auto.
Qed.

(* copying (construction from a const reference, or assignment): the new object is exactly the source, the source and
   all other objects are untouched *)
Lemma copy_exact w dst src w' tr rn :
  wget w src = Some rn -> dst < length w -> dst <> src ->
  run_wop cf root ops fuel w (OCopy dst src) = (w', tr) ->
  wget w' dst = Some rn /\ wget w' src = Some rn /\ (forall j, j <> dst -> wget w' j = wget w j).
Proof.
  cbn. intros Hs Hd Hne H. rewrite Hs in H. inversion H; subst. unfold wget in *.
  repeat split.
  - apply nth_upd_eq. auto.
  - rewrite nth_upd_neq by auto. exact Hs.
  - intros j Hj. apply nth_upd_neq. auto.
Qed.

(* two objects that hold the same state react identically - same trace, same resulting state - to every operation,
   hence (by induction) to every operation list: the copy behaves like the original from then on *)
Lemma same_state_same_reaction w a b rn o :
  wget w a = Some rn -> wget w b = Some rn ->
  forall wa tra wb trb,
  run_wop cf root ops fuel w (OOn a o) = (wa, tra) -> run_wop cf root ops fuel w (OOn b o) = (wb, trb) ->
  tra = trb /\ (a < length w -> b < length w -> wget wa a = wget wb b).
Proof.
  intros Ha Hb wa tra wb trb H1 H2. cbn in H1, H2. rewrite Ha in H1. rewrite Hb in H2.
  destruct (run_op cf root ops fuel rn o) as [rn' tr']. inversion H1; inversion H2; subst.
  split; auto. intros La Lb. unfold wget. rewrite !nth_upd_eq by auto. reflexivity.
Qed.

(* a moved-from backmp11 machine keeps its active ids and history (plain arrays) and has empty pools *)
Lemma moved_from_spec rn : act (moved_from rn) = act rn /\ hist (moved_from rn) = hist rn /\ msgq (moved_from rn) = [].
Proof. destruct rn; cbn; auto. Qed.

Lemma move_takes_over w dst src w' tr rn :
  wget w src = Some rn -> dst < length w -> src < length w -> dst <> src ->
  run_wop cf root ops fuel w (OMove dst src) = (w', tr) ->
  wget w' dst = Some rn /\ wget w' src = Some (moved_from rn) /\ tr = [].
Proof.
  cbn. intros Hs Hd Hsl Hne H. rewrite Hs in H. inversion H; subst. unfold wget.
  repeat split.
  - rewrite nth_upd_neq by auto. apply nth_upd_eq. auto.
  - apply nth_upd_eq. rewrite upd_length. auto.
Qed.

(* a loaded machine has the saved active ids, history and processing flag at every level, and empty queues *)
Lemma loaded_from_spec rn :
  act (loaded_from rn) = act rn /\ hist (loaded_from rn) = hist rn /\ processing (loaded_from rn) = processing rn /\
  running (loaded_from rn) = running rn /\ msgq (loaded_from rn) = [] /\ defq (loaded_from rn) = [] /\
  length (kids (loaded_from rn)) = length (kids rn).
Proof.
  destruct rn as [a ks h q d c p r]. cbn. repeat split; auto.
  induction ks as [|[k|] t IH]; cbn; auto.
Qed.

Lemma loaded_from_kids rn s kn :
  nth s (kids rn) None = Some kn -> nth s (kids (loaded_from rn)) None = Some (loaded_from kn).
Proof.
  destruct rn as [a ks h q d c p r]. cbn. revert s. induction ks as [|[k|] t IH]; intros [|s]; cbn; intros H; try discriminate; auto.
  inversion H; subst; auto.
Qed.

End World.
