(* Monad.v - state + exception monad of the interpreter, callbacks, child lifting, shared helpers. *)
From Msm Require Export Syntax Generated.

Record glob := Glob {
  g_tr : list titem;           (* trace, most recent first *)
  g_cb : nat;                  (* number of behaviour invocations so far in this operation *)
  g_plan : list (nat * cmd);   (* what the n-th behaviour invocation of this operation does besides logging *)
  g_val : list nat;            (* row ids whose guard is true *)
  g_up : list evt;             (* events forwarded by exit points, not yet absorbed by the receiving machine *)
  g_bad : nat                  (* 0 ok; 1 re-entrant processing; 2 out of fuel; 3 unsupported *)
}.

Definition M (A:Type) := rnode -> glob -> option A * rnode * glob.   (* None = a C++ exception is in flight *)

Definition ret {A} (a:A) : M A := fun rn g => (Some a, rn, g).
Definition bind {A B} (m:M A) (k:A -> M B) : M B :=
  fun rn g => match m rn g with
              | (Some a, rn', g') => k a rn' g'
              | (None, rn', g') => (None, rn', g')
              end.
Definition throw {A} : M A := fun rn g => (None, rn, g).
Definition catch {A} (m:M A) (h:M A) : M A :=
  fun rn g => match m rn g with
              | (None, rn', g') => h rn' g'
              | r => r
              end.
(* run cleanup when m throws, then keep throwing (a destructor that runs during stack unwinding) *)
Definition on_throw {A} (m:M A) (cleanup:M unit) : M A :=
  fun rn g => match m rn g with
              | (None, rn', g') => let '(_, rn2, g2) := cleanup rn' g' in (None, rn2, g2)
              | r => r
              end.
Definition get : M rnode := fun rn g => (Some rn, rn, g).
Definition put (rn:rnode) : M unit := fun _ g => (Some tt, rn, g).
Definition modify (f:rnode -> rnode) : M unit := fun rn g => (Some tt, f rn, g).
Definition getg : M glob := fun rn g => (Some g, rn, g).
Definition putg (g:glob) : M unit := fun rn _ => (Some tt, rn, g).

Declare Scope monad_scope.
Notation "x <- m ;; k" := (bind m (fun x => k)) (at level 61, m at next level, right associativity) : monad_scope.
Notation "m ;; k" := (bind m (fun _ => k)) (at level 61, right associativity) : monad_scope.
Open Scope monad_scope.

Definition set_bad (w:nat) : M unit :=
  fun rn g => (Some tt, rn,
               Glob (if Nat.eqb (g_bad g) 0 then Bad w :: g_tr g else g_tr g) (g_cb g) (g_plan g) (g_val g) (g_up g)
                    (if Nat.eqb (g_bad g) 0 then w else g_bad g)).
Definition emit (it:titem) : M unit :=
  fun rn g => (Some tt, rn, Glob (it :: g_tr g) (g_cb g) (g_plan g) (g_val g) (g_up g) (g_bad g)).
Definition push_up (e:evt) : M unit :=
  fun rn g => (Some tt, rn, Glob (g_tr g) (g_cb g) (g_plan g) (g_val g) (g_up g ++ [e]) (g_bad g)).
Definition take_up : M (list evt) :=
  fun rn g => (Some (g_up g), rn, Glob (g_tr g) (g_cb g) (g_plan g) (g_val g) [] (g_bad g)).

Fixpoint iterM {A} (f:A -> M unit) (l:list A) : M unit :=
  match l with [] => ret tt | x :: t => f x ;; iterM f t end.
(* ---- chain combinators: the shape shared by the engines' transition chains ---- *)
(* recursive form (back / back11 chain_row::execute_helper): run the first item; if its code lets the chain
   continue, run the rest and merge the two codes *)
Fixpoint chain_gen {A} (ex:A -> M nat) (cont:nat -> bool) (merge:nat -> nat -> nat) (l:list A) : M nat :=
  match l with
  | [] => ret 0
  | x :: rest =>
      bind (ex x) (fun res =>
        if cont res then bind (chain_gen ex cont merge rest) (fun sub => ret (merge res sub)) else ret res)
  end.
(* loop form with an accumulator (favor_compile_time's chain_row::operator(), backmp11's transition_chain):
   while the accumulated code lets the loop continue, run the next item and fold its code in *)
Fixpoint loop_gen {A} (ex:A -> M nat) (cont:nat -> bool) (step:nat -> nat -> nat) (acc:nat) (l:list A) : M nat :=
  match l with
  | [] => ret acc
  | x :: rest => if cont acc then bind (ex x) (fun h => loop_gen ex cont step (step acc h) rest) else ret acc
  end.

Definition when (b:bool) (m:M unit) : M unit := if b then m else ret tt.

(* bits of small result / source codes *)
Definition bit_and (a b:nat) : nat := Nat.land a b.
Definition bit_or (a b:nat) : nat := Nat.lor a b.
Definition has_bits (a mask:nat) : bool := negb (Nat.eqb (Nat.land a mask) 0).
Definition tab1 (t:list bool) (i:nat) : bool := nth i t false.
Definition tab1n (t:list nat) (i:nat) : nat := nth i t 0.
Definition tab2 (t:list (list nat)) (i j:nat) : nat := nth j (nth i t []) 0.

(* wrap-around of the sequence counters, widths from Generated.v *)
Definition wrap (bits:nat) (signed:bool) (z:Z) : Z :=
  let m := Z.pow 2 (Z.of_nat bits) in
  let r := Z.modulo z m in
  if signed then (if Z.leb (Z.div m 2) r then Z.sub r m else r) else r.
Definition wrap_back (z:Z) : Z := wrap back_seq_bits back_seq_signed z.
Definition wrap_mp11 (z:Z) : Z := wrap mp11_seq_bits mp11_seq_signed z.

(* event type hierarchy *)
Fixpoint is_base_of_fuel (fuel:nat) (parents:list (option nat)) (t e:nat) : bool :=
  Nat.eqb t e ||
  match fuel with
  | O => false
  | S f => match nth e parents None with
           | Some p => is_base_of_fuel f parents t p
           | None => false
           end
  end.
Definition is_base_of (parents:list (option nat)) (t e:nat) : bool :=
  is_base_of_fuel (length parents) parents t e.

(* does a row's trigger match an event type; kleene = are Kleene triggers honoured by this table *)
Definition trig_matches (parents:list (option nat)) (kleene:bool) (tr:trigger) (ety:nat) : bool :=
  match tr with
  | TrEv t => negb (Nat.eqb ety EV_NONE) && is_base_of parents t ety
  | TrAny => kleene && negb (Nat.eqb ety EV_NONE)
  | TrNone => Nat.eqb ety EV_NONE
  end.

Definition push_path (s:nat) (it:titem) : titem :=
  match it with
  | Cb k p id ev w obs => Cb k (s :: p) id ev w obs
  | other => other
  end.

(* run m on the child node stored under state s; the child's trace items get s prepended to their path *)
Definition lift_child {A} (s:nat) (dflt:A) (m:M A) : M A :=
  fun rn g =>
    match nth s (kids rn) None with
    | None => (Some dflt, rn, Glob (Bad 3 :: g_tr g) (g_cb g) (g_plan g) (g_val g) (g_up g) 3)
    | Some kn =>
        let g0 := Glob [] (g_cb g) (g_plan g) (g_val g) (g_up g) (g_bad g) in
        let '(r, kn', g1) := m kn g0 in
        (r, set_kids rn (upd (kids rn) s (Some kn')),
         Glob (map (push_path s) (g_tr g1) ++ g_tr g) (g_cb g1) (g_plan g1) (g_val g1) (g_up g1) (g_bad g1))
    end.

Definition throwable (k:cbkind) : bool :=
  match k with KNoTrans | KExc => false | _ => true end.

(* one behaviour invocation: log it, then do what the plan says for this invocation index.
   submit / enqueue are the engine's meaning of fsm.process_event / fsm.enqueue_event from inside a behaviour *)
Definition callback_at (submit enqueue:evt -> M unit) (path:list nat) (k:cbkind) (id:nat) (ev:evt) (wrapped:bool) : M unit :=
  rn <- get ;; g <- getg ;;
  putg (Glob (Cb k path id ev wrapped (act rn) :: g_tr g) (S (g_cb g)) (g_plan g) (g_val g) (g_up g) (g_bad g)) ;;
  match assoc (g_cb g) (g_plan g) with
  | None => ret tt
  | Some CThrow => if throwable k then throw else ret tt
  | Some (CProc e) => submit e
  | Some (CEnq e) => enqueue e
  end.

Definition callback (submit enqueue:evt -> M unit) := callback_at submit enqueue [].

Definition guard_value (rid:nat) : M bool := g <- getg ;; ret (memb rid (g_val g)).

(* queue helpers *)
Definition push_msg (q:qitem) : M unit := modify (fun rn => set_msgq rn (msgq rn ++ [q])).
Definition push_msg_front (q:qitem) : M unit := modify (fun rn => set_msgq rn (q :: msgq rn)).
Definition push_def (q:qitem) : M unit := modify (fun rn => set_defq rn (defq rn ++ [q])).
Definition set_act_at (r s:nat) : M unit := modify (fun rn => set_act rn (upd (act rn) r s)).

Definition policy_next (pol phase:nat) : bool := nth phase (nth pol policy_table []) false.
(* the id written into the region's slot after the given phase of an external transition *)
Definition switch_id (pol phase cur next:nat) : nat := if policy_next pol phase then next else cur.

(* static helpers over definitions *)
Definition is_sub (mc:machine) (s:nat) : bool :=
  match s_sub (get_state mc s) with Some _ => true | None => false end.
Definition is_term_state (st:state) : bool := match s_kind st with KTerm => true | _ => false end.
Definition is_intr_state (st:state) : bool := match s_kind st with KIntr _ => true | _ => false end.
Definition ends_intr (st:state) (ety:nat) : bool := match s_kind st with KIntr ends => memb ety ends | _ => false end.
Definition is_blocking_state (st:state) : bool := is_term_state st || is_intr_state st.
Definition has_blocking (mc:machine) : bool := existsb is_blocking_state (m_states mc).
Definition has_completion_rows (mc:machine) : bool :=
  existsb (fun r => match r_trig r with TrNone => true | _ => false end) (m_rows mc).
Definition state_has_completion (mc:machine) (s:nat) : bool :=
  existsb (fun r => Nat.eqb (r_src r) s && match r_trig r with TrNone => true | _ => false end) (m_rows mc).
Definition has_deferring_states (mc:machine) : bool :=
  existsb (fun st => match s_defers st with [] => false | _ => true end) (m_states mc)
  || existsb (fun r => match r_act r with ActDefer => true | _ => false end) (m_rows mc)
  || existsb (fun st => existsb (fun r => match r_act r with ActDefer => true | _ => false end) (s_irows st)) (m_states mc)
  || existsb (fun r => match r_act r with ActDefer => true | _ => false end) (m_irows mc).
