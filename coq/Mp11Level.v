(* Mp11Level.v - one machine level of backmp11 (favor_runtime_speed with either dispatch strategy, and
   favor_compile_time), parametric in the processors of its submachines.  Written against
   backmp11/detail/state_machine_base.hpp, transition_table.hpp, favor_runtime_speed.hpp,
   favor_compile_time.hpp, history_impl.hpp, state_visitor.hpp, common_types.hpp. *)
From Msm Require Export BackLevel.

Definition INFO_DIRECT := 0.
Definition INFO_SUBMACHINE := 1.
Definition INFO_POOL := 2.

Section Mp11Level.
Variable cf : cfg.
Variable parents : list (option nat).
Variable contained : bool.
Variable mc : machine.
Variable children : list (option child_ops).

Definition mchild (s:nat) : option child_ops := nth s children None.

(* recursive flag / deferral queries over the active configuration (visit_mode::active_recursive) *)
Definition active_any (rn:rnode) (here:state -> bool) (deeper:child_ops -> rnode -> bool) : bool :=
  running rn &&
  existsb (fun s => here (get_state mc s) ||
                    match mchild s, nth s (kids rn) None with
                    | Some co, Some kn => deeper co kn
                    | _, _ => false
                    end) (act rn).
Definition term_active (rn:rnode) : bool := active_any rn is_term_state co_term.
Definition intr_active (rn:rnode) : bool := active_any rn is_intr_state co_intr.
Definition endintr_active (rn:rnode) (ety:nat) : bool :=
  active_any rn (fun st => ends_intr st ety) (fun co kn => co_endintr co kn ety).
Definition defers_active (rn:rnode) (ety:nat) : bool :=
  active_any rn (fun st => memb ety (s_defers st)) (fun co kn => co_defers co kn ety).

(* favor_compile_time's is_end_interrupt_event only recognises event types that occur in this machine's own
   transition_table (generate_event_set<front_end_t::transition_table>) *)
Definition in_own_table (ety:nat) : bool :=
  existsb (fun x => match r_trig x with TrEv e => Nat.eqb e ety | _ => false end) (m_rows mc).
Definition is_end_interrupt (rn:rnode) (ety:nat) : bool :=
  endintr_active rn ety && (negb (c_fct cf) || in_own_table ety).
(* user flags: visitor over the active configuration (active_recursive).  OR: some visited state carries the flag.
   AND: no visited state - submachine states themselves included - lacks it; a machine that is not running is not
   traversed at all *)
Definition mflag_or (rn:rnode) (f:nat) : bool :=
  active_any rn (fun st => memb f (s_flags st)) (fun co kn => co_flag_or co kn f).
Definition mflag_and (rn:rnode) (f:nat) : bool :=
  negb (running rn) ||
  forallb (fun s => memb f (s_flags (get_state mc s)) &&
                    match mchild s, nth s (kids rn) None with
                    | Some co, Some kn => co_flag_and co kn f
                    | _, _ => true
                    end) (act rn).

Definition mblocked (rn:rnode) (ety:nat) : bool :=
  has_blocking mc && (term_active rn || (intr_active rn && negb (is_end_interrupt rn ety))).

Definition push_deferred (e:evt) (next_seq:bool) : M unit :=
  rn <- get ;;
  push_msg (QEv e 0 (if next_seq then curseq rn else wrap_mp11 (curseq rn - 1)) false).

Definition mcb_submit (e:evt) : M unit :=
  rn <- get ;;
  if mblocked rn (e_ty e) then ret tt
  else if processing rn || defers_active rn (e_ty e) then push_deferred e false
  else set_bad 1.
Definition mcb_enqueue (e:evt) : M unit := push_deferred e false.
Definition mcb := callback mcb_submit mcb_enqueue.
Definition mcb_at := callback_at mcb_submit mcb_enqueue.

(* exit points forward to the root machine's enqueue_event *)
Definition mabsorb_up : M unit :=
  if contained then ret tt else (ups <- take_up ;; iterM mcb_enqueue ups).
Definition min_child {A} (s:nat) (dflt:A) (m:M A) : M A := r <- lift_child s dflt m ;; mabsorb_up ;; ret r.

Definition mexec_exit (fuel s:nat) (ev:evt) : M unit :=
  match mchild s with
  | Some co =>
      min_child s tt (co_exit_pre co fuel ev) ;;
      mcb_at [s] KMExit 0 ev false ;;
      min_child s tt (co_exit_post co ev)
  | None => mcb KExit s ev false
  end.

Definition on_state_entry_completed (s r:nat) : M unit :=
  if negb (is_sub mc s) && state_has_completion mc s then push_msg_front (QCompl s r false) else ret tt.

(* call_entry of a transition, and the per-state step of state_entry_visitor *)
Definition mexec_entry_gen (fwd:bool) (fuel s:nat) (ev:evt) (k:ekind) : M unit :=
  match mchild s with
  | Some co =>
      let body :=
        min_child s tt (co_entry_pre co ev k) ;;
        mcb_at [s] KMEntry 0 ev false ;;
        min_child s tt (co_entry_post co fuel ev k) in
      if mp11_entry_throw_resets then on_throw body (lift_child s tt (modify (fun rn => set_processing rn false))) else body
  | None =>
      mcb KEntry s ev false ;;
      match s_kind (get_state mc s) with
      | KExitPt ety => if fwd then push_up (Evt ety (e_pay ev)) ;; mabsorb_up else ret tt
      | _ => ret tt
      end
  end.
(* call_entry of a transition forwards the event of an exit pseudo state; the state_entry_visitor (initial /
   history / explicit entry of a whole machine) only calls on_entry *)
Definition mexec_entry := mexec_entry_gen true.

Definition mrun_action (x:row) (ev:evt) : M nat :=
  match r_act x with
  | ActNone => ret HANDLED_TRUE
  | ActCall => mcb KAction (r_id x) ev false ;; ret HANDLED_TRUE
  | ActDefer => rn <- get ;; push_deferred ev (processing rn) ;; ret HANDLED_DEFERRED
  end.
Definition mrun_guard (x:row) (ev:evt) : M bool :=
  if r_guard x then (b <- guard_value (r_id x) ;; mcb (KGuard b) (r_id x) ev false ;; ret b) else ret true.

Definition mexec_row (fuel r:nat) (x:row) (ev:evt) : M nat :=
  match tgt_state (r_tgt x) with
  | None => b <- mrun_guard x ev ;; if b then mrun_action x ev else ret HANDLED_GUARD_REJECT
  | Some nxt =>
      let cur := r_src x in
      rn <- get ;;
      if match r_exitpt x with Some p => negb (exit_pt_active rn cur p) | None => false end
      then ret HANDLED_FALSE          (* the row leaves an exit point that is not the submachine's active state *)
      else
      b <- mrun_guard x ev ;;
      if negb b then ret HANDLED_GUARD_REJECT
      else
        set_act_at r (switch_id (c_pol cf) 0 cur nxt) ;;
        mexec_exit fuel cur ev ;;
        set_act_at r (switch_id (c_pol cf) 1 cur nxt) ;;
        res <- mrun_action x ev ;;
        set_act_at r (switch_id (c_pol cf) 2 cur nxt) ;;
        mexec_entry fuel nxt ev (tgt_ekind (r_tgt x)) ;;
        set_act_at r (switch_id (c_pol cf) 3 cur nxt) ;;
        on_state_entry_completed nxt r ;;
        ret res
  end.

Definition mkleene_ok : bool := negb (c_fct cf).
Definition mrow_matches (ety:nat) (x:row) : bool :=
  if c_fct cf
  then match r_trig x with
       | TrEv e => Nat.eqb e ety && negb (Nat.eqb ety EV_NONE)
       | TrNone => Nat.eqb ety EV_NONE
       | TrAny => false end
  else trig_matches parents true (r_trig x) ety.

Definition mtable_rows (s ety:nat) : list row :=
  (if is_sub mc s then [] else rev (filter (mrow_matches ety) (s_irows (get_state mc s))))
  ++ rev (filter (fun x => Nat.eqb (r_src x) s && mrow_matches ety x) (m_rows mc)).

Definition needs_forward (s ety:nat) : bool :=
  match mchild s with
  | None => false
  | Some co => c_fct cf || existsb (fun t => trig_matches parents true t ety) (co_trigs co)
  end.

Definition mforward (fuel s:nat) (ev:evt) : M nat :=
  match mchild s with
  | Some co => min_child s 0 (co_pei co fuel ev INFO_SUBMACHINE)
  | None => ret 0
  end.

(* transition_chain::execute with an initial accumulated result: result |= row; stop and mask as soon as a
   bit of handled_true_or_deferred is set *)
Definition mp11_cont (acc:nat) : bool := negb (tab1 mp11_chain_stop acc).
Definition mchain_raw (fuel r:nat) (ev:evt) (acc:nat) (l:list row) : M nat :=
  loop_gen (fun x => mexec_row fuel r x ev) mp11_cont bit_or acc l.
Definition mp11_finish (acc:nat) : nat := if tab1 mp11_chain_stop acc then tab1n mp11_chain_mask acc else acc.
Definition mchain (fuel r:nat) (ev:evt) (acc:nat) (l:list row) : M nat :=
  match l with
  | [] => ret acc
  | _ => res <- mchain_raw fuel r ev acc l ;; ret (mp11_finish res)
  end.

Definition mdispatch (fuel r s:nat) (ev:evt) : M nat :=
  let rows := mtable_rows s (e_ty ev) in
  if c_fct cf then
    (* state_dispatch_table::dispatch *)
    if needs_forward s (e_ty ev)
    then (res <- mforward fuel s ev ;;
          if has_bits res handled_true_or_deferred then ret res else mchain fuel r ev res rows)
    else mchain fuel r ev HANDLED_FALSE rows
  else
    if needs_forward s (e_ty ev)
    then match rows with
         | [] => mforward fuel s ev
         | _ => res <- mforward fuel s ev ;;
                if tab1 mp11_chain_stop res then ret (tab1n mp11_chain_mask res) else mchain fuel r ev res rows
         end
    else match rows with
         | [] => ret HANDLED_FALSE
         | [x] => mexec_row fuel r x ev
         | _ => mchain fuel r ev HANDLED_FALSE rows
         end.

Fixpoint mregions_loop (fuel:nat) (ev:evt) (n r:nat) (acc:nat) : M nat :=
  match n with
  | O => ret acc
  | S n' =>
      rn <- get ;;
      res <- mdispatch fuel r (nth r (act rn) 0) ev ;;
      mregions_loop fuel ev n' (S r) (bit_or acc res)
  end.

Definition minternal_rows (ety:nat) : list row := rev (filter (mrow_matches ety) (m_irows mc)).
Definition minternal_dispatch (fuel:nat) (ev:evt) : M nat :=
  match minternal_rows (e_ty ev) with
  | [] => ret HANDLED_FALSE
  | [x] => if c_fct cf then mchain fuel 0 ev HANDLED_FALSE [x] else mexec_row fuel 0 x ev
  | l => mchain fuel 0 ev HANDLED_FALSE l
  end.

Definition mnt_phase (ev:evt) (info:nat) (result:nat) : M unit :=
  if Nat.eqb result 0 && negb (Nat.eqb info INFO_SUBMACHINE)
  then (rn <- get ;; iterM (fun s => mcb KNoTrans s ev false) (act rn)) else ret tt.

Definition mdo_process_event (fuel:nat) (ev:evt) (info:nat) : M nat :=
  result <- mregions_loop fuel ev (m_nreg mc) 0 HANDLED_FALSE ;;
  result <- (if tab1 mp11_internal_tried result
             then (ri <- minternal_dispatch fuel ev ;; ret (bit_or result ri)) else ret result) ;;
  mnt_phase ev info result ;;
  ret result.

Definition moof {A} (a:A) : M A := set_bad 2 ;; ret a.

(* process_completion_transition for the completion rows of state s in region r *)
Definition completion_rows (s:nat) : list row := mtable_rows s EV_NONE.
Definition process_completion (fuel s r:nat) : M nat :=
  rn <- get ;;
  if has_blocking mc && (term_active rn || intr_active rn) then ret HANDLED_TRUE
  else
    let ev := Evt EV_NONE 0 in
    modify (fun rn => set_processing rn true) ;;
    result <- catch (match completion_rows s with
                     | [] => ret HANDLED_FALSE
                     | [x] => mexec_row fuel r x ev
                     | l => mchain fuel r ev HANDLED_FALSE l
                     end)
                    (mcb KExc 0 ev false ;; ret HANDLED_FALSE) ;;
    modify (fun rn => set_processing rn false) ;;
    ret result.

Section MRtc.
Variable pei_rec : evt -> nat -> M nat.

Definition mark_at (i:nat) (q:list qitem) : list qitem :=
  match nth_error q i with
  | Some (QEv e s z _) => upd q i (QEv e s z true)
  | Some (QCompl s r _) => upd q i (QCompl s r true)
  | None => q
  end.
Fixpoint remove_at {A} (i:nat) (l:list A) : list A :=
  match l, i with
  | [], _ => []
  | _ :: t, O => t
  | h :: t, S j => h :: remove_at j t
  end.
Definition is_marked (q:qitem) : bool := match q with QEv _ _ _ m => m | QCompl _ _ m => m end.

(* do_process_event_pool; maxev = 0 means no limit *)
Fixpoint pool_loop (fuel:nat) (idx processed maxev:nat) : M nat :=
  match fuel with
  | O => moof processed
  | S f =>
      rn <- get ;;
      match nth_error (msgq rn) idx with
      | None => ret processed
      | Some it =>
          if is_marked it then put (set_msgq rn (remove_at idx (msgq rn))) ;; pool_loop f idx processed maxev
          else
            match it with
            | QEv e _ seq _ =>
                if Z.eqb seq (curseq rn) || defers_active rn (e_ty e)
                then pool_loop f (S idx) processed maxev
                else
                  put (set_msgq rn (mark_at idx (msgq rn))) ;;
                  res <- pei_rec e INFO_POOL ;;
                  let processed' := if Nat.eqb res HANDLED_DEFERRED then processed else S processed in
                  if negb (Nat.eqb res HANDLED_DEFERRED) && Nat.eqb processed' maxev && negb (Nat.eqb maxev 0)
                  then ret processed'
                  else
                    when (negb (has_bits res HANDLED_DEFERRED))
                         (modify (fun rn => set_curseq rn (wrap_mp11 (curseq rn + 1)))) ;;
                    pool_loop f 0 processed' maxev
            | QCompl s r _ =>
                put (set_msgq rn (mark_at idx (msgq rn))) ;;
                res <- process_completion f s r ;;
                let processed' := if Nat.eqb res HANDLED_DEFERRED then processed else S processed in
                if negb (Nat.eqb res HANDLED_DEFERRED) && Nat.eqb processed' maxev && negb (Nat.eqb maxev 0)
                then ret processed'
                else
                  when (negb (has_bits res HANDLED_DEFERRED))
                       (modify (fun rn => set_curseq rn (wrap_mp11 (curseq rn + 1)))) ;;
                  pool_loop f 0 processed' maxev
            end
      end
  end.

Definition process_event_pool (fuel maxev:nat) : M nat :=
  rn <- get ;;
  match msgq rn with
  | [] => ret 0
  | _ => if processing rn then ret 0 else pool_loop fuel 0 0 maxev
  end.

Definition mpei_body (fuel:nat) (ev:evt) (info:nat) : M nat :=
  rn <- get ;;
  if mblocked rn (e_ty ev) then ret HANDLED_TRUE
  else if negb (Nat.eqb info INFO_POOL) &&
          (processing rn || (negb (Nat.eqb info INFO_SUBMACHINE) && defers_active rn (e_ty ev)))
  then push_deferred ev false ;; ret HANDLED_DEFERRED
  else
    when (negb (Nat.eqb info INFO_POOL)) (modify (fun rn => set_curseq rn (wrap_mp11 (curseq rn + 1)))) ;;
    modify (fun rn => set_processing rn true) ;;
    result <- catch (mdo_process_event fuel ev info) (mcb KExc 0 ev false ;; ret HANDLED_FALSE) ;;
    modify (fun rn => set_processing rn false) ;;
    (if negb (Nat.eqb info INFO_POOL) then process_event_pool fuel 0 ;; ret tt else ret tt) ;;
    ret result.

Definition mzone_of (s:nat) : nat := s_zone (get_state mc s).

(* history_impl::on_entry(sm, event): set the active ids, clear the pool when history is not applied *)
Definition history_set_ids (ety:nat) : M unit :=
  match m_hist mc with
  | HNone => modify (fun rn => set_msgq (set_act rn (m_inits mc)) [])
  | HAlways => modify (fun rn => set_act rn (hist rn))
  | HShallow evs =>
      if memb ety evs then modify (fun rn => set_act rn (hist rn))
      else modify (fun rn => set_msgq (set_act rn (m_inits mc)) [])
  end.

(* state_entry_visitor over a list of states: entry, then completion bookkeeping with a running region counter *)
Fixpoint enter_states (fuel:nat) (ev:evt) (l:list nat) (rid:nat) : M unit :=
  match l with
  | [] => ret tt
  | s :: t => mexec_entry_gen false fuel s ev EkPlain ;; on_state_entry_completed s rid ;; enter_states fuel ev t (S rid)
  end.

Definition preprocess_entry : M unit :=
  modify (fun rn => set_processing (set_running rn true) true).
Definition postprocess_entry (fuel:nat) : M unit :=
  modify (fun rn => set_processing rn false) ;;
  process_event_pool fuel 0 ;; ret tt.

Definition mon_entry_pre (ev:evt) (k:ekind) : M unit := preprocess_entry.
Definition mon_entry_post (fuel:nat) (ev:evt) (k:ekind) : M unit :=
  match k with
  | EkPlain =>
      history_set_ids (e_ty ev) ;;
      rn <- get ;; enter_states fuel ev (act rn) 0 ;;
      postprocess_entry fuel
  | EkDirect subs =>
      let all := Nat.eqb (length subs) (m_nreg mc) in
      (if all then ret tt else history_set_ids (e_ty ev)) ;;
      iterM (fun s => set_act_at (mzone_of s) s) subs ;;
      (if all then enter_states fuel ev subs 0 else (rn <- get ;; enter_states fuel ev (act rn) 0)) ;;
      postprocess_entry fuel
  | EkEntryPt p =>
      let all := Nat.eqb 1 (m_nreg mc) in
      (if all then ret tt else history_set_ids (e_ty ev)) ;;
      set_act_at (mzone_of p) p ;;
      (if all then enter_states fuel ev [p] 0 else (rn <- get ;; enter_states fuel ev (act rn) 0)) ;;
      postprocess_entry fuel ;;
      pei_rec ev INFO_DIRECT ;; ret tt
  end.

End MRtc.

Fixpoint mexit_states (fuel:nat) (ev:evt) (l:list nat) : M unit :=
  match l with [] => ret tt | s :: t => mexec_exit fuel s ev ;; mexit_states fuel ev t end.

(* the visitor only traverses a machine that has been started / entered (m_running) *)
Definition mon_exit_pre (fuel:nat) (ev:evt) : M unit :=
  rn <- get ;; if running rn then mexit_states fuel ev (act rn) else ret tt.
Definition mon_exit_post (ev:evt) : M unit :=
  modify (fun rn => match m_hist mc with HNone => rn | _ => set_hist rn (act rn) end).

Fixpoint mpei (fuel:nat) (ev:evt) (info:nat) {struct fuel} : M nat :=
  match fuel with
  | O => moof 0
  | S f => mpei_body (mpei f) f ev info
  end.

Definition mlevel_trigs : list trigger :=
  map r_trig (m_rows mc) ++ map r_trig (m_irows mc)
  ++ flat_map (fun st => match s_sub st with None => map r_trig (s_irows st) | Some _ => [] end) (m_states mc)
  ++ flat_map (fun oc => match oc with Some co => co_trigs co | None => [] end) children.

Definition mstart (fuel:nat) : M unit :=
  rn <- get ;;
  if running rn then ret tt
  else let ev := Evt EV_INIT 0 in
       let body := mon_entry_pre ev EkPlain ;; mcb KMEntry 0 ev false ;; mon_entry_post (mpei fuel) fuel ev EkPlain in
       if mp11_entry_throw_resets then on_throw body (modify (fun rn => set_processing rn false)) else body.
Definition mstop (fuel:nat) : M unit :=
  rn <- get ;;
  if running rn
  then let ev := Evt EV_EXIT 0 in
       mon_exit_pre fuel ev ;; mcb KMExit 0 ev false ;; mon_exit_post ev ;;
       modify (fun rn => set_running rn false)
  else ret tt.

Definition mp11_ops : child_ops :=
  ChildOps mpei
           mon_entry_pre
           (fun fuel ev k => mon_entry_post (mpei fuel) fuel ev k)
           mon_exit_pre
           mon_exit_post
           mstart mstop
           mcb_enqueue
           (fun fuel maxev => process_event_pool (mpei fuel) fuel maxev ;; ret tt)
           mlevel_trigs
           term_active intr_active endintr_active defers_active
           mflag_or mflag_and.

End Mp11Level.
