(* Properties_C01.v - enabled-transition selection: candidate set, table priority, stop at the first consumer.
   Only statements, each closed by `exact`, with Print Assumptions beneath. *)
From Msm Require Import Run Lemmas_Chain Lemmas_C01.

(* candidates of a simple state = its own internal-table rows and the table rows with that source, whose trigger
   matches the event type (exact / base class / Kleene as the configuration supports) - nothing else *)
Theorem C01_candidates_back : forall cf parents mc s ety x,
  is_sub mc s = false ->
  In x (table_rows cf parents mc s ety) <->
  (In x (s_irows (get_state mc s)) \/ (In x (m_rows mc) /\ r_src x = s)) /\ row_matches cf parents ety x = true.
Proof. exact table_rows_in. Qed.
Print Assumptions C01_candidates_back.

Theorem C01_candidates_mp11 : forall cf parents mc s ety x,
  is_sub mc s = false ->
  In x (mtable_rows cf parents mc s ety) <->
  (In x (s_irows (get_state mc s)) \/ (In x (m_rows mc) /\ r_src x = s)) /\ mrow_matches cf parents ety x = true.
Proof. exact mtable_rows_in. Qed.
Print Assumptions C01_candidates_mp11.

(* tried from the last-declared to the first-declared *)
Theorem C01_last_declared_first_back : forall cf parents mc s ety x y,
  before (m_rows mc) x y -> r_src x = s -> r_src y = s ->
  row_matches cf parents ety x = true -> row_matches cf parents ety y = true ->
  before (table_rows cf parents mc s ety) y x.
Proof. exact table_rows_last_declared_first. Qed.
Print Assumptions C01_last_declared_first_back.

Theorem C01_last_declared_first_mp11 : forall cf parents mc s ety x y,
  before (m_rows mc) x y -> r_src x = s -> r_src y = s ->
  mrow_matches cf parents ety x = true -> mrow_matches cf parents ety y = true ->
  before (mtable_rows cf parents mc s ety) y x.
Proof. exact mtable_rows_last_declared_first. Qed.
Print Assumptions C01_last_declared_first_mp11.

(* a state's own internal-transition table is tried before the table rows for that state *)
Theorem C01_state_table_first_back : forall cf parents mc s ety x y,
  is_sub mc s = false ->
  In x (s_irows (get_state mc s)) -> row_matches cf parents ety x = true ->
  In y (m_rows mc) -> r_src y = s -> row_matches cf parents ety y = true ->
  before (table_rows cf parents mc s ety) x y.
Proof. exact state_irows_before_table_rows. Qed.
Print Assumptions C01_state_table_first_back.

Theorem C01_state_table_first_mp11 : forall cf parents mc s ety x y,
  is_sub mc s = false ->
  In x (s_irows (get_state mc s)) -> mrow_matches cf parents ety x = true ->
  In y (m_rows mc) -> r_src y = s -> mrow_matches cf parents ety y = true ->
  before (mtable_rows cf parents mc s ety) x y.
Proof. exact mstate_irows_before_table_rows. Qed.
Print Assumptions C01_state_table_first_mp11.

(* candidates owned by an active submachine come before the enclosing machine's rows on that submachine *)
Theorem C01_inner_first_back : forall cf parents mc children s ety x,
  In (CRow x) (cell_items cf parents mc children s ety) ->
  forwards cf parents children s ety = true -> state_defers mc s ety = false ->
  before (cell_items cf parents mc children s ety) CFrow (CRow x).
Proof. exact frow_first. Qed.
Print Assumptions C01_inner_first_back.

(* the regenerated continuation tests of all engines say: go on exactly when the code is not consumed
   (neither the handled nor the deferred bit), for every result code *)
Theorem C01_continue_iff_not_consumed : forall c, c < 8 ->
  tab1 back_chain_continue c = negb (consumed c) /\
  tab1 back11_chain_continue c = negb (consumed c) /\
  tab1 fct_chain_continue c = negb (consumed c) /\
  tab1 mp11_chain_stop c = consumed c.
Proof.
  intros c H. repeat split.
  - exact (back_continue_spec c false H).
  - exact (back_continue_spec c true H).
  - exact (fct_continue_spec c H).
  - exact (mp11_stop_spec c H).
Qed.
Print Assumptions C01_continue_iff_not_consumed.

(* dispatching a cell (back / back11, favor_runtime_speed): for every candidate list, every behaviour of the
   candidates and every runtime state, what runs is exactly the first k candidates, one after the other; if k is
   not the whole list the k-th consumed the event and none before it did; no candidate after it is evaluated *)
Theorem C01_first_consumer_stops_back : forall cf contained mc children fuel r s ev l rn g c rn' g',
  c_fct cf = false ->
  run_cell cf contained mc children fuel r s ev l rn g = (Some c, rn', g') ->
  exists cs,
    exec_first (exec_item cf contained mc children fuel r s ev) (length cs) l rn g = (Some tt, rn', g') /\
    length cs <= length l /\
    (Forall (fun x => x < 8) cs ->
       (length cs < length l -> exists cs0 c0, cs = cs0 ++ [c0] /\ consumed c0 = true /\ Forall (fun x => consumed x = false) cs0) /\
       (length cs = length l -> Forall (fun x => consumed x = false) (removelast cs))).
Proof. exact run_cell_prefix. Qed.
Print Assumptions C01_first_consumer_stops_back.

Theorem C01_first_consumer_stops_fct : forall cf contained mc children fuel r s ev acc l rn g c rn' g',
  fct_chain cf contained mc children fuel r s ev acc l rn g = (Some c, rn', g') ->
  exists cs,
    exec_first (exec_item cf contained mc children fuel r s ev) (length cs) l rn g = (Some tt, rn', g') /\
    length cs <= length l /\
    c = loop_codes (tab1 fct_chain_continue) (tab2 fct_chain_step) acc cs /\
    (length cs < length l -> c < 8 -> consumed c = true).
Proof. exact fct_chain_prefix. Qed.
Print Assumptions C01_first_consumer_stops_fct.

Theorem C01_first_consumer_stops_mp11 : forall cf contained mc children fuel r ev acc l rn g c rn' g',
  mchain_raw cf contained mc children fuel r ev acc l rn g = (Some c, rn', g') ->
  exists cs,
    exec_first (fun x => mexec_row cf contained mc children fuel r x ev) (length cs) l rn g = (Some tt, rn', g') /\
    length cs <= length l /\
    c = loop_codes mp11_cont bit_or acc cs /\
    (length cs < length l -> c < 8 -> consumed c = true).
Proof. exact mchain_prefix. Qed.
Print Assumptions C01_first_consumer_stops_mp11.

(* the merged code keeps the handled / consumed information of the rest of the chain, swept over all code pairs *)
Theorem C01_merge_keeps_bits :
  merge_ok (tab1 back_chain_continue) (tab2 back_chain_merge) = true /\
  merge_ok (tab1 back11_chain_continue) (tab2 back11_chain_merge) = true /\
  merge_ok (tab1 fct_chain_continue) (fun a b => tab2 fct_chain_step a b) = true.
Proof. exact (conj back_merge_ok (conj back11_merge_ok fct_step_ok)). Qed.
Print Assumptions C01_merge_keeps_bits.

(* non-vacuity: a conflicting cell of a concrete machine; guards 2 (false) and 3 (true): rows 3 then ... *)
Example C01_example :
  let mc := Machine [State KSimple None [Row 9 0 (TrEv 4) TgNone true ActCall None] [] [] 0; State KSimple None [] [] [] 0] [0]
                    [Row 1 0 (TrEv 4) (TgState 1) true ActCall None; Row 2 0 (TrEv 4) (TgState 1) true ActCall None;
                     Row 3 0 (TrEv 5) (TgState 1) false ActNone None] [] HNone in
  map r_id (table_rows (Cfg Back false 0 false) [] mc 0 4) = [9; 2; 1].
Proof. vm_compute. reflexivity. Qed.

(* ---- whole machines, whole histories ---- *)
From Msm Require Import Spec Lemmas_Sim Lemmas_Core Lemmas_SpecRun Lemmas_SpecProps.

(* Spec.v states the run-to-completion step of a hierarchical machine as a pure function on configurations: per region
   the active state's candidates (its own internal table, then the table rows leaving it, last declared first), an
   active submachine first, the machine's own internal table last.  For every core definition (any nesting depth, any
   number of regions, any history policy below the outermost machine, guards, internal rows at every level), every
   history of start / process_event / stop and every guard valuation the engine's run is this function: same behaviour
   invocations, order and arguments, same active ids at every level after every operation, handled / rejected outcome as
   specified. *)
Theorem C01_back_run_is_the_specified_selection : forall cf md l,
  c_be cf = Back -> flat_events md -> core (md_root md) -> depth (md_root md) + 2 <= default_fuel ->
  back_start_queues = true -> Forall plain_op l ->
  Forall2 step_ok (spec_run false (c_pol cf) md l) (run cf md l).
Proof. exact back_run_is_spec. Qed.
Print Assumptions C01_back_run_is_the_specified_selection.

Theorem C01_mp11_run_is_the_specified_selection : forall cf md l,
  c_be cf = Mp11 -> flat_events md -> core (md_root md) -> m_hist (md_root md) = HNone ->
  depth (md_root md) + 2 <= default_fuel -> mp11_entry_throw_resets = true -> bracketed false l ->
  Forall2 step_ok (spec_run true (c_pol cf) md l) (run cf md l).
Proof. exact mp11_run_is_spec. Qed.
Print Assumptions C01_mp11_run_is_the_specified_selection.

(* every configuration at once: back (either compile policy), back11 (definitions it can compile: no internal tables),
   backmp11 (outermost machine without history of its own); `is_mp11` only selects what the outermost machine's own entry
   behaviour reads when a stopped machine is started again (Spec.sp_start_obs) *)
Theorem C01_every_configuration_runs_the_specified_selection : forall cf md l,
  flat_events md -> core (md_root md) -> cfg_fits cf md -> depth (md_root md) + 2 <= default_fuel ->
  back_start_queues = true -> mp11_entry_throw_resets = true -> bracketed false l ->
  Forall2 step_ok (spec_run (is_mp11 cf) (c_pol cf) md l) (run cf md l).
Proof. exact run_is_spec. Qed.
Print Assumptions C01_every_configuration_runs_the_specified_selection.

(* what that function says about one cell: guards of the candidates before the first one that holds are evaluated once
   each, in priority order; that first one is taken; nothing behind it is looked at *)
Theorem C01_spec_first_candidate_whose_guard_holds : forall pol mc r ev val pre x post c,
  Forall (says_no val) pre -> says_yes val x ->
  sp_rows pol mc r ev val (pre ++ x :: post) c =
    let '(i, c') := sp_take pol mc r x ev c in
    Out true (match pre with [] => false | _ => true end)
        (i ++ (if r_guard x then [Cb (KGuard true) [] (r_id x) ev false (c_act c)] else []) ++ rev (map (guard_no ev c) pre)) c'.
Proof. exact sp_rows_first_yes. Qed.
Print Assumptions C01_spec_first_candidate_whose_guard_holds.

Theorem C01_spec_all_guards_reject : forall pol mc r ev val l c,
  Forall (says_no val) l ->
  sp_rows pol mc r ev val l c = Out false (match l with [] => false | _ => true end) (rev (map (guard_no ev c) l)) c.
Proof. exact sp_rows_all_no. Qed.
Print Assumptions C01_spec_all_guards_reject.

Theorem C01_spec_cases_exhaustive : forall val l,
  Forall (says_no val) l \/ exists pre x post, l = pre ++ x :: post /\ Forall (says_no val) pre /\ says_yes val x.
Proof. exact sp_rows_cases. Qed.
Print Assumptions C01_spec_cases_exhaustive.

(* the hypotheses are met by a nested definition with two regions and history and a history with a restart *)
Example C01_spec_example :
  core (md_root ex_core_md) /\ bracketed false ex_core_ops /\ Forall plain_op ex_core_ops /\ flat_events ex_core_md /\
  m_hist (md_root ex_core_md) = HNone /\ depth (md_root ex_core_md) + 2 <= default_fuel /\
  length (run (Cfg Back false 0 false) ex_core_md ex_core_ops) = 11.
Proof.
  split; [exact ex_core_ok|].
  split; [cbn; repeat split; discriminate|].
  split; [repeat constructor; cbn; discriminate|].
  split; [intros [|e]; reflexivity|].
  split; [reflexivity|]. split; [vm_compute; repeat constructor | vm_compute; reflexivity].
Qed.
