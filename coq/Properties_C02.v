(* Properties_C02.v - execution order of a transition: guard, exit, action, entry, then switch. *)
From Msm Require Import Run Lemmas_C19 Lemmas_Rows Lemmas_Regions.

(* external transition between simple states, back / back11: guard, source exit, action, target entry - each once,
   in this order (expected_items lists them most recent first) - and afterwards the region is at the target,
   every other region, the history, the queues and all submachine nodes are unchanged *)
Theorem C02_external_order_back : forall cf contained mc fuel r rid cur nxt ev rn g,
  plain_state mc nxt -> c_pol cf < 4 -> g_plan g = [] -> memb rid (g_val g) = true ->
  exec_row cf contained mc (no_children mc) fuel r (Row rid cur (TrEv (e_ty ev)) (TgState nxt) true ActCall None) ev rn g =
    (Some HANDLED_TRUE, set_act rn (upd (act rn) r nxt),
     Glob (expected_items (c_pol cf) r cur nxt rid ev (act rn) ++ g_tr g) (4 + g_cb g) [] (g_val g) (g_up g) (g_bad g)).
Proof. exact back_exec_row_observed. Qed.
Print Assumptions C02_external_order_back.

Theorem C02_external_order_mp11 : forall cf contained mc fuel r rid cur nxt ev rn g,
  plain_state mc nxt -> c_pol cf < 4 -> is_sub mc nxt = false -> state_has_completion mc nxt = false ->
  g_plan g = [] -> memb rid (g_val g) = true ->
  mexec_row cf contained mc (no_children mc) fuel r (Row rid cur (TrEv (e_ty ev)) (TgState nxt) true ActCall None) ev rn g =
    (Some HANDLED_TRUE, set_act rn (upd (act rn) r nxt),
     Glob (expected_items (c_pol cf) r cur nxt rid ev (act rn) ++ g_tr g) (4 + g_cb g) [] (g_val g) (g_up g) (g_bad g)).
Proof. exact mp11_exec_row_observed. Qed.
Print Assumptions C02_external_order_mp11.

(* an internal transition runs only its guard and action and leaves the whole runtime state untouched *)
Theorem C02_internal_back : forall cf contained mc children fuel r rid src ev rn g,
  g_plan g = [] -> memb rid (g_val g) = true ->
  exec_row cf contained mc children fuel r (Row rid src (TrEv (e_ty ev)) TgNone true ActCall None) ev rn g =
    (Some HANDLED_TRUE, rn, bump g [Cb KAction [] rid ev false (act rn); Cb (KGuard true) [] rid ev false (act rn)]).
Proof. exact back_internal_row. Qed.
Print Assumptions C02_internal_back.

Theorem C02_internal_mp11 : forall cf contained mc children fuel r rid src ev rn g,
  g_plan g = [] -> memb rid (g_val g) = true ->
  mexec_row cf contained mc children fuel r (Row rid src (TrEv (e_ty ev)) TgNone true ActCall None) ev rn g =
    (Some HANDLED_TRUE, rn, bump g [Cb KAction [] rid ev false (act rn); Cb (KGuard true) [] rid ev false (act rn)]).
Proof. exact mp11_internal_row. Qed.
Print Assumptions C02_internal_mp11.

(* a rejected guard causes no exit, action, entry or state change at all - for every kind of row *)
Theorem C02_rejected_back : forall cf contained mc children fuel r x ev rn g,
  g_plan g = [] -> r_guard x = true -> memb (r_id x) (g_val g) = false -> r_exitpt x = None ->
  exec_row cf contained mc children fuel r x ev rn g =
    (Some HANDLED_GUARD_REJECT, rn, bump g [Cb (KGuard false) [] (r_id x) ev false (act rn)]).
Proof. exact back_rejected_row. Qed.
Print Assumptions C02_rejected_back.

Theorem C02_rejected_mp11 : forall cf contained mc children fuel r x ev rn g,
  g_plan g = [] -> r_guard x = true -> memb (r_id x) (g_val g) = false -> r_exitpt x = None ->
  mexec_row cf contained mc children fuel r x ev rn g =
    (Some HANDLED_GUARD_REJECT, rn, bump g [Cb (KGuard false) [] (r_id x) ev false (act rn)]).
Proof. exact mp11_rejected_row. Qed.
Print Assumptions C02_rejected_mp11.

(* cascades: leaving / starting a machine visits its regions in declaration order, one exit / entry per region *)
Theorem C02_exit_cascade_in_region_order : forall contained mc children fuel ev n r rn g,
  exit_regions contained mc children fuel ev n r rn g = iterM (exit_step contained mc children fuel ev) (seqn r n) rn g.
Proof. exact exit_regions_seq. Qed.
Print Assumptions C02_exit_cascade_in_region_order.

Theorem C02_entry_cascade_in_region_order : forall cf contained mc children fuel ev n r rn g,
  start_regions cf contained mc children fuel ev n r rn g = iterM (entry_step cf contained mc children fuel ev) (seqn r n) rn g.
Proof. exact start_regions_seq. Qed.
Print Assumptions C02_entry_cascade_in_region_order.

(* ---- leaving a machine, any nesting depth ---- *)
From Msm Require Import Lemmas_Quiesce Lemmas_Shape Lemmas_Cascade.

(* exit_spec / mexit_spec (Lemmas_Cascade.v) say what leaving a machine means: the active state of every region in
   region order; for a submachine state first its own active substates (recursively, so innermost first), then the
   submachine's exit behaviour, then its bookkeeping (history memory; back: deferred events unless history keeps them);
   backmp11 does not traverse a machine that was never entered.  With behaviours that only observe, the engines run
   exactly that, for every definition, depth, number of regions and history policy: same invocations in the same order
   with the same arguments, same resulting tree. *)
Theorem C02_exit_cascade_any_depth_back : forall cf parents, c_be cf <> Mp11 ->
  forall mc contained fuel ev rn g,
  wk mc rn -> g_plan g = [] -> g_up g = [] ->
  co_exit_pre (build cf parents contained mc) fuel ev rn g =
    (Some tt, snd (exit_spec mc ev rn), bump g (fst (exit_spec mc ev rn))).
Proof. exact back_exit_cascade. Qed.
Print Assumptions C02_exit_cascade_any_depth_back.

Theorem C02_exit_cascade_any_depth_mp11 : forall cf parents, c_be cf = Mp11 ->
  forall mc contained fuel ev rn g,
  wk mc rn -> g_plan g = [] -> g_up g = [] ->
  co_exit_pre (build cf parents contained mc) fuel ev rn g =
    (Some tt, snd (mexit_spec mc ev rn), bump g (fst (mexit_spec mc ev rn))).
Proof. exact mp11_exit_cascade. Qed.
Print Assumptions C02_exit_cascade_any_depth_mp11.

(* reading the specification: a submachine state's substates are older in the trace than its own exit behaviour *)
Theorem C02_exit_state_inner_first : forall (subs:list (option exit_fn)) ev s items rn (f:exit_fn) kn inner kn1,
  nth s subs None = Some f -> nth s (kids rn) None = Some kn -> f ev kn = (inner, kn1) ->
  exit_state subs ev s (items, rn) =
    (Cb KMExit [s] 0 ev false (act rn) :: map (push_path s) inner ++ items, set_kids rn (upd (kids rn) s (Some kn1))).
Proof. exact exit_state_sub. Qed.
Print Assumptions C02_exit_state_inner_first.

(* ---- on the specification function (Spec.v), which every configuration is proved to run on the core fragment
        (Properties_C01: C01_every_configuration_runs_the_specified_selection) ---- *)
From Msm Require Import Spec Lemmas_Core Lemmas_SpecPolicy.

(* an external transition between states of any kind (simple or submachines of any depth), under every switch policy:
   the source's exit cascade, then the action, then the target's entry cascade (the lists are newest first; E erases
   only the ids the behaviours read), and afterwards the region is on the target and nothing else of this level changed
   but what the two cascades did below the source and the target *)
Theorem C02_spec_external_order : forall pol mc r x ev c nxt, pol < 4 -> tgt_state (r_tgt x) = Some nxt ->
  let '(i1, c1) := sp_exit_state (sp_exit_subs mc) ev (r_src x) ([], c) in
  let '(i3, c4) := sp_enter_state (sp_enter_subs mc) ev nxt ([], c1) in
  E (fst (sp_take pol mc r x ev c)) =
    E (i3 ++ (match r_act x with ActCall => [Cb KAction [] (r_id x) ev false []] | _ => [] end) ++ i1) /\
  snd (sp_take pol mc r x ev c) = c_set_act c4 (upd (c_act c) r nxt).
Proof. exact sp_take_order. Qed.
Print Assumptions C02_spec_external_order.

(* an internal transition runs its action only and leaves the configuration untouched *)
Theorem C02_spec_internal : forall pol mc r x ev c, tgt_state (r_tgt x) = None ->
  sp_take pol mc r x ev c = (match r_act x with ActCall => [Cb KAction [] (r_id x) ev false (c_act c)] | _ => [] end, c).
Proof. exact sp_take_internal. Qed.
Print Assumptions C02_spec_internal.
