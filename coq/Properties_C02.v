(* Properties_C02.v - execution order of a transition: guard, exit, action, entry, then switch. *)
From Msm Require Import Run Lemmas_C19 Lemmas_Rows Lemmas_Regions.

(* external transition between simple states, back / back11: guard, source exit, action, target entry - each once,
   in this order (expected_items lists them most recent first) - and afterwards the region is at the target,
   every other region, the history, the queues and all submachine nodes are unchanged *)
Theorem C02_external_order_back : forall cf mc fuel r rid cur nxt ev rn g,
  plain_state mc nxt -> c_pol cf < 4 -> g_plan g = [] -> memb rid (g_val g) = true ->
  exec_row cf mc (no_children mc) fuel r (Row rid cur (TrEv (e_ty ev)) (TgState nxt) true ActCall None) ev rn g =
    (Some HANDLED_TRUE, set_act rn (upd (act rn) r nxt),
     Glob (expected_items (c_pol cf) r cur nxt rid ev (act rn) ++ g_tr g) (4 + g_cb g) [] (g_val g) (g_up g) (g_bad g)).
Proof. exact back_exec_row_observed. Qed.
Print Assumptions C02_external_order_back.

Theorem C02_external_order_mp11 : forall cf contained mc fuel r rid cur nxt ev rn g,
  plain_state mc nxt -> c_pol cf < 4 -> is_sub mc nxt = false -> state_has_completion mc nxt = false ->
  g_plan g = [] -> memb rid (g_val g) = true ->
  mexec_row cf contained mc (no_children mc) fuel r (Row rid cur (TrEv (e_ty ev)) (TgState nxt) true ActCall None) ev rn g =
    (Some HANDLED_TRUE, set_act rn (upd (act rn) r nxt),
     Glob (expected_items (c_pol cf) r cur nxt rid ev (act rn) ++ g_tr g) (4 + g_cb g) [] (g_val g) (g_up g) (g_bad g)).
Proof. exact mp11_exec_row_observed. Qed.
Print Assumptions C02_external_order_mp11.

(* an internal transition runs only its guard and action and leaves the whole runtime state untouched *)
Theorem C02_internal_back : forall cf mc children fuel r rid src ev rn g,
  g_plan g = [] -> memb rid (g_val g) = true ->
  exec_row cf mc children fuel r (Row rid src (TrEv (e_ty ev)) TgNone true ActCall None) ev rn g =
    (Some HANDLED_TRUE, rn, bump g [Cb KAction [] rid ev false (act rn); Cb (KGuard true) [] rid ev false (act rn)]).
Proof. exact back_internal_row. Qed.
Print Assumptions C02_internal_back.

Theorem C02_internal_mp11 : forall cf contained mc children fuel r rid src ev rn g,
  g_plan g = [] -> memb rid (g_val g) = true ->
  mexec_row cf contained mc children fuel r (Row rid src (TrEv (e_ty ev)) TgNone true ActCall None) ev rn g =
    (Some HANDLED_TRUE, rn, bump g [Cb KAction [] rid ev false (act rn); Cb (KGuard true) [] rid ev false (act rn)]).
Proof. exact mp11_internal_row. Qed.
Print Assumptions C02_internal_mp11.

(* a rejected guard causes no exit, action, entry or state change at all - for every kind of row *)
Theorem C02_rejected_back : forall cf mc children fuel r x ev rn g,
  g_plan g = [] -> r_guard x = true -> memb (r_id x) (g_val g) = false -> r_exitpt x = None ->
  exec_row cf mc children fuel r x ev rn g =
    (Some HANDLED_GUARD_REJECT, rn, bump g [Cb (KGuard false) [] (r_id x) ev false (act rn)]).
Proof. exact back_rejected_row. Qed.
Print Assumptions C02_rejected_back.

Theorem C02_rejected_mp11 : forall cf contained mc children fuel r x ev rn g,
  g_plan g = [] -> r_guard x = true -> memb (r_id x) (g_val g) = false -> r_exitpt x = None ->
  mexec_row cf contained mc children fuel r x ev rn g =
    (Some HANDLED_GUARD_REJECT, rn, bump g [Cb (KGuard false) [] (r_id x) ev false (act rn)]).
Proof. exact mp11_rejected_row. Qed.
Print Assumptions C02_rejected_mp11.

(* cascades: leaving / starting a machine visits its regions in declaration order, one exit / entry per region *)
Theorem C02_exit_cascade_in_region_order : forall mc children fuel ev n r rn g,
  exit_regions mc children fuel ev n r rn g = iterM (exit_step mc children fuel ev) (seqn r n) rn g.
Proof. exact exit_regions_seq. Qed.
Print Assumptions C02_exit_cascade_in_region_order.

Theorem C02_entry_cascade_in_region_order : forall cf mc children fuel ev n r rn g,
  start_regions cf mc children fuel ev n r rn g = iterM (entry_step cf mc children fuel ev) (seqn r n) rn g.
Proof. exact start_regions_seq. Qed.
Print Assumptions C02_entry_cascade_in_region_order.
