(* Properties_C03.v - active configuration integrity and introspection agreement (partial: see MANIFEST text). *)
From Msm Require Import Run Ids Lemmas_Regions Lemmas_C19.

(* documented numbering: every state that occurs in the table / as initial state / as explicitly created state gets
   exactly one id, ids are 0..n-1 by position, the first row's source is 0 *)
Theorem C03_ids_unique : forall mp11 mc extra, NoDup (doc_order mp11 mc extra).
Proof. exact doc_order_nodup. Qed.
Print Assumptions C03_ids_unique.

Theorem C03_ids_complete : forall mp11 mc extra s, In s (doc_order mp11 mc extra) <-> In s (mentioned mp11 mc extra).
Proof. exact doc_order_complete. Qed.
Print Assumptions C03_ids_complete.

Theorem C03_first_source_is_zero : forall mp11 mc extra x rest,
  m_rows mc = x :: rest -> hd_error (doc_order mp11 mc extra) = Some (r_src x).
Proof. exact doc_order_first. Qed.
Print Assumptions C03_first_source_is_zero.

(* a freshly constructed machine reports its initial states, one per region *)
Theorem C03_initial_configuration : forall mc, act (init_rnode mc) = m_inits mc /\ length (act (init_rnode mc)) = m_nreg mc.
Proof. intros [sts ini rows irows h]. cbn. auto. Qed.
Print Assumptions C03_initial_configuration.

(* taking a transition in region r rewrites slot r only: one active id per region before and after, the other
   regions' ids are untouched *)
Theorem C03_switch_touches_one_region : forall (a:list nat) r nxt,
  length (upd a r nxt) = length a /\ (forall j, j <> r -> nth j (upd a r nxt) 0 = nth j a 0) /\
  (r < length a -> nth r (upd a r nxt) 0 = nxt).
Proof.
  intros a r nxt. split; [apply upd_length|]. split.
  - intros j Hj. apply nth_upd_neq; auto.
  - intros H. apply nth_upd_eq; auto.
Qed.
Print Assumptions C03_switch_touches_one_region.

(* the active-id report of a level is the head of the snapshot; deeper entries exist only below active ids *)
Theorem C03_snapshot_head : forall mc rn path, hd_error (snapshot mc rn path) = Some (path, act rn).
Proof. intros [sts ini rows irows h] rn path. reflexivity. Qed.
Print Assumptions C03_snapshot_head.

(* stop() / leaving a machine: one exit per region, in region order *)
Theorem C03_stop_exits_each_region_once : forall contained mc children fuel ev n r rn g,
  exit_regions contained mc children fuel ev n r rn g = iterM (exit_step contained mc children fuel ev) (seqn r n) rn g.
Proof. exact exit_regions_seq. Qed.
Print Assumptions C03_stop_exits_each_region_once.

(* ---- the runtime tree keeps the shape of the definition ---- *)
From Msm Require Import Lemmas_Quiesce Lemmas_Shape.

(* wk mc rn: under every submachine state there is exactly one node, shaped like that submachine (recursively), and no
   node anywhere else.  Every operation - any engine and policy, any plan of throws and submissions, any fuel - keeps
   it, also when it is left through an exception; so it holds after every history on a fresh object: a submachine's
   configuration exists exactly where the definition has a submachine, at every depth *)
Theorem C03_tree_shape_kept_by_every_operation : forall cf parents root fuel rn o,
  wk root rn -> wk root (fst (run_op cf root (build cf parents false root) fuel rn o)).
Proof. exact run_op_wk. Qed.
Print Assumptions C03_tree_shape_kept_by_every_operation.

Theorem C03_tree_shape_always : forall cf parents root fuel l,
  wk root (final_state cf parents root fuel (init_rnode root) l).
Proof. exact history_wk. Qed.
Print Assumptions C03_tree_shape_always.

(* ---- configuration integrity as an invariant over every history (whole machines, every nesting depth) ---- *)
From Msm Require Import Spec Lemmas_Sim Lemmas_Core Lemmas_SpecMp11 Lemmas_SpecRun Lemmas_SpecFlags Lemmas_SpecInv.

(* `inv mc c`: every region of mc has one slot holding a state of that region, the history memory likewise, and the
   same holds in the sub-configuration under every submachine state - active or not - at every depth.
   `wfz`: the rows of the definition stay inside their source's region, internal rows have no target, the initial states
   are one per region (the documented well-formedness of a table with orthogonal regions).
   The specification function keeps `inv` through every operation, for every definition (not only the core fragment),
   every policy and every guard valuation: *)
Theorem C03_spec_integrity_invariant : forall stale pol mc, wfz mc -> forall l c, inv mc c -> inv mc (sp_final stale pol mc c l).
Proof. exact sp_final_inv. Qed.
Print Assumptions C03_spec_integrity_invariant.

Theorem C03_spec_fresh_object : forall mc, wfz mc -> inv mc (abs (init_rnode mc)).
Proof. exact inv_init. Qed.
Print Assumptions C03_spec_fresh_object.

(* the engines: after every history of start / events / stop on a core definition the runtime tree's configuration
   satisfies inv: exactly one active state per region, belonging to that region, at every level *)
Theorem C03_back_integrity_after_every_history : forall cf, c_be cf = Back -> forall parents, (forall e, nth e parents None = None) ->
  back_start_queues = true -> forall root, core root -> wfz root -> forall fuel, depth root + 2 <= fuel -> forall l, Forall plain_op l ->
  inv root (abs (final_rn cf root (build cf parents false root) fuel (init_rnode root) l)).
Proof. exact back_integrity_after_history. Qed.
Print Assumptions C03_back_integrity_after_every_history.

Theorem C03_mp11_integrity_after_every_history : forall cf, c_be cf = Mp11 -> forall parents, (forall e, nth e parents None = None) ->
  mp11_entry_throw_resets = true -> forall root, core root -> m_hist root = HNone -> wfz root ->
  forall fuel, depth root + 2 <= fuel -> forall l, bracketed false l ->
  inv root (abs (final_rn cf root (build cf parents false root) fuel (init_rnode root) l)).
Proof. exact mp11_integrity_after_history. Qed.
Print Assumptions C03_mp11_integrity_after_every_history.

Example C03_integrity_example : wfz (md_root ex_core_md) /\ core (md_root ex_core_md) /\ Forall plain_op ex_core_ops.
Proof. split; [exact ex_core_wfz|]. split; [exact ex_core_ok|]. repeat constructor; cbn; discriminate. Qed.

(* the same after every history that also stores events from outside and processes them (enqueue_event,
   execute_queued_events / process_event_pool, the single-step variants): the configuration the engine ends in is the one
   the specification with a pending list prescribes, and it satisfies the integrity invariant *)
From Msm Require Import Lemmas_SpecQueue Lemmas_SpecQueueInv.
Theorem C03_back_integrity_after_every_history_with_stored_events : forall cf, c_be cf = Back ->
  forall parents, (forall e, nth e parents None = None) -> back_start_queues = true ->
  forall root, core root -> wfz root -> forall l, Forall qplain_op l -> count_enq l + depth root + 3 <= default_fuel ->
  inv root (abs (final_rn cf root (build cf parents false root) default_fuel (init_rnode root) l)).
Proof. exact back_integrity_after_queue_history. Qed.
Print Assumptions C03_back_integrity_after_every_history_with_stored_events.

Theorem C03_mp11_integrity_after_every_history_with_stored_events : forall cf, c_be cf = Mp11 ->
  forall parents, (forall e, nth e parents None = None) -> mp11_entry_throw_resets = true ->
  forall root, core root -> m_hist root = HNone -> wfz root ->
  forall l, qbracketed false l -> 2 * count_enq l + depth root + 3 <= default_fuel ->
  inv root (abs (final_rn cf root (build cf parents false root) default_fuel (init_rnode root) l)).
Proof. exact mp11_integrity_after_queue_history. Qed.
Print Assumptions C03_mp11_integrity_after_every_history_with_stored_events.

Example C03_integrity_stored_events_example :
  wfz (md_root ex_core_md) /\ core (md_root ex_core_md) /\ Forall qplain_op ex_queue_ops /\ qbracketed false ex_queue_ops_mp11.
Proof.
  split; [exact ex_core_wfz|]. split; [exact ex_core_ok|]. split; [repeat constructor; cbn; discriminate|].
  cbn; repeat split; discriminate.
Qed.
