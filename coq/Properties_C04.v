(* Properties_C04.v - run-to-completion: no re-entrancy, FIFO, exactly-once event queue. *)
From Msm Require Import Run Lemmas_Rtc.

(* an event submitted from a behaviour while its machine is processing is stored at the back of the queue / pool:
   no behaviour runs, nothing else changes *)
Theorem C04_submission_is_stored_back : forall mc e rn g,
  blocked mc rn (e_ty e) = false -> processing rn = true ->
  cb_submit mc e rn g = (Some tt, set_msgq rn (msgq rn ++ [QEv e (bit_or SRC_DIRECT SRC_MSG_QUEUE) 0%Z false]), g).
Proof. exact back_submit_while_processing. Qed.
Print Assumptions C04_submission_is_stored_back.

Theorem C04_submission_is_stored_mp11 : forall cf mc children e rn g,
  mblocked cf mc children rn (e_ty e) = false -> processing rn = true ->
  mcb_submit cf mc children e rn g =
    (Some tt, set_msgq rn (msgq rn ++ [QEv e 0 (wrap_mp11 (curseq rn - 1)) false]), g).
Proof. exact mp11_submit_while_processing. Qed.
Print Assumptions C04_submission_is_stored_mp11.

(* the same for process_event itself when called on a machine that is processing *)
Theorem C04_no_interrupt_back : forall cf parents contained mc children fuel ev src rn g,
  blocked mc rn (e_ty ev) = false -> processing rn = true ->
  pei cf parents contained mc children (S fuel) ev src rn g =
    (Some HANDLED_TRUE, set_msgq rn (msgq rn ++ [QEv ev (bit_or SRC_DIRECT SRC_MSG_QUEUE) 0%Z false]), g).
Proof. exact back_pei_while_processing. Qed.
Print Assumptions C04_no_interrupt_back.

Theorem C04_no_interrupt_mp11 : forall cf parents contained mc children fuel ev info rn g,
  mblocked cf mc children rn (e_ty ev) = false -> processing rn = true -> info <> INFO_POOL ->
  mpei cf parents contained mc children (S fuel) ev info rn g =
    (Some HANDLED_DEFERRED, set_msgq rn (msgq rn ++ [QEv ev 0 (wrap_mp11 (curseq rn - 1)) false]), g).
Proof. exact mp11_pei_while_processing. Qed.
Print Assumptions C04_no_interrupt_mp11.

(* enqueue_event appends at the back *)
Theorem C04_enqueue_appends_back : forall e rn g,
  cb_enqueue e rn g = (Some tt, set_msgq rn (msgq rn ++ [QEv e SRC_MSG_QUEUE 0%Z false]), g).
Proof. exact back_enqueue. Qed.
Print Assumptions C04_enqueue_appends_back.

(* draining takes the oldest stored event first ... *)
Theorem C04_drain_oldest_first_back : forall pei_rec fuel e src z m rest rn g,
  msgq rn = QEv e src z m :: rest ->
  drain_msgq pei_rec (S fuel) rn g = bind (pei_rec e src) (fun _ => drain_msgq pei_rec fuel) (set_msgq rn rest) g.
Proof. exact back_drain_step. Qed.
Print Assumptions C04_drain_oldest_first_back.

(* the single-step variant (execute_single_queued_event) dispatches exactly the oldest stored event and leaves the
   others stored *)
Theorem C04_single_step_oldest_back : forall pei_rec e src z m rest rn g,
  msgq rn = QEv e src z m :: rest ->
  drain_one pei_rec rn g = bind (pei_rec e src) (fun _ => ret tt) (set_msgq rn rest) g.
Proof. exact back_drain_one. Qed.
Print Assumptions C04_single_step_oldest_back.

(* ... and dispatches every stored event exactly once, in storage order, leaving the queue empty (dispatch replaced
   by a recording stub; any queue length) *)
Theorem C04_drain_fifo_exactly_once_back : forall l fuel rn g, length l <= fuel -> msgq rn = ev_queue l ->
  drain_msgq stub fuel rn g =
    (Some tt, set_msgq rn [],
     Glob (rev (map (fun e => Res (e_pay e)) l) ++ g_tr g) (g_cb g) (g_plan g) (g_val g) (g_up g) (g_bad g)).
Proof. exact back_drain_fifo. Qed.
Print Assumptions C04_drain_fifo_exactly_once_back.

(* ---- the queue as a whole: refinement of an abstract run-to-completion queue ---- *)
From Msm Require Import Lemmas_Fifo.
From Coq Require Import Permutation.

(* back / back11: with a dispatcher that records the event it is given and raises further events (what behaviours do
   with process_event while the machine is processing) - any function `raises`, so any number of events raised to any
   depth - draining dispatches in exactly the order of the abstract queue "take the oldest, append what it raises";
   every stored occurrence is dispatched exactly once and the queue ends empty (fuel: any bound within which the abstract
   queue runs empty) *)
Theorem C04_back_queue_refines_fifo : forall raises fuel q rn g,
  msgq rn = ev_queue q -> snd (fifo raises fuel q) = [] ->
  drain_msgq (stubd raises) fuel rn g =
    (Some tt, set_msgq rn [],
     Glob (rev (map (fun e => Res (e_pay e)) (fst (fifo raises fuel q))) ++ g_tr g) (g_cb g) (g_plan g) (g_val g) (g_up g) (g_bad g)).
Proof. exact back_drain_refines_fifo. Qed.
Print Assumptions C04_back_queue_refines_fifo.

(* the abstract queue loses and duplicates nothing: stored + raised = dispatched + still stored *)
Theorem C04_fifo_conserves : forall raises fuel q,
  let '(d, r) := fifo raises fuel q in Permutation (q ++ flat_map raises d) (d ++ r).
Proof. exact fifo_conserves. Qed.
Print Assumptions C04_fifo_conserves.

(* backmp11: the event pool (marking, removal of dispatched cells, restart from the front, sequence counter) is the same
   abstract queue for n dispatches, provided no stored occurrence stays for a whole turn of the 16-bit sequence counter
   (ages_ok; at that boundary finding F6 applies, see C05) and no active state defers *)
Theorem C04_mp11_pool_refines_fifo : forall cf parents contained mc children raises,
  (forall rn ety, defers_active mc children rn ety = false) ->
  forall n q rn g p,
  (0 <= curseq rn < MW)%Z -> msgq rn = pool_items (curseq rn) q -> ages_ok n q -> (Z.of_nat n + 2 <= MW)%Z ->
  snd (mfifo raises n q) = [] ->
  pool_loop cf parents contained mc children (mstubd raises) (2 * n + 1) 0 p 0 rn g =
    (Some (p + length (fst (mfifo raises n q))),
     set_curseq (set_msgq rn []) ((curseq rn + Z.of_nat (length (fst (mfifo raises n q)))) mod MW)%Z,
     Glob (rev (map (fun e => Res (e_pay e)) (fst (mfifo raises n q))) ++ g_tr g) (g_cb g) (g_plan g) (g_val g) (g_up g) (g_bad g)).
Proof. exact mp11_pool_refines_fifo. Qed.
Print Assumptions C04_mp11_pool_refines_fifo.

(* ---- whole machines: events stored from outside ---- *)
From Msm Require Import Spec Lemmas_Sim Lemmas_Core Lemmas_SpecRun Lemmas_SpecQueue.

(* `sp_qop` extends the specification function (Spec.v) by one pending list: enqueue_event appends to it; start(),
   process_event (after the event's own step) and execute_queued_events dispatch what it holds oldest first, each stored
   occurrence as one complete step (`sp_drain`), and empty it; execute_single_queued_event dispatches exactly the oldest
   one and leaves the rest; stop() leaves it alone.  For every core definition, every
   history of these operations (behaviours only observe) and every guard valuation the back engine (either compile
   policy) is this function: every stored occurrence is dispatched exactly once, in storage order, never inside another
   step - same behaviour invocations, order, arguments and configurations. *)
Theorem C04_back_stored_events_exactly_once_in_order : forall cf md l,
  c_be cf = Back -> flat_events md -> core (md_root md) -> back_start_queues = true -> Forall qplain_op l ->
  count_enq l + depth (md_root md) + 3 <= default_fuel ->
  Forall2 step_ok (sp_qrun (c_pol cf) (md_root md) (abs (init_rnode (md_root md)), []) l) (run cf md l).
Proof. exact back_queue_is_spec. Qed.
Print Assumptions C04_back_stored_events_exactly_once_in_order.

Example C04_stored_events_example :
  core (md_root ex_core_md) /\ flat_events ex_core_md /\ Forall qplain_op ex_queue_ops /\
  count_enq ex_queue_ops + depth (md_root ex_core_md) + 3 <= default_fuel /\
  map (fun st => length (fst st)) (run (Cfg Back false 0 false) ex_core_md ex_queue_ops) = [0; 3; 0; 0; 4; 0; 1; 2; 0; 8].
Proof.
  split; [exact ex_core_ok|]. split; [intros [|e]; reflexivity|].
  split; [repeat constructor; cbn; discriminate|]. split; [vm_compute; repeat constructor | vm_compute; reflexivity].
Qed.

(* backmp11, same statement with its own reading of start(): `sp_qop_mp11` is `sp_qop` except that start() of a machine
   without history of its own empties the pending list instead of dispatching it (finding F28, refuted below) and that
   the entry behaviour of a machine started again reads the ids it was stopped in.  For every core definition whose
   outermost machine has no history, every history in which start() and stop() alternate and events are sent while
   the machine is started (enqueue_event at any time), every guard valuation and every backmp11 configuration: every
   occurrence stored while the machine is started is dispatched exactly once, in storage order, as a complete step, at
   the end of the next process_event or in the next process_event_pool; process_event_pool(1) dispatches exactly the
   oldest one (its cell stays behind marked and is removed by the next pass: Lm_process_pool1).  The bound on the number of stored events
   (default_fuel) keeps every occurrence far from a whole turn of the 16-bit sequence counter (finding F6). *)
Theorem C04_mp11_stored_events_exactly_once_in_order : forall cf md l,
  c_be cf = Mp11 -> flat_events md -> core (md_root md) -> m_hist (md_root md) = HNone -> mp11_entry_throw_resets = true ->
  qbracketed false l -> 2 * count_enq l + depth (md_root md) + 3 <= default_fuel ->
  Forall2 step_ok (sp_qrun_mp11 (c_pol cf) (md_root md) (abs (init_rnode (md_root md)), []) l) (run cf md l).
Proof. exact mp11_queue_is_spec. Qed.
Print Assumptions C04_mp11_stored_events_exactly_once_in_order.

Example C04_mp11_stored_events_example :
  core (md_root ex_core_md) /\ flat_events ex_core_md /\ m_hist (md_root ex_core_md) = HNone /\ qbracketed false ex_queue_ops_mp11 /\
  2 * count_enq ex_queue_ops_mp11 + depth (md_root ex_core_md) + 3 <= default_fuel /\
  map (fun st => length (fst st)) (run (Cfg Mp11 false 0 false) ex_core_md ex_queue_ops_mp11) = [0; 2; 0; 0; 4; 0; 1; 2; 0; 2; 0; 0; 6; 6; 0].
Proof.
  split; [exact ex_core_ok|]. split; [intros [|e]; reflexivity|]. split; [reflexivity|].
  split; [cbn; repeat split; discriminate|]. split; [vm_compute; repeat constructor | vm_compute; reflexivity].
Qed.

(* the full statement "none lost" is false of backmp11 (finding F28, confirmed on the library: replays/F28): an event
   stored while the machine is stopped is never dispatched - back dispatches it at the end of start() *)
Theorem C04_mp11_start_drops_stored_events_refuted :
  let md := ex_core_md in
  let l := [OEnqueue (Evt 4 1); OStart [1] []; ODrain [1] []] in
  flat_map fst (run (Cfg Back false 0 false) md l) <> [] /\
  filter (fun it => match it with Cb KAction _ _ _ _ _ => true | _ => false end) (flat_map fst (run (Cfg Back false 0 false) md l)) <> [] /\
  filter (fun it => match it with Cb KAction _ _ _ _ _ => true | _ => false end) (flat_map fst (run (Cfg Mp11 false 0 false) md l)) = [].
Proof. vm_compute. repeat split; discriminate. Qed.
Print Assumptions C04_mp11_start_drops_stored_events_refuted.
