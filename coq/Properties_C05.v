(* Properties_C05.v - deferred events: retained, re-offered in order, exactly once (back / back11 deferred queue). *)
From Msm Require Import Run Lemmas_Defer.
From Coq Require Import Permutation.

(* the restore-order sort neither drops nor duplicates a deferred event *)
Theorem C05_sort_keeps_all : forall cur l, Permutation (sort_desc cur l) l.
Proof. exact sort_desc_perm. Qed.
Print Assumptions C05_sort_keeps_all.

(* after the sort: the events re-queued during this pass first, then the ones not looked at yet, and inside each
   group the arrival order is kept - for every value cur of the sequence counter (no no-wrap side condition) *)
Theorem C05_sort_restores_arrival_order : forall cur l,
  Forall (fun q => is_new cur q = true \/ is_old cur q = true) l ->
  sort_desc cur l = filter (is_new cur) l ++ filter (is_old cur) l.
Proof. exact sort_desc_two_groups. Qed.
Print Assumptions C05_sort_restores_arrival_order.

(* the premise is what the engine maintains: the counter is 8 bit signed (regenerated from the header); an event
   deferred or re-queued gets sequence cur+1 (wrapped), whose distance to cur is 1 for EVERY counter value -
   including 127 -> -128 - and an untouched one has distance 0 *)
Theorem C05_requeued_is_new : forall c, (-128 <= c <= 127)%Z ->
  seq_dist c (wrap_back (c + 1)) = 1%Z /\ seq_dist c c = 0%Z /\ wrap_back c = c.
Proof. exact requeue_distance_spec. Qed.
Print Assumptions C05_requeued_is_new.

(* non-vacuity at the wrap-around: cur = 127, a1 re-queued with -128, a2 untouched with 127: a1 stays in front *)
Example C05_wrap_example :
  let a1 := QEv (Evt 5 1) 3 (-128)%Z false in let a2 := QEv (Evt 5 2) 3 127%Z false in
  sort_desc 127%Z [a2; a1] = [a1; a2] /\ is_new 127%Z a1 = true /\ is_old 127%Z a2 = true.
Proof. vm_compute. auto. Qed.

(* ---- backmp11: the boundary of the 16-bit sequence counter (finding F6) ---- *)
From Msm Require Import Lemmas_Fifo.
From Coq Require Import ZArith.

(* an occurrence that stays stored while the counter makes a whole turn carries the current sequence value again *)
Theorem C05_mp11_age_full_turn : forall c, ((c - MW) mod MW = c mod MW)%Z.
Proof. exact age_full_turn. Qed.
Print Assumptions C05_mp11_age_full_turn.

(* ... below that bound the pool is the abstract queue (C04_mp11_pool_refines_fifo); at the bound the unrestricted
   statement is refuted in the model exactly as in the library (pinned replay F6): the older occurrence (payload 1) is
   passed over and the younger one (payload 3) is dispatched first *)
Theorem C05_mp11_order_refuted_at_counter_turn :
  let mc := Machine [] [] [] [] HNone in
  let rn := RN [] [] [] [QEv (Evt 5 1) 0 7%Z false; QEv (Evt 7 3) 0 6%Z false] [] 7%Z false true in
  let '(_, _, g) := pool_loop (Cfg Mp11 false 0 false) [] false mc [] (mstubd (fun _ => [])) 10 0 0 0 rn (Glob [] 0 [] [] [] 0) in
  rev (g_tr g) = [Res 3; Res 1].
Proof. exact mp11_pool_overtakes_at_wrap. Qed.
Print Assumptions C05_mp11_order_refuted_at_counter_turn.

(* ---- finding F22: row-level deferral (Defer functor) in backmp11 re-offers same-type occurrences in reverse order ---- *)
(* Busy defers e4 by a Defer row, e6 leaves Busy, Ready handles e4.  e4 with payloads 1, 2, 3, then e6: the model of
   backmp11 - like the library (pinned replay F22) - runs Ready's action for payloads 3, 2, 1; back runs 1, 2, 3.
   The order clause of the property is refuted for backmp11 on this input; state-level deferral is not affected. *)
Example C05_mp11_action_deferred_order_refuted :
  let root := Machine [State KSimple None [] [] [] 0; State KSimple None [] [] [] 0] [0]
                      [Row 10 0 (TrEv 6) (TgState 1) false ActCall None; Row 11 0 (TrEv 4) TgNone false ActDefer None;
                       Row 13 1 (TrEv 4) TgNone false ActCall None] [] HNone in
  let md := MDef root [] in
  let ops := [OStart [] []; OProcess (Evt 4 1) [] []; OProcess (Evt 4 2) [] []; OProcess (Evt 4 3) [] []; OProcess (Evt 6 4) [] []] in
  let actions cf := flat_map (fun it => match it with Cb KAction _ 13 ev _ _ => [e_pay ev] | _ => [] end)
                             (fst (nth 4 (run cf md ops) ([], []))) in
  actions (Cfg Mp11 false 0 false) = [3; 2; 1] /\ actions (Cfg Back false 0 false) = [1; 2; 3].
Proof. vm_compute. split; reflexivity. Qed.
