(* Properties_C05.v - deferred events: retained, re-offered in order, exactly once (back / back11 deferred queue). *)
From Msm Require Import Run Lemmas_Defer.
From Coq Require Import Permutation.

(* the restore-order sort neither drops nor duplicates a deferred event *)
Theorem C05_sort_keeps_all : forall cur l, Permutation (sort_desc cur l) l.
Proof. exact sort_desc_perm. Qed.
Print Assumptions C05_sort_keeps_all.

(* after the sort: the events re-queued during this pass first, then the ones not looked at yet, and inside each
   group the arrival order is kept - for every value cur of the sequence counter (no no-wrap side condition) *)
Theorem C05_sort_restores_arrival_order : forall cur l,
  Forall (fun q => is_new cur q = true \/ is_old cur q = true) l ->
  sort_desc cur l = filter (is_new cur) l ++ filter (is_old cur) l.
Proof. exact sort_desc_two_groups. Qed.
Print Assumptions C05_sort_restores_arrival_order.

(* the premise is what the engine maintains: the counter is 8 bit signed (regenerated from the header); an event
   deferred or re-queued gets sequence cur+1 (wrapped), whose distance to cur is 1 for EVERY counter value -
   including 127 -> -128 - and an untouched one has distance 0 *)
Theorem C05_requeued_is_new : forall c, (-128 <= c <= 127)%Z ->
  seq_dist c (wrap_back (c + 1)) = 1%Z /\ seq_dist c c = 0%Z /\ wrap_back c = c.
Proof. exact requeue_distance_spec. Qed.
Print Assumptions C05_requeued_is_new.

(* non-vacuity at the wrap-around: cur = 127, a1 re-queued with -128, a2 untouched with 127: a1 stays in front *)
Example C05_wrap_example :
  let a1 := QEv (Evt 5 1) 3 (-128)%Z false in let a2 := QEv (Evt 5 2) 3 127%Z false in
  sort_desc 127%Z [a2; a1] = [a1; a2] /\ is_new 127%Z a1 = true /\ is_old 127%Z a2 = true.
Proof. vm_compute. auto. Qed.

(* ---- backmp11: the boundary of the 16-bit sequence counter (finding F6) ---- *)
From Msm Require Import Lemmas_Fifo.
From Coq Require Import ZArith.

(* an occurrence that stays stored while the counter makes a whole turn carries the current sequence value again *)
Theorem C05_mp11_age_full_turn : forall c, ((c - MW) mod MW = c mod MW)%Z.
Proof. exact age_full_turn. Qed.
Print Assumptions C05_mp11_age_full_turn.

(* ... below that bound the pool is the abstract queue (C04_mp11_pool_refines_fifo); at the bound the unrestricted
   statement is refuted in the model exactly as in the library (pinned replay F6): the older occurrence (payload 1) is
   passed over and the younger one (payload 3) is dispatched first *)
Theorem C05_mp11_order_refuted_at_counter_turn :
  let mc := Machine [] [] [] [] HNone in
  let rn := RN [] [] [] [QEv (Evt 5 1) 0 7%Z false; QEv (Evt 7 3) 0 6%Z false] [] 7%Z false true in
  let '(_, _, g) := pool_loop (Cfg Mp11 false 0 false) [] false mc [] (mstubd (fun _ => [])) 10 0 0 0 rn (Glob [] 0 [] [] [] 0) in
  rev (g_tr g) = [Res 3; Res 1].
Proof. exact mp11_pool_overtakes_at_wrap. Qed.
Print Assumptions C05_mp11_order_refuted_at_counter_turn.

(* ---- finding F22: row-level deferral (Defer functor) in backmp11 re-offers same-type occurrences in reverse order ---- *)
(* Busy defers e4 by a Defer row, e6 leaves Busy, Ready handles e4.  e4 with payloads 1, 2, 3, then e6: the model of
   backmp11 - like the library (pinned replay F22) - runs Ready's action for payloads 3, 2, 1; back runs 1, 2, 3.
   The order clause of the property is refuted for backmp11 on this input; state-level deferral is not affected. *)
Example C05_mp11_action_deferred_order_refuted :
  let root := Machine [State KSimple None [] [] [] 0; State KSimple None [] [] [] 0] [0]
                      [Row 10 0 (TrEv 6) (TgState 1) false ActCall None; Row 11 0 (TrEv 4) TgNone false ActDefer None;
                       Row 13 1 (TrEv 4) TgNone false ActCall None] [] HNone in
  let md := MDef root [] in
  let ops := [OStart [] []; OProcess (Evt 4 1) [] []; OProcess (Evt 4 2) [] []; OProcess (Evt 4 3) [] []; OProcess (Evt 6 4) [] []] in
  let actions cf := flat_map (fun it => match it with Cb KAction _ 13 ev _ _ => [e_pay ev] | _ => [] end)
                             (fst (nth 4 (run cf md ops) ([], []))) in
  actions (Cfg Mp11 false 0 false) = [3; 2; 1] /\ actions (Cfg Back false 0 false) = [1; 2; 3].
Proof. vm_compute. split; reflexivity. Qed.

(* backmp11's pool while a deferring configuration stays active (the dispatcher is a stub that records the payload and
   leaves the configuration alone): one pass of the pool loop dispatches exactly the stored occurrences whose type the
   configuration does not defer, oldest first, each once (`filter ndfd`), and keeps the deferred ones in the pool -
   unmarked, in arrival order, with their payloads and stamps (`filter dfd`) - however many others are dispatched, as
   long as no occurrence stays stored for a whole turn of the 16-bit counter (`ages_ok`; beyond it finding F6).
   K: the deferred occurrences the loop has already passed. *)
Theorem C05_mp11_pool_keeps_deferred_in_order : forall cf parents contained mc children (D:nat -> bool) conf0,
  (forall rn ety, conf_of rn = conf0 -> defers_active mc children rn ety = D ety) ->
  forall R K f rn g p, conf_of rn = conf0 -> (0 <= curseq rn < MW)%Z -> msgq rn = pool_items (curseq rn) (K ++ R) ->
    Forall (fun x => dfd D x = true) K -> ages_ok (length R) (K ++ R) -> length R * (length K + length R + 3) + 1 <= f ->
    pool_loop cf parents contained mc children (mstubd (fun _ => [])) f (length K) p 0 rn g =
      (Some (p + length (filter (ndfd D) R)),
       set_curseq (set_msgq rn (pool_items (curseq rn) (K ++ filter (dfd D) R)))
                  ((curseq rn + Z.of_nat (length (filter (ndfd D) R))) mod MW)%Z,
       Glob (rev (map (fun x => Res (e_pay (fst x))) (filter (ndfd D) R)) ++ g_tr g) (g_cb g) (g_plan g) (g_val g) (g_up g) (g_bad g)).
Proof. exact mp11_pool_keeps_deferred. Qed.
Print Assumptions C05_mp11_pool_keeps_deferred_in_order.

(* the hypotheses are met: a machine whose active state 0 defers e5, a pool of five occurrences stored at different
   times; e5 with payloads 1 and 4 stay, in that order, the others are dispatched 2, 3, 5 *)
Example C05_mp11_pool_keeps_deferred_example :
  let mc := Machine [State KSimple None [] [5] [] 0; State KSimple None [] [] [] 0] [0] [] [] HNone in
  let D := fun ety => Nat.eqb ety 5 in
  let rn := RN [0] [None; None] [0] (pool_items 7 [(Evt 5 1, 4); (Evt 6 2, 3); (Evt 4 3, 3); (Evt 5 4, 2); (Evt 6 5, 1)]) [] 7 false true in
  (forall rn' ety, conf_of rn' = conf_of rn -> defers_active mc [None; None] rn' ety = D ety) /\
  let '(r, rn', g) := pool_loop (Cfg Mp11 false 0 false) [] false mc [None; None] (mstubd (fun _ => [])) 60 0 0 0 rn (Glob [] 0 [] [] [] 0) in
  r = Some 3 /\ rev (g_tr g) = [Res 2; Res 3; Res 5] /\ msgq rn' = pool_items 7 [(Evt 5 1, 4); (Evt 5 4, 2)].
Proof.
  cbn zeta. split.
  - intros rn' ety H. unfold conf_of in H. injection H as Ha Hk Hr.
    unfold defers_active, active_any. rewrite Hr, Ha. cbn. rewrite orb_false_r. destruct (Nat.eqb_spec ety 5) as [->|Hn]; reflexivity.
  - vm_compute. repeat split; reflexivity.
Qed.
