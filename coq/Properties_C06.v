(* Properties_C06.v - orthogonal regions: every region once, in order; result / no_transition contract. *)
From Msm Require Import Run Lemmas_Chain Lemmas_Rows Lemmas_Regions.

(* the event is offered to the regions 0,1,...,n-1 - each exactly once, in this order, each reacting from its own
   active id at that moment - and the codes are OR-ed (back / back11 / favor_compile_time) *)
Theorem C06_regions_once_in_order_back : forall cf parents contained mc children fuel ev n r acc rn g,
  regions_loop cf parents contained mc children fuel ev n r acc rn g =
  seq_or (region_step cf parents contained mc children fuel ev) (seqn r n) acc rn g.
Proof. exact regions_loop_seq. Qed.
Print Assumptions C06_regions_once_in_order_back.

Theorem C06_regions_once_in_order_mp11 : forall cf parents contained mc children fuel ev n r acc rn g,
  mregions_loop cf parents contained mc children fuel ev n r acc rn g =
  seq_or (mregion_step cf parents contained mc children fuel ev) (seqn r n) acc rn g.
Proof. exact mregions_loop_seq. Qed.
Print Assumptions C06_regions_once_in_order_mp11.

Theorem C06_region_indices : forall n r, NoDup (seqn 0 n) /\ (In r (seqn 0 n) <-> r < n).
Proof. intros n r. split; [apply seqn_nodup|]. rewrite seqn_in. lia. Qed.
Print Assumptions C06_region_indices.

(* OR of two result codes: handled iff one of them handled, zero iff both zero *)
Theorem C06_or_of_codes : forall a b, a < 8 -> b < 8 ->
  handled (bit_or a b) = (handled a || handled b) /\
  consumed (bit_or a b) = (consumed a || consumed b) /\
  (bit_or a b = 0 <-> a = 0 /\ b = 0) /\ bit_or a b < 8.
Proof. exact or_bits_spec. Qed.
Print Assumptions C06_or_of_codes.

(* no_transition: exactly when the code is zero and the event is not a completion event - once per region, in
   region order, with that region's active id, on the machine the call was made on (never on a submachine that
   merely got the event forwarded); nothing else happens; the runtime state is untouched *)
Theorem C06_no_transition_back : forall contained mc ev direct h rn g,
  g_plan g = [] ->
  nt_phase contained mc ev direct h rn g =
    (Some tt, rn,
     if (negb contained || direct) && Nat.eqb h 0 && negb (Nat.eqb (e_ty ev) EV_NONE)
     then bump g (nt_items ev (act rn) (act rn)) else g).
Proof. exact back_nt_phase. Qed.
Print Assumptions C06_no_transition_back.

Theorem C06_no_transition_mp11 : forall cf mc children ev info res rn g,
  g_plan g = [] ->
  mnt_phase cf mc children ev info res rn g =
    (Some tt, rn,
     if Nat.eqb res 0 && negb (Nat.eqb info INFO_SUBMACHINE)
     then bump g (nt_items ev (act rn) (act rn)) else g).
Proof. exact mp11_nt_phase. Qed.
Print Assumptions C06_no_transition_mp11.

(* ---- on the specification function (Spec.v), which the engines are proved to be on the core fragment
        (Properties_C01: C01_back_run_is_the_specified_selection, C01_mp11_run_is_the_specified_selection) ---- *)
From Msm Require Import Spec Lemmas_Core Lemmas_SpecProps.

(* no_transition: exactly when no row was taken and no guard rejected at any level, once per region, after the step *)
Theorem C06_spec_no_transition_iff_nothing_matched : forall pol mc ev val c,
  let o := sp_level pol mc ev val c in
  o_taken o = false -> o_rejected o = false ->
  sp_process pol mc ev val c =
    Out false false (rev (map (fun s => Cb KNoTrans [] s ev false (c_act (o_conf o))) (c_act (o_conf o))) ++ o_items o) (o_conf o).
Proof. exact sp_process_no_transition. Qed.
Print Assumptions C06_spec_no_transition_iff_nothing_matched.

Theorem C06_spec_no_report_when_taken_or_rejected : forall pol mc ev val c,
  let o := sp_level pol mc ev val c in
  o_taken o = true \/ o_rejected o = true -> sp_process pol mc ev val c = o.
Proof. exact sp_process_handled. Qed.
Print Assumptions C06_spec_no_report_when_taken_or_rejected.

(* the machine's own internal table is tried only if no region took a transition *)
Theorem C06_spec_level : forall pol mc ev val c,
  sp_level pol mc ev val c =
    let o := sp_regions pol mc (sp_level_subs pol mc) ev val c in
    if o_taken o then o
    else (let o2 := sp_rows pol mc 0 ev val (rev (filter (sp_matches (e_ty ev)) (m_irows mc))) (o_conf o) in
          Out (o_taken o2) (o_rejected o || o_rejected o2) (o_items o2 ++ o_items o) (o_conf o2)).
Proof. exact sp_level_unfold. Qed.
Print Assumptions C06_spec_level.
