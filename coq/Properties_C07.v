(* Properties_C07.v - hierarchy: inner first, bubbling, single consumption, inactive submachines are never touched. *)
From Msm Require Import Run Lemmas_Chain Lemmas_C01 Lemmas_Frame Lemmas_Regions.

(* an event reaches a submachine before the enclosing machine's rows on that submachine state *)
Theorem C07_submachine_first : forall cf parents mc children s ety x,
  In (CRow x) (cell_items cf parents mc children s ety) ->
  forwards cf parents children s ety = true -> state_defers mc s ety = false ->
  before (cell_items cf parents mc children s ety) CFrow (CRow x).
Proof. exact frow_first. Qed.
Print Assumptions C07_submachine_first.

(* bubbling and single consumption: the enclosing rows are tried exactly when the codes of everything before them -
   in particular the submachine's - are not consumed; once something consumed the event nothing after it runs *)
Theorem C07_bubble_iff_not_consumed : forall cf contained mc children fuel r s ev l rn g c rn' g',
  c_fct cf = false ->
  run_cell cf contained mc children fuel r s ev l rn g = (Some c, rn', g') ->
  exists cs,
    exec_first (exec_item cf contained mc children fuel r s ev) (length cs) l rn g = (Some tt, rn', g') /\
    length cs <= length l /\
    (Forall (fun x => x < 8) cs ->
       (length cs < length l -> exists cs0 c0, cs = cs0 ++ [c0] /\ consumed c0 = true /\ Forall (fun x => consumed x = false) cs0) /\
       (length cs = length l -> Forall (fun x => consumed x = false) (removelast cs))).
Proof. exact run_cell_prefix. Qed.
Print Assumptions C07_bubble_iff_not_consumed.

(* whatever runs inside the submachine under state s, no other submachine's runtime node, and nothing of the
   enclosing level's own state, is touched: a submachine that is not the one addressed never reacts *)
Theorem C07_other_submachines_untouched : forall (A:Type) (s:nat) (d:A) (m:M A) rn g r rn' g',
  lift_child s d m rn g = (r, rn', g') ->
  act rn' = act rn /\ hist rn' = hist rn /\ msgq rn' = msgq rn /\ defq rn' = defq rn /\
  curseq rn' = curseq rn /\ processing rn' = processing rn /\ running rn' = running rn /\
  (forall j, j <> s -> nth j (kids rn') None = nth j (kids rn) None) /\
  exists added, g_tr g' = added ++ g_tr g.
Proof. exact @lift_child_frame. Qed.
Print Assumptions C07_other_submachines_untouched.

(* leaving a machine exits the active state of each region in region order (for a submachine state that is its whole
   cascade, recursively) *)
Theorem C07_exit_cascade : forall contained mc children fuel ev n r rn g,
  exit_regions contained mc children fuel ev n r rn g = iterM (exit_step contained mc children fuel ev) (seqn r n) rn g.
Proof. exact exit_regions_seq. Qed.
Print Assumptions C07_exit_cascade.

(* ---- leaving a submachine, any nesting depth (the specification and its proof: Lemmas_Cascade.v, see also C02) ---- *)
From Msm Require Import Lemmas_Quiesce Lemmas_Shape Lemmas_Cascade Lemmas_Rows.

(* the substates of a submachine state (recursively, innermost first) are exited before the submachine itself; nothing
   else runs: the trace is exactly exit_spec's, for every definition and depth *)
Theorem C07_leaving_exits_substates_first_back : forall cf parents, c_be cf <> Mp11 ->
  forall mc contained fuel ev rn g,
  wk mc rn -> g_plan g = [] -> g_up g = [] ->
  co_exit_pre (build cf parents contained mc) fuel ev rn g =
    (Some tt, snd (exit_spec mc ev rn), bump g (fst (exit_spec mc ev rn))).
Proof. exact back_exit_cascade. Qed.
Print Assumptions C07_leaving_exits_substates_first_back.

Theorem C07_leaving_exits_substates_first_mp11 : forall cf parents, c_be cf = Mp11 ->
  forall mc contained fuel ev rn g,
  wk mc rn -> g_plan g = [] -> g_up g = [] ->
  co_exit_pre (build cf parents contained mc) fuel ev rn g =
    (Some tt, snd (mexit_spec mc ev rn), bump g (fst (mexit_spec mc ev rn))).
Proof. exact mp11_exit_cascade. Qed.
Print Assumptions C07_leaving_exits_substates_first_mp11.

(* ---- on the specification function (Spec.v), which the engines are proved to be on the core fragment
        (Properties_C01: C01_back_run_is_the_specified_selection, C01_mp11_run_is_the_specified_selection) ---- *)
From Msm Require Import Spec Lemmas_Core Lemmas_SpecProps.

(* a transition taken inside an active submachine keeps the enclosing machine's rows for that state from being tried *)
Theorem C07_spec_consumed_inside_blocks_outside : forall pol mc subs ev val r c f k,
  nth (nth r (c_act c) 0) subs None = Some f -> nth (nth r (c_act c) 0) (c_kids c) None = Some k ->
  o_taken (f ev val k) = true ->
  sp_region pol mc subs ev val r c =
    Out true (o_rejected (f ev val k)) (map (push_path (nth r (c_act c) 0)) (o_items (f ev val k)))
        (c_set_kid c (nth r (c_act c) 0) (o_conf (f ev val k))).
Proof. exact sp_region_inner_first. Qed.
Print Assumptions C07_spec_consumed_inside_blocks_outside.

(* nothing taken inside: the enclosing rows for the submachine state are tried next *)
Theorem C07_spec_not_consumed_bubbles : forall pol mc subs ev val r c f k,
  nth (nth r (c_act c) 0) subs None = Some f -> nth (nth r (c_act c) 0) (c_kids c) None = Some k ->
  o_taken (f ev val k) = false ->
  let s := nth r (c_act c) 0 in
  let o2 := sp_rows pol mc r ev val (sp_candidates mc s (e_ty ev)) (c_set_kid c s (o_conf (f ev val k))) in
  sp_region pol mc subs ev val r c =
    Out (o_taken o2) (o_rejected (f ev val k) || o_rejected o2) (o_items o2 ++ map (push_path s) (o_items (f ev val k))) (o_conf o2).
Proof. exact sp_region_bubbles. Qed.
Print Assumptions C07_spec_not_consumed_bubbles.
