(* Properties_C08.v - history policies restore exactly the documented configuration. *)
From Msm Require Import Run Lemmas_Rtc Lemmas_Frame.

(* back / back11: exit followed by any kind of (re-)entry - plain, explicit, fork, entry point - starts from:
   the initial states (no history); the states active at the last exit (always); those iff the entering event's
   type is in the list, otherwise the initial states (shallow) *)
Theorem C08_exit_then_entry_back : forall mc ev_exit ev_in k rn g g2,
  let rn1 := snd (fst (do_exit_post mc ev_exit rn g)) in
  let rn2 := snd (fst (do_entry_pre mc ev_in k rn1 g2)) in
  act rn2 = match m_hist mc with
            | HNone => m_inits mc
            | HAlways => act rn
            | HShallow evs => if memb (e_ty ev_in) evs then act rn else m_inits mc
            end
  /\ processing rn2 = true.
Proof. exact back_history_cycle. Qed.
Print Assumptions C08_exit_then_entry_back.

Theorem C08_exit_then_entry_mp11 : forall mc ev_exit ev_in rn g g2,
  let rn1 := snd (fst (mon_exit_post mc ev_exit rn g)) in
  let rn2 := snd (fst (history_set_ids mc (e_ty ev_in) rn1 g2)) in
  act rn2 = match m_hist mc with
            | HNone => m_inits mc
            | HAlways => act rn
            | HShallow evs => if memb (e_ty ev_in) evs then act rn else m_inits mc
            end.
Proof. exact mp11_history_cycle. Qed.
Print Assumptions C08_exit_then_entry_mp11.

(* first entry: the initial states, under every policy *)
Theorem C08_first_entry_back : forall mc ev k g,
  let rn2 := snd (fst (do_entry_pre mc ev k (init_rnode mc) g)) in act rn2 = m_inits mc.
Proof. exact back_first_entry. Qed.
Print Assumptions C08_first_entry_back.

(* the memory is private to each submachine object: whatever runs in the submachine under state s leaves the
   history (and everything else) of the enclosing machine and of all other submachines untouched *)
Theorem C08_memory_private : forall (A:Type) (s:nat) (d:A) (m:M A) rn g r rn' g',
  lift_child s d m rn g = (r, rn', g') ->
  hist rn' = hist rn /\ (forall j, j <> s -> nth j (kids rn') None = nth j (kids rn) None).
Proof.
  intros A s d m rn g r rn' g' H. destruct (lift_child_frame s d m rn g r rn' g' H) as (_ & Hh & _ & _ & _ & _ & _ & Hk & _).
  auto.
Qed.
Print Assumptions C08_memory_private.

(* ---- on the specification function (Spec.v), which every configuration is proved to run on the core fragment - any
        history policy on every submachine, any nesting depth (Properties_C01: C01_every_configuration_runs_the_specified_selection) ---- *)
From Msm Require Import Spec Lemmas_Core Lemmas_SpecProps.

(* leaving a machine and entering it again by an event of type ety: the regions are placed on the initial states
   (no history), on the states active when it was left (always), or on those iff ety is in the policy's list (shallow) *)
Theorem C08_spec_exit_entry_cycle : forall mc c ety,
  sp_hist_entry mc (sp_post_exit mc c) ety =
  match m_hist mc with
  | HNone => m_inits mc
  | HAlways => c_act c
  | HShallow evs => if memb ety evs then c_act c else m_inits mc
  end.
Proof. exact sp_history_cycle. Qed.
Print Assumptions C08_spec_exit_entry_cycle.
