(* Properties_C09.v - explicit entry, fork, entry point and exit point. *)
From Msm Require Import Run Lemmas_Misc Lemmas_Rtc.

(* the outer transition leaving an exit point can fire only while that exit point is an active state of the
   submachine: otherwise the row does nothing at all (no guard, no behaviour, code 0) *)
Theorem C09_exit_row_needs_active_exit_point_back : forall cf contained mc children fuel r x ev rn g nxt p,
  tgt_state (r_tgt x) = Some nxt -> r_exitpt x = Some p -> exit_pt_active rn (r_src x) p = false ->
  exec_row cf contained mc children fuel r x ev rn g = (Some HANDLED_FALSE, rn, g).
Proof. exact back_exitpt_inactive. Qed.
Print Assumptions C09_exit_row_needs_active_exit_point_back.

Theorem C09_exit_row_needs_active_exit_point_mp11 : forall cf contained mc children fuel r x ev rn g nxt p,
  tgt_state (r_tgt x) = Some nxt -> r_exitpt x = Some p -> exit_pt_active rn (r_src x) p = false ->
  mexec_row cf contained mc children fuel r x ev rn g = (Some HANDLED_FALSE, rn, g).
Proof. exact mp11_exitpt_inactive. Qed.
Print Assumptions C09_exit_row_needs_active_exit_point_mp11.

Theorem C09_exit_point_active_means : forall rn s p,
  exit_pt_active rn s p = true <-> exists kn, nth s (kids rn) None = Some kn /\ In p (act kn).
Proof. exact exit_pt_active_iff. Qed.
Print Assumptions C09_exit_point_active_means.

(* entering an exit point with an event that converts to the exit point's event (every event of the definition does;
   front::none, the completion event, does not): its entry behaviour, then the converted event (exit point's event type, original payload) goes to the
   enclosing machine *)
Theorem C09_exit_point_forwards_converted_event : forall cf contained mc children fuel s ev ety rn g,
  child children s = None -> s_kind (get_state mc s) = KExitPt ety -> g_plan g = [] -> e_ty ev <> EV_NONE ->
  exec_entry cf contained mc children fuel s ev EkPlain rn g =
    (Some tt, rn, Glob (Cb KEntry [] s ev false (act rn) :: g_tr g) (S (g_cb g)) [] (g_val g)
                       (g_up g ++ [Evt ety (e_pay ev)]) (g_bad g)).
Proof. exact back_enter_exit_point. Qed.
Print Assumptions C09_exit_point_forwards_converted_event.

(* explicit entry / fork: exactly the named substates are written into their declared regions, nothing else *)
Theorem C09_named_regions_only : forall (zone:nat -> nat) subs rn g,
  exists rn', iterM (fun s => set_act_at (zone s) s) subs rn g = (Some tt, rn', g) /\
              act rn' = fold_left (fun a s => upd a (zone s) s) subs (act rn) /\ kids rn' = kids rn /\ hist rn' = hist rn.
Proof. exact set_named_regions. Qed.
Print Assumptions C09_named_regions_only.

(* the regions not named by the target follow the history policy, also for explicit / fork / entry-point entries *)
Theorem C09_other_regions_follow_history_back : forall mc ev_exit ev_in k rn g g2,
  let rn1 := snd (fst (do_exit_post mc ev_exit rn g)) in
  let rn2 := snd (fst (do_entry_pre mc ev_in k rn1 g2)) in
  act rn2 = match m_hist mc with
            | HNone => m_inits mc
            | HAlways => act rn
            | HShallow evs => if memb (e_ty ev_in) evs then act rn else m_inits mc
            end
  /\ processing rn2 = true.
Proof. exact back_history_cycle. Qed.
Print Assumptions C09_other_regions_follow_history_back.
