(* Properties_C10.v - completion (anonymous) transitions. *)
From Msm Require Import Run Lemmas_Rtc Lemmas_C01 Lemmas_Chain.

(* completion processing never calls no_transition (back / back11) *)
Theorem C10_no_no_transition_back : forall contained mc direct h rn g,
  nt_phase contained mc (Evt EV_NONE 0) direct h rn g = (Some tt, rn, g).
Proof. exact back_completion_no_nt. Qed.
Print Assumptions C10_no_no_transition_back.

(* backmp11: entering a simple state with completion rows puts its completion occurrence at the very front of the
   pool - before every queued, deferred or later-submitted event *)
Theorem C10_completion_before_everything_mp11 : forall mc s r rn g,
  is_sub mc s = false -> state_has_completion mc s = true ->
  on_state_entry_completed mc s r rn g = (Some tt, set_msgq rn (QCompl s r false :: msgq rn), g).
Proof. exact mp11_completion_first. Qed.
Print Assumptions C10_completion_before_everything_mp11.

Theorem C10_only_simple_sources_mp11 : forall mc s r rn g,
  is_sub mc s = true \/ state_has_completion mc s = false ->
  on_state_entry_completed mc s r rn g = (Some tt, rn, g).
Proof. exact mp11_no_completion_for_others. Qed.
Print Assumptions C10_only_simple_sources_mp11.

(* conflicting completion rows are resolved by the usual table priority: they are the candidates of the cell for the
   completion event type, so C01's order theorems apply verbatim *)
Theorem C10_priority_back : forall cf parents mc s x y,
  before (m_rows mc) x y -> r_src x = s -> r_src y = s ->
  row_matches cf parents EV_NONE x = true -> row_matches cf parents EV_NONE y = true ->
  before (table_rows cf parents mc s EV_NONE) y x.
Proof. intros. apply table_rows_last_declared_first; auto. Qed.
Print Assumptions C10_priority_back.

Theorem C10_priority_mp11 : forall cf parents mc s x y,
  before (m_rows mc) x y -> r_src x = s -> r_src y = s ->
  mrow_matches cf parents EV_NONE x = true -> mrow_matches cf parents EV_NONE y = true ->
  before (completion_rows cf parents mc s) y x.
Proof. intros. unfold completion_rows. apply mtable_rows_last_declared_first; auto. Qed.
Print Assumptions C10_priority_mp11.

(* a completion row is a candidate only for the completion event, never for an ordinary one, and vice versa *)
Theorem C10_trigger_separation : forall parents k ety,
  trig_matches parents k TrNone ety = Nat.eqb ety EV_NONE /\
  (forall e, trig_matches parents k (TrEv e) EV_NONE = false) /\ trig_matches parents k TrAny EV_NONE = false.
Proof.
  intros. repeat split; cbn; auto. destruct k; reflexivity.
Qed.
Print Assumptions C10_trigger_separation.
