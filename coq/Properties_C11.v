(* Properties_C11.v - terminate and interrupt states block event processing. *)
From Msm Require Import Run Lemmas_Rtc.

(* a blocked machine: no behaviour, no queueing, no state change, for every event, source and state *)
Theorem C11_blocked_is_silent_back : forall cf parents contained mc children fuel ev src rn g,
  blocked mc rn (e_ty ev) = true ->
  pei cf parents contained mc children (S fuel) ev src rn g = (Some HANDLED_TRUE, rn, g).
Proof. exact back_pei_blocked. Qed.
Print Assumptions C11_blocked_is_silent_back.

Theorem C11_blocked_is_silent_mp11 : forall cf parents contained mc children fuel ev info rn g,
  mblocked cf mc children rn (e_ty ev) = true ->
  mpei cf parents contained mc children (S fuel) ev info rn g = (Some HANDLED_TRUE, rn, g).
Proof. exact mp11_pei_blocked. Qed.
Print Assumptions C11_blocked_is_silent_mp11.

(* a terminate state that is the active state of any region blocks every event type *)
Theorem C11_terminate_blocks_all_back : forall mc rn ety s,
  In s (act rn) -> is_term_state (get_state mc s) = true -> blocked mc rn ety = true.
Proof. exact back_blocked_by_terminate. Qed.
Print Assumptions C11_terminate_blocks_all_back.

Theorem C11_terminate_blocks_all_mp11 : forall cf mc children rn ety,
  has_blocking mc = true -> term_active mc children rn = true -> mblocked cf mc children rn ety = true.
Proof. exact mp11_blocked_by_terminate. Qed.
Print Assumptions C11_terminate_blocks_all_mp11.

(* an interrupt state blocks exactly the event types that are not end-interrupt types of an active interrupt state *)
Theorem C11_interrupt_blocks_all_but_end_back : forall mc rn ety,
  has_blocking mc = true ->
  flag_or mc rn is_term_state = false -> flag_or mc rn is_intr_state = true ->
  blocked mc rn ety = negb (flag_or mc rn (fun st => ends_intr st ety)).
Proof. exact back_blocked_by_interrupt. Qed.
Print Assumptions C11_interrupt_blocks_all_but_end_back.

(* events submitted by behaviours while the machine is blocked are swallowed, not stored: nothing is replayed later *)
Theorem C11_swallowed_not_replayed_back : forall mc e rn g,
  blocked mc rn (e_ty e) = true -> cb_submit mc e rn g = (Some tt, rn, g).
Proof. exact back_submit_blocked. Qed.
Print Assumptions C11_swallowed_not_replayed_back.

Theorem C11_swallowed_not_replayed_mp11 : forall cf mc children e rn g,
  mblocked cf mc children rn (e_ty e) = true -> mcb_submit cf mc children e rn g = (Some tt, rn, g).
Proof. exact mp11_submit_blocked. Qed.
Print Assumptions C11_swallowed_not_replayed_mp11.
