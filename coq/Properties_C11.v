(* Properties_C11.v - terminate and interrupt states block event processing. *)
From Msm Require Import Run Lemmas_Rtc.

(* a blocked machine: no behaviour, no queueing, no state change, for every event, source and state *)
Theorem C11_blocked_is_silent_back : forall cf parents contained mc children fuel ev src rn g,
  blocked mc rn (e_ty ev) = true ->
  pei cf parents contained mc children (S fuel) ev src rn g = (Some HANDLED_TRUE, rn, g).
Proof. exact back_pei_blocked. Qed.
Print Assumptions C11_blocked_is_silent_back.

Theorem C11_blocked_is_silent_mp11 : forall cf parents contained mc children fuel ev info rn g,
  mblocked cf mc children rn (e_ty ev) = true ->
  mpei cf parents contained mc children (S fuel) ev info rn g = (Some HANDLED_TRUE, rn, g).
Proof. exact mp11_pei_blocked. Qed.
Print Assumptions C11_blocked_is_silent_mp11.

(* a terminate state that is the active state of any region blocks every event type *)
Theorem C11_terminate_blocks_all_back : forall mc rn ety s,
  In s (act rn) -> is_term_state (get_state mc s) = true -> blocked mc rn ety = true.
Proof. exact back_blocked_by_terminate. Qed.
Print Assumptions C11_terminate_blocks_all_back.

Theorem C11_terminate_blocks_all_mp11 : forall cf mc children rn ety,
  has_blocking mc = true -> term_active mc children rn = true -> mblocked cf mc children rn ety = true.
Proof. exact mp11_blocked_by_terminate. Qed.
Print Assumptions C11_terminate_blocks_all_mp11.

(* an interrupt state blocks exactly the event types that are not end-interrupt types of an active interrupt state *)
Theorem C11_interrupt_blocks_all_but_end_back : forall mc rn ety,
  has_blocking mc = true ->
  flag_or mc rn is_term_state = false -> flag_or mc rn is_intr_state = true ->
  blocked mc rn ety = negb (flag_or mc rn (fun st => ends_intr st ety)).
Proof. exact back_blocked_by_interrupt. Qed.
Print Assumptions C11_interrupt_blocks_all_but_end_back.

(* events submitted by behaviours while the machine is blocked are swallowed, not stored: nothing is replayed later *)
Theorem C11_swallowed_not_replayed_back : forall mc e rn g,
  blocked mc rn (e_ty e) = true -> cb_submit mc e rn g = (Some tt, rn, g).
Proof. exact back_submit_blocked. Qed.
Print Assumptions C11_swallowed_not_replayed_back.

Theorem C11_swallowed_not_replayed_mp11 : forall cf mc children e rn g,
  mblocked cf mc children rn (e_ty e) = true -> mcb_submit cf mc children e rn g = (Some tt, rn, g).
Proof. exact mp11_submit_blocked. Qed.
Print Assumptions C11_swallowed_not_replayed_mp11.

(* ---- for as long as it lives ---- *)
From Msm Require Import Lemmas_Forever.

(* every definition (no restriction on its features), every runtime tree in which a terminate state is the active state
   of some region of the machine process_event is called on, every list of later process_event calls with any events,
   guard valuations and plans: each call answers "handled" at once, runs no behaviour, stores nothing and leaves the
   whole tree - hence the reported configuration - as it was *)
Theorem C11_terminated_forever_back : forall cf, c_be cf <> Mp11 -> forall parents root fuel rn l s,
  has_blocking root = true -> In s (act rn) -> is_term_state (get_state root s) = true -> Forall is_process l ->
  run_ops cf root (build cf parents false root) (S fuel) rn l = map (fun _ => ([Res HANDLED_TRUE], snapshot root rn [])) l.
Proof. exact back_terminated_forever. Qed.
Print Assumptions C11_terminated_forever_back.

Theorem C11_terminated_forever_mp11 : forall cf, c_be cf = Mp11 -> forall parents root fuel rn l,
  has_blocking root = true ->
  term_active root (map (fun st => match s_sub st with Some c => Some (build cf parents true c) | None => None end) (m_states root)) rn = true ->
  Forall is_process l ->
  run_ops cf root (build cf parents false root) (S fuel) rn l = map (fun _ => ([Res HANDLED_TRUE], snapshot root rn [])) l.
Proof. exact mp11_terminated_forever. Qed.
Print Assumptions C11_terminated_forever_mp11.

(* a machine that reaches its terminate state by an event, then stays silent *)
Example C11_forever_example :
  let root := Machine [State KSimple None [] [] [] 0; State KTerm None [] [] [] 0; State KSimple None [] [] [] 1] [0; 2]
                      [Row 1 0 (TrEv 4) (TgState 1) false ActCall None; Row 2 2 (TrEv 5) TgNone false ActCall None] [] HNone in
  let md := MDef root [] in
  has_blocking root = true /\
  map snd (run (Cfg Back false 0 false) md [OStart [] []; OProcess (Evt 4 0) [] []]) = [[([], [0; 2])]; [([], [1; 2])]] /\
  run (Cfg Back false 0 false) md [OStart [] []; OProcess (Evt 4 0) [] []; OProcess (Evt 5 1) [] []; OProcess (Evt 4 2) [] []] =
  run (Cfg Back false 0 false) md [OStart [] []; OProcess (Evt 4 0) [] []] ++ [([Res 1], [([], [1; 2])]); ([Res 1], [([], [1; 2])])].
Proof. vm_compute. repeat split. Qed.

(* while an interrupt state is active: every event type that is not an end-interrupt type of an active interrupt state *)
Theorem C11_interrupted_silent_back : forall cf, c_be cf <> Mp11 -> forall parents root fuel rn l,
  has_blocking root = true -> flag_or root rn is_intr_state = true ->
  Forall (process_not_ending (fun ety => flag_or root rn (fun st => ends_intr st ety))) l ->
  run_ops cf root (build cf parents false root) (S fuel) rn l = map (fun _ => ([Res HANDLED_TRUE], snapshot root rn [])) l.
Proof. exact back_interrupted_silent. Qed.
Print Assumptions C11_interrupted_silent_back.
