(* Properties_C12.v - exceptions from behaviours are contained. *)
From Msm Require Import Run Lemmas_NoThrow.

(* back / back11 (both compile policies): whatever the machine, its submachine processors, the configuration, the
   plan (which behaviour invocations throw, submit or enqueue), the runtime state and the fuel: process_event
   returns normally - the exception never escapes *)
Theorem C12_contained_back : forall cf parents contained mc children fuel ev src rn g,
  exists c rn' g', pei cf parents contained mc children fuel ev src rn g = (Some c, rn', g').
Proof. intros. apply back_pei_nothrow. Qed.
Print Assumptions C12_contained_back.

Theorem C12_contained_mp11 : forall cf parents contained mc children fuel ev info rn g,
  exists c rn' g', mpei cf parents contained mc children fuel ev info rn g = (Some c, rn', g').
Proof. intros. apply mp11_pei_nothrow. Qed.
Print Assumptions C12_contained_mp11.

(* exception_caught itself (and no_transition) cannot re-throw in the model's behaviours: the handler of the
   catch is total *)
Theorem C12_handler_total_back : forall mc id ev w rn g, exists a rn' g', cb mc KExc id ev w rn g = (Some a, rn', g').
Proof. intros. apply nt_cb_exc. Qed.
Print Assumptions C12_handler_total_back.

Theorem C12_handler_total_mp11 : forall cf mc children id ev w rn g,
  exists a rn' g', mcb cf mc children KExc id ev w rn g = (Some a, rn', g').
Proof. intros. apply nt_mcb_exc. Qed.
Print Assumptions C12_handler_total_mp11.

(* the completion transition of backmp11 is guarded the same way *)
Theorem C12_completion_contained_mp11 : forall cf parents contained mc children fuel s r rn g,
  exists c rn' g', process_completion cf parents contained mc children fuel s r rn g = (Some c, rn', g').
Proof. intros. apply nt_process_completion. Qed.
Print Assumptions C12_completion_contained_mp11.

(* not wedged, part 1 (fix F8): the whole-machine probe of the translator (Generated.v, recomputed from /repo on every
   run) reports, for each engine, that a submachine whose entry cascade threw dispatches the next event at once *)
Theorem C12_entry_throw_marker_probed :
  back_entry_throw_resets = true /\ back11_entry_throw_resets = true /\ mp11_entry_throw_resets = true.
Proof. repeat split; reflexivity. Qed.
Print Assumptions C12_entry_throw_marker_probed.

(* ... and in the model that follows that probe: when the entry of submachine state s is left through an exception -
   whatever threw: the front-end's on_entry, an initial state's entry at any depth, a behaviour run for an event that a
   behaviour submitted - the submachine's processing marker is clear afterwards *)
Theorem C12_entry_throw_clears_marker_back : forall cf contained mc children fuel s ev k co rn g rn' g',
  entry_throw_resets cf = true -> child children s = Some co ->
  exec_entry cf contained mc children fuel s ev k rn g = (None, rn', g') ->
  forall kn, nth s (kids rn') None = Some kn -> processing kn = false.
Proof. exact back_entry_throw_clears_marker. Qed.
Print Assumptions C12_entry_throw_clears_marker_back.

Theorem C12_entry_throw_clears_marker_mp11 : forall cf contained mc children fwd fuel s ev k co rn g rn' g',
  mp11_entry_throw_resets = true -> mchild children s = Some co ->
  mexec_entry_gen cf contained mc children fwd fuel s ev k rn g = (None, rn', g') ->
  forall kn, nth s (kids rn') None = Some kn -> processing kn = false.
Proof. exact mp11_entry_throw_clears_marker. Qed.
Print Assumptions C12_entry_throw_clears_marker_mp11.

(* ---- not wedged, part 2: the whole model ---- *)
From Msm Require Import Lemmas_Quiesce.

(* idle rn: neither this machine nor any submachine at any depth has its event-processing marker set.
   For every definition, configuration (engine, compile policy, switch policy), fuel and operation - start, stop,
   process_event, enqueue_event, the draining calls - with any plan (which behaviour invocations throw, which submit or
   enqueue further events) and any guard valuation: an idle object is idle again when the operation returns, also when
   the operation is left through an exception.  The three hypotheses are the probed engine facts of Generated.v. *)
Theorem C12_operation_leaves_no_marker : forall cf parents,
  entry_throw_resets cf = true -> start_queues cf = true -> mp11_entry_throw_resets = true ->
  forall root fuel rn o, idle rn -> idle (fst (run_op cf root (build cf parents false root) fuel rn o)).
Proof. exact run_op_idle. Qed.
Print Assumptions C12_operation_leaves_no_marker.

(* ... so after every history of operations on a freshly constructed object no level is wedged; the engine facts are
   discharged from the values the translator probed on /repo's current headers (this proof breaks when one of them
   turns false) *)
Theorem C12_never_wedged : forall cf parents root fuel l,
  idle (final_state cf parents root fuel (init_rnode root) l).
Proof. exact not_wedged. Qed.
Print Assumptions C12_never_wedged.

(* every level of every definition keeps its contract towards the level that contains it *)
Theorem C12_level_contract : forall cf parents,
  entry_throw_resets cf = true -> start_queues cf = true -> mp11_entry_throw_resets = true ->
  forall mc contained, cspec (build cf parents contained mc).
Proof. exact build_spec. Qed.
Print Assumptions C12_level_contract.
