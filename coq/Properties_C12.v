(* Properties_C12.v - exceptions from behaviours are contained. *)
From Msm Require Import Run Lemmas_NoThrow.

(* back / back11 (both compile policies): whatever the machine, its submachine processors, the configuration, the
   plan (which behaviour invocations throw, submit or enqueue), the runtime state and the fuel: process_event
   returns normally - the exception never escapes *)
Theorem C12_contained_back : forall cf parents contained mc children fuel ev src rn g,
  exists c rn' g', pei cf parents contained mc children fuel ev src rn g = (Some c, rn', g').
Proof. intros. apply back_pei_nothrow. Qed.
Print Assumptions C12_contained_back.

Theorem C12_contained_mp11 : forall cf parents contained mc children fuel ev info rn g,
  exists c rn' g', mpei cf parents contained mc children fuel ev info rn g = (Some c, rn', g').
Proof. intros. apply mp11_pei_nothrow. Qed.
Print Assumptions C12_contained_mp11.

(* exception_caught itself (and no_transition) cannot re-throw in the model's behaviours: the handler of the
   catch is total *)
Theorem C12_handler_total_back : forall mc id ev w rn g, exists a rn' g', cb mc KExc id ev w rn g = (Some a, rn', g').
Proof. intros. apply nt_cb_exc. Qed.
Print Assumptions C12_handler_total_back.

Theorem C12_handler_total_mp11 : forall cf mc children id ev w rn g,
  exists a rn' g', mcb cf mc children KExc id ev w rn g = (Some a, rn', g').
Proof. intros. apply nt_mcb_exc. Qed.
Print Assumptions C12_handler_total_mp11.

(* the completion transition of backmp11 is guarded the same way *)
Theorem C12_completion_contained_mp11 : forall cf parents contained mc children fuel s r rn g,
  exists c rn' g', process_completion cf parents contained mc children fuel s r rn g = (Some c, rn', g').
Proof. intros. apply nt_process_completion. Qed.
Print Assumptions C12_completion_contained_mp11.
