(* Properties_C13.v - back-end / policy / strategy equivalence (partial: see MANIFEST text). *)
From Msm Require Import Run Lemmas_Chain Lemmas_Regions.

(* back and back11: the only places where the model distinguishes the two engines are the regenerated chain tables and
   the set of triggers that creates forwarding rows; the tables coincide (regenerated from both headers) *)
Theorem C13_back_back11_tables : 
  back_chain_continue = back11_chain_continue /\ back_chain_merge = back11_chain_merge /\
  back_internal_tried = back11_internal_tried.
Proof. repeat split; reflexivity. Qed.
Print Assumptions C13_back_back11_tables.

Theorem C13_back_back11_chain : forall p q c c' be be' fct fct',
  (be = Back \/ be = Back11) -> (be' = Back \/ be' = Back11) ->
  chain_continue (Cfg be fct p q) c = chain_continue (Cfg be' fct' p q) c /\
  chain_merge (Cfg be fct p q) c c' = chain_merge (Cfg be' fct' p q) c c' /\
  internal_tried (Cfg be fct p q) c = internal_tried (Cfg be' fct' p q) c.
Proof.
  intros p q c c' be be' fct fct' [->| ->] [->| ->]; repeat split; reflexivity.
Qed.
Print Assumptions C13_back_back11_chain.

(* all engines agree on when a chain goes on (exactly when the code is not consumed) ... *)
Theorem C13_same_continuation : forall c, c < 8 ->
  tab1 back_chain_continue c = tab1 fct_chain_continue c /\
  tab1 back_chain_continue c = negb (tab1 mp11_chain_stop c).
Proof.
  intros c H. rewrite (back_continue_spec c false H), (fct_continue_spec c H), (mp11_stop_spec c H). auto.
Qed.
Print Assumptions C13_same_continuation.

(* ... and on the handled / zero status of combined codes: OR keeps the handled bit and zero-ness, chain merging keeps
   the handled and consumed bits of the rest, backmp11's masking keeps handled / deferred and drops only GUARD_REJECT *)
Theorem C13_same_status_bits :
  (forall a b, a < 8 -> b < 8 ->
     handled (bit_or a b) = (handled a || handled b) /\ (bit_or a b = 0 <-> a = 0 /\ b = 0)) /\
  merge_ok (tab1 back_chain_continue) (tab2 back_chain_merge) = true /\
  merge_ok (tab1 fct_chain_continue) (fun a b => tab2 fct_chain_step a b) = true /\
  forallb (fun c => if tab1 mp11_chain_stop c
                    then Bool.eqb (handled (tab1n mp11_chain_mask c)) (handled c) else true) codes = true.
Proof.
  split; [|split; [exact back_merge_ok|split; [exact fct_step_ok|vm_compute; reflexivity]]].
  intros a b Ha Hb. destruct (or_bits_spec a b Ha Hb) as (H1 & _ & H3 & _). auto.
Qed.
Print Assumptions C13_same_status_bits.

(* the two dispatch strategies of backmp11 are one function in the model: a configuration carries no strategy field,
   so every theorem about Mp11Level holds for flat_fold and function_pointer_array alike (the strategies are tied to the
   model separately by the differential runs mp11 / mp11_fpa) *)
Theorem C13_policy_independent_of_queue_flag : forall be fct p c,
  chain_continue (Cfg be fct p true) c = chain_continue (Cfg be fct p false) c.
Proof. reflexivity. Qed.
Print Assumptions C13_policy_independent_of_queue_flag.

(* ---- back and back11 in the model ---- *)
From Msm Require Import Lemmas_Equiv.

(* for every definition without own internal tables (where finding F7 separates the two engines), every compile policy,
   switch policy and queue option, and every list of operations with any plans and guard valuations: the interpreter
   produces the same traces and the same reported configurations for back and for back11.  The proof is by conversion:
   it only goes through while the tables the translator regenerates for the two engines (Generated.v) coincide. *)
Theorem C13_back_back11_same_runs : forall fct pol qb md l, no_internal (md_root md) ->
  run (Cfg Back fct pol qb) md l = run (Cfg Back11 fct pol qb) md l.
Proof. exact run_back_back11. Qed.
Print Assumptions C13_back_back11_same_runs.

Theorem C13_back_back11_same_processor : forall fct pol qb parents mc contained, no_internal mc ->
  build (Cfg Back fct pol qb) parents contained mc = build (Cfg Back11 fct pol qb) parents contained mc.
Proof. intros. apply build_back_back11. assumption. Qed.
Print Assumptions C13_back_back11_same_processor.

(* the hypothesis is satisfiable by nested machines *)
Example C13_no_internal_example :
  no_internal (Machine [State KSimple None [] [] [] 0;
                        State KSub (Some (Machine [State KSimple None [] [] [] 0; State KSimple None [] [] [] 0] [0]
                                            [Row 2 0 (TrEv 5) (TgState 1) true ActCall None] [] HAlways)) [] [] [] 0]
                       [0] [Row 1 0 (TrEv 4) (TgState 1) false ActCall None] [] HNone).
Proof. cbn. repeat split. Qed.

(* ---- back and backmp11 ---- *)
From Msm Require Import Spec Lemmas_Sim Lemmas_Core Lemmas_SpecRun.

(* Both engines are proved to be the specification function of Spec.v on the core fragment (Properties_C01); hence, for
   every core definition whose outermost machine has no history of its own, the same switch policy, every dispatch
   strategy / compile policy of backmp11, every history of start() / stop() alternating with events in between and every
   guard valuation: the two runs consist of the same behaviour invocations in the same order with the same arguments and
   the same active ids at every level after every operation.  They may differ in exactly two places, both outside what
   the property compares: the numeric result code (both satisfy the same handled / rejected outcome), and the ids the
   outermost machine's own entry behaviour reads from its fsm argument when a stopped machine is started again. *)
Theorem C13_back_backmp11_same_behaviour : forall cfB cfM md l,
  c_be cfB = Back -> c_be cfM = Mp11 -> c_pol cfB = c_pol cfM ->
  flat_events md -> core (md_root md) -> m_hist (md_root md) = HNone ->
  depth (md_root md) + 2 <= default_fuel ->
  back_start_queues = true -> mp11_entry_throw_resets = true ->
  bracketed false l ->
  Forall2 same_step (run cfB md l) (run cfM md l).
Proof. exact back_mp11_same_behaviour. Qed.
Print Assumptions C13_back_backmp11_same_behaviour.

(* with one start() nothing but the numeric result code can differ *)
Theorem C13_back_backmp11_same_behaviour_one_start : forall cfB cfM md l,
  c_be cfB = Back -> c_be cfM = Mp11 -> c_pol cfB = c_pol cfM ->
  flat_events md -> core (md_root md) -> m_hist (md_root md) = HNone ->
  depth (md_root md) + 2 <= default_fuel ->
  back_start_queues = true -> mp11_entry_throw_resets = true ->
  bracketed false l -> one_start l ->
  Forall2 same_step_strict (run cfB md l) (run cfM md l).
Proof. exact back_mp11_same_behaviour_one_start. Qed.
Print Assumptions C13_back_backmp11_same_behaviour_one_start.

(* all configurations pairwise: back, back11, backmp11; favor_runtime_speed or favor_compile_time (of back and of
   backmp11); either queue option; (the model does not distinguish backmp11's two dispatch strategies - that they
   coincide is sampled by the correspondence runs) *)
Theorem C13_all_configurations_same_behaviour : forall cf1 cf2 md l,
  c_pol cf1 = c_pol cf2 -> flat_events md -> core (md_root md) -> cfg_fits cf1 md -> cfg_fits cf2 md ->
  depth (md_root md) + 2 <= default_fuel -> back_start_queues = true -> mp11_entry_throw_resets = true ->
  bracketed false l ->
  Forall2 same_step (run cf1 md l) (run cf2 md l).
Proof. exact configs_same_behaviour. Qed.
Print Assumptions C13_all_configurations_same_behaviour.

(* within one family (back / back11, or backmp11), or across families on a history with one start(): nothing but the
   numeric result code can differ *)
Theorem C13_all_configurations_same_behaviour_strict : forall cf1 cf2 md l,
  c_pol cf1 = c_pol cf2 -> flat_events md -> core (md_root md) -> cfg_fits cf1 md -> cfg_fits cf2 md ->
  depth (md_root md) + 2 <= default_fuel -> back_start_queues = true -> mp11_entry_throw_resets = true ->
  bracketed false l -> (is_mp11 cf1 = is_mp11 cf2 \/ one_start l) ->
  Forall2 same_step_strict (run cf1 md l) (run cf2 md l).
Proof. exact configs_same_behaviour_strict. Qed.
Print Assumptions C13_all_configurations_same_behaviour_strict.

(* the probed engine facts hold on this tree, the hypotheses are met by a nested definition with two regions and
   history, and on it the two differences above do occur (result code 3 against 1; ids [0] against [1] at the restart) *)
Example C13_back_backmp11_example :
  back_start_queues = true /\ mp11_entry_throw_resets = true /\
  core (md_root ex_core_md) /\ bracketed false ex_core_ops /\ flat_events ex_core_md /\
  m_hist (md_root ex_core_md) = HNone /\ depth (md_root ex_core_md) + 2 <= default_fuel /\
  run (Cfg Back false 0 false) ex_core_md ex_core_ops <> run (Cfg Mp11 false 0 false) ex_core_md ex_core_ops.
Proof.
  split; [reflexivity|]. split; [reflexivity|]. split; [exact ex_core_ok|].
  split; [cbn; repeat split; discriminate|].
  split; [intros [|e]; reflexivity|].
  split; [reflexivity|]. split; [vm_compute; repeat constructor | vm_compute; discriminate].
Qed.

(* ---- stored events (enqueue_event / execute_queued_events), back family ---- *)
From Msm Require Import Lemmas_SpecQueue.

(* back with either compile policy and back11 (definitions it can compile), any queue option, same switch policy: on
   histories that also store events from outside and drain them, nothing but the numeric result code can differ *)
Theorem C13_back_family_same_behaviour_with_stored_events : forall cf1 cf2 md l,
  c_pol cf1 = c_pol cf2 -> back_family cf1 md -> back_family cf2 md -> flat_events md -> core (md_root md) ->
  back_start_queues = true -> Forall qplain_op l -> count_enq l + depth (md_root md) + 3 <= default_fuel ->
  Forall2 same_step_strict (run cf1 md l) (run cf2 md l).
Proof. exact back_family_same_queue_behaviour. Qed.
Print Assumptions C13_back_family_same_behaviour_with_stored_events.

(* the back family and backmp11 (any compile policy / dispatch strategy), same switch policy, outermost machine without
   history: on histories in which start() and stop() alternate, events are sent and stored while the machine is started
   and nothing is pending at stop() (`qlive`), every stored occurrence is dispatched by both at the same point with the
   same behaviour invocations, arguments and configurations; only the numeric result code and what the outermost entry
   behaviour reads at a restart can differ.  Outside `qlive` they differ: finding F28 (Properties_C04). *)
Theorem C13_back_family_backmp11_same_behaviour_with_stored_events : forall cfB cfM md l,
  back_family cfB md -> c_be cfM = Mp11 -> c_pol cfB = c_pol cfM -> flat_events md -> core (md_root md) ->
  m_hist (md_root md) = HNone -> back_start_queues = true -> mp11_entry_throw_resets = true ->
  qlive false false l -> 2 * count_enq l + depth (md_root md) + 3 <= default_fuel ->
  Forall2 same_step (run cfB md l) (run cfM md l).
Proof. exact back_family_mp11_same_queue_behaviour. Qed.
Print Assumptions C13_back_family_backmp11_same_behaviour_with_stored_events.

Example C13_stored_events_example :
  let l := [OStart [] []; OEnqueue (Evt 4 2); OEnqueue (Evt 5 3); OProcess (Evt 6 4) [10] []; OEnqueue (Evt 6 5);
            ODrain [4] []; OStop []; OStart [1] []; OEnqueue (Evt 4 7); ODrain [1] []] in
  qlive false false l /\ 2 * count_enq l + depth (md_root ex_core_md) + 3 <= default_fuel /\
  back_family (Cfg Back true 0 false) ex_core_md /\
  flat_map fst (run (Cfg Back true 0 false) ex_core_md l) <> [].
Proof.
  cbn zeta. split; [cbn; repeat split; discriminate|]. split; [vm_compute; repeat constructor|].
  split; [exact I | vm_compute; discriminate].
Qed.

(* any two backmp11 configurations (favor_runtime_speed with flat_fold or function_pointer_array, favor_compile_time),
   same switch policy, on every history with stored events backmp11 is specified on: nothing but the numeric result
   code can differ *)
Theorem C13_backmp11_configurations_same_behaviour_with_stored_events : forall cf1 cf2 md l,
  c_be cf1 = Mp11 -> c_be cf2 = Mp11 -> c_pol cf1 = c_pol cf2 -> flat_events md -> core (md_root md) ->
  m_hist (md_root md) = HNone -> mp11_entry_throw_resets = true -> qbracketed false l ->
  2 * count_enq l + depth (md_root md) + 3 <= default_fuel ->
  Forall2 same_step_strict (run cf1 md l) (run cf2 md l).
Proof. exact mp11_same_queue_behaviour. Qed.
Print Assumptions C13_backmp11_configurations_same_behaviour_with_stored_events.
