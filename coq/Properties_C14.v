(* Properties_C14.v - PlantUML tokenizer (the part of C14 that is modelled; see MANIFEST text for what is not). *)
From Msm Require Import Base Puml Lemmas_Puml.
From Coq Require Import NArith.
Local Open Scope N_scope.

(* a token surrounded by any amount of blanks, tabs and dashes (arrow remains included) is returned exactly - for any
   token length and any padding length; the token may contain blanks inside (guard expressions, action lists) *)
Theorem C14_cleanup_token_exact : forall p1 first mid last p2,
  all_pad p1 -> all_pad p2 -> not_pad first -> not_pad last ->
  size (p1 ++ first :: mid ++ last :: p2) < npos ->
  cleanup_token (p1 ++ first :: mid ++ last :: p2) = first :: mid ++ [last].
Proof. exact cleanup_token_exact. Qed.
Print Assumptions C14_cleanup_token_exact.

Theorem C14_cleanup_token_single : forall p1 c p2,
  all_pad p1 -> all_pad p2 -> not_pad c -> size (p1 ++ c :: p2) < npos -> cleanup_token (p1 ++ c :: p2) = [c].
Proof. exact cleanup_token_single. Qed.
Print Assumptions C14_cleanup_token_single.

Theorem C14_cleanup_token_blank : forall p, all_pad p -> cleanup_token p = [].
Proof. exact cleanup_token_blank. Qed.
Print Assumptions C14_cleanup_token_blank.

(* the number of actions of an action list is the number of comma separated parts, for any number of parts *)
Theorem C14_count_actions : forall parts,
  Forall comma_free parts -> Forall (fun p => p <> []) parts -> count_actions (join_commas parts) = length parts.
Proof. exact count_actions_join. Qed.
Print Assumptions C14_count_actions.

(* documented examples, computed with the transcription: source, target, event, guard, action *)
Definition s2l (s:list nat) := s.
Example C14_example_rows :
  (* "Empty ---> Stopped : cd / store [ok && all]"  and  "Open -> Open : -play / defer" *)
  let l1 := [69;109;112;116;121;32;45;45;45;62;32;83;116;111;112;112;101;100;32;58;32;99;100;32;47;32;115;116;111;114;101;32;91;111;107;32;38;38;32;97;108;108;93]%nat in
  let l2 := [79;112;101;110;32;45;62;32;79;112;101;110;32;58;32;45;112;108;97;121;32;47;32;100;101;102;101;114]%nat in
  parse_row l1 = Transition [69;109;112;116;121]%nat [83;116;111;112;112;101;100]%nat [99;100]%nat [111;107;32;38;38;32;97;108;108]%nat [115;116;111;114;101]%nat /\
  parse_row l2 = Transition [79;112;101;110]%nat []%nat [112;108;97;121]%nat []%nat [100;101;102;101;114]%nat.
Proof. vm_compute. auto. Qed.

(* ---- guard expressions (after fix F9: find_top_level / parse_guard_simple) ---- *)
From Msm Require Import PumlGuard Lemmas_PumlGuard.

(* every expression of the C++-precedence grammar - or-chains of and-chains of unary expressions, negation, parentheses
   nested to any depth, arbitrary blank/tab padding at every gap - is parsed into exactly the tree the grammar gives
   it: operators inside parentheses are invisible to the enclosing level, || splits before &&, && before ! *)
Theorem C14_guard_parser_exact : forall e, wf e -> (size (print e) < npos)%N ->
  forall fuel, (length (print e) < fuel)%nat -> parse_guard_simple fuel (print e) = Some (erase e).
Proof. exact parse_print. Qed.
Print Assumptions C14_guard_parser_exact.

(* ... hence the guard the library evaluates has the C++ value of the written expression under every valuation *)
Theorem C14_guard_value : forall e v, wf e -> (size (print e) < npos)%N ->
  option_map (geval v) (parse_guard (print e)) = Some (peval v e).
Proof. exact parse_guard_value. Qed.
Print Assumptions C14_guard_value.

(* the parenthesis-aware search itself: the first operator outside parentheses, nothing inside them *)
Theorem C14_guard_split_point : forall op a p1 t, is_op op -> wf a -> blank p1 -> (level a < oplevel op)%nat ->
  find_top_level (print a ++ p1 ++ op ++ t) op = size (print a ++ p1).
Proof. exact ftl_at_op. Qed.
Print Assumptions C14_guard_split_point.

Theorem C14_guard_no_split_inside : forall op e, is_op op -> wf e -> (level e < oplevel op)%nat ->
  find_top_level (print e) op = npos.
Proof. exact ftl_none. Qed.
Print Assumptions C14_guard_no_split_inside.

(* the hypotheses are satisfiable: the expression of finding F9, a && b || (c && d) *)
Example C14_guard_F9 :
  let a := PName [97%nat] in let b := PName [98%nat] in let c := PName [99%nat] in let d := PName [100%nat] in
  let e := POr (PAnd a [32%nat] [32%nat] b) [32%nat] [32%nat] (PParen [] (PAnd c [32%nat] [32%nat] d) []) in
  wf e /\ parse_guard (print e) = Some (GOr (GAnd (GName [97%nat]) (GName [98%nat])) (GAnd (GName [99%nat]) (GName [100%nat]))).
Proof. split; [|vm_compute; reflexivity]. cbn. unfold blank, blank_char, ident_char. repeat split; try (repeat constructor; fail); try discriminate; auto. Qed.

(* the recursive template instantiation of parse_guard_simple ends for every string, well-formed or not: each level works
   on a strictly shorter string (fuel S (length s) is never exhausted), so every guard text yields some tree *)
Theorem C14_guard_parser_total : forall s, (size s < npos)%N -> exists g, parse_guard s = Some g.
Proof. exact parse_guard_total. Qed.
Print Assumptions C14_guard_parser_total.

(* ---- whole transition lines (detail::parse_row / parse_row_right / parse_guards) ---- *)
From Msm Require Import Lemmas_PumlRow.

(* every line of the documented grammar
       Source  -[-]*>  Target  [ : [-]Event  [ / Actions ] [ [Guard] ] ]    (actions and guard in either order; a '-'
   directly before the event marks an internal transition: the target field is then empty)
   is split into exactly its five fields: identifiers, action lists and guard texts of any length - they may contain
   anything but the structural characters - : / [ ] (blanks, commas, '*', '&&', '!', parentheses ... inside are kept) -,
   arrows of any length, any amount of blank / tab padding at each of the up to seventeen gaps (also in front of the source).  The only bound is that
   the line is shorter than std::string::npos.  (wf_line: every pad is blank, every token starts and ends with a
   character cleanup_token keeps; render / fields: Lemmas_PumlRow.v.) *)
Theorem C14_parse_row_exact : forall l, wf_line l -> size (render l) < npos -> parse_row (render l) = fields l.
Proof. exact parse_row_exact. Qed.
Print Assumptions C14_parse_row_exact.

(* a line meeting the hypotheses: "  Playing   --->  Paused : * / log, stop   [ !is_last && ok ]  " (Kleene event, action
   list with a comma and a blank inside, guard expression with blanks inside, a four-character arrow) *)
Example C14_parse_row_example : wf_line ex_line /\ size (render ex_line) < npos /\
  t_event (parse_row (render ex_line)) = [42%nat] /\ parse_row (render ex_line) = fields ex_line.
Proof.
  destruct ex_line_ok as (H1 & H2 & H3). split; [exact H1|]. split; [exact H2|].
  split; [rewrite H3; reflexivity | apply parse_row_exact; assumption].
Qed.

(* an internal transition line: "Open -> Open : -play / defer  " has no target, event play, action defer *)
Example C14_parse_row_internal_example :
  let l := PLine [] [79;112;101;110]%nat [32%nat] [] [32%nat] [79;112;101;110]%nat [32%nat]
                 (Some ([32%nat], [c_dash], [112;108;97;121]%nat, [32%nat], TAct [32%nat] [100;101;102;101;114]%nat [32;32]%nat)) in
  wf_line l /\ parse_row (render l) = Transition [79;112;101;110]%nat [] [112;108;97;121]%nat [] [100;101;102;101;114]%nat.
Proof.
  cbv zeta. split; [|vm_compute; reflexivity].
  unfold wf_line, word, blank, dashes, starts, ends, clean, not_pad. cbn.
  repeat split; try (right; reflexivity); repeat constructor; auto.
Qed.

(* the action list of a line: parse_action<k> returns exactly the k-th comma separated action - for any number of
   actions, any action length and any blank / tab padding around it; only the k-th part has to be a padded token, the
   others are arbitrary comma-free texts (the do-while of the library is transcribed with fuel: the fuel the
   transcription uses is shown to suffice for every list) *)
Theorem C14_parse_action_exact : forall parts k b w b',
  nth_error parts k = Some (b ++ w ++ b') -> blank b -> blank b' -> starts w -> ends w ->
  Forall comma_free parts -> size (join_commas parts) < npos ->
  parse_action k (join_commas parts) = w.
Proof. exact parse_action_exact. Qed.
Print Assumptions C14_parse_action_exact.

(* " log ,stop_playback,  notify " : the second action *)
Example C14_parse_action_example :
  parse_action 1 (join_commas [[32;108;111;103;32]; [115;116;111;112]; [32;32;110;111;116;105;102;121;32]]%nat) = [115;116;111;112]%nat.
Proof. vm_compute. reflexivity. Qed.

(* ---- whole descriptions (detail::parse_stt<t>) ---- *)
From Msm Require Import Lemmas_PumlStt.
From Coq Require Import List.

(* parse_stt<t> returns parse_row of exactly the t-th transition line - a line with "->" and without "[*]" - of a
   description, whatever lines surround it (initial and terminate lines, entry / exit / flag lines, separators, empty
   lines), for every number of lines and every line length, with or without a final line end: no line is lost, none
   is counted twice, none merges with a neighbour *)
Theorem C14_parse_stt_selects_the_transition_lines : forall lines t row,
  Forall line_ok lines -> size (join_nl lines) < npos ->
  nth_error (filter is_transb lines) t = Some row ->
  parse_stt t (join_nl lines) = parse_row row.
Proof. exact parse_stt_exact. Qed.
Print Assumptions C14_parse_stt_selects_the_transition_lines.

(* together with C14_parse_row_exact: the t-th transition line of a description, written in the line grammar, comes out
   as exactly its five fields *)
Theorem C14_description_rows : forall lines t l,
  Forall line_ok lines -> size (join_nl lines) < npos ->
  nth_error (filter is_transb lines) t = Some (render l) -> wf_line l -> size (render l) < npos ->
  parse_stt t (join_nl lines) = fields l.
Proof.
  intros lines t l Hok Hsz Hk Hwf Hl. rewrite (parse_stt_exact lines t (render l) Hok Hsz Hk). apply parse_row_exact; assumption.
Qed.
Print Assumptions C14_description_rows.

(* "[*] --> A" / "A -> B : e" / "B : entry x" / "B -> [*]" / "B --> A : f / act" and a final line end: two transition
   lines, the second one is the fifth line *)
Example C14_parse_stt_example :
  let lines := [[91;42;93;32;45;45;62;32;65]; [65;32;45;62;32;66;32;58;32;101]; [66;32;58;32;101;110;116;114;121;32;120];
                [66;32;45;62;32;91;42;93]; [66;32;45;45;62;32;65;32;58;32;102;32;47;32;97;99;116]; []]%nat in
  Forall line_ok lines /\ map is_transb lines = [false; true; false; false; true; false] /\
  parse_stt 1 (join_nl lines) = Transition [66%nat] [65%nat] [102%nat] [] [97;99;116]%nat /\
  parse_stt 2 (join_nl lines) = empty_transition.
Proof. cbv zeta. split; [repeat constructor|]. vm_compute. auto. Qed.

(* ---- initial-state lines (detail::count_inits) ---- *)
From Msm Require Import Lemmas_PumlCount.

(* count_inits of a description is the number of its initial lines - the lines in which an arrow follows the "[*]" -
   for every number of lines of every length: terminate lines ("State -> [*]": nothing behind the "[*]" but blanks),
   lines without "[*]" and whatever stands behind a "[*]" are passed over and the count goes on behind them (finding
   F25, repaired in /repo: the count used to stop at the first terminate line and later regions were lost).
   single_star: at most one "[*]" per line.  The transcription answers for a description that ends in an initial line
   without a final line end as well; the library itself throws there (substr(npos): a compile error in constexpr use). *)
Theorem C14_count_inits_exact : forall lines,
  Forall line_ok lines -> Forall single_star lines -> size (join_nl lines) < npos ->
  count_inits (join_nl lines) = length (filter is_initb lines).
Proof. exact count_inits_exact. Qed.
Print Assumptions C14_count_inits_exact.

(* "A -> [*]" / "[*] --> B" / "B -> A : e" / "--" / "  [*] -> C" / "": two initial lines, the terminate line in front
   of them does not stop the count *)
Example C14_count_inits_example :
  let lines := [[65;32;45;62;32;91;42;93]; [91;42;93;32;45;45;62;32;66]; [66;32;45;62;32;65;32;58;32;101]; [45;45];
                [32;32;91;42;93;32;45;62;32;67]; []]%nat in
  Forall line_ok lines /\ Forall single_star lines /\ map is_initb lines = [false; true; false; false; true; false] /\
  count_inits (join_nl lines) = 2%nat.
Proof. cbv zeta. split; [repeat constructor|]. split; [repeat constructor|]. vm_compute. auto. Qed.

(* rfind of the transcription (count_terminates looks backwards for the arrow and the line end in front of a "[*]"):
   it answers a position at which the pattern occurs, not behind the limit, and no earlier than any such occurrence *)
Theorem C14_rfind_finds_last_occurrence : forall pat s i limit best d,
  (d <= length s)%nat -> is_prefix pat (skipn d s) = true -> i + N.of_nat d <= limit -> i + N.of_nat (length s) < npos ->
  i + N.of_nat d <= rfind_at pat s i limit best <= limit.
Proof. exact rfind_at_ge. Qed.
Print Assumptions C14_rfind_finds_last_occurrence.

(* ---- terminate lines (detail::count_terminates) ---- *)
From Msm Require Import Lemmas_PumlTerm.

(* count_terminates of a description whose first line carries no "[*]" (descriptions start with @startuml) is the number
   of lines in which an arrow stands in front of the "[*]" on the same line - initial lines ("[*] -> State": the arrow
   behind the "[*]"), other lines and the text behind a "[*]" are passed over; the backwards search for the arrow may
   reach into earlier lines, the position of the line end in front of the "[*]" keeps the count on the line.
   For every number of lines of every length.  (A terminate line that is the very first line of the text is not
   counted by the library - rfind of the line end answers npos; outside the quantifier, noted in DESIGN.md.) *)
Theorem C14_count_terminates_exact : forall l0 rest,
  idxp c_initstar l0 = None -> Forall line_ok rest -> Forall single_star rest -> size (join_nl (l0 :: rest)) < npos ->
  count_terminates (join_nl (l0 :: rest)) = length (filter is_termb rest).
Proof. exact count_terminates_exact. Qed.
Print Assumptions C14_count_terminates_exact.

(* "@" / "A -> B : e" / "B -> [*]" / "[*] --> A" / "  C --> [*]  " / "": two terminate lines; the arrow of line 2 lies
   in front of the "[*]" of line 3 but on another line *)
Example C14_count_terminates_example :
  let lines := [[64]; [65;32;45;62;32;66;32;58;32;101]; [66;32;45;62;32;91;42;93]; [91;42;93;32;45;45;62;32;65];
                [32;32;67;32;45;45;62;32;91;42;93;32;32]; []]%nat in
  Forall line_ok lines /\ Forall single_star lines /\ map is_termb lines = [false; false; true; false; true; false] /\
  count_terminates (join_nl lines) = 2%nat.
Proof. cbv zeta. split; [repeat constructor|]. split; [repeat constructor|]. vm_compute. auto. Qed.

(* ---- the number of arrows (detail::count_transitions) ---- *)
From Msm Require Import Lemmas_PumlTrans.

(* count_transitions of a description is the number of its lines that contain an arrow (lines with at most one arrow
   each: one_arrow), for every number of lines of every length.  create_transition_table builds
   count_transitions - count_inits - count_terminates rows and fetches row t with parse_stt<t>: with the three counting
   theorems and C14_parse_stt_selects_the_transition_lines every function that decides which lines become rows is
   characterised for all inputs. *)
Theorem C14_count_transitions_exact : forall lines,
  Forall line_ok lines -> Forall one_arrow lines -> size (join_nl lines) < npos ->
  count_transitions (join_nl lines) = length (filter has_arrow lines).
Proof. exact count_transitions_exact. Qed.
Print Assumptions C14_count_transitions_exact.

(* ---- which lines become rows ---- *)
From Msm Require Import Lemmas_PumlTable.

(* create_transition_table builds count_transitions - count_inits - count_terminates rows: that is exactly the number
   of transition lines of the description (lines with an arrow and without "[*]"), for every description whose lines
   carry at most one arrow and one "[*]" each and whose first line carries no "[*]" (@startuml) ... *)
Theorem C14_table_rows_are_the_transition_lines : forall l0 rest,
  idxp c_initstar l0 = None -> Forall line_ok (l0 :: rest) -> Forall single_star (l0 :: rest) -> Forall one_arrow (l0 :: rest) ->
  size (join_nl (l0 :: rest)) < npos ->
  (count_transitions (join_nl (l0 :: rest)) - count_inits (join_nl (l0 :: rest)) - count_terminates (join_nl (l0 :: rest)))%nat
  = length (filter is_transb (l0 :: rest)).
Proof. exact table_rows_are_the_transition_lines. Qed.
Print Assumptions C14_table_rows_are_the_transition_lines.

(* ... and every row index below that number is fetched by parse_stt as the corresponding transition line: no line of the
   description is lost, none becomes a row twice, initial / terminate / entry / exit / flag lines never become rows *)
Theorem C14_every_table_row : forall l0 rest t,
  idxp c_initstar l0 = None -> Forall line_ok (l0 :: rest) -> Forall single_star (l0 :: rest) -> Forall one_arrow (l0 :: rest) ->
  size (join_nl (l0 :: rest)) < npos ->
  (t < count_transitions (join_nl (l0 :: rest)) - count_inits (join_nl (l0 :: rest)) - count_terminates (join_nl (l0 :: rest)))%nat ->
  exists row, nth_error (filter is_transb (l0 :: rest)) t = Some row /\ parse_stt t (join_nl (l0 :: rest)) = parse_row row.
Proof. exact every_table_row. Qed.
Print Assumptions C14_every_table_row.

(* every line of the row grammar (C14_parse_row_exact) whose guard text does not begin with '*' contains an arrow and no
   "[*]" - it is one of the lines parse_stt counts, so C14_description_rows applies to it wherever it stands in a
   description (a guard written "[*]" would read as the initial / terminate marker: guard_ok excludes exactly that) *)
Theorem C14_grammar_line_is_transition_line : forall l, wf_line l -> guard_ok l -> is_transb (render l) = true.
Proof. exact grammar_line_is_transition_line. Qed.
Print Assumptions C14_grammar_line_is_transition_line.

(* the hypotheses of the two table theorems are met by an ordinary description: "@" / "A -> B : e" / "B -> [*]" /
   "[*] --> A" / "  C --> [*]  " / "": four arrows, one initial line, two terminate lines, one row *)
Example C14_table_example :
  let lines := [[64]; [65;32;45;62;32;66;32;58;32;101]; [66;32;45;62;32;91;42;93]; [91;42;93;32;45;45;62;32;65];
                [32;32;67;32;45;45;62;32;91;42;93;32;32]; []]%nat in
  Forall line_ok lines /\ Forall single_star lines /\ Forall one_arrow lines /\
  (count_transitions (join_nl lines), count_inits (join_nl lines), count_terminates (join_nl lines)) = (4, 1, 2)%nat /\
  length (filter is_transb lines) = 1%nat /\
  parse_stt 0 (join_nl lines) = Transition [65%nat] [66%nat] [101%nat] [] [].
Proof.
  cbv zeta. split; [repeat constructor|]. split; [repeat constructor|]. split; [repeat constructor|]. vm_compute. auto.
Qed.
