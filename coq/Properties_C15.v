(* Properties_C15.v - copies (and moves) are faithful and independent. *)
From Msm Require Import Run Lemmas_World.

(* the copy is exactly the source (active ids at every level, history, pending events, flags of processing) and the
   source and every other object are untouched *)
Theorem C15_copy_exact : forall cf root ops fuel w dst src w' tr rn,
  wget w src = Some rn -> dst < length w -> dst <> src ->
  run_wop cf root ops fuel w (OCopy dst src) = (w', tr) ->
  wget w' dst = Some rn /\ wget w' src = Some rn /\ (forall j, j <> dst -> wget w' j = wget w j).
Proof. exact copy_exact. Qed.
Print Assumptions C15_copy_exact.

(* from then on the copy reacts exactly as the original would: equal state => equal trace and equal next state, for
   every operation (and so for every operation list) *)
Theorem C15_copy_reacts_like_original : forall cf root ops fuel w a b rn o,
  wget w a = Some rn -> wget w b = Some rn ->
  forall wa tra wb trb,
  run_wop cf root ops fuel w (OOn a o) = (wa, tra) -> run_wop cf root ops fuel w (OOn b o) = (wb, trb) ->
  tra = trb /\ (a < length w -> b < length w -> wget wa a = wget wb b).
Proof. exact same_state_same_reaction. Qed.
Print Assumptions C15_copy_reacts_like_original.

(* driving one machine never changes another *)
Theorem C15_independent : forall cf root ops fuel w k o w' tr j,
  run_wop cf root ops fuel w (OOn k o) = (w', tr) -> j <> k -> wget w' j = wget w j.
Proof. exact on_object_frame. Qed.
Print Assumptions C15_independent.

(* backmp11 move: the target takes over exactly the source's state; the moved-from object keeps ids and history, its
   pools are empty (it can be destroyed or assigned to) *)
Theorem C15_move : forall cf root ops fuel w dst src w' tr rn,
  wget w src = Some rn -> dst < length w -> src < length w -> dst <> src ->
  run_wop cf root ops fuel w (OMove dst src) = (w', tr) ->
  wget w' dst = Some rn /\ wget w' src = Some (moved_from rn) /\ tr = [].
Proof. exact move_takes_over. Qed.
Print Assumptions C15_move.

Theorem C15_moved_from : forall rn, act (moved_from rn) = act rn /\ hist (moved_from rn) = hist rn /\ msgq (moved_from rn) = [].
Proof. exact moved_from_spec. Qed.
Print Assumptions C15_moved_from.
