(* Properties_C16.v - serialization round-trip. *)
From Msm Require Import Run Lemmas_World.

(* the loaded machine has the saved active ids, history memory and processing flag, and empty queues ... *)
Theorem C16_roundtrip_level : forall rn,
  act (loaded_from rn) = act rn /\ hist (loaded_from rn) = hist rn /\ processing (loaded_from rn) = processing rn /\
  running (loaded_from rn) = running rn /\ msgq (loaded_from rn) = [] /\ defq (loaded_from rn) = [] /\
  length (kids (loaded_from rn)) = length (kids rn).
Proof. exact loaded_from_spec. Qed.
Print Assumptions C16_roundtrip_level.

(* ... at every nesting level: the node of each submachine is the loaded image of the saved submachine node *)
Theorem C16_roundtrip_recursive : forall rn s kn,
  nth s (kids rn) None = Some kn -> nth s (kids (loaded_from rn)) None = Some (loaded_from kn).
Proof. exact loaded_from_kids. Qed.
Print Assumptions C16_roundtrip_recursive.

(* the original is untouched by saving, and the two objects are independent afterwards *)
Theorem C16_independent : forall cf root ops fuel w k o w' tr j,
  run_wop cf root ops fuel w (OOn k o) = (w', tr) -> j <> k -> wget w' j = wget w j.
Proof. exact on_object_frame. Qed.
Print Assumptions C16_independent.
