(* Properties_C16.v - serialization round-trip. *)
From Msm Require Import Run Lemmas_World Lemmas_Sim Spec Lemmas_SpecRun Lemmas_Equiv Lemmas_SaveLoad.
From Coq Require Import List. Import ListNotations.

(* the loaded machine has the saved active ids, history memory and processing flag, and empty queues ... *)
Theorem C16_roundtrip_level : forall rn,
  act (loaded_from rn) = act rn /\ hist (loaded_from rn) = hist rn /\ processing (loaded_from rn) = processing rn /\
  running (loaded_from rn) = running rn /\ msgq (loaded_from rn) = [] /\ defq (loaded_from rn) = [] /\
  length (kids (loaded_from rn)) = length (kids rn).
Proof. exact loaded_from_spec. Qed.
Print Assumptions C16_roundtrip_level.

(* ... at every nesting level: the node of each submachine is the loaded image of the saved submachine node *)
Theorem C16_roundtrip_recursive : forall rn s kn,
  nth s (kids rn) None = Some kn -> nth s (kids (loaded_from rn)) None = Some (loaded_from kn).
Proof. exact loaded_from_kids. Qed.
Print Assumptions C16_roundtrip_recursive.

(* the original is untouched by saving, and the two objects are independent afterwards *)
Theorem C16_independent : forall cf root ops fuel w k o w' tr j,
  run_wop cf root ops fuel w (OOn k o) = (w', tr) -> j <> k -> wget w' j = wget w j.
Proof. exact on_object_frame. Qed.
Print Assumptions C16_independent.

(* "The loaded machine then reacts to every event sequence exactly like the original, whatever reachable configuration was
   saved": for every core definition (Spec.core: any nesting depth, regions, guards, internal tables, any history policy
   on submachines), every history l1 of start / process_event / stop that leads to the save point and every continuation
   l2, under every guard valuation: the save point holds no stored events (so the save operation is inside the
   property's quantifier), the loaded image abstracts to the saved configuration at every level, and the original and the
   loaded object give the same behaviour invocations in the same order with the same arguments and the same reported
   configuration after every operation; result codes have the same handled / rejected meaning (same_step_strict).
   The loaded object is NOT the same tree - Boost.Serialization does not archive the deferred-sequence counter, the
   loaded one starts again at 0 - so this is a statement about behaviour, obtained from the refinement of Spec.v. *)
Theorem C16_loaded_machine_reacts_like_original_back : forall cf parents root fuel l1 l2,
  c_be cf = Back -> (forall e, nth e parents None = None) -> back_start_queues = true -> core root ->
  depth root + 2 <= fuel -> Forall plain_op l1 -> Forall plain_op l2 ->
  let ops := build cf parents false root in
  let rn := run_final cf root ops fuel (init_rnode root) l1 in
  has_pending rn = false /\
  abs (loaded_from rn) = abs rn /\
  Forall2 same_step_strict (run_ops cf root ops fuel rn l2) (run_ops cf root ops fuel (loaded_from rn) l2).
Proof. intros cf parents root fuel l1 l2 Hb Hf Hq Hc Hfu. exact (back_saveload_any_history cf Hb parents Hf Hq root Hc fuel Hfu l1 l2). Qed.
Print Assumptions C16_loaded_machine_reacts_like_original_back.

Theorem C16_loaded_machine_reacts_like_original_back11 : forall fct pol qb parents root fuel l1 l2,
  (forall e, nth e parents None = None) -> back_start_queues = true -> core root -> no_internal root ->
  depth root + 2 <= fuel -> Forall plain_op l1 -> Forall plain_op l2 ->
  let cf := Cfg Back11 fct pol qb in
  let ops := build cf parents false root in
  let rn := run_final cf root ops fuel (init_rnode root) l1 in
  has_pending rn = false /\
  abs (loaded_from rn) = abs rn /\
  Forall2 same_step_strict (run_ops cf root ops fuel rn l2) (run_ops cf root ops fuel (loaded_from rn) l2).
Proof. exact back11_saveload_any_history. Qed.
Print Assumptions C16_loaded_machine_reacts_like_original_back11.

(* the save / load operation between two objects of a world: it is not refused at a quiet save point, leaves the
   original as it is, and the next operation is answered alike by both *)
Theorem C16_saveload_operation : forall cf parents root fuel w src dst rn o,
  c_be cf = Back -> (forall e, nth e parents None = None) -> back_start_queues = true -> core root ->
  depth root + 2 <= fuel ->
  wget w src = Some rn -> ok root rn -> dst < length w -> dst <> src -> plain_op o ->
  let ops := build cf parents false root in
  let '(w', tr) := run_wop cf root ops fuel w (OSaveLoad dst src) in
  tr = [] /\ wget w' src = Some rn /\ wget w' dst = Some (loaded_from rn) /\
  same_step_strict (let '(rn1, t1) := run_op cf root ops fuel rn o in (t1, snapshot root rn1 []))
                   (let '(rn2, t2) := run_op cf root ops fuel (loaded_from rn) o in (t2, snapshot root rn2 [])).
Proof. intros cf parents root fuel w src dst rn o Hb Hf Hq Hc Hfu. exact (back_saveload_world cf Hb parents Hf Hq root Hc fuel Hfu w src dst rn o). Qed.
Print Assumptions C16_saveload_operation.

(* the hypotheses are met by a nested definition with two regions and history, saved inside the submachine after six
   operations - a save point that is not the initial configuration and whose loaded image is a different tree *)
Example C16_example :
  let cf := Cfg Back false 0 false in
  let root := md_root ex_core_md in
  let ops := build cf [] false root in
  let rn := run_final cf root ops default_fuel (init_rnode root) (firstn 3 ex_core_ops) in
  core root /\ Forall plain_op (firstn 3 ex_core_ops) /\ Forall plain_op (skipn 3 ex_core_ops) /\
  abs rn <> abs (init_rnode root) /\
  run_ops cf root ops default_fuel rn (skipn 3 ex_core_ops) = run_ops cf root ops default_fuel (loaded_from rn) (skipn 3 ex_core_ops).
Proof.
  cbv zeta. split; [exact ex_core_ok|]. split; [repeat constructor; cbn; discriminate|]. split; [repeat constructor; cbn; discriminate|].
  split; [vm_compute; discriminate | vm_compute; reflexivity].
Qed.
