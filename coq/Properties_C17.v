(* Properties_C17.v - flags are a pure function of the active configuration. *)
From Msm Require Import Run Lemmas_Misc.

Theorem C17_or_back : forall mc children rn f,
  back_flag_or mc children rn f = true <->
  exists s, In s (act rn) /\
            (has_flag (get_state mc s) f = true \/
             exists co kn, child children s = Some co /\ nth s (kids rn) None = Some kn /\ co_flag_or co kn f = true).
Proof. exact back_flag_or_iff. Qed.
Print Assumptions C17_or_back.

Theorem C17_or_mp11 : forall mc children rn f,
  mflag_or mc children rn f = true <->
  running rn = true /\
  exists s, In s (act rn) /\
            (memb f (s_flags (get_state mc s)) = true \/
             exists co kn, mchild children s = Some co /\ nth s (kids rn) None = Some kn /\ co_flag_or co kn f = true).
Proof. exact mp11_flag_or_iff. Qed.
Print Assumptions C17_or_mp11.

(* AND on a level whose active states are all simple states: true iff the active state of every region carries F *)
Theorem C17_and_back : forall mc children rn f,
  (forall s, In s (act rn) -> child children s = None) ->
  back_flag_and mc children rn f = forallb (fun s => has_flag (get_state mc s) f) (act rn).
Proof. exact back_flag_and_simple. Qed.
Print Assumptions C17_and_back.

(* the answer depends only on the current active configuration (active ids and submachine nodes; for backmp11 also
   whether the machine is running) - never on history memory, queues, counters or how the configuration was reached *)
Theorem C17_pure_back : forall mc children rn rn' f,
  act rn = act rn' -> kids rn = kids rn' ->
  back_flag_or mc children rn f = back_flag_or mc children rn' f /\
  back_flag_and mc children rn f = back_flag_and mc children rn' f.
Proof. exact back_flag_pure. Qed.
Print Assumptions C17_pure_back.

Theorem C17_pure_mp11 : forall mc children rn rn' f,
  act rn = act rn' -> kids rn = kids rn' -> running rn = running rn' ->
  mflag_or mc children rn f = mflag_or mc children rn' f /\
  mflag_and mc children rn f = mflag_and mc children rn' f.
Proof. exact mp11_flag_pure. Qed.
Print Assumptions C17_pure_mp11.
