(* Properties_C17.v - flags are a pure function of the active configuration. *)
From Msm Require Import Run Lemmas_Misc.

Theorem C17_or_back : forall mc children rn f,
  back_flag_or mc children rn f = true <->
  exists s, In s (act rn) /\
            (has_flag (get_state mc s) f = true \/
             exists co kn, child children s = Some co /\ nth s (kids rn) None = Some kn /\ co_flag_or co kn f = true).
Proof. exact back_flag_or_iff. Qed.
Print Assumptions C17_or_back.

Theorem C17_or_mp11 : forall mc children rn f,
  mflag_or mc children rn f = true <->
  running rn = true /\
  exists s, In s (act rn) /\
            (memb f (s_flags (get_state mc s)) = true \/
             exists co kn, mchild children s = Some co /\ nth s (kids rn) None = Some kn /\ co_flag_or co kn f = true).
Proof. exact mp11_flag_or_iff. Qed.
Print Assumptions C17_or_mp11.

(* AND on a level whose active states are all simple states: true iff the active state of every region carries F *)
Theorem C17_and_back : forall mc children rn f,
  (forall s, In s (act rn) -> child children s = None) ->
  back_flag_and mc children rn f = forallb (fun s => has_flag (get_state mc s) f) (act rn).
Proof. exact back_flag_and_simple. Qed.
Print Assumptions C17_and_back.

(* the answer depends only on the current active configuration (active ids and submachine nodes; for backmp11 also
   whether the machine is running) - never on history memory, queues, counters or how the configuration was reached *)
Theorem C17_pure_back : forall mc children rn rn' f,
  act rn = act rn' -> kids rn = kids rn' ->
  back_flag_or mc children rn f = back_flag_or mc children rn' f /\
  back_flag_and mc children rn f = back_flag_and mc children rn' f.
Proof. exact back_flag_pure. Qed.
Print Assumptions C17_pure_back.

Theorem C17_pure_mp11 : forall mc children rn rn' f,
  act rn = act rn' -> kids rn = kids rn' -> running rn = running rn' ->
  mflag_or mc children rn f = mflag_or mc children rn' f /\
  mflag_and mc children rn f = mflag_and mc children rn' f.
Proof. exact mp11_flag_pure. Qed.
Print Assumptions C17_pure_mp11.

(* ---- the whole tree, after any history ---- *)
From Msm Require Import Spec Lemmas_Sim Lemmas_Core Lemmas_SpecMp11 Lemmas_SpecRun Lemmas_SpecFlags.

(* is_flag_active as a recursive function of the abstract configuration (active ids at every depth), for every
   definition - not only the core fragment - and every runtime tree: back / back11, both compile policies *)
Theorem C17_back_or_is_a_function_of_the_configuration : forall cf, c_be cf <> Mp11 -> forall parents mc contained rn f,
  co_flag_or (build cf parents contained mc) rn f = sp_flag_or mc (abs rn) f.
Proof. exact back_flag_or_spec. Qed.
Print Assumptions C17_back_or_is_a_function_of_the_configuration.

Theorem C17_back_and_is_a_function_of_the_configuration : forall cf, c_be cf <> Mp11 -> forall parents mc contained rn f,
  co_flag_and (build cf parents contained mc) rn f = sp_flag_and_back mc (abs rn) f.
Proof. exact back_flag_and_spec. Qed.
Print Assumptions C17_back_and_is_a_function_of_the_configuration.

(* backmp11: for started machines whose active submachine states have been entered (`runs`, implied by the invariant of
   every history); a machine that is not running answers false / true whatever its tree holds *)
Theorem C17_mp11_or_is_a_function_of_the_configuration : forall cf, c_be cf = Mp11 -> forall parents mc contained rn f, runs mc rn ->
  co_flag_or (build cf parents contained mc) rn f = sp_flag_or mc (abs rn) f.
Proof. exact mp11_flag_or_spec. Qed.
Print Assumptions C17_mp11_or_is_a_function_of_the_configuration.

Theorem C17_mp11_and_is_a_function_of_the_configuration : forall cf, c_be cf = Mp11 -> forall parents mc contained rn f, runs mc rn ->
  co_flag_and (build cf parents contained mc) rn f = sp_flag_and_mp11 mc (abs rn) f.
Proof. exact mp11_flag_and_spec. Qed.
Print Assumptions C17_mp11_and_is_a_function_of_the_configuration.

Theorem C17_mp11_stopped : forall cf, c_be cf = Mp11 -> forall parents mc contained rn f, running rn = false ->
  co_flag_or (build cf parents contained mc) rn f = false /\ co_flag_and (build cf parents contained mc) rn f = true.
Proof. exact mp11_flags_stopped. Qed.
Print Assumptions C17_mp11_stopped.

(* after every history of start / events / stop on a core definition: the flags answered are the flag functions of the
   configuration the specification (Spec.v) prescribes *)
Theorem C17_back_flags_after_every_history : forall cf, c_be cf = Back -> forall parents, (forall e, nth e parents None = None) ->
  back_start_queues = true -> forall root, core root -> forall fuel, depth root + 2 <= fuel -> forall l f, Forall plain_op l ->
  let rn' := final_rn cf root (build cf parents false root) fuel (init_rnode root) l in
  let c' := sp_final false (c_pol cf) root (abs (init_rnode root)) l in
  co_flag_or (build cf parents false root) rn' f = sp_flag_or root c' f /\
  co_flag_and (build cf parents false root) rn' f = sp_flag_and_back root c' f.
Proof. exact back_flags_after_history. Qed.
Print Assumptions C17_back_flags_after_every_history.

Theorem C17_mp11_flags_after_every_history : forall cf, c_be cf = Mp11 -> forall parents, (forall e, nth e parents None = None) ->
  mp11_entry_throw_resets = true -> forall root, core root -> m_hist root = HNone -> forall fuel, depth root + 2 <= fuel ->
  forall l f, bracketed false l -> ends_started false l = true ->
  let rn' := final_rn cf root (build cf parents false root) fuel (init_rnode root) l in
  let c' := sp_final true (c_pol cf) root (abs (init_rnode root)) l in
  co_flag_or (build cf parents false root) rn' f = sp_flag_or root c' f /\
  co_flag_and (build cf parents false root) rn' f = sp_flag_and_mp11 root c' f.
Proof. exact mp11_flags_after_history. Qed.
Print Assumptions C17_mp11_flags_after_every_history.

(* ... and after every history that also stores events and processes them (back): the answers are the flag functions of
   the configuration the specification with a pending list ends in *)
From Msm Require Import Lemmas_SpecQueue Lemmas_SpecQueueInv.
Theorem C17_back_flags_after_every_history_with_stored_events : forall cf, c_be cf = Back ->
  forall parents, (forall e, nth e parents None = None) -> back_start_queues = true ->
  forall root, core root -> forall l f, Forall qplain_op l -> count_enq l + depth root + 3 <= default_fuel ->
  let rn' := final_rn cf root (build cf parents false root) default_fuel (init_rnode root) l in
  let c' := fst (sp_qfinal (c_pol cf) root (abs (init_rnode root), []) l) in
  co_flag_or (build cf parents false root) rn' f = sp_flag_or root c' f /\
  co_flag_and (build cf parents false root) rn' f = sp_flag_and_back root c' f.
Proof. exact back_flags_after_queue_history. Qed.
Print Assumptions C17_back_flags_after_every_history_with_stored_events.

Theorem C17_mp11_flags_after_every_history_with_stored_events : forall cf, c_be cf = Mp11 ->
  forall parents, (forall e, nth e parents None = None) -> mp11_entry_throw_resets = true ->
  forall root, core root -> m_hist root = HNone ->
  forall l f, qbracketed false l -> ends_started false l = true -> 2 * count_enq l + depth root + 3 <= default_fuel ->
  let rn' := final_rn cf root (build cf parents false root) default_fuel (init_rnode root) l in
  let c' := fst (sp_qfinal_mp11 (c_pol cf) root (abs (init_rnode root), []) l) in
  co_flag_or (build cf parents false root) rn' f = sp_flag_or root c' f /\
  co_flag_and (build cf parents false root) rn' f = sp_flag_and_mp11 root c' f.
Proof. exact mp11_flags_after_queue_history. Qed.
Print Assumptions C17_mp11_flags_after_every_history_with_stored_events.
