(* Properties_C18.v - event matching by exact type, base class and Kleene; payload integrity. *)
From Msm Require Import Run Lemmas_Rows Lemmas_Misc Lemmas_Rtc Lemmas_C01.

(* a trigger type matches an event iff it is the event's type or reachable by following declared base classes *)
Theorem C18_exact_or_base : forall parents t ety,
  trig_matches parents true (TrEv t) ety = negb (Nat.eqb ety EV_NONE) && is_base_of parents t ety.
Proof. exact exact_matches. Qed.
Print Assumptions C18_exact_or_base.

Theorem C18_base_reflexive : forall parents t, is_base_of parents t t = true.
Proof. exact is_base_of_refl. Qed.
Print Assumptions C18_base_reflexive.

Theorem C18_base_step : forall fuel parents t e p,
  nth e parents None = Some p -> is_base_of_fuel fuel parents t p = true -> is_base_of_fuel (S fuel) parents t e = true.
Proof. exact is_base_of_fuel_step. Qed.
Print Assumptions C18_base_step.

Theorem C18_no_base_means_exact : forall fuel parents t e,
  nth e parents None = None -> is_base_of_fuel fuel parents t e = Nat.eqb t e.
Proof. exact is_base_of_fuel_root. Qed.
Print Assumptions C18_no_base_means_exact.

(* a Kleene trigger matches every event (run-time-speed policies) and nothing under favor_compile_time *)
Theorem C18_kleene : forall parents ety,
  trig_matches parents true TrAny ety = negb (Nat.eqb ety EV_NONE) /\ trig_matches parents false TrAny ety = false.
Proof. intros. split; reflexivity. Qed.
Print Assumptions C18_kleene.

(* exact, base-class and Kleene rows of one state compete purely by table position *)
Theorem C18_competition_by_position : forall cf parents mc s ety x y,
  before (m_rows mc) x y -> r_src x = s -> r_src y = s ->
  row_matches cf parents ety x = true -> row_matches cf parents ety y = true ->
  before (table_rows cf parents mc s ety) y x.
Proof. exact table_rows_last_declared_first. Qed.
Print Assumptions C18_competition_by_position.

(* payload: a behaviour is handed (and logs) exactly the event object it is invoked with; a stored event is taken from
   the queue / the deferred queue and re-dispatched as the very same event value *)
Theorem C18_behaviour_sees_event : forall submit enqueue path k id ev w rn g,
  g_plan g = [] ->
  callback_at submit enqueue path k id ev w rn g = (Some tt, rn, bump g [Cb k path id ev w (act rn)]).
Proof. exact callback_logs_event. Qed.
Print Assumptions C18_behaviour_sees_event.

Theorem C18_queued_event_unchanged : forall pei_rec fuel e src z m rest rn g,
  msgq rn = QEv e src z m :: rest ->
  drain_msgq pei_rec (S fuel) rn g = bind (pei_rec e src) (fun _ => drain_msgq pei_rec fuel) (set_msgq rn rest) g.
Proof. exact back_drain_step. Qed.
Print Assumptions C18_queued_event_unchanged.

Theorem C18_deferred_event_unchanged : forall pei_rec fuel e src z m rest rn g,
  defq rn = QEv e src z m :: rest -> curseq rn = z ->
  deferred_loop pei_rec (S fuel) rn g =
    bind (pei_rec e src) (fun res => if tab1 back_deferred_stops res then ret true else deferred_loop pei_rec fuel)
         (set_defq rn rest) g.
Proof. exact back_deferred_loop_step. Qed.
Print Assumptions C18_deferred_event_unchanged.
