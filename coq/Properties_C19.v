(* Properties_C19.v - active-state-switch policy is what behaviours observe.
   Only statements, each closed by `exact`, with Print Assumptions beneath. *)
From Msm Require Import Run Lemmas_C19.

(* (1) the four policy structs of the current header are the documented table *)
Theorem C19_documented : policy_table = documented_policy_table.
Proof. exact policy_table_documented. Qed.
Print Assumptions C19_documented.

(* (2) what "documented" means, spelled out per phase: the default switches after the target's entry,
   after_transition_action before the entry, after_exit before the action, before_transition right after the guard *)
Theorem C19_phases : forall pol cur next, pol < 4 ->
  observed_id pol 0 cur next = cur /\
  observed_id pol 1 cur next = (if Nat.eqb pol 3 then next else cur) /\
  observed_id pol 2 cur next = (if Nat.leb 2 pol then next else cur) /\
  observed_id pol 3 cur next = (if Nat.leb 1 pol then next else cur) /\
  observed_id pol 4 cur next = next.
Proof. exact observed_id_doc. Qed.
Print Assumptions C19_phases.

(* (3) back / back11, every machine, region, row between simple states, event, runtime state and valuation that
   lets the guard pass: the guard, exit, action and entry behaviours observe exactly observed_id for the
   transitioning region (all other regions unchanged), and afterwards the region is at the target *)
Theorem C19_observed_back : forall cf contained mc fuel r rid cur nxt ev rn g,
  plain_state mc nxt -> c_pol cf < 4 ->
  g_plan g = [] -> memb rid (g_val g) = true ->
  exec_row cf contained mc (no_children mc) fuel r (Row rid cur (TrEv (e_ty ev)) (TgState nxt) true ActCall None) ev rn g =
    (Some HANDLED_TRUE,
     set_act rn (upd (act rn) r nxt),
     Glob (expected_items (c_pol cf) r cur nxt rid ev (act rn) ++ g_tr g)
          (4 + g_cb g) [] (g_val g) (g_up g) (g_bad g)).
Proof. exact back_exec_row_observed. Qed.
Print Assumptions C19_observed_back.

(* (4) the same for backmp11's transition::execute *)
Theorem C19_observed_mp11 : forall cf contained mc fuel r rid cur nxt ev rn g,
  plain_state mc nxt -> c_pol cf < 4 -> is_sub mc nxt = false -> state_has_completion mc nxt = false ->
  g_plan g = [] -> memb rid (g_val g) = true ->
  mexec_row cf contained mc (no_children mc) fuel r (Row rid cur (TrEv (e_ty ev)) (TgState nxt) true ActCall None) ev rn g =
    (Some HANDLED_TRUE,
     set_act rn (upd (act rn) r nxt),
     Glob (expected_items (c_pol cf) r cur nxt rid ev (act rn) ++ g_tr g)
          (4 + g_cb g) [] (g_val g) (g_up g) (g_bad g)).
Proof. exact mp11_exec_row_observed. Qed.
Print Assumptions C19_observed_mp11.

(* non-vacuity: a concrete machine and state meeting the hypotheses, under after_exit *)
Example C19_example :
  let mc := Machine [State KSimple None [] [] [] 0; State KSimple None [] [] [] 0] [0] [] [] HNone in
  let cf := Cfg Back false 2 false in
  plain_state mc 1 /\ c_pol cf < 4 /\
  fst (exec_row cf false mc (no_children mc) 5 0 (Row 7 0 (TrEv 4) (TgState 1) true ActCall None) (Evt 4 9)
         (init_rnode mc) (Glob [] 0 [] [7] [] 0)) = (Some 1, RN [1] [None; None] [0] [] [] 0%Z false false).
Proof. vm_compute. repeat split; auto. Qed.
