(* Properties_C19.v - active-state-switch policy is what behaviours observe.
   Only statements, each closed by `exact`, with Print Assumptions beneath. *)
From Msm Require Import Run Lemmas_C19.

(* (1) the four policy structs of the current header are the documented table *)
Theorem C19_documented : policy_table = documented_policy_table.
Proof. exact policy_table_documented. Qed.
Print Assumptions C19_documented.

(* (2) what "documented" means, spelled out per phase: the default switches after the target's entry,
   after_transition_action before the entry, after_exit before the action, before_transition right after the guard *)
Theorem C19_phases : forall pol cur next, pol < 4 ->
  observed_id pol 0 cur next = cur /\
  observed_id pol 1 cur next = (if Nat.eqb pol 3 then next else cur) /\
  observed_id pol 2 cur next = (if Nat.leb 2 pol then next else cur) /\
  observed_id pol 3 cur next = (if Nat.leb 1 pol then next else cur) /\
  observed_id pol 4 cur next = next.
Proof. exact observed_id_doc. Qed.
Print Assumptions C19_phases.

(* (3) back / back11, every machine, region, row between simple states, event, runtime state and valuation that
   lets the guard pass: the guard, exit, action and entry behaviours observe exactly observed_id for the
   transitioning region (all other regions unchanged), and afterwards the region is at the target *)
Theorem C19_observed_back : forall cf contained mc fuel r rid cur nxt ev rn g,
  plain_state mc nxt -> c_pol cf < 4 ->
  g_plan g = [] -> memb rid (g_val g) = true ->
  exec_row cf contained mc (no_children mc) fuel r (Row rid cur (TrEv (e_ty ev)) (TgState nxt) true ActCall None) ev rn g =
    (Some HANDLED_TRUE,
     set_act rn (upd (act rn) r nxt),
     Glob (expected_items (c_pol cf) r cur nxt rid ev (act rn) ++ g_tr g)
          (4 + g_cb g) [] (g_val g) (g_up g) (g_bad g)).
Proof. exact back_exec_row_observed. Qed.
Print Assumptions C19_observed_back.

(* (4) the same for backmp11's transition::execute *)
Theorem C19_observed_mp11 : forall cf contained mc fuel r rid cur nxt ev rn g,
  plain_state mc nxt -> c_pol cf < 4 -> is_sub mc nxt = false -> state_has_completion mc nxt = false ->
  g_plan g = [] -> memb rid (g_val g) = true ->
  mexec_row cf contained mc (no_children mc) fuel r (Row rid cur (TrEv (e_ty ev)) (TgState nxt) true ActCall None) ev rn g =
    (Some HANDLED_TRUE,
     set_act rn (upd (act rn) r nxt),
     Glob (expected_items (c_pol cf) r cur nxt rid ev (act rn) ++ g_tr g)
          (4 + g_cb g) [] (g_val g) (g_up g) (g_bad g)).
Proof. exact mp11_exec_row_observed. Qed.
Print Assumptions C19_observed_mp11.

(* non-vacuity: a concrete machine and state meeting the hypotheses, under after_exit *)
Example C19_example :
  let mc := Machine [State KSimple None [] [] [] 0; State KSimple None [] [] [] 0] [0] [] [] HNone in
  let cf := Cfg Back false 2 false in
  plain_state mc 1 /\ c_pol cf < 4 /\
  fst (exec_row cf false mc (no_children mc) 5 0 (Row 7 0 (TrEv 4) (TgState 1) true ActCall None) (Evt 4 9)
         (init_rnode mc) (Glob [] 0 [] [7] [] 0)) = (Some 1, RN [1] [None; None] [0] [] [] 0%Z false false).
Proof. vm_compute. repeat split; auto. Qed.

(* ---- outside transitions the policies are indistinguishable (whole machines, whole histories) ---- *)
From Msm Require Import Spec Lemmas_Sim Lemmas_Core Lemmas_SpecRun Lemmas_SpecPolicy.

(* on the specification function (Spec.v): one transition under any policy is the policy-free reading "leave, act, enter,
   place the region on the target" - same invocations up to the ids they read, same resulting configuration *)
Theorem C19_spec_transition_policy_free : forall pol mc r x ev c, pol < 4 ->
  E (fst (sp_take pol mc r x ev c)) = E (fst (sp_take0 mc r x ev c)) /\ snd (sp_take pol mc r x ev c) = snd (sp_take0 mc r x ev c).
Proof. exact sp_take_policy_free. Qed.
Print Assumptions C19_spec_transition_policy_free.

Theorem C19_spec_step_policy_free : forall p1 p2, p1 < 4 -> p2 < 4 -> forall mc ev val c,
  oeq (sp_process p1 mc ev val c) (sp_process p2 mc ev val c).
Proof. exact sp_process_policy. Qed.
Print Assumptions C19_spec_step_policy_free.

(* for the engines: any two configurations (back / back11 / backmp11, either compile policy) under any two of the four
   policies, every core definition, every history of start / events / stop, every guard valuation: same behaviour
   invocations in the same order (only the ids they read from the fsm argument may differ - that is what the policy is
   about), same active ids at every level after every operation, same handled / rejected outcome *)
Theorem C19_policies_indistinguishable_outside_transitions : forall cf1 cf2 md l,
  c_pol cf1 < 4 -> c_pol cf2 < 4 ->
  flat_events md -> core (md_root md) -> cfg_fits cf1 md -> cfg_fits cf2 md ->
  depth (md_root md) + 2 <= default_fuel -> back_start_queues = true -> mp11_entry_throw_resets = true ->
  bracketed false l ->
  Forall2 same_step_obs (run cf1 md l) (run cf2 md l).
Proof. exact policies_indistinguishable_outside_transitions. Qed.
Print Assumptions C19_policies_indistinguishable_outside_transitions.

(* the hypotheses are met, and the policy does show in what the behaviours read *)
Example C19_policies_example :
  core (md_root ex_core_md) /\ bracketed false ex_core_ops /\ flat_events ex_core_md /\
  cfg_fits (Cfg Back false 0 false) ex_core_md /\ cfg_fits (Cfg Mp11 false 3 false) ex_core_md /\
  run (Cfg Back false 0 false) ex_core_md ex_core_ops <> run (Cfg Back false 3 false) ex_core_md ex_core_ops.
Proof.
  split; [exact ex_core_ok|]. split; [cbn; repeat split; discriminate|]. split; [intros [|e]; reflexivity|].
  split; [exact I|]. split; [reflexivity|]. vm_compute. discriminate.
Qed.
