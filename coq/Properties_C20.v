(* Properties_C20.v - stored events are destroyed exactly once (object ledger of basic_polymorphic). *)
From Msm Require Import Base Store Lemmas_Store.

(* the ledger invariant holds initially and is kept by every operation the library performs on a pooled event:
   no object identity is in two cells, nothing dead is held by a cell, nothing is destroyed twice,
   every created object is alive in a cell or dead *)
Theorem C20_ledger_invariant : forall n ops, Inv (srun (init_store n) ops).
Proof. intros. apply Inv_run. apply Inv_init. Qed.
Print Assumptions C20_ledger_invariant.

Theorem C20_step_keeps_ledger : forall s o, Inv s -> wf_op s o = true -> Inv (sstep s o).
Proof. exact Inv_step. Qed.
Print Assumptions C20_step_keeps_ledger.

(* for every history of make / copy / assign / move / destroy: once all cells are destroyed (container cleared,
   machine destroyed) no object is alive and every object ever created was destroyed exactly once *)
Theorem C20_destroyed_exactly_once : forall n ops,
  let s := destroy_all (srun (init_store n) ops) in
  live_ids s = [] /\ NoDup (dead s) /\ (forall x, In x (born s) <-> In x (dead s)).
Proof. exact all_destroyed_exactly_once. Qed.
Print Assumptions C20_destroyed_exactly_once.

(* a copy holds the value of its source *)
Theorem C20_copy_keeps_value : forall s i src,
  i < length (cells s) -> cell_value (get_cell (copy_into s i src) i) = cell_value src.
Proof. exact copy_value. Qed.
Print Assumptions C20_copy_keeps_value.

(* the inline rule of the model is the documented one *)
Theorem C20_inline_rule : forall t,
  is_inline t = true <-> t_size t <= 56 /\ t_align t <= 8 /\ t_nothrow_move t = true.
Proof.
  intros t. unfold is_inline, buffer_size, buffer_align. rewrite !andb_true_iff, !Nat.leb_le. tauto.
Qed.
Print Assumptions C20_inline_rule.

Example C20_example :
  let t := Ety 24 8 true false in
  let s := srun (init_store 3) [SMake 0 t 7; SCopyCtor 1 0; SMoveAssign 2 1; SDestroy 0] in
  map cell_value (cells s) = [None; Some 0; Some 7] /\ length (born s) = 3 /\ length (dead s) = 1.
Proof. vm_compute. auto. Qed.
